"""Extra, non-Coq stages of some checks (runtime facts a theorem cannot carry): stack use (C19), determinism across
   processes and hash seeds (C14)."""
import os, json, subprocess, filecmp, glob, shutil, signal

FAMILIES = ["chain", "chain_bonds", "dots", "dot_rings", "branches", "comb", "comb_stereo", "brackets", "nested8"]
SPAN_LIMIT = 64 * 1024   # bytes of stack between the shallowest and deepest follower callback, nesting <= 8


def c19_stack(run, mod):
    n = 200000 if run.tier == "quick" else 1000000
    results = []
    for fam in FAMILIES:
        try:
            r = subprocess.run([os.path.join(mod.BIN, "stack"), fam, str(n)], stdout=subprocess.PIPE, stderr=subprocess.PIPE, text=True, timeout=600, env=mod.ENV)
            rc, out, err = r.returncode, r.stdout, r.stderr
        except subprocess.TimeoutExpired:
            rc, out, err = 124, "", "timeout"
        row = None
        for line in out.splitlines():
            if line.startswith("{"):
                try: row = json.loads(line)
                except Exception: pass
        ok = rc == 0 and row is not None and row.get("ok") and row.get("read_span_bytes", 1 << 30) <= SPAN_LIMIT and row.get("walk_span_bytes", 1 << 30) <= SPAN_LIMIT
        results.append({"family": fam, "n": n, "rc": rc, "result": row, "stderr": err[-200:]})
        run.obligations.append({"name": "stack family %s at n=%d completes on an 8 MiB stack with span <= %d bytes" % (fam, n, SPAN_LIMIT), "kind": "run of the implementation in a child process", "discharged": bool(ok)})
        if not ok:
            why = "aborted (signal or panic)" if rc not in (0,) else "stack span or result out of bounds"
            run.failing.append({"check": "C19.stack_family", "input": "%s n=%d" % (fam, n), "observed": row, "rc": rc, "why": why + " " + err[-160:]})
    run.coverage["stack_families"] = results
    run.samples.append(results[0])


def c14_determinism(run, mod):
    """the same generated graphs written in two separate processes (std RandomState reseeds per process and per map) must give identical files"""
    base = os.path.join(mod.CACHE, "det")
    shutil.rmtree(base, ignore_errors=True)
    outs = []
    n = 600 if run.tier == "quick" else 12000
    for k in range(3):
        d = os.path.join(base, str(k)); os.makedirs(d)
        rc, out, err, dt = mod.sh([os.path.join(mod.BIN, "corr"), "walk", str(n), d, "1"], env=dict(mod.ENV, VERIF_SEED=str(run.seed)))
        if rc:
            run.broken.append({"what": "determinism: corr walk failed", "detail": err[-300:]}); return
        outs.append(os.path.join(d, "cases_walk_0.v"))
    same = all(filecmp.cmp(outs[0], o, shallow=False) for o in outs[1:])
    run.obligations.append({"name": "three processes write %d generated graphs to identical text" % n, "kind": "run of the implementation in separate processes (different hash seeds)", "discharged": same})
    if not same:
        a = open(outs[0]).read().splitlines(); b = [open(o).read().splitlines() for o in outs[1:]]
        diff = next((i for i in range(len(a)) if any(i >= len(x) or x[i] != a[i] for x in b)), None)
        run.failing.append({"check": "C14.same_output_across_processes", "input": (a[diff][:400] if diff is not None else None), "why": "output differs between processes"})
    rc, out, err, _ = mod.sh(["python3", "tools/lint_maps.py", mod.REPO])
    run.obligations.append({"name": "source lint: hash maps and heaps are never iterated", "kind": "lint", "discharged": rc == 0})
    if rc:
        run.broken.append({"what": "source lint: a std hash map or heap is iterated (output may depend on the hash seed)", "detail": out[-600:]})
    shutil.rmtree(base, ignore_errors=True)
    run.coverage["determinism_processes"] = 3


def c04_deep(run, mod):
    """deeply nested (legal) input is accepted: nesting may consume stack but is not limited by the grammar"""
    for depth in (1500, 6000):
        try:
            r = subprocess.run([os.path.join(mod.BIN, "stack"), "deep", str(depth)], stdout=subprocess.PIPE, stderr=subprocess.PIPE, text=True, timeout=300, env=mod.ENV)
            rc, out, err = r.returncode, r.stdout, r.stderr
        except subprocess.TimeoutExpired:
            rc, out, err = 124, "", "timeout"
        row = None
        for line in out.splitlines():
            if line.startswith("{"):
                try: row = json.loads(line)
                except Exception: pass
        ok = rc == 0 and row is not None and row.get("ok") and row.get("atoms") == depth + 1
        run.obligations.append({"name": "branches nested %d deep are read, built and traversed" % depth, "kind": "run of the implementation in a child process", "discharged": bool(ok)})
        if not ok:
            run.failing.append({"check": run.pid + ".deep_nesting", "input": "C + (C * %d + ) * %d" % (depth, depth), "observed": row, "rc": rc, "why": err[-200:]})


def big_families(run, mod):
    """large but shallow molecules go through read + trace + build + walk + write (C01's round trip at sizes the Coq evaluation does not reach)"""
    for fam, n in (("chain", 70000), ("branches", 30000), ("comb", 8000), ("dot_rings", 9000), ("nested8", 9000), ("brackets", 3000)):
        try:
            r = subprocess.run([os.path.join(mod.BIN, "stack"), fam, str(n)], stdout=subprocess.PIPE, stderr=subprocess.PIPE, text=True, timeout=300, env=mod.ENV)
            rc, out, err = r.returncode, r.stdout, r.stderr
        except subprocess.TimeoutExpired:
            rc, out, err = 124, "", "timeout"
        row = None
        for line in out.splitlines():
            if line.startswith("{"):
                try: row = json.loads(line)
                except Exception: pass
        ok = rc == 0 and row is not None and row.get("ok")
        run.obligations.append({"name": "family %s with n=%d is read, built, traversed and written" % (fam, n), "kind": "run of the implementation in a child process", "discharged": bool(ok)})
        if not ok:
            run.failing.append({"check": run.pid + ".large_molecule", "input": "%s n=%d" % (fam, n), "observed": row, "rc": rc, "why": err[-200:]})
