"""Extra, non-Coq stages of some checks (runtime facts a theorem cannot carry): stack use (C19), determinism across
   processes and hash seeds (C14)."""
import os, json, subprocess, filecmp, glob, shutil, signal

FAMILIES = ["chain", "chain_bonds", "dots", "dot_rings", "branches", "comb", "comb_stereo", "brackets", "nested8", "long_branch", "tail_branch", "macrocycle", "stereo_chain", "dots_in_branch", "chain_dot_branch"]
SPAN_LIMIT = 64 * 1024   # bytes of stack between the shallowest and deepest follower callback, nesting <= 8


def c19_stack(run, mod):
    n = 200000 if run.tier == "quick" else 1000000
    results = []
    n_all = n
    for fam in FAMILIES:
        # the traversal's validation pass is quadratic in the degree of a hub: the one-hub family stays at 200 000
        n = min(n_all, 200000) if fam == "branches" else n_all
        try:
            r = subprocess.run([os.path.join(mod.BIN, "stack"), fam, str(n)], stdout=subprocess.PIPE, stderr=subprocess.PIPE, text=True, timeout=600, env=mod.ENV)
            rc, out, err = r.returncode, r.stdout, r.stderr
        except subprocess.TimeoutExpired:
            rc, out, err = 124, "", "timeout"
        row = None
        for line in out.splitlines():
            if line.startswith("{"):
                try: row = json.loads(line)
                except Exception: pass
        ok = rc == 0 and row is not None and row.get("ok") and row.get("read_span_bytes", 1 << 30) <= SPAN_LIMIT and row.get("walk_span_bytes", 1 << 30) <= SPAN_LIMIT
        results.append({"family": fam, "n": n, "rc": rc, "result": row, "stderr": err[-200:]})
        run.obligations.append({"name": "stack family %s at n=%d completes on an 8 MiB stack with span <= %d bytes" % (fam, n, SPAN_LIMIT), "kind": "run of the implementation in a child process", "discharged": bool(ok)})
        if not ok:
            why = "aborted (signal or panic)" if rc not in (0,) else "stack span or result out of bounds"
            run.failing.append({"check": "C19.stack_family", "input": "%s n=%d" % (fam, n), "observed": row, "rc": rc, "why": why + " " + err[-160:]})
    # the same families on a 512 KiB stack: any recursion per atom, bond, dot or ring digit (in the reader, the trace, the builder, the
    # traversal or the writer, whether or not a follower callback sees it) needs megabytes at this size; nesting in these families is <= 8
    small = []
    for fam in FAMILIES:
        n = 200000
        try:
            r = subprocess.run([os.path.join(mod.BIN, "stack"), fam, str(n), "512"], stdout=subprocess.PIPE, stderr=subprocess.PIPE, text=True, timeout=600, env=mod.ENV)
            rc, out, err = r.returncode, r.stdout, r.stderr
        except subprocess.TimeoutExpired:
            rc, out, err = 124, "", "timeout"
        row = None
        for line in out.splitlines():
            if line.startswith("{"):
                try: row = json.loads(line)
                except Exception: pass
        ok = rc == 0 and row is not None and row.get("ok")
        small.append({"family": fam, "n": n, "stack_kib": 512, "rc": rc, "ok": bool(ok)})
        run.obligations.append({"name": "stack family %s at n=%d completes on a 512 KiB stack" % (fam, n), "kind": "run of the implementation in a child process", "discharged": bool(ok)})
        if not ok:
            run.failing.append({"check": "C19.stack_family", "input": "%s n=%d on a 512 KiB stack" % (fam, n), "observed": row, "rc": rc, "why": "aborted (signal or panic) " + err[-160:]})
    run.coverage["stack_families"] = results
    run.coverage["stack_families_small_stack"] = small
    run.samples.append(results[0])


def c14_determinism(run, mod):
    """the same generated graphs written in two separate processes (std RandomState reseeds per process and per map) must give identical files"""
    base = os.path.join(mod.CACHE, "det")
    shutil.rmtree(base, ignore_errors=True)
    outs = []
    n = 600 if run.tier == "quick" else 12000
    for k in range(3):
        d = os.path.join(base, str(k)); os.makedirs(d)
        rc, out, err, dt = mod.sh([os.path.join(mod.BIN, "corr"), "walk", str(n), d, "1"], env=dict(mod.ENV, VERIF_SEED=str(run.seed)))
        if rc:
            run.broken.append({"what": "determinism: corr walk failed", "detail": err[-300:]}); return
        outs.append(os.path.join(d, "cases_walk_0.v"))
    same = all(filecmp.cmp(outs[0], o, shallow=False) for o in outs[1:])
    run.obligations.append({"name": "three processes write %d generated graphs to identical text" % n, "kind": "run of the implementation in separate processes (different hash seeds)", "discharged": same})
    if not same:
        a = open(outs[0]).read().splitlines(); b = [open(o).read().splitlines() for o in outs[1:]]
        diff = next((i for i in range(len(a)) if any(i >= len(x) or x[i] != a[i] for x in b)), None)
        run.failing.append({"check": "C14.same_output_across_processes", "input": (a[diff][:400] if diff is not None else None), "why": "output differs between processes"})
    rc, out, err, _ = mod.sh(["python3", "tools/lint_maps.py", mod.REPO])
    run.obligations.append({"name": "source lint: hash maps and heaps are never iterated", "kind": "lint", "discharged": rc == 0})
    if rc:
        run.broken.append({"what": "source lint: a std hash map or heap is iterated (output may depend on the hash seed)", "detail": out[-600:]})
    shutil.rmtree(base, ignore_errors=True)
    run.coverage["determinism_processes"] = 3


def c04_deep(run, mod):
    """deeply nested (legal) input is accepted: nesting may consume stack but is not limited by the grammar"""
    for depth in (1500, 6000):
        try:
            r = subprocess.run([os.path.join(mod.BIN, "stack"), "deep", str(depth)], stdout=subprocess.PIPE, stderr=subprocess.PIPE, text=True, timeout=300, env=mod.ENV)
            rc, out, err = r.returncode, r.stdout, r.stderr
        except subprocess.TimeoutExpired:
            rc, out, err = 124, "", "timeout"
        row = None
        for line in out.splitlines():
            if line.startswith("{"):
                try: row = json.loads(line)
                except Exception: pass
        ok = rc == 0 and row is not None and row.get("ok") and row.get("atoms") == depth + 1
        run.obligations.append({"name": "branches nested %d deep are read, built and traversed" % depth, "kind": "run of the implementation in a child process", "discharged": bool(ok)})
        if not ok:
            run.failing.append({"check": run.pid + ".deep_nesting", "input": "C + (C * %d + ) * %d" % (depth, depth), "observed": row, "rc": rc, "why": err[-200:]})


LARGE_FAMILIES = ["chain", "chain_bonds", "macrocycle", "macro2", "branches_c", "tail_branch", "long_branch", "hub_then_ring", "hub_ring_first", "spiro",
                  "rings_then_unmatched", "rings_then_duplicate", "ladder", "stereo_chain", "dot_rings", "dots", "comb", "comb_stereo", "nested8", "brackets", "branches", "dots_in_branch", "chain_dot_branch"]
HUBS = ("branches_c", "hub_then_ring", "hub_ring_first", "branches")      # quadratic in the degree: kept below 66 000
# which property a failing stage of the large-molecule runner speaks about
STAGE_OWNERS = [
    ("read", ("C04", "C09", "C01")), ("written text is refused", ("C04", "C09", "C01")),
    ("panics", ("C06", "C09")), ("differs from the input in normal form", ("C09", "C01", "C07")), ("aborted", ("C06", "C19")),
    ("built graph is not the denotation", ("C02", "C10")),
    ("trace", ("C15",)),
    ("walk", ("C11", "C06", "C01")),
    ("traversal", ("C01", "C08", "C12", "C03")), ("written text", ("C01", "C09", "C14")), ("graph read from the written text", ("C01", "C09", "C14")),
]


def large_molecules(run, mod):
    """regular molecules around the sizes where 8-, 16- and 17-bit quantities wrap, through read / trace / build / walk / write in
       child processes; judged by the harness's reference denotation (tied to the Coq specification by the `ref` suite) and by the text fixed point"""
    from concurrent.futures import ThreadPoolExecutor
    sizes = [257, 65539, 70001] if run.tier == "quick" else [100, 255, 256, 257, 300, 65534, 65535, 65536, 65537, 65538, 65539, 65540, 70001, 131072, 131074, 131076, 196611, 300000]
    jobs = [(f, n) for f in LARGE_FAMILIES for n in sizes if not (f in HUBS and n > 66000)]
    # just past 2^20 items of one kind, for the families whose cost is linear
    jobs += [(f, 1048600) for f in ("chain", "dots", "dot_branches", "comb", "brackets", "tail_branch", "dot_rings")]
    def one(job):
        f, n = job
        try:
            r = subprocess.run([os.path.join(mod.BIN, "large"), f, str(n)], stdout=subprocess.PIPE, stderr=subprocess.PIPE, text=True, timeout=900, env=mod.ENV)
            rc, out, err = r.returncode, r.stdout, r.stderr
        except subprocess.TimeoutExpired:
            rc, out, err = 124, "", "timeout"
        row = None
        for line in out.splitlines():
            if line.startswith("{"):
                try: row = json.loads(line)
                except Exception: pass
        return f, n, rc, row, err
    with ThreadPoolExecutor(max_workers=16) as ex:
        rows = list(ex.map(one, jobs))
    mine = 0; bad = 0
    for f, n, rc, row, err in rows:
        ok = rc == 0 and row is not None and row.get("ok")
        stage = "ok" if ok else (row.get("stage") if row else "aborted (signal %s)" % rc)
        owners = set()
        for key, props in STAGE_OWNERS:
            if key in stage: owners.update(props)
        if not ok and not owners: owners = {"C01", "C06"}
        if ok or run.pid in owners:
            mine += 1
        if not ok and run.pid in owners:
            bad += 1
            run.failing.append({"check": run.pid + ".large_molecule", "input": "family %s n=%d (harness/src/lib.rs: family)" % (f, n), "stage": stage, "observed": row, "rc": rc, "why": (err or "")[-200:]})
    run.obligations.append({"name": "%d large regular molecules (%d families, sizes %s) read, traced, built, traversed, written and re-read as the reference denotation says" % (len(jobs), len(LARGE_FAMILIES), sizes),
                            "kind": "runs of the implementation in child processes against the reference denotation", "discharged": bad == 0})
    run.coverage["large_molecules"] = {"runs": len(jobs), "sizes": sizes, "families": LARGE_FAMILIES, "failing_for_this_property": bad}


def big_families(run, mod):
    """large but shallow molecules go through read + trace + build + walk + write (C01's round trip at sizes the Coq evaluation does not reach)"""
    for fam, n in (("chain", 70000), ("branches", 30000), ("comb", 8000), ("dot_rings", 9000), ("nested8", 9000), ("brackets", 3000)):
        try:
            r = subprocess.run([os.path.join(mod.BIN, "stack"), fam, str(n)], stdout=subprocess.PIPE, stderr=subprocess.PIPE, text=True, timeout=300, env=mod.ENV)
            rc, out, err = r.returncode, r.stdout, r.stderr
        except subprocess.TimeoutExpired:
            rc, out, err = 124, "", "timeout"
        row = None
        for line in out.splitlines():
            if line.startswith("{"):
                try: row = json.loads(line)
                except Exception: pass
        ok = rc == 0 and row is not None and row.get("ok")
        run.obligations.append({"name": "family %s with n=%d is read, built, traversed and written" % (fam, n), "kind": "run of the implementation in a child process", "discharged": bool(ok)})
        if not ok:
            run.failing.append({"check": run.pid + ".large_molecule", "input": "%s n=%d" % (fam, n), "observed": row, "rc": rc, "why": err[-200:]})
