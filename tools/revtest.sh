#!/bin/sh
# usage: tools/revtest.sh "<grep of fix commit subject>" C13 C06 ...   -- reverse-apply a fix in /repo, run checks, restore
pat="$1"; shift
h=$(git -C /repo log --format=%h --grep="$pat" | head -1)
[ -n "$h" ] || { echo "no commit matches $pat"; exit 2; }
git -C /repo show $h | git -C /repo apply -R || exit 2
for p in "$@"; do printf "%s on reversed %s: " $p "$h"; /verif/check $p | grep -c VIOLATION | tr '\n' ' '; echo; done
git -C /repo checkout -- . ; git -C /repo clean -fdq -- src
