#!/bin/bash
# usage: tools/seedtest.sh <worktree> <letter> <seed-id> <prop> [more props]
# confirms a seeded change (tests still pass, demo fails with it and passes without), runs ./check against it, stores it under seeded/<seed-id>/
wt=$1; L=$2; id=$3; shift 3
export CARGO_TARGET_DIR=$wt/target CARGO_NET_OFFLINE=true
cd $wt && git checkout -q -- src && rm -f tests/*.rs
mkdir -p tests && cp out/${L}_demo.rs tests/demo_${L}.rs
base=$(cargo test --offline --test demo_${L} 2>&1 | grep -E "^test result" | head -1)
git apply out/${L}.patch || { echo "patch does not apply"; exit 2; }
rm -f tests/demo_${L}.rs
suite=$(cargo test --offline 2>&1 | grep -E "^test result" | tr '\n' ' ')
cp out/${L}_demo.rs tests/demo_${L}.rs
withp=$(cargo test --offline --test demo_${L} 2>&1 | grep -E "^test result" | head -1)
git checkout -q -- src; rm -f tests/demo_${L}.rs
echo "demo without patch: $base"; echo "suite with patch: $suite"; echo "demo with patch: $withp"
git -C /repo apply $wt/out/${L}.patch || exit 2
res=""
for p in "$@"; do n=$(/verif/check $p | grep -c VIOLATION); res="$res $p:$n"; done
git -C /repo checkout -- . ; git -C /repo clean -fdq -- src
echo "checks (violation lines):$res"
d=/verif/seeded/$id; mkdir -p $d; cp $wt/out/${L}.patch $d/patch.diff; cp $wt/out/${L}_demo.rs $d/demo.rs; cp $wt/out/${L}_notes.txt $d/notes.txt
python3 - "$d" "$id" "$base" "$suite" "$withp" "$res" "$@" <<'PY'
import json,sys
d,id_,base,suite,withp,res=sys.argv[1:7]; props=sys.argv[7:]
json.dump({"seed":id_,"breaks":props[0],"also_checked":props[1:],"needs_to_manifest":open(d+"/notes.txt").read()[:1500],
 "confirmed":{"demo_without_patch":base,"existing_suite_with_patch":suite,"demo_with_patch":withp},
 "ran":"cargo test --offline (suite and demo) in a scratch worktree with and without patch.diff; then `git -C /repo apply patch.diff; ./check <id>; git -C /repo checkout -- .`",
 "check_result_violation_lines":res.strip()},open(d+"/meta.json","w"),indent=1)
PY
