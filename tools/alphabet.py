#!/usr/bin/env python3
"""Extract the alphabet of the token readers: every character literal and every literal range occurring in
   /repo/src/read/*.rs (non-test code), plus a lint: any character classification other than literal patterns
   and is_ascii_digit is reported (exit 2). Prints the alphabet as one string on stdout."""
import re, sys, os, glob
REPO = sys.argv[1] if len(sys.argv) > 1 else "/repo"
chars = set(); lint = []
for path in sorted(glob.glob(os.path.join(REPO, "src/read/*.rs"))):
    src = open(path).read()
    cut = src.find("#[cfg(test)]")
    if cut >= 0: src = src[:cut]
    src = re.sub(r"//[^\n]*", "", src)
    for m in re.finditer(r"'(\\.|[^'\\])'\s*\.\.=\s*'(\\.|[^'\\])'", src):
        lo, hi = m.group(1), m.group(2)
        un = lambda x: {"\\\\": "\\", "\\'": "'", "\\n": "\n", "\\t": "\t"}.get(x, x)
        for c in range(ord(un(lo)), ord(un(hi)) + 1): chars.add(chr(c))
    for m in re.finditer(r"'(\\.|[^'\\])'", src):
        x = m.group(1); chars.add({"\\\\": "\\", "\\'": "'", "\\n": "\n", "\\t": "\t"}.get(x, x))
    for m in re.finditer(r"\.(is_[a-z_]+|to_ascii_[a-z]+|to_digit|eq_ignore_ascii_case|is_alphabetic|is_numeric)\b", src):
        if m.group(1) == "is_ascii_digit": chars.update("0123456789")
        elif m.group(1) in ("is_done", "is_some", "is_none", "is_empty", "is_zero"): pass
        else: lint.append("%s: character classification %s not understood by the learner" % (path, m.group(1)))
sys.stdout.write("".join(sorted(chars)))
if lint:
    sys.stderr.write("\n".join(lint) + "\n"); sys.exit(2)
