#!/usr/bin/env python3
"""Regenerate MANIFEST.json from tools/registry.py and the claim texts below."""
import json, os, sys
ROOT = os.path.dirname(os.path.dirname(os.path.abspath(__file__)))
sys.path.insert(0, os.path.join(ROOT, "tools"))
from registry import PROPS
from claims import CLAIMS
props = [json.loads(l) for l in open(os.path.join(ROOT, "properties.jsonl"))]
NOTE = ("Trusted: Coq 8.16.1 kernel + vm_compute (no native_compute, no axioms: every theorem prints 'Closed under the global context'), rustc/cargo, "
        "tools/gen_enums.py, tools/alphabet.py, harness dump_tables / learn_trees / corr (Rust, path dependency on /repo built with --cfg purr_verif), "
        "the hand-written models of coq/Model tied to the code by the correspondence suites, std collections/fmt/parse. See DESIGN.md section 6.")
m = {"version": 1, "setup_cmd": "./setup.sh",
     "hooks": {"guard": "purr_verif", "enable": "RUSTFLAGS=\"--cfg purr_verif\" (set by ./check and ./setup.sh for the harness build that links /repo as a path dependency)",
               "baseline_off_cmd": "cd /repo && cargo test --workspace --no-fail-fast --offline", "source_commits": ["2fe7486"], "add_only": True},
     "engines": [{"name": "coq", "path": "coq", "serves_properties": sorted(PROPS), "kind_free_text": "Coq 8.16.1 development: generated tables and token tries, hand models, specifications, proofs"},
                 {"name": "harness", "path": "harness", "serves_properties": sorted(PROPS), "kind_free_text": "Rust crate linking /repo: dump_tables, learn_trees, corr (correspondence case generator)"}],
     "checks": [], "not_applicable": [],
     "notes": "See DESIGN.md. ./check <id> --tier quick|thorough; known findings in known_findings.json; seeded changes in seeded/."}
for p in props:
    i = p["id"]
    if i in PROPS and i in CLAIMS:
        c = CLAIMS[i]
        m["checks"].append({"property_id": i, "quick_cmd": "./check %s --tier quick" % i, "thorough_cmd": "./check %s --tier thorough" % i,
                            "evidence_file": "evidence/%s.json" % i, "replay_cmd_template": "./check %s --replay {path}" % i, "engine": "coq",
                            "level_claimed": {"category": c.get("category", "proof"), "text": c["text"], "design_ref": c["design_ref"]},
                            "level_note": c.get("note", NOTE), "technique": c["technique"]})
    else:
        m["not_applicable"].append({"property_id": i, "reason": "check not yet registered at this commit (framework under construction; DESIGN.md section 7 gives the staging)"})
json.dump(m, open(os.path.join(ROOT, "MANIFEST.json"), "w"), indent=1)
print("claimed:", [c["property_id"] for c in m["checks"]])
