#!/usr/bin/env python3
"""Regenerate the table of seeded changes in DESIGN.md (section 0.5) from seeded/*/meta.json."""
import json, os, re
root = os.path.dirname(os.path.dirname(os.path.abspath(__file__)))
p = os.path.join(root, "DESIGN.md"); s = open(p).read()
lines = []
for d in sorted(os.listdir(os.path.join(root, "seeded"))):
    m = json.load(open(os.path.join(root, "seeded", d, "meta.json")))
    first = [l for l in m["needs_to_manifest"].splitlines() if l.strip()][0].strip()
    lines.append("| %s | %s | %s |" % (d, m["check_result_violation_lines"], first[:110]))
head = "| seed | violation lines per check run | first line of the author's notes |\n|---|---|---|\n"
i = s.index(head); j = s.index("\n\n", i)
s = s[:i] + head + "\n".join(lines) + s[j:]
open(p, "w").write(s)
print(len(lines), "rows")
