"""Per-property configuration of ./check: which lemma files to build, which statement file to compile, which probes
   (finite checks listing offending rows) and which correspondence/oracle suites to run."""
PROPS = {}
import extras

PROPS["C18"] = {
    "deps": ["Proofs/C18_conv.vo"],
    "props": "Props/C18.v",
    "probes": [{"file": "Probes/C18.v"}],
    "assumptions": ["String::parse::<u16>, Display and TryFrom dispatch are std/rustc", "a dumped table is the function on its whole domain (dump_tables iterates the complete domain: all i8, u8, u16, all digit strings of length <= 5)"],
}

T3 = ["hand transcription of read.rs, writer.rs, builder.rs, walk.rs, join_pool.rs, trace.rs, atom.rs into coq/Model/*.v, tied to the code by the correspondence suites (harness/src/bin/corr.rs -> coq/Corr/cases_*.v evaluated by coqc/vm_compute)"]
PROPS["C08"] = {
    "deps": ["Proofs/WalkInv.vo", "Proofs/ReaderConf.vo", "Proofs/BuilderMore.vo", "Proofs/DfsOrderClosed.vo"],
    "props": "Props/C08.v",
    "suites": [("reader", 800, 20000), ("walk", 600, 12000), ("hist", 300, 4000), ("pool", 300, 6000)],
    "owner": lambda name: name.startswith("C08.") or name in ("C13.pool_smallest_free", "C13.walk_joins_smallest_free"),
    "assumptions": ["followers are passive: read/walk never inspect a follower's state, so the event list is a function of the input alone (checked by feeding four followers the same input)"],
}

PROPS["C13"] = {
    "deps": ["Proofs/PoolReach.vo"],
    "props": "Props/C13.v",
    "suites": [("pool", 600, 20000), ("pool_exh", 0, 37448), ("walk", 600, 12000)],
    "assumptions": ["std HashMap and BinaryHeap behave as a finite map and a priority queue (which order the heap extracts is fixed by the pool correspondence, not assumed)",
                    "Rnum::try_from agrees with `n < 100` (theorem C18_rnum_try_from_exact)"],
}

PROPS["C16"] = {
    "deps": ["Proofs/Valence.vo"],
    "props": "Props/C16.v",
    "probes": [{"file": "Probes/Valence.v"}],
    "suites": [("kind", 600, 20000), ("atom", 300, 6000)],
    "assumptions": ["debracket is dumped over 127 symbols x 11 hydrogen counts x all 256 sums with the other fields absent; its independence of the other fields is probed by the dump program and by the kind correspondence"],
}
PROPS["C17"] = {
    "deps": ["Proofs/Valence.vo"],
    "props": "Props/C17.v",
    "probes": [{"file": "Probes/Valence.v"}],
    "suites": [("atom", 600, 20000)],
    "assumptions": ["the accumulator of Atom::subvalence is usize; sums beyond usize::MAX are not modelled"],
}

PROPS["C07"] = {
    "deps": ["Proofs/C07.vo", "Proofs/TokenFacts.vo"],
    "props": "Props/C07.v",
    "probes": [{"file": "Probes/Token.v"}],
    "suites": [("kind", 800, 30000)],
    "assumptions": ["Display of Number is the decimal numeral (std fmt); display strings are ASCII so bytes are code points",
                    "the sequencing of read_bracket / read_atom over the token tries is a hand transcription (Model/Token.v) tied by the kind correspondence (verif_read_atom hook)"],
}

PROPS["C09"] = {
    "deps": ["Proofs/C09_Final.vo"],
    "props": "Props/C09.v",
    "probes": [{"file": "Probes/Token.v", "filter": lambda name: name.startswith("C07.reads_") or name.startswith("C07.display_")}],
    "suites": [("hist", 800, 20000), ("reader", 600, 12000)],
    "extra": [extras.large_molecules],
    "assumptions": ["event values are in range (isotope/map below 1000, ring number below 100): guaranteed by the feature types' constructors (C18)"],
}

PROPS["C06"] = {
    "deps": ["Proofs/C06.vo"],
    "props": "Props/C06.v",
    "probes": [{"file": "Probes/Token.v", "filter": lambda name: name.startswith("C06.")}],
    "suites": [("reader", 800, 20000), ("walk", 600, 12000), ("hist", 500, 10000), ("atom", 300, 6000), ("pool", 200, 2000)],
    "assumptions": ["panics are compared by site through the panic message (harness catch_unwind); the harness is built with overflow checks and debug assertions on",
                    "process abort by stack exhaustion is C19's subject; memory exhaustion is not modelled"],
}

PROPS["C11"] = {
    "deps": ["Proofs/C11.vo"],
    "props": "Props/C11.v",
    "suites": [("walk", 1000, 30000)],
    "assumptions": ["well-formed lists are accepted unless a panic class of C06 intervenes (unimplemented inversion, more than 99 closures open)"],
}

PROPS["C12"] = {
    "deps": ["Proofs/C12_Final.vo", "Proofs/DfsOrderClosed.vo"],
    "props": "Props/C12.v",
    "suites": [("walk", 5000, 40000), ("pool", 300, 6000)],
    "owner": lambda name: name.startswith("C12.") or name in ("C13.pool_smallest_free", "C13.walk_joins_smallest_free"),
    "assumptions": ["kinds outside C06's known class (invert_configuration unimplemented) and at most 99 closures open, i.e. the traversal returns Ok"],
}
PROPS["C03"] = {
    "deps": ["Proofs/C12_Final.vo", "Proofs/Stereo.vo"],
    "props": "Props/C03.v",
    "suites": [("walk", 1000, 30000), ("reader", 400, 8000)],
    "owner": lambda name: name.startswith("C03.") or name in ("C12.rebuilt_graph_is_arrival_first", "C01.text_round_trip_is_isomorphic", "C02.built_graph_is_denotation"),
    "assumptions": ["non-tetrahedral configuration labels with a virtual hydrogen are C06's known class and excluded"],
}

PROPS["C01"] = {
    "deps": ["Proofs/C01.vo", "Proofs/C09_Final.vo", "Proofs/C01_Text.vo", "Proofs/EndToEnd.vo"],
    "more_props": ["Props/EndToEnd.v"],
    "props": "Props/C01.v",
    "suites": [("walk", 5000, 40000), ("reader", 600, 12000), ("hist", 400, 8000), ("pool", 1500, 12000)],
    "extra": [extras.large_molecules],
    "owner": lambda name: name.startswith("C01.") or name in ("C12.rebuilt_graph_is_arrival_first", "C02.built_graph_is_denotation", "C09.history_inverse", "C13.walk_joins_smallest_free", "C13.pool_smallest_free"),
    "assumptions": ["kinds outside C06's known class, at most 99 closures open, isotope/map below 1000 (C18)"],
}

PROPS["C10"] = {
    "deps": ["Proofs/BuilderWf.vo", "Proofs/C12_Final.vo", "Proofs/BuildErrors.vo", "Proofs/BuildErrorsExamples.vo"],
    "props": "Props/C10.v",
    "suites": [("hist", 1000, 30000), ("reader", 800, 20000)],
    "owner": lambda name: name.startswith("C10.") or name == "C02.built_graph_is_denotation",
    "assumptions": ["kinds outside C06's known class"],
}

PROPS["C04"] = {
    "deps": ["Proofs/Reading.vo", "Proofs/C09_Final.vo", "Proofs/ReaderSafe.vo", "Proofs/LangFinal.vo", "Proofs/LangExamples.vo", "Proofs/GrammarOracleFinal.vo"],
    "props": "Props/C04.v",
    "probes": [{"file": "Probes/Reading.v"}],
    "suites": [("reader", 1600, 40000), ("reader_exh", 0, 22621)],
    "extra": [extras.c04_deep],
    "assumptions": ["UTF-8 decoding (str::chars) is std; the model's input is the list of code points"],
}
PROPS["C05"] = {
    "deps": ["Proofs/Reading.vo", "Proofs/LangFinal.vo", "Proofs/GrammarOracleFinal.vo"],
    "props": "Props/C05.v",
    "probes": [{"file": "Probes/Reading.v", "filter": lambda name: name.startswith("C04.token_")}],
    "suites": [("reader", 1600, 40000), ("reader_exh", 0, 22621)],
    "extra": [extras.c04_deep],
    "assumptions": ["cursors count characters, not bytes (Scanner collects chars())"],
}

PROPS["C14"] = {
    "deps": ["Proofs/C09_Final.vo", "Proofs/WalkEquiv.vo"],
    "props": "Props/C14.v",
    "suites": [("walk", 1000, 30000), ("hist", 400, 8000)],
    "owner": lambda name: name.startswith("C14.") or name == "C09.history_inverse",
    "extra": [extras.c14_determinism],
    "assumptions": ["hash seeds, thread scheduling and process identity are runtime facts: covered by the lint and by multi-process runs, not by a theorem"],
}

PROPS["C15"] = {
    "deps": ["Proofs/TraceCursors.vo", "Proofs/TraceRings.vo"],
    "props": "Props/C15.v",
    "suites": [("reader", 1200, 40000)],
    "assumptions": ["the trace model's association list for bonds mirrors HashMap insert-overwrites semantics"],
}
PROPS["C19"] = {
    "deps": ["Proofs/ReaderDepth.vo"],
    "props": "Props/C19.v",
    "suites": [("reader", 600, 12000)],
    "extra": [extras.c19_stack],
    "assumptions": ["frame sizes, inlining and allocator behaviour are the compiler's: the theorem bounds call depth, the child-process runs tie depth to bytes on an 8 MiB stack",
                    "walk, Writer, Builder and build use no recursion (explicit stacks and loops; by inspection of the source, not modelled)"],
}

PROPS["C02"] = {
    "deps": ["Proofs/DenoteFinal.vo", "Proofs/C02_Final.vo"],
    "props": "Props/C02.v",
    "suites": [("reader", 1200, 30000), ("hist", 600, 12000)],
    # the reader must replay the syntax that was written (C09's oracle on the implementation) for the denotation of the
    # events to be the denotation of the string
    "owner": lambda name: name.startswith("C02.") or name in ("C10.errors_are_classified", "C10.built_graph_is_simple", "C09.history_inverse"),
    "assumptions": ["kinds outside C06's known class (the builder panics on them)"],
}

# large regular molecules judged by the Rust reference denotation; the `ref` suite ties that reference to the Coq specification
for _p in ("C01", "C02", "C06", "C08", "C09", "C10", "C11", "C12", "C14", "C15"):
    _e = PROPS[_p].setdefault("extra", [])
    if extras.large_molecules not in _e: _e.append(extras.large_molecules)
    PROPS[_p].setdefault("suites", []).append(("ref", 300, 6000))

# non-vacuity witnesses (Props/NonVacuity*.v): which file instantiates the hypotheses of which property's theorems
for _p, _f in [("C01", 1), ("C03", 1), ("C08", 1), ("C10", 1), ("C11", 1), ("C12", 1), ("C14", 1), ("C02", 2), ("C04", 2), ("C05", 2), ("C06", 2), ("C07", 2), ("C09", 2), ("C19", 2),
               ("C13", 3), ("C15", 3), ("C16", 3), ("C17", 3), ("C18", 3)]:
    PROPS[_p]["witnesses"] = "Props/NonVacuity%d.v" % _f
