"""Per-property configuration of ./check: which lemma files to build, which statement file to compile, which probes
   (finite checks listing offending rows) and which correspondence/oracle suites to run."""
PROPS = {}

PROPS["C18"] = {
    "deps": ["Proofs/C18_conv.vo"],
    "props": "Props/C18.v",
    "probes": [{"file": "Probes/C18.v"}],
    "assumptions": ["String::parse::<u16>, Display and TryFrom dispatch are std/rustc", "a dumped table is the function on its whole domain (dump_tables iterates the complete domain: all i8, u8, u16, all digit strings of length <= 5)"],
}
