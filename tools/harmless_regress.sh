#!/bin/bash
# usage: tools/harmless_regress.sh [name ...]   -- apply each behaviour-preserving change of harmless/*.diff to /repo, run every check
# (or those named in $PROPS), restore; every check must stay quiet
cd /verif
names="$@"; [ -z "$names" ] && names=$(ls harmless/*.diff | xargs -n1 basename | sed 's/\.diff$//')
props=${PROPS:-C01 C02 C03 C04 C05 C06 C07 C08 C09 C10 C11 C12 C13 C14 C15 C16 C17 C18 C19}
for n in $names; do
  git -C /repo apply /verif/harmless/$n.diff || { echo "$n: patch does not apply"; continue; }
  line="$n:"
  for p in $props; do out=$(./check $p 2>/dev/null); rc=$?; v=$(echo "$out" | grep -c '^VIOLATION'); line="$line $p=$rc/$v"; done
  git -C /repo checkout -- . ; git -C /repo clean -fdq -- src
  echo "$line"
done
