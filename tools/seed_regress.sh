#!/bin/bash
# usage: tools/seed_regress.sh [seed-id ...]   -- apply each stored seeded change to /repo, run the check of the property it breaks, restore
cd /verif
ids="$@"; [ -z "$ids" ] && ids=$(ls seeded)
for id in $ids; do
  p=$(python3 -c "import json;print(json.load(open('seeded/$id/meta.json'))['breaks'])")
  [ -n "$SEED_PROP" ] && p=$SEED_PROP
  git -C /repo apply /verif/seeded/$id/patch.diff || { echo "$id: patch does not apply"; continue; }
  out=$(./check $p 2>/dev/null); n=$(echo "$out" | grep -c '^VIOLATION'); nf=$(echo "$out" | grep -c 'no-failing-input-found')
  git -C /repo checkout -- . ; git -C /repo clean -fdq -- src
  echo "$id -> $p: violation lines=$n (no-failing-input-found=$nf)"
done
