#!/bin/bash
# run every registered quick check on the current tree (regenerates evidence/*.json); prints a one-line summary per property
cd /verif
for p in $(python3 -c "import json;print(' '.join(c['property_id'] for c in json.load(open('MANIFEST.json'))['checks']))"); do
  s=$(date +%s); out=$(./check $p --tier ${1:-quick} 2>&1); rc=$?
  echo "$p rc=$rc $(( $(date +%s) - s ))s viol=$(echo "$out" | grep -c '^VIOLATION') known=$(echo "$out" | grep -c '^KNOWN-FINDING') $(python3 -c "import json;c=json.load(open('evidence/$p.json'))['coverage'];print(c['discharged'],'/',c['obligations'])")"
done
