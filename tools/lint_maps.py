#!/usr/bin/env python3
"""C14 source lint: std hash maps / heaps in /repo/src (non-test code) are used for keyed lookup only, never iterated.
   Prints offending lines; exit 2 if any."""
import re, sys, os, glob
REPO = sys.argv[1] if len(sys.argv) > 1 else "/repo"
bad = []
for path in sorted(glob.glob(os.path.join(REPO, "src/**/*.rs"), recursive=True)):
    src = open(path).read()
    cut = src.find("#[cfg(test)]")
    if cut >= 0: src = src[:cut]
    src = re.sub(r"//[^\n]*", "", src)
    idents = set(re.findall(r"(\w+)\s*:\s*(?:HashMap|BinaryHeap|HashSet)\s*<", src))
    idents |= set(re.findall(r"let\s+(?:mut\s+)?(\w+)\s*(?::[^=;]*)?=\s*[^;]*(?:HashMap|BinaryHeap|HashSet)\s*(?:::|<)", src))
    idents |= set(re.findall(r"let\s+(?:mut\s+)?(\w+)\s*=\s*[^;]*collect::<\s*(?:HashMap|HashSet|BinaryHeap)", src))
    for ident in idents:
        for m in re.finditer(r"(?:self\s*\.\s*)?\b%s\b\s*\.\s*(iter|iter_mut|keys|values|values_mut|drain|retain|into_iter|into_keys|into_values|into_sorted_vec|into_vec)\s*\(" % re.escape(ident), src):
            line = src[:m.start()].count("\n") + 1
            bad.append("%s:%d: %s.%s() iterates a hash map / heap" % (path, line, ident, m.group(1)))
        for m in re.finditer(r"for\s+[^;{]*\s+in\s+[^;{]*\b%s\b" % re.escape(ident), src):
            line = src[:m.start()].count("\n") + 1
            bad.append("%s:%d: for-loop over %s" % (path, line, ident))
print("\n".join(bad))
sys.exit(2 if bad else 0)
