#!/bin/sh
# Build the framework from files on disk only (offline): harness binaries and the whole Coq development.
set -e
cd "$(dirname "$0")"
export CARGO_NET_OFFLINE=true CARGO_TARGET_DIR="$PWD/.cache/target" RUSTFLAGS="--cfg purr_verif"
mkdir -p .cache coq/Generated
python3 tools/gen_enums.py /repo "$PWD"
(cd harness && cargo build --release --offline --bins 2>&1 | tail -3)
.cache/target/release/dump_tables > coq/Generated/Tables.v
.cache/target/release/learn_trees "$(python3 tools/alphabet.py /repo)" 20000 > coq/Generated/Trees.v 2>/dev/null || true
cd coq && coq_makefile -f _CoqProject -o Makefile.coq >/dev/null && timeout 3000 make -f Makefile.coq -j16 -k 2>&1 | tail -5
