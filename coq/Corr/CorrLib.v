(* Correspondence library: case formats written by harness/src/bin/corr.rs, the comparison of each hand-written model
   with the implementation's recorded behaviour, and the executable specifications (oracles) evaluated on the
   implementation's own outputs. Every [*_bad] list holds the inputs on which a comparison fails. *)
From Coq Require Import List String Ascii NArith Lia Bool Arith.
Import ListNotations.
Require Import P.Generated.Enums P.Spec.Values P.Generated.Tables P.Meta.Scan P.Model.Base P.Model.Token P.Model.Reader P.Model.Trace
  P.Model.Writer P.Model.Pool P.Model.Walk P.Model.Builder P.Model.Atom P.Spec.Events P.Spec.Pool P.Spec.Valence P.Spec.Normal P.Spec.Known P.Spec.Graph P.Spec.Denote P.Spec.Roundtrip P.Spec.Grammar P.Proofs.ReaderDepth P.Checks.C18_defs P.Checks.Token_defs.
Local Open Scope string_scope.

Fixpoint show_N_aux (fuel : nat) (n : N) (acc : string) : string :=
  match fuel with O => acc | S f =>
    let acc' := String (ascii_of_N (48 + n mod 10)) acc in
    if (n <? 10)%N then acc' else show_N_aux f (n / 10) acc' end.
Definition show_N (n : N) : string := show_N_aux 20 n "".
Definition show_nat (n : nat) : string := show_N (N.of_nat n).
(* printable ASCII as is; any other code point as <U+decimal> *)
Definition show (l : list N) : string :=
  String.concat "" (map (fun c => if ((32 <=? c) && (c <? 127) && negb (c =? 34))%N then String (ascii_of_N c) "" else "<U+" ++ show_N c ++ ">") l).
Inductive bres' := B'Ok (g : list atom) | B'Err (e : berr) | B'Panic | B'Skip.
Definition berr_eqb (a b : berr) := match a, b with BJoin x y, BJoin x' y' => Nat.eqb x x' && Nat.eqb y y' | BRnum x, BRnum y => Nat.eqb x y | _, _ => false end.
Definition bres_ok (m : bres) (i : bres') := match m, i with BOk g, B'Ok g' => list_eqb atom_eqb g g' | BErr e, B'Err e' => berr_eqb e e' | BPanic, B'Panic => true | _, B'Skip => true | _, _ => false end.
Definition werr_eqb (a b : werr) := match a, b with HalfBond x y, HalfBond x' y' | DuplicateBond x y, DuplicateBond x' y' | UnknownTarget x y, UnknownTarget x' y'
  | IncompatibleBond x y, IncompatibleBond x' y' => Nat.eqb x x' && Nat.eqb y y' | Loop x, Loop x' => Nat.eqb x x' | _, _ => false end.
Definition wres_eqb (a b : wres) := match a, b with WOk, WOk => true | WErr e, WErr e' => werr_eqb e e' | WPanic x, WPanic y => Nat.eqb x y | _, _ => false end.
Definition tok_kind_eqb (a b : tok kind) := match a, b with TOk k n, TOk k' n' => kind_eqb k k' && Nat.eqb n n' | TNo, TNo | TErrEol, TErrEol | TPanic, TPanic => true
  | TErrChar i, TErrChar j => Nat.eqb i j | _, _ => false end.
Definition otext_eqb (a b : option (list N)) := opt_eqb (list_eqb N.eqb) a b.
Definition orange_eqb (a b : option (nat * nat)) := opt_eqb (fun x y => Nat.eqb (fst x) (fst y) && Nat.eqb (snd x) (snd y)) a b.

Definition has_known_kind (h : list ev) : bool := existsb (fun e => match e with EExtend _ k => known_invert_panic k | _ => false end) h.
(* C02 / C10 oracle: the graph (or the error) the implementation built against the denotation of the event history *)
Definition denote_agrees (h : list ev) (b : bres') : bool :=
  if has_known_kind h then true else
  match b, denote_events h with
  | B'Skip, _ => true
  | B'Ok g, Some (DOk g') => list_eqb atom_eqb g g'
  | B'Err (BJoin x y), Some (DJoin x' y') => Nat.eqb x x' && Nat.eqb y y'
  | B'Err (BRnum rid), Some (DUnmatched occs) => existsb (Nat.eqb rid) occs
  | _, _ => false
  end.
Definition built_is_simple (b : bres') : bool := match b with B'Ok g => wf g | _ => true end.
(* ------------------------------------------------------------ reader *)
Record reader_case := RC { rc_in : list N; rc_verdict : verdict; rc_events : list ev; rc_atoms : list (option (nat * nat));
  rc_rnums : list (option (nat * nat)); rc_bonds : list (nat * nat * option nat); rc_build : bres'; rc_text : option (list N); rc_others : list verdict (* same input into Builder+Trace, Writer, Builder *) }.
(* C15 oracle: the trace answers of the implementation against the specification -- ranges slice the input to the
   tokens; bond cursors are recomputed from the implementation's own ranges by pairing ring tokens *)
Definition is_explicit_b (b : bond_kind) : bool := negb (bondk_eqb b BK_Elided).
Definition ostart (o : option (nat * nat)) : nat := match o with Some (a, _) => a | None => 0 end.
(* expected bond map: latest entry first; (stack of atom ids, atoms seen, ring tokens seen, open table) *)
Fixpoint expected_bonds (h : list ev) (atoms rnums : list (option (nat * nat))) (stack : list nat) (na nr : nat) (open : list (N * (nat * nat)))
    (acc : list (nat * nat * nat)) : list (nat * nat * nat) :=
  match h with
  | [] => acc
  | ERoot _ :: t => expected_bonds t atoms rnums (na :: stack) (S na) nr open acc
  | EExtend b _ :: t =>
      match stack with
      | [] => acc
      | sid :: _ => let c := ostart (nth na atoms None) - (if is_explicit_b b then 1 else 0) in
                    expected_bonds t atoms rnums (na :: stack) (S na) nr open ((na, sid, c) :: (sid, na, c) :: acc)
      end
  | EJoin b r :: t =>
      match stack with
      | [] => acc
      | sid :: _ => let c := ostart (nth nr rnums None) - (if is_explicit_b b then 1 else 0) in
          match find (fun p => N.eqb (fst p) r) open with
          | Some (_, (osid, oc)) => expected_bonds t atoms rnums stack na (S nr) (filter (fun p => negb (N.eqb (fst p) r)) open) ((osid, sid, oc) :: (sid, osid, c) :: acc)
          | None => expected_bonds t atoms rnums stack na (S nr) ((r, (sid, c)) :: open) acc
          end
      end
  | EPop d :: t => expected_bonds t atoms rnums (skipn d stack) na nr open acc
  end.
Definition atom_kinds (h : list ev) : list kind := flat_map (fun e => match e with ERoot k | EExtend _ k => [k] | _ => [] end) h.
Definition join_numbers' (h : list ev) : list N := flat_map (fun e => match e with EJoin _ r => [r] | _ => [] end) h.
Definition trace_spec_ok (c : reader_case) : bool :=
  match rc_verdict c, rc_build c with
  | VOk, B'Ok _ =>
      let s := rc_in c in let ks := atom_kinds (rc_events c) in let rs := join_numbers' (rc_events c) in
      (* one range per atom, then None; each slices to its token *)
      Nat.eqb (List.length (rc_atoms c)) (S (List.length ks)) && Nat.eqb (List.length (rc_rnums c)) (S (List.length rs)) &&
      forallb (fun p => match snd p with Some (a, b) => tok_kind_eqb (read_atom (skipn a s)) (TOk (fst p) (b - a)) && Nat.leb a b | None => false end) (combine ks (rc_atoms c)) &&
      match nth (List.length ks) (rc_atoms c) (Some (0, 0)) with None => true | Some _ => false end &&
      forallb (fun p => match snd p with Some (a, b) => match read_rnum (skipn a s) with TOk r n => N.eqb r (fst p) && Nat.eqb n (b - a) | _ => false end | None => false end) (combine rs (rc_rnums c)) &&
      match nth (List.length rs) (rc_rnums c) (Some (0, 0)) with None => true | Some _ => false end &&
      (* bond cursors *)
      let eb := expected_bonds (rc_events c) (rc_atoms c) (rc_rnums c) [] 0 0 [] [] in
      forallb (fun q => let '(i, j, o) := q in
                 opt_eqb Nat.eqb o (option_map snd (find (fun e => Nat.eqb (fst (fst e)) i && Nat.eqb (snd (fst e)) j) eb))) (rc_bonds c)
  | _, _ => true
  end.
Definition reader_model_ok (c : reader_case) : bool :=
  let r := read (rc_in c) in
  let evs := map ev_of (r_events r) in
  verdict_eqb (r_verdict r) (rc_verdict c) && list_eqb ev_eqb evs (rc_events c) &&
  match tfold trace0 (r_events r) with
  | None => false
  | Some t =>
      list_eqb orange_eqb (map (trace_atom t) (seq 0 (List.length (rc_atoms c)))) (rc_atoms c) &&
      list_eqb orange_eqb (map (trace_rnum t) (seq 0 (List.length (rc_rnums c)))) (rc_rnums c) &&
      forallb (fun q => let '(i, j, o) := q in opt_eqb Nat.eqb (trace_bond t i j) o) (rc_bonds c)
  end &&
  (* the other followers: the model predicts a panic of the builder exactly when its fold over the events panics *)
  (let bpanic := match bfold b0 evs with None => true | Some _ => false end in
   let expect_b := if bpanic then VPanic else r_verdict r in
   list_eqb verdict_eqb (rc_others c) [expect_b; r_verdict r; expect_b]) &&
  match rc_verdict c, bfold b0 evs with
  | VOk, Some _ => bres_ok (bld evs) (rc_build c) && otext_eqb (wr evs) (rc_text c)
  | _, _ => true end.
Definition reader_nopanic (c : reader_case) : bool :=
  negb (verdict_eqb (rc_verdict c) VPanic) && forallb (fun v => negb (verdict_eqb v VPanic)) (rc_others c) &&
  match rc_build c with B'Panic => false | _ => true end.
(* the verdict does not depend on the follower (a follower that panics gives no verdict; that is C06's business) *)
Definition reader_indep (c : reader_case) : bool :=
  forallb (fun v => verdict_eqb v VPanic || verdict_eqb v (rc_verdict c)) (rc_others c).
Record reader_results := { rr_n : nat; rr_accepted : nat; rr_model : list string; rr_indep : list string; rr_panic : list string; rr_known : list string; rr_conf : list string }.
Definition bad {A} (f : A -> bool) (name : A -> string) (l : list A) : list string := firstn 5 (map name (filter (fun c => negb (f c)) l)).
Definition reader_analyse (cs : list reader_case) : reader_results :=
  let nm := fun c => show (rc_in c) in
  {| rr_n := List.length cs; rr_accepted := List.length (filter (fun c => verdict_eqb (rc_verdict c) VOk) cs);
     rr_model := bad reader_model_ok nm cs; rr_indep := bad reader_indep nm cs; rr_panic := bad (fun c => reader_nopanic c || has_known_kind (rc_events c)) nm cs;
     rr_known := firstn 2 (bad (fun c => reader_nopanic c || negb (has_known_kind (rc_events c))) nm cs);
     rr_conf := bad (fun c => conformant (rc_events c)) nm cs |}.
Definition run_reader_suite (cs : list reader_case) :=
  let r := reader_analyse cs in
  [("RESULT", "corr.reader_model", rr_model r); ("RESULT", "C04.follower_independent", rr_indep r);
   ("RESULT", "C06.reader_nopanic", rr_panic r); ("RESULT", "C06.known.B4_invert_unimplemented", rr_known r);
   ("RESULT", "C08.reader_conformant", rr_conf r);
   ("RESULT", "C04.accepted_iff_in_documented_language", bad (fun c => match rc_verdict c with VPanic | VFuel => true | v => Bool.eqb (verdict_eqb v VOk) (accepts_spec (rc_in c)) end) (fun c => show (rc_in c)) cs);
   ("RESULT", "C05.cursor_is_first_non_viable_prefix", bad (fun c => match rc_verdict c with
        | VChar i => viable_spec (firstn i (rc_in c)) && negb (viable_spec (firstn (S i) (rc_in c))) && Nat.ltb i (List.length (rc_in c))
        | VEol => viable_spec (rc_in c) && negb (accepts_spec (rc_in c))
        | _ => true end) (fun c => show (rc_in c)) cs);
   ("RESULT", "C15.trace_maps_to_exact_cursors", bad trace_spec_ok (fun c => show (rc_in c)) cs);
   ("RESULT", "C19.model_depth_within_nesting", bad (fun c => Nat.leb (r_depth (read (rc_in c))) (1 + P.Proofs.ReaderDepth.nesting (rc_in c))) (fun c => show (rc_in c)) cs);
   ("RESULT", "C02.built_graph_is_denotation", bad (fun c => match rc_verdict c with VOk => denote_agrees (rc_events c) (rc_build c) | _ => true end) (fun c => show (rc_in c)) cs);
   ("RESULT", "C10.built_graph_is_simple", bad (fun c => built_is_simple (rc_build c)) (fun c => show (rc_in c)) cs)].

(* ------------------------------------------------------------ walk *)
Record walk_case := WC { wc_g : list atom; wc_res : wres; wc_events : list ev; wc_build : bres'; wc_text : option (list N);
  wc_reread : bres'; wc_text2 : option (list N) }.

Definition show_graph (g : list atom) : string :=
  String.concat ";" (map (fun a => show (pp_kind (akind a)) ++ ":" ++ String.concat "," (map (fun b => show (pp_bond (bk b)) ++ ">" ++ show_nat (tid b)) (bonds a))) g).
Definition walk_model_ok (c : walk_case) : bool :=
  let '(r, h) := walk (wc_g c) in
  wres_eqb r (wc_res c) &&
  match wc_res c with
  | WPanic _ => true
  | WOk => list_eqb ev_eqb h (wc_events c) && bres_ok (bld h) (wc_build c) && otext_eqb (wr h) (wc_text c)
  | _ => list_eqb ev_eqb h (wc_events c) || match validate (wc_g c) with Some _ => true | None => false end
  end.
Definition join_numbers (h : list ev) : list N := flat_map (fun e => match e with EJoin _ r => [r] | _ => [] end) h.
Definition graph_has_known_kind (g : list atom) : bool := existsb (fun a => known_invert_panic (akind a)) g.
Record walk_results := { wr_n : nat; wr_ok : nat; wr_model : list string; wr_conf : list string; wr_joins : list string; wr_least : list string }.
Definition walk_analyse (cs : list walk_case) : walk_results :=
  let nm := fun c => show_graph (wc_g c) in
  {| wr_n := List.length cs; wr_ok := List.length (filter (fun c => wres_eqb (wc_res c) WOk) cs);
     wr_model := bad walk_model_ok nm cs; wr_conf := bad (fun c => conformant (wc_events c)) nm cs;
     wr_joins := bad (fun c => match wc_res c with WOk => joins_matched (wc_events c) | _ => true end) nm cs;
     wr_least := bad (fun c => match wc_res c with WOk => joins_least_free (join_numbers (wc_events c)) [] | _ => true end) nm cs |}.
Definition run_walk_suite (cs : list walk_case) :=
  let r := walk_analyse cs in
  [("RESULT", "corr.walk_model", wr_model r); ("RESULT", "C08.walk_conformant", wr_conf r); ("RESULT", "C08.walk_joins_matched", wr_joins r);
   ("RESULT", "C13.walk_joins_smallest_free", wr_least r);
   (* C12 / C01 / C03: the graph rebuilt from the events, and the graph read back from the written text, against the
      specification's depth-first renumbering (the second up to the reading shorthands) *)
   ("RESULT", "C12.rebuilt_graph_is_arrival_first", bad (fun c => graph_has_known_kind (wc_g c) || match wc_res c, wc_build c with WOk, B'Ok g2 => list_eqb atom_eqb g2 (expected_roundtrip (wc_g c)) | WOk, _ => false | _, _ => true end) (fun c => show_graph (wc_g c)) cs);
   ("RESULT", "C01.text_round_trip_is_isomorphic", bad (fun c => graph_has_known_kind (wc_g c) || match wc_g c with [] => true | _ => false end || match wc_res c, wc_reread c with
        | WOk, B'Ok g2 => list_eqb atom_eqb g2 (map (fun a => {| akind := nk_kind (akind a); bonds := bonds a |}) (expected_roundtrip (wc_g c)))
        | WOk, _ => false | _, _ => true end) (fun c => show_graph (wc_g c)) cs);
   ("RESULT", "C01.known.empty_graph_written_as_empty_string", firstn 1 (bad (fun c => match wc_g c, wc_reread c with [], B'Ok _ => true | [], _ => false | _, _ => true end) (fun c => show_graph (wc_g c)) cs));
   ("RESULT", "C14.written_text_is_fixed_point", bad (fun c => graph_has_known_kind (wc_g c) || match wc_g c with [] => true | _ => false end || match wc_res c with WOk => match wc_text c with Some t => otext_eqb (wc_text2 c) (Some t) | None => false end | _ => true end) (fun c => show_graph (wc_g c)) cs);
   ("RESULT", "C11.ok_iff_well_formed", bad (fun c => match wc_res c with WOk => wf (wc_g c) | WErr _ => negb (wf (wc_g c)) | _ => true end) (fun c => show_graph (wc_g c)) cs);
   ("RESULT", "C11.error_names_real_defect", bad (fun c => match wc_res c with WErr e => has_defect_b (wc_g c) (match e with HalfBond a b => DHalf a b | DuplicateBond a b => DDuplicate a b
        | UnknownTarget a b => DUnknown a b | IncompatibleBond a b => DIncompatible a b | Loop a => DLoop a end) | _ => true end) (fun c => show_graph (wc_g c)) cs);
   (* K3 (a 100th closure open at once, F15) is the known class exactly when the model, whose K3 is proved to occur only with 99 open, predicts it *)
   ("RESULT", "C06.walk_nopanic", bad (fun c => match wc_res c with WPanic 2 => existsb (fun a => known_invert_panic (akind a)) (wc_g c)
        | WPanic 3 => wres_eqb (fst (walk (wc_g c))) (WPanic 3) | WPanic _ => false | _ => true end) (fun c => show_graph (wc_g c)) cs);
   ("RESULT", "C06.known.K3_more_than_99_open", firstn 2 (bad (fun c => match wc_res c with WPanic 3 => negb (wres_eqb (fst (walk (wc_g c))) (WPanic 3)) | _ => true end) (fun c => show_graph (wc_g c)) cs));
   ("RESULT", "C06.known.K2_invert_unimplemented", firstn 2 (bad (fun c => match wc_res c with WPanic 2 => negb (existsb (fun a => known_invert_panic (akind a)) (wc_g c)) | _ => true end) (fun c => show_graph (wc_g c)) cs))].

Definition nkev (e : ev) : ev := match e with ERoot k => ERoot (nk_kind k) | EExtend b k => EExtend b (nk_kind k) | x => x end.
(* ------------------------------------------------------------ histories: writer and builder driven directly *)
Record hist_case := HC { hc_h : list ev; hc_text : option (list N); hc_build : bres'; hc_reread : option (verdict * list ev); hc_rewrite : option (list N) }.
Definition show_ev (e : ev) : string := match e with ERoot k => "R" ++ show (pp_kind k) | EExtend b k => "E" ++ show (pp_bond b) ++ show (pp_kind k)
  | EJoin b r => "J" ++ show (pp_bond b) ++ show (pp_rnum r) | EPop n => "P" ++ show_nat n end.
Definition show_hist (h : list ev) : string := String.concat " " (map show_ev h).
Definition hist_model_ok (c : hist_case) : bool :=
  otext_eqb (wr (hc_h c)) (hc_text c) && bres_ok (bld (hc_h c)) (hc_build c) &&
  match hc_text c, hc_reread c with
  | Some t, Some (v, h) => let '(v', h') := rd t in verdict_eqb v v' && list_eqb ev_eqb h h'
  | _, _ => true end.
(* C09 oracle on the implementation's own outputs: a conformant history is written, re-read to the same calls (up to
   the shorthands) and re-written to the same text *)
Definition hist_inverse_ok (c : hist_case) : bool :=
  match hc_h c with
  | [] => true
  | _ => if conformant (hc_h c) then
           match hc_text c, hc_reread c with
           | Some t, Some (v, h') => verdict_eqb v VOk && list_eqb ev_eqb h' (map nkev (hc_h c)) && otext_eqb (hc_rewrite c) (Some t)
           | _, _ => false end
         else true
  end.
Definition run_hist_suite (cs : list hist_case) :=
  [("RESULT", "corr.hist_model", bad hist_model_ok (fun c => show_hist (hc_h c)) cs);
   ("RESULT", "C10.errors_are_classified", bad (fun c => negb (conformant (hc_h c)) || match hc_h c with [] => true | _ => denote_agrees (hc_h c) (hc_build c) end) (fun c => show_hist (hc_h c)) cs);
   ("RESULT", "C10.built_graph_is_simple", bad (fun c => negb (conformant (hc_h c)) || built_is_simple (hc_build c)) (fun c => show_hist (hc_h c)) cs);
   ("RESULT", "C09.history_inverse", bad hist_inverse_ok (fun c => show_hist (hc_h c)) cs);
   ("RESULT", "C06.builder_nopanic", bad (fun c => negb (conformant (hc_h c)) || has_known_kind (hc_h c) || match hc_build c with B'Panic => false | _ => true end) (fun c => show_hist (hc_h c)) cs);
   ("RESULT", "C06.known.B4_invert_unimplemented", firstn 2 (bad (fun c => negb (conformant (hc_h c)) || negb (has_known_kind (hc_h c)) || match hc_build c with B'Panic => false | _ => true end) (fun c => show_hist (hc_h c)) cs));
   ("RESULT", "C06.writer_nopanic", bad (fun c => negb (conformant (hc_h c)) || match hc_h c with [] => true | _ => match hc_text c with Some _ => true | None => false end end) (fun c => show_hist (hc_h c)) cs)].

(* ------------------------------------------------------------ ref: the harness's Rust reference (used at sizes this
   evaluation does not reach) against the specification it is a port of *)
Inductive fres := FOk (g : list atom) | FJoin (a b : nat) | FUnmatched (occs : list nat) | FMalformed.
Record ref_case := FC { fc_h : list ev; fc_atoms : list (option (nat * nat)); fc_rnums : list (option (nat * nat)); fc_res : fres; fc_bonds : list (nat * nat * option nat) }.
Definition ref_denote_ok (c : ref_case) : bool :=
  match fc_h c with [] => true | _ =>
  if negb (conformant (fc_h c)) then true else
  match denote_events (fc_h c), fc_res c with
  | Some (DOk g), FOk g' => list_eqb atom_eqb g g'
  | Some (DJoin a b), FJoin a' b' => Nat.eqb a a' && Nat.eqb b b'
  | Some (DUnmatched o), FUnmatched o' => list_eqb Nat.eqb o o'
  | None, FMalformed => true
  | _, _ => false end end.
Definition ref_bonds_ok (c : ref_case) : bool :=
  let eb := expected_bonds (fc_h c) (fc_atoms c) (fc_rnums c) [] 0 0 [] [] in
  forallb (fun q => let '(i, j, o) := q in
             opt_eqb Nat.eqb o (option_map snd (find (fun e => Nat.eqb (fst (fst e)) i && Nat.eqb (snd (fst e)) j) eb))) (fc_bonds c).
Definition run_ref_suite (cs : list ref_case) :=
  [("RESULT", "corr.reference_denotation", bad ref_denote_ok (fun c => show_hist (fc_h c)) cs);
   ("RESULT", "corr.reference_bond_cursors", bad ref_bonds_ok (fun c => show_hist (fc_h c)) cs)].

Record refg_case := GC { gc_g : list atom; gc_round : list atom }.
Definition run_refg_suite (cs : list refg_case) :=
  [("RESULT", "corr.reference_round_trip", bad (fun c => negb (wf (gc_g c)) || list_eqb atom_eqb (expected_roundtrip (gc_g c)) (gc_round c)) (fun c => show_graph (gc_g c)) cs)].

(* ------------------------------------------------------------ pool *)
Record pool_case := PC { pc_hits : list (nat * nat); pc_out : list (option N) }.
Definition pool_model_ok (c : pool_case) : bool := list_eqb (opt_eqb N.eqb) (hits pool0 (pc_hits c)) (pc_out c).
Definition show_hits (l : list (nat * nat)) : string := String.concat " " (map (fun p => show_nat (fst p) ++ "-" ++ show_nat (snd p)) (firstn 12 l)).
(* C13 oracle: the implementation's answers are those of the abstract allocator *)
Definition pool_spec_ok (c : pool_case) : bool := list_eqb (opt_eqb N.eqb) (spec_hits [] (pc_hits c)) (pc_out c).
Definition run_pool_suite (cs : list pool_case) :=
  [("RESULT", "corr.pool_model", bad pool_model_ok (fun c => show_hits (pc_hits c)) cs);
   ("RESULT", "C13.pool_smallest_free", bad pool_spec_ok (fun c => show_hits (pc_hits c)) cs);
   ("RESULT", "C06.known.K3_more_than_99_open", firstn 2 (bad (fun c => negb (existsb (fun o => match o with None => true | _ => false end) (pc_out c))) (fun c => show_hits (pc_hits c)) cs))].

(* ------------------------------------------------------------ atoms and kinds *)
Record atom_case := AC { ac_a : atom; ac_sub : option N; ac_sup : option N; ac_arom : bool; ac_targets : list N }.
Definition atom_model_ok (c : atom_case) : bool :=
  opt_eqb N.eqb (Some (subvalence (ac_a c))) (ac_sub c) && opt_eqb N.eqb (Some (suppressed_hydrogens (ac_a c))) (ac_sup c) &&
  Bool.eqb (is_aromatic (akind (ac_a c))) (ac_arom c) && list_eqb N.eqb (targets (akind (ac_a c))) (ac_targets c).
(* C17 oracle: the implementation's answers against the specification over unbounded integers *)
Definition spec_order_sum (bs : list bond) : N := fold_right (fun b n => (order_spec (bk b) + n)%N) 0%N bs.
Definition atom_spec_ok (c : atom_case) : bool :=
  opt_eqb N.eqb (ac_sup c) (Some (hydrogens_spec (akind (ac_a c)) (spec_order_sum (bonds (ac_a c))))) &&
  match akind (ac_a c) with
  | AK_Aliphatic a => opt_eqb N.eqb (ac_sub c) (Some (distance (std_valences (name_aliphatic a)) (spec_order_sum (bonds (ac_a c)))))
  | AK_Aromatic a => opt_eqb N.eqb (ac_sub c) (Some (distance (std_valences (name_aromatic a)) (spec_order_sum (bonds (ac_a c)))))
  | AK_Star => opt_eqb N.eqb (ac_sub c) (Some 0%N)
  | AK_Bracket _ _ _ h _ _ =>   (* from the kind's own published targets, as the implementation reports them *)
      opt_eqb N.eqb (ac_sub c) (Some (distance (ac_targets c) (hcount_of h + spec_order_sum (bonds (ac_a c)))))
  end.
Definition run_atom_suite (cs : list atom_case) :=
  [("RESULT", "C17.atom_hydrogens_spec", bad atom_spec_ok (fun c => show (pp_kind (akind (ac_a c))) ++ " with " ++ show_nat (List.length (bonds (ac_a c))) ++ " bonds") cs);
   ("RESULT", "C06.atom_nopanic", bad (fun c => match ac_sub c, ac_sup c with Some _, Some _ => true | _, _ => false end) (fun c => show (pp_kind (akind (ac_a c))) ++ " with " ++ show_nat (List.length (bonds (ac_a c))) ++ " bonds") cs);
   ("RESULT", "corr.atom_model", bad atom_model_ok (fun c => show (pp_kind (akind (ac_a c))) ++ "/" ++ show_nat (Nat.min 12 (List.length (bonds (ac_a c))))) cs)].
Record kind_case := KC { kc_k : kind; kc_text : list N; kc_probe : list N; kc_read : tok kind; kc_inv : kres; kc_sum : N; kc_db : option kind;
  kc_targets : list N; kc_arom : bool }.
Definition kres_eqb (a b : kres) := match a, b with KOk k, KOk k' => kind_eqb k k' | KPanic, KPanic => true | _, _ => false end.
Definition kind_model_ok (c : kind_case) : bool :=
  list_eqb N.eqb (pp_kind (kc_k c)) (kc_text c) && tok_kind_eqb (read_atom (kc_probe c)) (kc_read c) && kres_eqb (invert (kc_k c)) (kc_inv c) &&
  opt_eqb kind_eqb (debracket (kc_k c) (kc_sum c)) (kc_db c) && list_eqb N.eqb (targets (kc_k c)) (kc_targets c) && Bool.eqb (is_aromatic (kc_k c)) (kc_arom c).
(* C07 oracle on the implementation's own answers: the printed kind, followed by something that may follow an atom, reads back *)
Fixpoint is_prefix (p l : list N) : bool := match p, l with [], _ => true | a :: p', b :: l' => N.eqb a b && is_prefix p' l' | _, _ => false end.
Definition kind_in_range (k : kind) : bool := match k with AK_Bracket i _ _ _ _ m => match i with Some n => (n <? 1000)%N | None => true end && match m with Some n => (n <? 1000)%N | None => true end | _ => true end.
Definition may_follow (k : kind) (tail : list N) : bool :=
  match k with AK_Bracket _ _ _ _ _ _ => true | _ => match tail with [] => true | c :: _ => existsb (N.eqb c) (P.Checks.Token_defs.bond_chars ++ P.Checks.Token_defs.atom_starts ++ P.Checks.Token_defs.digit_chars ++ [37; 40; 41; 46]%N) end end.
Definition kind_reads_back (c : kind_case) : bool :=
  if is_prefix (kc_text c) (kc_probe c) && kind_in_range (kc_k c) && may_follow (kc_k c) (skipn (List.length (kc_text c)) (kc_probe c))
  then tok_kind_eqb (kc_read c) (TOk (nk_kind (kc_k c)) (List.length (kc_text c))) else true.
Definition run_kind_suite (cs : list kind_case) :=
  [("RESULT", "C07.kind_reads_back_in_position", bad kind_reads_back (fun c => show (kc_probe c)) cs);
   ("RESULT", "corr.kind_model", bad kind_model_ok (fun c => show (kc_text c) ++ " | " ++ show (kc_probe c)) cs)].
