(* C02 for strings: an accepted string has a conformant, non-empty event history; a conformant history is the
   (un-normalised) flattening [flat0] of the syntax that [syntax_of] computes from it; hence what the builder makes of
   the events read from an accepted string is the denotation (Spec/Denote.v) of that syntax. *)
From Coq Require Import List NArith Lia Bool Arith.
Import ListNotations.
Require Import P.Generated.Enums P.Spec.Values P.Generated.Tables P.Meta.Scan P.Generated.Trees P.Spec.Events P.Model.Base P.Model.Token P.Model.Reader P.Model.Writer
  P.Model.Builder P.Spec.Known P.Proofs.WalkInv P.Proofs.ReaderConf P.Proofs.C09_Inverse P.Proofs.C09_Writer P.Proofs.C09_Final
  P.Spec.Denote P.Proofs.DenoteSym P.Proofs.DenoteFinal.
Strategy opaque [tree_symbol tree_organic tree_configuration tree_charge tree_bond tree_rnum tree_hcount tree_isotope tree_map].
Local Notation length := List.length.
Local Notation concat := List.concat.

(* ---------- flattening of the writer's stack, kinds as written ---------- *)
Definition flat_item0 (i : item) : list ev :=
  match i with IJoin b r => [EJoin b r] | IBranch l k inner => ev_link l k :: flat0 inner ++ [EPop (S (len inner))] end.
Definition flat_seg0 (s : seg) : list ev := ev_olink (slink s) (skind s) :: concat (map flat_item0 (sitems s)).
Definition flat_stack0 (Sk : list seg) := concat (map flat_seg0 Sk).

Lemma flat0_to_body items tail : flat0 (to_body items tail) = concat (map flat_item0 items) ++ flat0 tail.
Proof.
  induction items as [|[b r|l k inner] t IH]; cbn [to_body flat0 map concat flat_item0 app]; [reflexivity| |].
  - rewrite IH. reflexivity.
  - rewrite IH. rewrite <- ?app_assoc. reflexivity.
Qed.
Lemma flat0_chain segs : Forall linked segs -> flat0 (chain_body segs) = concat (map flat_seg0 segs).
Proof.
  induction 1 as [|s t Hs Ht IH]; cbn [chain_body flat0 map concat]; [reflexivity|].
  rewrite flat0_to_body, IH. unfold flat_seg0, the_link. destruct (slink s) as [l|] eqn:E; [|destruct (Hs E)].
  cbn [ev_olink app]. reflexivity.
Qed.
Lemma flat0_add_item s i : flat_seg0 (add_item s i) = flat_seg0 s ++ flat_item0 i.
Proof. unfold flat_seg0, add_item. cbn [slink skind sitems]. rewrite map_app, concat_app. cbn [map concat]. rewrite app_nil_r. reflexivity. Qed.
Lemma flat0_chain_cons p prest : Forall linked (p :: prest) ->
  concat (map flat_seg0 (p :: prest)) = ev_link (the_link p) (skind p) :: flat0 (to_body (sitems p) (chain_body prest)).
Proof. intros H. rewrite <- (flat0_chain (p :: prest) H). reflexivity. Qed.

(* one step of the writer over syntax appends the event, as written, to the flattening *)
Lemma sw_step_ok0 Sk e : wfstack Sk ->
  match e with ERoot _ => True | EExtend _ _ => 1 <= length Sk | EJoin _ _ => 1 <= length Sk | EPop d => 1 <= d /\ d < length Sk end ->
  exists Sk', sw_step Sk e = Some Sk' /\ wfstack Sk' /\
             length Sk' = (match e with ERoot _ | EExtend _ _ => S (length Sk) | EJoin _ _ => length Sk | EPop d => length Sk - d end) /\
             flat_stack0 Sk' = flat_stack0 Sk ++ [e].
Proof.
  intros Hwf Hc. destruct (sw_step_ok Sk e Hwf Hc) as [Sk' [E [W [L _]]]]. exists Sk'. split; [exact E|]. split; [exact W|]. split; [exact L|].
  clear W L. destruct e as [k|b k|b r|d]; cbn [sw_step] in E.
  - inversion E; subst. unfold flat_stack0. rewrite map_app, concat_app. cbn [map concat]. rewrite app_nil_r. unfold flat_seg0 at 2. cbn [slink skind sitems map concat].
    destruct Sk; cbn [ev_olink ev_link]; reflexivity.
  - inversion E; subst. unfold flat_stack0. rewrite map_app, concat_app. cbn [map concat]. rewrite app_nil_r. reflexivity.
  - pose proof (split_last_spec Sk) as Hs. destruct (split_last Sk) as [[init last]|]; [|discriminate].
    inversion E; subst. unfold flat_stack0. rewrite !map_app, !concat_app. cbn [map concat]. rewrite !app_nil_r. rewrite flat0_add_item. rewrite <- app_assoc. reflexivity.
  - destruct Hc as [Hd1 Hd2]. destruct (Nat.leb_spec (length Sk) d) as [Hle|Hgt]; [lia|].
    pose proof (split_last_spec (firstn (length Sk - d) Sk)) as Hs.
    destruct (split_last (firstn (length Sk - d) Sk)) as [[init last]|]; [|discriminate].
    assert (Hlc : length (skipn (length Sk - d) Sk) = d) by (rewrite skipn_length; lia).
    destruct (skipn (length Sk - d) Sk) as [|p prest] eqn:Ec; [discriminate|].
    assert (Hl : Forall linked (p :: prest)) by (rewrite <- Ec; apply wf_skipn; [exact Hwf|lia]).
    assert (HS : Sk = (init ++ [last]) ++ p :: prest) by (rewrite <- Hs, <- Ec; apply firstn_skipn_split).
    inversion E as [E2]. clear E E2.
    unfold flat_stack0. rewrite HS. rewrite !map_app, !concat_app. rewrite (flat0_chain_cons p prest Hl).
    cbn [map concat]. rewrite !app_nil_r. rewrite flat0_add_item.
    cbn [flat_item0]. rewrite len_to_body, len_chain.
    simpl in Hlc. replace (S (length prest)) with d by lia. rewrite <- ?app_assoc. cbn [app]. rewrite <- ?app_assoc. reflexivity.
Qed.

Lemma sw_fold_ok0 : forall h Sk, wfstack Sk -> confP (length Sk) h ->
  exists Sk', sw_fold Sk h = Some Sk' /\ wfstack Sk' /\ flat_stack0 Sk' = flat_stack0 Sk ++ h /\ (Sk <> [] -> Sk' <> []).
Proof.
  induction h as [|e t IH]; intros Sk Hwf Hc; cbn [sw_fold].
  - exists Sk. rewrite app_nil_r. auto.
  - assert (Hpre : match e with ERoot _ => True | EExtend _ _ => 1 <= length Sk | EJoin _ _ => 1 <= length Sk | EPop d => 1 <= d /\ d < length Sk end)
      by (destruct e; cbn [confP] in Hc; tauto).
    destruct (sw_step_ok0 Sk e Hwf Hpre) as [S1 [E1 [W1 [L1 F1]]]]. rewrite E1.
    assert (Hc1 : confP (length S1) t) by (rewrite L1; destruct e; cbn [confP] in Hc; tauto).
    destruct (IH S1 W1 Hc1) as [Sk' [E' [W' [F' N']]]]. exists Sk'. split; [exact E'|]. split; [exact W'|]. split.
    + rewrite F', F1. rewrite <- app_assoc. reflexivity.
    + intros HS. apply N'. intros ->. destruct e; simpl in L1; lia.
Qed.

(* ---------- 1. a conformant history is the flattening of its syntax ---------- *)
Theorem history_is_syntax : forall h, conformant_history h -> exists k0 bd, syntax_of h = Some (k0, bd) /\ h = ERoot k0 :: flat0 bd.
Proof.
  intros h Hc. pose proof (conformant_history_P h Hc) as HP. destruct h as [|[k0| | | ] t]; try contradiction. cbn [conformantP confP] in HP.
  set (seg0 := {| slink := None; skind := k0; sitems := [] |}).
  assert (Hw0 : wfstack [seg0]) by (split; [reflexivity|constructor]).
  destruct (sw_fold_ok0 t [seg0] Hw0 HP) as [S' [E' [W' [F' N']]]].
  destruct S' as [|s1 rest]; [exfalso; apply N'; [discriminate|reflexivity]|].
  destruct W' as [Hl1 Hrest].
  unfold flat_stack0 in F'. cbn [map concat] in F'. unfold flat_seg0 at 1 3 in F'. rewrite Hl1 in F'.
  cbn [seg0 slink skind sitems ev_olink map concat app] in F'.
  rewrite <- (flat0_chain rest Hrest), <- flat0_to_body in F'. injection F' as Hk Ht.
  exists k0, (to_body (sitems s1) (chain_body rest)). split; [|rewrite Ht; reflexivity].
  cbn [syntax_of]. fold seg0. rewrite E'. rewrite Hk. reflexivity.
Qed.

(* the hypothesis of DenoteFinal, read off the history *)
Lemma evok_nopanic bd : (forall b k, In (EExtend b k) (flat0 bd) -> known_invert_panic k = false) -> nopanic bd.
Proof.
  induction bd as [| b r rest IH | l k inner IHi rest IHr | l k rest IH]; cbn [nopanic flat0]; intros H.
  - exact I.
  - apply IH. intros b' k' Hin. apply (H b' k'). right. exact Hin.
  - split; [|split].
    + destruct l as [|b]; cbn [link_ok]; [exact I|]. apply (H b k). left. reflexivity.
    + apply IHi. intros b' k' Hin. apply (H b' k'). right. apply in_or_app. left. exact Hin.
    + apply IHr. intros b' k' Hin. apply (H b' k'). right. apply in_or_app. right. right. exact Hin.
  - split.
    + destruct l as [|b]; cbn [link_ok]; [exact I|]. apply (H b k). left. reflexivity.
    + apply IH. intros b' k' Hin. apply (H b' k'). right. exact Hin.
Qed.
Theorem history_nopanic : forall h k0 bd, h = ERoot k0 :: flat0 bd ->
  (forall b k, In (EExtend b k) h -> known_invert_panic k = false) -> nopanic bd.
Proof. intros h k0 bd -> H. apply evok_nopanic. intros b k Hin. apply (H b k). right. exact Hin. Qed.
Theorem history_is_syntax_nopanic : forall h, conformant_history h ->
  (forall b k, In (EExtend b k) h -> known_invert_panic k = false) ->
  exists k0 bd, syntax_of h = Some (k0, bd) /\ h = ERoot k0 :: flat0 bd /\ nopanic bd.
Proof.
  intros h Hc Hk. destruct (history_is_syntax h Hc) as [k0 [bd [Hs Hh]]]. exists k0, bd. split; [exact Hs|]. split; [exact Hh|].
  exact (history_nopanic h k0 bd Hh Hk).
Qed.

(* the builder on a conformant history computes the denotation of its syntax *)
Theorem history_builds_the_denotation : forall h, conformant_history h ->
  (forall b k, In (EExtend b k) h -> known_invert_panic k = false) ->
  exists k0 bd, syntax_of h = Some (k0, bd) /\ h = ERoot k0 :: flat0 bd /\
    match bld h, denote k0 bd with
    | BOk g, DOk g' => g = g'
    | BErr (Builder.BJoin x y), DJoin x' y' => x = x' /\ y = y'
    | BErr (BRnum rid), DUnmatched occs => In rid occs
    | _, _ => False end.
Proof.
  intros h Hc Hk. destruct (history_is_syntax_nopanic h Hc Hk) as [k0 [bd [Hs [Hh Hnp]]]]. exists k0, bd. split; [exact Hs|]. split; [exact Hh|].
  rewrite Hh. exact (builder_is_denotation k0 bd Hnp).
Qed.

(* ---------- 2. an accepted string has a non-empty conformant history ---------- *)
Theorem accepted_has_root : forall s h, rd s = (VOk, h) -> conformant_history h.
Proof.
  intros s h Hrd. split.
  - revert Hrd. unfold rd, read, read_from.
    set (s0 := {| rest := s; pos := 0; out := []; maxd := 0 |}).
    pose proof (read_smiles_spec (S (length s)) 0 None s0 I ltac:(congruence)) as H.
    destruct (read_smiles (S (length s)) 0 None s0) as [r s1]. destruct H as [_ H].
    cbn [r_events r_verdict]. intros Hrd. inversion Hrd as [[Hv Hh]]. clear Hrd.
    destruct r as [[n|]| | | |]; try (destruct (rest s1); discriminate); try discriminate.
    destruct H as [Hn Hp]. change (pl s0) with 0 in Hp. unfold pl, evs_of in Hp. rewrite <- map_rev in Hp.
    intros E. rewrite E in Hp. cbn [plen] in Hp. lia.
  - pose proof (reader_conformant s) as H. rewrite Hrd in H. exact H.
Qed.

(* ---------- 3. C02 for strings ---------- *)
Theorem reading_builds_the_denotation : forall s h, rd s = (VOk, h) ->
  (forall b k, In (EExtend b k) h -> known_invert_panic k = false) ->
  exists k0 bd, syntax_of h = Some (k0, bd) /\ h = ERoot k0 :: flat0 bd /\
    match bld h, denote k0 bd with
    | BOk g, DOk g' => g = g'
    | BErr (Builder.BJoin x y), DJoin x' y' => x = x' /\ y = y'
    | BErr (BRnum rid), DUnmatched occs => In rid occs
    | _, _ => False end.
Proof. intros s h Hrd Hk. exact (history_builds_the_denotation h (accepted_has_root s h Hrd) Hk). Qed.

(* the same through [denote_events] *)
Corollary reading_denote_events : forall s h, rd s = (VOk, h) ->
  (forall b k, In (EExtend b k) h -> known_invert_panic k = false) ->
  exists d, denote_events h = Some d /\
    match bld h, d with
    | BOk g, DOk g' => g = g'
    | BErr (Builder.BJoin x y), DJoin x' y' => x = x' /\ y = y'
    | BErr (BRnum rid), DUnmatched occs => In rid occs
    | _, _ => False end.
Proof.
  intros s h Hrd Hk. destruct (reading_builds_the_denotation s h Hrd Hk) as [k0 [bd [Hs [_ H]]]].
  exists (denote k0 bd). split; [unfold denote_events; rewrite Hs; reflexivity | exact H].
Qed.

Print Assumptions history_is_syntax.
Print Assumptions accepted_has_root.
Print Assumptions reading_builds_the_denotation.
Print Assumptions history_builds_the_denotation.
Print Assumptions reading_denote_events.
