(* C14, graph level, part 1: the ring-number pool is equivariant under a renaming of atom ids that is injective on the
   ids in use.  [hit] only ever compares pairs of ids for equality (as unordered pairs), so renaming every id in the
   pool and in the query by f gives the same ring number and the renamed pool. *)
From Coq Require Import List NArith Lia Bool Arith.
Import ListNotations.
Require Import P.Model.Base P.Model.Pool P.Proofs.PoolSpec P.Proofs.D3.

Section PoolRen.
Variable f : nat -> nat.
Variable n : nat.
Hypothesis f_inj : forall a b, a < n -> b < n -> f a = f b -> a = b.

Definition ren_entry (e : (nat * nat) * N) : (nat * nat) * N := ((f (fst (fst e)), f (snd (fst e))), snd e).
Definition ren_b (b : list ((nat * nat) * N)) := map ren_entry b.
Definition ren_pool (p : pool) : pool := {| counter := counter p; borrowed := ren_b (borrowed p); replaced := replaced p |}.
Definition ren_pres (r : pres) : pres := match r with POk r p => POk r (ren_pool p) | x => x end.
(* every id mentioned by an open pair is in the range on which f is injective *)
Definition brng (b : list ((nat * nat) * N)) : Prop := forall u v r, In ((u, v), r) b -> u < n /\ v < n.

Lemma eqb_ren a b : a < n -> b < n -> Nat.eqb (f a) (f b) = Nat.eqb a b.
Proof.
  intros Ha Hb. destruct (Nat.eqb_spec a b) as [->|Hne]; [apply Nat.eqb_refl|].
  apply Nat.eqb_neq. intros E. apply Hne. apply f_inj; assumption.
Qed.
Lemma pair_eqb_ren u v a b : u < n -> v < n -> a < n -> b < n -> pair_eqb (f u, f v) (f a, f b) = pair_eqb (u, v) (a, b).
Proof. intros Hu Hv Ha Hb. unfold pair_eqb. cbn [fst snd]. rewrite !eqb_ren by assumption. reflexivity. Qed.

Lemma brng_nil : brng [].
Proof. intros u v r []. Qed.
Lemma brng_cons u v r b : u < n -> v < n -> brng b -> brng (((u, v), r) :: b).
Proof. intros Hu Hv Hb u' v' r' [E|Hin]; [inversion E; subst; split; assumption | eapply Hb; exact Hin]. Qed.
Lemma brng_tail e b : brng (e :: b) -> brng b.
Proof. intros H u v r Hin. eapply H. right. exact Hin. Qed.
Lemma brng_remove b p : brng b -> brng (remove b p).
Proof. intros H u v r Hin. eapply H. eapply remove_sub. exact Hin. Qed.

Lemma lookup_ren : forall b a c, brng b -> a < n -> c < n -> lookup (ren_b b) (f a, f c) = lookup b (a, c).
Proof.
  induction b as [|[[u v] m] t IH]; intros a c Hb Ha Hc; [reflexivity|].
  destruct (Hb u v m (or_introl eq_refl)) as [Hu Hv].
  cbn [ren_b map ren_entry lookup fst snd]. rewrite (pair_eqb_ren u v a c Hu Hv Ha Hc).
  destruct (pair_eqb (u, v) (a, c)); [reflexivity|]. apply IH; [eapply brng_tail; exact Hb | assumption | assumption].
Qed.
Lemma remove_ren : forall b a c, brng b -> a < n -> c < n -> remove (ren_b b) (f a, f c) = ren_b (remove b (a, c)).
Proof.
  induction b as [|[[u v] m] t IH]; intros a c Hb Ha Hc; [reflexivity|].
  destruct (Hb u v m (or_introl eq_refl)) as [Hu Hv].
  cbn [ren_b map ren_entry remove fst snd]. rewrite (pair_eqb_ren u v a c Hu Hv Ha Hc).
  destruct (pair_eqb (u, v) (a, c)); [reflexivity|]. cbn [map ren_entry fst snd]. f_equal.
  apply IH; [eapply brng_tail; exact Hb | assumption | assumption].
Qed.

(* the pool is equivariant *)
Theorem hit_ren p a c : brng (borrowed p) -> a < n -> c < n -> hit (ren_pool p) (f a) (f c) = ren_pres (hit p a c).
Proof.
  intros Hb Ha Hc. unfold hit. cbn [ren_pool borrowed replaced counter]. rewrite (lookup_ren _ a c Hb Ha Hc).
  destruct (lookup (borrowed p) (a, c)) as [result|].
  - destruct (to_rnum result); [|reflexivity]. cbn [ren_pres ren_pool borrowed replaced counter].
    rewrite (remove_ren _ a c Hb Ha Hc). reflexivity.
  - destruct (list_min (replaced p)) as [m|].
    + destruct (to_rnum m); reflexivity.
    + destruct (65535 <=? counter p)%N; [reflexivity|]. destruct (to_rnum (counter p)); reflexivity.
Qed.
(* ... and stays within the range *)
Lemma hit_brng p a c r p' : brng (borrowed p) -> a < n -> c < n -> hit p a c = POk r p' -> brng (borrowed p').
Proof.
  intros Hb Ha Hc. unfold hit. destruct (lookup (borrowed p) (a, c)) as [result|].
  - destruct (to_rnum result); [|discriminate]. intros E. inversion E; subst. cbn [borrowed]. apply brng_remove. exact Hb.
  - destruct (list_min (replaced p)) as [m|].
    + destruct (to_rnum m); [|discriminate]. intros E. inversion E; subst. cbn [borrowed]. apply brng_cons; assumption.
    + destruct (65535 <=? counter p)%N; [discriminate|]. destruct (to_rnum (counter p)); [|discriminate].
      intros E. inversion E; subst. cbn [borrowed]. apply brng_cons; assumption.
Qed.
End PoolRen.

(* the sequence of ring numbers handed out for a sequence of queries is unchanged by the renaming *)
Theorem hits_ren f n : (forall a b, a < n -> b < n -> f a = f b -> a = b) ->
  forall l p, brng n (borrowed p) -> (forall a b, In (a, b) l -> a < n /\ b < n) ->
  hits (ren_pool f p) (map (fun q => (f (fst q), f (snd q))) l) = hits p l.
Proof.
  intros Hinj. induction l as [|[a b] l IH]; intros p Hb Hl; [reflexivity|].
  destruct (Hl a b (or_introl eq_refl)) as [Ha Hbn]. cbn [map hits fst snd].
  rewrite (hit_ren f n Hinj p a b Hb Ha Hbn). destruct (hit p a b) as [r p'| |] eqn:Eh; cbn [ren_pres]; try reflexivity.
  f_equal. apply IH; [exact (hit_brng n p a b r p' Hb Ha Hbn Eh) | intros a' b' Hin; apply Hl; right; exact Hin].
Qed.
Print Assumptions hit_ren.
Print Assumptions hits_ren.
