(* The productions the reader's loop calls -- read_atom (organic | bracket | star), read_bond, read_rnum -- against
   the grammar of Spec/Lang.v, for every string: soundness (what is read is a member), completeness (a member
   followed by anything that may follow it is read entirely), absence (where no member starts: "not here"). *)
From Coq Require Import String.
From Coq Require Import List NArith Lia Bool Arith.
Import ListNotations.
Require Import P.Generated.Enums P.Meta.Scan P.Spec.Values P.Spec.Reading P.Generated.Trees P.Checks.Reading_defs P.Proofs.Reading
  P.Model.Base P.Model.Token P.Proofs.TokenSafe P.Spec.Lang P.Proofs.LangTrie P.Proofs.LangDigits P.Proofs.LangTokens.
Strategy opaque [tree_symbol tree_organic tree_configuration tree_charge tree_bond tree_rnum tree_hcount tree_isotope tree_map].
Strategy opaque [trie_of heads].

Lemma skipn_more {A} (s : list A) : forall o f w, skipn o s = f ++ w -> skipn (o + length f) s = w.
Proof.
  induction s as [|a s IH]; intros o f w H.
  - rewrite skipn_nil in *. destruct f; [|discriminate]. cbn [app] in H. exact H.
  - destruct o as [|o]; cbn [skipn Nat.add] in *.
    + rewrite H. clear. induction f as [|b f IHf]; [reflexivity | exact IHf].
    + apply IH. exact H.
Qed.

(* ---------- sequencing of bracket fields ---------- *)
Lemma opt_sound {A B} (rd : list N -> tok A) P (Hs : tok_sound rd P) s o (k : option A -> nat -> tok B) kd n :
  bind_opt (rd (skipn o s)) o k = TOk kd n ->
  exists f ov, opt P f /\ skipn o s = f ++ skipn (o + length f) s /\ k ov (o + length f) = TOk kd n.
Proof.
  destruct (rd (skipn o s)) as [v m| | | |] eqn:E; cbn [bind_opt]; intros H; try discriminate.
  - destruct (Hs _ _ _ E) as [p [w [Hx [Hp ->]]]]. exists p, (Some v). split; [right; exact Hp|].
    rewrite (skipn_more s o p w Hx). split; [exact Hx | exact H].
  - exists [], None. split; [left; reflexivity|]. cbn [length app]. rewrite Nat.add_0_r. split; [reflexivity | exact H].
Qed.
Lemma req_sound {A B} (rd : list N -> tok A) P (Hs : tok_sound rd P) s o (k : A -> nat -> tok B) kd n :
  bind_req (rd (skipn o s)) o k = TOk kd n ->
  exists f v, P f /\ skipn o s = f ++ skipn (o + length f) s /\ k v (o + length f) = TOk kd n.
Proof.
  destruct (rd (skipn o s)) as [v m| | | |] eqn:E; cbn [bind_req]; intros H; try discriminate.
  destruct (Hs _ _ _ E) as [p [w [Hx [Hp ->]]]]. exists p, v. split; [exact Hp|].
  rewrite (skipn_more s o p w Hx). split; [exact Hx | exact H].
Qed.
Lemma opt_complete {A B} (rd : list N -> tok A) P follow starts (Hc : tok_complete rd P follow) (Ha : tok_absent rd starts)
  (Hd : disj_b follow starts = true) s o f w (k : option A -> nat -> tok B) :
  skipn o s = f ++ w -> opt P f -> hd_in w follow ->
  (exists ov, bind_opt (rd (skipn o s)) o k = k ov (o + length f)) /\ skipn (o + length f) s = w.
Proof.
  intros Hx Hf Hw. split; [|apply skipn_more; exact Hx]. rewrite Hx. destruct Hf as [->|Hf].
  - cbn [app length]. rewrite Nat.add_0_r. rewrite (Ha w (disj_out _ _ _ Hd Hw)). exists None. reflexivity.
  - destruct (Hc f w Hf Hw) as [v E]. rewrite E. exists (Some v). reflexivity.
Qed.
Lemma req_complete {A B} (rd : list N -> tok A) P follow (Hc : tok_complete rd P follow) s o f w (k : A -> nat -> tok B) :
  skipn o s = f ++ w -> P f -> hd_in w follow ->
  (exists v, bind_req (rd (skipn o s)) o k = k v (o + length f)) /\ skipn (o + length f) s = w.
Proof.
  intros Hx Hf Hw. split; [|apply skipn_more; exact Hx]. rewrite Hx.
  destruct (Hc f w Hf Hw) as [v E]. rewrite E. exists v. reflexivity.
Qed.

Lemma hd_in_opt {V} (table : list (list N * V)) f w F :
  opt (key table) f -> accepting V table = None -> hd_in w F -> hd_in (f ++ w) (heads V table ++ F).
Proof.
  intros [->|Hk] Ha Hw.
  - cbn [app]. destruct w as [|c w']; [exact I|]. cbn [hd_in] in *. apply in_or_app. right. exact Hw.
  - destruct (key_head table f Hk Ha) as [c [t [-> Hc]]]. cbn [app hd_in]. apply in_or_app. left. exact Hc.
Qed.
Lemma hd_in_key {V} (table : list (list N * V)) f w : key table f -> accepting V table = None -> hd_in (f ++ w) (heads V table).
Proof. intros Hk Ha. destruct (key_head table f Hk Ha) as [c [t [-> Hc]]]. exact Hc. Qed.

Lemma opt_iso i : opt (key isotope_table) i <-> opt Isotope i.
Proof. unfold opt. rewrite isotope_keys. tauto. Qed.
Lemma opt_map m : opt (key map_table) m <-> opt Map m.
Proof. unfold opt. rewrite map_keys. tauto. Qed.

(* ---------- bracket ---------- *)
Theorem bracket_sound : tok_sound read_bracket Bracket.
Proof.
  intros x kd n H. unfold read_bracket in H. destruct x as [|c0 s0]; [discriminate|].
  destruct (N.eqb_spec c0 LB) as [->|]; [|discriminate].
  unfold char in *. remember (@cons N LB s0) as s eqn:Es in *.
  apply (opt_sound _ _ isotope_sound) in H as [i [ov1 [Hi [E1 H]]]]. cbv beta in H.
  apply (req_sound _ _ symbol_sound) in H as [sy [v2 [Hsy [E2 H]]]]. cbv beta in H.
  apply (opt_sound _ _ configuration_sound) in H as [cf [ov3 [Hcf [E3 H]]]]. cbv beta in H.
  apply (opt_sound _ _ hcount_sound) in H as [h [ov4 [Hh [E4 H]]]]. cbv beta in H.
  apply (opt_sound _ _ charge_sound) in H as [g [ov5 [Hg [E5 H]]]]. cbv beta in H.
  apply (opt_sound _ _ map_sound) in H as [m [ov6 [Hm [E6 H]]]]. cbv beta in H.
  revert H. destruct (skipn (1 + length i + length sy + length cf + length h + length g + length m) s) as [|c' l] eqn:E7; [discriminate|].
  destruct (N.eqb_spec c' RB) as [->|]; [|discriminate]. intros H. inversion H; subst kd n. clear H.
  rewrite E6 in E5. rewrite E5 in E4. rewrite E4 in E3. rewrite E3 in E2. rewrite E2 in E1.
  rewrite Es in E1. cbn [skipn] in E1.
  exists (str "[" ++ i ++ sy ++ cf ++ h ++ g ++ m ++ str "]"), l. change (str "[") with [LB]. change (str "]") with [RB].
  split; [|split].
  - rewrite Es, E1. cbn [app]. f_equal. repeat rewrite <- app_assoc. reflexivity.
  - apply (bracket i sy cf h g m); [apply opt_iso; exact Hi | exact Hsy | exact Hcf | exact Hh | exact Hg | apply opt_map; exact Hm].
  - repeat rewrite app_length. cbn [length]. lia.
Qed.

Lemma empty_key_checks : accepting _ isotope_table = None /\ accepting _ symbol_table = None /\ accepting _ configuration_table = None /\
  accepting _ hcount_table = None /\ accepting _ charge_table = None /\ accepting _ map_table = None /\
  accepting _ organic_table = None /\ accepting _ rnum_table = None /\ accepting _ bond_table = None.
Proof. vm_compute. repeat split; reflexivity. Qed.

Theorem bracket_complete : forall a w, Bracket a -> exists k, read_bracket (a ++ w) = TOk k (length a).
Proof.
  intros a w Hb. destruct Hb as [i sy cf h g m Hi Hsy Hcf Hh Hg Hm].
  apply opt_iso in Hi. apply opt_map in Hm.
  destruct empty_key_checks as [A1 [A2 [A3 [A4 [A5 [A6 _]]]]]].
  change (str "[") with [LB]. change (str "]") with [RB].
  match goal with |- exists k, read_bracket ?X = _ => remember X as s eqn:Es end.
  assert (E0 : skipn 1 s = i ++ sy ++ cf ++ h ++ g ++ m ++ RB :: w).
  { rewrite Es. cbn [app skipn]. repeat rewrite <- app_assoc. reflexivity. }
  assert (W6 : hd_in (RB :: w) F_map) by (left; reflexivity).
  assert (W5 : hd_in (m ++ RB :: w) F_charge) by (apply hd_in_opt; assumption).
  assert (W4 : hd_in (g ++ m ++ RB :: w) F_hcount) by (apply hd_in_opt; assumption).
  assert (W3 : hd_in (h ++ g ++ m ++ RB :: w) F_config) by (apply hd_in_opt; assumption).
  assert (W2 : hd_in (cf ++ h ++ g ++ m ++ RB :: w) F_symbol) by (apply hd_in_opt; assumption).
  assert (W1 : hd_in (sy ++ cf ++ h ++ g ++ m ++ RB :: w) F_isotope) by (apply hd_in_key; assumption).
  unfold read_bracket. assert (Hhd : exists s0, s = LB :: s0) by (rewrite Es; eexists; reflexivity).
  destruct Hhd as [s0 Hs0]. rewrite Hs0. rewrite N.eqb_refl. rewrite <- Hs0. unfold char in *.
  match goal with |- exists k, bind_opt _ _ ?K = _ =>
    destruct (opt_complete (run_tok tree_isotope) _ F_isotope _ isotope_complete isotope_absent ltac:(vm_compute; reflexivity) s 1 i _ K E0 Hi W1) as [[ov1 R1] E1] end.
  rewrite R1. clear R1. cbv beta.
  match goal with |- exists k, bind_req _ _ ?K = _ =>
    destruct (req_complete (run_tok tree_symbol) _ F_symbol symbol_complete s _ sy _ K E1 Hsy W2) as [[v2 R2] E2] end.
  rewrite R2. clear R2. cbv beta.
  match goal with |- exists k, bind_opt _ _ ?K = _ =>
    destruct (opt_complete (run_tok tree_configuration) _ F_config _ configuration_complete configuration_absent ltac:(vm_compute; reflexivity) s _ cf _ K E2 Hcf W3) as [[ov3 R3] E3] end.
  rewrite R3. clear R3. cbv beta.
  match goal with |- exists k, bind_opt _ _ ?K = _ =>
    destruct (opt_complete (run_tok tree_hcount) _ F_hcount _ hcount_complete hcount_absent ltac:(vm_compute; reflexivity) s _ h _ K E3 Hh W4) as [[ov4 R4] E4] end.
  rewrite R4. clear R4. cbv beta.
  match goal with |- exists k, bind_opt _ _ ?K = _ =>
    destruct (opt_complete (run_tok tree_charge) _ F_charge _ charge_complete charge_absent ltac:(vm_compute; reflexivity) s _ g _ K E4 Hg W5) as [[ov5 R5] E5] end.
  rewrite R5. clear R5. cbv beta.
  match goal with |- exists k, bind_opt _ _ ?K = _ =>
    destruct (opt_complete (run_tok tree_map) _ F_map _ map_complete map_absent ltac:(vm_compute; reflexivity) s _ m _ K E5 Hm W6) as [[ov6 R6] E6] end.
  rewrite R6. clear R6. cbv beta.
  rewrite E6. rewrite N.eqb_refl. eexists. f_equal.
  repeat rewrite app_length. cbn [length]. lia.
Qed.

(* ---------- atom ---------- *)
Lemma organic_value x v n : run_tok tree_organic x = TOk v n -> exists k, read_organic x = TOk k n.
Proof.
  intros E. pose proof (read_organic_sane x) as Hs. unfold read_organic in *. rewrite E in *.
  destruct v as [a|a|]; [eexists; reflexivity | eexists; reflexivity | contradiction].
Qed.
Lemma read_organic_sound : tok_sound read_organic Organic.
Proof.
  intros x k n H. unfold read_organic in H. destruct (run_tok tree_organic x) as [v m| | | |] eqn:E; try discriminate.
  assert (m = n) as -> by (destruct v; inversion H; reflexivity).
  exact (organic_sound _ _ _ E).
Qed.
Lemma read_organic_absent : tok_absent read_organic (heads _ organic_table).
Proof. intros w Hw. unfold read_organic. rewrite (organic_absent w Hw). reflexivity. Qed.

Theorem atom_sound : tok_sound read_atom Atom.
Proof.
  intros x k n H. unfold read_atom in H. destruct (read_organic x) as [k1 n1| | | |] eqn:E1; try discriminate.
  - inversion H; subst. destruct (read_organic_sound _ _ _ E1) as [p [w [Hx [Hp Hn]]]]. exists p, w. split; [exact Hx|]. split; [left; exact Hp | exact Hn].
  - destruct (read_bracket x) as [k2 n2| | | |] eqn:E2; try discriminate.
    + inversion H; subst. destruct (bracket_sound _ _ _ E2) as [p [w [Hx [Hp Hn]]]]. exists p, w. split; [exact Hx|]. split; [right; right; exact Hp | exact Hn].
    + unfold read_star in H. destruct x as [|c x']; [discriminate|]. destruct (N.eqb_spec c STAR) as [->|]; [|discriminate].
      inversion H; subst. exists [STAR], x'. split; [reflexivity|]. split; [right; left; reflexivity | reflexivity].
Qed.

Lemma not_organic_start c : In c [LBc; 42%N] -> ~ In c (heads _ organic_table).
Proof.
  intros Hc. assert (H : disj_b [LBc; 42%N] (heads _ organic_table) = true) by (vm_compute; reflexivity).
  exact (disj_out _ _ (c :: []) H Hc).
Qed.
Theorem atom_complete : tok_complete read_atom Atom F_body.
Proof.
  intros a w Ha Hw. unfold read_atom. destruct Ha as [Ho|[->|Hb]].
  - destruct (organic_complete a w Ho Hw) as [v E]. destruct (organic_value _ _ _ E) as [k Ek]. rewrite Ek. exists k. reflexivity.
  - change (str "*") with [STAR]. cbn [app]. rewrite read_organic_absent by (cbn [hd_out]; apply not_organic_start; right; left; reflexivity).
    cbn [read_bracket read_star]. change (N.eqb STAR LB) with false. cbv iota. rewrite N.eqb_refl. exists AK_Star. reflexivity.
  - assert (Hhd : exists t, a = LB :: t) by (destruct Hb; eexists; reflexivity). destruct Hhd as [t Ht].
    rewrite read_organic_absent by (rewrite Ht; cbn [app hd_out]; apply not_organic_start; left; reflexivity).
    destruct (bracket_complete a w Hb) as [k E]. rewrite E. exists k. reflexivity.
Qed.
Theorem atom_absent : tok_absent read_atom atom_starts.
Proof.
  intros w Hw. unfold read_atom. rewrite read_organic_absent.
  - destruct w as [|c w']; [reflexivity|]. cbn [hd_out] in Hw. unfold read_bracket, read_star.
    destruct (N.eqb_spec c LB) as [->|_]; [exfalso; apply Hw; apply in_or_app; right; left; reflexivity|].
    destruct (N.eqb_spec c STAR) as [->|_]; [exfalso; apply Hw; apply in_or_app; right; right; left; reflexivity|]. reflexivity.
  - destruct w as [|c w']; [exact I|]. cbn [hd_out] in *. intros Hc. apply Hw. apply in_or_app. left. exact Hc.
Qed.
(* an atom never starts where it is said to be absent, and is at least one character long *)
Lemma atom_head a : Atom a -> exists c t, a = c :: t /\ In c atom_starts.
Proof.
  destruct empty_key_checks as [_ [_ [_ [_ [_ [_ [A7 _]]]]]]].
  intros [Ho|[->|Hb]].
  - destruct (key_head organic_table a Ho A7) as [c [t [-> Hc]]]. exists c, t. split; [reflexivity | apply in_or_app; left; exact Hc].
  - exists STAR, []. split; [reflexivity | apply in_or_app; right; right; left; reflexivity].
  - destruct Hb. eexists LB, _. split; [reflexivity | apply in_or_app; right; left; reflexivity].
Qed.

(* ---------- rnum ---------- *)
Theorem rnum_read_sound : tok_sound read_rnum Rnum.
Proof.
  intros x r n H. unfold read_rnum in H. destruct (run_tok tree_rnum x) as [v m| | | |] eqn:E; try discriminate.
  inversion H; subst. destruct (rnum_sound _ _ _ E) as [p [w [Hx [Hp Hn]]]]. exists p, w. split; [exact Hx|]. split; [apply rnum_keys; exact Hp | exact Hn].
Qed.
Theorem rnum_read_complete : tok_complete read_rnum Rnum F_body.
Proof.
  intros p w Hp Hw. apply rnum_keys in Hp. destruct (rnum_complete p w Hp Hw) as [v E]. unfold read_rnum. rewrite E. eexists. reflexivity.
Qed.
Theorem rnum_read_absent : tok_absent read_rnum rnum_starts.
Proof. intros w Hw. unfold rnum_starts in Hw. unfold read_rnum. rewrite (rnum_absent w Hw). reflexivity. Qed.
Lemma rnum_head r : Rnum r -> exists c t, r = c :: t /\ In c rnum_starts.
Proof.
  destruct empty_key_checks as [_ [_ [_ [_ [_ [_ [_ [A8 _]]]]]]]].
  intros Hr. apply rnum_keys in Hr. exact (key_head rnum_table r Hr A8).
Qed.

(* ---------- bond ---------- *)
Lemma bond_values : forallb (fun e => negb (bond_kind_eqb (snd e) BK_Elided)) bond_table = true /\ elided_out = Some (OVal BK_Elided).
Proof. vm_compute. split; reflexivity. Qed.
Theorem bond_read x b n : read_bond x = (b, n) ->
  (n = 0 /\ b = BK_Elided) \/ (bondk_eqb b BK_Elided = false /\ exists p w, x = p ++ w /\ Bond p /\ n = length p).
Proof.
  unfold read_bond. destruct (run_tok tree_bond x) as [v m| | | |] eqn:E; intros H; inversion H; subst; try (left; split; reflexivity).
  destruct (fam_value _ _ _ _ _ bond_as_documented ltac:(vm_compute; discriminate) ltac:(vm_compute; reflexivity) _ _ _ E) as [v' [Hs Hv]].
  apply bond_kind_eqb_eq in Hv. subst v'. destruct bond_values as [Hne Hel].
  apply scan_value in Hs as [[p [w [-> [Hin ->]]]]|[_ [-> [Hx _]]]].
  - right. split.
    + pose proof (forallb_In _ _ _ Hne Hin) as Hb. cbn [snd] in Hb. apply negb_true_iff in Hb. exact Hb.
    + exists p, w. split; [reflexivity|]. split; [apply key_entry; exists b; exact Hin | reflexivity].
  - left. split; [reflexivity|]. rewrite Hel in Hx. inversion Hx. reflexivity.
Qed.
Lemma bond_head b : Bond b -> exists c t, b = c :: t /\ In c bond_starts.
Proof. destruct empty_key_checks as [_ [_ [_ [_ [_ [_ [_ [_ A9]]]]]]]]. intros Hb. exact (key_head bond_table b Hb A9). Qed.
Theorem bond_read_complete p w : Bond p -> hd_in w (atom_starts ++ rnum_starts) ->
  exists b, read_bond (p ++ w) = (b, length p) /\ bondk_eqb b BK_Elided = false.
Proof.
  intros Hp Hw. destruct (bond_complete p w Hp Hw) as [v E].
  assert (R : read_bond (p ++ w) = (v, length p)) by (unfold read_bond; rewrite E; reflexivity).
  exists v. split; [exact R|]. destruct (bond_read _ _ _ R) as [[Hn _]|[Hb _]]; [|exact Hb].
  exfalso. destruct (bond_head p Hp) as [c [t [-> _]]]. discriminate.
Qed.
Theorem bond_read_absent w : hd_out w bond_starts -> read_bond w = (BK_Elided, 0).
Proof.
  intros Hw. unfold bond_starts in Hw. unfold read_bond. destruct bond_values as [_ Hel]. destruct empty_key_checks as [_ [_ [_ [_ [_ [_ [_ [_ A9]]]]]]]].
  assert (Hs : scan elided_out bond_table w 0 = (OVal BK_Elided, 0)) by (apply scan_root; [exact Hel | exact A9 | exact Hw]).
  destruct (fam_of_scan _ _ _ _ _ bond_as_documented ltac:(vm_compute; discriminate) ltac:(vm_compute; reflexivity) _ _ _ Hs) as [v [E Hv]].
  rewrite E. apply bond_kind_eqb_eq in Hv. subst. reflexivity.
Qed.
