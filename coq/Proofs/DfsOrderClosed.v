(* C12, closed form, part 2: from "the traversal visits atoms in the specification's depth-first order"
   (Proofs/DfsOrder.v) to  bld (walk g) = expected_roundtrip g  (Spec/Roundtrip.v), for every well-formed graph on
   which the traversal succeeds.  The small lemmas relate the helper functions of the lock-step development
   (phi / index_of, arrival_first / remove_first_to, kind_final / Stereo.flip_TH) to the specification's
   (rank, index_to, move_front, flip_kind). *)
From Coq Require Import List NArith Lia Bool Arith.
Import ListNotations.
Require Import P.Generated.Enums P.Spec.Values P.Generated.Tables P.Spec.Graph P.Model.Base P.Model.Pool P.Proofs.PoolSpec P.Model.Walk P.Model.Builder
  P.Proofs.D0 P.Proofs.D1 P.Proofs.D3 P.Proofs.D2 P.Proofs.D4 P.Proofs.D5 P.Proofs.D6 P.Proofs.D7 P.Proofs.Stereo P.Proofs.C12_Final
  P.Spec.Roundtrip P.Proofs.DfsOrder.
Local Notation length := List.length.

(* ================= the order theorem, from the boolean well-formedness predicate ================= *)
(* strong form: additionally, the bond to the recorded parent exists in the atom's bond list *)
Theorem visiting_order_is_dfs_strong : forall g h, wf g = true -> safe_graph g -> walk g = (WOk, h) ->
  exists gh g', bld h = BOk g' /\ length g' = length g /\ NoDup (order gh) /\ (forall x, In x (order gh) <-> x < length g) /\
    (forall x p, par gh x = Some p -> exists bb, find_to p (bonds_of g x) = Some bb) /\
    (forall x, x < length g -> nth_error g' (phi gh x) = Some {| akind := kind_final g gh x; bonds := map (rename gh) (arrival_first g gh x) |}) /\
    map (fun x => (x, par gh x)) (order gh) = dfs_all g.
Proof.
  intros g h Hwf Hs Hw. unfold walk in Hw. destruct (validate g); [discriminate|].
  apply traverse_order_is_dfs; [apply wf_range | apply wf_nodup | apply wf_sym | apply safe_graph_kinds | exact Hw]; assumption.
Qed.

(* the ghost of C12_from_wf can be chosen so that its order and parents are the specification's depth-first search *)
Theorem visiting_order_is_dfs : forall g h, wf g = true -> safe_graph g -> walk g = (WOk, h) ->
  exists gh g',
    (bld h = BOk g' /\ length g' = length g /\ NoDup (order gh) /\ (forall x, In x (order gh) <-> x < length g) /\
     forall x, x < length g -> nth_error g' (phi gh x) = Some {| akind := kind_final g gh x; bonds := map (rename gh) (arrival_first g gh x) |}) /\
    map (fun x => (x, par gh x)) (order gh) = dfs_all g.
Proof.
  intros g h Hwf Hs Hw. destruct (visiting_order_is_dfs_strong g h Hwf Hs Hw) as [gh [g' [H1 [H2 [H3 [H4 [_ [H6 H7]]]]]]]].
  exists gh, g'. repeat split; try assumption; apply H4.
Qed.

(* ================= correspondence between the D-files' helpers and the specification's ================= *)
Lemma rank_vis (f : nat -> option nat) x : forall l, rank x (map (fun z => (z, f z)) l) = index_of x l.
Proof. induction l as [|a l IH]; [reflexivity|]. cbn [map rank index_of fst]. destruct (Nat.eqb a x); [reflexivity|]. rewrite IH. reflexivity. Qed.
Lemma index_to_index_of p : forall l, index_to p l = index_of p (map tid l).
Proof. induction l as [|a l IH]; [reflexivity|]. cbn [map index_to index_of]. destruct (Nat.eqb (tid a) p); [reflexivity|]. rewrite IH. reflexivity. Qed.
Lemma move_front_spec p : forall l bb, find_to p l = Some bb -> move_front p l = bb :: remove_first_to p l.
Proof.
  induction l as [|a l IH]; intros bb H; [discriminate|]. cbn [find_to move_front remove_first_to] in *.
  destruct (Nat.eqb (tid a) p); [inversion H; reflexivity|]. rewrite (IH bb H). reflexivity.
Qed.
Lemma flip_kind_eq k : flip_kind k = P.Proofs.Stereo.flip_TH k.
Proof. destruct k as [| | |i s c h gg m]; try reflexivity. destruct c as [[]|]; reflexivity. Qed.
Lemma nth_atom_eq g x : nth_atom g x = atom_at g x.
Proof. reflexivity. Qed.

Lemma nth_error_ext' {A} : forall (l l' : list A), (forall i, nth_error l i = nth_error l' i) -> l = l'.
Proof.
  induction l as [|a l IH]; intros [|a' l'] H; [reflexivity | discriminate (H 0) | discriminate (H 0) |].
  pose proof (H 0) as H0. cbn in H0. inversion H0; subst. f_equal. apply IH. intros i. exact (H (S i)).
Qed.

(* what the specification writes at the position of atom x equals what C12 found there *)
Lemma node_eq g gh x : map (fun z => (z, par gh z)) (order gh) = dfs_all g ->
  (forall p, par gh x = Some p -> exists bb, find_to p (bonds_of g x) = Some bb) ->
  (let vis := dfs_all g in
   let a := nth_atom g x in
   match par gh x with
   | None => {| akind := akind a; bonds := map (fun b => {| bk := bk b; tid := rank (tid b) vis |}) (bonds a) |}
   | Some p => {| akind := if Nat.odd (index_to p (bonds a)) then flip_kind (akind a) else akind a;
                  bonds := map (fun b => {| bk := bk b; tid := rank (tid b) vis |}) (move_front p (bonds a)) |}
   end) = {| akind := kind_final g gh x; bonds := map (rename gh) (arrival_first g gh x) |}.
Proof.
  intros Hord Hpar. cbv zeta. rewrite <- Hord.
  assert (Hren : forall l, map (fun b => {| bk := bk b; tid := rank (tid b) (map (fun z => (z, par gh z)) (order gh)) |}) l = map (rename gh) l).
  { intros l. apply map_ext. intros b. unfold rename, phi. rewrite rank_vis. reflexivity. }
  rewrite kind_final_spec. unfold arrival_first. rewrite nth_atom_eq. fold (bonds_of g x).
  destruct (par gh x) as [p|] eqn:Ep.
  - destruct (Hpar p eq_refl) as [bb Hbb]. rewrite Hbb, (move_front_spec p _ bb Hbb), Hren, index_to_index_of, flip_kind_eq. reflexivity.
  - rewrite Hren. reflexivity.
Qed.

(* ================= C12 in closed form ================= *)
Theorem C12_closed_form : forall g h, wf g = true -> safe_graph g -> walk g = (WOk, h) -> bld h = BOk (expected_roundtrip g).
Proof.
  intros g h Hwf Hs Hw.
  destruct (visiting_order_is_dfs_strong g h Hwf Hs Hw) as [gh [g' [Hb [Hlen [Hnd [Hcov [Hpar [Hnode Hord]]]]]]]].
  rewrite Hb. f_equal.
  assert (Hcard : length (order gh) = length g).
  { apply Nat.le_antisymm.
    - assert (Hincl : incl (order gh) (seq 0 (length g))) by (intros x Hx; apply in_seq; apply Hcov in Hx; lia).
      pose proof (NoDup_incl_length Hnd Hincl) as Hl. rewrite seq_length in Hl. exact Hl.
    - assert (Hincl : incl (seq 0 (length g)) (order gh)) by (intros x Hx; apply in_seq in Hx; apply Hcov; lia).
      pose proof (NoDup_incl_length (seq_NoDup (length g) 0) Hincl) as Hl. rewrite seq_length in Hl. exact Hl. }
  apply nth_error_ext'. intros i. unfold expected_roundtrip. cbv zeta. rewrite nth_error_map.
  destruct (Nat.lt_ge_cases i (length g)) as [Hi|Hi].
  - set (x := nth i (order gh) 0).
    assert (Hil : i < length (order gh)) by (rewrite Hcard; exact Hi).
    assert (Hx : In x (order gh)) by (apply nth_In; exact Hil).
    assert (Hphi : phi gh x = i) by (apply index_of_nth; assumption).
    rewrite <- Hphi at 1. rewrite (Hnode x (proj1 (Hcov x) Hx)).
    assert (Hv : nth_error (dfs_all g) i = Some (x, par gh x)).
    { rewrite <- Hord, nth_error_map, (nth_error_nth' (order gh) i 0 Hil). reflexivity. }
    rewrite Hv. cbn [option_map fst snd].
    f_equal. symmetry. apply (node_eq g gh x Hord). intros p Hp. apply (Hpar x p Hp).
  - rewrite (proj2 (nth_error_None g' i)) by lia.
    rewrite (proj2 (nth_error_None (dfs_all g) i)); [reflexivity|]. rewrite <- Hord, map_length. lia.
Qed.

Print Assumptions traverse_order_is_dfs.
Print Assumptions visiting_order_is_dfs_strong.
Print Assumptions visiting_order_is_dfs.
Print Assumptions C12_closed_form.
