From Coq Require Import List NArith Lia Bool Arith.
Import ListNotations.
Require Import P.Generated.Enums P.Spec.Values P.Generated.Tables P.Model.Base P.Model.Pool P.Proofs.PoolSpec P.Model.Walk P.Model.Builder P.Proofs.D0 P.Proofs.D1 P.Proofs.D3 P.Proofs.D2 P.Proofs.D4 P.Proofs.D5.

Section D6.
Variable g : list atom.
Notation n := (length g).
Notation bonds_of := (bonds_of g).
Notation atom_at := (atom_at g).
Notation nonback := (nonback g).
Notation processed := (processed g).
Notation pending := (pending g).
Notation wsim := (wsim g).
Notation bsim := (bsim g).

Hypothesis wf_range : forall x b, x < n -> In b (bonds_of x) -> tid b < n /\ tid b <> x.
Hypothesis wf_nodup : forall x, x < n -> NoDup (map tid (bonds_of x)).
Hypothesis wf_sym : forall x b, x < n -> In b (bonds_of x) ->
  exists b', find_to x (bonds_of (tid b)) = Some b' /\ bk b' = reverse (bk b).
Hypothesis safe_kinds : forall x, safe (akind (atom_at x)).

(* the lock-step invariant, ghosts existentially quantified *)
Definition Inv (s : wstate) := exists gh b, wsim gh s /\ bsim gh s b /\ bfold b0 (rev (evs s)) = Some b.
Definition pool_panic (r : wres) := r = WPanic 3 \/ r = WPanic 4.

Lemma bfold_snoc b h e b1 b2 : bfold b h = Some b1 -> bstep b1 e = Some b2 -> bfold b (h ++ [e]) = Some b2.
Proof. intros H1 H2. rewrite bfold_app, H1. cbn [bfold]. rewrite H2. reflexivity. Qed.

Lemma step_Inv s : Inv s ->
  match step n s with
  | Cont s' => Inv s'
  | Done s' => s' = s /\ stk s = []
  | Stop r _ => pool_panic r
  end.
Proof.
  intros [gh [b [W [B Hf]]]].
  pose proof (wstep_spec g wf_range wf_nodup wf_sym safe_kinds gh s W) as Hstep.
  inversion Hstep as [Hs | x bd rest pre post b' T Hnin Hfb Hkb | x bd rest pre post r p' T Hin Hhit | x bd rest pre post s' k T Hin Hhit Hk].
  - split; [reflexivity | exact Hs].
  - (* new atom *)
    pose proof T as [Es [Ech _]].
    destruct (builder_popped g gh s b pre x post B Ech) as [b1 [junk [Hpop [Hst [Hgr [Hop [Her _]]]]]]].
    edestruct (sim_extend g) with (gh := gh) (s := s) (b := b) (b1 := b1) (tail := junk) as [b2 [Hb2 B2]]; try eassumption.
    exists (gh_extend gh x (tid bd)), b2. split; [|split].
    + eapply wsim_extend; eassumption.
    + exact B2.
    + cbn [evs rev]. rewrite rev_popped. eapply bfold_snoc; [|exact Hb2]. rewrite bfold_app, Hf. exact Hpop.
  - (* ring closure *)
    pose proof T as [Es [Ech _]].
    destruct (builder_popped g gh s b pre x post B Ech) as [b1 [junk [Hpop [Hst [Hgr [Hop [Her _]]]]]]].
    pose proof (bs_pinv g gh s b B) as Pinv.
    destruct (lookup (borrowed (wpool s)) (x, tid bd)) as [r0|] eqn:El.
    + destruct (hit_close _ _ _ _ _ _ Pinv El Hhit) as [-> [Hb' Hp']].
      edestruct (sim_join_close g) with (gh := gh) (s := s) (b := b) (b1 := b1) (tail := junk) (p' := p') as [b2 [Hb2 B2]]; try eassumption.
      exists (gh_join gh x), b2. split; [|split].
      * eapply wsim_join; eassumption.
      * exact B2.
      * cbn [evs rev]. rewrite rev_popped. eapply bfold_snoc; [|exact Hb2]. rewrite bfold_app, Hf. exact Hpop.
    + destruct (hit_open _ _ _ _ _ Pinv El Hhit) as [Hfresh [Hb' Hp']].
      edestruct (sim_join_open g) with (gh := gh) (s := s) (b := b) (b1 := b1) (tail := junk) (p' := p') as [b2 [Hb2 B2]]; try eassumption.
      exists (gh_join gh x), b2. split; [|split].
      * eapply wsim_join; eassumption.
      * exact B2.
      * cbn [evs rev]. rewrite rev_popped. eapply bfold_snoc; [|exact Hb2]. rewrite bfold_app, Hf. exact Hpop.
  - unfold pool_panic. destruct Hk as [->| ->]; [left|right]; reflexivity.
Qed.

Definition acceptable (r : wres) := pool_panic r \/ r = WFuel.

Lemma run_root_Inv : forall fuel s, Inv s ->
  match run_root fuel n s with
  | (WOk, s') => Inv s' /\ stk s' = []
  | (r, _) => acceptable r
  end.
Proof.
  induction fuel as [|f IH]; intros s HI; cbn [run_root]; [right; reflexivity|].
  pose proof (step_Inv s HI) as Hs. destruct (step n s) as [s1|s1|r s1].
  - apply IH. exact Hs.
  - destruct Hs as [-> Hst]. split; assumption.
  - destruct Hs as [-> | ->]; left; [left|right]; reflexivity.
Qed.

(* visited atoms stay visited *)
Definition visited (s : wstate) x := nth x (rem s) None = None.
Lemma step_visited s s' x : step n s = Cont s' -> visited s x -> visited s' x.
Proof.
  unfold step, visited. destruct (stk s) as [|[sid b] stk']; [discriminate|].
  destruct (n <=? tid b); [discriminate|]. destruct (Nat.eqb (tid b) sid); [discriminate|].
  destruct (unwind (chain s) sid 0) as [[? ?]|]; [|discriminate].
  destruct (nth (tid b) (rem s) None) eqn:E.
  - destruct (scan_bonds _ _ _ _ _) as [? [bk'|] ?| |]; try discriminate.
    destruct (negb (compatible b bk')); [discriminate|]. intros H Hv.
    assert (Hne : tid b <> x) by (intros Ex; rewrite Ex in E; rewrite Hv in E; discriminate).
    inversion H; subst. cbn [rem]. rewrite nth_set_nth_other by exact Hne. exact Hv.
  - destruct (hit _ _ _); try discriminate. intros H Hv. inversion H; subst. exact Hv.
Qed.
Lemma step_stop_not_ok s r s' : step n s = Stop r s' -> r <> WOk.
Proof.
  unfold step. destruct (stk s) as [|[sid b] stk']; [discriminate|].
  destruct (n <=? tid b); [intros H; inversion H; discriminate|]. destruct (Nat.eqb (tid b) sid); [intros H; inversion H; discriminate|].
  destruct (unwind (chain s) sid 0) as [[? ?]|]; [|intros H; inversion H; discriminate].
  destruct (nth (tid b) (rem s) None).
  - destruct (scan_bonds _ _ _ _ _) as [? [bk'|] ?| |]; try (intros H; inversion H; discriminate).
    destruct (negb (compatible b bk')); intros H; inversion H; discriminate.
  - destruct (hit _ _ _); intros H; inversion H; discriminate.
Qed.
Lemma run_root_visited : forall fuel s s' x, run_root fuel n s = (WOk, s') -> visited s x -> visited s' x.
Proof.
  induction fuel as [|f IH]; intros s s' x H Hv; cbn [run_root] in H; [discriminate|].
  destruct (step n s) as [s1|s1|r s1] eqn:Es.
  - eapply IH; [exact H|]. eapply step_visited; eauto.
  - inversion H; subst. unfold step in Es. destruct (stk s) as [|[sid b] stk']; [inversion Es; subst; exact Hv|].
    destruct (n <=? tid b); [discriminate|]. destruct (Nat.eqb (tid b) sid); [discriminate|].
    destruct (unwind (chain s) sid 0) as [[? ?]|]; [|discriminate].
    destruct (nth (tid b) (rem s) None).
    + destruct (scan_bonds _ _ _ _ _) as [? [bk'|] ?| |]; try discriminate. destruct (negb (compatible b bk')); discriminate.
    + destruct (hit _ _ _); discriminate.
  - inversion H; subst. exfalso. exact (step_stop_not_ok s WOk s' Es eq_refl).
Qed.

Lemma Inv_root s id root : Inv s -> stk s = [] -> id < n -> nth id (rem s) None = Some root ->
  Inv (start_root s id root) /\ visited (start_root s id root) id.
Proof.
  intros [gh [b [W [B Hf]]]] Hstk Hid Hroot.
  destruct (sim_root g gh s b id root W B Hstk Hid Hroot) as [Hr [Hnin [W' [b2 [Hb2 B2]]]]].
  split.
  - exists (gh_root gh id), b2. split; [exact W'|]. split; [exact B2|].
    cbn [start_root evs rev]. eapply bfold_snoc; eassumption.
  - unfold visited. cbn [start_root rem]. apply nth_set_nth_same. rewrite (ws_len g gh s W). exact Hid.
Qed.

Lemma start_root_visited s id root x : visited s x -> visited (start_root s id root) x.
Proof.
  unfold visited. cbn [start_root rem]. intros H. destruct (Nat.eq_dec id x) as [->|Hne].
  - destruct (Nat.lt_ge_cases x (length (rem s))) as [Hlt|Hge]; [apply nth_set_nth_same; exact Hlt|].
    rewrite nth_overflow; [reflexivity | rewrite set_nth_length; exact Hge].
  - rewrite nth_set_nth_other by exact Hne. exact H.
Qed.

Lemma outer_Inv : forall ids fuel s, (forall id, In id ids -> id < n) -> Inv s -> stk s = [] ->
  match outer ids fuel n s with
  | (WOk, s') => Inv s' /\ stk s' = [] /\ (forall x, visited s x -> visited s' x) /\ (forall id, In id ids -> visited s' id)
  | (r, _) => acceptable r
  end.
Proof.
  induction ids as [|id rest IH]; intros fuel s Hids HI Hstk; cbn [outer].
  - repeat split; auto. intros id [].
  - destruct (nth id (rem s) None) as [root|] eqn:Eroot.
    + destruct (Inv_root s id root HI Hstk (Hids id (or_introl eq_refl)) Eroot) as [HI1 Hv1].
      pose proof (run_root_Inv fuel _ HI1) as Hrun.
      destruct (run_root fuel n (start_root s id root)) as [r s1] eqn:Er.
      destruct r; try exact Hrun. destruct Hrun as [HI2 Hs2].
      specialize (IH fuel s1 (fun i Hi => Hids i (or_intror Hi)) HI2 Hs2).
      destruct (outer rest fuel n s1) as [r' s2]. destruct r'; try exact IH.
      destruct IH as [HI3 [Hs3 [Hmono Hall]]]. repeat split; auto.
      * intros x Hx. apply Hmono. eapply run_root_visited; [exact Er|]. apply start_root_visited. exact Hx.
      * intros i [<-|Hi]; [apply Hmono; eapply run_root_visited; [exact Er | exact Hv1] | apply Hall; exact Hi].
    + specialize (IH fuel s (fun i Hi => Hids i (or_intror Hi)) HI Hstk).
      destruct (outer rest fuel n s) as [r' s2]. destruct r'; try exact IH.
      destruct IH as [HI3 [Hs3 [Hmono Hall]]]. repeat split; auto.
      intros i [<-|Hi]; [apply Hmono; exact Eroot | apply Hall; exact Hi].
Qed.

(* ---------- the initial state ---------- *)
Notation s0 := (state0 g).
Definition gh0 : ghost := {| order := []; par := fun _ => None; cnt := fun _ => 0 |}.
Lemma Inv0 : Inv s0.
Proof.
  exists gh0, b0. split; [|split; [|reflexivity]].
  - constructor; cbn [state0 gh0 rem stk chain order par cnt].
    + apply map_length.
    + intros x Hx. destruct (in_dec Nat.eq_dec x []) as [[]|_].
      rewrite nth_indep with (d' := Some dummy_atom) by (rewrite map_length; exact Hx).
      rewrite map_nth. reflexivity.
    + reflexivity.
    + intros x [].
    + intros x. lia.
    + intros x [].
    + constructor.
    + constructor.
    + intros x [].
    + intros x p H. discriminate.
    + intros x b [].
    + intros x _. split; reflexivity.
    + intros y p H. discriminate.
  - constructor; cbn [state0 gh0 b0 graph bstack opens errors chain wpool order pool0 borrowed].
    + reflexivity.
    + exists []. reflexivity.
    + intros x [].
    + reflexivity.
    + reflexivity.
    + apply pinv0.
    + exact I.
    + intros u v r [].
    + intros u c [].
Qed.
End D6.
