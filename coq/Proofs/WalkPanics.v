(* C06, traversal: which panic sites of walk are reachable. K1 (chain head) and fuel exhaustion never (WalkInv);
   K4 (counter overflow) never; K3 (ring number out of range) only with 99 closures open at once; K2 (unimplemented
   inversion) only on the known class of atom kinds. *)
From Coq Require Import List NArith Lia Bool Arith.
Import ListNotations.
Require Import P.Generated.Enums P.Spec.Values P.Generated.Tables P.Spec.Known P.Model.Base P.Model.Pool P.Model.Walk P.Proofs.PoolSpec P.Proofs.PoolReach.
Local Open Scope N_scope.

Lemma invert_panic_known : forall k, invert k = KPanic <-> known_invert_panic k = true.
Proof.
  assert (H : forallb (fun c => forallb (fun h => Bool.eqb (match invert_table c h with InvPanic | InvOther => true | _ => false end)
                 (match c, h with Some c, Some h => negb (is_TH c) && negb (P.Spec.Spelling.vh_value h =? 0) | _, _ => false end))
               (all_option all_virtual_hydrogen)) (all_option all_configuration) = true) by (vm_compute; reflexivity).
  intros k. destruct k as [| | |i s c h g m]; cbn [invert known_invert_panic]; try (split; discriminate).
  rewrite forallb_forall in H. specialize (H c (all_option_complete _ all_configuration_complete c)).
  rewrite forallb_forall in H. specialize (H h (all_option_complete _ all_virtual_hydrogen_complete h)). apply Bool.eqb_prop in H.
  destruct (invert_table c h); destruct c as [c|]; destruct h as [h|]; split; intros E; try discriminate; try reflexivity; try (rewrite <- H; reflexivity); rewrite <- H in E; discriminate.
Qed.

Definition pool_ok (r : wres) : Prop := r <> WPanic 4.
Lemma step_reach size s : reach (wpool s) ->
  match step size s with
  | Cont s' => reach (wpool s')
  | Done s' => reach (wpool s')
  | Stop r s' => r <> WPanic 4 /\ reach (wpool s') /\
                 (r = WPanic 3 -> 99 <= N.of_nat (length (borrowed (wpool s'))))
  end.
Proof.
  intros Hr. unfold step. destruct (stk s) as [|[sid b] stk']; [exact Hr|].
  destruct (size <=? tid b)%nat; [repeat split; try discriminate; exact Hr|].
  destruct (Nat.eqb (tid b) sid); [repeat split; try discriminate; exact Hr|].
  destruct (unwind (chain s) sid 0) as [[ch pc]|]; [|repeat split; try discriminate; exact Hr].
  destruct (nth (tid b) (rem s) None) as [child|].
  - destruct (scan_bonds _ _ _ _ _) as [k [bk'|] pushes| |]; try (repeat split; try discriminate; exact Hr).
    destruct (negb (compatible b bk')); [repeat split; try discriminate; exact Hr | exact Hr].
  - destruct (hit (wpool s) sid (tid b)) as [r p'| |] eqn:Eh.
    + cbn [wpool]. eapply reach_hit; eassumption.
    + repeat split; try discriminate; cbn [wpool]; [exact Hr|]. intros _.
      destruct (N.ltb_spec (N.of_nat (length (borrowed (wpool s)))) 99) as [Hlt|Hge]; [|exact Hge].
      destruct (hit_never_runs_out (wpool s) sid (tid b) Hr Hlt) as [n [p' [E _]]]. congruence.
    + exfalso. exact (hit_never_counter (wpool s) sid (tid b) (reach_pinv _ Hr) Eh).
Qed.
Lemma run_root_reach : forall fuel size s, reach (wpool s) -> fst (run_root fuel size s) <> WPanic 4 /\ reach (wpool (snd (run_root fuel size s))).
Proof.
  induction fuel as [|f IH]; intros size s Hr; cbn [run_root]; [split; [discriminate | exact Hr]|].
  pose proof (step_reach size s Hr) as H. destruct (step size s) as [s1|s1|r s1]; [apply IH; exact H | split; [discriminate | exact H] | destruct H as [H1 [H2 _]]; split; assumption].
Qed.
Lemma outer_reach : forall ids fuel size s, reach (wpool s) -> fst (outer ids fuel size s) <> WPanic 4.
Proof.
  induction ids as [|id rest IH]; intros fuel size s Hr; cbn [outer]; [discriminate|].
  destruct (nth id (rem s) None) as [root|]; [|apply IH; exact Hr].
  destruct (run_root_reach fuel size (start_root s id root) Hr) as [H1 H2]. destruct (run_root fuel size (start_root s id root)) as [r s1]. cbn [fst snd] in *.
  destruct r; try exact H1; try discriminate. apply IH. exact H2.
Qed.
Theorem walk_never_overflows_counter g : fst (walk g) <> WPanic 4.
Proof.
  unfold walk. destruct (validate g); [discriminate|]. unfold traverse.
  pose proof (outer_reach (seq 0 (length g)) (S (total_bonds g)) (length g) (state0 g) reach0) as H.
  destruct (outer _ _ _ _) as [r s]. exact H.
Qed.
