(* C06: the builder and the trace never panic on a protocol-conformant stream, except at the one known site
   (invert_configuration on a non-tetrahedral configuration with a virtual hydrogen, class B4). *)
From Coq Require Import List NArith Lia Bool Arith.
Import ListNotations.
Require Import P.Generated.Enums P.Spec.Values P.Generated.Tables P.Spec.Events P.Model.Base P.Model.Token P.Model.Reader P.Model.Trace P.Model.Builder P.Proofs.WalkInv.

(* ---------- helpers on edge lists ---------- *)
Lemma find_ph_app es e r : find_ph es r <> None -> find_ph (es ++ [e]) r <> None.
Proof.
  induction es as [|x t IH]; cbn [find_ph app]; [congruence|]. destruct (etgt x) as [n|a b r']; [exact IH|].
  destruct (N.eqb r' r); [discriminate | exact IH].
Qed.
Lemma find_ph_app_new es k a b r : find_ph (es ++ [{| ek := k; etgt := TRnum a b r |}]) r <> None.
Proof.
  induction es as [|x t IH]; cbn [find_ph app etgt]; [rewrite N.eqb_refl; discriminate|].
  destruct (etgt x) as [n|a' b' r']; [exact IH|]. destruct (N.eqb r' r); [discriminate | exact IH].
Qed.
Lemma replace_ph_some es r f : find_ph es r <> None -> replace_ph es r f <> None.
Proof.
  induction es as [|x t IH]; cbn [find_ph replace_ph]; [congruence|]. destruct (etgt x) as [n|a b r'].
  - intros H. specialize (IH H). destruct (replace_ph t r f); [discriminate | congruence].
  - destruct (N.eqb r' r); [discriminate|]. intros H. specialize (IH H). destruct (replace_ph t r f); [discriminate | congruence].
Qed.
Lemma replace_ph_other es r f es' r' : (forall e, exists k n, f e = {| ek := k; etgt := TId n |}) -> replace_ph es r f = Some es' -> r' <> r ->
  find_ph es r' <> None -> find_ph es' r' <> None.
Proof.
  intros Hf. revert es'. induction es as [|x t IH]; intros es' H Hne Hfind; cbn [replace_ph find_ph] in *; [discriminate|].
  destruct (etgt x) as [n|a b q] eqn:Ex.
  - destruct (replace_ph t r f) as [t'|]; [|discriminate]. inversion H as [H1]. cbn [find_ph]. rewrite Ex. apply (IH t' eq_refl Hne Hfind).
  - destruct (N.eqb q r) eqn:Eq.
    + inversion H as [H1]. apply N.eqb_eq in Eq. cbn [find_ph]. destruct (Hf x) as [k [n ->]]. cbn [etgt].
      destruct (N.eqb q r') eqn:E2; [apply N.eqb_eq in E2; congruence | exact Hfind].
    + destruct (replace_ph t r f) as [t'|]; [|discriminate]. inversion H as [H1]. cbn [find_ph]. rewrite Ex.
      destruct (N.eqb q r'); [discriminate | apply (IH t' eq_refl Hne Hfind)].
Qed.

(* ---------- opens as a finite map with unique keys ---------- *)
Definition keys (o : list (rnumN * nat)) := map fst o.
Lemma olookup_none_notin o r : olookup o r = None -> ~ In r (keys o).
Proof.
  induction o as [|[q n] t IH]; cbn [olookup keys map fst]; [tauto|]. destruct (N.eqb_spec q r); [discriminate|]. intros H [E|Hin]; [congruence | exact (IH H Hin)].
Qed.
Lemma olookup_in_keys o r n : olookup o r = Some n -> In r (keys o).
Proof. induction o as [|[q m] t IH]; cbn [olookup keys map fst]; [discriminate|]. destruct (N.eqb_spec q r); [left; assumption | right; apply IH; assumption]. Qed.
Lemma oremove_lookup o r r' : NoDup (keys o) -> olookup (oremove o r) r' = if N.eqb r' r then None else olookup o r'.
Proof.
  induction o as [|[q n] t IH]; intros Hnd; cbn [oremove olookup keys map fst] in *; [destruct (N.eqb r' r); reflexivity|].
  inversion Hnd as [|? ? Hn Ht]; subst. destruct (N.eqb_spec q r) as [Eqr|Hqr].
  - subst q. destruct (N.eqb_spec r' r) as [Er|Hne].
    + subst r'. destruct (olookup t r) eqn:E; [|reflexivity]. exfalso. apply Hn. eapply olookup_in_keys. exact E.
    + destruct (N.eqb_spec r r'); [congruence | reflexivity].
  - cbn [olookup]. destruct (N.eqb_spec q r') as [Eq'|Hq'].
    + subst q. destruct (N.eqb_spec r' r); [congruence | reflexivity].
    + apply IH. exact Ht.
Qed.
Lemma oremove_keys o r : NoDup (keys o) -> NoDup (keys (oremove o r)).
Proof.
  induction o as [|[q n] t IH]; intros Hnd; cbn [oremove keys map fst] in *; [constructor|]. inversion Hnd as [|? ? Hn Ht]; subst.
  destruct (N.eqb q r); [exact Ht|]. cbn [keys map fst]. constructor; [|apply IH; exact Ht].
  intros Hin. apply Hn. clear - Hin. induction t as [|[q' m] t IH]; cbn in *; [contradiction|]. destruct (N.eqb q' r); [right; exact Hin|]. destruct Hin as [E|Hin]; [left; exact E | right; apply IH; exact Hin].
Qed.

(* ---------- the builder invariant ---------- *)
Record binv (s : bstate) : Prop := {
  bi_stack : forall x, In x (bstack s) -> x < length (graph s);
  bi_keys : NoDup (keys (opens s));
  bi_open : forall r t, olookup (opens s) r = Some t -> exists nd, nth_error (graph s) t = Some nd /\ find_ph (edges nd) r <> None
}.
Lemma binv0 : binv b0.
Proof. constructor; cbn; [tauto | constructor | discriminate]. Qed.

Lemma set_nth_length {A} (l : list A) i x : length (set_nth l i x) = length l.
Proof. revert i; induction l as [|a l IH]; intros [|i]; cbn; auto. Qed.
Lemma nth_error_set_nth {A} (l : list A) i j x : nth_error (set_nth l i x) j = if Nat.eqb i j then (if j <? length l then Some x else None) else nth_error l j.
Proof.
  revert i j; induction l as [|a l IH]; intros [|i] [|j]; cbn; try reflexivity.
  - destruct (Nat.eqb i j); reflexivity.
  - rewrite IH. destruct (Nat.eqb i j); reflexivity.
Qed.
Lemma add_edge_length g i e : length (add_edge g i e) = length g.
Proof. unfold add_edge. destruct (nth_error g i); [apply set_nth_length | reflexivity]. Qed.
Lemma add_edge_nth g i e j : nth_error (add_edge g i e) j =
  match nth_error g j with Some nd => Some (if Nat.eqb i j then {| nkind := nkind nd; edges := edges nd ++ [e] |} else nd) | None => None end.
Proof.
  unfold add_edge. destruct (nth_error g i) as [ndi|] eqn:Ei.
  - rewrite nth_error_set_nth. destruct (Nat.eqb_spec i j) as [->|Hne].
    + rewrite Ei. assert (j < length g) by (apply nth_error_Some; congruence). destruct (Nat.ltb_spec j (length g)); [reflexivity | lia].
    + destruct (nth_error g j); reflexivity.
  - destruct (Nat.eqb_spec i j) as [->|Hne]; [rewrite Ei; reflexivity | destruct (nth_error g j); reflexivity].
Qed.

Definition invert_ok (e : ev) : Prop := match e with EExtend _ k => invert k <> KPanic | _ => True end.
Definition pre (s : bstate) (e : ev) : Prop :=
  match e with ERoot _ => True | EExtend _ _ | EJoin _ _ => bstack s <> [] | EPop _ => True end.

Lemma bstep_safe s e : binv s -> pre s e -> invert_ok e -> exists s', bstep s e = Some s' /\ binv s' /\
  length (bstack s') = match e with ERoot _ | EExtend _ _ => S (length (bstack s)) | EJoin _ _ => length (bstack s) | EPop d => length (bstack s) - d end.
Proof.
  intros [Hst Hk Ho] Hpre Hinv. destruct e as [k|b k|b r|d]; cbn [bstep pre invert_ok] in *.
  - eexists. split; [reflexivity|]. split; [|reflexivity]. constructor; cbn [bstack graph opens].
    + intros x [<-|Hx]; rewrite app_length; cbn [length]; [lia | specialize (Hst x Hx); lia].
    + exact Hk.
    + intros r t Hl. destruct (Ho r t Hl) as [nd [Hn Hf]]. exists nd. split; [|exact Hf]. rewrite nth_error_app1; [exact Hn | apply nth_error_Some; congruence].
  - destruct (bstack s) as [|sid st] eqn:Es; [congruence|]. destruct (invert k) as [k'|] eqn:Ek; [|congruence].
    assert (Hsid : sid < length (graph s)) by (apply Hst; left; reflexivity).
    destruct (nth_error (graph s) sid) as [nds|] eqn:En; [|apply nth_error_None in En; lia].
    eexists. split; [reflexivity|]. split; [|reflexivity]. constructor; cbn [bstack graph opens].
    + intros x Hx. rewrite add_edge_length, app_length. cbn [length]. destruct Hx as [<-|Hx]; [lia | specialize (Hst x Hx); lia].
    + exact Hk.
    + intros r t Hl. destruct (Ho r t Hl) as [nd [Hn Hf]]. rewrite add_edge_nth. rewrite nth_error_app1 by (apply nth_error_Some; congruence). rewrite Hn.
      eexists. split; [reflexivity|]. destruct (Nat.eqb sid t); [cbn [edges]; apply find_ph_app; exact Hf | exact Hf].
  - destruct (bstack s) as [|sid st] eqn:Es; [congruence|].
    assert (Hsid : sid < length (graph s)) by (apply Hst; left; reflexivity).
    destruct (nth_error (graph s) sid) as [nds|] eqn:En; [|apply nth_error_None in En; lia].
    destruct (olookup (opens s) r) as [t|] eqn:El.
    + destruct (Ho r t El) as [nd [Hn Hf]]. rewrite Hn.
      destruct (find_ph (edges nd) r) as [ph|] eqn:Eph; [|congruence].
      destruct (Nat.eqb sid t || targets_id (edges nds) t) eqn:Eb; [| destruct (reconcile (ek ph) b) as [[l rt]|] eqn:Er].
      * (* bonded: error recorded *)
        eexists. split; [reflexivity|]. split; [|reflexivity]. constructor; cbn [bstack graph opens].
        -- exact Hst.
        -- apply oremove_keys. exact Hk.
        -- intros r' t' Hl. rewrite (oremove_lookup _ _ _ Hk) in Hl. destruct (N.eqb r' r); [discriminate | apply Ho; exact Hl].
      * (* closure made *)
        pose proof (replace_ph_some (edges nd) r (fun _ => {| ek := l; etgt := TId sid |})) as Hrep. rewrite Eph in Hrep. specialize (Hrep ltac:(discriminate)).
        destruct (replace_ph (edges nd) r (fun _ => {| ek := l; etgt := TId sid |})) as [es'|] eqn:Erep; [|congruence].
        eexists. split; [reflexivity|]. split; [|reflexivity]. constructor; cbn [bstack graph opens].
        -- intros x Hx. rewrite add_edge_length, set_nth_length. apply Hst. exact Hx.
        -- apply oremove_keys. exact Hk.
        -- intros r' t' Hl. rewrite (oremove_lookup _ _ _ Hk) in Hl. destruct (N.eqb_spec r' r) as [|Hne]; [discriminate|].
           destruct (Ho r' t' Hl) as [nd' [Hn' Hf']]. rewrite add_edge_nth, nth_error_set_nth.
           assert (Ht' : t' < length (graph s)) by (apply nth_error_Some; congruence).
           destruct (Nat.eqb_spec t t') as [->|Htt].
           ++ destruct (Nat.ltb_spec t' (length (graph s))); [|lia]. eexists. split; [reflexivity|].
              assert (nd' = nd) by congruence. subst nd'.
              assert (Hf2 : find_ph es' r' <> None).
              { eapply (replace_ph_other (edges nd) r _ es' r'); [intros e; eexists _, _; reflexivity | exact Erep | exact Hne | exact Hf']. }
              destruct (Nat.eqb sid t'); cbn [edges nkind]; [apply find_ph_app; exact Hf2 | exact Hf2].
           ++ rewrite Hn'. eexists. split; [reflexivity|]. destruct (Nat.eqb sid t'); [cbn [edges]; apply find_ph_app; exact Hf' | exact Hf'].
      * (* irreconcilable kinds: error recorded *)
        eexists. split; [reflexivity|]. split; [|reflexivity]. constructor; cbn [bstack graph opens].
        -- exact Hst.
        -- apply oremove_keys. exact Hk.
        -- intros r' t' Hl. rewrite (oremove_lookup _ _ _ Hk) in Hl. destruct (N.eqb r' r); [discriminate | apply Ho; exact Hl].
    + (* opening *)
      eexists. split; [reflexivity|]. split; [|reflexivity]. constructor; cbn [bstack graph opens].
      * intros x Hx. rewrite add_edge_length. apply Hst. exact Hx.
      * cbn [keys map fst]. constructor; [apply olookup_none_notin; exact El | exact Hk].
      * intros r' t' Hl. cbn [olookup] in Hl. rewrite add_edge_nth. destruct (N.eqb_spec r r') as [->|Hne].
        -- inversion Hl; subst t'. rewrite En. rewrite Nat.eqb_refl. eexists. split; [reflexivity|]. cbn [edges]. apply find_ph_app_new.
        -- destruct (Ho r' t' Hl) as [nd' [Hn' Hf']]. rewrite Hn'. eexists. split; [reflexivity|]. destruct (Nat.eqb sid t'); [cbn [edges]; apply find_ph_app; exact Hf' | exact Hf'].
  - eexists. split; [reflexivity|]. split; [|cbn [bstack]; apply skipn_length]. constructor; cbn [bstack graph opens]; [|exact Hk | exact Ho].
    intros x Hx. apply Hst. clear - Hx. revert d Hx. induction (bstack s) as [|a l IH]; intros [|d] Hx; cbn in *; auto; try contradiction. right. eapply IH. exact Hx.
Qed.

(* a conformant stream keeps the builder's stack as long as the path *)
Lemma bfold_safe : forall h s, binv s -> confP (length (bstack s)) h -> Forall invert_ok h -> exists s', bfold s h = Some s' /\ binv s'.
Proof.
  induction h as [|e t IH]; intros s Hb Hc Hi; cbn [bfold]; [eauto|]. inversion Hi as [|? ? He Ht]; subst.
  assert (Hpre : pre s e). { destruct e; cbn [pre confP] in *; try exact I; destruct (bstack s); cbn in *; [lia | discriminate | lia | discriminate]. }
  destruct (bstep_safe s e Hb Hpre He) as [s1 [E1 [Hb1 Hl1]]]. rewrite E1. apply IH; [exact Hb1 | | exact Ht].
  rewrite Hl1. destruct e; cbn [confP] in Hc; tauto.
Qed.
Theorem builder_safe h : conformant h = true -> Forall invert_ok h -> bld h <> BPanic.
Proof.
  intros Hc Hi. apply conf_iff in Hc. destruct (bfold_safe h b0 binv0 Hc Hi) as [s' [E _]]. unfold bld. rewrite E.
  unfold build. destruct (errors s'); [|discriminate]. induction (graph s') as [|n t IH]; cbn [conv_nodes]; [discriminate|].
  destruct (conv_edges (edges n)); [|discriminate]. destruct (conv_nodes t); try discriminate. congruence.
Qed.

(* ---------- the trace ---------- *)
Lemma tfold_safe : forall h t, confP (length (t_stack t)) (map ev_of h) -> exists t', tfold t h = Some t'.
Proof.
  induction h as [|e r IH]; intros t Hc; cbn [tfold]; [eauto|]. cbn [map] in Hc.
  destruct e as [k a b|bk k bc a b|bk rn bc a b|d]; cbn [ev_of confP tstep] in *.
  - apply IH. exact Hc.
  - destruct (t_stack t) as [|sid st] eqn:Es; [cbn in Hc; lia|]. apply IH. cbn [t_stack length]. exact (proj2 Hc).
  - destruct (t_stack t) as [|sid st] eqn:Es; [cbn in Hc; lia|]. destruct (oget (t_opens t) rn); apply IH; cbn [t_stack]; exact (proj2 Hc).
  - destruct Hc as [H1 [H2 H3]]. destruct (Nat.leb_spec (length (t_stack t)) d); [lia|]. apply IH. cbn [t_stack]. rewrite skipn_length. exact H3.
Qed.
