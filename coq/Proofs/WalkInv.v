From Coq Require Import List NArith Lia Bool Arith.
Import ListNotations.
Require Import P.Generated.Enums P.Spec.Values P.Model.Base P.Model.Pool P.Model.Walk P.Spec.Events.

(* ------------------------------------------------------------------ *)
(*  Walk-side invariant for ARBITRARY adjacency lists (no wf needed):  *)
(*  K1 never fires, the loop terminates within its fuel, and the       *)
(*  emitted stream is protocol-conformant.                             *)
(* ------------------------------------------------------------------ *)

(* the stack is the concatenation, along the chain (head first), of per-atom segments *)
Fixpoint layout (ch : list nat) (segs : list (list bond)) : list (nat * bond) :=
  match ch, segs with
  | x :: ch', l :: segs' => map (pair x) l ++ layout ch' segs'
  | _, _ => []
  end.

Lemma layout_src : forall ch segs y b, In (y, b) (layout ch segs) -> In y ch.
Proof.
  induction ch as [|x ch IH]; intros segs y b H; [destruct segs; simpl in H; contradiction|].
  destruct segs as [|l segs]; [simpl in H; contradiction|]. cbn [layout] in H. apply in_app_or in H as [H|H].
  - apply in_map_iff in H as [b' [E _]]. inversion E. left. reflexivity.
  - right. eapply IH. exact H.
Qed.

Lemma unwind_spec : forall ch segs sid b rest n,
  NoDup ch -> length segs = length ch -> layout ch segs = (sid, b) :: rest ->
  exists ch' segs' k, unwind ch sid n = Some (sid :: ch', n + k) /\ length segs' = length (sid :: ch') /\
                      rest = layout (sid :: ch') segs' /\ k + length (sid :: ch') = length ch /\
                      (forall y, In y (sid :: ch') -> In y ch) /\ NoDup (sid :: ch').
Proof.
  induction ch as [|x ch IH]; intros segs sid b rest n Hnd Hl Hlay.
  - destruct segs; simpl in Hlay; discriminate.
  - destruct segs as [|l segs]; [simpl in Hl; lia|]. cbn [layout] in Hlay. cbn [unwind]. simpl in Hl.
    inversion Hnd as [|? ? Hnotin Hnd']; subst.
    destruct l as [|b0 l].
    + cbn [map app] in Hlay.
      destruct (Nat.eqb_spec x sid) as [->|Hne].
      * exfalso. apply Hnotin. eapply layout_src. rewrite Hlay. left. reflexivity.
      * destruct (IH segs sid b rest (S n) Hnd' ltac:(lia) Hlay) as [ch' [segs' [k [Hu [Hl' [Hr [Hk [Hsub Hnd'']]]]]]]].
        exists ch', segs', (S k).
        split; [rewrite Hu; f_equal; f_equal; lia|].
        split; [exact Hl'|]. split; [exact Hr|]. split; [simpl in *; lia|].
        split; [intros y Hy; right; apply Hsub; exact Hy | exact Hnd''].
    + cbn [map app] in Hlay. inversion Hlay; subst. rewrite Nat.eqb_refl.
      exists ch, (l :: segs), 0.
      split; [f_equal; f_equal; lia|].
      split; [simpl; lia|]. split; [reflexivity|]. split; [simpl; lia|].
      split; [auto | exact Hnd].
Qed.

(* ---------- conformance of event lists (same definition as in the C09 development) ---------- *)
Fixpoint confP (n : nat) (h : list ev) : Prop :=
  match h with
  | [] => True
  | ERoot _ :: t => confP (S n) t
  | EExtend _ _ :: t => 1 <= n /\ confP (S n) t
  | EJoin _ _ :: t => 1 <= n /\ confP n t
  | EPop d :: t => 1 <= d /\ d < n /\ confP (n - d) t
  end.
Lemma conf_iff : forall h n, conf n h = true <-> confP n h.
Proof.
  induction h as [|e h IH]; intros n; cbn [conf confP]; [tauto|].
  destruct e; rewrite ?andb_true_iff, ?IH, ?Nat.leb_le, ?Nat.ltb_lt; tauto.
Qed.
Lemma conf_app : forall h1 h2 n, confP n (h1 ++ h2) <-> confP n h1 /\ confP (plen n h1) h2.
Proof.
  induction h1 as [|e h1 IH]; intros h2 n; cbn [app confP plen]; [tauto|].
  destruct e; cbn [confP plen]; rewrite ?IH; tauto.
Qed.
Lemma plen_app : forall h1 h2 n, plen n (h1 ++ h2) = plen (plen n h1) h2.
Proof. induction h1 as [|e h1 IH]; intros h2 n; cbn [app plen]; [reflexivity|]. destruct e; apply IH. Qed.

Section WI.
Variable size : nat.

(* the invariant, inside a component; `base` = path length left by earlier components *)
Record winv (base : nat) (s : wstate) : Prop := {
  wi_nodup : NoDup (chain s);
  wi_vis : forall x, In x (chain s) -> nth x (rem s) None = None;
  wi_shape : exists segs, length segs = length (chain s) /\ stk s = layout (chain s) segs;
  wi_ne : chain s <> [];
  wi_conf : confP 0 (rev (evs s));
  wi_plen : plen 0 (rev (evs s)) = base + length (chain s)
}.

Lemma set_nth_other {A} (l : list A) i j x d : i <> j -> nth j (set_nth l i x) d = nth j l d.
Proof.
  revert i j; induction l as [|a l IH]; intros i j Hne; destruct i, j; simpl; auto; try lia.
Qed.
Lemma set_nth_same {A} (l : list A) i x d : i < length l -> nth i (set_nth l i x) d = x.
Proof. revert i; induction l as [|a l IH]; intros i Hi; destruct i; simpl in *; try lia; auto. apply IH. lia. Qed.

Lemma scan_pushes : forall l sid k back pushes k' back' pushes',
  scan_bonds l sid k back pushes = SOk k' back' pushes' -> exists extra, pushes' = extra ++ pushes.
Proof.
  induction l as [|[idx out] l IH]; intros sid k back pushes k' back' pushes' H; cbn [scan_bonds] in H.
  - inversion H; subst. exists []. reflexivity.
  - destruct (Nat.eqb (tid out) sid).
    + destruct (if Nat.even idx then invert k else KOk (invert_noH k)); [|discriminate]. destruct back; [discriminate|]. eapply IH; exact H.
    + destruct (IH _ _ _ _ _ _ _ H) as [extra He]. exists (extra ++ [out]). rewrite He, <- app_assoc. reflexivity.
Qed.

(* one step preserves the invariant, never hits K1 *)
Lemma step_inv base s : winv base s ->
  match step size s with
  | Cont s' => winv base s'
  | Done s' => s' = s
  | Stop r s' => r <> WPanic 1 /\ r <> WOk /\ r <> WFuel /\ confP 0 (rev (evs s'))
  end.
Proof.
  intros [Hnd Hvis [segs [Hls Hstk]] Hne Hconf Hplen]. unfold step.
  destruct (stk s) as [|[sid b] stk'] eqn:Es; [reflexivity|].
  destruct (size <=? tid b); [repeat split; try discriminate; exact Hconf|].
  destruct (Nat.eqb (tid b) sid) eqn:Eself; [repeat split; try discriminate; exact Hconf|].
  apply Nat.eqb_neq in Eself.
  destruct (unwind_spec (chain s) segs sid b stk' 0 Hnd Hls (eq_sym Hstk)) as [ch' [segs' [k [Hu [Hl' [Hr [Hk [Hsub Hnd']]]]]]]].
  rewrite Hu. cbn [Nat.add].
  (* events after the optional pop *)
  set (evs1 := if Nat.eqb k 0 then evs s else EPop k :: evs s).
  assert (Hc1 : confP 0 (rev evs1) /\ plen 0 (rev evs1) = base + length (sid :: ch')).
  { unfold evs1. destruct (Nat.eqb_spec k 0) as [->|Hk0].
    - split; [exact Hconf|]. rewrite Hplen. simpl in *. lia.
    - cbn [rev]. rewrite conf_app, plen_app, Hplen. cbn [confP plen]. simpl in Hk. repeat split; try assumption; simpl; lia. }
  destruct Hc1 as [Hc1 Hp1].
  destruct (nth (tid b) (rem s) None) as [child|] eqn:Echild.
  - (* unvisited target *)
    destruct (scan_bonds (rev (enumerate (bonds child))) sid (akind child) None []) as [kk back pushes| |] eqn:Escan;
      [|repeat split; try discriminate; exact Hc1|repeat split; try discriminate; exact Hc1].
    destruct back as [bk'|]; [|repeat split; try discriminate; exact Hc1].
    destruct (negb (compatible b bk'));
      [repeat split; try discriminate; exact Hc1|].
    assert (Hnotin : ~ In (tid b) (sid :: ch')).
    { intros Hin. apply Hsub in Hin. apply Hvis in Hin. congruence. }
    constructor; cbn [chain rem stk evs].
    + constructor; assumption.
    + intros x [<-|Hx].
      * apply set_nth_same. destruct (Nat.lt_ge_cases (tid b) (length (rem s))) as [Hlt|Hge]; [exact Hlt|].
        rewrite nth_overflow in Echild by exact Hge. discriminate.
      * destruct (Nat.eq_dec (tid b) x) as [E|Hne']; [exfalso; apply Hnotin; rewrite E; exact Hx|].
        rewrite set_nth_other by exact Hne'. apply Hvis. apply Hsub. exact Hx.
    + exists (pushes :: segs'). split; [simpl in *; lia|]. cbn [layout]. rewrite Hr. reflexivity.
    + discriminate.
    + cbn [rev]. rewrite conf_app. split; [exact Hc1|]. rewrite Hp1. cbn [confP]. simpl. split; [lia|exact I].
    + cbn [rev]. rewrite plen_app, Hp1. cbn [plen]. simpl. lia.
  - (* visited target: ring closure *)
    destruct (hit (wpool s) sid (tid b)) as [r p'| |];
      [|repeat split; try discriminate; exact Hc1|repeat split; try discriminate; exact Hc1].
    constructor; cbn [chain rem stk evs].
    + exact Hnd'.
    + intros x Hx. apply Hvis. apply Hsub. exact Hx.
    + exists segs'. split; [exact Hl'|exact Hr].
    + discriminate.
    + cbn [rev]. rewrite conf_app. split; [exact Hc1|]. rewrite Hp1. cbn [confP]. simpl. split; [lia|exact I].
    + cbn [rev]. rewrite plen_app, Hp1. reflexivity.
Qed.

(* ---------- termination: a potential that every continuing step decreases ---------- *)
Definition unvisited_bonds (rm : list (option atom)) : nat :=
  fold_right (fun o n => match o with Some a => length (bonds a) + n | None => n end) 0 rm.
Definition potential (s : wstate) := length (stk s) + unvisited_bonds (rem s).

Lemma scan_len : forall l sid k back pushes k' back' pushes',
  scan_bonds l sid k back pushes = SOk k' back' pushes' -> length pushes' <= length l + length pushes.
Proof.
  induction l as [|[idx out] l IH]; intros sid k back pushes k' back' pushes' H; cbn [scan_bonds] in H.
  - inversion H; subst. simpl. lia.
  - destruct (Nat.eqb (tid out) sid).
    + destruct (if Nat.even idx then invert k else KOk (invert_noH k)); [|discriminate]. destruct back; [discriminate|].
      apply IH in H. simpl. lia.
    + apply IH in H. simpl in *. lia.
Qed.

Lemma unvisited_remove : forall rm i a, nth i rm None = Some a ->
  unvisited_bonds (set_nth rm i None) + length (bonds a) = unvisited_bonds rm.
Proof.
  induction rm as [|o rm IH]; intros i a H; [destruct i; discriminate|].
  destruct i; cbn [nth set_nth unvisited_bonds fold_right] in *.
  - subst o. fold (unvisited_bonds rm). lia.
  - fold (unvisited_bonds rm). fold (unvisited_bonds (set_nth rm i None)). specialize (IH i a H). destruct o; lia.
Qed.

Lemma enumerate_len {A} (l : list A) : length (enumerate l) = length l.
Proof. unfold enumerate. rewrite combine_length, seq_length. lia. Qed.

Lemma layout_len : forall ch segs, length (layout ch segs) <= fold_right (fun l n => length l + n) 0 segs.
Proof.
  induction ch as [|x ch IH]; intros segs; destruct segs as [|l segs]; simpl; try lia.
  rewrite app_length, map_length. specialize (IH segs). lia.
Qed.

Lemma step_potential base s s' : winv base s -> step size s = Cont s' -> potential s' < potential s.
Proof.
  intros [Hnd Hvis [segs [Hls Hstk]] Hne Hconf Hplen]. unfold step, potential.
  destruct (stk s) as [|[sid b] stk'] eqn:Es; [discriminate|].
  destruct (size <=? tid b); [discriminate|]. destruct (Nat.eqb (tid b) sid) eqn:Eself; [discriminate|].
  destruct (unwind (chain s) sid 0) as [[ch popcount]|]; [|discriminate].
  destruct (nth (tid b) (rem s) None) as [child|] eqn:Echild.
  - destruct (scan_bonds (rev (enumerate (bonds child))) sid (akind child) None []) as [kk back pushes| |] eqn:Escan; [|discriminate|discriminate].
    destruct back as [bk'|]; [|discriminate].
    destruct (negb (compatible b bk')); [discriminate|].
    intros H; inversion H; subst; clear H. cbn [stk rem length].
    apply scan_len in Escan. rewrite rev_length, enumerate_len in Escan. simpl in Escan.
    pose proof (unvisited_remove (rem s) (tid b) child Echild).
    rewrite app_length, map_length. lia.
  - destruct (hit (wpool s) sid (tid b)); [|discriminate|discriminate].
    intros H; inversion H; subst; clear H. cbn [stk rem length]. lia.
Qed.

(* ---------- a whole component ---------- *)
Lemma step_done_stk s s' : step size s = Done s' -> stk s = [].
Proof.
  unfold step. destruct (stk s) as [|[sid b] stk']; [reflexivity|].
  destruct (size <=? tid b); [discriminate|]. destruct (Nat.eqb (tid b) sid); [discriminate|].
  destruct (unwind (chain s) sid 0) as [[? ?]|]; [|discriminate].
  destruct (nth (tid b) (rem s) None).
  - destruct (scan_bonds _ _ _ _ _) as [? [bk'|] ?| |]; try discriminate.
    destruct (negb (compatible b bk')); discriminate.
  - destruct (hit _ _ _); discriminate.
Qed.

Lemma run_root_ok : forall fuel base s, winv base s -> potential s < fuel ->
  let '(r, s') := run_root fuel size s in
  r <> WPanic 1 /\ r <> WFuel /\ confP 0 (rev (evs s')) /\
  (r = WOk -> stk s' = [] /\ base <= plen 0 (rev (evs s')) /\ potential s' <= potential s).
Proof.
  induction fuel as [|f IH]; intros base s Hinv Hpot; [lia|]. cbn [run_root].
  pose proof (step_inv base s Hinv) as Hstep. pose proof (step_potential base s) as Hdec.
  destruct (step size s) as [s1|s1|r s1] eqn:Est.
  - specialize (Hdec s1 Hinv eq_refl). specialize (IH base s1 Hstep ltac:(lia)).
    destruct (run_root f size s1) as [r s']. destruct IH as [H1 [H2 [H3 H5]]].
    repeat split; try assumption; destruct (H5 H) as [? [? ?]]; try assumption; lia.
  - subst s1. repeat split; try discriminate.
    + apply (wi_conf base s Hinv).
    + eapply step_done_stk. exact Est.
    + rewrite (wi_plen base s Hinv). lia.
    + lia.
  - destruct Hstep as [H1 [H2 [H3 H4]]]. repeat split; try assumption; contradiction.
Qed.

(* ---------- all components ---------- *)
Record binv (s : wstate) : Prop := {   (* between components *)
  bi_stk : stk s = [];
  bi_conf : confP 0 (rev (evs s))
}.

Lemma start_root_inv s id root : binv s -> nth id (rem s) None = Some root ->
  winv (plen 0 (rev (evs s))) (start_root s id root) /\ potential (start_root s id root) = potential s.
Proof.
  intros [Hstk Hconf] Hroot. split.
  - constructor; cbn [start_root chain rem stk evs].
    + constructor; [intros []|constructor].
    + intros x [<-|[]]. apply set_nth_same. destruct (Nat.lt_ge_cases id (length (rem s))) as [Hlt|Hge]; [exact Hlt|].
      rewrite nth_overflow in Hroot by exact Hge. discriminate.
    + exists [bonds root]. split; [reflexivity|]. cbn [layout]. rewrite app_nil_r. reflexivity.
    + discriminate.
    + cbn [rev]. rewrite conf_app. split; [exact Hconf|]. cbn [confP]. exact I.
    + cbn [rev]. rewrite plen_app. cbn [plen length]. lia.
  - unfold potential. cbn [start_root stk rem]. rewrite Hstk, map_length. cbn [length].
    pose proof (unvisited_remove (rem s) id root Hroot). lia.
Qed.

Lemma outer_ok : forall ids fuel s, binv s -> potential s < fuel ->
  let '(r, s') := outer ids fuel size s in
  r <> WPanic 1 /\ r <> WFuel /\ confP 0 (rev (evs s')).
Proof.
  induction ids as [|id rest IH]; intros fuel s Hb Hpot; cbn [outer].
  - repeat split; try discriminate. apply (bi_conf s Hb).
  - destruct (nth id (rem s) None) as [root|] eqn:Eroot; [|apply IH; assumption].
    destruct (start_root_inv s id root Hb Eroot) as [Hinv Hp].
    pose proof (run_root_ok fuel _ _ Hinv ltac:(lia)) as Hrun.
    destruct (run_root fuel size (start_root s id root)) as [r s1].
    destruct Hrun as [H1 [H2 [H3 H4]]].
    destruct r; try (repeat split; assumption).
    destruct (H4 eq_refl) as [Hs1 [_ Hp1]].
    apply IH; [constructor; assumption | lia].
Qed.
End WI.

(* ---------- the walk never hits K1, never runs out of fuel, and its stream is conformant ---------- *)
Lemma unvisited_all g : unvisited_bonds (map Some g) = total_bonds g.
Proof. unfold unvisited_bonds, total_bonds. induction g as [|a g IH]; simpl; [reflexivity|]. rewrite IH. reflexivity. Qed.

Theorem traverse_safe (g : list atom) :
  let '(r, h) := traverse g in r <> WPanic 1 /\ r <> WFuel /\ confP 0 h.
Proof.
  unfold traverse, state0.
  set (s0 := {| rem := map Some g; stk := []; chain := []; wpool := pool0; evs := [] |}).
  assert (Hb : binv s0) by (constructor; simpl; auto).
  assert (Hp : potential s0 < S (total_bonds g)) by (unfold potential; cbn [s0 stk rem length]; rewrite unvisited_all; lia).
  pose proof (outer_ok (length g) (seq 0 (length g)) (S (total_bonds g)) s0 Hb Hp) as H.
  destruct (outer (seq 0 (length g)) (S (total_bonds g)) (length g) s0) as [r s]. exact H.
Qed.
(* the public entry point: validation pass, then the traversal *)
Theorem walk_safe (g : list atom) :
  let '(r, h) := walk g in r <> WPanic 1 /\ r <> WFuel /\ conformant h = true.
Proof.
  unfold walk. destruct (validate g).
  - repeat split; try discriminate.
  - pose proof (traverse_safe g) as H. destruct (traverse g) as [r h]. destruct H as [H1 [H2 H3]].
    repeat split; try assumption. apply conf_iff. exact H3.
Qed.
