(* The numeric token families of Spec/Lang.v (isotope, map, rnum: digit strings) are exactly the key sets of the
   tables isotope_table, map_table, rnum_table of Spec/Reading.v.  Finite checks only; nothing about the code. *)
From Coq Require Import String.
From Coq Require Import List NArith Lia Bool Arith.
Import ListNotations.
Require Import P.Meta.Scan P.Spec.Reading P.Spec.Lang.

Definition all_digits : list N := [48; 49; 50; 51; 52; 53; 54; 55; 56; 57]%N.
Definition digit_b (c : N) : bool := (48 <=? c)%N && (c <=? 57)%N.
Lemma digit_b_iff c : digit_b c = true <-> digit c.
Proof. unfold digit_b, digit. rewrite andb_true_iff, !N.leb_le. tauto. Qed.
Lemma digit_in c : digit c -> In c all_digits.
Proof.
  unfold digit, all_digits. intros [H1 H2]. cbn [In].
  assert (H : (c = 48 \/ c = 49 \/ c = 50 \/ c = 51 \/ c = 52 \/ c = 53 \/ c = 54 \/ c = 55 \/ c = 56 \/ c = 57)%N) by lia.
  intuition.
Qed.

Fixpoint leqb (a b : list N) : bool :=
  match a, b with [], [] => true | x :: a', y :: b' => N.eqb x y && leqb a' b' | _, _ => false end.
Lemma leqb_eq a : forall b, leqb a b = true <-> a = b.
Proof.
  induction a as [|x a IH]; intros [|y b]; cbn [leqb]; split; intros H; try discriminate; try reflexivity.
  - apply andb_true_iff in H as [H1 H2]. apply N.eqb_eq in H1. apply IH in H2. subst. reflexivity.
  - inversion H; subst. rewrite N.eqb_refl. apply IH. reflexivity.
Qed.
Definition memk (p : list N) (keys : list (list N)) : bool := existsb (leqb p) keys.
Lemma memk_In p keys : memk p keys = true <-> In p keys.
Proof.
  unfold memk. rewrite existsb_exists. split.
  - intros [q [Hin E]]. apply leqb_eq in E. subst. exact Hin.
  - intros Hin. exists p. split; [exact Hin | apply leqb_eq; reflexivity].
Qed.

Definition digits13_b (p : list N) : bool := (1 <=? length p) && (length p <=? 3) && forallb digit_b p.
Lemma digits13_b_iff p : digits13_b p = true <-> digits13 p.
Proof.
  unfold digits13_b, digits13. rewrite !andb_true_iff, !Nat.leb_le, forallb_forall, Forall_forall.
  split; intros [H1 H2]; (split; [exact H1|]); intros x Hx; apply digit_b_iff, H2, Hx.
Qed.

(* every digit string of length 1..3 *)
Definition all_digits13 : list (list N) :=
  flat_map (fun a => [a] :: flat_map (fun b => [a; b] :: map (fun c => [a; b; c]) all_digits) all_digits) all_digits.
Lemma digits13_in p : digits13 p -> In p all_digits13.
Proof.
  intros [[H1 H3] Hd]. unfold all_digits13.
  destruct p as [|a [|b [|c [|d p']]]]; cbn [length] in *; try lia.
  - inversion Hd as [|? ? Ha _]; subst. apply in_flat_map. exists a. split; [apply digit_in, Ha | left; reflexivity].
  - inversion Hd as [|? ? Ha Hd1]; subst. inversion Hd1 as [|? ? Hb _]; subst.
    apply in_flat_map. exists a. split; [apply digit_in, Ha | right]. apply in_flat_map. exists b. split; [apply digit_in, Hb | left; reflexivity].
  - inversion Hd as [|? ? Ha Hd1]; subst. inversion Hd1 as [|? ? Hb Hd2]; subst. inversion Hd2 as [|? ? Hc _]; subst.
    apply in_flat_map. exists a. split; [apply digit_in, Ha | right]. apply in_flat_map. exists b. split; [apply digit_in, Hb | right].
    apply in_map_iff. exists c. split; [reflexivity | apply digit_in, Hc].
Qed.

Lemma forallb_In {A} (f : A -> bool) l x : forallb f l = true -> In x l -> f x = true.
Proof. intros H. rewrite forallb_forall in H. apply H. Qed.

(* ---------- isotope ---------- *)
Theorem isotope_keys p : key isotope_table p <-> Isotope p.
Proof.
  unfold key, Isotope. split.
  - intros Hin. apply digits13_b_iff.
    assert (H : forallb digits13_b (map fst isotope_table) = true) by (vm_compute; reflexivity). exact (forallb_In _ _ _ H Hin).
  - intros Hd. apply memk_In.
    assert (H : forallb (fun q => memk q (map fst isotope_table)) all_digits13 = true) by (vm_compute; reflexivity).
    exact (forallb_In _ _ _ H (digits13_in p Hd)).
Qed.

(* ---------- map ---------- *)
Definition map_b (p : list N) : bool := match p with c :: d => N.eqb c 58 && digits13_b d | [] => false end.
Lemma map_b_iff p : map_b p = true <-> Map p.
Proof.
  unfold map_b, Map. change (str ":") with [58%N]. split.
  - destruct p as [|c d]; [discriminate|]. intros H. apply andb_true_iff in H as [H1 H2]. apply N.eqb_eq in H1. subst.
    exists d. split; [reflexivity | apply digits13_b_iff; exact H2].
  - intros [d [-> Hd]]. cbn [app]. rewrite N.eqb_refl. apply digits13_b_iff. exact Hd.
Qed.
Theorem map_keys p : key map_table p <-> Map p.
Proof.
  unfold key. split.
  - intros Hin. apply map_b_iff.
    assert (H : forallb map_b (map fst map_table) = true) by (vm_compute; reflexivity). exact (forallb_In _ _ _ H Hin).
  - intros [d [-> Hd]]. change (str ":") with [58%N]. cbn [app]. apply memk_In.
    assert (H : forallb (fun q => memk (58%N :: q) (map fst map_table)) all_digits13 = true) by (vm_compute; reflexivity).
    exact (forallb_In _ _ _ H (digits13_in d Hd)).
Qed.

(* ---------- rnum ---------- *)
Definition rnum_b (p : list N) : bool :=
  match p with
  | [a] => digit_b a
  | [c; a; b] => N.eqb c 37 && digit_b a && digit_b b
  | _ => false end.
Lemma rnum_b_iff p : rnum_b p = true <-> Rnum p.
Proof.
  unfold rnum_b, Rnum. change (str "%") with [37%N]. split.
  - destruct p as [|c [|a [|b [|d p']]]]; try discriminate.
    + intros H. left. exists c. split; [reflexivity | apply digit_b_iff; exact H].
    + intros H. apply andb_true_iff in H as [H Hb]. apply andb_true_iff in H as [Hc Ha]. apply N.eqb_eq in Hc. subst.
      right. exists a, b. split; [reflexivity|]. split; apply digit_b_iff; assumption.
  - intros [[a [-> Ha]]|[a [b [-> [Ha Hb]]]]].
    + apply digit_b_iff. exact Ha.
    + cbn [app]. rewrite N.eqb_refl. apply digit_b_iff in Ha, Hb. rewrite Ha, Hb. reflexivity.
Qed.
Theorem rnum_keys p : key rnum_table p <-> Rnum p.
Proof.
  unfold key. split.
  - intros Hin. apply rnum_b_iff.
    assert (H : forallb rnum_b (map fst rnum_table) = true) by (vm_compute; reflexivity). exact (forallb_In _ _ _ H Hin).
  - intros [[a [-> Ha]]|[a [b [-> [Ha Hb]]]]]; apply memk_In.
    + assert (H : forallb (fun a => memk [a] (map fst rnum_table)) all_digits = true) by (vm_compute; reflexivity).
      exact (forallb_In _ _ _ H (digit_in a Ha)).
    + change (str "%") with [37%N]. cbn [app].
      assert (H : forallb (fun a => forallb (fun b => memk [37%N; a; b] (map fst rnum_table)) all_digits) all_digits = true) by (vm_compute; reflexivity).
      exact (forallb_In _ _ _ (forallb_In _ _ _ H (digit_in a Ha)) (digit_in b Hb)).
Qed.
