From Coq Require Import List NArith Lia Bool Arith.
Import ListNotations.
Require Import P.Generated.Enums P.Spec.Values P.Generated.Tables P.Model.Base P.Model.Pool P.Proofs.PoolSpec P.Model.Walk P.Model.Builder P.Proofs.D0 P.Proofs.D1 P.Proofs.D3 P.Proofs.D2 P.Proofs.D4.

Section D5.
Variable g : list atom.
Notation n := (length g).
Notation bonds_of := (bonds_of g).
Notation atom_at := (atom_at g).
Notation nonback := (nonback g).
Notation processed := (processed g).
Notation pending := (pending g).
Notation wsim := (wsim g).
Notation bsim := (bsim g).
Notation top_facts := (top_facts g).
Notation node_ok := (node_ok g).
Notation back_edges := (back_edges g).

Hypothesis wf_range : forall x b, x < n -> In b (bonds_of x) -> tid b < n /\ tid b <> x.
Hypothesis wf_nodup : forall x, x < n -> NoDup (map tid (bonds_of x)).
Hypothesis wf_sym : forall x b, x < n -> In b (bonds_of x) ->
  exists b', find_to x (bonds_of (tid b)) = Some b' /\ bk b' = reverse (bk b).
Hypothesis safe_kinds : forall x, safe (akind (atom_at x)).

(* ---------- a new component ---------- *)
Definition gh_root (gh : ghost) id : ghost := {| order := order gh ++ [id]; par := par gh; cnt := cnt gh |}.

Lemma edge_ok_root gh p u c e id : ~ In id (order gh) -> In u (order gh) -> In (tid c) (order gh) ->
  edge_ok gh p u c e -> edge_ok (gh_root gh id) p u c e.
Proof.
  intros Hy Hu Hc. unfold D2.edge_ok. cbn [gh_root par]. unfold phi. cbn [gh_root order].
  rewrite !index_of_app_in by assumption. auto.
Qed.

Lemma sim_root gh s b id root :
  wsim gh s -> bsim gh s b -> stk s = [] -> id < n -> nth id (rem s) None = Some root ->
  root = atom_at id /\ ~ In id (order gh) /\
  wsim (gh_root gh id) (start_root s id root) /\
  exists b2, bstep b (ERoot (akind root)) = Some b2 /\ bsim (gh_root gh id) (start_root s id root) b2.
Proof.
  intros W B Hstk Hid Hroot.
  rewrite (ws_rem g gh s W id Hid) in Hroot. destruct (in_dec Nat.eq_dec id (order gh)) as [Hi|Hnin]; [discriminate|].
  inversion Hroot; subst root. split; [reflexivity|]. split; [exact Hnin|].
  set (gh' := gh_root gh id).
  destruct (ws_fresh g gh s W id Hnin) as [Hc0 Hp0].
  assert (Hord : forall z, In z (order gh') <-> In z (order gh) \/ z = id).
  { intros z. cbn [gh' gh_root order]. rewrite in_app_iff. simpl. intuition. }
  assert (Hnb : forall z, nonback gh' z = nonback gh z) by reflexivity.
  assert (Hpe : forall z, pending gh' z = pending gh z) by reflexivity.
  assert (Hpr : forall z, processed gh' z = processed gh z) by reflexivity.
  assert (Hphio : forall z, In z (order gh) -> phi gh' z = phi gh z) by (intros z Hz; unfold phi; cbn [gh' gh_root order]; apply index_of_app_in; exact Hz).
  assert (Hphin : phi gh' id = length (order gh)) by (unfold phi; cbn [gh' gh_root order]; apply index_of_app_new; exact Hnin).
  (* all atoms of the finished component are complete *)
  assert (Hdone : forall z, In z (order gh) -> cnt gh z = length (nonback gh z)).
  { intros z Hz. destruct (in_dec Nat.eq_dec z (chain s)) as [Hzc|Hzc]; [|apply (ws_done g gh s W z Hz Hzc)].
    pose proof (ws_stk g gh s W) as Hs. rewrite Hstk in Hs. symmetry in Hs.
    assert (Hseg : seg g gh z = []).
    { clear -Hs Hzc. induction (chain s) as [|a l IH]; [contradiction|]. cbn [flat_map] in Hs. apply app_eq_nil in Hs as [H1 H2].
      destruct Hzc as [->|Hzc]; [exact H1 | apply IH; assumption]. }
    unfold seg in Hseg. apply map_eq_nil in Hseg. unfold D1.pending in Hseg. apply skipn_nil_len in Hseg. pose proof (ws_cnt g gh s W z). lia. }
  split.
  - constructor; cbn [start_root rem stk chain].
    + rewrite set_nth_length. apply (ws_len g gh s W).
    + intros z Hz. destruct (Nat.eq_dec z id) as [->|Hzi].
      * rewrite nth_set_nth_same by (rewrite (ws_len g gh s W); exact Hid).
        destruct (in_dec Nat.eq_dec id (order gh')) as [_|Hn]; [reflexivity|]. exfalso. apply Hn. apply Hord. right. reflexivity.
      * rewrite nth_set_nth_other by (intros E; apply Hzi; symmetry; exact E). rewrite (ws_rem g gh s W z Hz).
        destruct (in_dec Nat.eq_dec z (order gh)) as [Hi|Hi], (in_dec Nat.eq_dec z (order gh')) as [Hi'|Hi']; try reflexivity.
        -- exfalso. apply Hi'. apply Hord. left. exact Hi.
        -- exfalso. apply Hord in Hi' as [Hi'|Hi']; [exact (Hi Hi') | exact (Hzi Hi')].
    + cbn [flat_map]. rewrite app_nil_r. unfold seg. rewrite Hpe. unfold D1.pending, D1.nonback. rewrite Hc0, Hp0. reflexivity.
    + intros z Hzo Hzc. change (cnt gh' z) with (cnt gh z). rewrite Hnb. apply Hord in Hzo as [Hzo|Hzo]; [apply Hdone; exact Hzo|].
      exfalso. apply Hzc. left. symmetry. exact Hzo.
    + intros z. apply (ws_cnt g gh s W).
    + intros z [<-|[]]. apply Hord. right. reflexivity.
    + cbn [gh' gh_root order]. apply NoDup_app_intro; [apply (ws_nd g gh s W) | constructor; [intros []|constructor] | intros z Hz [<-|[]]; exact (Hnin Hz)].
    + constructor; [intros []|constructor].
    + intros z Hz. apply Hord in Hz as [Hz| ->]; [apply (ws_rng g gh s W z Hz) | exact Hid].
    + intros z p Hp. destruct (ws_par g gh s W z p Hp) as [H1 [H2 H3]]. split; [apply Hord; left; exact H1|]. split; [apply Hord; left; exact H2 | exact H3].
    + intros z c Hzo Hc. rewrite Hpr in Hc. apply Hord in Hzo as [Hzo|Hzo].
      * apply Hord. left. apply (ws_proc g gh s W z c Hzo Hc).
      * subst z. unfold D1.processed in Hc. rewrite Hc0 in Hc. simpl in Hc. contradiction.
    + intros z Hz. apply (ws_fresh g gh s W z). intros H. apply Hz. apply Hord. left. exact H.
    + apply (ws_child g gh s W).
  - eexists. split; [reflexivity|].
    pose proof (bs_len g gh s b B) as Hlen.
    assert (Hstable : forall u c e, In u (order gh) -> In c (processed gh u) -> edge_ok gh (wpool s) u c e -> edge_ok gh' (wpool s) u c e).
    { intros u c e Hu Hc Hok. apply edge_ok_root; auto. apply (ws_proc g gh s W u c Hu Hc). }
    constructor; cbn [start_root chain wpool].
    + cbn [graph]. rewrite app_length. cbn [length gh' gh_root order]. rewrite app_length. cbn [length]. lia.
    + exists (bstack b). cbn [bstack map app]. rewrite Hphin, Hlen. reflexivity.
    + intros z Hz. cbn [graph]. apply Hord in Hz as [Hz|Hz].
      * destruct (bs_nodes g gh s b B z Hz) as [ndz [Hndz [Hkz [esz [Hez Hfz]]]]].
        assert (Hphiz : phi gh z < length (graph b)) by (rewrite Hlen; apply index_of_lt; exact Hz).
        exists ndz. rewrite (Hphio z Hz). split; [rewrite nth_error_app1 by exact Hphiz; exact Hndz|].
        split; [exact Hkz|]. exists esz. split.
        -- rewrite Hez. f_equal. unfold D2.back_edges. change (par gh' z) with (par gh z). destruct (par gh z) as [q|] eqn:Epz; [|reflexivity].
           destruct (ws_par g gh s W z q Epz) as [_ [Hq _]]. rewrite (Hphio q Hq). reflexivity.
        -- rewrite Hpr. eapply Forall2_impl_in; [|exact Hfz]. intros c e Hc Hok. apply Hstable; assumption.
      * subst z. rewrite Hphin, <- Hlen. eexists. split; [apply nth_error_app_new|]. split; [unfold D2.kind_final; change (par gh' id) with (par gh id); rewrite Hp0; reflexivity|].
        exists []. cbn [edges]. split; [unfold D2.back_edges; change (par gh' id) with (par gh id); rewrite Hp0; reflexivity|].
        rewrite Hpr. unfold D1.processed. rewrite Hc0. constructor.
    + cbn [opens]. rewrite (bs_opens g gh s b B). unfold mirror. apply map_ext_in. intros [[u v] r0] Hent. cbn [fst snd].
      destruct (bs_open g gh s b B u v r0 Hent) as [Hu _]. rewrite (Hphio u Hu). reflexivity.
    + apply (bs_err g gh s b B).
    + apply (bs_pinv g gh s b B).
    + apply (bs_pairs g gh s b B).
    + intros u v r0 Hent. destruct (bs_open g gh s b B u v r0 Hent) as [Hu [Hv [Hc [Hnc Hnpar]]]].
      split; [apply Hord; left; exact Hu|]. split; [apply Hord; left; exact Hv|]. rewrite !Hpr. repeat split; assumption.
    + intros u c Hu Hc Hnt Hlu. rewrite Hpr in *. apply Hord in Hu as [Hu|Hu].
      * apply (bs_closed g gh s b B u c Hu Hc Hnt Hlu).
      * subst u. unfold D1.processed in Hc. rewrite Hc0 in Hc. simpl in Hc. contradiction.
Qed.
End D5.
