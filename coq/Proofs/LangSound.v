(* C04, soundness: every string the reader accepts is a sentence of the declarative grammar (Spec/Lang.v).
   Proved on the cursor-free reader (Model/SimpleReader.v) and transferred with read_projects. *)
From Coq Require Import String.
From Coq Require Import List NArith Lia Bool Arith.
Import ListNotations.
Require Import P.Generated.Enums P.Meta.Scan P.Spec.Values P.Spec.Reading P.Generated.Trees
  P.Model.Base P.Model.Token P.Model.Reader P.Model.SimpleReader P.Proofs.ReaderSim
  P.Spec.Lang P.Proofs.LangTokens P.Proofs.LangAtoms.
Strategy opaque [tree_symbol tree_organic tree_configuration tree_charge tree_bond tree_rnum tree_hcount tree_isotope tree_map].

Lemma skipn_len_app {A} (p w : list A) : skipn (length p) (p ++ w) = w.
Proof. induction p as [|a p IH]; [reflexivity | exact IH]. Qed.

(* ---------- tokens, in the shape the loop uses them ---------- *)
Lemma split_of_sound {A} (rdr : list N -> tok A) P : tok_sound rdr P -> forall x v n, rdr x = TOk v n -> exists p, P p /\ x = p ++ skipn n x.
Proof. intros Hs x v n H. destruct (Hs _ _ _ H) as [p [w [-> [Hp ->]]]]. exists p. rewrite skipn_len_app. auto. Qed.
Definition atom_split := split_of_sound read_atom Atom atom_sound.
Definition rnum_split := split_of_sound read_rnum Rnum rnum_read_sound.
Lemma bond_split x b n : read_bond x = (b, n) -> exists p, opt Bond p /\ x = p ++ skipn n x /\ (bondk_eqb b BK_Elided = true -> p = []).
Proof.
  intros H. destruct (bond_read _ _ _ H) as [[-> ->]|[Hb [p [w [-> [Hp ->]]]]]].
  - exists []. split; [left; reflexivity|]. split; [reflexivity | auto].
  - exists p. split; [right; exact Hp|]. rewrite skipn_len_app. split; [reflexivity|]. intros E. congruence.
Qed.
Lemma peek_split (s : st) c : speek s = Some c -> fst s = c :: fst (sadv s 1).
Proof. unfold speek, sadv. destruct s as [x e]. cbn [fst]. destruct x as [|c' x']; [discriminate|]. intros H. inversion H. reflexivity. Qed.

Lemma link_sound input s b s' : sread_link input s = (inl b, s') ->
  (b = false /\ s' = s) \/ (b = true /\ exists a, Atom a /\ fst s = a ++ fst s').
Proof.
  unfold sread_link. destruct (read_atom (fst s)) as [k n| | | |] eqn:E; intros H; inversion H; subst; [right | left; auto].
  split; [reflexivity|]. destruct (atom_split _ _ _ E) as [a [Ha Hx]]. exists a. split; [exact Ha | exact Hx].
Qed.

Section Loop.
Variable rs : option bond_kind -> st -> SR * st.
Hypothesis rs_sound : forall input t n t', rs input t = (inl (Some n), t') -> exists x, Chain x /\ fst t = x ++ fst t'.

Lemma branch_sound s b s' : sread_branch rs s = (inl b, s') ->
  (b = false /\ s' = s) \/ (b = true /\ exists i, Item i /\ fst s = i ++ fst s').
Proof.
  unfold sread_branch. destruct (speek s) as [c|] eqn:Ep; [|intros H; inversion H; left; auto].
  destruct (N.eqb_spec c LP) as [->|_]; [|intros H; inversion H; left; auto].
  pose proof (peek_split s _ Ep) as E0. set (s1 := sadv s 1) in *.
  assert (Hr : forall r, r = (match speek s1 with
                              | Some c' => if N.eqb c' DOT then rs None (sadv s1 1) else let '(b, n) := read_bond (fst s1) in rs (Some b) (sadv s1 n)
                              | None => let '(b, n) := read_bond (fst s1) in rs (Some b) (sadv s1 n) end) ->
               forall len s2, r = (inl (Some len), s2) -> exists p x, (p = str "." \/ opt Bond p) /\ Chain x /\ fst s1 = p ++ x ++ fst s2).
  { intros r Hr len s2 E. subst r.
    assert (Hbond : (let '(b, n) := read_bond (fst s1) in rs (Some b) (sadv s1 n)) = (inl (Some len), s2) ->
                    exists p x, (p = str "." \/ opt Bond p) /\ Chain x /\ fst s1 = p ++ x ++ fst s2).
    { destruct (read_bond (fst s1)) as [bk n] eqn:Eb. intros Hrs. destruct (bond_split _ _ _ Eb) as [p [Hp [Hx _]]].
      destruct (rs_sound _ _ _ _ Hrs) as [x [Hc Hxx]]. exists p, x. split; [right; exact Hp|]. split; [exact Hc|].
      rewrite Hx at 1. f_equal. exact Hxx. }
    destruct (speek s1) as [c'|] eqn:Ep1; [|exact (Hbond E)].
    destruct (N.eqb_spec c' DOT) as [->|_]; [|exact (Hbond E)].
    destruct (rs_sound _ _ _ _ E) as [x [Hc Hxx]]. exists (str "."), x. split; [left; reflexivity|]. split; [exact Hc|].
    rewrite (peek_split s1 _ Ep1). change (str ".") with [DOT]. cbn [app]. f_equal. exact Hxx. }
  specialize (Hr _ eq_refl).
  destruct (match speek s1 with
            | Some c' => if N.eqb c' DOT then rs None (sadv s1 1) else let '(b, n) := read_bond (fst s1) in rs (Some b) (sadv s1 n)
            | None => let '(b, n) := read_bond (fst s1) in rs (Some b) (sadv s1 n) end) as [[[len|]|v] s2]; try (intros H; discriminate).
  destruct (Hr len s2 eq_refl) as [p [x [Hp [Hc Hx]]]].
  destruct (speek s2) as [c''|] eqn:Ep2; [|intros H; discriminate].
  destruct (N.eqb_spec c'' RP) as [->|_]; [|intros H; discriminate].
  intros H. inversion H; subst. right. split; [reflexivity|].
  exists (str "(" ++ p ++ x ++ str ")"). split; [apply item_branch; assumption|].
  rewrite E0, Hx, (peek_split s2 _ Ep2). change (str "(") with [LP]. change (str ")") with [RP]. cbn [semit sadv fst].
  cbn [app]. f_equal. repeat rewrite <- app_assoc. reflexivity.
Qed.

Lemma loop_sound : forall g s acc n s', sloop rs g s acc = (inl (Some n), s') -> exists r, Items r /\ fst s = r ++ fst s'.
Proof.
  induction g as [|g IH]; intros s acc n s' H; cbn [sloop] in H; [discriminate|].
  destruct (sread_branch rs s) as [[[|]|v] s1] eqn:Eb; [| |discriminate].
  - destruct (branch_sound _ _ _ Eb) as [[Hf _]|[_ [i [Hi Hx]]]]; [discriminate|].
    destruct (IH _ _ _ _ H) as [r [Hr Hy]]. exists (i ++ r). split; [apply items_cons; assumption|]. rewrite Hx, Hy, app_assoc. reflexivity.
  - destruct (branch_sound _ _ _ Eb) as [[_ ->]|[Hf _]]; [|discriminate].
    destruct (match speek s with Some c => N.eqb c DOT | None => false end) eqn:Ed.
    + destruct (speek s) as [c|] eqn:Ep; [|discriminate]. apply N.eqb_eq in Ed. subst c.
      destruct (sread_link None (sadv s 1)) as [[[|]|v] s2] eqn:El; try discriminate.
      destruct (link_sound _ _ _ _ El) as [[Hf _]|[_ [a [Ha Hx]]]]; [discriminate|].
      destruct (IH _ _ _ _ H) as [r [Hr Hy]]. exists ((str "." ++ a) ++ r). split; [apply items_cons; [apply item_dot; exact Ha | exact Hr]|].
      rewrite (peek_split s _ Ep), Hx, Hy. change (str ".") with [DOT]. cbn [app]. rewrite app_assoc. reflexivity.
    + destruct (read_bond (fst s)) as [b m] eqn:Ebd. destruct (bond_split _ _ _ Ebd) as [p [Hp [Hx Hel]]].
      destruct (sread_link (Some b) (sadv s m)) as [[[|]|v] s2] eqn:El; try discriminate.
      * destruct (link_sound _ _ _ _ El) as [[Hf _]|[_ [a [Ha Hxa]]]]; [discriminate|].
        destruct (IH _ _ _ _ H) as [r [Hr Hy]]. exists ((p ++ a) ++ r). split; [apply items_cons; [apply item_atom; assumption | exact Hr]|].
        rewrite Hx at 1. cbn [sadv fst] in Hxa. rewrite Hxa, Hy. repeat rewrite <- app_assoc. reflexivity.
      * destruct (link_sound _ _ _ _ El) as [[_ ->]|[Hf _]]; [|discriminate].
        destruct (read_rnum (fst (sadv s m))) as [rn k| | | |] eqn:Er; try discriminate.
        -- destruct (rnum_split _ _ _ Er) as [q [Hq Hxq]].
           destruct (IH _ _ _ _ H) as [r [Hr Hy]]. exists ((p ++ q) ++ r). split; [apply items_cons; [apply item_ring; assumption | exact Hr]|].
           rewrite Hx at 1. cbn [sadv semit fst] in *. unfold char in *. rewrite Hxq at 1. rewrite Hy. repeat rewrite <- app_assoc. reflexivity.
        -- destruct (bondk_eqb b BK_Elided) eqn:Ee; [|discriminate]. inversion H; subst. exists []. split; [apply items_nil|].
           rewrite (Hel eq_refl) in Hx. cbn [app sadv fst] in *. exact Hx.
Qed.
End Loop.

Lemma smiles_sound : forall f input s n s', sread_smiles f input s = (inl (Some n), s') -> exists x, Chain x /\ fst s = x ++ fst s'.
Proof.
  induction f as [|f IH]; intros input s n s' H; cbn [sread_smiles] in H; [discriminate|].
  destruct (sread_link input s) as [[[|]|v] s1] eqn:El; try discriminate.
  destruct (link_sound _ _ _ _ El) as [[Hf _]|[_ [a [Ha Hx]]]]; [discriminate|].
  destruct (loop_sound (sread_smiles f) (IH) _ _ _ _ _ H) as [r [Hr Hy]].
  exists (a ++ r). split; [apply chain; assumption|]. rewrite Hx, Hy, app_assoc. reflexivity.
Qed.

Theorem sread_sound s h : sread s = (true, h) -> Lang s.
Proof.
  unfold sread. destruct (sread_smiles (S (length s)) None (s, [])) as [r s'] eqn:E. intros H.
  destruct r as [[n|]|v]; try (inversion H; discriminate). destruct (fst s') as [|c x] eqn:Es; [|inversion H; discriminate].
  destruct (smiles_sound _ _ _ _ _ E) as [x [Hc Hx]]. cbn [fst] in Hx. rewrite Es, app_nil_r in Hx. subst x. exact Hc.
Qed.

(* C04, soundness *)
Theorem reader_sound : forall s h, rd s = (VOk, h) -> Lang s.
Proof.
  intros s h H. pose proof (read_projects s) as Hp. rewrite H in Hp. cbn [fst snd accepted] in Hp.
  apply (sread_sound s h). symmetry. exact Hp.
Qed.
