(* Token facts for every value and every continuation (C07 c; premises of C09/C01): what the writer prints for an
   atom kind, a bond or a ring number is read back to the same value (up to the documented shorthands) whatever
   follows, as long as the next character is one that may follow.  Finite checks on the learned tries are lifted
   by the locality of scanner runs. *)
From Coq Require Import List String Ascii ZArith NArith Lia Bool Arith.
Import ListNotations.
Require Import P.Generated.Enums P.Spec.Values P.Generated.Tables P.Meta.Scan P.Meta.ScanMeta P.Generated.Trees P.Spec.Spelling P.Spec.Normal
  P.Model.Base P.Model.Token P.Proofs.Finite P.Checks.Token_defs.
Local Notation length := List.length.

(* ---------- finite facts ---------- *)
Lemma field_checks : bad_field_isotope = [] /\ bad_field_symbol = [] /\ bad_field_configuration = [] /\ bad_field_hcount = [] /\
  bad_field_charge = [] /\ bad_field_map = [].
Proof. vm_compute. repeat split; reflexivity. Qed.
Lemma body_checks : bad_organic = [] /\ bad_organic_none = [] /\ bad_bond = [] /\ bad_bond_elided = [] /\ bad_rnum = [] /\ bad_rnum_none = [].
Proof. vm_compute. repeat split; reflexivity. Qed.

(* ---------- generic lifting ---------- *)
Lemma chars_app a b : chars (a ++ b)%string = chars a ++ chars b.
Proof. unfold chars. induction a as [|x a IH]; simpl; [reflexivity|]. f_equal. exact IH. Qed.

Definition expect_tok {V} (e : option V) (n : nat) : tok V := match e with Some v => TOk v n | None => TNo end.

Section Lift.
Variable V : Type.
Variable veqb : V -> V -> bool.
Hypothesis veqb_eq : forall a b, veqb a b = true -> a = b.
Variable t : tree V.

Lemma reads_as_some p c e : reads_as veqb t p (Some c) e = true -> forall x, run_tok t (p ++ c :: x) = expect_tok e (length p).
Proof.
  unfold reads_as. intros H x. apply andb_true_iff in H as [H Hpk]. apply Nat.leb_le in Hpk.
  assert (Hrun : run t (p ++ c :: x) 0 0 = run t (p ++ [c]) 0 0).
  { apply run_local. intros i Hi. rewrite Nat.sub_0_r in Hi.
    destruct (Nat.lt_ge_cases i (length p)) as [Hlt|Hge].
    - rewrite !nth_error_app1 by exact Hlt. reflexivity.
    - assert (i = length p) as -> by lia. rewrite !nth_error_app2 by lia. rewrite Nat.sub_diag. reflexivity. }
  unfold run_tok, of_run. rewrite Hrun. destruct e as [v|]; destruct (r_out (run t (p ++ [c]) 0 0)) as [v'| | | |]; try discriminate.
  - apply andb_true_iff in H as [H1 H2]. apply veqb_eq in H1. apply Nat.eqb_eq in H2. subst. rewrite H2. reflexivity.
  - apply andb_true_iff in H as [H1 H2]. rewrite H1. reflexivity.
Qed.
Lemma reads_as_end p e : reads_as veqb t p None e = true -> run_tok t p = expect_tok e (length p).
Proof.
  unfold reads_as. intros H. apply andb_true_iff in H as [H _].
  unfold run_tok, of_run. destruct e as [v|]; destruct (r_out (run t p 0 0)) as [v'| | | |]; try discriminate.
  - apply andb_true_iff in H as [H1 H2]. apply veqb_eq in H1. apply Nat.eqb_eq in H2. subst. rewrite H2. reflexivity.
  - apply andb_true_iff in H as [H1 H2]. rewrite H1. reflexivity.
Qed.
Lemma field_bad_nil rows after : field_bad veqb t rows after = [] -> forall row c, In row rows -> In c after -> reads_as veqb t (fst row) c (snd row) = true.
Proof.
  intros H row c Hr Hc. destruct (reads_as veqb t (fst row) c (snd row)) eqn:E; [reflexivity|]. exfalso.
  assert (In (fst row, c) (field_bad veqb t rows after)).
  { unfold field_bad. apply in_flat_map. exists row. split; [exact Hr|]. apply in_map. apply filter_In. split; [exact Hc | rewrite E; reflexivity]. }
  rewrite H in H0. exact H0.
Qed.
End Lift.

(* ---------- first characters ---------- *)
Definition hd_in (l al : list char) : Prop := exists c x, l = c :: x /\ In c al.
Lemma firsts_in texts t c x : In t texts -> t = c :: x -> In c (firsts texts).
Proof.
  intros Hin ->. unfold firsts. apply nodup_In. apply in_flat_map. exists (c :: x). split; [exact Hin | left; reflexivity].
Qed.
Lemma hd_in_app A texts B al : (A = [] \/ In A texts) -> hd_in B al -> hd_in (A ++ B) (firsts texts ++ al).
Proof.
  intros HA [c [x [-> Hc]]]. destruct A as [|a A'].
  - exists c, x. split; [reflexivity | apply in_or_app; right; exact Hc].
  - destruct HA as [HA|HA]; [discriminate|]. exists a, (A' ++ c :: x). split; [reflexivity|]. apply in_or_app. left. eapply firsts_in; [exact HA | reflexivity].
Qed.
Lemma opt_text_in {A} (f : A -> list char) (all : list A) o : (forall v, o = Some v -> In v all) -> opt_text f o = [] \/ In (opt_text f o) (map f all).
Proof. intros H. destruct o as [v|]; [right; cbn [opt_text]; apply in_map, H; reflexivity | left; reflexivity]. Qed.

(* ---------- one field of a bracket atom ---------- *)
Definition in_numbers (o : option N) : Prop := forall n, o = Some n -> (n < 1000)%N.
Lemma numbers_in o : in_numbers o -> forall v, o = Some v -> In v numbers.
Proof. intros H v E. apply N_below_complete. apply (H v E). Qed.

Lemma rows_opt_in {A} (all : list A) text nk (o : option A) : (forall v, o = Some v -> In v all) -> In (opt_text text o, nk o) (rows_opt all text nk).
Proof. intros H. unfold rows_opt. destruct o as [v|]; [right; apply (in_map (fun v => (text v, nk (Some v)))), H; reflexivity | left; reflexivity]. Qed.

Lemma opt_N_eqb a b : N.eqb a b = true -> a = b. Proof. apply N.eqb_eq. Qed.
Lemma field_isotope o Y : in_numbers o -> hd_in Y after_iso -> run_tok tree_isotope (opt_text text_iso o ++ Y) = expect_tok o (length (opt_text text_iso o)).
Proof.
  intros Ho [c [x [-> Hc]]]. destruct field_checks as [H _].
  apply (reads_as_some _ N.eqb opt_N_eqb tree_isotope _ c o).
  apply (field_bad_nil _ N.eqb tree_isotope _ _ H (opt_text text_iso o, idn o) (Some c)); [apply rows_opt_in, numbers_in, Ho | apply in_map, Hc].
Qed.
Lemma field_symbol s Y : hd_in Y after_sym -> run_tok tree_symbol (text_sym s ++ Y) = TOk s (length (text_sym s)).
Proof.
  intros [c [x [-> Hc]]]. destruct field_checks as [_ [H _]].
  apply (reads_as_some _ bs_eqb (fun a b => proj1 (bs_eqb_eq a b)) tree_symbol _ c (Some s)).
  apply (field_bad_nil _ bs_eqb tree_symbol _ _ H (text_sym s, Some s) (Some c)); [apply (in_map (fun s => (text_sym s, Some s))), all_bracket_symbol_complete | apply in_map, Hc].
Qed.
Lemma field_configuration o Y : hd_in Y after_cfg -> run_tok tree_configuration (opt_text text_cfg o ++ Y) = expect_tok (nk_cfg o) (length (opt_text text_cfg o)).
Proof.
  intros [c [x [-> Hc]]]. destruct field_checks as [_ [_ [H _]]].
  apply (reads_as_some _ configuration_eqb (fun a b => proj1 (configuration_eqb_eq a b)) tree_configuration _ c (nk_cfg o)).
  apply (field_bad_nil _ configuration_eqb tree_configuration _ _ H (opt_text text_cfg o, nk_cfg o) (Some c)); [apply rows_opt_in; intros; apply all_configuration_complete | apply in_map, Hc].
Qed.
Lemma field_hcount o Y : hd_in Y after_h -> run_tok tree_hcount (opt_text text_h o ++ Y) = expect_tok (nk_h o) (length (opt_text text_h o)).
Proof.
  intros [c [x [-> Hc]]]. destruct field_checks as [_ [_ [_ [H _]]]].
  apply (reads_as_some _ virtual_hydrogen_eqb (fun a b => proj1 (virtual_hydrogen_eqb_eq a b)) tree_hcount _ c (nk_h o)).
  apply (field_bad_nil _ virtual_hydrogen_eqb tree_hcount _ _ H (opt_text text_h o, nk_h o) (Some c)); [apply rows_opt_in; intros; apply all_virtual_hydrogen_complete | apply in_map, Hc].
Qed.
Lemma field_charge o Y : hd_in Y after_chg -> run_tok tree_charge (opt_text text_chg o ++ Y) = expect_tok o (length (opt_text text_chg o)).
Proof.
  intros [c [x [-> Hc]]]. destruct field_checks as [_ [_ [_ [_ [H _]]]]].
  apply (reads_as_some _ charge_eqb (fun a b => proj1 (charge_eqb_eq a b)) tree_charge _ c o).
  apply (field_bad_nil _ charge_eqb tree_charge _ _ H (opt_text text_chg o, idn o) (Some c)); [apply rows_opt_in; intros; apply all_charge_complete | apply in_map, Hc].
Qed.
Lemma field_map o Y : in_numbers o -> hd_in Y after_map -> run_tok tree_map (opt_text text_map o ++ Y) = expect_tok o (length (opt_text text_map o)).
Proof.
  intros Ho [c [x [-> Hc]]]. destruct field_checks as [_ [_ [_ [_ [_ H]]]]].
  apply (reads_as_some _ N.eqb opt_N_eqb tree_map _ c o).
  apply (field_bad_nil _ N.eqb tree_map _ _ H (opt_text text_map o, idn o) (Some c)); [apply rows_opt_in, numbers_in, Ho | apply in_map, Hc].
Qed.

(* ---------- sequencing the fields: read_bracket on the text of a bracket atom ---------- *)
Lemma skipn_add {A} (l : list A) : forall a b, skipn (a + b) l = skipn b (skipn a l).
Proof. induction l as [|x l IH]; intros [|a] b; cbn [Nat.add skipn]; try reflexivity; [destruct b; reflexivity | apply IH]. Qed.
Lemma skipn_app_exact {A} (P Y : list A) : skipn (length P) (P ++ Y) = Y.
Proof. induction P; simpl; auto. Qed.
Lemma seq_opt {A B} (tr : tree A) (P Y s : list char) off (e : option A) (k : option A -> nat -> tok B) :
  skipn off s = P ++ Y -> run_tok tr (P ++ Y) = expect_tok e (length P) -> (e = None -> P = []) ->
  bind_opt (run_tok tr (skipn off s)) off k = k e (off + length P) /\ skipn (off + length P) s = Y.
Proof.
  intros Hs Hr He. split.
  - rewrite Hs, Hr. destruct e as [v|]; cbn [expect_tok bind_opt]; [reflexivity|]. rewrite (He eq_refl). cbn [length]. rewrite Nat.add_0_r. reflexivity.
  - rewrite skipn_add, Hs. apply skipn_app_exact.
Qed.
Lemma seq_req {A B} (tr : tree A) (P Y s : list char) off (v : A) (k : A -> nat -> tok B) :
  skipn off s = P ++ Y -> run_tok tr (P ++ Y) = TOk v (length P) ->
  bind_req (run_tok tr (skipn off s)) off k = k v (off + length P) /\ skipn (off + length P) s = Y.
Proof.
  intros Hs Hr. split.
  - rewrite Hs, Hr. reflexivity.
  - rewrite skipn_add, Hs. apply skipn_app_exact.
Qed.

Definition bracket_text (i : option N) (s : bracket_symbol) (c : option configuration) (h : option virtual_hydrogen) (g : option charge) (m : option N) : list char :=
  LB :: opt_text text_iso i ++ text_sym s ++ opt_text text_cfg c ++ opt_text text_h h ++ opt_text text_chg g ++ opt_text text_map m ++ [RB].
Lemma chars_opt {A} (f : A -> string) o : chars (opt_str f o) = opt_text (fun x => chars (f x)) o.
Proof. destruct o; reflexivity. Qed.
Lemma pp_kind_bracket i s c h g m : pp_kind (AK_Bracket i s c h g m) = bracket_text i s c h g m.
Proof.
  unfold pp_kind, display_kind, bracket_text. rewrite !chars_app, !chars_opt.
  change (chars "[") with [LB]. change (chars "]") with [RB]. cbn [app].
  destruct m; reflexivity.
Qed.

Definition wf_numbers (k : atom_kind) : Prop := match k with AK_Bracket i _ _ _ _ m => in_numbers i /\ in_numbers m | _ => True end.

Lemma nonempty_sym : forall s, text_sym s <> [].
Proof.
  assert (H : forallb (fun s => match text_sym s with [] => false | _ => true end) all_bracket_symbol = true) by (vm_compute; reflexivity).
  intros s E. rewrite forallb_forall in H. specialize (H s (all_bracket_symbol_complete s)). rewrite E in H. discriminate.
Qed.
Lemma expect_cfg_none o : nk_cfg o = None -> opt_text text_cfg o = [].
Proof.
  assert (H : forallb (fun o => match nk_cfg o, opt_text text_cfg o with None, _ :: _ => false | _, _ => true end) (all_option all_configuration) = true) by (vm_compute; reflexivity).
  intros E. rewrite forallb_forall in H. specialize (H o (all_option_complete _ all_configuration_complete o)). rewrite E in H. destruct (opt_text text_cfg o); [reflexivity | discriminate].
Qed.
Lemma expect_h_none o : nk_h o = None -> opt_text text_h o = [].
Proof.
  assert (H : forallb (fun o => match nk_h o, opt_text text_h o with None, _ :: _ => false | _, _ => true end) (all_option all_virtual_hydrogen) = true) by (vm_compute; reflexivity).
  intros E. rewrite forallb_forall in H. specialize (H o (all_option_complete _ all_virtual_hydrogen_complete o)). rewrite E in H. destruct (opt_text text_h o); [reflexivity | discriminate].
Qed.

Lemma read_bracket_cons str x : str = LB :: x -> read_bracket str =
      bind_opt (run_tok tree_isotope (skipn 1 str)) 1 (fun iso o =>
      bind_req (run_tok tree_symbol (skipn o str)) o (fun sym o =>
      bind_opt (run_tok tree_configuration (skipn o str)) o (fun cfg o =>
      bind_opt (run_tok tree_hcount (skipn o str)) o (fun h o =>
      bind_opt (run_tok tree_charge (skipn o str)) o (fun chg o =>
      bind_opt (run_tok tree_map (skipn o str)) o (fun mp o =>
        match skipn o str with
        | c' :: _ => if N.eqb c' RB then TOk (AK_Bracket iso sym cfg h chg mp) (S o) else TErrChar o
        | [] => TErrEol
        end)))))).
Proof. intros ->. reflexivity. Qed.

Theorem read_bracket_text i s c h g m rest : in_numbers i -> in_numbers m ->
  read_bracket (bracket_text i s c h g m ++ rest) = TOk (AK_Bracket i s (nk_cfg c) (nk_h h) g m) (length (bracket_text i s c h g m)).
Proof.
  intros Hi Hm. unfold bracket_text.
  set (I := opt_text text_iso i). set (S' := text_sym s). set (C := opt_text text_cfg c). set (H' := opt_text text_h h).
  set (G := opt_text text_chg g). set (M := opt_text text_map m).
  remember ((LB :: I ++ S' ++ C ++ H' ++ G ++ M ++ [RB]) ++ rest) as str eqn:Estr.
  assert (Hstr : str = LB :: I ++ S' ++ C ++ H' ++ G ++ M ++ RB :: rest).
  { rewrite Estr. cbn [app]. rewrite <- !app_assoc. reflexivity. }
  clear Estr.
  (* what may follow each field *)
  assert (F6 : hd_in (RB :: rest) after_map) by (exists RB, rest; split; [reflexivity | left; reflexivity]).
  assert (F5 : hd_in (M ++ RB :: rest) after_chg).
  { apply hd_in_app; [|exact F6]. apply opt_text_in. apply numbers_in. exact Hm. }
  assert (F4 : hd_in (G ++ M ++ RB :: rest) after_h).
  { apply hd_in_app; [|exact F5]. apply opt_text_in. intros; apply all_charge_complete. }
  assert (F3 : hd_in (H' ++ G ++ M ++ RB :: rest) after_cfg).
  { apply hd_in_app; [|exact F4]. apply opt_text_in. intros; apply all_virtual_hydrogen_complete. }
  assert (F2 : hd_in (C ++ H' ++ G ++ M ++ RB :: rest) after_sym).
  { apply hd_in_app; [|exact F3]. apply opt_text_in. intros; apply all_configuration_complete. }
  assert (F1 : hd_in (S' ++ C ++ H' ++ G ++ M ++ RB :: rest) after_iso).
  { destruct S' as [|a S''] eqn:ES; [exfalso; exact (nonempty_sym s ES)|].
    exists a, (S'' ++ C ++ H' ++ G ++ M ++ RB :: rest). split; [reflexivity|]. unfold after_iso. eapply firsts_in; [apply (in_map text_sym), (all_bracket_symbol_complete s) | exact ES]. }
  rewrite (read_bracket_cons str _ Hstr).
  (* isotope *)
  destruct (seq_opt tree_isotope I (S' ++ C ++ H' ++ G ++ M ++ RB :: rest) str 1 i
              (fun iso o => bind_req (run_tok tree_symbol (skipn o str)) o (fun sym o =>
               bind_opt (run_tok tree_configuration (skipn o str)) o (fun cfg o =>
               bind_opt (run_tok tree_hcount (skipn o str)) o (fun h o =>
               bind_opt (run_tok tree_charge (skipn o str)) o (fun chg o =>
               bind_opt (run_tok tree_map (skipn o str)) o (fun mp o =>
                 match skipn o str with
                 | c' :: _ => if N.eqb c' RB then TOk (AK_Bracket iso sym cfg h chg mp) (S o) else TErrChar o
                 | [] => TErrEol end))))))) as [E1 K1].
  { rewrite Hstr. reflexivity. } { apply field_isotope; assumption. } { intros ->. reflexivity. }
  rewrite E1. clear E1.
  destruct (seq_req tree_symbol S' (C ++ H' ++ G ++ M ++ RB :: rest) str (1 + length I) s
              (fun sym o =>
               bind_opt (run_tok tree_configuration (skipn o str)) o (fun cfg o =>
               bind_opt (run_tok tree_hcount (skipn o str)) o (fun h o =>
               bind_opt (run_tok tree_charge (skipn o str)) o (fun chg o =>
               bind_opt (run_tok tree_map (skipn o str)) o (fun mp o =>
                 match skipn o str with
                 | c' :: _ => if N.eqb c' RB then TOk (AK_Bracket i sym cfg h chg mp) (S o) else TErrChar o
                 | [] => TErrEol end)))))) as [E2 K2].
  { exact K1. } { apply field_symbol; exact F2. }
  rewrite E2. clear E2.
  destruct (seq_opt tree_configuration C (H' ++ G ++ M ++ RB :: rest) str (1 + length I + length S') (nk_cfg c)
              (fun cfg o =>
               bind_opt (run_tok tree_hcount (skipn o str)) o (fun h o =>
               bind_opt (run_tok tree_charge (skipn o str)) o (fun chg o =>
               bind_opt (run_tok tree_map (skipn o str)) o (fun mp o =>
                 match skipn o str with
                 | c' :: _ => if N.eqb c' RB then TOk (AK_Bracket i s cfg h chg mp) (S o) else TErrChar o
                 | [] => TErrEol end))))) as [E3 K3].
  { exact K2. } { apply field_configuration; exact F3. } { apply expect_cfg_none. }
  rewrite E3. clear E3.
  destruct (seq_opt tree_hcount H' (G ++ M ++ RB :: rest) str (1 + length I + length S' + length C) (nk_h h)
              (fun h0 o =>
               bind_opt (run_tok tree_charge (skipn o str)) o (fun chg o =>
               bind_opt (run_tok tree_map (skipn o str)) o (fun mp o =>
                 match skipn o str with
                 | c' :: _ => if N.eqb c' RB then TOk (AK_Bracket i s (nk_cfg c) h0 chg mp) (S o) else TErrChar o
                 | [] => TErrEol end)))) as [E4 K4].
  { exact K3. } { apply field_hcount; exact F4. } { apply expect_h_none. }
  rewrite E4. clear E4.
  destruct (seq_opt tree_charge G (M ++ RB :: rest) str (1 + length I + length S' + length C + length H') g
              (fun chg o =>
               bind_opt (run_tok tree_map (skipn o str)) o (fun mp o =>
                 match skipn o str with
                 | c' :: _ => if N.eqb c' RB then TOk (AK_Bracket i s (nk_cfg c) (nk_h h) chg mp) (S o) else TErrChar o
                 | [] => TErrEol end))) as [E5 K5].
  { exact K4. } { apply field_charge; exact F5. } { intros ->. reflexivity. }
  rewrite E5. clear E5.
  destruct (seq_opt tree_map M (RB :: rest) str (1 + length I + length S' + length C + length H' + length G) m
              (fun mp o =>
                 match skipn o str with
                 | c' :: _ => if N.eqb c' RB then TOk (AK_Bracket i s (nk_cfg c) (nk_h h) g mp) (S o) else TErrChar o
                 | [] => TErrEol end)) as [E6 K6].
  { exact K5. } { apply field_map; assumption. } { intros ->. reflexivity. }
  rewrite E6. clear E6. rewrite K6. change (N.eqb RB RB) with true. cbv iota. f_equal.
  cbn [length]. rewrite !app_length. cbn [length]. lia.
Qed.

(* ================= body position: atoms, bonds, ring numbers as the writer prints them ================= *)
Definition body_chars : list char := (bond_chars ++ atom_starts ++ digit_chars ++ [37; 40; 41; 46]%N)%list.
(* what may follow an atom token: nothing, or a character that starts a bond, an atom, a ring number, a branch, a dot or closes a branch *)
Definition follows (x : list char) : Prop := x = [] \/ hd_in x body_chars.
Definition stop (x : list char) : Prop := x = [] \/ exists y, x = 41%N :: y.

Lemma follow_atom_in x : follows x -> match x with [] => In None follow_atom | c :: _ => In (Some c) follow_atom end.
Proof.
  intros [->|[c [y [-> Hc]]]]; [left; reflexivity|]. right. apply in_map. exact Hc.
Qed.
Lemma run_field {V} veqb (veqb_eq : forall a b : V, veqb a b = true -> a = b) (t : tree V) rows after (Hbad : field_bad veqb t rows after = []) p e x :
  In (p, e) rows -> match x with [] => In None after | c :: _ => In (Some c) after end -> run_tok t (p ++ x) = expect_tok e (length p).
Proof.
  intros Hr Hx. destruct x as [|c x].
  - rewrite app_nil_r. apply (reads_as_end _ veqb veqb_eq). apply (field_bad_nil _ veqb t rows after Hbad (p, e) None Hr Hx).
  - apply (reads_as_some _ veqb veqb_eq). apply (field_bad_nil _ veqb t rows after Hbad (p, e) (Some c) Hr Hx).
Qed.
Lemma org_eqb_eq a b : org_eqb a b = true -> a = b.
Proof.
  destruct a, b; simpl; intros H; try discriminate; try reflexivity; [apply aliphatic_eqb_eq in H | apply aromatic_eqb_eq in H]; congruence.
Qed.

Lemma organic_kinds_in k : match k with AK_Aliphatic _ | AK_Aromatic _ => In k organic_kinds | _ => True end.
Proof.
  destruct k; try exact I; unfold organic_kinds; apply in_or_app; [left; apply in_map, all_aliphatic_complete | right; apply in_map, all_aromatic_complete].
Qed.
Lemma read_organic_text k x : match k with AK_Aliphatic _ | AK_Aromatic _ => True | _ => False end -> follows x ->
  read_organic (pp_kind k ++ x) = TOk k (length (pp_kind k)).
Proof.
  intros Hk Hx. destruct body_checks as [H _]. unfold read_organic.
  rewrite (run_field org_eqb org_eqb_eq tree_organic _ _ H (pp_kind k) (org_of k) x).
  - destruct k; try contradiction; reflexivity.
  - apply (in_map (fun k => (pp_kind k, org_of k))). pose proof (organic_kinds_in k). destruct k; try contradiction; assumption.
  - apply follow_atom_in. exact Hx.
Qed.
Lemma read_organic_none x : match x with [] => In None not_organic_starts | c :: _ => In (Some c) not_organic_starts end -> read_organic x = TNo.
Proof.
  intros Hx. destruct body_checks as [_ [H _]]. unfold read_organic.
  pose proof (run_field org_eqb org_eqb_eq tree_organic _ _ H [] None x) as E. cbn [app] in E.
  rewrite E; [reflexivity | left; reflexivity | exact Hx].
Qed.

Lemma in_by_existsb (c : option char) l : existsb (opt_eqb N.eqb c) l = true -> In c l.
Proof. intros H. apply existsb_exists in H as [x [Hin E]]. apply (opt_eqb_eq _ N.eqb_eq) in E. subst. exact Hin. Qed.
(* every atom kind, as printed, followed by anything that may follow an atom (for a bracket atom: by anything at all) *)
Theorem read_atom_text k x : wf_numbers k -> (match k with AK_Bracket _ _ _ _ _ _ => True | _ => follows x end) ->
  read_atom (pp_kind k ++ x) = TOk (nk_kind k) (length (pp_kind k)).
Proof.
  intros Hwf Hx. unfold read_atom. destruct k as [|a|a|i s c h g m].
  - (* star *) change (pp_kind AK_Star) with [STAR]. rewrite read_organic_none by (cbn [app]; apply in_by_existsb; vm_compute; reflexivity).
    reflexivity.
  - rewrite read_organic_text by (exact I || exact Hx). reflexivity.
  - rewrite read_organic_text by (exact I || exact Hx). reflexivity.
  - rewrite pp_kind_bracket. destruct Hwf as [Hi Hm].
    rewrite read_organic_none by (unfold bracket_text; cbn [app]; apply in_by_existsb; vm_compute; reflexivity).
    rewrite read_bracket_text by assumption. reflexivity.
Qed.

(* where no atom starts *)
Lemma read_atom_none x : match x with [] => True | c :: _ => In c (digit_chars ++ [37; 40; 41; 46]%N ++ bond_chars) end -> read_atom x = TNo.
Proof.
  intros Hx. unfold read_atom. rewrite read_organic_none.
  - destruct x as [|c x]; [reflexivity|]. unfold read_bracket, read_star.
    assert (Hc : N.eqb c LB = false /\ N.eqb c STAR = false).
    { assert (Hall : forallb (fun c => negb (N.eqb c LB) && negb (N.eqb c STAR)) (digit_chars ++ [37; 40; 41; 46]%N ++ bond_chars) = true) by (vm_compute; reflexivity).
      rewrite forallb_forall in Hall. specialize (Hall c Hx). apply andb_true_iff in Hall as [H1 H2]. apply negb_true_iff in H1, H2. auto. }
    destruct Hc as [-> ->]. reflexivity.
  - destruct x as [|c x]; [left; reflexivity|]. right. apply in_map.
    assert (Hall : forallb (fun c => existsb (N.eqb c) (digit_chars ++ [37; 40; 41; 46; 42; 91]%N ++ bond_chars)) (digit_chars ++ [37; 40; 41; 46]%N ++ bond_chars) = true) by (vm_compute; reflexivity).
    rewrite forallb_forall in Hall. specialize (Hall c Hx). apply existsb_exists in Hall as [c' [Hin E]]. apply N.eqb_eq in E. subst. exact Hin.
Qed.

(* bonds *)
Lemma bk_eqb_eq a b : bond_kind_eqb a b = true -> a = b. Proof. apply bond_kind_eqb_eq. Qed.
Definition is_explicit (b : bond_kind) : bool := negb (String.eqb (display_bond_kind b) "").
Lemma pp_bond_elided b : is_explicit b = false -> pp_bond b = [].
Proof. unfold is_explicit, pp_bond. intros H. apply negb_false_iff, String.eqb_eq in H. rewrite H. reflexivity. Qed.
Lemma elided_unique : forall b, is_explicit b = false -> elided_value = Some b.
Proof.
  assert (H : forallb (fun b => is_explicit b || opt_eqb bond_kind_eqb elided_value (Some b)) all_bond_kind = true) by (vm_compute; reflexivity).
  intros b Hb. rewrite forallb_forall in H. specialize (H b (all_bond_kind_complete b)). rewrite Hb in H. cbn [orb] in H.
  apply (opt_eqb_eq _ bond_kind_eqb_eq) in H. exact H.
Qed.
(* a bond as printed (possibly nothing), followed by an atom start or a ring-number start *)
Lemma read_bond_text b x : hd_in x (atom_starts ++ digit_chars ++ [37%N]) -> read_bond (pp_bond b ++ x) = (b, length (pp_bond b)).
Proof.
  intros [c [y [-> Hc]]]. destruct body_checks as [_ [_ [H1 [H2 _]]]]. unfold read_bond.
  destruct (is_explicit b) eqn:Eb.
  - rewrite (run_field bond_kind_eqb bk_eqb_eq tree_bond _ _ H1 (pp_bond b) (Some b) (c :: y)); [reflexivity| |apply in_map; exact Hc].
    apply (in_map (fun b => (pp_bond b, Some b))). unfold explicit_bonds. apply filter_In. split; [apply all_bond_kind_complete | exact Eb].
  - rewrite (pp_bond_elided b Eb). cbn [app length].
    pose proof (run_field bond_kind_eqb bk_eqb_eq tree_bond _ _ H2 [] elided_value (c :: y)) as E. cbn [app] in E. rewrite E.
    + rewrite (elided_unique b Eb). reflexivity.
    + left. reflexivity.
    + right. apply in_map. apply in_or_app. apply in_app_or in Hc as [Hc|Hc]; [left; exact Hc|]. apply in_app_or in Hc as [Hc|Hc]; [right; apply in_or_app; left; exact Hc|].
      destruct Hc as [<-|[]]. right. apply in_or_app. right. left. reflexivity.
Qed.
Lemma read_bond_none x : match x with [] => True | c :: _ => In c (atom_starts ++ digit_chars ++ [37; 40; 41; 46]%N) end ->
  exists e, elided_value = Some e /\ read_bond x = (e, 0).
Proof.
  intros Hx. destruct body_checks as [_ [_ [_ [H2 _]]]]. unfold read_bond.
  assert (He : exists e, elided_value = Some e) by (vm_compute; eexists; reflexivity). destruct He as [e He]. exists e. split; [exact He|].
  pose proof (run_field bond_kind_eqb bk_eqb_eq tree_bond _ _ H2 [] elided_value x) as E. cbn [app] in E. rewrite E.
  - rewrite He. reflexivity.
  - left. reflexivity.
  - destruct x as [|c x]; [left; reflexivity | right; apply in_map; exact Hx].
Qed.
(* ring numbers *)
Definition rnum_text (r : rnum) : list char := chars (display_rnum r).
Lemma read_rnum_text r x : follows x -> read_rnum (rnum_text r ++ x) = TOk (rnum_number r) (length (rnum_text r)).
Proof.
  intros Hx. destruct body_checks as [_ [_ [_ [_ [H _]]]]]. unfold read_rnum.
  rewrite (run_field rnum_eqb (fun a b => proj1 (rnum_eqb_eq a b)) tree_rnum _ _ H (rnum_text r) (Some r) x); [reflexivity| |apply follow_atom_in; exact Hx].
  apply (in_map (fun r => (chars (display_rnum r), Some r))), all_rnum_complete.
Qed.
Lemma read_rnum_none x : match x with [] => True | c :: _ => In c (bond_chars ++ atom_starts ++ [40; 41; 46]%N) end -> read_rnum x = TNo.
Proof.
  intros Hx. destruct body_checks as [_ [_ [_ [_ [_ H]]]]]. unfold read_rnum.
  pose proof (run_field rnum_eqb (fun a b => proj1 (rnum_eqb_eq a b)) tree_rnum _ _ H [] None x) as E. cbn [app] in E.
  rewrite E; [reflexivity | left; reflexivity|].
  destruct x as [|c x]; [left; reflexivity | right; apply in_map; exact Hx].
Qed.
(* numbers and Rnum values *)
Lemma rnum_roundtrip : forall r, rnum_of_number (rnum_number r) = Some r.
Proof.
  assert (H : forallb (fun r => opt_eqb rnum_eqb (rnum_of_number (rnum_number r)) (Some r)) all_rnum = true) by (vm_compute; reflexivity).
  intros r. rewrite forallb_forall in H. apply (opt_eqb_eq _ rnum_eqb_eq). apply H, all_rnum_complete.
Qed.
Lemma rnum_of_small : forall n, (n < 100)%N -> exists r, rnum_of_number n = Some r /\ rnum_number r = n.
Proof.
  assert (H : forallb (fun n => match rnum_of_number n with Some r => N.eqb (rnum_number r) n | None => false end) (N_below 100) = true) by (vm_compute; reflexivity).
  intros n Hn. rewrite forallb_forall in H. specialize (H n (N_below_complete 100 n Hn)). destruct (rnum_of_number n) as [r|]; [|discriminate].
  exists r. split; [reflexivity | apply N.eqb_eq; exact H].
Qed.
Lemma pp_rnum_text n r : rnum_of_number n = Some r -> pp_rnum n = rnum_text r.
Proof. unfold pp_rnum. intros ->. reflexivity. Qed.
