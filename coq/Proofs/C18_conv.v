(* C18 lemmas: the finite checks are closed by vm_compute and lifted to universally quantified statements. *)
From Coq Require Import List String ZArith NArith Bool Arith Lia.
Import ListNotations.
Require Import P.Generated.Enums P.Spec.Values P.Generated.Tables P.Spec.Spelling P.Proofs.Finite P.Checks.C18_defs.
Local Open Scope string_scope.

(* ---------- the finite facts ---------- *)
Lemma charge_checks : bad_charge_of_i8 = [] /\ bad_i8_of_charge = []. Proof. vm_compute. split; reflexivity. Qed.
Lemma vh_checks : bad_vh_of_u8 = [] /\ bad_u8_of_vh = []. Proof. vm_compute. split; reflexivity. Qed.
Lemma rnum_checks : rnum_tiles_ok = true /\ bad_rnum_of_u16 = [] /\ bad_rnum_value = []. Proof. vm_compute. repeat split; reflexivity. Qed.
Lemma number_checks : number_tiles_ok = true /\ bad_number_of_u16 = [] /\ bad_number_of_digits = [] /\ (if digit_lengths_ok then true else false) = true.
Proof. vm_compute. repeat split; reflexivity. Qed.
Lemma bond_checks : bad_reverse = [] /\ bad_order = [] /\ bad_directional = []. Proof. vm_compute. repeat split; reflexivity. Qed.
Lemma symbol_checks : bad_aliphatic_of_element = [] /\ bad_aliphatic_of_aromatic = [] /\ bad_bracket_aromatic = []. Proof. vm_compute. repeat split; reflexivity. Qed.
Lemma text_checks : bad_charge_text = [] /\ bad_vh_text = [] /\ bad_rnum_text = [] /\ bad_number_text = []. Proof. vm_compute. repeat split; reflexivity. Qed.

(* ---------- lifted statements ---------- *)
Lemma opt_charge_eq a b : opt_eqb charge_eqb a b = true -> a = b. Proof. apply (opt_eqb_eq _ charge_eqb_eq). Qed.
Lemma opt_vh_eq a b : opt_eqb virtual_hydrogen_eqb a b = true -> a = b. Proof. apply (opt_eqb_eq _ virtual_hydrogen_eqb_eq). Qed.
Lemma opt_rnum_eq a b : opt_eqb rnum_eqb a b = true -> a = b. Proof. apply (opt_eqb_eq _ rnum_eqb_eq). Qed.

Lemma charge_try_from_exact : forall z, (-128 <= z <= 127)%Z ->
  charge_of_i8 z = charge_spec z /\ (charge_of_i8 z <> None <-> (-15 <= z <= 15 /\ z <> 0)%Z).
Proof.
  intros z Hz. destruct charge_checks as [H _].
  pose proof (filter_nil_in _ _ H z (Z_interval_complete (-128) 256 z ltac:(lia))) as Hc.
  apply andb_true_iff in Hc as [H1 H2]. apply opt_charge_eq in H1. apply Bool.eqb_prop in H2. split; [exact H1|].
  unfold in_charge_range in H2. destruct (charge_of_i8 z); simpl in H2; split; intros Hx; try congruence.
  - symmetry in H2. apply andb_true_iff in H2 as [H2 H3]. apply andb_true_iff in H2 as [H2 H4]. apply negb_true_iff in H3. lia.
  - exfalso. assert (((-15 <=? z) && (z <=? 15) && negb (z =? 0))%Z = true) by (repeat (apply andb_true_iff; split); [lia | lia | apply negb_true_iff; lia]). congruence.
Qed.
Lemma charge_into_inverse : forall c, i8_of_charge c = charge_value c /\ charge_of_i8 (i8_of_charge c) = Some c.
Proof.
  intros c. destruct charge_checks as [_ H]. pose proof (filter_nil_all _ _ all_charge_complete H c) as Hc.
  apply andb_true_iff in Hc as [H1 H2]. apply Z.eqb_eq in H1. apply opt_charge_eq in H2. auto.
Qed.
Lemma charge_injective : forall z1 z2 c, (-128 <= z1 <= 127)%Z -> (-128 <= z2 <= 127)%Z -> charge_of_i8 z1 = Some c -> charge_of_i8 z2 = Some c -> z1 = z2.
Proof.
  intros z1 z2 c H1 H2 E1 E2. destruct (charge_try_from_exact z1 H1) as [S1 _]. destruct (charge_try_from_exact z2 H2) as [S2 _].
  rewrite E1 in S1. rewrite E2 in S2. unfold charge_spec in *. symmetry in S1, S2. apply find_some in S1 as [_ S1]. apply find_some in S2 as [_ S2].
  apply Z.eqb_eq in S1, S2. congruence.
Qed.
Lemma vh_try_from_exact : forall n, (n < 256)%N -> vh_of_u8 n = vh_spec n /\ (vh_of_u8 n <> None <-> (n < 10)%N).
Proof.
  intros n Hn. destruct vh_checks as [H _].
  pose proof (filter_nil_in _ _ H n (N_below_complete 256 n ltac:(lia))) as Hc.
  apply andb_true_iff in Hc as [H1 H2]. apply opt_vh_eq in H1. apply Bool.eqb_prop in H2. split; [exact H1|].
  destruct (vh_of_u8 n); simpl in H2; split; intros Hx; try congruence.
  - symmetry in H2. apply N.ltb_lt in H2. exact H2.
  - exfalso. apply N.ltb_lt in Hx. congruence.
Qed.
Lemma vh_into_inverse : forall h, u8_of_vh h = vh_value h /\ vh_of_u8 (u8_of_vh h) = Some h.
Proof.
  intros h. destruct vh_checks as [_ H]. pose proof (filter_nil_all _ _ all_virtual_hydrogen_complete H h) as Hc.
  apply andb_true_iff in Hc as [H1 H2]. apply N.eqb_eq in H1. apply opt_vh_eq in H2. auto.
Qed.
Lemma rnum_try_from_exact : forall n, (n < 65536)%N -> rnum_of_u16 n = rnum_spec n.
Proof.
  intros n Hn. destruct rnum_checks as [Ht [Hb _]].
  destruct (seg_lookup_spec _ (fun n o => o = rnum_spec n) rnum_of_u16_segments 0 65536 Ht) with (n := n) as [v [Hv Hq]]; [|lia|].
  - apply Forall_forall. intros [[lo hi] o] Hin k Hk. pose proof (filter_nil_in _ _ Hb _ Hin) as Hs. cbn [rnum_seg_ok] in Hs.
    destruct (hi <? 100)%N eqn:E.
    + apply andb_true_iff in Hs as [H1 H2]. apply N.eqb_eq in H1. apply opt_rnum_eq in H2. subst hi. assert (k = lo) as -> by lia. exact H2.
    + apply andb_true_iff in Hs as [H1 H2]. apply N.leb_le in H1. apply opt_rnum_eq in H2. subst o. unfold rnum_spec.
      destruct (k <? 100)%N eqn:E2; [apply N.ltb_lt in E2; lia | reflexivity].
  - unfold rnum_of_u16. rewrite Hv. exact Hq.
Qed.
Lemma rnum_value_inverse : forall r, (rnum_value r < 100)%N /\ rnum_of_u16 (rnum_value r) = Some r.
Proof.
  intros r. destruct rnum_checks as [_ [_ H]]. pose proof (filter_nil_all _ _ all_rnum_complete H r) as Hc.
  apply andb_true_iff in Hc as [H1 H2]. apply opt_rnum_eq in H1. apply N.ltb_lt in H2. auto.
Qed.
Lemma rnum_range_injective : forall n, (n < 65536)%N ->
  (rnum_of_u16 n <> None <-> (n < 100)%N) /\ forall r, rnum_of_u16 n = Some r -> rnum_value r = n.
Proof.
  intros n Hn. rewrite (rnum_try_from_exact n Hn). unfold rnum_spec. destruct (n <? 100)%N eqn:E.
  - apply N.ltb_lt in E. split.
    + split; [auto|]. intros _. destruct (find _ all_rnum) eqn:F; [congruence|]. exfalso.
      (* every n < 100 is the value of some Rnum: checked through the inverse direction on all 100 values *)
      assert (Hall : forallb (fun k => is_some (find (fun r => N.eqb (rnum_value r) k) all_rnum)) (N_below 100) = true) by (vm_compute; reflexivity).
      rewrite forallb_forall in Hall. specialize (Hall n (N_below_complete 100 n ltac:(lia))). rewrite F in Hall. discriminate.
    + intros r Hr. apply find_some in Hr as [_ Hr]. apply N.eqb_eq in Hr. exact Hr.
  - apply N.ltb_ge in E. split; [split; [congruence | lia] | congruence].
Qed.
Lemma number_try_from_exact : forall n, (n < 65536)%N -> number_of_u16 n = number_spec n.
Proof.
  intros n Hn. destruct number_checks as [Ht [Hb _]].
  destruct (seg_lookup_spec _ (fun n o => o = number_spec n) number_of_u16_segments 0 65536 Ht) with (n := n) as [v [Hv Hq]]; [|lia|].
  - apply Forall_forall. intros [[lo hi] o] Hin k Hk. pose proof (filter_nil_in _ _ Hb _ Hin) as Hs. cbn [number_seg_ok] in Hs. unfold number_spec.
    destruct (hi <? 1000)%N eqn:E.
    + apply num_out_eqb_eq in Hs. apply N.ltb_lt in E. destruct (k <? 1000)%N eqn:E2; [exact Hs | apply N.ltb_ge in E2; lia].
    + apply andb_true_iff in Hs as [H1 H2]. apply N.leb_le in H1. apply num_out_eqb_eq in H2.
      destruct (k <? 1000)%N eqn:E2; [apply N.ltb_lt in E2; lia | exact H2].
  - unfold number_of_u16. rewrite Hv. exact Hq.
Qed.
(* every digit string of 1..5 characters: accepted, with its own value, exactly when that value is below 1000 *)
Lemma number_of_digits_exact : forall len v, (1 <= len <= 5)%nat -> (v < 10 ^ N.of_nat len)%N -> number_of_digits len v = number_spec v.
Proof.
  intros len v Hl Hv. destruct number_checks as [_ [_ [Hb Hd]]].
  destruct digit_lengths_ok as [Hlen|]; [|discriminate]. unfold number_of_digits.
  assert (Hf : exists segs, find (fun p => Nat.eqb (fst p) len) number_of_digits_segments = Some (len, segs) /\ In (len, segs) number_of_digits_segments).
  { destruct (find (fun p => Nat.eqb (fst p) len) number_of_digits_segments) as [[l segs]|] eqn:F.
    - pose proof (find_some _ _ F) as [Hin He]. apply Nat.eqb_eq in He. simpl in He. subst l. exists segs. auto.
    - exfalso. assert (In len (map fst number_of_digits_segments)) as Hin by (rewrite Hlen; simpl; lia).
      apply in_map_iff in Hin as [[l s] [E Hin]]. simpl in E. subst l. pose proof (find_none _ _ F _ Hin) as Hn. simpl in Hn. rewrite Nat.eqb_refl in Hn. discriminate. }
  destruct Hf as [segs [-> Hin]]. pose proof (filter_nil_in _ _ Hb _ Hin) as Hs. cbn [fst snd] in Hs. apply andb_true_iff in Hs as [Ht Hall].
  destruct (seg_lookup_spec _ (fun n o => o = number_spec n) segs 0 (10 ^ N.of_nat len) Ht) with (n := v) as [o [Ho Hq]]; [|lia|].
  - apply Forall_forall. intros [[lo hi] o] Hin2 k Hk. rewrite forallb_forall in Hall. pose proof (Hall _ Hin2) as Hs. cbn [number_seg_ok] in Hs. unfold number_spec.
    destruct (hi <? 1000)%N eqn:E.
    + apply num_out_eqb_eq in Hs. apply N.ltb_lt in E. destruct (k <? 1000)%N eqn:E2; [exact Hs | apply N.ltb_ge in E2; lia].
    + apply andb_true_iff in Hs as [H1 H2]. apply N.leb_le in H1. apply num_out_eqb_eq in H2.
      destruct (k <? 1000)%N eqn:E2; [apply N.ltb_lt in E2; lia | exact H2].
  - rewrite Ho. exact Hq.
Qed.
Lemma bond_kind_facts : forall k,
  reverse_bond_kind (reverse_bond_kind k) = k /\ reverse_bond_kind k = up_down k /\ order_bond_kind k = order_spec k /\
  directional_bond_kind k = negb (bond_kind_eqb (up_down k) k).
Proof.
  intros k. destruct bond_checks as [H1 [H2 H3]].
  pose proof (filter_nil_all _ _ all_bond_kind_complete H1 k) as A. pose proof (filter_nil_all _ _ all_bond_kind_complete H2 k) as B.
  pose proof (filter_nil_all _ _ all_bond_kind_complete H3 k) as C.
  apply andb_true_iff in A as [A1 A2]. apply bond_kind_eqb_eq in A1, A2. apply N.eqb_eq in B. apply Bool.eqb_prop in C. auto.
Qed.
Lemma symbol_conversions_keep_element :
  (forall e a, aliphatic_of_element e = Some a -> name_aliphatic a = name_element e) /\
  (forall e, aliphatic_of_element e = None -> forall a, name_aliphatic a <> name_element e) /\
  (forall a, name_aliphatic (aliphatic_of_aromatic a) = name_aromatic a) /\
  (forall b, name_element (element_of_bracket_aromatic b) = name_bracket_aromatic b) /\
  (forall b a, aromatic_of_bracket_aromatic b = Some a -> name_aromatic a = name_bracket_aromatic b) /\
  (forall b, aromatic_of_bracket_aromatic b = None -> forall a, name_aromatic a <> name_bracket_aromatic b).
Proof.
  destruct symbol_checks as [H1 [H2 H3]].
  pose proof (filter_nil_all _ _ all_element_complete H1) as A. pose proof (filter_nil_all _ _ all_aromatic_complete H2) as B.
  pose proof (filter_nil_all _ _ all_bracket_aromatic_complete H3) as C. cbv beta in A, B, C. repeat split.
  - intros e a E. specialize (A e). rewrite E in A. apply String.eqb_eq in A. exact A.
  - intros e E a Hn. specialize (A e). rewrite E in A. apply negb_true_iff in A.
    assert (existsb (fun a => String.eqb (name_aliphatic a) (name_element e)) all_aliphatic = true) by (apply existsb_exists; exists a; split; [apply all_aliphatic_complete | apply String.eqb_eq; exact Hn]). congruence.
  - intros a. specialize (B a). apply String.eqb_eq in B. exact B.
  - intros b. specialize (C b). apply andb_true_iff in C as [C _]. apply String.eqb_eq in C. exact C.
  - intros b a E. specialize (C b). apply andb_true_iff in C as [_ C]. rewrite E in C. apply String.eqb_eq in C. exact C.
  - intros b E a Hn. specialize (C b). apply andb_true_iff in C as [_ C]. rewrite E in C. apply negb_true_iff in C.
    assert (existsb (fun a => String.eqb (name_aromatic a) (name_bracket_aromatic b)) all_aromatic = true) by (apply existsb_exists; exists a; split; [apply all_aromatic_complete | apply String.eqb_eq; exact Hn]). congruence.
Qed.
Lemma text_shows_the_integer :
  (forall c, display_charge c = spelling_charge c) /\ (forall h, display_virtual_hydrogen h = spelling_virtual_hydrogen h) /\
  (forall r, display_rnum r = spelling_rnum r) /\ (forall p, In p display_number_samples -> snd p = dec (fst p)).
Proof.
  destruct text_checks as [H1 [H2 [H3 H4]]]. repeat split.
  - intros c. apply String.eqb_eq. apply (filter_nil_all _ _ all_charge_complete H1).
  - intros c. apply String.eqb_eq. apply (filter_nil_all _ _ all_virtual_hydrogen_complete H2).
  - intros c. apply String.eqb_eq. apply (filter_nil_all _ _ all_rnum_complete H3).
  - intros p Hp. apply String.eqb_eq. apply (filter_nil_in _ _ H4 p Hp).
Qed.

(* String -> Number outside the tabulated domain: every probed string (long digit strings, signs, blanks, non-ASCII
   numerals, random strings; a finite list dumped on every run) converts as the unbounded specification says *)
Lemma number_string_spec_range : forall s v, number_string_spec s = Some v -> (v < 1000)%N.
Proof.
  intros s v. unfold number_string_spec. destruct (match s with 43%N :: t => t | _ => s end) as [|c body]; [discriminate|].
  destruct (forallb is_digit_cp (c :: body)); [|discriminate].
  destruct (N.ltb_spec (digits_value (c :: body)) 1000); [|discriminate]. intros E; inversion E; subst; assumption.
Qed.
Lemma number_of_probed_strings : forall s r, In (s, r) number_of_string_probes ->
  exists o, r = Some o /\ opt_eqb N.eqb o (number_string_spec s) = true.
Proof.
  assert (H : bad_number_of_string = []) by (vm_compute; reflexivity).
  intros s r Hin. pose proof (filter_nil_in _ _ H _ Hin) as Hc. cbn [fst snd] in Hc.
  destruct r as [o|]; [|discriminate]. exists o. split; [reflexivity | exact Hc].
Qed.
