(* C14, graph level, part 2: facts about ONE graph that the equivariance proof needs on both sides of the simulation:
   the step of the traversal as a function of the top of the stack (from D1.wstep_spec), the walk-side invariant at a
   component root and at the initial state (the walk halves of D5.sim_root / D6.Inv0), and what the ghost clause [Fut]
   of DfsOrder.v says about the visited list: it is always a prefix of the specification's depth-first order. *)
From Coq Require Import List NArith Lia Bool Arith.
Import ListNotations.
Require Import P.Generated.Enums P.Spec.Values P.Generated.Tables P.Model.Base P.Model.Pool P.Proofs.PoolSpec P.Model.Walk P.Model.Builder
  P.Proofs.D0 P.Proofs.D1 P.Proofs.D3 P.Proofs.D2 P.Proofs.D4 P.Proofs.D5 P.Proofs.D6 P.Proofs.D7 P.Spec.Roundtrip P.Proofs.DfsOrder.

(* ================= list lemmas ================= *)
Lemma app_eq_len {A} : forall (a a' b b' : list A), length a = length a' -> a ++ b = a' ++ b' -> a = a' /\ b = b'.
Proof.
  induction a as [|x a IH]; intros [|x' a'] b b' Hl H; cbn in *; try discriminate; [split; [reflexivity | exact H]|].
  inversion H; subst. destruct (IH a' b b') as [-> ->]; [lia | assumption | split; reflexivity].
Qed.
Lemma map_eq_in {A B} (f h : A -> B) : forall l, map f l = map h l -> forall x, In x l -> f x = h x.
Proof.
  induction l as [|a l IH]; intros H x Hx; [contradiction|]. cbn [map] in H. inversion H as [[H1 H2]].
  destruct Hx as [->|Hx]; [exact H1 | apply IH; assumption].
Qed.
Lemma split_unique {A} (a : A) : forall l1 l2 l1' l2', ~ In a l1 -> ~ In a l1' -> l1 ++ a :: l2 = l1' ++ a :: l2' -> l1 = l1' /\ l2 = l2'.
Proof.
  induction l1 as [|b l1 IH]; intros l2 [|b' l1'] l2' H1 H2 E; cbn [app] in E.
  - inversion E. split; reflexivity.
  - inversion E; subst. exfalso. apply H2. left. reflexivity.
  - inversion E; subst. exfalso. apply H1. left. reflexivity.
  - inversion E; subst. destruct (IH l2 l1' l2') as [-> ->]; [intros H; apply H1; right; exact H | intros H; apply H2; right; exact H | assumption | split; reflexivity].
Qed.
Lemma index_map_seq : forall (L E : list nat), NoDup (L ++ E) -> map (fun x => index_of x (L ++ E)) L = seq 0 (length L).
Proof.
  induction L as [|a L IH]; intros E Hnd; [reflexivity|]. cbn [app] in Hnd. inversion Hnd as [|? ? Hn Hnd']; subst.
  cbn [app map length seq index_of]. rewrite Nat.eqb_refl. f_equal. rewrite <- seq_shift, <- (IH E Hnd'), map_map.
  apply map_ext_in. intros x Hx. destruct (Nat.eqb_spec a x) as [->|Hne]; [|reflexivity].
  exfalso. apply Hn. apply in_or_app. left. exact Hx.
Qed.
Lemma outer_skip : forall l1 l2 fuel size s, (forall i, In i l1 -> nth i (rem s) None = None) -> outer (l1 ++ l2) fuel size s = outer l2 fuel size s.
Proof.
  induction l1 as [|i l1 IH]; intros l2 fuel size s H; [reflexivity|]. cbn [app outer]. rewrite (H i (or_introl eq_refl)).
  apply IH. intros j Hj. apply H. right. exact Hj.
Qed.
Lemma step_done_fn size s : stk s = [] -> step size s = Done s.
Proof. intros H. unfold step. rewrite H. reflexivity. Qed.

Section Single.
Variable g : list atom.
Notation n := (length g).
Notation bonds_of := (bonds_of g).
Notation atom_at := (atom_at g).
Notation nonback := (nonback g).
Notation processed := (processed g).
Notation pending := (pending g).
Notation wsim := (wsim g).
Notation top_facts := (top_facts g).

Hypothesis wf_range : forall x b, x < n -> In b (bonds_of x) -> tid b < n /\ tid b <> x.
Hypothesis wf_nodup : forall x, x < n -> NoDup (map tid (bonds_of x)).
Hypothesis wf_sym : forall x b, x < n -> In b (bonds_of x) ->
  exists b', find_to x (bonds_of (tid b)) = Some b' /\ bk b' = reverse (bk b).
Hypothesis safe_kinds : forall x, safe (akind (atom_at x)).

(* ================= one step, as a function of the top of the stack ================= *)
Lemma step_extend_fn gh s x b rest : wsim gh s -> stk s = (x, b) :: rest -> ~ In (tid b) (order gh) ->
  exists pre post b', top_facts gh s x b rest pre post /\ find_to x (bonds_of (tid b)) = Some b' /\
    step n s = Cont {| rem := set_nth (rem s) (tid b) None;
                       stk := map (pair (tid b)) (remove_first_to x (bonds_of (tid b))) ++ rest;
                       chain := tid b :: x :: post; wpool := wpool s;
                       evs := EExtend (bk b) (walk_kind g x (tid b)) :: popped s pre |}.
Proof.
  intros W Hs Hnin. pose proof (wstep_spec g wf_range wf_nodup wf_sym safe_kinds gh s W) as H.
  inversion H as [Hs0 Heq | x0 b0 rest0 pre post b' T Hn Hf Hk Heq | x0 b0 rest0 pre post r p' T Hin Hh Heq | x0 b0 rest0 pre post s'' k T Hin Hh Hk Heq].
  - rewrite Hs in Hs0. discriminate.
  - pose proof T as [Es _]. rewrite Hs in Es. inversion Es; subst x0 b0 rest0.
    exists pre, post, b'. split; [exact T|]. split; [exact Hf | reflexivity].
  - pose proof T as [Es _]. rewrite Hs in Es. inversion Es; subst x0 b0 rest0. contradiction.
  - pose proof T as [Es _]. rewrite Hs in Es. inversion Es; subst x0 b0 rest0. contradiction.
Qed.
Lemma step_join_fn gh s x b rest : wsim gh s -> stk s = (x, b) :: rest -> In (tid b) (order gh) ->
  exists pre post, top_facts gh s x b rest pre post /\
    match hit (wpool s) x (tid b) with
    | POk r p' => step n s = Cont {| rem := rem s; stk := rest; chain := x :: post; wpool := p'; evs := EJoin (bk b) r :: popped s pre |}
    | _ => exists k s'', step n s = Stop (WPanic k) s''
    end.
Proof.
  intros W Hs Hin0. pose proof (wstep_spec g wf_range wf_nodup wf_sym safe_kinds gh s W) as H.
  inversion H as [Hs0 Heq | x0 b0 rest0 pre post b' T Hn Hf Hk Heq | x0 b0 rest0 pre post r p' T Hin Hh Heq | x0 b0 rest0 pre post s'' k T Hin Hh Hk Heq].
  - rewrite Hs in Hs0. discriminate.
  - pose proof T as [Es _]. rewrite Hs in Es. inversion Es; subst x0 b0 rest0. contradiction.
  - pose proof T as [Es _]. rewrite Hs in Es. inversion Es; subst x0 b0 rest0.
    exists pre, post. split; [exact T|]. rewrite Hh. reflexivity.
  - pose proof T as [Es _]. rewrite Hs in Es. inversion Es; subst x0 b0 rest0.
    exists pre, post. split; [exact T|]. destruct Hh as [Hh|Hh]; rewrite Hh; exists k, s''; reflexivity.
Qed.

(* ================= the walk-side invariant at a component root and at the start ================= *)
Lemma wsim_root gh s id root :
  wsim gh s -> stk s = [] -> id < n -> nth id (rem s) None = Some root ->
  root = atom_at id /\ ~ In id (order gh) /\ wsim (gh_root gh id) (start_root s id root).
Proof.
  intros W Hstk Hid Hroot.
  rewrite (ws_rem g gh s W id Hid) in Hroot. destruct (in_dec Nat.eq_dec id (order gh)) as [Hi|Hnin]; [discriminate|].
  inversion Hroot; subst root. split; [reflexivity|]. split; [exact Hnin|].
  set (gh' := gh_root gh id).
  destruct (ws_fresh g gh s W id Hnin) as [Hc0 Hp0].
  assert (Hord : forall z, In z (order gh') <-> In z (order gh) \/ z = id).
  { intros z. cbn [gh' gh_root order]. rewrite in_app_iff. simpl. intuition. }
  assert (Hnb : forall z, nonback gh' z = nonback gh z) by reflexivity.
  assert (Hpe : forall z, pending gh' z = pending gh z) by reflexivity.
  assert (Hpr : forall z, processed gh' z = processed gh z) by reflexivity.
  assert (Hdone : forall z, In z (order gh) -> cnt gh z = length (nonback gh z)).
  { intros z Hz. destruct (in_dec Nat.eq_dec z (chain s)) as [Hzc|Hzc]; [|apply (ws_done g gh s W z Hz Hzc)].
    pose proof (ws_stk g gh s W) as Hs. rewrite Hstk in Hs. symmetry in Hs.
    assert (Hseg : seg g gh z = []).
    { clear -Hs Hzc. induction (chain s) as [|a l IH]; [contradiction|]. cbn [flat_map] in Hs. apply app_eq_nil in Hs as [H1 H2].
      destruct Hzc as [->|Hzc]; [exact H1 | apply IH; assumption]. }
    unfold seg in Hseg. apply map_eq_nil in Hseg. unfold D1.pending in Hseg. apply skipn_nil_len in Hseg. pose proof (ws_cnt g gh s W z). lia. }
  constructor; cbn [start_root rem stk chain].
  + rewrite set_nth_length. apply (ws_len g gh s W).
  + intros z Hz. destruct (Nat.eq_dec z id) as [->|Hzi].
    * rewrite nth_set_nth_same by (rewrite (ws_len g gh s W); exact Hid).
      destruct (in_dec Nat.eq_dec id (order gh')) as [_|Hn]; [reflexivity|]. exfalso. apply Hn. apply Hord. right. reflexivity.
    * rewrite nth_set_nth_other by (intros E; apply Hzi; symmetry; exact E). rewrite (ws_rem g gh s W z Hz).
      destruct (in_dec Nat.eq_dec z (order gh)) as [Hi|Hi], (in_dec Nat.eq_dec z (order gh')) as [Hi'|Hi']; try reflexivity.
      -- exfalso. apply Hi'. apply Hord. left. exact Hi.
      -- exfalso. apply Hord in Hi' as [Hi'|Hi']; [exact (Hi Hi') | exact (Hzi Hi')].
  + cbn [flat_map]. rewrite app_nil_r. unfold seg. rewrite Hpe. unfold D1.pending, D1.nonback. rewrite Hc0, Hp0. reflexivity.
  + intros z Hzo Hzc. change (cnt gh' z) with (cnt gh z). rewrite Hnb. apply Hord in Hzo as [Hzo|Hzo]; [apply Hdone; exact Hzo|].
    exfalso. apply Hzc. left. symmetry. exact Hzo.
  + intros z. apply (ws_cnt g gh s W).
  + intros z [<-|[]]. apply Hord. right. reflexivity.
  + cbn [gh' gh_root order]. apply NoDup_app_intro; [apply (ws_nd g gh s W) | constructor; [intros []|constructor] | intros z Hz [<-|[]]; exact (Hnin Hz)].
  + constructor; [intros []|constructor].
  + intros z Hz. apply Hord in Hz as [Hz| ->]; [apply (ws_rng g gh s W z Hz) | exact Hid].
  + intros z p Hp. destruct (ws_par g gh s W z p Hp) as [H1 [H2 H3]]. split; [apply Hord; left; exact H1|]. split; [apply Hord; left; exact H2 | exact H3].
  + intros z c Hzo Hc. rewrite Hpr in Hc. apply Hord in Hzo as [Hzo|Hzo].
    * apply Hord. left. apply (ws_proc g gh s W z c Hzo Hc).
    * subst z. unfold D1.processed in Hc. rewrite Hc0 in Hc. simpl in Hc. contradiction.
  + intros z Hz. apply (ws_fresh g gh s W z). intros H. apply Hz. apply Hord. left. exact H.
  + apply (ws_child g gh s W).
Qed.

Lemma wsim0 : wsim gh0 (state0 g).
Proof.
  constructor; cbn [state0 gh0 rem stk chain order par cnt].
  + apply map_length.
  + intros x Hx. destruct (in_dec Nat.eq_dec x []) as [[]|_].
    rewrite nth_indep with (d' := Some dummy_atom) by (rewrite map_length; exact Hx).
    rewrite map_nth. reflexivity.
  + reflexivity.
  + intros x [].
  + intros x. lia.
  + intros x [].
  + constructor.
  + constructor.
  + intros x [].
  + intros x p H. discriminate.
  + intros x b [].
  + intros x _. split; reflexivity.
  + intros y p H. discriminate.
Qed.

(* ================= the ghost clause Fut ================= *)
Lemma fut0 : Fut g (seq 0 n) gh0 (state0 g).
Proof. reflexivity. Qed.
Lemma fut_root ids gh s id : wsim gh s -> Fut g (id :: ids) gh s -> stk s = [] -> ~ In id (order gh) ->
  Fut g ids (gh_root gh id) (start_root s id (atom_at id)).
Proof.
  intros W HF Hstk Hnin.
  unfold Fut in *. cbn [start_root chain resume length]. rewrite (resume_done g gh s _ W Hstk) in HF.
  cbn [roots fold_left] in HF. fold (roots g ids) in HF. rewrite <- HF. f_equal.
  destruct (ws_fresh g gh s W id Hnin) as [Hc0 Hp0].
  rewrite dfs_new by (rewrite vis_of_fst; exact Hnin). rewrite Nat.sub_0_r.
  assert (Hv : vis_of (gh_root gh id) = vis_of gh ++ [(id, None)]).
  { unfold vis_of. cbn [gh_root order par]. rewrite map_app. cbn [map]. rewrite Hp0. reflexivity. }
  rewrite Hv. f_equal.
  change (pending (gh_root gh id) id) with (pending gh id). unfold D1.pending, D1.nonback. rewrite Hc0, Hp0. reflexivity.
Qed.
Lemma fut_skip ids gh s id : wsim gh s -> Fut g (id :: ids) gh s -> stk s = [] -> In id (order gh) -> Fut g ids gh s.
Proof.
  intros W HF Hstk Hin. unfold Fut in *. rewrite (resume_done g gh s _ W Hstk) in *. cbn [roots fold_left] in HF. fold (roots g ids) in HF.
  rewrite dfs_seen in HF; [exact HF|]. rewrite vis_of_fst. exact Hin.
Qed.
Lemma fut_done gh s : wsim gh s -> Fut g [] gh s -> stk s = [] -> vis_of gh = dfs_all g.
Proof. intros W HF Hstk. unfold Fut in HF. rewrite (resume_done g gh s _ W Hstk) in HF. exact HF. Qed.

(* the specification's search only appends, so what has been visited is a prefix of the final order *)
Lemma fold_extends {A B} (F : list A -> B -> list A) : (forall v b, exists e, F v b = v ++ e) ->
  forall l v, exists e, fold_left F l v = v ++ e.
Proof.
  intros HF. induction l as [|b l IH]; intros v; [exists []; rewrite app_nil_r; reflexivity|].
  cbn [fold_left]. destruct (HF v b) as [e1 E1]. rewrite E1. destruct (IH (v ++ e1)) as [e2 E2]. exists (e1 ++ e2). rewrite E2, app_assoc. reflexivity.
Qed.
Lemma dfs_list_extends f x l vis : exists e, dfs_list g f x l vis = vis ++ e.
Proof. unfold dfs_list. apply fold_extends. intros v b. apply dfs_extends. Qed.
Lemma resume_extends gh : forall ch vis, exists e, resume g gh ch vis = vis ++ e.
Proof.
  induction ch as [|c ch IH]; intros vis; [exists []; rewrite app_nil_r; reflexivity|]. cbn [resume].
  destruct (dfs_list_extends (n - length ch) c (pending gh c) vis) as [e1 E1]. rewrite E1.
  destruct (IH (vis ++ e1)) as [e2 E2]. exists (e1 ++ e2). rewrite E2, app_assoc. reflexivity.
Qed.
Lemma roots_extends ids vis : exists e, roots g ids vis = vis ++ e.
Proof. unfold roots. apply fold_extends. intros v b. apply dfs_extends. Qed.
Lemma fut_prefix ids gh s : Fut g ids gh s -> exists ext, dfs_all g = vis_of gh ++ ext.
Proof.
  unfold Fut. intros <-. destruct (resume_extends gh (chain s) (vis_of gh)) as [e1 E1]. rewrite E1.
  destruct (roots_extends ids (vis_of gh ++ e1)) as [e2 E2]. exists (e1 ++ e2). rewrite E2, app_assoc. reflexivity.
Qed.
End Single.
