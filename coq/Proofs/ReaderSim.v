(* Model/Reader.v (cursors, error positions, depth) projects onto Model/SimpleReader.v: same verdict class, same events. *)
From Coq Require Import List NArith Lia Bool Arith.
Import ListNotations.
Require Import P.Generated.Enums P.Spec.Values P.Meta.Scan P.Model.Base P.Model.Token P.Model.Reader P.Model.SimpleReader.

Definition er (s : rstate) : st := (rest s, map ev_of (out s)).
Definition eres {A} (r : rres A) : A + sverdict :=
  match r with ROk v => inl v | RFuel => inr VOut | _ => inr VErr end.
Definition sim {A} (x : rres A * rstate) (y : (A + sverdict) * st) : Prop := eres (fst x) = fst y /\ er (snd x) = snd y.

Lemma er_adv s n : er (adv s n) = sadv (er s) n. Proof. reflexivity. Qed.
Lemma er_emit s e : er (emit s e) = semit (er s) (ev_of e). Proof. reflexivity. Qed.
Lemma peek_er s : peek s = speek (er s). Proof. reflexivity. Qed.
Lemma miss_er {A} s : eres (@missing_character A s) = inr VErr. Proof. unfold missing_character. destruct (rest s); reflexivity. Qed.

Lemma sim_link input s : sim (read_link input s) (sread_link input (er s)).
Proof.
  unfold read_link, sread_link, sim. cbn [er fst]. destruct (read_atom (rest s)) as [k n| | | |]; cbn [fst snd eres tok_err]; try (split; reflexivity).
  split; [reflexivity|]. rewrite er_emit, er_adv. destruct input; reflexivity.
Qed.

Section Loop.
Variable rs : option bond_kind -> rstate -> rres (option nat) * rstate.
Variable srs : option bond_kind -> st -> SR * st.
Hypothesis Hrs : forall input s, sim (rs input s) (srs input (er s)).

Lemma sim_branch s : sim (read_branch rs s) (sread_branch srs (er s)).
Proof.
  unfold read_branch, sread_branch. rewrite <- peek_er. destruct (peek s) as [c|]; [|split; reflexivity].
  destruct (N.eqb c LP); [|split; reflexivity].
  rewrite <- er_adv. rewrite <- (peek_er (adv s 1)).
  set (r := match peek (adv s 1) with
            | Some c' => if N.eqb c' DOT then rs None (adv (adv s 1) 1) else let '(b, n) := read_bond (rest (adv s 1)) in rs (Some b) (adv (adv s 1) n)
            | None => let '(b, n) := read_bond (rest (adv s 1)) in rs (Some b) (adv (adv s 1) n) end).
  set (sr := match peek (adv s 1) with
             | Some c' => if N.eqb c' DOT then srs None (sadv (er (adv s 1)) 1) else let '(b, n) := read_bond (fst (er (adv s 1))) in srs (Some b) (sadv (er (adv s 1)) n)
             | None => let '(b, n) := read_bond (fst (er (adv s 1))) in srs (Some b) (sadv (er (adv s 1)) n) end).
  assert (Hr : sim r sr).
  { unfold r, sr. destruct (peek (adv s 1)) as [c'|].
    - destruct (N.eqb c' DOT); [apply Hrs|]. cbn [er fst]. destruct (read_bond (rest (adv s 1))) as [b n]. apply Hrs.
    - cbn [er fst]. destruct (read_bond (rest (adv s 1))) as [b n]. apply Hrs. }
  destruct r as [x s2]. destruct sr as [y t2]. destruct Hr as [H1 H2]. cbn [fst snd] in H1, H2. subst t2.
  destruct x as [[len|]| | | |]; cbn [eres] in H1; subst y; try (split; reflexivity).
  - rewrite <- peek_er. destruct (peek s2) as [c''|]; [|split; [apply miss_er | reflexivity]].
    destruct (N.eqb c'' RP); [split; reflexivity | split; [apply miss_er | reflexivity]].
  - split; [apply miss_er | reflexivity].
Qed.

Lemma sim_loop : forall g s acc, sim (loop rs g s acc) (sloop srs g (er s) acc).
Proof.
  induction g as [|g IH]; intros s acc; cbn [loop sloop]; [split; reflexivity|].
  pose proof (sim_branch s) as Hb. destruct (read_branch rs s) as [rb s1]. destruct (sread_branch srs (er s)) as [y t1].
  destruct Hb as [H1 H2]. cbn [fst snd] in H1, H2. subst t1.
  destruct rb as [[|]| | | |]; cbn [eres] in H1; subst y; try (split; reflexivity).
  - apply IH.
  - rewrite <- peek_er. destruct (match peek s1 with Some c => N.eqb c DOT | None => false end).
    + rewrite <- er_adv. pose proof (sim_link None (adv s1 1)) as Hl.
      destruct (read_link None (adv s1 1)) as [rl s2]. destruct (sread_link None (er (adv s1 1))) as [y t2].
      destruct Hl as [H1 H2]. cbn [fst snd] in H1, H2. subst t2.
      destruct rl as [[|]| | | |]; cbn [eres] in H1; subst y; try (split; reflexivity); [apply IH | split; [apply miss_er | reflexivity]].
    + change (fst (er s1)) with (rest s1). destruct (read_bond (rest s1)) as [b n]. rewrite <- er_adv.
      pose proof (sim_link (Some b) (adv s1 n)) as Hl.
      destruct (read_link (Some b) (adv s1 n)) as [rl s2]. destruct (sread_link (Some b) (er (adv s1 n))) as [y t2].
      destruct Hl as [H1 H2]. cbn [fst snd] in H1, H2. subst t2.
      destruct rl as [[|]| | | |]; cbn [eres] in H1; subst y; try (split; reflexivity); [apply IH|].
      change (fst (er s2)) with (rest s2). destruct (read_rnum (rest s2)) as [r m| | | |]; try (split; reflexivity).
      * change (semit (sadv (er s2) m) (EJoin b r)) with (er (emit (adv s2 m) (RJoin b r (pos s1) (pos s2) (pos (adv s2 m))))). apply IH.
      * destruct (bondk_eqb b BK_Elided); [split; reflexivity | split; [apply miss_er | reflexivity]].
Qed.
End Loop.

Lemma sim_smiles : forall f d input s, sim (read_smiles f d input s) (sread_smiles f input (er s)).
Proof.
  induction f as [|f IH]; intros d input s; cbn [read_smiles sread_smiles]; [split; reflexivity|].
  set (s0 := {| rest := rest s; pos := pos s; out := out s; maxd := Nat.max (maxd s) (S d) |}).
  change (er s) with (er s0).
  pose proof (sim_link input s0) as Hl. destruct (read_link input s0) as [rl s1]. destruct (sread_link input (er s0)) as [y t1].
  destruct Hl as [H1 H2]. cbn [fst snd] in H1, H2. subst t1.
  destruct rl as [[|]| | | |]; cbn [eres] in H1; subst y; try (split; reflexivity).
  cbn [er fst]. apply (sim_loop (read_smiles f (S d)) (sread_smiles f) (IH (S d))).
Qed.

Definition accepted (v : verdict) : bool := match v with VOk => true | _ => false end.
Theorem read_projects : forall s, (accepted (fst (rd s)), snd (rd s)) = sread s.
Proof.
  intros s. unfold rd, read, read_from, sread.
  set (s0 := {| rest := s; pos := 0; out := []; maxd := 0 |}).
  pose proof (sim_smiles (S (length s)) 0 None s0) as H. change (er s0) with (s, @nil ev) in H.
  destruct (read_smiles (S (length s)) 0 None s0) as [r s1]. destruct (sread_smiles (S (length s)) None (s, [])) as [y t1].
  destruct H as [H1 H2]. cbn [fst snd] in H1, H2. subst t1. cbn [fst snd r_verdict r_events er].
  rewrite map_rev. f_equal.
  destruct r as [[n|]| | | |]; cbn [eres] in H1; subst y; cbn [accepted]; try reflexivity; destruct (rest s1); reflexivity.
Qed.
