(* C01, text level: write a well-formed graph, read the text, build: the result is the specification's expected graph
   (depth-first renumbering, arrival bond first, tetrahedral mark following the parity) up to the reading shorthands. *)
From Coq Require Import List String NArith Lia Bool Arith.
Import ListNotations.
Require Import P.Generated.Enums P.Spec.Values P.Generated.Tables P.Spec.Events P.Spec.Graph P.Spec.Known P.Spec.Normal P.Spec.Roundtrip P.Model.Base P.Model.Reader P.Model.Writer
  P.Model.Walk P.Model.Builder P.Proofs.WalkInv P.Proofs.WalkPanics P.Proofs.BodyFacts P.Proofs.C09_Writer P.Proofs.C09_Final P.Proofs.C12_Final
  P.Proofs.DfsOrderClosed P.Proofs.BuilderMore P.Proofs.WalkValues.
Local Notation length := List.length.

Lemma bfold_invert_ok : forall h s s', bfold s h = Some s' -> forall b k, In (EExtend b k) h -> invert k <> KPanic.
Proof.
  induction h as [|e t IH]; intros s s' H b k Hin; [contradiction|]. cbn [bfold] in H.
  destruct (bstep s e) as [s1|] eqn:E1; [|discriminate]. destruct Hin as [->|Hin]; [|eapply IH; eassumption].
  cbn [bstep] in E1. destruct (bstack s); [discriminate|]. destruct (invert k); [discriminate | discriminate].
Qed.
Lemma bld_ok_no_known h g : bld h = BOk g -> forall b k, In (EExtend b k) h -> known_invert_panic k = false.
Proof.
  unfold bld. destruct (bfold b0 h) as [s|] eqn:E; [|discriminate]. intros _ b k Hin.
  pose proof (bfold_invert_ok h b0 s E b k Hin) as Hn. destruct (known_invert_panic k) eqn:Ek; [|reflexivity].
  exfalso. apply Hn. apply invert_panic_known. exact Ek.
Qed.

Theorem text_round_trip : forall g h, wf g = true -> safe_graph g -> okg g -> g <> [] -> walk g = (WOk, h) ->
  exists text, wr h = Some text /\ rd text = (VOk, map nkev h) /\ bld (map nkev h) = BOk (map nk_atom (expected_roundtrip g)).
Proof.
  intros g h Hwf Hs Hok Hne Hw.
  pose proof (C12_closed_form g h Hwf Hs Hw) as Hb.
  destruct (C12_from_wf g h Hwf Hs Hw) as [gh [g' [Hb' [Hl _]]]]. rewrite Hb in Hb'. inversion Hb' as [Eg].
  assert (Hconf : conformant h = true).
  { pose proof (walk_safe g) as Hsafe. rewrite Hw in Hsafe. apply Hsafe. }
  assert (Hh : conformant_history h).
  { split; [|exact Hconf]. intros ->. cbn in Hb. inversion Hb as [E0]. rewrite <- E0 in Eg. rewrite <- Eg in Hl. destruct g; [contradiction | discriminate]. }
  pose proof (walk_events_in_range g h WOk Hok Hw) as Hvals.
  destruct (C09_inverse h Hh Hvals) as [text [Hwr Hrd]].
  exists text. split; [exact Hwr|]. split; [exact Hrd|].
  apply build_commutes_with_shorthands; [apply (bld_ok_no_known h _ Hb) | exact Hb].
Qed.
