(* C02 / C10, step 1 of "the builder computes the denotation": a symbolic builder that never resolves a ring closure
   (every join appends a slot and records the token) run on the raw event list of a syntax tree computes exactly pass 1
   of the specification ([collect] of Spec/Denote.v). *)
From Coq Require Import List NArith Lia Bool Arith.
Import ListNotations.
Require Import P.Generated.Enums P.Spec.Values P.Generated.Tables P.Model.Base P.Model.Builder P.Spec.Known
  P.Proofs.C09_Inverse P.Spec.Denote.

(* the event history a syntax tree stands for, kinds as written (C09's [flat] normalises them) *)
Fixpoint flat0 (bd : body) : list ev :=
  match bd with
  | BNil => []
  | BJoin b r rest => EJoin b r :: flat0 rest
  | BBranch l k inner rest => ev_link l k :: flat0 inner ++ EPop (S (len inner)) :: flat0 rest
  | BNext l k rest => ev_link l k :: flat0 rest
  end.

(* ---------- the symbolic builder ---------- *)
Notation snode := (nat * atom_kind * list slot)%type (only parsing).
Record sst := { sstack : list nat; snodes : list snode; srg : list ringocc }.

Fixpoint upd (l : list snode) (i : nat) (sl : list slot) : list snode :=
  match l, i with
  | [], _ => []
  | (a, k, s) :: t, 0 => (a, k, s ++ sl) :: t
  | h :: t, S i => h :: upd t i sl
  end.

Definition sstep (s : sst) (e : ev) : option sst :=
  match e with
  | ERoot k => Some {| sstack := length (snodes s) :: sstack s; snodes := snodes s ++ [(length (snodes s), k, [])]; srg := srg s |}
  | EExtend b k =>
      match sstack s with
      | [] => None
      | sid :: _ =>
          Some {| sstack := length (snodes s) :: sstack s;
                  snodes := upd (snodes s) sid [SNext b (length (snodes s))] ++ [(length (snodes s), adj (LBond b) k, [SPrev b sid])];
                  srg := srg s |}
      end
  | EJoin b r =>
      match sstack s with
      | [] => None
      | sid :: _ =>
          Some {| sstack := sstack s; snodes := upd (snodes s) sid [SRing b (length (srg s))];
                  srg := srg s ++ [(length (srg s), sid, r, b)] |}
      end
  | EPop d => Some {| sstack := skipn d (sstack s); snodes := snodes s; srg := srg s |}
  end.
Fixpoint sfold (s : sst) (h : list ev) : option sst :=
  match h with [] => Some s | e :: t => match sstep s e with None => None | Some s' => sfold s' t end end.

Lemma sfold_app : forall h1 h2 s, sfold s (h1 ++ h2) = match sfold s h1 with Some s1 => sfold s1 h2 | None => None end.
Proof. induction h1 as [|e t IH]; intros h2 s; cbn [sfold app]; [reflexivity|]. destruct (sstep s e); [apply IH | reflexivity]. Qed.

(* ---------- [upd] ---------- *)
Lemma upd_length l : forall i sl, length (upd l i sl) = length l.
Proof. induction l as [|[[a k] s] t IH]; intros [|i] sl; cbn [upd length]; auto. Qed.
Lemma upd_nil l : forall i, upd l i [] = l.
Proof. induction l as [|[[a k] s] t IH]; intros [|i]; cbn [upd]; [reflexivity | reflexivity | rewrite app_nil_r; reflexivity | rewrite IH; reflexivity]. Qed.
Lemma upd_app1 l1 l2 : forall i sl, i < length l1 -> upd (l1 ++ l2) i sl = upd l1 i sl ++ l2.
Proof.
  induction l1 as [|[[a k] s] t IH]; intros i sl H; cbn [length] in H; [lia|]. destruct i as [|i]; cbn [upd app]; [reflexivity|].
  rewrite IH by lia. reflexivity.
Qed.
Lemma upd_mid l1 a k s l2 sl : upd (l1 ++ (a, k, s) :: l2) (length l1) sl = l1 ++ (a, k, s ++ sl) :: l2.
Proof. induction l1 as [|[[a' k'] s'] t IH]; cbn [upd app length]; [reflexivity | rewrite IH; reflexivity]. Qed.
Lemma upd_upd l : forall i s1 s2, upd (upd l i s1) i s2 = upd l i (s1 ++ s2).
Proof.
  induction l as [|[[a k] s] t IH]; intros [|i] s1 s2; cbn [upd]; [reflexivity | reflexivity | rewrite app_assoc; reflexivity | rewrite IH; reflexivity].
Qed.

(* ---------- one atom token ---------- *)
Definition cur_slot (l : link) (a : nat) : list slot := match l with LBond b => [SNext b a] | LDot => [] end.
Definition new_slot (l : link) (cur : nat) : list slot := match l with LBond b => [SPrev b cur] | LDot => [] end.
Lemma sstep_link l k cur st nodes rg :
  sstep {| sstack := cur :: st; snodes := nodes; srg := rg |} (ev_link l k) =
  Some {| sstack := length nodes :: cur :: st; snodes := upd nodes cur (cur_slot l (length nodes)) ++ [(length nodes, adj l k, new_slot l cur)]; srg := rg |}.
Proof. destruct l as [|b]; cbn [ev_link sstep sstack snodes srg cur_slot new_slot]; [rewrite upd_nil|]; reflexivity. Qed.

(* ---------- step 1: the symbolic builder on the events of a syntax tree is pass 1 of the specification ---------- *)
Lemma sfold_collect : forall bd cur st nodes rg n o sl ats nx oc rg',
  cur < length nodes -> n = length nodes -> o = length rg ->
  collect bd cur n o = (sl, ats, nx, oc, rg') ->
  nx = n + length ats /\ oc = o + length rg' /\
  exists chain, length chain = len bd /\
    sfold {| sstack := cur :: st; snodes := nodes; srg := rg |} (flat0 bd) =
    Some {| sstack := chain ++ cur :: st; snodes := upd nodes cur sl ++ ats; srg := rg ++ rg' |}.
Proof.
  induction bd as [| b r rest IH | l k inner IHi rest IHr | l k rest IH]; intros cur st nodes rg n o sl ats nx oc rg' Hcur Hn Ho Hc; cbn [collect] in Hc.
  - inversion Hc; subst. cbn [length len flat0 sfold]. split; [lia|]. split; [lia|]. exists []. split; [reflexivity|].
    rewrite upd_nil, !app_nil_r. reflexivity.
  - destruct (collect rest cur n (S o)) as [[[[sl1 ats1] nx1] oc1] rg1] eqn:E1. inversion Hc; subst; clear Hc.
    destruct (IH cur st (upd nodes cur [SRing b (length rg)]) (rg ++ [(length rg, cur, r, b)]) (length nodes) (S (length rg)) _ _ _ _ _
                 ltac:(rewrite upd_length; exact Hcur) ltac:(rewrite upd_length; reflexivity) ltac:(rewrite app_length; cbn; lia) E1)
      as [H1 [H2 [chain [Hl Hf]]]].
    split; [exact H1|]. split; [cbn [length]; lia|]. exists chain. split; [exact Hl|].
    cbn [flat0 sfold sstep sstack snodes srg]. rewrite Hf. rewrite upd_upd, <- app_assoc. reflexivity.
  - destruct (collect inner n (S n) o) as [[[[sla ata] nx1] oc1] rg1] eqn:E1.
    destruct (collect rest cur nx1 oc1) as [[[[sl2 ats2] nx2] oc2] rg2] eqn:E2. inversion Hc; subst; clear Hc.
    set (nodes1 := upd nodes cur (cur_slot l (length nodes)) ++ [(length nodes, adj l k, new_slot l cur)]).
    assert (Hlen1 : length nodes1 = S (length nodes)) by (unfold nodes1; rewrite app_length, upd_length; cbn; lia).
    destruct (IHi (length nodes) (cur :: st) nodes1 rg (S (length nodes)) (length rg) _ _ _ _ _ ltac:(lia) ltac:(lia) eq_refl E1)
      as [H1 [H2 [chain1 [Hl1 Hf1]]]].
    set (nodes2 := upd nodes1 (length nodes) sla ++ ata) in *.
    assert (Hlen2 : length nodes2 = nx1) by (unfold nodes2; rewrite app_length, upd_length, Hlen1; lia).
    destruct (IHr cur st nodes2 (rg ++ rg1) nx1 oc1 _ _ _ _ _ ltac:(lia) ltac:(lia) ltac:(rewrite app_length; lia) E2)
      as [H3 [H4 [chain2 [Hl2 Hf2]]]].
    split; [cbn [length]; rewrite app_length; lia|]. split; [rewrite app_length; lia|].
    exists chain2. split; [exact Hl2|].
    cbn [flat0 sfold]. rewrite sstep_link. fold nodes1. rewrite sfold_app, Hf1. cbn [sfold sstep sstack snodes srg].
    assert (Hpop : skipn (S (len inner)) (chain1 ++ length nodes :: cur :: st) = cur :: st).
    { rewrite <- Hl1. replace (chain1 ++ length nodes :: cur :: st) with ((chain1 ++ [length nodes]) ++ cur :: st) by (rewrite <- app_assoc; reflexivity).
      replace (S (length chain1)) with (length (chain1 ++ [length nodes])) by (rewrite app_length; cbn; lia). apply skipn_app_len. }
    rewrite Hpop. fold nodes2. rewrite Hf2. f_equal. f_equal; [|rewrite app_assoc; reflexivity].
    unfold nodes2, nodes1.
    replace (length nodes) with (length (upd nodes cur (cur_slot l (length nodes)))) at 3 by apply upd_length.
    rewrite upd_mid. rewrite <- app_assoc. rewrite upd_app1 by (rewrite upd_length; exact Hcur). rewrite upd_upd.
    destruct l; cbn [cur_slot new_slot app]; rewrite <- ?app_assoc; reflexivity.
  - destruct (collect rest n (S n) o) as [[[[sla ata] nx1] oc1] rg1] eqn:E1. inversion Hc; subst; clear Hc.
    set (nodes1 := upd nodes cur (cur_slot l (length nodes)) ++ [(length nodes, adj l k, new_slot l cur)]).
    assert (Hlen1 : length nodes1 = S (length nodes)) by (unfold nodes1; rewrite app_length, upd_length; cbn; lia).
    destruct (IH (length nodes) (cur :: st) nodes1 rg (S (length nodes)) (length rg) _ _ _ _ _ ltac:(lia) ltac:(lia) eq_refl E1)
      as [H1 [H2 [chain1 [Hl1 Hf1]]]].
    split; [cbn [length]; lia|]. split; [exact H2|].
    exists (chain1 ++ [length nodes]). split; [rewrite app_length; cbn [length len]; lia|].
    cbn [flat0 sfold]. rewrite sstep_link. fold nodes1. rewrite Hf1. f_equal. f_equal; [rewrite <- app_assoc; reflexivity|].
    unfold nodes1.
    replace (length nodes) with (length (upd nodes cur (cur_slot l (length nodes)))) at 3 by apply upd_length.
    rewrite upd_mid. rewrite <- app_assoc. destruct l; cbn [cur_slot new_slot app]; reflexivity.
Qed.

(* the whole string: root atom first *)
Definition s0 := {| sstack := []; snodes := []; srg := [] |}.
Theorem symbolic_is_collect k0 bd sl0 ats nx oc rg :
  collect bd 0 1 0 = (sl0, ats, nx, oc, rg) ->
  exists chain, sfold s0 (ERoot k0 :: flat0 bd) = Some {| sstack := chain ++ [0]; snodes := (0, k0, sl0) :: ats; srg := rg |}.
Proof.
  intros Hc. destruct (sfold_collect bd 0 [] [(0, k0, [])] [] 1 0 _ _ _ _ _ ltac:(cbn; lia) eq_refl eq_refl Hc) as [_ [_ [chain [_ Hf]]]].
  exists chain. cbn [sfold sstep s0 snodes sstack srg length app]. exact Hf.
Qed.
