(* C10, error half: the classification of build failures as theorems.
   1. the denotation is [DJoin a a0] exactly when the first bad closure (Spec/BuildErrors.v) is completed on atom a and was
      opened on atom a0;  2. it is [DUnmatched occs] exactly when no closure is bad and occs lists, latest first, the
      unmatched tokens, of which there is at least one;  3. it is [DOk _] exactly when neither happens;
   4. through C02: the same for what the builder makes of the events read from an accepted string. *)
From Coq Require Import List NArith Lia Bool Arith Sorted.
Import ListNotations.
Require Import P.Generated.Enums P.Spec.Values P.Generated.Tables P.Meta.Scan P.Generated.Trees P.Spec.Events P.Model.Base P.Model.Token P.Model.Reader
  P.Model.Builder P.Spec.Known P.Proofs.ReaderConf P.Proofs.C09_Inverse P.Proofs.C09_Writer P.Proofs.C09_Final P.Spec.Denote P.Proofs.DenoteSym P.Proofs.DenotePair P.Proofs.DenoteSim
  P.Proofs.DenoteFinal P.Proofs.C02_Final P.Spec.BuildErrors P.Proofs.BuildErrorsRank P.Proofs.BuildErrorsInv.
Strategy opaque [tree_symbol tree_organic tree_configuration tree_charge tree_bond tree_rnum tree_hcount tree_isotope tree_map].
Local Notation length := List.length.

(* ---------- the denotation, classified ---------- *)
Lemma denote_classified k0 bd :
  match denote k0 bd with
  | DJoin a a0 => exists j, first_bad_closure (ring_tokens bd) (tree_bonds bd) j a a0
  | DUnmatched occs => no_bad_closure (ring_tokens bd) (tree_bonds bd) /\ occs <> [] /\ decreasing occs /\
                       forall i, In i occs <-> unmatched (ring_tokens bd) i
  | DOk g => no_bad_closure (ring_tokens bd) (tree_bonds bd) /\ forall i, ~ unmatched (ring_tokens bd) i
  end.
Proof.
  pose proof (ring_tokens_occ bd) as Hocc.
  destruct (collect bd 0 1 0) as [[[[sl0 ats] nx] oc] rg] eqn:Ec.
  rewrite (denote_eq k0 bd _ _ _ _ _ Ec). cbv zeta.
  assert (Erg : ring_tokens bd = rg) by (unfold ring_tokens; rewrite Ec; reflexivity).
  assert (Etr : tree_of ((0, k0, sl0) :: ats) = tree_bonds bd) by (unfold tree_bonds; rewrite Ec; reflexivity).
  rewrite Erg in *. rewrite Etr.
  pose proof (pass2_classified rg (tree_bonds bd) Hocc) as H. cbv zeta in H. unfold fb, st0 in H.
  destruct (find isbad (rev (pres (fold_left pstep rg {| popens := []; pbonded := tree_bonds bd; pres := [] |})))) as [[occ [p k|a a0]]|].
  - destruct H.
  - exists occ. exact H.
  - destruct H as [Hnb [Hs Hu]].
    destruct (popens (fold_left pstep rg {| popens := []; pbonded := tree_bonds bd; pres := [] |})) as [|o os].
    + split; [exact Hnb|]. intros i Hi. apply Hu in Hi. destruct Hi.
    + split; [exact Hnb|]. split; [discriminate|]. split; [exact Hs | exact Hu].
Qed.

(* ---------- what is reported is determined ---------- *)
Lemma first_bad_unique rg tree j a a0 j' a' a0' :
  first_bad_closure rg tree j a a0 -> first_bad_closure rg tree j' a' a0' -> j = j' /\ a = a' /\ a0 = a0'.
Proof.
  intros [Hb [Hf [i [b0 [b C]]]]] [Hb' [Hf' [i' [b0' [b' C']]]]].
  assert (E : j = j').
  { destruct (Nat.lt_trichotomy j j') as [Hlt|[E|Hgt]]; [destruct (Hf' j Hlt Hb) | exact E | destruct (Hf j' Hgt Hb')]. }
  subst j'. destruct (closure_fun rg _ _ _ _ _ _ _ _ _ _ _ C C') as [_ [E0 [_ [Ea _]]]]. auto.
Qed.
Lemma decreasing_unique : forall l l', decreasing l -> decreasing l' -> (forall i, In i l <-> In i l') -> l = l'.
Proof.
  unfold decreasing. induction l as [|x t IH]; intros [|y t'] Hl Hl' Hi.
  - reflexivity.
  - destruct (proj2 (Hi y) (or_introl eq_refl)).
  - destruct (proj1 (Hi x) (or_introl eq_refl)).
  - apply StronglySorted_inv in Hl as [Hs Hf]. apply StronglySorted_inv in Hl' as [Hs' Hf']. rewrite Forall_forall in Hf, Hf'.
    assert (E : x = y).
    { destruct (proj1 (Hi x) (or_introl eq_refl)) as [E|Hx]; [auto|]. destruct (proj2 (Hi y) (or_introl eq_refl)) as [E|Hy]; [auto|].
      pose proof (Hf' x Hx). pose proof (Hf y Hy). lia. }
    subst y. f_equal. apply IH; [exact Hs | exact Hs' |]. intros i. split; intros Hin.
    + destruct (proj1 (Hi i) (or_intror Hin)) as [E|H]; [|exact H]. pose proof (Hf i Hin). lia.
    + destruct (proj2 (Hi i) (or_intror Hin)) as [E|H]; [|exact H]. pose proof (Hf' i Hin). lia.
Qed.

(* ---------- 1, 2, 3 ---------- *)
Theorem denote_join_iff k0 bd a a0 :
  denote k0 bd = DJoin a a0 <-> exists j, first_bad_closure (ring_tokens bd) (tree_bonds bd) j a a0.
Proof.
  pose proof (denote_classified k0 bd) as H. split.
  - intros E. rewrite E in H. exact H.
  - intros [j Hj]. destruct (denote k0 bd) as [g|x y|occs].
    + destruct (proj1 H j (proj1 Hj)).
    + destruct H as [j' Hj']. destruct (first_bad_unique _ _ _ _ _ _ _ _ Hj Hj') as [_ [-> ->]]. reflexivity.
    + destruct (proj1 H j (proj1 Hj)).
Qed.
Theorem denote_unmatched_iff k0 bd occs :
  denote k0 bd = DUnmatched occs <->
  no_bad_closure (ring_tokens bd) (tree_bonds bd) /\ occs <> [] /\ decreasing occs /\ forall i, In i occs <-> unmatched (ring_tokens bd) i.
Proof.
  pose proof (denote_classified k0 bd) as H. split.
  - intros E. rewrite E in H. exact H.
  - intros [Hnb [Hne [Hd Hu]]]. destruct (denote k0 bd) as [g|x y|occs'].
    + destruct occs as [|o os]; [destruct (Hne eq_refl)|]. destruct (proj2 H o). apply Hu. left. reflexivity.
    + destruct H as [j Hj]. destruct (Hnb j (proj1 Hj)).
    + destruct H as [_ [_ [Hd' Hu']]]. f_equal. apply decreasing_unique; [exact Hd' | exact Hd |].
      intros i. rewrite (Hu i), (Hu' i). reflexivity.
Qed.
Theorem denote_ok_iff k0 bd :
  (exists g, denote k0 bd = DOk g) <-> no_bad_closure (ring_tokens bd) (tree_bonds bd) /\ forall i, ~ unmatched (ring_tokens bd) i.
Proof.
  pose proof (denote_classified k0 bd) as H. split.
  - intros [g E]. rewrite E in H. exact H.
  - intros [Hnb Hnu]. destruct (denote k0 bd) as [g|x y|occs].
    + exists g. reflexivity.
    + destruct H as [j Hj]. destruct (Hnb j (proj1 Hj)).
    + destruct H as [_ [Hne [_ Hu]]]. destruct occs as [|o os]; [destruct (Hne eq_refl)|]. destruct (Hnu o). apply Hu. left. reflexivity.
Qed.
(* the three cases exhaust and exclude each other *)
Corollary build_errors_trichotomy bd : let rg := ring_tokens bd in let tree := tree_bonds bd in
  (exists j a a0, first_bad_closure rg tree j a a0) \/
  (no_bad_closure rg tree /\ exists i, unmatched rg i) \/
  (no_bad_closure rg tree /\ forall i, ~ unmatched rg i).
Proof.
  cbv zeta. pose proof (denote_classified AK_Star bd) as H. destruct (denote AK_Star bd) as [g|x y|occs].
  - right. right. exact H.
  - left. destruct H as [j Hj]. exists j, x, y. exact Hj.
  - right. left. destruct H as [Hnb [Hne [_ Hu]]]. split; [exact Hnb|]. destruct occs as [|o os]; [destruct (Hne eq_refl)|].
    exists o. apply Hu. left. reflexivity.
Qed.

(* ---------- 4. the builder ---------- *)
Section Builder.
Variables (h : list ev) (k0 : kind) (bd : body).
Hypothesis Hm : match bld h, denote k0 bd with
                | BOk g, DOk g' => g = g'
                | BErr (Builder.BJoin x y), DJoin x' y' => x = x' /\ y = y'
                | BErr (BRnum rid), DUnmatched occs => In rid occs
                | _, _ => False end.
Let rg := ring_tokens bd.
Let tree := tree_bonds bd.
Lemma builder_classified :
  (forall x y, bld h = BErr (Builder.BJoin x y) <-> exists j, first_bad_closure rg tree j x y) /\
  (forall rid, bld h = BErr (BRnum rid) -> no_bad_closure rg tree /\ unmatched rg rid) /\
  ((exists rid, bld h = BErr (BRnum rid)) <-> no_bad_closure rg tree /\ exists i, unmatched rg i) /\
  ((exists g, bld h = BOk g) <-> no_bad_closure rg tree /\ forall i, ~ unmatched rg i) /\
  bld h <> BPanic.
Proof.
  pose proof (denote_classified k0 bd) as H. fold rg tree in H.
  destruct (bld h) as [g|[x y|rid]|]; destruct (denote k0 bd) as [g'|a a0|occs]; try contradiction.
  - destruct H as [Hnb Hnu]. split; [|split; [|split; [|split]]]; try discriminate.
    + intros x y. split; [discriminate|]. intros [j Hj]. destruct (Hnb j (proj1 Hj)).
    + split; [intros [rid E]; discriminate | intros [_ [i Hi]]; destruct (Hnu i Hi)].
    + split; [auto | intros _; exists g; reflexivity].
  - destruct Hm as [-> ->]. destruct H as [j Hj]. split; [|split; [|split; [|split]]]; try discriminate.
    + intros x y. split.
      * intros E. inversion E; subst. exists j. exact Hj.
      * intros [j' Hj']. destruct (first_bad_unique _ _ _ _ _ _ _ _ Hj Hj') as [_ [-> ->]]. reflexivity.
    + split; [intros [rid E]; discriminate | intros [Hnb _]; destruct (Hnb j (proj1 Hj))].
    + split; [intros [g E]; discriminate | intros [Hnb _]; destruct (Hnb j (proj1 Hj))].
  - destruct H as [Hnb [Hne [_ Hu]]]. apply Hu in Hm. split; [|split; [|split; [|split]]]; try discriminate.
    + intros x y. split; [discriminate|]. intros [j Hj]. destruct (Hnb j (proj1 Hj)).
    + intros rid' E. inversion E; subst. auto.
    + split; [intros _; split; [exact Hnb | exists rid; exact Hm] | intros _; exists rid; reflexivity].
    + split; [intros [g E]; discriminate | intros [_ Hnu]; destruct (Hnu rid Hm)].
Qed.
End Builder.

(* for every conformant event history *)
Theorem history_build_errors_are_real : forall h, conformant_history h ->
  (forall b k, In (EExtend b k) h -> known_invert_panic k = false) ->
  exists k0 bd, syntax_of h = Some (k0, bd) /\ h = ERoot k0 :: flat0 bd /\
    let rg := ring_tokens bd in let tree := tree_bonds bd in
    (forall x y, bld h = BErr (Builder.BJoin x y) <-> exists j, first_bad_closure rg tree j x y) /\
    (forall rid, bld h = BErr (BRnum rid) -> no_bad_closure rg tree /\ unmatched rg rid) /\
    ((exists rid, bld h = BErr (BRnum rid)) <-> no_bad_closure rg tree /\ exists i, unmatched rg i) /\
    ((exists g, bld h = BOk g) <-> no_bad_closure rg tree /\ forall i, ~ unmatched rg i) /\
    bld h <> BPanic.
Proof.
  intros h Hc Hk. destruct (history_builds_the_denotation h Hc Hk) as [k0 [bd [Hs [Hh H]]]].
  exists k0, bd. split; [exact Hs|]. split; [exact Hh|]. exact (builder_classified h k0 bd H).
Qed.
(* for every accepted string *)
Theorem reading_build_errors_are_real : forall s h, rd s = (VOk, h) ->
  (forall b k, In (EExtend b k) h -> known_invert_panic k = false) ->
  exists k0 bd, syntax_of h = Some (k0, bd) /\ h = ERoot k0 :: flat0 bd /\
    let rg := ring_tokens bd in let tree := tree_bonds bd in
    (forall x y, bld h = BErr (Builder.BJoin x y) <-> exists j, first_bad_closure rg tree j x y) /\
    (forall rid, bld h = BErr (BRnum rid) -> no_bad_closure rg tree /\ unmatched rg rid) /\
    ((exists rid, bld h = BErr (BRnum rid)) <-> no_bad_closure rg tree /\ exists i, unmatched rg i) /\
    ((exists g, bld h = BOk g) <-> no_bad_closure rg tree /\ forall i, ~ unmatched rg i) /\
    bld h <> BPanic.
Proof. intros s h Hrd Hk. exact (history_build_errors_are_real h (accepted_has_root s h Hrd) Hk). Qed.

Print Assumptions denote_join_iff.
Print Assumptions denote_unmatched_iff.
Print Assumptions denote_ok_iff.
Print Assumptions build_errors_trichotomy.
Print Assumptions closure_decided.
Print Assumptions history_build_errors_are_real.
Print Assumptions reading_build_errors_are_real.
