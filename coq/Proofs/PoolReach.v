(* C13: every pool state reachable by any sequence of hits satisfies the representation invariant, so the
   refinement statement of PoolSpec applies to every reachable state. *)
From Coq Require Import List NArith Lia Bool Arith.
Import ListNotations.
Require Import P.Model.Base P.Model.Pool P.Proofs.PoolSpec.
Local Open Scope N_scope.

Inductive reach : pool -> Prop :=
| reach0 : reach pool0
| reach_hit p sid tid n p' : reach p -> hit p sid tid = POk n p' -> reach p'.

Lemma reach_pinv p : reach p -> pinv p.
Proof.
  induction 1 as [|p sid tid n p' Hr IH Hh]; [exact pinv0|].
  destruct (lookup (borrowed p) (sid, tid)) as [r|] eqn:El.
  - destruct (hit_close p sid tid r n p' IH El Hh) as [_ [_ H]]. exact H.
  - destruct (hit_open p sid tid n p' IH El Hh) as [_ [_ H]]. exact H.
Qed.

(* the full behavioural statement for reachable states *)
Theorem hit_refines p sid tid : reach p ->
  match lookup (borrowed p) (sid, tid) with
  | None =>
      (N.of_nat (length (borrowed p)) < 99 ->
       exists n p', hit p sid tid = POk n p' /\ min_free (borrowed p) n /\ borrowed p' = ((sid, tid), n) :: borrowed p /\ reach p')
  | Some r => exists p', hit p sid tid = POk r p' /\ borrowed p' = remove (borrowed p) (sid, tid) /\ reach p'
  end.
Proof.
  intros Hr. pose proof (hit_spec p sid tid (reach_pinv p Hr)) as H.
  destruct (lookup (borrowed p) (sid, tid)) as [r|].
  - destruct H as [p' [E [Hb Hp]]]. exists p'. repeat split; try assumption. eapply reach_hit; eassumption.
  - intros Hlt. destruct (H Hlt) as [n [p' [E [Hf [Hb Hp]]]]]. exists n, p'. repeat split; try assumption; try apply Hf. eapply reach_hit; eassumption.
Qed.
(* never a panic while fewer than 99 closures are open, whatever happened before (any total number of rings) *)
Theorem hit_never_runs_out p sid tid : reach p -> N.of_nat (length (borrowed p)) < 99 ->
  exists n p', hit p sid tid = POk n p' /\ n < 100 /\ 1 <= n.
Proof.
  intros Hr Hlt. pose proof (hit_refines p sid tid Hr) as H. pose proof (reach_pinv p Hr) as Hp.
  destruct (lookup (borrowed p) (sid, tid)) as [r|] eqn:El.
  - destruct H as [p' [E _]]. exists r, p'. split; [exact E|].
    assert (In r (nums (borrowed p))) by (eapply lookup_in; exact El).
    split; [apply (pi_small p Hp); assumption | apply (pi_rng p Hp); left; assumption].
  - destruct (H Hlt) as [n [p' [E [Hf _]]]]. exists n, p'. split; [exact E|].
    pose proof (min_free_bound (borrowed p) n (pi_nd p Hp) Hf). destruct Hf as [H1 _]. lia.
Qed.
(* with 99 closures open a hundredth cannot be opened: the documented limit (the implementation panics; see K3) *)
Example pool_limit_is_tight : exists l, length l = 100%nat /\ last (hits pool0 l) (Some 0) = None.
Proof. exists (map (fun i => (i, i + 1000)%nat) (seq 0 100)). split; [reflexivity | vm_compute; reflexivity]. Qed.
