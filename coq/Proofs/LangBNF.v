(* The two presentations of the grammar in Spec/Lang.v define the same language:
   Smiles (the documented productions, one constructor each) and Lang (the flat form: atom followed by items). *)
From Coq Require Import String.
From Coq Require Import List NArith.
Import ListNotations.
Require Import P.Spec.Lang.

Scheme Chain_ind' := Minimality for Chain Sort Prop
with Items_ind' := Minimality for Items Sort Prop
with Item_ind' := Minimality for Item Sort Prop.
Combined Scheme flat_mutind from Chain_ind', Items_ind', Item_ind'.
Scheme Smiles_ind' := Minimality for Smiles Sort Prop
with Bodies_ind' := Minimality for Bodies Sort Prop
with Body_ind' := Minimality for Body Sort Prop
with Branch_ind' := Minimality for Branch Sort Prop.
Combined Scheme bnf_mutind from Smiles_ind', Bodies_ind', Body_ind', Branch_ind'.

Lemma items_app r1 r2 : Items r1 -> Items r2 -> Items (r1 ++ r2).
Proof.
  intros H1 H2. revert r1 H1.
  apply (Items_ind' (fun _ => True) (fun r => Items (r ++ r2)) (fun _ => True)); auto.
  intros i r Hi _ _ IH. rewrite <- app_assoc. apply items_cons; assumption.
Qed.
Lemma items_one i : Item i -> Items i.
Proof. intros H. rewrite <- (app_nil_r i). apply items_cons; [exact H | apply items_nil]. Qed.

Lemma bnf_flat : (forall x, Smiles x -> Chain x) /\ (forall r, Bodies r -> Items r) /\ (forall b, Body b -> Items b) /\ (forall x, Branch x -> Item x).
Proof.
  apply bnf_mutind.
  - intros a r Ha _ Hr. apply chain; assumption.
  - apply items_nil.
  - intros b r _ Hb _ Hr. apply items_app; assumption.
  - intros x _ Hi. apply items_one. exact Hi.
  - intros x _ Hc. destruct Hc as [a r Ha Hr]. rewrite app_assoc. apply items_cons; [apply item_dot; exact Ha | exact Hr].
  - intros b x Hb _ Hc. destruct Hc as [a r Ha Hr]. rewrite app_assoc. apply items_cons; [apply item_atom; assumption | exact Hr].
  - intros b r Hb Hr. apply items_one. apply item_ring; assumption.
  - intros p x Hp _ Hc. apply item_branch; assumption.
Qed.
Lemma flat_bnf : (forall x, Chain x -> Smiles x) /\ (forall r, Items r -> Bodies r) /\ (forall i, Item i -> Body i).
Proof.
  apply flat_mutind.
  - intros a r Ha _ Hr. apply smiles; assumption.
  - apply bodies_nil.
  - intros i r _ Hi _ Hr. apply bodies_cons; assumption.
  - intros p x Hp _ Hs. apply body_branch. apply branch; assumption.
  - intros a Ha. apply body_split. rewrite <- (app_nil_r a). apply smiles; [exact Ha | apply bodies_nil].
  - intros b a Hb Ha. apply body_chain; [exact Hb|]. rewrite <- (app_nil_r a). apply smiles; [exact Ha | apply bodies_nil].
  - intros b r Hb Hr. apply body_ring; assumption.
Qed.

Theorem smiles_is_lang : forall s, Smiles s <-> Lang s.
Proof. intros s. split; [apply bnf_flat | apply flat_bnf]. Qed.
