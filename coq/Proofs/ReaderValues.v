(* The values carried by the reader's events are in range, for EVERY input string (accepted or not):
   isotope and map below 1000, ring numbers below 100.
   Token level: a value returned by a learned trie is a value of the specification table of its family
   (Proofs/Reading.v: learned trie = specification trie on every string; Proofs/LangTrie.v: the specification trie
   answers only with table entries); the tables are finite and checked by computation.
   Reader level: every emitted event carries a kind returned by read_atom or a number returned by read_rnum. *)
From Coq Require Import List NArith Lia Bool Arith.
Import ListNotations.
Require Import P.Generated.Enums P.Meta.Scan P.Spec.Values P.Spec.Spelling P.Spec.Reading P.Generated.Trees P.Checks.Reading_defs P.Proofs.Reading
  P.Model.Base P.Model.Token P.Model.Reader P.Proofs.TokenFacts P.Proofs.BodyFacts P.Proofs.C09_Final
  P.Spec.Lang P.Proofs.LangTrie P.Proofs.LangTokens.
Strategy opaque [tree_symbol tree_organic tree_configuration tree_charge tree_bond tree_rnum tree_hcount tree_isotope tree_map].
Strategy opaque [trie_of].
Local Notation length := List.length.

(* ---------- token level ---------- *)
Section Family.
Variable V : Type.
Variable veqb : V -> V -> bool.
Variable tr : tree V.
Variable ar : option (outcome V).
Variable table : list (list N * V).
Hypothesis Hsame : forall s, same veqb (run tr s 0 0) (run (trie_of ar table) s 0 0) = true.
Hypothesis Hne : table <> [].
Hypothesis Hb : bounded_b 8 table = true.

(* what the code returns as a value is (veqb-equal to) a value of the table *)
Lemma fam_value_in_table x v n : ar = None \/ ar = Some ONone -> run_tok tr x = TOk v n ->
  exists v', In v' (map snd table) /\ veqb v v' = true.
Proof.
  intros Har H. destruct (fam_value V veqb tr ar table Hsame Hne Hb x v n H) as [v' [Hs Hv]].
  apply scan_value in Hs as [[p [w [_ [Hin _]]]]|[_ [_ [Hx _]]]].
  - exists v'. split; [apply (in_map snd _ _ Hin) | exact Hv].
  - destruct Har as [Har|Har]; rewrite Har in Hx; discriminate.
Qed.
End Family.

Lemma isotope_table_in_range : forallb (fun v => N.ltb v 1000) (map snd isotope_table) = true.
Proof. vm_compute. reflexivity. Qed.
Lemma map_table_in_range : forallb (fun v => N.ltb v 1000) (map snd map_table) = true.
Proof. vm_compute. reflexivity. Qed.
Lemma rnum_values_in_range : forallb (fun r => N.ltb (rnum_value r) 100) all_rnum = true.
Proof. vm_compute. reflexivity. Qed.

Lemma isotope_value_in_range x v n : run_tok tree_isotope x = TOk v n -> (v < 1000)%N.
Proof.
  intros H.
  destruct (fam_value_in_table _ N.eqb tree_isotope (Some ONone) isotope_table isotope_as_documented
              ltac:(vm_compute; discriminate) ltac:(vm_compute; reflexivity) x v n ltac:(right; reflexivity) H) as [v' [Hin Hv]].
  apply N.eqb_eq in Hv. subst v'. pose proof isotope_table_in_range as Ht. rewrite forallb_forall in Ht.
  apply N.ltb_lt. exact (Ht v Hin).
Qed.
Lemma map_value_in_range x v n : run_tok tree_map x = TOk v n -> (v < 1000)%N.
Proof.
  intros H.
  destruct (fam_value_in_table _ N.eqb tree_map (Some ONone) map_table map_as_documented
              ltac:(vm_compute; discriminate) ltac:(vm_compute; reflexivity) x v n ltac:(right; reflexivity) H) as [v' [Hin Hv]].
  apply N.eqb_eq in Hv. subst v'. pose proof map_table_in_range as Ht. rewrite forallb_forall in Ht.
  apply N.ltb_lt. exact (Ht v Hin).
Qed.

(* ---------- the productions the reader calls ---------- *)
Lemma read_rnum_in_range x r n : read_rnum x = TOk r n -> okr r.
Proof.
  unfold read_rnum. destruct (run_tok tree_rnum x) as [q m| | | |]; intros H; try discriminate.
  inversion H; subst r n. unfold okr, rnum_number. pose proof rnum_values_in_range as Ht. rewrite forallb_forall in Ht.
  apply N.ltb_lt. exact (Ht q (all_rnum_complete q)).
Qed.

Lemma bind_opt_value {A B} (t : tok A) off (k : option A -> nat -> tok B) kd n : bind_opt t off k = TOk kd n ->
  exists ov o', k ov o' = TOk kd n /\ forall v, ov = Some v -> exists m, t = TOk v m.
Proof.
  destruct t as [v m| | | |]; cbn [bind_opt]; intros H; try discriminate.
  - exists (Some v), (off + m). split; [exact H|]. intros v0 E. inversion E; subst v0. exists m. reflexivity.
  - exists None, off. split; [exact H|]. intros v0 E. discriminate.
Qed.
Lemma bind_req_value {A B} (t : tok A) off (k : A -> nat -> tok B) kd n : bind_req t off k = TOk kd n ->
  exists v o', k v o' = TOk kd n.
Proof.
  destruct t as [v m| | | |]; cbn [bind_req]; intros H; try discriminate.
  exists v, (off + m). exact H.
Qed.

Lemma read_bracket_in_range x k n : read_bracket x = TOk k n -> okk k.
Proof.
  intros H. unfold read_bracket in H. destruct x as [|c0 s0]; [discriminate|].
  destruct (N.eqb c0 LB); [|discriminate].
  unfold char in *. remember (@cons N c0 s0) as s eqn:Es in *. clear Es.
  apply bind_opt_value in H as [iso [o1 [H Hiso]]]. cbv beta in H.
  apply bind_req_value in H as [sym [o2 H]]. cbv beta in H.
  apply bind_opt_value in H as [cfg [o3 [H _]]]. cbv beta in H.
  apply bind_opt_value in H as [hc [o4 [H _]]]. cbv beta in H.
  apply bind_opt_value in H as [chg [o5 [H _]]]. cbv beta in H.
  apply bind_opt_value in H as [mp [o6 [H Hmp]]]. cbv beta in H.
  destruct (skipn o6 s) as [|c' l]; [discriminate|]. destruct (N.eqb c' RB); [|discriminate].
  inversion H; subst k n. unfold okk. cbn [wf_numbers]. split.
  - intros v E. destruct (Hiso v E) as [m Hm]. exact (isotope_value_in_range _ _ _ Hm).
  - intros v E. destruct (Hmp v E) as [m Hm]. exact (map_value_in_range _ _ _ Hm).
Qed.

Lemma read_organic_in_range x k n : read_organic x = TOk k n -> okk k.
Proof.
  unfold read_organic. destruct (run_tok tree_organic x) as [[a|a|] m| | | |]; intros H; try discriminate; inversion H; subst k n; exact I.
Qed.
Lemma read_star_in_range x k n : read_star x = TOk k n -> okk k.
Proof.
  unfold read_star. destruct x as [|c x']; [discriminate|]. destruct (N.eqb c STAR); intros H; [|discriminate]. inversion H; subst k n. exact I.
Qed.
Theorem read_atom_in_range x k n : read_atom x = TOk k n -> okk k.
Proof.
  unfold read_atom. destruct (read_organic x) as [k1 n1| | | |] eqn:Eo; intros H; try discriminate.
  - inversion H; subst k1 n1. exact (read_organic_in_range _ _ _ Eo).
  - destruct (read_bracket x) as [k2 n2| | | |] eqn:Eb; try discriminate.
    + inversion H; subst k2 n2. exact (read_bracket_in_range _ _ _ Eb).
    + exact (read_star_in_range _ _ _ H).
Qed.

(* ---------- the reader ---------- *)
Definition vok (s : rstate) : Prop := Forall okev (map ev_of (out s)).
Lemma vok_adv s n : vok (adv s n) <-> vok s. Proof. reflexivity. Qed.
Lemma vok_emit s e : vok s -> okev (ev_of e) -> vok (emit s e).
Proof. intros Hs He. unfold vok, emit. cbn [out map]. constructor; assumption. Qed.

Lemma read_link_vok input s : vok s -> vok (snd (read_link input s)).
Proof.
  intros Hs. unfold read_link. destruct (read_atom (rest s)) as [k n| | | |] eqn:Ea; cbn [snd]; try exact Hs.
  apply vok_emit; [exact Hs|]. pose proof (read_atom_in_range _ _ _ Ea) as Hk. destruct input as [b|]; exact Hk.
Qed.

Section Loop.
Variable rs : option bond_kind -> rstate -> rres (option nat) * rstate.
Hypothesis Hrs : forall input s, vok s -> vok (snd (rs input s)).

Lemma read_branch_vok s : vok s -> vok (snd (read_branch rs s)).
Proof.
  intros Hs. unfold read_branch. destruct (peek s) as [c|]; [|exact Hs].
  destruct (N.eqb c LP); [|exact Hs].
  set (s1 := adv s 1). assert (Hs1 : vok s1) by exact Hs.
  set (r := match peek s1 with
            | Some c' => if N.eqb c' DOT then rs None (adv s1 1) else let '(b, n) := read_bond (rest s1) in rs (Some b) (adv s1 n)
            | None => let '(b, n) := read_bond (rest s1) in rs (Some b) (adv s1 n) end).
  assert (Hr : vok (snd r)).
  { unfold r. destruct (peek s1) as [c'|].
    - destruct (N.eqb c' DOT); [apply Hrs; exact Hs1|]. destruct (read_bond (rest s1)) as [b n]. apply Hrs. exact Hs1.
    - destruct (read_bond (rest s1)) as [b n]. apply Hrs. exact Hs1. }
  destruct r as [x s2]. cbn [snd] in Hr. destruct x as [[len|]| | | |]; cbn [snd]; try exact Hr.
  destruct (peek s2) as [c''|]; [|exact Hr]. destruct (N.eqb c'' RP); [|exact Hr].
  apply vok_emit; [exact Hr | exact I].
Qed.

Lemma loop_vok : forall g s acc, vok s -> vok (snd (loop rs g s acc)).
Proof.
  induction g as [|g IH]; intros s acc Hs; cbn [loop]; [exact Hs|].
  pose proof (read_branch_vok s Hs) as Hb. destruct (read_branch rs s) as [rb s1]. cbn [snd] in Hb.
  destruct rb as [[|]| | | |]; try exact Hb.
  - apply IH. exact Hb.
  - destruct (match peek s1 with Some c => N.eqb c DOT | None => false end).
    + pose proof (read_link_vok None (adv s1 1) Hb) as Hl. destruct (read_link None (adv s1 1)) as [rl s2]. cbn [snd] in Hl.
      destruct rl as [[|]| | | |]; try exact Hl. apply IH. exact Hl.
    + destruct (read_bond (rest s1)) as [b n].
      pose proof (read_link_vok (Some b) (adv s1 n) Hb) as Hl. destruct (read_link (Some b) (adv s1 n)) as [rl s2]. cbn [snd] in Hl.
      destruct rl as [[|]| | | |]; try exact Hl; [apply IH; exact Hl|].
      destruct (read_rnum (rest s2)) as [r m| | | |] eqn:Er; try exact Hl.
      * apply IH. apply vok_emit; [exact Hl|]. exact (read_rnum_in_range _ _ _ Er).
      * destruct (bondk_eqb b BK_Elided); exact Hl.
Qed.
End Loop.

Lemma read_smiles_vok : forall f d input s, vok s -> vok (snd (read_smiles f d input s)).
Proof.
  induction f as [|f IH]; intros d input s Hs; cbn [read_smiles]; [exact Hs|].
  set (s0 := {| rest := rest s; pos := pos s; out := out s; maxd := Nat.max (maxd s) (S d) |}).
  assert (Hs0 : vok s0) by exact Hs.
  pose proof (read_link_vok input s0 Hs0) as Hl. destruct (read_link input s0) as [rl s1]. cbn [snd] in Hl.
  destruct rl as [[|]| | | |]; try exact Hl.
  apply loop_vok; [|exact Hl]. intros input' s' Hs'. apply IH. exact Hs'.
Qed.

(* every string, accepted or not *)
Theorem reader_values_in_range : forall s, Forall okev (snd (rd s)).
Proof.
  intros s. unfold rd, read, read_from.
  set (s0 := {| rest := s; pos := 0; out := []; maxd := 0 |}).
  pose proof (read_smiles_vok (S (length s)) 0 None s0 ltac:(constructor)) as H.
  destruct (read_smiles (S (length s)) 0 None s0) as [r s1]. cbn [snd] in H.
  cbn [snd r_events r_verdict]. rewrite map_rev. apply Forall_rev. exact H.
Qed.
Print Assumptions reader_values_in_range.
