(* C12 / C11 / C01 / C03 assembly: the lock-step theorem (Proofs/D0..D7, Stereo) stated from the specification's
   boolean well-formedness predicate, and its consequences. *)
From Coq Require Import List String NArith Lia Bool Arith.
Import ListNotations.
Require Import P.Generated.Enums P.Spec.Values P.Generated.Tables P.Spec.Events P.Spec.Graph P.Spec.Known P.Model.Base P.Model.Pool P.Model.Walk P.Model.Builder
  P.Checks.C18_defs P.Proofs.C18_conv P.Proofs.WalkInv P.Proofs.PoolSpec P.Proofs.PoolReach P.Proofs.WalkPanics P.Proofs.C11 P.Proofs.D0 P.Proofs.D1 P.Proofs.D2 P.Proofs.D6 P.Proofs.D7 P.Proofs.Stereo.
Local Notation length := List.length.

Lemma count_nodup (l : list bond) : (forall b, In b l -> count_to l (tid b) = 1) -> NoDup (map tid l).
Proof.
  induction l as [|b t IH]; intros H; cbn [map]; [constructor|].
  pose proof (H b (or_introl eq_refl)) as Hb. rewrite count_to_cons, Nat.eqb_refl in Hb.
  assert (Hnot : ~ In (tid b) (map tid t)).
  { intros Hin. apply in_map_iff in Hin as [c [Ec Hc]]. assert (1 <= count_to t (tid b)); [|lia].
    clear - Ec Hc. unfold count_to. induction t as [|o t IH]; [contradiction|]. cbn [filter]. destruct Hc as [->|Hc].
    - rewrite Ec, Nat.eqb_refl. cbn [List.length]. lia.
    - specialize (IH Hc). destruct (Nat.eqb (tid o) (tid b)); cbn [List.length]; lia. }
  constructor; [exact Hnot|]. apply IH. intros c Hc. pose proof (H c (or_intror Hc)) as Hcc. rewrite count_to_cons in Hcc.
  destruct (Nat.eqb_spec (tid b) (tid c)) as [E|E]; [exfalso; apply Hnot; rewrite E; apply in_map; exact Hc | exact Hcc].
Qed.
Lemma count_pos_find l p : 1 <= count_to l p -> exists b, find_to p l = Some b.
Proof.
  unfold count_to. induction l as [|o t IH]; cbn [filter find_to List.length]; [lia|]. destruct (Nat.eqb (tid o) p); [eauto | exact IH].
Qed.
Lemma nth_error_nth' {A} (l : list A) i d : i < length l -> nth_error l i = Some (nth i l d).
Proof. revert i; induction l as [|a l IH]; intros [|i] H; cbn in *; try lia; [reflexivity | apply IH; lia]. Qed.

Section FromWf.
Variable g : list atom.
Hypothesis Hwf : wf g = true.
Lemma half : forall x b, x < length g -> In b (bonds_of g x) -> half_ok g x (bonds_of g x) b = true.
Proof.
  intros x b Hx Hb. unfold wf in Hwf. rewrite wf_from_spec in Hwf. specialize (Hwf x (atom_at g x) b (nth_error_nth' g x dummy_atom Hx) Hb). exact Hwf.
Qed.
Lemma wf_range : forall x b, x < length g -> In b (bonds_of g x) -> tid b < length g /\ tid b <> x.
Proof.
  intros x b Hx Hb. pose proof (half x b Hx Hb) as H. unfold half_ok in H.
  apply andb_true_iff in H as [H _]. apply andb_true_iff in H as [H _]. apply andb_true_iff in H as [H1 H2].
  apply Nat.ltb_lt in H1. apply negb_true_iff, Nat.eqb_neq in H2. auto.
Qed.
Lemma wf_nodup : forall x, x < length g -> NoDup (map tid (bonds_of g x)).
Proof.
  intros x Hx. apply count_nodup. intros b Hb. pose proof (half x b Hx Hb) as H. unfold half_ok in H.
  apply andb_true_iff in H as [H _]. apply andb_true_iff in H as [_ H]. apply Nat.eqb_eq in H. exact H.
Qed.
Lemma wf_sym : forall x b, x < length g -> In b (bonds_of g x) ->
  exists b', find_to x (bonds_of g (tid b)) = Some b' /\ bk b' = reverse (bk b).
Proof.
  intros x b Hx Hb. pose proof (half x b Hx Hb) as H. destruct (wf_range x b Hx Hb) as [Ht _]. unfold half_ok in H.
  apply andb_true_iff in H as [_ H]. rewrite (nth_error_nth' g (tid b) dummy_atom Ht) in H. apply andb_true_iff in H as [H1 H2]. apply Nat.eqb_eq in H1.
  destruct (count_pos_find (bonds (nth (tid b) g dummy_atom)) x ltac:(lia)) as [b' Hf]. exists b'. split; [exact Hf|].
  destruct (find_to_in _ _ _ Hf) as [Hin Htb]. rewrite forallb_forall in H2. specialize (H2 b' Hin). rewrite Htb, Nat.eqb_refl in H2. cbn [negb orb] in H2.
  apply bond_kind_eqb_eq in H2. rewrite H2. unfold spec_reverse, reverse. symmetry. apply (proj1 (proj2 (bond_kind_facts (bk b)))).
Qed.
End FromWf.

Definition safe_graph (g : list atom) : Prop := forall a, In a g -> known_invert_panic (akind a) = false.
Lemma safe_graph_kinds g : safe_graph g -> forall x, safe (akind (atom_at g x)).
Proof.
  intros H x. unfold safe. intros E. apply invert_panic_known in E. unfold atom_at in E.
  destruct (Nat.lt_ge_cases x (length g)) as [Hx|Hx]; [rewrite (H (nth x g dummy_atom) (nth_In g dummy_atom Hx)) in E; discriminate | rewrite nth_overflow in E by exact Hx; discriminate].
Qed.

(* C12: every atom's bond list comes back as the original list with the arrival bond moved to the front, renamed by
   the visiting order *)
Theorem C12_from_wf : forall g h, wf g = true -> safe_graph g -> walk g = (WOk, h) ->
  exists gh g', bld h = BOk g' /\ length g' = length g /\ NoDup (order gh) /\ (forall x, In x (order gh) <-> x < length g) /\
    forall x, x < length g -> nth_error g' (phi gh x) = Some {| akind := kind_final g gh x; bonds := map (rename gh) (arrival_first g gh x) |}.
Proof.
  intros g h Hwf Hs Hw. apply C12_walk; [apply wf_range | apply wf_nodup | apply wf_sym | apply safe_graph_kinds | exact Hw]; assumption.
Qed.

(* C11, remaining direction: a well-formed list is accepted, unless more than 99 closures get open (C06's K3) *)
Theorem wf_accepted : forall g, wf g = true -> safe_graph g -> fst (walk g) = WOk \/ fst (walk g) = WPanic 3.
Proof.
  intros g Hwf Hs. pose proof (walk_safe g) as Hsafe. pose proof (walk_never_overflows_counter g) as H4.
  unfold walk in *. apply validate_iff_wf in Hwf. rewrite Hwf in *. unfold traverse in *.
  pose proof (outer_Inv g (wf_range g (proj1 (validate_iff_wf g) Hwf)) (wf_nodup g (proj1 (validate_iff_wf g) Hwf)) (wf_sym g (proj1 (validate_iff_wf g) Hwf)) (safe_graph_kinds g Hs)
                (seq 0 (length g)) (S (total_bonds g)) (state0 g)) as Hout.
  destruct (outer (seq 0 (length g)) (S (total_bonds g)) (length g) (state0 g)) as [r s'].
  cbn [fst] in *. destruct Hsafe as [H1 [H2 _]].
  destruct r as [|e|site|]; [left; reflexivity| | |contradiction].
  - exfalso. destruct Hout as [[Hp|Hp]|Hp]; try discriminate; try (intros id Hid; apply in_seq in Hid; lia); try apply Inv0; try reflexivity.
  - destruct Hout as [[Hp|Hp]|Hp]; try discriminate; try (intros id Hid; apply in_seq in Hid; lia); try apply Inv0; try reflexivity.
    + right. exact Hp.
    + contradiction.
Qed.
