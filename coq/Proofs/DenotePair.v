(* C02 / C10, step 2 preliminaries: pass 2 of the specification as a left fold over the ring tokens, the finite facts
   relating the builder's tables to the specification's wording, the conversion of symbolic slots to builder edges,
   and the well-formedness of the symbolic builder's state (node numbering, tree bonds). *)
From Coq Require Import List NArith Lia Bool Arith.
Import ListNotations.
Require Import P.Generated.Enums P.Spec.Values P.Generated.Tables P.Model.Base P.Model.Builder P.Spec.Known
  P.Checks.C18_defs P.Proofs.C18_conv P.Proofs.C09_Inverse P.Spec.Denote P.Proofs.WalkPanics P.Proofs.FollowerSafe P.Proofs.DenoteSym.

(* ---------- ring tokens ---------- *)
Definition tok_occ (o : ringocc) : nat := fst (fst (fst o)).
Definition tok_atom (o : ringocc) : nat := snd (fst (fst o)).
Definition tok_r (o : ringocc) : rnumN := snd (fst o).
Definition tok_b (o : ringocc) : bond_kind := snd o.

(* ---------- pass 2 as a fold ---------- *)
Record pst := { popens : list ringocc; pbonded : list (nat * nat); pres : list (nat * resol) }.
Definition rkey (r : rnumN) (o : ringocc) : bool := N.eqb (tok_r o) r.
Definition pstep (st : pst) (tok : ringocc) : pst :=
  let occ := tok_occ tok in let a := tok_atom tok in let r := tok_r tok in let b := tok_b tok in
  match find (rkey r) (popens st) with
  | Some o0 =>
      let occ0 := tok_occ o0 in let a0 := tok_atom o0 in let b0 := tok_b o0 in
      let opens' := filter (fun o => negb (rkey r o)) (popens st) in
      if Nat.eqb a a0 || existsb (fun p => same_pair p a a0) (pbonded st)
      then {| popens := opens'; pbonded := pbonded st; pres := (occ, RBad a a0) :: pres st |}
      else match resolve b0 b with
           | Some (l, rt) => {| popens := opens'; pbonded := (a, a0) :: pbonded st; pres := (occ0, RMatched a l) :: (occ, RMatched a0 rt) :: pres st |}
           | None => {| popens := opens'; pbonded := pbonded st; pres := (occ, RBad a a0) :: pres st |}
           end
  | None => {| popens := tok :: popens st; pbonded := pbonded st; pres := pres st |}
  end.
Lemma pair_rings_fold_st : forall rg st,
  pair_rings rg (popens st) (pbonded st) (pres st) = (pres (fold_left pstep rg st), popens (fold_left pstep rg st)).
Proof.
  induction rg as [|[[[occ a] rn] bk] t IH]; intros st; cbn [pair_rings fold_left]; [reflexivity|].
  rewrite <- IH. unfold pstep. cbn [tok_occ tok_atom tok_r tok_b fst snd].
  match goal with |- context [@find ?A ?f (popens st)] => change (@find A f (popens st)) with (find (rkey rn) (popens st)) end.
  destruct (find (rkey rn) (popens st)) as [[[[occ0 a0] r0] b0]|]; [|reflexivity]. cbn [tok_occ tok_atom tok_r tok_b fst snd].
  destruct (Nat.eqb a a0 || existsb (fun p => same_pair p a a0) (pbonded st)); [reflexivity|].
  destruct (resolve b0 bk) as [[l rt]|]; reflexivity.
Qed.
Lemma pair_rings_fold rg o b r :
  pair_rings rg o b r = let st := fold_left pstep rg {| popens := o; pbonded := b; pres := r |} in (pres st, popens st).
Proof. exact (pair_rings_fold_st rg {| popens := o; pbonded := b; pres := r |}). Qed.

(* what a step does to the open table and to the results, whatever the branch *)
Lemma pstep_opens st tok :
  popens (pstep st tok) = match find (rkey (tok_r tok)) (popens st) with
                          | Some _ => filter (fun o => negb (rkey (tok_r tok) o)) (popens st)
                          | None => tok :: popens st end.
Proof.
  unfold pstep. destruct (find (rkey (tok_r tok)) (popens st)) as [o0|]; [|reflexivity].
  destruct (Nat.eqb (tok_atom tok) (tok_atom o0) || existsb (fun p => same_pair p (tok_atom tok) (tok_atom o0)) (pbonded st)); [reflexivity|].
  destruct (resolve (tok_b o0) (tok_b tok)) as [[l rt]|]; reflexivity.
Qed.
Lemma pstep_res st tok : exists new, pres (pstep st tok) = new ++ pres st.
Proof.
  unfold pstep. destruct (find (rkey (tok_r tok)) (popens st)) as [o0|]; [|exists []; reflexivity].
  destruct (Nat.eqb (tok_atom tok) (tok_atom o0) || existsb (fun p => same_pair p (tok_atom tok) (tok_atom o0)) (pbonded st)); [eexists [_]; reflexivity|].
  destruct (resolve (tok_b o0) (tok_b tok)) as [[l rt]|]; [eexists [_; _] | eexists [_]]; reflexivity.
Qed.

(* ---------- finite facts ---------- *)
Lemma reconcile_resolve b0 b : reconcile b0 b = resolve b0 b.
Proof. destruct b0, b; vm_compute; reflexivity. Qed.
Lemma reverse_up_down b : reverse b = up_down b.
Proof. exact (proj1 (proj2 (bond_kind_facts b))). Qed.
(* the builder's adjustment of an extended atom's kind is the specification's [adj], outside the known class *)
Lemma invert_adj b k : known_invert_panic k = false -> invert k = KOk (adj (LBond b) k).
Proof.
  assert (H : forallb (fun c => forallb (fun h =>
              match invert_table c h, h with
              | InvSame, Some hh => (P.Spec.Spelling.vh_value hh =? 0)%N || opt_eqb configuration_eqb (flip_TH c) c
              | InvSame, None => true
              | InvTo c', Some hh => negb (P.Spec.Spelling.vh_value hh =? 0)%N && opt_eqb configuration_eqb (flip_TH c) (Some c')
              | InvTo c', None => false
              | _, _ => match c, h with Some c, Some h => negb (is_TH c) && negb (P.Spec.Spelling.vh_value h =? 0)%N | _, _ => false end
              end) (all_option all_virtual_hydrogen)) (all_option all_configuration) = true) by (vm_compute; reflexivity).
  destruct k as [| | |i s c h g m]; cbn [invert adj known_invert_panic]; try reflexivity.
  rewrite forallb_forall in H. specialize (H c (all_option_complete _ all_configuration_complete c)).
  rewrite forallb_forall in H. specialize (H h (all_option_complete _ all_virtual_hydrogen_complete h)).
  intros Hk. destruct (invert_table c h) as [|c'| |].
  - destruct h as [hh|]; [|reflexivity]. destruct (P.Spec.Spelling.vh_value hh =? 0)%N; [reflexivity|]. cbn [orb] in H.
    apply (opt_eqb_eq _ configuration_eqb_eq) in H. rewrite H. reflexivity.
  - destruct h as [hh|]; [|discriminate]. apply andb_true_iff in H as [H1 H2]. apply negb_true_iff in H1. rewrite H1.
    apply (opt_eqb_eq _ configuration_eqb_eq) in H2. rewrite H2. reflexivity.
  - destruct c as [c|], h as [hh|]; try discriminate. congruence.
  - destruct c as [c|], h as [hh|]; try discriminate. congruence.
Qed.

(* ---------- slots of a node, ring slots ---------- *)
Definition slots_at (nodes : list snode) (i : nat) : list slot := match nth_error nodes i with Some t => snd t | None => [] end.
Definition rings (sl : list slot) : list (bond_kind * nat) := flat_map (fun s => match s with SRing b o => [(b, o)] | _ => [] end) sl.
Definition prevs (sl : list slot) : list (bond_kind * nat) := flat_map (fun s => match s with SPrev b p => [(b, p)] | _ => [] end) sl.
Lemma rings_app a b : rings (a ++ b) = rings a ++ rings b.
Proof. apply flat_map_app. Qed.
Lemma prevs_app a b : prevs (a ++ b) = prevs a ++ prevs b.
Proof. apply flat_map_app. Qed.
Lemma in_rings sl b o : In (b, o) (rings sl) <-> In (SRing b o) sl.
Proof.
  unfold rings. rewrite in_flat_map. split.
  - intros [s [Hs Hin]]. destruct s; cbn in Hin; try contradiction. destruct Hin as [E|[]]. inversion E; subst. exact Hs.
  - intros H. exists (SRing b o). split; [exact H | left; reflexivity].
Qed.
Lemma in_prevs sl b p : In (b, p) (prevs sl) <-> In (SPrev b p) sl.
Proof.
  unfold prevs. rewrite in_flat_map. split.
  - intros [s [Hs Hin]]. destruct s; cbn in Hin; try contradiction. destruct Hin as [E|[]]. inversion E; subst. exact Hs.
  - intros H. exists (SPrev b p). split; [exact H | left; reflexivity].
Qed.

Lemma slots_at_out nodes i : length nodes <= i -> slots_at nodes i = [].
Proof. intros H. unfold slots_at. apply nth_error_None in H. rewrite H. reflexivity. Qed.
Lemma slots_at_snoc nodes t i : slots_at (nodes ++ [t]) i = if i =? length nodes then snd t else slots_at nodes i.
Proof.
  unfold slots_at. destruct (Nat.eqb_spec i (length nodes)) as [->|Hne].
  - rewrite nth_error_app2, Nat.sub_diag by lia. reflexivity.
  - destruct (Nat.lt_ge_cases i (length nodes)) as [Hlt|Hge].
    + rewrite nth_error_app1 by exact Hlt. reflexivity.
    + assert (E1 : nth_error (nodes ++ [t]) i = None) by (apply nth_error_None; rewrite app_length; cbn; lia).
      assert (E2 : nth_error nodes i = None) by (apply nth_error_None; lia). rewrite E1, E2. reflexivity.
Qed.
Lemma nth_error_upd l : forall i sl j, nth_error (upd l i sl) j =
  match nth_error l j with Some t => Some (if i =? j then (fst t, snd t ++ sl) else t) | None => None end.
Proof.
  induction l as [|[[a k] s] t IH]; intros [|i] sl [|j]; cbn [upd nth_error Nat.eqb fst snd]; try reflexivity.
  - destruct (nth_error t j); reflexivity.
  - apply IH.
Qed.
Lemma slots_at_upd l i sl j : slots_at (upd l i sl) j = if (i =? j) && (j <? length l) then slots_at l j ++ sl else slots_at l j.
Proof.
  unfold slots_at. rewrite nth_error_upd. destruct (nth_error l j) as [t|] eqn:E.
  - assert (Hlt : j < length l) by (apply nth_error_Some; congruence). apply Nat.ltb_lt in Hlt. rewrite Hlt, andb_true_r.
    destruct (i =? j); reflexivity.
  - apply nth_error_None in E. destruct (Nat.ltb_spec j (length l)); [lia|]. rewrite andb_false_r. reflexivity.
Qed.

(* ---------- conversion of symbolic slots to builder edges under a pairing ---------- *)
Definition conv_slot (res : list (nat * resol)) (rg : list ringocc) (s : slot) : edge :=
  match s with
  | SPrev b a => {| ek := reverse b; etgt := TId a |}
  | SNext b a => {| ek := b; etgt := TId a |}
  | SRing b occ => match lookup_res res occ with
                   | Some (RMatched p k) => {| ek := k; etgt := TId p |}
                   | _ => match nth_error rg occ with
                          | Some o => {| ek := b; etgt := TRnum occ (tok_atom o) (tok_r o) |}
                          | None => {| ek := b; etgt := TRnum occ 0 0%N |} end
                   end
  end.
Definition conv_node res rg (t : snode) : node := {| nkind := snd (fst t); edges := map (conv_slot res rg) (snd t) |}.

Lemma conv_slots_ext res rg res1 rg1 sl :
  (forall b o, In (b, o) (rings sl) -> lookup_res res1 o = lookup_res res o /\ nth_error rg1 o = nth_error rg o) ->
  map (conv_slot res1 rg1) sl = map (conv_slot res rg) sl.
Proof.
  intros H. apply map_ext_in. intros s Hs. destruct s as [b a|b a|b o]; try reflexivity.
  destruct (H b o (proj2 (in_rings sl b o) Hs)) as [H1 H2]. cbn [conv_slot]. rewrite H1, H2. reflexivity.
Qed.

(* add_edge / upd *)
Lemma add_edge_0 nd g e : add_edge (nd :: g) 0 e = {| nkind := nkind nd; edges := edges nd ++ [e] |} :: g.
Proof. reflexivity. Qed.
Lemma add_edge_S nd g i e : add_edge (nd :: g) (S i) e = nd :: add_edge g i e.
Proof. unfold add_edge. cbn [nth_error]. destruct (nth_error g i); reflexivity. Qed.
Lemma add_edge_nil i e : add_edge [] i e = [].
Proof. unfold add_edge. destruct i; reflexivity. Qed.
Lemma map_upd res rg nodes : forall i s,
  map (conv_node res rg) (upd nodes i [s]) = add_edge (map (conv_node res rg) nodes) i (conv_slot res rg s).
Proof.
  induction nodes as [|[[a k] sl] t IH]; intros [|i] s; cbn [upd map]; rewrite ?add_edge_nil, ?add_edge_0, ?add_edge_S; try reflexivity.
  - unfold conv_node. cbn [fst snd nkind edges]. rewrite map_app. reflexivity.
  - rewrite IH. reflexivity.
Qed.
Lemma add_edge_app1 g x i e : i < length g -> add_edge (g ++ [x]) i e = add_edge g i e ++ [x].
Proof.
  revert i. induction g as [|nd g IH]; intros i H; cbn [length] in H; [lia|]. destruct i as [|i]; cbn [app]; rewrite ?add_edge_0, ?add_edge_S; [reflexivity|].
  rewrite IH by lia. reflexivity.
Qed.

(* ---------- the symbolic state is well numbered ---------- *)
Record swf (s : sst) : Prop := {
  w_stack : forall x, In x (sstack s) -> x < length (snodes s);
  w_idx : forall i t, nth_error (snodes s) i = Some t -> fst (fst t) = i;
  w_prev : forall i b p, In (b, p) (prevs (slots_at (snodes s) i)) -> p < i
}.
Lemma swf0 : swf s0.
Proof. constructor; cbn; [tauto | intros [|i] t H; discriminate | intros [|i] b p H; destruct H]. Qed.
Lemma in_skipn {A} (x : A) : forall d l, In x (skipn d l) -> In x l.
Proof. induction d as [|d IH]; intros [|a l] H; cbn in *; auto. Qed.
Lemma swf_step s e s' : swf s -> sstep s e = Some s' -> swf s'.
Proof.
  intros [Hst Hidx Hpr] Hs. destruct e as [k|b k|b r|d]; cbn [sstep] in Hs.
  - inversion Hs; subst; clear Hs. constructor; cbn [sstack snodes].
    + intros x [<-|Hx]; rewrite app_length; cbn [length]; [lia | specialize (Hst x Hx); lia].
    + intros i t Ht. destruct (Nat.lt_ge_cases i (length (snodes s))) as [Hlt|Hge].
      * rewrite nth_error_app1 in Ht by exact Hlt. apply Hidx. exact Ht.
      * rewrite nth_error_app2 in Ht by exact Hge. destruct (i - length (snodes s)) as [|j] eqn:Ej; [|destruct j; discriminate].
        inversion Ht; subst. cbn [fst]. lia.
    + intros i b p. rewrite slots_at_snoc. destruct (i =? length (snodes s)); [cbn; tauto | apply Hpr].
  - destruct (sstack s) as [|sid st] eqn:Es; [discriminate|]. inversion Hs; subst; clear Hs.
    assert (Hsid : sid < length (snodes s)) by (apply Hst; left; reflexivity).
    constructor; cbn [sstack snodes].
    + intros x Hx. rewrite app_length, upd_length. cbn [length]. destruct Hx as [<-|Hx]; [lia | specialize (Hst x Hx); lia].
    + intros i t Ht. destruct (Nat.lt_ge_cases i (length (snodes s))) as [Hlt|Hge].
      * rewrite nth_error_app1 in Ht by (rewrite upd_length; exact Hlt). rewrite nth_error_upd in Ht.
        destruct (nth_error (snodes s) i) as [t0|] eqn:E0; [|discriminate]. inversion Ht; subst. specialize (Hidx i t0 E0).
        destruct (sid =? i); cbn [fst]; exact Hidx.
      * rewrite nth_error_app2 in Ht by (rewrite upd_length; exact Hge). rewrite upd_length in Ht.
        destruct (i - length (snodes s)) as [|j] eqn:Ej; [|destruct j; discriminate]. inversion Ht; subst. cbn [fst]. lia.
    + intros i b' p. rewrite slots_at_snoc, upd_length. destruct (Nat.eqb_spec i (length (snodes s))) as [->|Hne]; cbn [snd].
      * cbn. intros [E|[]]. inversion E; subst. exact Hsid.
      * rewrite slots_at_upd. destruct ((sid =? i) && (i <? length (snodes s))); [|apply Hpr].
        rewrite prevs_app. cbn [prevs flat_map app]. rewrite app_nil_r. apply Hpr.
  - destruct (sstack s) as [|sid st] eqn:Es; [discriminate|]. inversion Hs; subst; clear Hs. constructor; cbn [sstack snodes].
    + intros x Hx. rewrite upd_length. apply Hst. exact Hx.
    + intros i t Ht. rewrite nth_error_upd in Ht. destruct (nth_error (snodes s) i) as [t0|] eqn:E0; [|discriminate]. inversion Ht; subst.
      specialize (Hidx i t0 E0). destruct (sid =? i); cbn [fst]; exact Hidx.
    + intros i b' p. rewrite slots_at_upd. destruct ((sid =? i) && (i <? length (snodes s))); [|apply Hpr].
      rewrite prevs_app. cbn [prevs flat_map app]. rewrite app_nil_r. apply Hpr.
  - inversion Hs; subst; clear Hs. constructor; cbn [sstack snodes]; [|exact Hidx | exact Hpr].
    intros x Hx. apply Hst. eapply in_skipn. exact Hx.
Qed.

(* ---------- tree bonds: the pairs the specification seeds [bonded] with ---------- *)
Definition tree_of (nodes : list snode) : list (nat * nat) :=
  flat_map (fun t => flat_map (fun s => match s with SPrev _ p => [(fst (fst t), p)] | _ => [] end) (snd t)) nodes.
Definition tree_ok (T : list (nat * nat)) (nodes : list snode) : Prop :=
  (forall c p, In (c, p) T -> p < c) /\
  (forall c p, c < length nodes -> (In (c, p) T <-> exists b, In (b, p) (prevs (slots_at nodes c)))).

Lemma tree_of_in nodes c p : (forall i t, nth_error nodes i = Some t -> fst (fst t) = i) ->
  (In (c, p) (tree_of nodes) <-> exists b, In (b, p) (prevs (slots_at nodes c))).
Proof.
  intros Hidx. unfold tree_of. rewrite in_flat_map. split.
  - intros [t [Ht Hin]]. apply in_flat_map in Hin as [s [Hs Hin]]. destruct s as [b q| |]; cbn in Hin; try contradiction.
    destruct Hin as [E|[]]. inversion E; subst. apply In_nth_error in Ht as [i Hi]. rewrite (Hidx i t Hi).
    exists b. unfold slots_at. rewrite Hi. apply in_prevs. exact Hs.
  - intros [b Hin]. unfold slots_at in Hin. destruct (nth_error nodes c) as [t|] eqn:E; [|destruct Hin].
    exists t. split; [eapply nth_error_In; exact E|]. apply in_flat_map. exists (SPrev b p). split; [apply in_prevs; exact Hin|].
    rewrite (Hidx c t E). left. reflexivity.
Qed.
Lemma tree_ok_final s : swf s -> tree_ok (tree_of (snodes s)) (snodes s).
Proof.
  intros [_ Hidx Hpr]. split.
  - intros c p H. apply (tree_of_in _ _ _ Hidx) in H as [b H]. eapply Hpr. exact H.
  - intros c p _. apply tree_of_in. exact Hidx.
Qed.
(* a step only adds tree bonds at the new node *)
Lemma step_prevs s e s' : sstep s e = Some s' -> length (snodes s) <= length (snodes s') /\
  forall c, c < length (snodes s) -> prevs (slots_at (snodes s') c) = prevs (slots_at (snodes s) c).
Proof.
  intros Hs. destruct e as [k|b k|b r|d]; cbn [sstep] in Hs.
  - inversion Hs; subst; clear Hs. cbn [snodes]. split; [rewrite app_length; lia|]. intros c Hc. rewrite slots_at_snoc.
    destruct (Nat.eqb_spec c (length (snodes s))); [lia | reflexivity].
  - destruct (sstack s) as [|sid st]; [discriminate|]. inversion Hs; subst; clear Hs. cbn [snodes].
    split; [rewrite app_length, upd_length; lia|]. intros c Hc. rewrite slots_at_snoc, upd_length.
    destruct (Nat.eqb_spec c (length (snodes s))); [lia|]. rewrite slots_at_upd. destruct ((sid =? c) && (c <? length (snodes s))); [|reflexivity].
    rewrite prevs_app. cbn. apply app_nil_r.
  - destruct (sstack s) as [|sid st]; [discriminate|]. inversion Hs; subst; clear Hs. cbn [snodes].
    split; [rewrite upd_length; lia|]. intros c Hc. rewrite slots_at_upd. destruct ((sid =? c) && (c <? length (snodes s))); [|reflexivity].
    rewrite prevs_app. cbn. apply app_nil_r.
  - inversion Hs; subst. cbn [snodes]. split; [lia | reflexivity].
Qed.
Lemma tree_ok_back T s e s' : sstep s e = Some s' -> tree_ok T (snodes s') -> tree_ok T (snodes s).
Proof.
  intros Hs [H1 H2]. destruct (step_prevs s e s' Hs) as [Hl Hp]. split; [exact H1|].
  intros c p Hc. rewrite (H2 c p) by lia. rewrite (Hp c Hc). reflexivity.
Qed.
Lemma tree_ok_back_fold T : forall h s s', sfold s h = Some s' -> tree_ok T (snodes s') -> tree_ok T (snodes s).
Proof.
  induction h as [|e t IH]; intros s s' H Ht; cbn [sfold] in H; [inversion H; subst; exact Ht|].
  destruct (sstep s e) as [s1|] eqn:E1; [|discriminate]. eapply tree_ok_back; [exact E1|]. eapply IH; eassumption.
Qed.
