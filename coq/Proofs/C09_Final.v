(* C09: for every conformant history with values in range the writer's text is accepted by the reader, which replays
   exactly the same calls (up to the documented shorthands). *)
From Coq Require Import List String NArith Lia Bool Arith.
Import ListNotations.
Require Import P.Generated.Enums P.Spec.Values P.Generated.Tables P.Meta.Scan P.Spec.Normal P.Spec.Events P.Model.Base P.Model.Token P.Model.Reader P.Model.SimpleReader
  P.Model.Writer P.Checks.Token_defs P.Proofs.TokenFacts P.Proofs.BodyFacts P.Proofs.WalkInv P.Proofs.ReaderSim P.Proofs.C09_Inverse P.Proofs.C09_Writer.
Local Notation length := List.length.
Local Notation concat := List.concat.

Definition okev (e : ev) : Prop := match e with ERoot k => okk k | EExtend _ k => okk k | EJoin _ r => okr r | EPop _ => True end.
Definition okitem (i : item) : Prop := match i with IJoin _ r => okr r | IBranch _ k inner => okk k /\ okbody inner end.
Definition okseg (s : seg) : Prop := okk (skind s) /\ Forall okitem (sitems s).

Lemma ok_to_body its tail : Forall okitem its -> okbody tail -> okbody (to_body its tail).
Proof.
  induction its as [|[b r|l k inner] t IH]; intros Hi Ht; cbn [to_body okbody]; [exact Ht| |]; inversion Hi as [|? ? H1 H2]; subst; cbn [okitem] in H1.
  - split; [exact H1 | apply IH; assumption].
  - destruct H1 as [Hk Hin]. split; [exact Hk|]. split; [exact Hin | apply IH; assumption].
Qed.
Lemma ok_chain segs : Forall okseg segs -> okbody (chain_body segs).
Proof.
  induction segs as [|s t IH]; intros H; cbn [chain_body okbody]; [exact I|]. inversion H as [|? ? [Hk Hi] Ht]; subst.
  split; [exact Hk | apply ok_to_body; [exact Hi | apply IH; exact Ht]].
Qed.
Lemma ok_add_item s i : okseg s -> okitem i -> okseg (add_item s i).
Proof. intros [Hk Hi] Hx. split; [exact Hk|]. cbn [add_item sitems]. apply Forall_app. split; [exact Hi | constructor; [exact Hx | constructor]]. Qed.
Lemma Forall_firstn {A} (P : A -> Prop) n l : Forall P l -> Forall P (firstn n l).
Proof. revert l; induction n; intros [|x l] H; cbn; try constructor; inversion H; subst; auto. Qed.
Lemma Forall_skipn {A} (P : A -> Prop) n l : Forall P l -> Forall P (skipn n l).
Proof. revert l; induction n; intros [|x l] H; cbn; try assumption; inversion H; subst; auto. Qed.

Lemma sw_step_okseg Sk e Sk' : Forall okseg Sk -> okev e -> sw_step Sk e = Some Sk' -> Forall okseg Sk'.
Proof.
  intros HS He. destruct e as [k|b k|b r|d]; cbn [sw_step okev] in *.
  - intros E. inversion E; subst. apply Forall_app. split; [exact HS|]. constructor; [split; [exact He | constructor] | constructor].
  - intros E. inversion E; subst. apply Forall_app. split; [exact HS|]. constructor; [split; [exact He | constructor] | constructor].
  - pose proof (split_last_spec Sk) as Hsp. destruct (split_last Sk) as [[init last]|]; [|discriminate]. intros E. inversion E as [E2]. clear E E2.
    rewrite Hsp in HS. apply Forall_app in HS as [H1 H2]. inversion H2; subst. apply Forall_app. split; [exact H1|]. constructor; [apply ok_add_item; assumption | constructor].
  - destruct (length Sk <=? d); [discriminate|].
    pose proof (split_last_spec (firstn (length Sk - d) Sk)) as Hsp.
    destruct (split_last (firstn (length Sk - d) Sk)) as [[init last]|]; [|discriminate].
    destruct (skipn (length Sk - d) Sk) as [|p prest] eqn:Ech; [discriminate|]. intros E. inversion E as [E2]. clear E E2.
    pose proof (Forall_firstn okseg (length Sk - d) Sk HS) as Hf. rewrite Hsp in Hf. apply Forall_app in Hf as [H1 H2]. inversion H2; subst.
    pose proof (Forall_skipn okseg (length Sk - d) Sk HS) as Hk. rewrite Ech in Hk. inversion Hk as [|? ? [Hpk Hpi] Hpr]; subst.
    apply Forall_app. split; [exact H1|]. constructor; [|constructor]. apply ok_add_item; [assumption|].
    cbn [okitem]. split; [exact Hpk | apply ok_to_body; [exact Hpi | apply ok_chain; exact Hpr]].
Qed.
Lemma sw_fold_okseg : forall h Sk Sk', Forall okseg Sk -> Forall okev h -> sw_fold Sk h = Some Sk' -> Forall okseg Sk'.
Proof.
  induction h as [|e t IH]; intros Sk Sk' HS Hh; cbn [sw_fold]; [intros E; inversion E; subst; exact HS|].
  inversion Hh as [|? ? He Ht]; subst. destruct (sw_step Sk e) as [S1|] eqn:E1; [|discriminate].
  apply IH; [eapply sw_step_okseg; eassumption | exact Ht].
Qed.

Lemma dp_le_len bd : dp bd <= length (pp bd).
Proof.
  induction bd as [| b r rest IH | l k inner IHi rest IHr | l k rest IH]; cbn [dp pp length]; try lia;
    repeat (rewrite app_length || cbn [length]); lia.
Qed.

Theorem C09_inverse_simple : forall h, conformantP h -> Forall okev h ->
  exists text, wr h = Some text /\ sread text = (true, map nkev h).
Proof.
  intros h Hc Hok. destruct h as [|[k0| | | ] t]; try contradiction. cbn [conformantP confP] in Hc.
  set (seg0 := {| slink := None; skind := k0; sitems := [] |}).
  assert (Hw0 : wfstack [seg0]) by (split; [reflexivity|constructor]).
  inversion Hok as [|? ? Hk0 Hokt]; subst. cbn [okev] in Hk0.
  destruct (sw_fold_ok t [seg0] Hw0 Hc) as [S' [E' [W' [F' N']]]].
  assert (HokS : Forall okseg S') by (eapply (sw_fold_okseg t [seg0]); [constructor; [split; [exact Hk0 | constructor] | constructor] | exact Hokt | exact E']).
  unfold wr. cbn [w_fold w_step app].
  assert (Hp0 : [pp_kind k0] = map pp_seg [seg0]).
  { cbn [map]. unfold pp_seg. cbn [seg0 slink skind sitems pp_olink map concat app]. rewrite app_nil_r. reflexivity. }
  rewrite Hp0. rewrite (w_fold_hom t [seg0] Hw0 Hc). rewrite E'. cbn [option_map].
  eexists. split; [reflexivity|].
  destruct S' as [|s1 rest]; [exfalso; apply N'; [discriminate|reflexivity]|].
  destruct W' as [Hl1 Hrest]. inversion HokS as [|? ? [Hk1 Hi1] Hokr]; subst.
  set (bd := to_body (sitems s1) (chain_body rest)).
  assert (Hbd : okbody bd) by (apply ok_to_body; [exact Hi1 | apply ok_chain; exact Hokr]).
  assert (Htext : concat (map pp_seg (s1 :: rest)) = pp_kind (skind s1) ++ pp bd ++ []).
  { cbn [map concat]. unfold pp_seg at 1. rewrite Hl1. cbn [pp_olink app]. unfold bd.
    rewrite pp_to_body, (pp_chain rest Hrest). rewrite app_nil_r, <- app_assoc. reflexivity. }
  rewrite Htext. unfold sread.
  assert (Hrd : sread_smiles (S (length (pp_kind (skind s1) ++ pp bd ++ []))) None (pp_kind (skind s1) ++ pp bd ++ [], [])
                = (inl (Some (1 + len bd)), ([], rev (flat bd) ++ [ERoot (nk_kind (skind s1))]))).
  { cbn [sread_smiles]. rewrite (link_atom None (skind s1) (pp bd ++ []) [] Hk1) by (apply F_pp; [exact Hbd | left; reflexivity]).
    cbn [fst]. apply loop_replays; [exact Hbd | | | left; reflexivity].
    - pose proof (dp_le_len bd). rewrite !app_length. lia.
    - pose proof (items_le_len bd Hbd). rewrite app_length. cbn [length]. lia. }
  rewrite Hrd. cbn [fst snd]. rewrite rev_app_distr, rev_involutive. cbn [rev app]. f_equal.
  unfold flat_stack in F'. cbn [map concat] in F'. unfold flat_seg at 1 in F'. rewrite Hl1 in F'. cbn [ev_olink] in F'.
  unfold bd. rewrite flat_to_body, (flat_chain rest Hrest).
  cbn [app] in F'. unfold flat_seg in F' at 2. cbn [seg0 slink skind sitems ev_olink map concat app] in F'. exact F'.
Qed.

(* on the models of the real reader and writer *)
Definition conformant_history (h : list ev) : Prop := h <> [] /\ conformant h = true.
Lemma conformant_history_P h : conformant_history h -> conformantP h.
Proof.
  intros [Hne Hc]. apply conf_iff in Hc. destruct h as [|[k| | |] t]; [contradiction| exact Hc | | |]; cbn [confP] in Hc; lia.
Qed.
Theorem C09_inverse : forall h, conformant_history h -> Forall okev h ->
  exists text, wr h = Some text /\ rd text = (VOk, map nkev h).
Proof.
  intros h Hc Hok. destruct (C09_inverse_simple h (conformant_history_P h Hc) Hok) as [text [Hw Hr]].
  exists text. split; [exact Hw|]. pose proof (read_projects text) as Hp. rewrite Hr in Hp.
  destruct (rd text) as [v evs]. cbn [fst snd] in Hp. inversion Hp as [[Ha He]]. f_equal. destruct v; try discriminate. reflexivity.
Qed.
(* corollaries: writing is insensitive to the shorthands; re-reading and re-writing reproduces the text *)
Lemma okev_nk e : okev e -> okev (nkev e).
Proof. destruct e as [k|b k| |]; cbn; auto; destruct k; auto. Qed.
Lemma display_nk_checks :
  forallb (fun c => String.eqb (opt_str display_configuration (nk_cfg c)) (opt_str display_configuration c)) (all_option all_configuration) = true /\
  forallb (fun h => String.eqb (opt_str display_virtual_hydrogen (nk_h h)) (opt_str display_virtual_hydrogen h)) (all_option all_virtual_hydrogen) = true.
Proof. vm_compute. split; reflexivity. Qed.
Lemma pp_kind_nk k : pp_kind (nk_kind k) = pp_kind k.
Proof.
  destruct k as [| | |i s c h g m]; try reflexivity. destruct display_nk_checks as [H1 H2]. rewrite forallb_forall in H1, H2.
  pose proof (H1 c (all_option_complete _ all_configuration_complete c)) as Hc. pose proof (H2 h (all_option_complete _ all_virtual_hydrogen_complete h)) as Hh.
  apply String.eqb_eq in Hc, Hh. unfold pp_kind, nk_kind, display_kind. rewrite Hc, Hh. reflexivity.
Qed.
Lemma w_step_nk s e : w_step s (nkev e) = w_step s e.
Proof. destruct e as [k|b k| |]; cbn [nkev w_step]; rewrite ?pp_kind_nk; reflexivity. Qed.
Lemma w_fold_nk : forall h s, w_fold s (map nkev h) = w_fold s h.
Proof. induction h as [|e t IH]; intros s; cbn [map w_fold]; [reflexivity|]. rewrite w_step_nk. destruct (w_step s e); [apply IH | reflexivity]. Qed.
Lemma wr_nk h : wr (map nkev h) = wr h.
Proof. unfold wr. rewrite w_fold_nk. reflexivity. Qed.
(* re-writing what was read from writer output reproduces it character for character *)
Theorem C09_rewrite_fixed_point : forall h, conformant_history h -> Forall okev h ->
  exists text h', wr h = Some text /\ rd text = (VOk, h') /\ wr h' = Some text.
Proof.
  intros h Hc Hok. destruct (C09_inverse h Hc Hok) as [text [Hw Hr]]. exists text, (map nkev h). split; [exact Hw|]. split; [exact Hr|]. rewrite wr_nk. exact Hw.
Qed.
(* the writer never panics on a conformant history (no values needed) *)
Theorem writer_total : forall h, conformant_history h -> exists text, wr h = Some text.
Proof.
  intros h Hc. pose proof (conformant_history_P h Hc) as HP. destruct h as [|[k0| | | ] t]; try contradiction. cbn [conformantP confP] in HP.
  set (seg0 := {| slink := None; skind := k0; sitems := [] |}).
  assert (Hw0 : wfstack [seg0]) by (split; [reflexivity|constructor]).
  destruct (sw_fold_ok t [seg0] Hw0 HP) as [S' [E' _]].
  unfold wr. cbn [w_fold w_step app].
  assert (Hp0 : [pp_kind k0] = map pp_seg [seg0]).
  { cbn [map]. unfold pp_seg. cbn [seg0 slink skind sitems pp_olink map concat app]. rewrite app_nil_r. reflexivity. }
  rewrite Hp0. rewrite (w_fold_hom t [seg0] Hw0 HP). rewrite E'. eexists. reflexivity.
Qed.
