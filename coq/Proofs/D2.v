From Coq Require Import List NArith Lia Bool Arith.
Import ListNotations.
Require Import P.Generated.Enums P.Spec.Values P.Generated.Tables P.Model.Base P.Model.Pool P.Proofs.PoolSpec P.Model.Walk P.Model.Builder P.Proofs.D0 P.Proofs.D1 P.Proofs.D3.

Section D2.
Variable g : list atom.
Notation n := (length g).
Notation bonds_of := (bonds_of g).
Notation atom_at := (atom_at g).
Notation phi := phi.
Notation nonback := (nonback g).
Notation processed := (processed g).
Notation pending := (pending g).

(* ---------- the builder relation ---------- *)
Definition mk_edge k t := {| ek := k; etgt := TId t |}.
Definition back_edges (gh : ghost) x : list edge :=
  match par gh x with
  | None => []
  | Some p => match find_to p (bonds_of x) with Some bb => [mk_edge (bk bb) (phi gh p)] | None => [] end
  end.
(* what the builder must hold for a processed bond c of atom u *)
Definition edge_ok (gh : ghost) (p : pool) (u : nat) (c : bond) (e : edge) : Prop :=
  match par gh (tid c) with
  | Some q => if Nat.eqb q u then e = mk_edge (bk c) (phi gh (tid c))
              else match lookup (borrowed p) (u, tid c) with
                   | Some r => ek e = bk c /\ exists rid, etgt e = TRnum rid (phi gh u) r
                   | None => e = mk_edge (bk c) (phi gh (tid c)) end
  | None => match lookup (borrowed p) (u, tid c) with
            | Some r => ek e = bk c /\ exists rid, etgt e = TRnum rid (phi gh u) r
            | None => e = mk_edge (bk c) (phi gh (tid c)) end
  end.
(* the kind the builder ends up with: untouched for a root; walk adjustment then builder inversion for a child *)
Definition kind_final (gh : ghost) x : kind :=
  match par gh x with
  | None => akind (atom_at x)
  | Some p => inv (wadj (index_of p (map tid (bonds_of x))) (akind (atom_at x)))
  end.
Definition node_ok (gh : ghost) (p : pool) (x : nat) (nd : node) : Prop :=
  nkind nd = kind_final gh x /\
  exists es, edges nd = back_edges gh x ++ es /\ Forall2 (edge_ok gh p x) (processed gh x) es.
Definition tree_child (gh : ghost) u (c : bond) := par gh (tid c) = Some u.

Record bsim (gh : ghost) (s : wstate) (b : bstate) : Prop := {
  bs_len : length (graph b) = length (order gh);
  bs_stack : exists junk, bstack b = map (phi gh) (chain s) ++ junk;
  bs_nodes : forall x, In x (order gh) -> exists nd, nth_error (graph b) (phi gh x) = Some nd /\ node_ok gh (wpool s) x nd;
  bs_opens : opens b = mirror (phi gh) (borrowed (wpool s));
  bs_err : errors b = [];
  bs_pinv : pinv (wpool s);
  bs_pairs : pairs_distinct (borrowed (wpool s));
  (* every open closure was opened from its first component, whose bond is processed while the partner's is not *)
  bs_open : forall u v r, In ((u, v), r) (borrowed (wpool s)) ->
            In u (order gh) /\ In v (order gh) /\ (exists c, In c (processed gh u) /\ tid c = v) /\
            ~ (exists c', In c' (processed gh v) /\ tid c' = u) /\ par gh v <> Some u;
  (* a processed ring bond that is not open has a processed partner *)
  bs_closed : forall u c, In u (order gh) -> In c (processed gh u) -> ~ tree_child gh u c ->
              lookup (borrowed (wpool s)) (u, tid c) = None -> exists c', In c' (processed gh (tid c)) /\ tid c' = u
}.

(* ---------- pure builder facts ---------- *)
Lemma add_edge_same gr i e nd : nth_error gr i = Some nd ->
  nth_error (add_edge gr i e) i = Some {| nkind := nkind nd; edges := edges nd ++ [e] |}.
Proof.
  intros H. unfold add_edge. rewrite H. apply nth_error_set_nth_same. apply nth_error_Some. congruence.
Qed.
Lemma add_edge_other gr i j e : i <> j -> nth_error (add_edge gr i e) j = nth_error gr j.
Proof. intros H. unfold add_edge. destruct (nth_error gr i); [apply nth_error_set_nth_other; exact H | reflexivity]. Qed.
Lemma add_edge_length gr i e : length (add_edge gr i e) = length gr.
Proof. unfold add_edge. destruct (nth_error gr i); [apply set_nth_length | reflexivity]. Qed.

Lemma bstep_pop b d : bstep b (EPop d) = Some {| bstack := skipn d (bstack b); graph := graph b; opens := opens b; errors := errors b; rid := rid b |}.
Proof. reflexivity. Qed.

Lemma bstep_extend b sid rest k kd nd : bstack b = sid :: rest -> safe kd -> nth_error (graph b) sid = Some nd ->
  bstep b (EExtend k kd) =
  Some {| bstack := length (graph b) :: bstack b;
          graph := add_edge (graph b ++ [{| nkind := inv kd; edges := [mk_edge (reverse k) sid] |}]) sid (mk_edge k (length (graph b)));
          opens := opens b; errors := errors b; rid := rid b |}.
Proof.
  intros Hs Hk Hn. cbn [bstep]. rewrite Hs. rewrite (invert_safe kd Hk). rewrite Hn. reflexivity.
Qed.

Lemma bfold_app : forall h1 h2 b, bfold b (h1 ++ h2) = match bfold b h1 with Some b' => bfold b' h2 | None => None end.
Proof. induction h1 as [|e h1 IH]; intros h2 b; cbn [app bfold]; [reflexivity|]. destruct (bstep b e); [apply IH | reflexivity]. Qed.

Lemma rev_popped (s : wstate) pre : rev (popped s pre) = rev (evs s) ++ (if Nat.eqb (length pre) 0 then [] else [EPop (length pre)]).
Proof. unfold popped. destruct (Nat.eqb (length pre) 0); [rewrite app_nil_r; reflexivity | reflexivity]. Qed.

(* after the optional pop the builder's head is the source atom; nothing else moved *)
Lemma skipn_app_len {A} (a b : list A) : skipn (length a) (a ++ b) = b.
Proof. induction a; simpl; auto. Qed.

Lemma builder_popped gh s b pre x post : bsim gh s b -> chain s = pre ++ x :: post ->
  exists b1 junk, bfold b (if Nat.eqb (length pre) 0 then [] else [EPop (length pre)]) = Some b1 /\
                  bstack b1 = phi gh x :: map (phi gh) post ++ junk /\
                  graph b1 = graph b /\ opens b1 = opens b /\ errors b1 = errors b /\ rid b1 = rid b.
Proof.
  intros B Ech. destruct (bs_stack gh s b B) as [junk Hst].
  assert (Hst' : bstack b = map (phi gh) pre ++ (phi gh x :: map (phi gh) post ++ junk)).
  { rewrite Hst, Ech, map_app. cbn [map]. rewrite <- app_assoc. reflexivity. }
  destruct pre as [|z pre].
  - exists b, junk. repeat split. exact Hst'.
  - change (Nat.eqb (length (z :: pre)) 0) with false. cbv iota. cbn [bfold bstep]. eexists _, junk. split; [reflexivity|]. cbn [bstack graph opens errors rid]. repeat split.
    rewrite Hst'. rewrite <- (map_length (phi gh) (z :: pre)). apply skipn_app_len.
Qed.
End D2.
