(* C04, completeness: every sentence of the declarative grammar (Spec/Lang.v) is accepted by the reader.
   The grammar does not say where a token ends or which alternative applies; the reader is greedy and tries the
   alternatives in a fixed order.  The argument is LL(1): whatever may follow a complete item (F_body) never
   continues a spelling (LangTokens: no_ext_b checks) and the first characters of the alternatives are disjoint. *)
From Coq Require Import String.
From Coq Require Import List NArith Lia Bool Arith.
Import ListNotations.
Require Import P.Generated.Enums P.Meta.Scan P.Spec.Values P.Spec.Reading P.Generated.Trees
  P.Model.Base P.Model.Token P.Model.Reader P.Model.SimpleReader P.Proofs.ReaderSim
  P.Spec.Lang P.Proofs.LangTrie P.Proofs.LangDigits P.Proofs.LangTokens P.Proofs.LangAtoms P.Proofs.LangSound.
Strategy opaque [tree_symbol tree_organic tree_configuration tree_charge tree_bond tree_rnum tree_hcount tree_isotope tree_map].
Strategy opaque [trie_of heads].

Scheme Chain_mind := Minimality for Chain Sort Prop
with Items_mind := Minimality for Items Sort Prop
with Item_mind := Minimality for Item Sort Prop.
Combined Scheme lang_mutind from Chain_mind, Items_mind, Item_mind.

(* ---------- first characters ---------- *)
Definition stopper (tl : list N) : Prop := match tl with [] => True | c :: _ => c = RP end.
Definition starts_all : list N := bond_starts ++ atom_starts ++ rnum_starts ++ [RP].

Lemma first_char_checks :
  disj_b starts_all [LP; DOT] = true /\ disj_b (atom_starts ++ rnum_starts ++ [RP]) bond_starts = true /\
  disj_b (rnum_starts ++ [RP]) atom_starts = true /\ disj_b [RP] rnum_starts = true /\
  forallb (fun c => mem c F_body) (LP :: DOT :: starts_all) = true.
Proof. vm_compute. repeat split; reflexivity. Qed.

Lemma hd_in_weaken w l1 l2 : (forall c, In c l1 -> In c l2) -> hd_in w l1 -> hd_in w l2.
Proof. intros H Hw. destruct w as [|c w']; [exact I | apply H; exact Hw]. Qed.
Lemma in_F_body c : In c (LP :: DOT :: starts_all) -> In c F_body.
Proof. destruct first_char_checks as [_ [_ [_ [_ H]]]]. intros Hc. apply mem_In. exact (forallb_In _ _ _ H Hc). Qed.
Lemma not_lp_dot c : In c starts_all -> N.eqb c LP = false /\ N.eqb c DOT = false.
Proof.
  destruct first_char_checks as [H _]. intros Hc. pose proof (disj_out _ _ [c] H Hc) as Hn. cbn [hd_out In] in Hn.
  split; apply N.eqb_neq; intros ->; apply Hn; auto.
Qed.
Lemma stopper_starts tl : stopper tl -> hd_in tl starts_all.
Proof. destruct tl as [|c t]; [intros _; exact I|]. cbn [stopper hd_in]. intros ->. unfold starts_all. repeat (apply in_or_app; right). left. reflexivity. Qed.

Lemma atom_hd a w : Atom a -> hd_in (a ++ w) atom_starts.
Proof. intros Ha. destruct (atom_head a Ha) as [c [t [-> Hc]]]. exact Hc. Qed.
Lemma rnum_hd r w : Rnum r -> hd_in (r ++ w) rnum_starts.
Proof. intros Hr. destruct (rnum_head r Hr) as [c [t [-> Hc]]]. exact Hc. Qed.
Lemma optbond_hd b w l : opt Bond b -> hd_in w l -> hd_in (b ++ w) (bond_starts ++ l).
Proof.
  intros [->|Hb] Hw.
  - cbn [app]. eapply hd_in_weaken; [|exact Hw]. intros c Hc. apply in_or_app. right. exact Hc.
  - destruct (bond_head b Hb) as [c [t [-> Hc]]]. cbn [app hd_in]. apply in_or_app. left. exact Hc.
Qed.
Lemma item_hd i w : Item i -> hd_in (i ++ w) F_body.
Proof.
  intros Hi. destruct Hi as [p x Hp Hx|a Ha|b a Hb Ha|b r Hb Hr].
  - change (str "(") with [LP]. cbn [app hd_in]. apply in_F_body. left. reflexivity.
  - change (str ".") with [DOT]. cbn [app hd_in]. apply in_F_body. right. left. reflexivity.
  - rewrite <- app_assoc. eapply hd_in_weaken; [|apply (optbond_hd b (a ++ w) atom_starts Hb (atom_hd a w Ha))].
    intros c Hc. apply in_F_body. right. right. unfold starts_all. apply in_app_or in Hc as [Hc|Hc]; apply in_or_app; [left; exact Hc | right; apply in_or_app; left; exact Hc].
  - rewrite <- app_assoc. eapply hd_in_weaken; [|apply (optbond_hd b (r ++ w) rnum_starts Hb (rnum_hd r w Hr))].
    intros c Hc. apply in_F_body. right. right. unfold starts_all. apply in_app_or in Hc as [Hc|Hc]; apply in_or_app; [left; exact Hc | right; apply in_or_app; right; apply in_or_app; left; exact Hc].
Qed.
Lemma items_hd r tl : Items r -> stopper tl -> hd_in (r ++ tl) F_body.
Proof.
  intros Hr Ht. destruct Hr as [|i r' Hi Hr'].
  - cbn [app]. eapply hd_in_weaken; [|apply stopper_starts; exact Ht]. intros c Hc. apply in_F_body. right. right. exact Hc.
  - rewrite <- app_assoc. apply item_hd. exact Hi.
Qed.
Lemma atom_len a : Atom a -> 1 <= length a.
Proof. intros Ha. destruct (atom_head a Ha) as [c [t [-> _]]]. cbn [length]. lia. Qed.
Lemma item_len i : Item i -> 1 <= length i.
Proof.
  intros Hi. destruct Hi as [p x Hp Hx|a Ha|b a Hb Ha|b r Hb Hr]; repeat rewrite app_length.
  - change (length (str "(")) with 1. lia.
  - change (length (str ".")) with 1. lia.
  - pose proof (atom_len a Ha). lia.
  - destruct (rnum_head r Hr) as [c [t [-> _]]]. cbn [length]. lia.
Qed.

(* ---------- one iteration of the loop ---------- *)
Lemma sadv_pair (x : list N) (e : list ev) n : sadv (x, e) n = (skipn n x, e).
Proof. reflexivity. Qed.

Section Step.
Variable rs : option bond_kind -> st -> SR * st.

Lemma branch_not x e : match x with [] => True | c :: _ => N.eqb c LP = false end -> sread_branch rs (x, e) = (inl false, (x, e)).
Proof. unfold sread_branch, speek. cbn [fst]. destruct x as [|c t]; [reflexivity|]. cbn [hd_error]. intros ->. reflexivity. Qed.

Lemma link_atom input a w e : Atom a -> hd_in w F_body -> exists ev, sread_link input (a ++ w, e) = (inl true, (w, ev :: e)).
Proof.
  intros Ha Hw. unfold sread_link. cbn [fst]. destruct (atom_complete a w Ha Hw) as [k E]. rewrite E.
  eexists. rewrite sadv_pair, skipn_len_app. reflexivity.
Qed.
Lemma link_none input w e : hd_out w atom_starts -> sread_link input (w, e) = (inl false, (w, e)).
Proof. intros Hw. unfold sread_link. cbn [fst]. rewrite (atom_absent w Hw). reflexivity. Qed.

(* the optional bond in front of an atom or a ring number *)
Lemma bond_prefix b w : opt Bond b -> hd_in w (atom_starts ++ rnum_starts) -> w <> [] ->
  exists bk, read_bond (b ++ w) = (bk, length b) /\ hd_in (b ++ w) starts_all.
Proof.
  intros Hb Hw Hne. destruct first_char_checks as [_ [D2 _]]. destruct Hb as [->|Hb].
  - exists BK_Elided. cbn [app length]. split.
    + apply bond_read_absent. apply (disj_out _ _ _ D2). eapply hd_in_weaken; [|exact Hw].
      intros c Hc. rewrite app_assoc. apply in_or_app. left. exact Hc.
    + eapply hd_in_weaken; [|exact Hw]. intros c Hc. unfold starts_all. apply in_or_app. right. rewrite app_assoc. apply in_or_app. left. exact Hc.
  - destruct (bond_read_complete b w Hb Hw) as [bk [E _]]. exists bk. split; [exact E|].
    destruct (bond_head b Hb) as [c [t [-> Hc]]]. cbn [app hd_in]. unfold starts_all. apply in_or_app. left. exact Hc.
Qed.
Lemma not_dot_peek (x : list N) e : hd_in x starts_all -> match speek (x, e) with Some c => N.eqb c DOT | None => false end = false.
Proof. unfold speek. cbn [fst]. destruct x as [|c t]; [reflexivity|]. cbn [hd_in hd_error]. intros Hc. apply (not_lp_dot c Hc). Qed.
Lemma not_lp x : hd_in x starts_all -> match x with [] => True | c :: _ => N.eqb c LP = false end.
Proof. destruct x as [|c t]; [auto|]. cbn [hd_in]. intros Hc. apply (not_lp_dot c Hc). Qed.

Lemma step_dot g a w e acc : Atom a -> hd_in w F_body ->
  exists e', sloop rs (S g) (str "." ++ a ++ w, e) acc = sloop rs g (w, e') (S acc).
Proof.
  intros Ha Hw. change (str ".") with [DOT]. cbn [app sloop]. rewrite branch_not by reflexivity.
  cbn [speek fst hd_error]. rewrite N.eqb_refl. rewrite sadv_pair. cbn [skipn].
  destruct (link_atom None a w e Ha Hw) as [ev E]. rewrite E. eexists. reflexivity.
Qed.
Lemma step_atom g b a w e acc : opt Bond b -> Atom a -> hd_in w F_body ->
  exists e', sloop rs (S g) (b ++ a ++ w, e) acc = sloop rs g (w, e') (S acc).
Proof.
  intros Hb Ha Hw.
  assert (Hne : a ++ w <> []) by (destruct (atom_head a Ha) as [c [t [-> _]]]; discriminate).
  assert (Haw : hd_in (a ++ w) (atom_starts ++ rnum_starts)).
  { eapply hd_in_weaken; [|apply (atom_hd a w Ha)]. intros c Hc. apply in_or_app. left. exact Hc. }
  destruct (bond_prefix b (a ++ w) Hb Haw Hne) as [bk [Eb Hall]].
  cbn [sloop]. rewrite (branch_not _ _ (not_lp _ Hall)). rewrite (not_dot_peek _ _ Hall). cbn [fst]. rewrite Eb.
  rewrite sadv_pair, skipn_len_app. destruct (link_atom (Some bk) a w e Ha Hw) as [ev E]. rewrite E. eexists. reflexivity.
Qed.
Lemma step_ring g b r w e acc : opt Bond b -> Rnum r -> hd_in w F_body ->
  exists e', sloop rs (S g) (b ++ r ++ w, e) acc = sloop rs g (w, e') acc.
Proof.
  intros Hb Hr Hw. destruct first_char_checks as [_ [_ [D3 _]]].
  assert (Hne : r ++ w <> []) by (destruct (rnum_head r Hr) as [c [t [-> _]]]; discriminate).
  assert (Hrw : hd_in (r ++ w) (atom_starts ++ rnum_starts)).
  { eapply hd_in_weaken; [|apply (rnum_hd r w Hr)]. intros c Hc. apply in_or_app. right. exact Hc. }
  destruct (bond_prefix b (r ++ w) Hb Hrw Hne) as [bk [Eb Hall]].
  cbn [sloop]. rewrite (branch_not _ _ (not_lp _ Hall)). rewrite (not_dot_peek _ _ Hall). cbn [fst]. rewrite Eb.
  rewrite sadv_pair, skipn_len_app. rewrite link_none.
  - cbn [fst]. destruct (rnum_read_complete r w Hr Hw) as [v E]. rewrite E. rewrite sadv_pair, skipn_len_app. eexists. reflexivity.
  - apply (disj_out _ _ _ D3). eapply hd_in_weaken; [|apply (rnum_hd r w Hr)]. intros c Hc. apply in_or_app. left. exact Hc.
Qed.
Lemma step_stop g tl e acc : stopper tl -> sloop rs (S g) (tl, e) acc = (inl (Some acc), (tl, e)).
Proof.
  intros Ht. pose proof (stopper_starts tl Ht) as Hall. destruct first_char_checks as [_ [D2 [D3 [D4 _]]]].
  assert (Hrp : hd_in tl [RP]) by (destruct tl as [|c t]; [exact I | left; symmetry; exact Ht]).
  cbn [sloop]. rewrite (branch_not _ _ (not_lp _ Hall)). rewrite (not_dot_peek _ _ Hall). cbn [fst].
  rewrite bond_read_absent.
  - rewrite sadv_pair. cbn [skipn]. rewrite link_none.
    + cbn [fst]. rewrite rnum_read_absent by (apply (disj_out _ _ _ D4); exact Hrp). reflexivity.
    + apply (disj_out _ _ _ D3). eapply hd_in_weaken; [|exact Hrp]. intros c Hc. apply in_or_app. right. exact Hc.
  - apply (disj_out _ _ _ D2). eapply hd_in_weaken; [|exact Hrp]. intros c Hc. apply in_or_app. right. apply in_or_app. right. exact Hc.
Qed.

(* a branch, given that rs reads the chain inside *)
Lemma step_branch g p x w e acc : p = str "." \/ opt Bond p -> Chain x ->
  (forall input e0, exists n e1, rs input (x ++ str ")" ++ w, e0) = (inl (Some n), (str ")" ++ w, e1))) ->
  exists e', sloop rs (S g) (str "(" ++ p ++ x ++ str ")" ++ w, e) acc = sloop rs g (w, e') acc.
Proof.
  intros Hp Hx Hrs. change (str "(") with [LP]. cbn [app sloop].
  assert (Hb : exists n e1, sread_branch rs (LP :: p ++ x ++ str ")" ++ w, e) = (inl true, (w, EPop n :: e1))).
  { unfold sread_branch. cbn [speek fst hd_error]. rewrite N.eqb_refl. rewrite sadv_pair. cbn [skipn].
    assert (Hfin : forall n e1, (match speek (str ")" ++ w, e1) with
                                 | Some c'' => if N.eqb c'' RP then (inl true, semit (sadv (str ")" ++ w, e1) 1) (EPop n)) else (inr VErr, (str ")" ++ w, e1))
                                 | None => (inr VErr, (str ")" ++ w, e1)) end) = (@inl bool sverdict true, (w, EPop n :: e1))).
    { intros n e1. change (str ")") with [RP]. cbn [app speek fst hd_error]. rewrite N.eqb_refl. reflexivity. }
    destruct Hp as [->|Hp].
    - change (str ".") with [DOT]. cbn [app speek fst hd_error]. rewrite N.eqb_refl. rewrite sadv_pair. cbn [skipn].
      destruct (Hrs None e) as [n [e1 E]]. rewrite E. exists n, e1. apply Hfin.
    - assert (Hx0 : exists a r, x = a ++ r /\ Atom a) by (destruct Hx as [a r Ha _]; exists a, r; auto).
      destruct Hx0 as [a [r [Ex Ha]]].
      assert (Hne : x ++ str ")" ++ w <> []) by (rewrite Ex; destruct (atom_head a Ha) as [c [t [-> _]]]; discriminate).
      assert (Hxw : hd_in (x ++ str ")" ++ w) (atom_starts ++ rnum_starts)).
      { rewrite Ex, <- app_assoc. eapply hd_in_weaken; [|apply (atom_hd a _ Ha)]. intros c Hc. apply in_or_app. left. exact Hc. }
      destruct (bond_prefix p _ Hp Hxw Hne) as [bk [Eb Hall]].
      assert (Hnd : match speek (p ++ x ++ str ")" ++ w, e) with Some c' => N.eqb c' DOT | None => false end = false)
        by (apply (not_dot_peek _ e Hall)).
      destruct (Hrs (Some bk) e) as [n [e1 E]]. exists n, e1.
      destruct (speek (p ++ x ++ str ")" ++ w, e)) as [c'|] eqn:Eh.
      + rewrite Hnd. cbn [fst]. rewrite Eb. rewrite sadv_pair, skipn_len_app. rewrite E. apply Hfin.
      + cbn [fst]. rewrite Eb. rewrite sadv_pair, skipn_len_app. rewrite E. apply Hfin. }
  destruct Hb as [n [e1 Eb]]. unfold char in *. rewrite Eb. eexists. reflexivity.
Qed.
End Step.

(* ---------- the grammar, by mutual induction ---------- *)
Definition P_chain (x : list N) : Prop := forall f input tl e, length x < f -> stopper tl ->
  exists n e', sread_smiles f input (x ++ tl, e) = (inl (Some n), (tl, e')).
Definition P_items (r : list N) : Prop := forall f g acc tl e, length r < f -> length r < g -> stopper tl ->
  exists n e', sloop (sread_smiles f) g (r ++ tl, e) acc = (inl (Some n), (tl, e')).
Definition P_item (i : list N) : Prop := forall f g acc w e, length i < f -> hd_in w F_body ->
  exists acc' e', sloop (sread_smiles f) (S g) (i ++ w, e) acc = sloop (sread_smiles f) g (w, e') acc'.

Lemma stopper_body tl : stopper tl -> hd_in tl F_body.
Proof. intros Ht. eapply hd_in_weaken; [|apply stopper_starts; exact Ht]. intros c Hc. apply in_F_body. right. right. exact Hc. Qed.

Theorem grammar_read : (forall x, Chain x -> P_chain x) /\ (forall r, Items r -> P_items r) /\ (forall i, Item i -> P_item i).
Proof.
  apply lang_mutind.
  - (* chain *) intros a r Ha Hr IHr f input tl e Hf Ht. destruct f as [|f]; [lia|]. cbn [sread_smiles].
    rewrite <- app_assoc. destruct (link_atom input a (r ++ tl) e Ha (items_hd r tl Hr Ht)) as [ev E]. rewrite E. cbn [fst].
    pose proof (atom_len a Ha) as Hla. rewrite app_length in Hf.
    apply IHr; [lia | rewrite app_length; lia | exact Ht].
  - (* no more items *) intros f g acc tl e _ Hg Ht. destruct g as [|g]; [cbn [length] in Hg; lia|]. cbn [app].
    rewrite step_stop by exact Ht. eexists. eexists. reflexivity.
  - (* item, items *) intros i r Hi IHi Hr IHr f g acc tl e Hf Hg Ht. rewrite app_length in Hf, Hg. pose proof (item_len i Hi) as Hli.
    destruct g as [|g]; [lia|]. rewrite <- app_assoc.
    destruct (IHi f g acc (r ++ tl) e ltac:(lia) (items_hd r tl Hr Ht)) as [acc' [e' E]]. rewrite E.
    apply IHr; [lia | lia | exact Ht].
  - (* branch *) intros p x Hp Hx IHx f g acc w e Hf Hw. repeat rewrite <- app_assoc.
    assert (Hlen : length x < f).
    { repeat rewrite app_length in Hf. lia. }
    destruct (step_branch (sread_smiles f) g p x w e acc Hp Hx) as [e' E].
    + intros input e0. apply IHx; [exact Hlen | change (str ")") with [RP]; reflexivity].
    + exists acc, e'. exact E.
  - (* dot atom *) intros a Ha f g acc w e _ Hw. rewrite <- app_assoc.
    destruct (step_dot (sread_smiles f) g a w e acc Ha Hw) as [e' E]. exists (S acc), e'. exact E.
  - (* bond? atom *) intros b a Hb Ha f g acc w e _ Hw. rewrite <- app_assoc.
    destruct (step_atom (sread_smiles f) g b a w e acc Hb Ha Hw) as [e' E]. exists (S acc), e'. exact E.
  - (* bond? rnum *) intros b r Hb Hr f g acc w e _ Hw. rewrite <- app_assoc.
    destruct (step_ring (sread_smiles f) g b r w e acc Hb Hr Hw) as [e' E]. exists acc, e'. exact E.
Qed.

Theorem sread_complete s : Lang s -> fst (sread s) = true.
Proof.
  intros H. destruct grammar_read as [Hc _]. destruct (Hc s H (S (length s)) None [] [] ltac:(lia) I) as [n [e' E]].
  unfold sread. rewrite app_nil_r in E. unfold char in *. rewrite E. reflexivity.
Qed.

(* C04, completeness *)
Theorem reader_complete : forall s, Lang s -> fst (rd s) = VOk.
Proof.
  intros s H. pose proof (read_projects s) as Hp. pose proof (sread_complete s H) as Hs. rewrite <- Hp in Hs. cbn [fst] in Hs.
  destruct (fst (rd s)); try discriminate. reflexivity.
Qed.
