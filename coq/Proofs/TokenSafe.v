(* Facts about the learned token tries that hold for EVERY input string (C06 token level, premises of termination):
   no panic leaf is reachable; "no token here" never consumes; a token that is read consumes at least one character;
   values are in range.  Each is a finite computation over the covering family, lifted by forall_by_family. *)
From Coq Require Import List String Ascii ZArith NArith Lia Bool Arith.
Import ListNotations.
Require Import P.Generated.Enums P.Spec.Values P.Generated.Tables P.Meta.Scan P.Meta.ScanMeta P.Generated.Trees P.Model.Base P.Model.Token P.Checks.Token_defs.

Lemma omega_out : inA alphabet omega = false. Proof. vm_compute. reflexivity. Qed.
Lemma pats_ok {V} (t : tree V) : pats_in_alphabet t = true -> Forall (pat_ok alphabet) (pats t).
Proof.
  unfold pats_in_alphabet. intros H. rewrite forallb_forall in H. apply Forall_forall. intros p Hp. specialize (H p Hp).
  destruct p as [c|lo hi]; [|discriminate]. intros x Hx. cbn [pmatch]. destruct (N.eqb_spec c x) as [->|]; [|reflexivity].
  unfold inA in Hx. congruence.
Qed.
Definition every {V} (t : tree V) (Q : res V -> bool) : Prop := forall s, Q (run t s 0 0) = true.
Lemma every_by_family {V} (t : tree V) (Q : res V -> bool) :
  pats_in_alphabet t = true -> forallb (fun r => Q (run t r 0 0)) (family t) = true -> every t Q.
Proof. intros Hp Hf s. apply (forall_by_family V alphabet omega omega_out t Q (pats_ok t Hp) Hf). Qed.

(* the shape of an outcome a production may have *)
Definition sane {V} (min_pos : nat) (vok : V -> bool) (r : res V) : bool :=
  match r_out r with
  | OVal v => (min_pos <=? r_pos r) && vok v
  | ONone => Nat.eqb (r_pos r) 0
  | OErrEol | OErrChar _ => true
  | OPanic _ => false
  end.
Definition any {V} (_ : V) := true.
Lemma sane_symbol : every tree_symbol (sane 1 any). Proof. apply every_by_family; vm_compute; reflexivity. Qed.
Lemma sane_organic : every tree_organic (sane 1 (fun o => match o with Org_Other => false | _ => true end)). Proof. apply every_by_family; vm_compute; reflexivity. Qed.
Lemma sane_configuration : every tree_configuration (sane 1 any). Proof. apply every_by_family; vm_compute; reflexivity. Qed.
Lemma sane_charge : every tree_charge (sane 1 any). Proof. apply every_by_family; vm_compute; reflexivity. Qed.
Lemma sane_bond : every tree_bond (fun r => match r_out r with OVal _ => true | _ => false end). Proof. apply every_by_family; vm_compute; reflexivity. Qed.
Lemma sane_rnum : every tree_rnum (sane 1 any). Proof. apply every_by_family; vm_compute; reflexivity. Qed.
Lemma sane_hcount : every tree_hcount (sane 1 any). Proof. apply every_by_family; vm_compute; reflexivity. Qed.
Lemma sane_isotope : every tree_isotope (sane 1 (fun n => (n <? 1000)%N)). Proof. apply every_by_family; vm_compute; reflexivity. Qed.
Lemma sane_map : every tree_map (sane 2 (fun n => (n <? 1000)%N)). Proof. apply every_by_family; vm_compute; reflexivity. Qed.

(* consequences for the model's token functions *)
Lemma run_tok_sane {V} (t : tree V) m vok s : every t (sane m vok) ->
  match run_tok t s with TOk v n => m <= n /\ vok v = true | TPanic => False | _ => True end.
Proof.
  intros H. specialize (H s). unfold run_tok, of_run, sane in *. destruct (r_out (run t s 0 0)); try exact I.
  - apply andb_true_iff in H as [H1 H2]. apply Nat.leb_le in H1. auto.
  - rewrite H. exact I.
  - discriminate.
Qed.
Lemma read_organic_sane s : match read_organic s with TOk _ n => 1 <= n | TPanic => False | _ => True end.
Proof.
  unfold read_organic. pose proof (run_tok_sane tree_organic 1 _ s sane_organic) as H.
  destruct (run_tok tree_organic s) as [[a|a|] n| | | |]; try exact I; try (destruct H; assumption); destruct H; discriminate.
Qed.
Lemma read_rnum_sane s : match read_rnum s with TOk r n => 1 <= n /\ (r < 100)%N | TPanic => False | _ => True end.
Proof.
  unfold read_rnum. pose proof (run_tok_sane tree_rnum 1 _ s sane_rnum) as H.
  destruct (run_tok tree_rnum s) as [r n| | | |]; try exact I; try exact H. destruct H as [H _]. split; [exact H|].
  assert (Hall : forallb (fun r => (rnum_number r <? 100)%N) all_rnum = true) by (vm_compute; reflexivity).
  rewrite forallb_forall in Hall. apply N.ltb_lt. apply Hall, all_rnum_complete.
Qed.
Lemma sane_symbol' : every tree_symbol (fun r => match r_out r with OVal _ => (1 <=? r_pos r) | OErrEol | OErrChar _ => true | _ => false end).
Proof. apply every_by_family; vm_compute; reflexivity. Qed.

Lemma run_tok_symbol s : match run_tok tree_symbol s with TOk _ n => 1 <= n | TNo | TPanic => False | _ => True end.
Proof.
  pose proof (sane_symbol' s) as H. unfold run_tok, of_run. cbv beta in H. destruct (r_out (run tree_symbol s 0 0)); try discriminate; try exact I.
  apply Nat.leb_le in H. exact H.
Qed.
Definition in_range_b (o : option N) : bool := match o with Some n => (n <? 1000)%N | None => true end.
Definition kind_fine (k : kind) : Prop := match k with AK_Bracket i _ _ _ _ m => in_range_b i = true /\ in_range_b m = true | _ => True end.
Definition fine (t : tok kind) : Prop := match t with TOk k n => 1 <= n /\ kind_fine k | TPanic => False | _ => True end.

Lemma read_bracket_sane s : fine (read_bracket s).
Proof.
  unfold read_bracket. destruct s as [|c s']; [exact I|]. destruct (N.eqb c LB); [|exact I].
  set (str := c :: s').
  pose proof (run_tok_sane tree_isotope 1 _ (skipn 1 str) sane_isotope) as H1.
  destruct (run_tok tree_isotope (skipn 1 str)) as [iso n1| | | |]; cbn [bind_opt]; try exact I; try contradiction.
  - (* isotope present *)
    destruct H1 as [_ Hiso].
    assert (G : forall io o, in_range_b io = true -> fine (
      bind_req (run_tok tree_symbol (skipn o str)) o (fun sym o =>
      bind_opt (run_tok tree_configuration (skipn o str)) o (fun cfg o =>
      bind_opt (run_tok tree_hcount (skipn o str)) o (fun h o =>
      bind_opt (run_tok tree_charge (skipn o str)) o (fun chg o =>
      bind_opt (run_tok tree_map (skipn o str)) o (fun mp o =>
        match skipn o str with
        | c' :: _ => if N.eqb c' RB then TOk (AK_Bracket io sym cfg h chg mp) (S o) else TErrChar o
        | [] => TErrEol end))))))).
    { intros io o Hio.
      pose proof (run_tok_symbol (skipn o str)) as H2.
      destruct (run_tok tree_symbol (skipn o str)) as [sym n2| | | |]; cbn [bind_req]; try exact I; try contradiction.
      set (o2 := o + n2).
      pose proof (run_tok_sane tree_configuration 1 _ (skipn o2 str) sane_configuration) as H3.
      assert (G3 : forall cfg o3, fine (
        bind_opt (run_tok tree_hcount (skipn o3 str)) o3 (fun h o =>
        bind_opt (run_tok tree_charge (skipn o str)) o (fun chg o =>
        bind_opt (run_tok tree_map (skipn o str)) o (fun mp o =>
          match skipn o str with
          | c' :: _ => if N.eqb c' RB then TOk (AK_Bracket io sym cfg h chg mp) (S o) else TErrChar o
          | [] => TErrEol end))))).
      { intros cfg o3. pose proof (run_tok_sane tree_hcount 1 _ (skipn o3 str) sane_hcount) as H4.
        assert (G4 : forall h o4, fine (
          bind_opt (run_tok tree_charge (skipn o4 str)) o4 (fun chg o =>
          bind_opt (run_tok tree_map (skipn o str)) o (fun mp o =>
            match skipn o str with
            | c' :: _ => if N.eqb c' RB then TOk (AK_Bracket io sym cfg h chg mp) (S o) else TErrChar o
            | [] => TErrEol end)))).
        { intros h o4. pose proof (run_tok_sane tree_charge 1 _ (skipn o4 str) sane_charge) as H5.
          assert (G5 : forall chg o5, fine (
            bind_opt (run_tok tree_map (skipn o5 str)) o5 (fun mp o =>
              match skipn o str with
              | c' :: _ => if N.eqb c' RB then TOk (AK_Bracket io sym cfg h chg mp) (S o) else TErrChar o
              | [] => TErrEol end))).
          { intros chg o5. pose proof (run_tok_sane tree_map 2 _ (skipn o5 str) sane_map) as H6.
            assert (G6 : forall mp o6, in_range_b mp = true -> fine (
                match skipn o6 str with
                | c' :: _ => if N.eqb c' RB then TOk (AK_Bracket io sym cfg h chg mp) (S o6) else TErrChar o6
                | [] => TErrEol end)).
            { intros mp o6 Hmp. destruct (skipn o6 str) as [|c' x]; [exact I|]. destruct (N.eqb c' RB); [|exact I]. cbn [fine kind_fine]. split; [lia | split; assumption]. }
            destruct (run_tok tree_map (skipn o5 str)) as [mp n6| | | |]; cbn [bind_opt]; try exact I; try contradiction.
            - apply G6. destruct H6 as [_ H6]. exact H6.
            - apply G6. reflexivity. }
          destruct (run_tok tree_charge (skipn o4 str)) as [chg n5| | | |]; cbn [bind_opt]; try exact I; try contradiction; apply G5. }
        destruct (run_tok tree_hcount (skipn o3 str)) as [h n4| | | |]; cbn [bind_opt]; try exact I; try contradiction; apply G4. }
      destruct (run_tok tree_configuration (skipn o2 str)) as [cfg n3| | | |]; cbn [bind_opt]; try exact I; try contradiction; apply G3. }
    apply G. exact Hiso.
  - (* isotope absent *)
    assert (G : forall io o, in_range_b io = true -> fine (
      bind_req (run_tok tree_symbol (skipn o str)) o (fun sym o =>
      bind_opt (run_tok tree_configuration (skipn o str)) o (fun cfg o =>
      bind_opt (run_tok tree_hcount (skipn o str)) o (fun h o =>
      bind_opt (run_tok tree_charge (skipn o str)) o (fun chg o =>
      bind_opt (run_tok tree_map (skipn o str)) o (fun mp o =>
        match skipn o str with
        | c' :: _ => if N.eqb c' RB then TOk (AK_Bracket io sym cfg h chg mp) (S o) else TErrChar o
        | [] => TErrEol end))))))).
    { intros io o Hio.
      pose proof (run_tok_symbol (skipn o str)) as H2.
      destruct (run_tok tree_symbol (skipn o str)) as [sym n2| | | |]; cbn [bind_req]; try exact I; try contradiction.
      set (o2 := o + n2).
      pose proof (run_tok_sane tree_configuration 1 _ (skipn o2 str) sane_configuration) as H3.
      assert (G3 : forall cfg o3, fine (
        bind_opt (run_tok tree_hcount (skipn o3 str)) o3 (fun h o =>
        bind_opt (run_tok tree_charge (skipn o str)) o (fun chg o =>
        bind_opt (run_tok tree_map (skipn o str)) o (fun mp o =>
          match skipn o str with
          | c' :: _ => if N.eqb c' RB then TOk (AK_Bracket io sym cfg h chg mp) (S o) else TErrChar o
          | [] => TErrEol end))))).
      { intros cfg o3. pose proof (run_tok_sane tree_hcount 1 _ (skipn o3 str) sane_hcount) as H4.
        assert (G4 : forall h o4, fine (
          bind_opt (run_tok tree_charge (skipn o4 str)) o4 (fun chg o =>
          bind_opt (run_tok tree_map (skipn o str)) o (fun mp o =>
            match skipn o str with
            | c' :: _ => if N.eqb c' RB then TOk (AK_Bracket io sym cfg h chg mp) (S o) else TErrChar o
            | [] => TErrEol end)))).
        { intros h o4. pose proof (run_tok_sane tree_charge 1 _ (skipn o4 str) sane_charge) as H5.
          assert (G5 : forall chg o5, fine (
            bind_opt (run_tok tree_map (skipn o5 str)) o5 (fun mp o =>
              match skipn o str with
              | c' :: _ => if N.eqb c' RB then TOk (AK_Bracket io sym cfg h chg mp) (S o) else TErrChar o
              | [] => TErrEol end))).
          { intros chg o5. pose proof (run_tok_sane tree_map 2 _ (skipn o5 str) sane_map) as H6.
            assert (G6 : forall mp o6, in_range_b mp = true -> fine (
                match skipn o6 str with
                | c' :: _ => if N.eqb c' RB then TOk (AK_Bracket io sym cfg h chg mp) (S o6) else TErrChar o6
                | [] => TErrEol end)).
            { intros mp o6 Hmp. destruct (skipn o6 str) as [|c' x]; [exact I|]. destruct (N.eqb c' RB); [|exact I]. cbn [fine kind_fine]. split; [lia | split; assumption]. }
            destruct (run_tok tree_map (skipn o5 str)) as [mp n6| | | |]; cbn [bind_opt]; try exact I; try contradiction.
            - apply G6. destruct H6 as [_ H6]. exact H6.
            - apply G6. reflexivity. }
          destruct (run_tok tree_charge (skipn o4 str)) as [chg n5| | | |]; cbn [bind_opt]; try exact I; try contradiction; apply G5. }
        destruct (run_tok tree_hcount (skipn o3 str)) as [h n4| | | |]; cbn [bind_opt]; try exact I; try contradiction; apply G4. }
      destruct (run_tok tree_configuration (skipn o2 str)) as [cfg n3| | | |]; cbn [bind_opt]; try exact I; try contradiction; apply G3. }
    apply G. reflexivity.
Qed.
(* read_atom never panics; an atom that is read consumes at least one character and its numbers are in range *)
Theorem read_atom_sane s : fine (read_atom s).
Proof.
  unfold read_atom. pose proof (read_organic_sane s) as H.
  destruct (read_organic s) as [k n| | | |] eqn:E; try exact I; try contradiction.
  - unfold read_organic in E. destruct (run_tok tree_organic s) as [[a|a|] m| | | |]; inversion E; subst; split; try exact H; exact I.
  - pose proof (read_bracket_sane s) as Hb. destruct (read_bracket s) as [k n| | | |]; try exact Hb.
    unfold read_star. destruct s as [|c x]; [exact I|]. destruct (N.eqb c STAR); [split; [lia | exact I] | exact I].
Qed.
Lemma read_bond_total s : exists b n, read_bond s = (b, n).
Proof. destruct (read_bond s) as [b n]. eauto. Qed.
