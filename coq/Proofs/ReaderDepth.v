(* Native call depth of the reader is bounded by the parenthesis nesting of the input, not by its length.
   The model's [maxd] counts simultaneously active read_smiles frames; only read_branch (after consuming "(")
   calls read_smiles one level deeper, and it consumes the matching ")" when the callee returns.  Tokens (atoms,
   bonds, ring numbers) never contain a parenthesis, which is checked on the learned tries by a syntactic
   criterion ([guarded]) that is proved sound once for every tree. *)
From Coq Require Import List NArith Lia Bool Arith.
Import ListNotations.
Require Import P.Generated.Enums P.Spec.Values P.Meta.Scan P.Generated.Trees P.Model.Base P.Model.Token P.Model.Reader.

(* keep the kernel from unfolding the (large) learned tries during conversion checks; vm_compute is not affected *)
Strategy opaque [tree_symbol tree_organic tree_configuration tree_charge tree_bond tree_rnum tree_hcount tree_isotope tree_map].

Definition LPc : char := 40%N.  Definition RPc : char := 41%N.

(* ---------- nesting ---------- *)
(* maximum, over the prefixes of [s], of (# "(" - # ")") counted from [open] and clipped at 0 *)
Fixpoint nesting_from (open : nat) (s : list char) : nat :=
  match s with
  | [] => open
  | c :: t => if N.eqb c LPc then Nat.max open (nesting_from (S open) t)
              else if N.eqb c RPc then Nat.max open (nesting_from (open - 1) t)
              else nesting_from open t
  end.
Definition nesting (s : list char) : nat := nesting_from 0 s.

Definition np (c : char) : bool := negb (N.eqb c LPc || N.eqb c RPc).
Definition noparen (x : list char) : bool := forallb np x.

Lemma nf_ge : forall x o, o <= nesting_from o x.
Proof.
  induction x as [|c t IH]; intros o; cbn [nesting_from]; [lia|].
  destruct (N.eqb c LPc); [lia|]. destruct (N.eqb c RPc); [lia | apply IH].
Qed.
Lemma nf_S : forall x o, nesting_from (S o) x <= S (nesting_from o x).
Proof.
  induction x as [|c t IH]; intros o; cbn [nesting_from]; [lia|].
  destruct (N.eqb c LPc); [specialize (IH (S o)); lia|].
  destruct (N.eqb c RPc); [|apply IH].
  replace (S o - 1) with o by lia. destruct o as [|o']; [cbn [Nat.sub]; lia|].
  replace (S o' - 1) with o' by lia. specialize (IH o'). lia.
Qed.
Lemma nf_skip_noparen : forall n x o, noparen (firstn n x) = true -> nesting_from o (skipn n x) = nesting_from o x.
Proof.
  induction n as [|n IH]; intros x o H; [reflexivity|].
  destruct x as [|c t]; [reflexivity|]. cbn [firstn noparen forallb] in H. apply andb_true_iff in H as [Hc Ht].
  cbn [skipn nesting_from]. unfold np in Hc. apply negb_true_iff, orb_false_iff in Hc as [-> ->]. apply IH. exact Ht.
Qed.
Lemma nf_open : forall y o, nesting_from (S o) y <= nesting_from o (LPc :: y).
Proof. intros y o. cbn [nesting_from]. change (N.eqb LPc LPc) with true. cbv iota. lia. Qed.
Lemma nf_close : forall y o, nesting_from o y <= nesting_from (S o) (RPc :: y).
Proof. intros y o. cbn [nesting_from]. change (N.eqb RPc LPc) with false. change (N.eqb RPc RPc) with true. cbv iota. replace (S o - 1) with o by lia. lia. Qed.

(* ---------- tries: a token that is read contains no parenthesis ---------- *)
Section Guard.
Context {V : Type}.
Fixpoint noval (t : tree V) : bool :=
  match t with
  | Leaf (OVal _) => false
  | Leaf _ => true
  | Pop t => noval t
  | IfEof a b => noval a && noval b
  | Test _ a b => noval a && noval b
  end.
Definition pat_np (p : pat) : bool :=
  match p with PLit c => np c | PRange lo hi => N.ltb hi LPc || N.ltb RPc lo end.
(* [k]: the character under the cursor (if any) is known not to be a parenthesis.  Every Pop on a path to a value
   leaf happens under such knowledge, which only a successful Test against a parenthesis-free pattern provides. *)
Fixpoint guarded (k : bool) (t : tree V) : bool :=
  match t with
  | Leaf _ => true
  | Pop t' => noval t' || (k && guarded false t')
  | IfEof a b => guarded true a && guarded k b
  | Test p a b => guarded (k || pat_np p) a && guarded k b
  end.

Lemma noval_run (t : tree V) : noval t = true -> forall s pos pk v, r_out (run t s pos pk) <> OVal v.
Proof.
  induction t as [o | t IH | te IHe tc IHc | p ty IHy tn IHn]; cbn [noval]; intros H s pos pk v; cbn [run].
  - cbn [r_out]. destruct o; discriminate.
  - destruct s; apply IH; exact H.
  - apply andb_true_iff in H as [Ha Hb]. destruct s; [apply IHe | apply IHc]; assumption.
  - apply andb_true_iff in H as [Ha Hb]. destruct s as [|c s]; [apply IHn; assumption|]. destruct (pmatch p c); [apply IHy | apply IHn]; assumption.
Qed.
Lemma pat_np_sound p c : pat_np p = true -> pmatch p c = true -> np c = true.
Proof.
  destruct p as [x|lo hi]; cbn [pat_np pmatch].
  - intros H E. apply N.eqb_eq in E. subst. exact H.
  - intros H E. apply andb_true_iff in E as [E1 E2]. apply N.leb_le in E1. apply N.leb_le in E2.
    unfold np. apply negb_true_iff, orb_false_iff. unfold LPc, RPc in *.
    apply orb_true_iff in H as [H|H]; apply N.ltb_lt in H; split; apply N.eqb_neq; lia.
Qed.
Definition head_np (k : bool) (s : list char) : Prop := k = true -> match s with c :: _ => np c = true | [] => True end.

Lemma guarded_run (t : tree V) : forall k s pos pk v, guarded k t = true -> head_np k s ->
  r_out (run t s pos pk) = OVal v ->
  exists n, r_pos (run t s pos pk) = pos + n /\ noparen (firstn n s) = true.
Proof.
  induction t as [o | t IH | te IHe tc IHc | p ty IHy tn IHn]; intros k s pos pk v G Hk; cbn [run]; cbn [guarded] in G.
  - intros _. exists 0. cbn [r_pos]. split; [lia | reflexivity].
  - apply orb_true_iff in G as [G|G]; [intros E; exfalso; destruct s; exact (noval_run t G _ _ _ _ E)|].
    apply andb_true_iff in G as [-> G]. destruct s as [|c s]; intros E.
    + destruct (IH false [] pos _ v G ltac:(discriminate) E) as [n [Hp Hn]]. exists n. split; [exact Hp|]. destruct n; reflexivity.
    + destruct (IH false s (S pos) _ v G ltac:(discriminate) E) as [n [Hp Hn]]. exists (S n). split; [lia|].
      cbn [firstn noparen forallb]. rewrite (Hk eq_refl). exact Hn.
  - apply andb_true_iff in G as [Ga Gb]. destruct s as [|c s]; intros E.
    + apply (IHe true [] pos _ v Ga ltac:(intros _; exact I) E).
    + apply (IHc k (c :: s) pos _ v Gb Hk E).
  - apply andb_true_iff in G as [Ga Gb]. destruct s as [|c s]; [intros E; apply (IHn k [] pos _ v Gb Hk E)|].
    destruct (pmatch p c) eqn:Ep; intros E.
    + apply (IHy _ (c :: s) pos _ v Ga); [|exact E]. intros Hor. apply orb_true_iff in Hor as [Hor|Hor]; [apply Hk; exact Hor | apply (pat_np_sound p c Hor Ep)].
    + apply (IHn k (c :: s) pos _ v Gb Hk E).
Qed.
End Guard.

Definition tok_np {A} (x : list char) (t : tok A) : Prop := match t with TOk _ n => noparen (firstn n x) = true | _ => True end.
Lemma run_tok_np {V} (t : tree V) x : guarded false t = true -> tok_np x (run_tok t x).
Proof.
  intros G. unfold run_tok, of_run, tok_np.
  destruct (r_out (run t x 0 0)) as [v| | | |] eqn:E; try exact I; [|destruct (Nat.eqb _ 0); exact I].
  destruct (guarded_run t false x 0 0 v G ltac:(discriminate) E) as [n [Hp Hn]]. rewrite Hp. exact Hn.
Qed.

Lemma guarded_symbol : guarded false tree_symbol = true. Proof. vm_compute. reflexivity. Qed.
Lemma guarded_organic : guarded false tree_organic = true. Proof. vm_compute. reflexivity. Qed.
Lemma guarded_configuration : guarded false tree_configuration = true. Proof. vm_compute. reflexivity. Qed.
Lemma guarded_charge : guarded false tree_charge = true. Proof. vm_compute. reflexivity. Qed.
Lemma guarded_bond : guarded false tree_bond = true. Proof. vm_compute. reflexivity. Qed.
Lemma guarded_rnum : guarded false tree_rnum = true. Proof. vm_compute. reflexivity. Qed.
Lemma guarded_hcount : guarded false tree_hcount = true. Proof. vm_compute. reflexivity. Qed.
Lemma guarded_isotope : guarded false tree_isotope = true. Proof. vm_compute. reflexivity. Qed.
Lemma guarded_map : guarded false tree_map = true. Proof. vm_compute. reflexivity. Qed.

(* ---------- the model's token functions ---------- *)
Lemma noparen_add : forall o x n, noparen (firstn o x) = true -> noparen (firstn n (skipn o x)) = true -> noparen (firstn (o + n) x) = true.
Proof.
  induction o as [|o IH]; intros x n Ho Hn; [exact Hn|].
  destruct x as [|c t]; [destruct n; reflexivity|].
  cbn [firstn noparen forallb skipn Nat.add] in *. apply andb_true_iff in Ho as [Hc Ho]. rewrite Hc. apply IH; assumption.
Qed.
Lemma bind_opt_np {A B} x (t : tok A) off (k : option A -> nat -> tok B) :
  tok_np (skipn off x) t -> noparen (firstn off x) = true ->
  (forall v o, noparen (firstn o x) = true -> tok_np x (k v o)) -> tok_np x (bind_opt t off k).
Proof.
  intros Ht Ho Hk. destruct t as [v n| | | |]; cbn [bind_opt tok_np]; try exact I.
  - apply Hk. apply noparen_add; assumption.
  - apply Hk. exact Ho.
Qed.
Lemma bind_req_np {A B} x (t : tok A) off (k : A -> nat -> tok B) :
  tok_np (skipn off x) t -> noparen (firstn off x) = true ->
  (forall v o, noparen (firstn o x) = true -> tok_np x (k v o)) -> tok_np x (bind_req t off k).
Proof.
  intros Ht Ho Hk. destruct t as [v n| | | |]; cbn [bind_req tok_np]; try exact I.
  apply Hk. apply noparen_add; assumption.
Qed.

Lemma read_bracket_np s : tok_np s (read_bracket s).
Proof.
  unfold read_bracket. destruct s as [|c s']; [exact I|]. destruct (N.eqb c LB) eqn:Ec; [|exact I].
  set (str := c :: s').
  assert (H1 : noparen (firstn 1 str) = true).
  { apply N.eqb_eq in Ec. subst c. reflexivity. }
  apply bind_opt_np; [apply run_tok_np, guarded_isotope | exact H1|]. intros iso o1 Ho1.
  apply bind_req_np; [apply run_tok_np, guarded_symbol | exact Ho1|]. intros sym o2 Ho2.
  apply bind_opt_np; [apply run_tok_np, guarded_configuration | exact Ho2|]. intros cfg o3 Ho3.
  apply bind_opt_np; [apply run_tok_np, guarded_hcount | exact Ho3|]. intros h o4 Ho4.
  apply bind_opt_np; [apply run_tok_np, guarded_charge | exact Ho4|]. intros chg o5 Ho5.
  apply bind_opt_np; [apply run_tok_np, guarded_map | exact Ho5|]. intros mp o6 Ho6.
  destruct (skipn o6 str) as [|c' y] eqn:E; [exact I|]. destruct (N.eqb c' RB) eqn:Ec'; [|exact I].
  cbn [tok_np]. replace (S o6) with (o6 + 1) by lia. apply noparen_add; [exact Ho6|]. rewrite E.
  apply N.eqb_eq in Ec'. subst c'. reflexivity.
Qed.
Lemma read_organic_np s : tok_np s (read_organic s).
Proof.
  unfold read_organic. pose proof (run_tok_np tree_organic s guarded_organic) as H.
  generalize dependent (run_tok tree_organic s). intros t H. destruct t as [[a|a|] n| | | |]; exact H || exact I.
Qed.
Lemma read_star_np s : tok_np s (read_star s).
Proof.
  unfold read_star. destruct s as [|c x]; [exact I|]. destruct (N.eqb c STAR) eqn:Ec; [|exact I].
  apply N.eqb_eq in Ec. subst c. reflexivity.
Qed.
(* the three token facts *)
Theorem read_atom_noparen x k n : read_atom x = TOk k n -> forallb (fun c => negb (N.eqb c LPc || N.eqb c RPc)) (firstn n x) = true.
Proof.
  unfold read_atom. pose proof (read_organic_np x) as Ho. generalize dependent (read_organic x). intros to Ho.
  pose proof (read_bracket_np x) as Hb. generalize dependent (read_bracket x). intros tb Hb.
  pose proof (read_star_np x) as Hs. generalize dependent (read_star x). intros ts Hs.
  destruct to as [k1 n1| | | |]; try discriminate.
  - intros E. inversion E; subst. exact Ho.
  - destruct tb as [k2 n2| | | |]; try discriminate.
    + intros E. inversion E; subst. exact Hb.
    + intros E. subst ts. exact Hs.
Qed.
Theorem read_bond_noparen x b n : read_bond x = (b, n) -> forallb (fun c => negb (N.eqb c LPc || N.eqb c RPc)) (firstn n x) = true.
Proof.
  unfold read_bond. pose proof (run_tok_np tree_bond x guarded_bond) as H.
  generalize dependent (run_tok tree_bond x). intros t H.
  destruct t as [b1 n1| | | |]; intros E; inversion E; subst; try reflexivity. exact H.
Qed.
Theorem read_rnum_noparen x r n : read_rnum x = TOk r n -> forallb (fun c => negb (N.eqb c LPc || N.eqb c RPc)) (firstn n x) = true.
Proof.
  unfold read_rnum. pose proof (run_tok_np tree_rnum x guarded_rnum) as H.
  generalize dependent (run_tok tree_rnum x). intros t H.
  destruct t as [r1 n1| | | |]; intros E; inversion E; subst. exact H.
Qed.

(* ---------- the reader ---------- *)
(* [le_nest x' x]: whatever the number of open parentheses, the remaining text x' nests no deeper than x did;
   holds when the text consumed between x and x' is balanced *)
Definition le_nest (x' x : list char) : Prop := forall o, nesting_from o x' <= nesting_from o x.
Lemma le_nest_refl x : le_nest x x. Proof. intros o. lia. Qed.
Lemma le_nest_trans x y z : le_nest x y -> le_nest y z -> le_nest x z.
Proof. intros H1 H2 o. specialize (H1 o). specialize (H2 o). lia. Qed.
Lemma le_nest_skip n x : noparen (firstn n x) = true -> le_nest (skipn n x) x.
Proof. intros H o. rewrite (nf_skip_noparen n x o H). lia. Qed.

(* a computation of a frame whose depth counter is D - 1 (so that [maxd] has been raised to D), from s to s' *)
Definition post {A} (D : nat) (s : rstate) (x : rres A * rstate) : Prop :=
  maxd (snd x) <= Nat.max (maxd s) (nesting_from D (rest s)) /\
  match fst x with ROk _ => le_nest (rest (snd x)) (rest s) | _ => True end.

Lemma post_same {A} D s (r : rres A) : (match r with ROk _ => False | _ => True end) -> post D s (r, s).
Proof. intros H. split; cbn [fst snd]; [lia|]. destruct r; try exact I. contradiction. Qed.
Lemma post_miss {A} D s0 s : maxd s <= Nat.max (maxd s0) (nesting_from D (rest s0)) -> post D s0 (@missing_character A s, s).
Proof. intros H. split; cbn [fst snd]; [exact H|]. unfold missing_character. destruct (rest s); exact I. Qed.
Lemma post_err {A B} D s0 (t : tok A) s : (match t with TOk _ _ | TNo => False | _ => True end) ->
  maxd s <= Nat.max (maxd s0) (nesting_from D (rest s0)) -> post D s0 (@tok_err A B t s, s).
Proof. intros Ht H. split; cbn [fst snd]; [exact H|]. destruct t; try contradiction; exact I. Qed.

Lemma read_link_post input s :
  maxd (snd (read_link input s)) = maxd s /\
  match fst (read_link input s) with ROk _ => le_nest (rest (snd (read_link input s))) (rest s) | _ => True end.
Proof.
  unfold read_link. pose proof (read_atom_noparen (rest s)) as H. generalize dependent (read_atom (rest s)). intros t H.
  destruct t as [k n| | | |]; cbn [fst snd tok_err]; try (split; [reflexivity | exact I]).
  - split; [reflexivity|]. cbn [emit adv rest]. apply le_nest_skip. apply (H k n eq_refl).
  - split; [reflexivity | apply le_nest_refl].
Qed.

Section Loop.
Variable rs : option bond_kind -> rstate -> rres (option nat) * rstate.
Variable D : nat.
Hypothesis Hrs : forall input s, post (S D) s (rs input s).

Lemma read_branch_post s : post D s (read_branch rs s).
Proof.
  unfold read_branch. destruct (peek s) as [c|] eqn:Ep; [|split; cbn [fst snd]; [lia | apply le_nest_refl]].
  destruct (N.eqb c LP) eqn:Ec; [|split; cbn [fst snd]; [lia | apply le_nest_refl]].
  apply N.eqb_eq in Ec. subst c.
  unfold peek in Ep. destruct (rest s) as [|c0 y] eqn:Es; [discriminate|]. cbn [hd_error] in Ep. inversion Ep; subst c0.
  set (s1 := adv s 1).
  assert (E1 : rest s1 = y) by (unfold s1, adv; cbn [rest]; rewrite Es; reflexivity).
  assert (M1 : maxd s1 = maxd s) by reflexivity.
  set (r := match peek s1 with
            | Some c' => if N.eqb c' DOT then rs None (adv s1 1) else let '(b, n) := read_bond (rest s1) in rs (Some b) (adv s1 n)
            | None => let '(b, n) := read_bond (rest s1) in rs (Some b) (adv s1 n) end).
  (* the callee: depth bounded through the text after "(", and on success the remaining text nests no deeper *)
  assert (Hr : maxd (snd r) <= Nat.max (maxd s) (nesting_from (S D) y) /\
               match fst r with ROk _ => le_nest (rest (snd r)) y | _ => True end).
  { assert (Hbond : forall b n, read_bond (rest s1) = (b, n) ->
       maxd (snd (rs (Some b) (adv s1 n))) <= Nat.max (maxd s) (nesting_from (S D) y) /\
       match fst (rs (Some b) (adv s1 n)) with ROk _ => le_nest (rest (snd (rs (Some b) (adv s1 n)))) y | _ => True end).
    { intros b n Eb. apply read_bond_noparen in Eb. rewrite E1 in Eb.
      destruct (Hrs (Some b) (adv s1 n)) as [Hm Hl]. cbn [adv rest maxd] in Hm, Hl. rewrite E1, M1 in *.
      rewrite (nf_skip_noparen n y (S D) Eb) in Hm. split; [exact Hm|].
      destruct (fst (rs (Some b) (adv s1 n))); try exact I. eapply le_nest_trans; [exact Hl | apply le_nest_skip; exact Eb]. }
    unfold r. destruct (peek s1) as [c'|] eqn:Ep1.
    - destruct (N.eqb c' DOT) eqn:Ed.
      + apply N.eqb_eq in Ed. subst c'. unfold peek in Ep1. rewrite E1 in Ep1.
        destruct y as [|c1 z]; [discriminate|]. cbn [hd_error] in Ep1. inversion Ep1; subst c1.
        assert (Hd : noparen (firstn 1 (DOT :: z)) = true) by reflexivity.
        destruct (Hrs None (adv s1 1)) as [Hm Hl]. cbn [adv rest maxd] in Hm, Hl. rewrite E1, M1 in *.
        rewrite (nf_skip_noparen 1 (DOT :: z) (S D) Hd) in Hm. split; [exact Hm|].
        destruct (fst (rs None (adv s1 1))); try exact I. eapply le_nest_trans; [exact Hl | apply le_nest_skip; exact Hd].
      + destruct (read_bond (rest s1)) as [b n] eqn:Eb. apply (Hbond b n eq_refl).
    - destruct (read_bond (rest s1)) as [b n] eqn:Eb. apply (Hbond b n eq_refl). }
  clearbody r. destruct r as [x s2]. cbn [fst snd] in Hr. destruct Hr as [Hm Hl].
  assert (Hopen : nesting_from (S D) y <= nesting_from D (LP :: y)) by apply nf_open.
  assert (Hm' : maxd s2 <= Nat.max (maxd s) (nesting_from D (rest s))) by (rewrite Es; lia).
  destruct x as [[len|]| | | |]; try (split; cbn [fst snd]; [exact Hm' | exact I]).
  - destruct (peek s2) as [c''|] eqn:Ep2; [|apply post_miss; exact Hm'].
    destruct (N.eqb c'' RP) eqn:Ec2; [|apply post_miss; exact Hm'].
    apply N.eqb_eq in Ec2. subst c''. unfold peek in Ep2. destruct (rest s2) as [|c2 z] eqn:Es2; [discriminate|].
    cbn [hd_error] in Ep2. inversion Ep2; subst c2.
    split; cbn [fst snd emit adv rest maxd]; [exact Hm'|]. rewrite Es2, Es. cbn [skipn].
    intros o. pose proof (Hl (S o)) as H1. pose proof (nf_close z o) as H2. pose proof (nf_open y o) as H3.
    change RPc with RP in H2. change LPc with LP in H3. lia.
  - apply post_miss; exact Hm'.
Qed.

Lemma post_step {A} s s1 (x : rres A * rstate) :
  maxd s1 <= Nat.max (maxd s) (nesting_from D (rest s)) -> le_nest (rest s1) (rest s) -> post D s1 x -> post D s x.
Proof.
  intros Hm Hl [Pm Pl]. pose proof (Hl D). split; [lia|].
  destruct (fst x); try exact I. eapply le_nest_trans; [exact Pl | exact Hl].
Qed.

Lemma loop_post : forall g s acc, post D s (loop rs g s acc).
Proof.
  induction g as [|g IH]; intros s acc; cbn [loop]; [apply post_same; exact I|].
  destruct (read_branch_post s) as [Bm Bl]. destruct (read_branch rs s) as [rb s1]. cbn [fst snd] in Bm, Bl.
  destruct rb as [[|]| | | |]; try (split; cbn [fst snd]; [exact Bm | exact I]).
  - apply (post_step s s1 _ Bm Bl). apply IH.
  - destruct (match peek s1 with Some c => N.eqb c DOT | None => false end) eqn:Edot.
    + assert (Hd : le_nest (rest (adv s1 1)) (rest s1)).
      { unfold peek in Edot. cbn [adv rest]. destruct (rest s1) as [|c z]; [discriminate|]. cbn [hd_error] in Edot.
        apply N.eqb_eq in Edot. subst c. apply le_nest_skip. reflexivity. }
      destruct (read_link_post None (adv s1 1)) as [Lm Ll]. destruct (read_link None (adv s1 1)) as [rl s2]. cbn [fst snd] in Lm, Ll.
      change (maxd (adv s1 1)) with (maxd s1) in Lm.
      destruct rl as [[|]| | | |]; try (split; cbn [fst snd]; [lia | exact I]).
      * apply (post_step s s2); [lia | eapply le_nest_trans; [exact Ll | eapply le_nest_trans; [exact Hd | exact Bl]] | apply IH].
      * apply post_miss. lia.
    + destruct (read_bond (rest s1)) as [b n] eqn:Eb. apply read_bond_noparen in Eb.
      assert (Hd : le_nest (rest (adv s1 n)) (rest s1)) by (cbn [adv rest]; apply le_nest_skip; exact Eb).
      destruct (read_link_post (Some b) (adv s1 n)) as [Lm Ll]. destruct (read_link (Some b) (adv s1 n)) as [rl s2]. cbn [fst snd] in Lm, Ll.
      change (maxd (adv s1 n)) with (maxd s1) in Lm.
      destruct rl as [[|]| | | |]; try (split; cbn [fst snd]; [lia | exact I]).
      * apply (post_step s s2); [lia | eapply le_nest_trans; [exact Ll | eapply le_nest_trans; [exact Hd | exact Bl]] | apply IH].
      * assert (L2 : le_nest (rest s2) (rest s)) by (eapply le_nest_trans; [exact Ll | eapply le_nest_trans; [exact Hd | exact Bl]]).
        pose proof (read_rnum_noparen (rest s2)) as Hr. generalize dependent (read_rnum (rest s2)). intros t Hr.
        destruct t as [r m| | | |]; try (apply post_err; [exact I | lia]).
        -- apply (post_step s (emit (adv s2 m) (RJoin b r (pos s1) (pos s2) (pos (adv s2 m))))); [cbn [emit adv maxd]; lia | | apply IH].
           cbn [emit adv rest]. eapply le_nest_trans; [apply le_nest_skip; apply (Hr r m eq_refl) | exact L2].
        -- destruct (bondk_eqb b BK_Elided); [|apply post_miss; lia].
           split; cbn [fst snd]; [lia | exact L2].
Qed.
End Loop.

Lemma read_smiles_post : forall f d input s, post (S d) s (read_smiles f d input s).
Proof.
  induction f as [|f IH]; intros d input s; cbn [read_smiles]; [apply post_same; exact I|].
  set (s0 := {| rest := rest s; pos := pos s; out := out s; maxd := Nat.max (maxd s) (S d) |}).
  pose proof (nf_ge (rest s) (S d)) as Hge.
  destruct (read_link_post input s0) as [Lm Ll]. destruct (read_link input s0) as [rl s1]. cbn [fst snd] in Lm, Ll.
  change (maxd s0) with (Nat.max (maxd s) (S d)) in Lm. change (rest s0) with (rest s) in Ll.
  destruct rl as [[|]| | | |]; try (split; cbn [fst snd]; [lia | exact I]).
  - pose proof (loop_post (read_smiles f (S d)) (S d) (fun input s => IH (S d) input s) (S (length (rest s1))) s1 1) as [Pm Pl].
    pose proof (Ll (S d)). split; [lia|].
    destruct (fst (loop (read_smiles f (S d)) (S (length (rest s1))) s1 1)); try exact I. eapply le_nest_trans; [exact Pl | exact Ll].
  - split; cbn [fst snd]; [lia | exact Ll].
Qed.

Theorem reader_depth_bounded_by_nesting : forall s, r_depth (read s) <= 1 + nesting s.
Proof.
  intros s. unfold read, read_from, nesting.
  set (s0 := {| rest := s; pos := 0; out := []; maxd := 0 |}).
  pose proof (read_smiles_post (S (length s)) 0 None s0) as [H _].
  destruct (read_smiles (S (length s)) 0 None s0) as [r s1]. cbn [snd r_depth] in *.
  change (maxd s0) with 0 in H. change (rest s0) with s in H. pose proof (nf_S s 0). lia.
Qed.

(* a string without an unmatched-so-far "(" anywhere (in particular one without branches) is read without recursion *)
Theorem chain_has_depth_one : forall s, nesting s = 0 -> r_depth (read s) <= 1.
Proof. intros s H. pose proof (reader_depth_bounded_by_nesting s). lia. Qed.

(* the bound is attained (so it is not vacuous), and a long chain stays at depth 1 *)
From Coq Require Import String.
Example depth_tight : r_depth (read (chars "C(C(C(C)C)C)(C)C"%string)) = 4 /\ nesting (chars "C(C(C(C)C)C)(C)C"%string) = 3.
Proof. vm_compute. split; reflexivity. Qed.
Example depth_chain : r_depth (read (chars "CCCCCCCC.CCCCC=CC1CC1"%string)) = 1.
Proof. vm_compute. reflexivity. Qed.

Print Assumptions reader_depth_bounded_by_nesting.
