(* C14, graph level: writing is a fixed point of the graph round trip.

   For a well-formed graph g on which the traversal succeeds with history h, the traversal of the rebuilt graph
   expected_roundtrip g (= bld h, C12) succeeds with EXACTLY the same history h: same kinds (the tetrahedral mark the
   builder stored is the one that the walk, entering through position 0, turns back into the emitted one), same bond
   kinds, same ring-closure numbers (pool equivariance), same pops.  Consequently the written text is a fixed point of
   write / read / build / walk / write.  The text-level corollary goes through the reader, which normalises the
   shorthands; the same simulation, run up to that normalisation, covers it. *)
From Coq Require Import List String NArith Lia Bool Arith.
Import ListNotations.
Require Import P.Generated.Enums P.Spec.Values P.Generated.Tables P.Generated.Trees P.Spec.Events P.Spec.Graph P.Spec.Known P.Spec.Normal P.Spec.Roundtrip
  P.Model.Base P.Model.Pool P.Model.Reader P.Model.Writer P.Model.Walk P.Model.Builder
  P.Proofs.PoolSpec P.Proofs.WalkInv P.Proofs.WalkPanics P.Proofs.C11 P.Proofs.BodyFacts P.Proofs.C09_Writer P.Proofs.C09_Final
  P.Proofs.D0 P.Proofs.D1 P.Proofs.D3 P.Proofs.D2 P.Proofs.D4 P.Proofs.D5 P.Proofs.D6 P.Proofs.D7 P.Proofs.Stereo P.Proofs.C12_Final
  P.Proofs.DfsOrder P.Proofs.DfsOrderClosed P.Proofs.BuilderWf P.Proofs.BuilderMore P.Proofs.WalkValues P.Proofs.C01_Text
  P.Proofs.WalkEquivPool P.Proofs.WalkEquivBase P.Proofs.WalkEquivSim.
Local Notation length := List.length.
Strategy opaque [tree_symbol tree_organic tree_configuration tree_charge tree_bond tree_rnum tree_hcount tree_isotope tree_map].

(* ================= kinds ================= *)
(* the total inversion is an involution *)
Lemma inv_invol k : inv (inv k) = k.
Proof.
  destruct k as [| | |i s c h gg m]; try reflexivity.
  rewrite inv_bracket. destruct (is_THc c && has_hydrogens h) eqn:E.
  - rewrite flip_TH_bracket, inv_bracket, is_THc_flipo, E, flip_TH_bracket, flipo_invol. reflexivity.
  - rewrite inv_bracket, E. reflexivity.
Qed.
Lemma safe_not_known k : safe k -> known_invert_panic k = false.
Proof. intros H. destruct (known_invert_panic k) eqn:E; [|reflexivity]. exfalso. apply H. apply invert_panic_known. exact E. Qed.
Lemma inv_nk k : safe k -> inv (nk_kind k) = nk_kind (inv k).
Proof. intros H. unfold inv at 1. rewrite (invert_nk k (safe_not_known k H)), (invert_safe k H). reflexivity. Qed.
Lemma safe_nk k : safe k -> safe (nk_kind k).
Proof. intros H. unfold safe. rewrite (invert_nk k (safe_not_known k H)), (invert_safe k H). discriminate. Qed.
Lemma nk_idem k : nk_kind (nk_kind k) = nk_kind k.
Proof.
  destruct k as [| | |i s c h gg m]; try reflexivity. cbn [nk_kind].
  assert (Hc : nk_cfg (nk_cfg c) = nk_cfg c) by (destruct c as [[]|]; reflexivity).
  assert (Hh : nk_h (nk_h h) = nk_h h) by (destruct h as [[]|]; reflexivity).
  rewrite Hc, Hh. reflexivity.
Qed.
Lemma NE_id : forall h, map (NE (fun k => k)) h = h.
Proof. induction h as [|e h IH]; [reflexivity|]. cbn [map]. rewrite IH. destruct e; reflexivity. Qed.
Lemma NE_nk : forall h, map (NE nk_kind) h = map nkev h.
Proof. intros h. apply map_ext. intros e. destruct e; reflexivity. Qed.
Lemma conf_nk : forall h len, conf len (map nkev h) = conf len h.
Proof. induction h as [|e h IH]; intros len; [reflexivity|]. destruct e; cbn [map nkev conf]; rewrite IH; reflexivity. Qed.

(* ================= the rebuilt graph, as the simulation wants it ================= *)
Lemma atom_at_nth g i a : nth_error g i = Some a -> atom_at g i = a.
Proof. intros H. unfold atom_at. apply nth_error_nth. exact H. Qed.
Lemma atom_at_nk g i : atom_at (map nk_atom g) i = nk_atom (atom_at g i) \/ (length g <= i /\ atom_at (map nk_atom g) i = dummy_atom).
Proof.
  destruct (Nat.lt_ge_cases i (length g)) as [Hi|Hi].
  - left. unfold atom_at. rewrite (nth_indep _ dummy_atom (nk_atom dummy_atom)) by (rewrite map_length; exact Hi). apply map_nth.
  - right. split; [exact Hi|]. unfold atom_at. apply nth_overflow. rewrite map_length. exact Hi.
Qed.
Lemma safe_dummy : safe (akind dummy_atom).
Proof. unfold safe. cbn. discriminate. Qed.

Section Rebuilt.
Variables (g g' : list atom) (gh : ghost).
Hypothesis Hsafe : forall x, safe (akind (atom_at g x)).
Hypothesis Hlen : length g' = length g.
Hypothesis Hnd : NoDup (order gh).
Hypothesis Hcov : forall x, In x (order gh) <-> x < length g.
Hypothesis Hpar : forall x p, par gh x = Some p -> exists bb, find_to p (bonds_of g x) = Some bb.
Hypothesis Hnode : forall x, x < length g ->
  nth_error g' (phi gh x) = Some {| akind := kind_final g gh x; bonds := map (rename gh) (arrival_first g gh x) |}.

Lemma rb_card : length (order gh) = length g.
Proof.
  apply Nat.le_antisymm.
  - assert (Hincl : incl (order gh) (seq 0 (length g))) by (intros x Hx; apply in_seq; apply Hcov in Hx; lia).
    pose proof (NoDup_incl_length Hnd Hincl) as Hl. rewrite seq_length in Hl. exact Hl.
  - assert (Hincl : incl (seq 0 (length g)) (order gh)) by (intros x Hx; apply in_seq in Hx; apply Hcov; lia).
    pose proof (NoDup_incl_length (seq_NoDup (length g) 0) Hincl) as Hl. rewrite seq_length in Hl. exact Hl.
Qed.
Lemma rb_kind_safe x : safe (kind_final g gh x).
Proof. unfold kind_final. destruct (par gh x); [apply inv_safe, wadj_safe, Hsafe | apply Hsafe]. Qed.
Lemma rb_safe : forall i, safe (akind (atom_at g' i)).
Proof.
  intros i. destruct (Nat.lt_ge_cases i (length g)) as [Hi|Hi].
  - set (x := nth i (order gh) 0).
    assert (Hil : i < length (order gh)) by (rewrite rb_card; exact Hi).
    assert (Hx : In x (order gh)) by (apply nth_In; exact Hil).
    assert (Hphi : phi gh x = i) by (apply index_of_nth; assumption).
    pose proof (Hnode x (proj1 (Hcov x) Hx)) as Hn. rewrite Hphi in Hn. rewrite (atom_at_nth g' i _ Hn). cbn [akind]. apply rb_kind_safe.
  - unfold atom_at. rewrite nth_overflow by (rewrite Hlen; exact Hi). apply safe_dummy.
Qed.
Lemma rb_bonds x : x < length g -> bonds_of g' (phi gh x) = map (rename gh) (arrival_first g gh x).
Proof. intros Hx. unfold bonds_of. rewrite (atom_at_nth g' _ _ (Hnode x Hx)). reflexivity. Qed.
Lemma rb_root x : x < length g -> par gh x = None -> akind (atom_at g' (phi gh x)) = akind (atom_at g x).
Proof. intros Hx Hp. rewrite (atom_at_nth g' _ _ (Hnode x Hx)). cbn [akind]. unfold kind_final. rewrite Hp. reflexivity. Qed.
(* entering the rebuilt atom through its first bond: the walk inverts what the builder stored *)
Lemma rb_index x y : y < length g -> par gh y = Some x -> index_of (phi gh x) (map tid (bonds_of g' (phi gh y))) = 0.
Proof.
  intros Hy Hp. rewrite (rb_bonds y Hy). unfold arrival_first. rewrite Hp. destruct (Hpar y x Hp) as [bb Hbb]. rewrite Hbb.
  destruct (find_to_in _ _ _ Hbb) as [_ Ht]. cbn [map rename tid index_of]. rewrite Ht, Nat.eqb_refl. reflexivity.
Qed.
Lemma rb_ext x y : y < length g -> par gh y = Some x -> walk_kind g' (phi gh x) (phi gh y) = walk_kind g x y.
Proof.
  intros Hy Hp. unfold walk_kind at 1. rewrite (rb_index x y Hy Hp). unfold wadj at 1. cbn [Nat.even].
  rewrite (atom_at_nth g' _ _ (Hnode y Hy)). cbn [akind]. unfold kind_final. rewrite Hp. rewrite inv_invol. reflexivity.
Qed.

(* the same facts for the rebuilt graph with the reading shorthands applied to its kinds *)
Lemma rbn_at x : x < length g -> atom_at (map nk_atom g') (phi gh x) = nk_atom (atom_at g' (phi gh x)).
Proof.
  intros Hx. destruct (atom_at_nk g' (phi gh x)) as [H|[H _]]; [exact H|]. exfalso.
  assert (phi gh x < length (order gh)) by (apply index_of_lt; apply Hcov; exact Hx). rewrite rb_card in *. lia.
Qed.
Lemma rbn_safe : forall i, safe (akind (atom_at (map nk_atom g') i)).
Proof.
  intros i. destruct (atom_at_nk g' i) as [H|[_ H]]; rewrite H; [cbn [nk_atom akind]; apply safe_nk, rb_safe | apply safe_dummy].
Qed.
Lemma rbn_bonds x : x < length g -> bonds_of (map nk_atom g') (phi gh x) = map (rename gh) (arrival_first g gh x).
Proof. intros Hx. unfold bonds_of. rewrite (rbn_at x Hx). cbn [nk_atom bonds]. apply (rb_bonds x Hx). Qed.
Lemma rbn_root x : x < length g -> par gh x = None ->
  nk_kind (akind (atom_at (map nk_atom g') (phi gh x))) = nk_kind (akind (atom_at g x)).
Proof. intros Hx Hp. rewrite (rbn_at x Hx). cbn [nk_atom akind]. rewrite nk_idem, (rb_root x Hx Hp). reflexivity. Qed.
Lemma rbn_ext x y : y < length g -> par gh y = Some x ->
  nk_kind (walk_kind (map nk_atom g') (phi gh x) (phi gh y)) = nk_kind (walk_kind g x y).
Proof.
  intros Hy Hp. unfold walk_kind at 1.
  assert (Hb : bonds_of (map nk_atom g') (phi gh y) = bonds_of g' (phi gh y)) by (rewrite (rbn_bonds y Hy), (rb_bonds y Hy); reflexivity).
  rewrite Hb, (rb_index x y Hy Hp). unfold wadj at 1. cbn [Nat.even]. rewrite (rbn_at y Hy). cbn [nk_atom akind].
  rewrite (atom_at_nth g' _ _ (Hnode y Hy)). cbn [akind]. unfold kind_final. rewrite Hp. fold (walk_kind g x y).
  assert (Hw : safe (walk_kind g x y)) by (apply wadj_safe, Hsafe).
  rewrite (inv_nk _ (inv_safe _ Hw)), inv_invol, nk_idem. reflexivity.
Qed.
End Rebuilt.

(* ================= the theorems ================= *)
Lemma walk_is_traverse g : wf g = true -> walk g = traverse g.
Proof. intros H. unfold walk. rewrite (proj2 (validate_iff_wf g) H). reflexivity. Qed.

(* the exact form: the same history *)
Theorem graph_fixed_point_exact : forall g h, wf g = true -> safe_graph g -> walk g = (WOk, h) ->
  walk (expected_roundtrip g) = (WOk, h).
Proof.
  intros g h Hwf Hs Hw.
  destruct (visiting_order_is_dfs_strong g h Hwf Hs Hw) as [gh [g' [Hb [Hlen [Hnd [Hcov [Hpar [Hnode Hord]]]]]]]].
  pose proof (C12_closed_form g h Hwf Hs Hw) as Hb2. rewrite Hb in Hb2. inversion Hb2 as [Eg]. rewrite <- Eg. clear Hb2 Eg.
  assert (Hconf : conformant h = true) by (pose proof (walk_safe g) as Hsafe; rewrite Hw in Hsafe; apply Hsafe).
  pose proof (build_ok_is_simple h g' Hconf Hb) as Hwf'.
  pose proof (safe_graph_kinds g Hs) as Hsk.
  rewrite (walk_is_traverse g Hwf) in Hw. rewrite (walk_is_traverse g' Hwf').
  destruct (traverse_equiv g g' gh (fun k => k)
              (wf_range g Hwf) (wf_nodup g Hwf) (wf_sym g Hwf) Hsk
              (wf_range g' Hwf') (wf_nodup g' Hwf') (wf_sym g' Hwf') (rb_safe g g' gh Hsk Hlen Hnd Hcov Hnode)
              Hlen Hnd Hcov Hpar Hord
              (rb_bonds g g' gh Hnode)
              (rb_root g g' gh Hnode)
              (rb_ext g g' gh Hpar Hnode) h Hw) as [h' [Ht He]].
  rewrite !NE_id in He. rewrite Ht, He. reflexivity.
Qed.

(* the form asked for by C14 *)
Theorem graph_fixed_point : forall g h, wf g = true -> safe_graph g -> walk g = (WOk, h) ->
  exists h', walk (expected_roundtrip g) = (WOk, h') /\ map nkev h' = map nkev h.
Proof. intros g h Hwf Hs Hw. exists h. split; [apply graph_fixed_point_exact; assumption | reflexivity]. Qed.

(* the rebuilt graph is itself a fixed point of walk-then-build *)
Corollary rebuilt_graph_is_fixed_point : forall g h, wf g = true -> safe_graph g -> walk g = (WOk, h) ->
  bld h = BOk (expected_roundtrip g) /\ walk (expected_roundtrip g) = (WOk, h).
Proof. intros g h Hwf Hs Hw. split; [apply C12_closed_form | apply graph_fixed_point_exact]; assumption. Qed.

(* the graph that READING the written text gives (shorthands normalised) is traversed with the same history up to the
   shorthands *)
Theorem read_graph_fixed_point : forall g h, wf g = true -> safe_graph g -> walk g = (WOk, h) ->
  exists h2, walk (map nk_atom (expected_roundtrip g)) = (WOk, h2) /\ map nkev h2 = map nkev h.
Proof.
  intros g h Hwf Hs Hw.
  destruct (visiting_order_is_dfs_strong g h Hwf Hs Hw) as [gh [g' [Hb [Hlen [Hnd [Hcov [Hpar [Hnode Hord]]]]]]]].
  pose proof (C12_closed_form g h Hwf Hs Hw) as Hb2. rewrite Hb in Hb2. inversion Hb2 as [Eg]. rewrite <- Eg. clear Hb2 Eg.
  assert (Hconf : conformant h = true) by (pose proof (walk_safe g) as Hsafe; rewrite Hw in Hsafe; apply Hsafe).
  pose proof (safe_graph_kinds g Hs) as Hsk.
  assert (Hbn : bld (map nkev h) = BOk (map nk_atom g')) by (apply build_commutes_with_shorthands; [apply (bld_ok_no_known h _ Hb) | exact Hb]).
  assert (Hconfn : conformant (map nkev h) = true) by (unfold conformant; rewrite conf_nk; exact Hconf).
  pose proof (build_ok_is_simple _ _ Hconfn Hbn) as Hwf'.
  assert (Hlen' : length (map nk_atom g') = length g) by (rewrite map_length; exact Hlen).
  rewrite (walk_is_traverse g Hwf) in Hw. rewrite (walk_is_traverse _ Hwf').
  destruct (traverse_equiv g (map nk_atom g') gh nk_kind
              (wf_range g Hwf) (wf_nodup g Hwf) (wf_sym g Hwf) Hsk
              (wf_range _ Hwf') (wf_nodup _ Hwf') (wf_sym _ Hwf') (rbn_safe g g' gh Hsk Hlen Hnd Hcov Hnode)
              Hlen' Hnd Hcov Hpar Hord
              (rbn_bonds g g' gh Hlen Hnd Hcov Hnode)
              (rbn_root g g' gh Hlen Hnd Hcov Hnode)
              (rbn_ext g g' gh Hsk Hlen Hnd Hcov Hpar Hnode) h Hw) as [h' [Ht He]].
  exists h'. split; [exact Ht|]. rewrite <- !NE_nk. exact He.
Qed.

(* text level: write g, read the text, build, walk, write: the same text *)
Theorem written_text_is_fixed_point : forall g h, wf g = true -> safe_graph g -> okg g -> g <> [] -> walk g = (WOk, h) ->
  exists text hr gr h2,
    wr h = Some text /\ rd text = (VOk, hr) /\ bld hr = BOk gr /\ walk gr = (WOk, h2) /\ wr h2 = Some text.
Proof.
  intros g h Hwf Hs Hok Hne Hw.
  destruct (text_round_trip g h Hwf Hs Hok Hne Hw) as [text [Hwr [Hrd Hbld]]].
  destruct (read_graph_fixed_point g h Hwf Hs Hw) as [h2 [Hw2 He]].
  exists text, (map nkev h), (map nk_atom (expected_roundtrip g)), h2.
  repeat split; try assumption. rewrite <- (wr_nk h2), He, wr_nk. exact Hwr.
Qed.

Print Assumptions graph_fixed_point_exact.
Print Assumptions graph_fixed_point.
Print Assumptions read_graph_fixed_point.
Print Assumptions written_text_is_fixed_point.
