(* C07 lemmas: display = standard spelling for every value; no two values share a spelling except the documented
   shorthands. (Reading back in position is Proofs/TokenFacts.v.) *)
From Coq Require Import List String Ascii ZArith NArith Lia Bool Arith.
Import ListNotations.
Require Import P.Generated.Enums P.Spec.Values P.Generated.Tables P.Meta.Scan P.Generated.Trees P.Spec.Spelling P.Spec.Normal
  P.Model.Base P.Model.Token P.Proofs.Finite P.Checks.Token_defs.

Lemma display_checks : bad_display_element = [] /\ bad_display_aliphatic = [] /\ bad_display_aromatic = [] /\ bad_display_bracket_aromatic = [] /\
  bad_display_configuration = [] /\ bad_display_charge = [] /\ bad_display_virtual_hydrogen = [] /\ bad_display_rnum = [] /\ bad_display_bond_kind = [].
Proof. vm_compute. repeat split; reflexivity. Qed.
Lemma clash_checks : clash_element = [] /\ clash_symbol = [] /\ clash_organic = [] /\ clash_configuration = [] /\ clash_hcount = [] /\
  clash_charge = [] /\ clash_rnum = [] /\ clash_bond = [].
Proof. vm_compute. repeat split; reflexivity. Qed.

Lemma bad_display_all {A} (all : list A) disp spell : (forall x, In x all) -> bad_display all disp spell = [] -> forall x, disp x = spell x.
Proof. intros Hc H x. apply String.eqb_eq. apply (filter_nil_all _ _ Hc H). Qed.
Lemma display_is_spelling :
  (forall x, display_element x = spelling_element x) /\ (forall x, display_aliphatic x = spelling_aliphatic x) /\
  (forall x, display_aromatic x = spelling_aromatic x) /\ (forall x, display_bracket_aromatic x = spelling_bracket_aromatic x) /\
  (forall x, display_configuration x = spelling_configuration x) /\ (forall x, display_charge x = spelling_charge x) /\
  (forall x, display_virtual_hydrogen x = spelling_virtual_hydrogen x) /\ (forall x, display_rnum x = spelling_rnum x) /\
  (forall x, display_bond_kind x = spelling_bond_kind x).
Proof.
  destruct display_checks as [H1 [H2 [H3 [H4 [H5 [H6 [H7 [H8 H9]]]]]]]].
  exact (conj (bad_display_all _ _ _ all_element_complete H1) (conj (bad_display_all _ _ _ all_aliphatic_complete H2)
        (conj (bad_display_all _ _ _ all_aromatic_complete H3) (conj (bad_display_all _ _ _ all_bracket_aromatic_complete H4)
        (conj (bad_display_all _ _ _ all_configuration_complete H5) (conj (bad_display_all _ _ _ all_charge_complete H6)
        (conj (bad_display_all _ _ _ all_virtual_hydrogen_complete H7) (conj (bad_display_all _ _ _ all_rnum_complete H8)
              (bad_display_all _ _ _ all_bond_kind_complete H9))))))))).
Qed.

Lemma clashes_nil {A} (all : list A) disp same : (forall x, In x all) -> clashes all disp same = [] -> forall a b, disp a = disp b -> same a b = true.
Proof.
  intros Hc H a b E. destruct (same a b) eqn:S; [reflexivity|]. exfalso.
  assert (In (a, b) (clashes all disp same)).
  { unfold clashes. apply filter_In. split; [apply in_prod; apply Hc|]. cbn [fst snd]. rewrite S. apply andb_true_iff. split; [apply String.eqb_eq; exact E | reflexivity]. }
  rewrite H in H0. exact H0.
Qed.
Lemma spellings_injective :
  (forall a b, display_element a = display_element b -> a = b) /\
  (forall a b, display_symbol a = display_symbol b -> a = b) /\
  (forall a b, opt_str display_configuration a = opt_str display_configuration b -> nk_cfg a = nk_cfg b) /\
  (forall a b, opt_str display_virtual_hydrogen a = opt_str display_virtual_hydrogen b -> nk_h a = nk_h b) /\
  (forall a b, opt_str display_charge a = opt_str display_charge b -> a = b) /\
  (forall a b, display_rnum a = display_rnum b -> a = b) /\
  (forall a b, display_bond_kind a = display_bond_kind b -> a = b).
Proof.
  destruct clash_checks as [H1 [H2 [H3 [H4 [H5 [H6 [H7 H8]]]]]]].
  split; [|split; [|split; [|split; [|split; [|split]]]]]; intros a b E.
  - apply element_eqb_eq. apply (clashes_nil _ _ _ all_element_complete H1 a b E).
  - apply bs_eqb_eq. apply (clashes_nil _ _ _ all_bracket_symbol_complete H2 a b E).
  - apply (opt_eqb_eq _ configuration_eqb_eq). apply (clashes_nil _ _ _ (all_option_complete _ all_configuration_complete) H4 a b E).
  - apply (opt_eqb_eq _ virtual_hydrogen_eqb_eq). apply (clashes_nil _ _ _ (all_option_complete _ all_virtual_hydrogen_complete) H5 a b E).
  - apply (opt_eqb_eq _ charge_eqb_eq). apply (clashes_nil _ _ _ (all_option_complete _ all_charge_complete) H6 a b E).
  - apply rnum_eqb_eq. apply (clashes_nil _ _ _ all_rnum_complete H7 a b E).
  - apply bond_kind_eqb_eq. apply (clashes_nil _ _ _ all_bond_kind_complete H8 a b E).
Qed.
Lemma organic_injective : forall a b, In a (map AK_Aliphatic all_aliphatic ++ map AK_Aromatic all_aromatic ++ [AK_Star]) ->
  In b (map AK_Aliphatic all_aliphatic ++ map AK_Aromatic all_aromatic ++ [AK_Star]) -> display_kind a = display_kind b -> a = b.
Proof.
  destruct clash_checks as [_ [_ [H _]]]. intros a b Ha Hb E. apply kind_eqb_eq.
  destruct (kind_eqb a b) eqn:S; [reflexivity|]. exfalso.
  assert (In (a, b) clash_organic).
  { unfold clash_organic, clashes. apply filter_In. split; [apply in_prod; assumption|]. cbn [fst snd]. rewrite S. apply andb_true_iff. split; [apply String.eqb_eq; exact E | reflexivity]. }
  rewrite H in H0. exact H0.
Qed.
