(* The cursors the reader hands to the Trace.
   1. reader_events_anchored: every atom / ring-token range of an annotated reader event slices the input to exactly the
      token that produced the event, and the bond cursor is where the bond symbol sits (or the start of the atom /
      ring token when the bond is elided).
   2. trace_stores_ranges: the Trace stores these ranges in event order (atom id i = i-th root/extend event).
   3. extend_bond_stored: the bond map entry of the bond created by an extend event, and when it survives. *)
From Coq Require Import List NArith Lia Bool Arith.
Import ListNotations.
Require Import P.Generated.Enums P.Spec.Values P.Meta.Scan P.Meta.ScanMeta P.Generated.Trees P.Model.Base P.Model.Token
  P.Model.Reader P.Model.Trace P.Spec.Events P.Proofs.WalkInv P.Proofs.TokenSafe P.Proofs.ReaderConf P.Proofs.FollowerSafe.

(* keep the kernel from unfolding the (large) learned tries during conversion checks; vm_compute is not affected *)
Strategy opaque [tree_symbol tree_organic tree_configuration tree_charge tree_bond tree_rnum tree_hcount tree_isotope tree_map].

(* ---------- lists ---------- *)
Lemma skipn_skipn' {A} : forall m n (l : list A), skipn n (skipn m l) = skipn (m + n) l.
Proof.
  induction m as [|m IH]; intros n l; [reflexivity|].
  destruct l as [|x l]; [rewrite !skipn_nil; reflexivity|]. cbn [Nat.add skipn]. apply IH.
Qed.

(* ---------- a finite fact about the bond trie: an explicit bond is one character, an elided one none ---------- *)
Lemma bond_shape : every tree_bond (fun r => match r_out r with
                                            | OVal b => Nat.eqb (r_pos r) (if bondk_eqb b BK_Elided then 0 else 1)
                                            | _ => false end).
Proof. apply every_by_family; vm_compute; reflexivity. Qed.
Lemma read_bond_width l b n : read_bond l = (b, n) -> n = if bondk_eqb b BK_Elided then 0 else 1.
Proof.
  unfold read_bond, run_tok, of_run. pose proof (bond_shape l) as H. cbv beta in H.
  destruct (r_out (run tree_bond l 0 0)); try discriminate.
  intros E. inversion E; subst. apply Nat.eqb_eq in H. exact H.
Qed.

(* ---------- 1. the cursor invariant ---------- *)
Definition anchored (s : list char) (e : rcall) : Prop :=
  match e with
  | RRoot k a b => a <= b /\ read_atom (skipn a s) = TOk k (b - a)
  | RExtend bk k bc a b => a <= b /\ read_atom (skipn a s) = TOk k (b - a) /\ bc <= a /\ read_bond (skipn bc s) = (bk, a - bc)
                           /\ (bc = a \/ bc = a - 1)
  | RJoin bk r bc a b => a <= b /\ read_rnum (skipn a s) = TOk r (b - a) /\ bc <= a /\ read_bond (skipn bc s) = (bk, a - bc)
  | RPop _ => True
  end.

Section Anchored.
Variable s : list char.

(* the scanner is in sync with the input, and everything emitted so far is anchored *)
Definition inv (st : rstate) : Prop := rest st = skipn (pos st) s /\ Forall (anchored s) (out st).
(* the bond handed to read_smiles / read_link was read immediately before the current position *)
Definition bond_pre (input : option bond_kind) (st : rstate) : Prop :=
  match input with
  | None => True
  | Some b => exists bc, bc <= pos st /\ read_bond (skipn bc s) = (b, pos st - bc)
  end.

Lemma inv_adv st n : inv st -> inv (adv st n).
Proof. intros [H1 H2]. split; [|exact H2]. unfold adv. cbn [rest pos]. rewrite H1. apply skipn_skipn'. Qed.
Lemma inv_emit st e : inv st -> anchored s e -> inv (emit st e).
Proof. intros [H1 H2] He. split; [exact H1|]. unfold emit. cbn [out]. constructor; assumption. Qed.
Lemma bond_pre_adv st b n : inv st -> read_bond (rest st) = (b, n) -> bond_pre (Some b) (adv st n).
Proof.
  intros [H1 _] Eb. exists (pos st). unfold adv. cbn [pos]. split; [lia|].
  replace (pos st + n - pos st) with n by lia. rewrite <- H1. exact Eb.
Qed.

Lemma read_link_inv input st : inv st -> bond_pre input st ->
  let '(r, st') := read_link input st in match r with ROk true => inv st' | _ => st' = st end.
Proof.
  intros Hi Hb. unfold read_link. destruct (read_atom (rest st)) as [k n| | | |] eqn:Ea; try reflexivity.
  cbv beta iota zeta. apply inv_emit; [apply inv_adv; exact Hi|].
  destruct Hi as [Hs _]. rewrite Hs in Ea.
  destruct input as [b|]; unfold adv; cbn [anchored pos].
  - destruct Hb as [bc [Hle Hb]]. pose proof (read_bond_width _ _ _ Hb) as Hw.
    replace (pos st + n - pos st) with n by lia.
    destruct (bondk_eqb b BK_Elided).
    + assert (Hbc : bc = pos st) by lia. subst bc. repeat split; try lia; assumption.
    + assert (Hbc : bc = pos st - 1) by lia. subst bc. repeat split; try lia; assumption.
  - replace (pos st + n - pos st) with n by lia. split; [lia | exact Ea].
Qed.

Section Loop.
Variable rs : option bond_kind -> rstate -> rres (option nat) * rstate.
Hypothesis Hrs : forall input st, inv st -> bond_pre input st -> let '(r, st') := rs input st in inv st'.

Lemma read_branch_inv st : inv st -> let '(r, st') := read_branch rs st in inv st'.
Proof.
  intros Hi. unfold read_branch. destruct (peek st) as [c|]; [|exact Hi].
  destruct (N.eqb c LP); [|exact Hi].
  set (s1 := adv st 1).
  assert (Hi1 : inv s1) by (apply inv_adv; exact Hi).
  set (r := match peek s1 with
            | Some c' => if N.eqb c' DOT then rs None (adv s1 1) else let '(b, n) := read_bond (rest s1) in rs (Some b) (adv s1 n)
            | None => let '(b, n) := read_bond (rest s1) in rs (Some b) (adv s1 n) end).
  assert (Hr : let '(x, s') := r in inv s').
  { unfold r. destruct (peek s1) as [c'|].
    - destruct (N.eqb c' DOT).
      + apply (Hrs None (adv s1 1)); [apply inv_adv; exact Hi1 | exact I].
      + destruct (read_bond (rest s1)) as [b n] eqn:Eb. apply (Hrs (Some b) (adv s1 n)); [apply inv_adv; exact Hi1 | apply bond_pre_adv; assumption].
    - destruct (read_bond (rest s1)) as [b n] eqn:Eb. apply (Hrs (Some b) (adv s1 n)); [apply inv_adv; exact Hi1 | apply bond_pre_adv; assumption]. }
  destruct r as [x s2]. destruct x as [[len|]| | | |]; try exact Hr.
  destruct (peek s2) as [c''|]; [|exact Hr]. destruct (N.eqb c'' RP); [|exact Hr].
  apply inv_emit; [apply inv_adv; exact Hr | exact I].
Qed.

Lemma loop_inv : forall g st acc, inv st -> let '(r, st') := loop rs g st acc in inv st'.
Proof.
  induction g as [|g IH]; intros st acc Hi; cbn [loop]; [exact Hi|].
  pose proof (read_branch_inv st Hi) as Hb. destruct (read_branch rs st) as [rb s1].
  destruct rb as [[|]| | | |]; try exact Hb.
  - apply IH. exact Hb.
  - destruct (match peek s1 with Some c => N.eqb c DOT | None => false end).
    + pose proof (read_link_inv None (adv s1 1) (inv_adv _ _ Hb) I) as Hlk.
      destruct (read_link None (adv s1 1)) as [rl s2].
      destruct rl as [[|]| | | |]; try (subst s2; apply inv_adv; exact Hb).
      apply IH. exact Hlk.
    + destruct (read_bond (rest s1)) as [b n] eqn:Eb.
      pose proof (read_link_inv (Some b) (adv s1 n) (inv_adv _ _ Hb) (bond_pre_adv _ _ _ Hb Eb)) as Hlk.
      destruct (read_link (Some b) (adv s1 n)) as [rl s2].
      destruct rl as [[|]| | | |]; try (subst s2; apply inv_adv; exact Hb).
      * apply IH. exact Hlk.
      * subst s2. pose proof (inv_adv s1 n Hb) as Hi2.
        destruct (read_rnum (rest (adv s1 n))) as [r m| | | |] eqn:Er; cbn [tok_err]; try exact Hi2.
        -- apply IH. apply inv_emit; [apply inv_adv; exact Hi2|].
           destruct Hi2 as [Hs2 _]. rewrite Hs2 in Er. destruct Hb as [Hs1 _]. rewrite Hs1 in Eb.
           unfold adv in *. cbn [anchored pos] in *.
           replace (pos s1 + n + m - (pos s1 + n)) with m by lia. replace (pos s1 + n - pos s1) with n by lia.
           repeat split; try lia; assumption.
        -- destruct (bondk_eqb b BK_Elided); exact Hi2.
Qed.
End Loop.

Lemma read_smiles_inv : forall f d input st, inv st -> bond_pre input st ->
  let '(r, st') := read_smiles f d input st in inv st'.
Proof.
  induction f as [|f IH]; intros d input st Hi Hb; cbn [read_smiles]; [exact Hi|].
  set (s0 := {| rest := rest st; pos := pos st; out := out st; maxd := Nat.max (maxd st) (S d) |}).
  assert (Hi0 : inv s0) by exact Hi. assert (Hb0 : bond_pre input s0) by exact Hb.
  pose proof (read_link_inv input s0 Hi0 Hb0) as Hlk. destruct (read_link input s0) as [rl s1].
  destruct rl as [[|]| | | |]; try (subst s1; exact Hi0).
  apply (loop_inv (read_smiles f (S d)) (fun input st Hi Hb => IH (S d) input st Hi Hb)). exact Hlk.
Qed.
End Anchored.

Theorem reader_events_anchored : forall s, Forall (anchored s) (r_events (read s)).
Proof.
  intros s. unfold read, read_from.
  set (s0 := {| rest := s; pos := 0; out := []; maxd := 0 |}).
  assert (Hi0 : inv s s0) by (split; [reflexivity | constructor]).
  pose proof (read_smiles_inv s (S (length s)) 0 None s0 Hi0 I) as H.
  destruct (read_smiles (S (length s)) 0 None s0) as [r s1]. cbn [r_events].
  apply Forall_rev. exact (proj2 H).
Qed.

(* ---------- 2. the trace stores the ranges in event order ---------- *)
Definition atom_ranges (h : list rcall) : list (nat * nat) :=
  flat_map (fun e => match e with RRoot _ a b | RExtend _ _ _ a b => [(a, b)] | _ => [] end) h.
Definition rnum_ranges (h : list rcall) : list (nat * nat) :=
  flat_map (fun e => match e with RJoin _ _ _ a b => [(a, b)] | _ => [] end) h.

Lemma tstep_ranges t e t' : tstep t e = Some t' ->
  t_atoms t' = t_atoms t ++ atom_ranges [e] /\ t_rnums t' = t_rnums t ++ rnum_ranges [e].
Proof.
  destruct e as [k a b|bk k bc a b|bk r bc a b|d]; cbn [tstep atom_ranges rnum_ranges flat_map app].
  - intros E; inversion E; subst; cbn [t_atoms t_rnums]. rewrite app_nil_r. split; reflexivity.
  - destruct (t_stack t) as [|sid st]; [discriminate|]. intros E; inversion E; subst; cbn [t_atoms t_rnums]. rewrite app_nil_r. split; reflexivity.
  - destruct (t_stack t) as [|sid st]; [discriminate|].
    destruct (oget (t_opens t) r); intros E; inversion E; subst; cbn [t_atoms t_rnums]; rewrite app_nil_r; split; reflexivity.
  - destruct (length (t_stack t) <=? d); [discriminate|]. intros E; inversion E; subst; cbn [t_atoms t_rnums]. rewrite !app_nil_r. split; reflexivity.
Qed.
Lemma tfold_ranges : forall h t0 t, tfold t0 h = Some t ->
  t_atoms t = t_atoms t0 ++ atom_ranges h /\ t_rnums t = t_rnums t0 ++ rnum_ranges h.
Proof.
  induction h as [|e h IH]; intros t0 t; cbn [tfold].
  - intros E; inversion E; subst. unfold atom_ranges, rnum_ranges. cbn [flat_map]. rewrite !app_nil_r. split; reflexivity.
  - destruct (tstep t0 e) as [t1|] eqn:Es; [|discriminate]. intros E.
    destruct (tstep_ranges _ _ _ Es) as [A1 R1]. destruct (IH _ _ E) as [A2 R2].
    rewrite A2, R2, A1, R1. unfold atom_ranges, rnum_ranges. cbn [flat_map]. rewrite !app_nil_r, <- !app_assoc. split; reflexivity.
Qed.
Theorem trace_stores_ranges : forall h t, tfold trace0 h = Some t -> t_atoms t = atom_ranges h /\ t_rnums t = rnum_ranges h.
Proof. intros h t E. exact (tfold_ranges h trace0 t E). Qed.

(* atom i of the built graph is the i-th root/extend event; ids past the last atom map to nothing *)
Corollary trace_atom_nth h t i : tfold trace0 h = Some t -> trace_atom t i = nth_error (atom_ranges h) i.
Proof. intros E. unfold trace_atom. rewrite (proj1 (trace_stores_ranges h t E)). reflexivity. Qed.
Corollary trace_atom_past h t i : tfold trace0 h = Some t -> length (atom_ranges h) <= i -> trace_atom t i = None.
Proof. intros E Hi. rewrite (trace_atom_nth h t i E). apply nth_error_None. exact Hi. Qed.
Corollary trace_rnum_nth h t i : tfold trace0 h = Some t -> trace_rnum t i = nth_error (rnum_ranges h) i.
Proof. intros E. unfold trace_rnum. rewrite (proj2 (trace_stores_ranges h t E)). reflexivity. Qed.
Corollary trace_rnum_past h t i : tfold trace0 h = Some t -> length (rnum_ranges h) <= i -> trace_rnum t i = None.
Proof. intros E Hi. rewrite (trace_rnum_nth h t i E). apply nth_error_None. exact Hi. Qed.

(* for every input the trace exists (no "last on stack"/"overpop" panic), so the above applies to the reader's events *)
Theorem reader_trace_total : forall s, exists t, tfold trace0 (r_events (read s)) = Some t.
Proof.
  intros s. apply tfold_safe. cbn [trace0 t_stack length].
  pose proof (reader_conformant s) as H. unfold rd in H. cbn [snd] in H. apply conf_iff in H. exact H.
Qed.
(* every range stored in the trace of an input slices that input to an atom token / a ring-number token *)
Theorem trace_atom_slices : forall s t i a b, tfold trace0 (r_events (read s)) = Some t -> trace_atom t i = Some (a, b) ->
  a <= b /\ exists k, read_atom (skipn a s) = TOk k (b - a).
Proof.
  intros s t i a b E Hi. rewrite (trace_atom_nth _ _ _ E) in Hi. apply nth_error_In in Hi.
  pose proof (reader_events_anchored s) as Ha. rewrite Forall_forall in Ha.
  unfold atom_ranges in Hi. apply in_flat_map in Hi. destruct Hi as [e [He Hi]]. specialize (Ha e He).
  destruct e as [k a' b'|bk k bc a' b'|bk r bc a' b'|d]; cbn [In] in Hi; try contradiction;
    destruct Hi as [Hi|[]]; inversion Hi; subst; cbn [anchored] in Ha.
  - split; [apply Ha | exists k; apply Ha].
  - split; [apply Ha | exists k; apply Ha].
Qed.
Theorem trace_rnum_slices : forall s t i a b, tfold trace0 (r_events (read s)) = Some t -> trace_rnum t i = Some (a, b) ->
  a <= b /\ exists r, read_rnum (skipn a s) = TOk r (b - a).
Proof.
  intros s t i a b E Hi. rewrite (trace_rnum_nth _ _ _ E) in Hi. apply nth_error_In in Hi.
  pose proof (reader_events_anchored s) as Ha. rewrite Forall_forall in Ha.
  unfold rnum_ranges in Hi. apply in_flat_map in Hi. destruct Hi as [e [He Hi]]. specialize (Ha e He).
  destruct e as [k a' b'|bk k bc a' b'|bk r bc a' b'|d]; cbn [In] in Hi; try contradiction;
    destruct Hi as [Hi|[]]; inversion Hi; subst; cbn [anchored] in Ha.
  split; [apply Ha | exists r; apply Ha].
Qed.

(* ---------- 3. the bond map ---------- *)
Definition lookup (l : list ((nat * nat) * nat)) (x y : nat) : option nat :=
  option_map snd (find (fun p => Nat.eqb (fst (fst p)) x && Nat.eqb (snd (fst p)) y) l).
Lemma trace_bond_lookup t x y : trace_bond t x y = lookup (t_bonds t) x y. Proof. reflexivity. Qed.
Lemma lookup_cons u v c l x y : lookup (((u, v), c) :: l) x y = if Nat.eqb u x && Nat.eqb v y then Some c else lookup l x y.
Proof. unfold lookup. cbn [find fst snd]. destruct (Nat.eqb u x && Nat.eqb v y); reflexivity. Qed.

(* ids on the stack and in the open-ring table are ids of existing atoms *)
Definition twf (t : trace) : Prop :=
  Forall (fun i => i < length (t_atoms t)) (t_stack t) /\ Forall (fun p => o_sid (snd p) < length (t_atoms t)) (t_opens t).
Lemma twf0 : twf trace0. Proof. split; constructor. Qed.
Lemma Forall_skipn {A} (P : A -> Prop) : forall n l, Forall P l -> Forall P (skipn n l).
Proof. induction n as [|n IH]; intros l H; [exact H|]. destruct l as [|x l]; [exact H|]. cbn [skipn]. apply IH. inversion H; assumption. Qed.
Lemma Forall_odel (P : rnumN * topen -> Prop) : forall o r, Forall P o -> Forall P (odel o r).
Proof.
  induction o as [|[q v] o IH]; intros r H; cbn [odel]; [exact H|]. inversion H; subst.
  destruct (N.eqb q r); [assumption|]. constructor; [assumption | apply IH; assumption].
Qed.
Lemma oget_Forall (P : rnumN * topen -> Prop) : forall o r v, Forall P o -> oget o r = Some v -> exists q, P (q, v).
Proof.
  induction o as [|[q w] o IH]; intros r v H; cbn [oget]; [discriminate|]. inversion H; subst.
  destruct (N.eqb q r); [intros E; inversion E; subst; eauto | apply IH; assumption].
Qed.
Lemma Forall_lt_mono {A} (f : A -> nat) n m l : n <= m -> Forall (fun x => f x < n) l -> Forall (fun x => f x < m) l.
Proof. intros Hnm H. eapply Forall_impl; [|exact H]. cbv beta. intros; lia. Qed.

Lemma tstep_twf t e t' : twf t -> tstep t e = Some t' -> twf t' /\ length (t_atoms t) <= length (t_atoms t').
Proof.
  intros [Hs Ho]. destruct e as [k a b|bk k bc a b|bk r bc a b|d]; cbn [tstep].
  - intros E; inversion E; subst; clear E. unfold twf. cbn [t_atoms t_stack t_opens]. rewrite app_length. cbn [length].
    split; [|lia]. split.
    + constructor; [lia|]. apply (Forall_lt_mono (fun i => i) (length (t_atoms t))); [lia | exact Hs].
    + apply (Forall_lt_mono (fun p => o_sid (snd p)) (length (t_atoms t))); [lia | exact Ho].
  - destruct (t_stack t) as [|sid st] eqn:Est; [discriminate|]. intros E; inversion E; subst; clear E. unfold twf. cbn [t_atoms t_stack t_opens]. rewrite app_length. cbn [length].
    split; [|lia]. split.
    + constructor; [lia|]. apply (Forall_lt_mono (fun i => i) (length (t_atoms t))); [lia | exact Hs].
    + apply (Forall_lt_mono (fun p => o_sid (snd p)) (length (t_atoms t))); [lia | exact Ho].
  - destruct (t_stack t) as [|sid st] eqn:Est; [discriminate|].
    destruct (oget (t_opens t) r) as [o|]; intros E; inversion E; subst; clear E; unfold twf; cbn [t_atoms t_stack t_opens]; (split; [|lia]); split.
    + exact Hs.
    + apply Forall_odel. exact Ho.
    + exact Hs.
    + constructor; [|exact Ho]. cbn [snd o_sid]. inversion Hs; assumption.
  - destruct (length (t_stack t) <=? d); [discriminate|]. intros E; inversion E; subst; clear E. unfold twf. cbn [t_atoms t_stack t_opens].
    split; [|lia]. split; [apply Forall_skipn; exact Hs | exact Ho].
Qed.
Lemma tfold_twf : forall h t t', twf t -> tfold t h = Some t' -> twf t' /\ length (t_atoms t) <= length (t_atoms t').
Proof.
  induction h as [|e h IH]; intros t t' Hw; cbn [tfold].
  - intros E; inversion E; subst. split; [exact Hw | lia].
  - destruct (tstep t e) as [t1|] eqn:Es; [|discriminate]. intros E.
    destruct (tstep_twf _ _ _ Hw Es) as [Hw1 L1]. destruct (IH _ _ Hw1 E) as [Hw2 L2]. split; [exact Hw2 | lia].
Qed.
Lemma tfold_app : forall h1 h2 t, tfold t (h1 ++ h2) = match tfold t h1 with Some t1 => tfold t1 h2 | None => None end.
Proof. induction h1 as [|e h1 IH]; intros h2 t; cbn [app tfold]; [reflexivity|]. destruct (tstep t e); [apply IH | reflexivity]. Qed.

(* the event is a ring closure between atoms x and y *)
Definition recloses (t : trace) (e : rcall) (x y : nat) : Prop :=
  match e with
  | RJoin _ r _ _ _ =>
      match t_stack t, oget (t_opens t) r with
      | sid :: _, Some o => (x = o_sid o /\ y = sid) \/ (x = sid /\ y = o_sid o)
      | _, _ => False
      end
  | _ => False
  end.
Fixpoint never_reclosed (t : trace) (h : list rcall) (x y : nat) : Prop :=
  match h with
  | [] => True
  | e :: r => ~ recloses t e x y /\ match tstep t e with Some t' => never_reclosed t' r x y | None => True end
  end.

(* an entry between existing atoms is overwritten only by a ring closure between the same two atoms *)
Lemma tstep_keeps t e t' x y c : twf t -> x < length (t_atoms t) -> y < length (t_atoms t) -> tstep t e = Some t' ->
  ~ recloses t e x y -> trace_bond t x y = Some c -> trace_bond t' x y = Some c.
Proof.
  intros [Hs Ho] Hx Hy. rewrite !trace_bond_lookup. destruct e as [k a b|bk k bc a b|bk r bc a b|d]; cbn [tstep recloses].
  - intros E; inversion E; subst; clear E. cbn [t_bonds]. auto.
  - destruct (t_stack t) as [|sid st] eqn:Est; [discriminate|]. intros E; inversion E; subst; clear E. cbn [t_bonds]. intros _ Hc.
    rewrite !lookup_cons.
    replace (Nat.eqb (length (t_atoms t)) x) with false by (symmetry; apply Nat.eqb_neq; lia).
    replace (Nat.eqb (length (t_atoms t)) y) with false by (symmetry; apply Nat.eqb_neq; lia).
    rewrite andb_false_r. cbn [andb]. exact Hc.
  - destruct (t_stack t) as [|sid st] eqn:Est; [discriminate|].
    destruct (oget (t_opens t) r) as [o|]; intros E; inversion E; subst; clear E; cbn [t_bonds]; intros Hn Hc; [|exact Hc].
    rewrite !lookup_cons.
    destruct (Nat.eqb_spec (o_sid o) x) as [E1|N1]; destruct (Nat.eqb_spec sid y) as [E2|N2];
      destruct (Nat.eqb_spec sid x) as [E3|N3]; destruct (Nat.eqb_spec (o_sid o) y) as [E4|N4]; cbn [andb]; try exact Hc;
      exfalso; apply Hn; subst; auto.
  - destruct (length (t_stack t) <=? d); [discriminate|]. intros E; inversion E; subst; clear E. cbn [t_bonds]. auto.
Qed.
Lemma tfold_keeps : forall h t t' x y c, twf t -> x < length (t_atoms t) -> y < length (t_atoms t) -> tfold t h = Some t' ->
  never_reclosed t h x y -> trace_bond t x y = Some c -> trace_bond t' x y = Some c.
Proof.
  induction h as [|e h IH]; intros t t' x y c Hw Hx Hy; cbn [tfold never_reclosed].
  - intros E; inversion E; subst. auto.
  - destruct (tstep t e) as [t1|] eqn:Es; [|discriminate]. intros E [Hn Hr] Hc.
    destruct (tstep_twf _ _ _ Hw Es) as [Hw1 L1].
    apply (IH t1 t' x y c Hw1 ltac:(lia) ltac:(lia) E Hr). exact (tstep_keeps _ _ _ _ _ _ Hw Hx Hy Es Hn Hc).
Qed.
Lemma recloses_sym t e x y : recloses t e x y -> recloses t e y x.
Proof. destruct e; cbn [recloses]; auto. destruct (t_stack t); [auto|]. destruct (oget (t_opens t) r); [tauto | auto]. Qed.
Lemma never_reclosed_sym : forall h t x y, never_reclosed t h x y -> never_reclosed t h y x.
Proof.
  induction h as [|e h IH]; intros t x y; cbn [never_reclosed]; [auto|]. intros [Hn Hr]. split.
  - intros H. apply Hn. apply recloses_sym. exact H.
  - destruct (tstep t e); [apply IH; exact Hr | exact I].
Qed.

(* the extend event that creates atom tid from head sid records its bond cursor under (sid,tid) and (tid,sid) ... *)
Theorem extend_bond_inserted : forall h1 bk k bc a b t1 t2,
  tfold trace0 h1 = Some t1 -> tstep t1 (RExtend bk k bc a b) = Some t2 ->
  let tid := length (atom_ranges h1) in
  exists sid, hd_error (t_stack t1) = Some sid /\ sid < tid /\ trace_atom t2 tid = Some (a, b) /\
              trace_bond t2 sid tid = Some bc /\ trace_bond t2 tid sid = Some bc.
Proof.
  intros h1 bk k bc a b t1 t2 E1 E2 tid.
  destruct (tfold_twf _ _ _ twf0 E1) as [[Hs _] _]. pose proof (proj1 (trace_stores_ranges _ _ E1)) as Ha.
  assert (Htid : length (t_atoms t1) = tid) by (unfold tid; rewrite Ha; reflexivity).
  cbn [tstep] in E2. destruct (t_stack t1) as [|sid st] eqn:Est; [discriminate|]. inversion E2; subst t2; clear E2.
  exists sid. assert (Hlt : sid < tid) by (inversion Hs; lia).
  split; [reflexivity|]. split; [exact Hlt|]. rewrite !trace_bond_lookup. unfold trace_atom. cbn [t_bonds t_atoms]. rewrite Htid.
  split; [|split].
  - rewrite nth_error_app2 by lia. rewrite <- Htid, Nat.sub_diag. reflexivity.
  - rewrite !lookup_cons. replace (Nat.eqb tid sid) with false by (symmetry; apply Nat.eqb_neq; lia).
    cbn [andb]. rewrite !Nat.eqb_refl. reflexivity.
  - rewrite !lookup_cons. rewrite !Nat.eqb_refl. reflexivity.
Qed.
(* ... and both entries are still there in the final trace unless a later ring closure joins the same two atoms
   (the closure's insert then replaces them: see reclosure_overwrites below) *)
Theorem extend_bond_stored : forall h1 bk k bc a b h2 t1 t2 t,
  tfold trace0 h1 = Some t1 -> tstep t1 (RExtend bk k bc a b) = Some t2 ->
  tfold trace0 (h1 ++ RExtend bk k bc a b :: h2) = Some t ->
  let tid := length (atom_ranges h1) in
  exists sid, hd_error (t_stack t1) = Some sid /\ sid < tid /\ trace_atom t tid = Some (a, b) /\
              (never_reclosed t2 h2 sid tid -> trace_bond t sid tid = Some bc /\ trace_bond t tid sid = Some bc).
Proof.
  intros h1 bk k bc a b h2 t1 t2 t E1 E2 E tid.
  destruct (extend_bond_inserted h1 bk k bc a b t1 t2 E1 E2) as [sid [Hh [Hlt [Hat [B1 B2]]]]]. fold tid in Hlt, Hat, B1, B2.
  rewrite tfold_app, E1 in E. cbn [tfold] in E. rewrite E2 in E.
  destruct (tfold_twf _ _ _ twf0 E1) as [Hw1 _]. destruct (tstep_twf _ _ _ Hw1 E2) as [Hw2 _].
  assert (Hlen : tid < length (t_atoms t2)) by (apply nth_error_Some; unfold trace_atom in Hat; rewrite Hat; discriminate).
  exists sid. split; [exact Hh|]. split; [exact Hlt|]. split.
  - destruct (tfold_ranges _ _ _ E) as [Ha _]. unfold trace_atom in *. rewrite Ha. rewrite nth_error_app1 by exact Hlen. exact Hat.
  - intros Hn. split.
    + apply (tfold_keeps h2 t2 t sid tid bc Hw2 ltac:(lia) Hlen E Hn B1).
    + apply (tfold_keeps h2 t2 t tid sid bc Hw2 Hlen ltac:(lia) E (never_reclosed_sym _ _ _ _ Hn) B2).
Qed.

(* the side condition is needed: in "C1C1" the ring closure joins atoms 0 and 1, which the chain bond already joins; the
   closure's HashMap inserts replace the chain bond's cursor (2) by the cursors of the two ring digits (1 and 3) *)
Definition c1c1 : list char := [67; 49; 67; 49]%N.
Example reclosure_overwrites :
  exists t, tfold trace0 (r_events (read c1c1)) = Some t /\
            r_events (read c1c1) = [RRoot (AK_Aliphatic Al_C) 0 1; RJoin BK_Elided 1%N 1 1 2; RExtend BK_Elided (AK_Aliphatic Al_C) 2 2 3; RJoin BK_Elided 1%N 3 3 4] /\
            trace_bond t 0 1 = Some 1 /\ trace_bond t 1 0 = Some 3.
Proof. eexists. split; [vm_compute; reflexivity|]. split; vm_compute; [reflexivity | split; reflexivity]. Qed.

Print Assumptions reader_events_anchored.
Print Assumptions trace_stores_ranges.
Print Assumptions reader_trace_total.
Print Assumptions trace_atom_slices.
Print Assumptions extend_bond_stored.
