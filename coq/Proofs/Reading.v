(* C04 / C05 token level: on EVERY input string each token reader of the code (its learned trie) behaves as the
   specification trie of its documented token family: same value, same consumption, same reported error index. *)
From Coq Require Import List String Ascii ZArith NArith Bool Arith Lia.
Import ListNotations.
Require Import P.Generated.Enums P.Meta.Scan P.Meta.ScanMeta P.Spec.Values P.Spec.Spelling P.Spec.Reading P.Generated.Trees P.Checks.Token_defs P.Checks.Reading_defs P.Proofs.TokenSafe.
Strategy opaque [tree_symbol tree_organic tree_configuration tree_charge tree_bond tree_rnum tree_hcount tree_isotope tree_map].

Lemma agree_everywhere {V} veqb (code spec : tree V) :
  pats_in_alphabet code = true -> pats_in_alphabet spec = true -> disagreements veqb code spec = [] ->
  forall s, same veqb (run code s 0 0) (run spec s 0 0) = true.
Proof.
  intros Hc Hs Hd s.
  apply (rel_by_family V alphabet omega omega_out code spec (same veqb) (pats_ok code Hc) (pats_ok spec Hs)).
  apply forallb_forall. intros r Hr. destruct (same veqb (run code r 0 0) (run spec r 0 0)) eqn:E; [reflexivity|]. exfalso.
  assert (In r (disagreements veqb code spec)) by (unfold disagreements; apply filter_In; split; [exact Hr | rewrite E; reflexivity]).
  rewrite Hd in H. exact H.
Qed.
Lemma symbol_as_documented : forall s, same bs_eqb (run tree_symbol s 0 0) (run spec_symbol s 0 0) = true.
Proof. apply agree_everywhere; vm_compute; reflexivity. Qed.
Lemma organic_as_documented : forall s, same org_eqb (run tree_organic s 0 0) (run spec_organic s 0 0) = true.
Proof. apply agree_everywhere; vm_compute; reflexivity. Qed.
Lemma configuration_as_documented : forall s, same configuration_eqb (run tree_configuration s 0 0) (run spec_configuration s 0 0) = true.
Proof. apply agree_everywhere; vm_compute; reflexivity. Qed.
Lemma charge_as_documented : forall s, same charge_eqb (run tree_charge s 0 0) (run spec_charge s 0 0) = true.
Proof. apply agree_everywhere; vm_compute; reflexivity. Qed.
Lemma bond_as_documented : forall s, same bond_kind_eqb (run tree_bond s 0 0) (run spec_bond s 0 0) = true.
Proof. apply agree_everywhere; vm_compute; reflexivity. Qed.
Lemma rnum_as_documented : forall s, same rnum_eqb (run tree_rnum s 0 0) (run spec_rnum s 0 0) = true.
Proof. apply agree_everywhere; vm_compute; reflexivity. Qed.
Lemma hcount_as_documented : forall s, same virtual_hydrogen_eqb (run tree_hcount s 0 0) (run spec_hcount s 0 0) = true.
Proof. apply agree_everywhere; vm_compute; reflexivity. Qed.
Lemma isotope_as_documented : forall s, same N.eqb (run tree_isotope s 0 0) (run spec_isotope s 0 0) = true.
Proof. apply agree_everywhere; vm_compute; reflexivity. Qed.
Lemma map_as_documented : forall s, same N.eqb (run tree_map s 0 0) (run spec_map s 0 0) = true.
Proof. apply agree_everywhere; vm_compute; reflexivity. Qed.

(* C05 token level (peek-then-report discipline): whenever a token reader reports Character(i), position i is the
   highest position it has inspected -- the offending character was looked at, nothing after it was, so the verdict
   does not depend on anything beyond it.  For every input string. *)
Definition err_discipline {V} (r : res V) : bool :=
  match r_out r with OErrChar i => Nat.eqb (S i) (r_peek r) && (r_pos r <=? S i) | _ => true end.
Lemma discipline_symbol : every tree_symbol err_discipline. Proof. apply every_by_family; vm_compute; reflexivity. Qed.
Lemma discipline_organic : every tree_organic err_discipline. Proof. apply every_by_family; vm_compute; reflexivity. Qed.
Lemma discipline_configuration : every tree_configuration err_discipline. Proof. apply every_by_family; vm_compute; reflexivity. Qed.
Lemma discipline_charge : every tree_charge err_discipline. Proof. apply every_by_family; vm_compute; reflexivity. Qed.
Lemma discipline_rnum : every tree_rnum err_discipline. Proof. apply every_by_family; vm_compute; reflexivity. Qed.
Lemma discipline_hcount : every tree_hcount err_discipline. Proof. apply every_by_family; vm_compute; reflexivity. Qed.
Lemma discipline_isotope : every tree_isotope err_discipline. Proof. apply every_by_family; vm_compute; reflexivity. Qed.
Lemma discipline_map : every tree_map err_discipline. Proof. apply every_by_family; vm_compute; reflexivity. Qed.
