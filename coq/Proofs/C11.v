(* C11: the validation pass of walk accepts exactly the well-formed adjacency lists, and an error it reports names a
   half-bond that really has that defect. *)
From Coq Require Import List String NArith Lia Bool Arith.
Import ListNotations.
Require Import P.Generated.Enums P.Spec.Values P.Generated.Tables P.Model.Base P.Model.Pool P.Model.Walk P.Checks.C18_defs P.Proofs.C18_conv P.Spec.Graph.
Local Notation length := List.length.

Lemma compatible_spec : forall k k', (if is_directional k then bondk_eqb k (reverse k') else bondk_eqb k k') = bond_kind_eqb k' (spec_reverse k).
Proof.
  assert (H : forallb (fun k => forallb (fun k' => Bool.eqb (if is_directional k then bondk_eqb k (reverse k') else bondk_eqb k k') (bond_kind_eqb k' (spec_reverse k))) all_bond_kind) all_bond_kind = true) by (vm_compute; reflexivity).
  intros k k'. rewrite forallb_forall in H. specialize (H k (all_bond_kind_complete k)). rewrite forallb_forall in H. apply Bool.eqb_prop. apply H, all_bond_kind_complete.
Qed.

(* find_back against counting *)
Lemma count_to_cons o t j : count_to (o :: t) j = (if Nat.eqb (tid o) j then 1 else 0) + count_to t j.
Proof. unfold count_to. cbn [filter]. destruct (Nat.eqb (tid o) j); reflexivity. Qed.
Lemma find_back_spec : forall outs sid acc,
  match find_back outs sid acc with
  | None => 2 <= count_to outs sid + (match acc with Some _ => 1 | None => 0 end)
  | Some None => count_to outs sid = 0 /\ acc = None
  | Some (Some b) => (acc = None /\ count_to outs sid = 1 /\ In b outs /\ tid b = sid) \/ (acc = Some b /\ count_to outs sid = 0)
  end.
Proof.
  induction outs as [|o t IH]; intros sid acc.
  - cbn [find_back]. destruct acc as [b|]; [right; split; reflexivity | split; reflexivity].
  - cbn [find_back]. rewrite count_to_cons. destruct (Nat.eqb_spec (tid o) sid) as [E|E].
    + destruct acc as [a|]; [lia|]. specialize (IH sid (Some o)). destruct (find_back t sid (Some o)) as [[b|]|].
      * destruct IH as [[H _]|[H1 H2]]; [discriminate|]. inversion H1; subst b. left. split; [reflexivity|]. split; [lia|]. split; [left; reflexivity | exact E].
      * destruct IH as [_ H]. discriminate.
      * lia.
    + specialize (IH sid acc). destruct (find_back t sid acc) as [[b|]|].
      * destruct IH as [[H1 [H2 [H3 H4]]]|[H1 H2]]; [left; split; [exact H1|]; split; [lia|]; split; [right; exact H3 | exact H4] | right; split; [exact H1 | lia]].
      * destruct IH as [H1 H2]. split; [lia | exact H2].
      * lia.
Qed.

Definition bond_valid (g : list atom) (i : nat) (b : bond) : Prop :=
  tid b < length g /\ tid b <> i /\ exists a back, nth_error g (tid b) = Some a /\ count_to (bonds a) i = 1 /\ In back (bonds a) /\ tid back = i /\ bk back = spec_reverse (bk b).
Lemma validate_bond_none g i b : validate_bond g i b = None <-> bond_valid g i b.
Proof.
  unfold validate_bond, bond_valid. destruct (Nat.leb_spec (length g) (tid b)) as [Hge|Hlt]; [split; [discriminate | intros [H _]; lia]|].
  destruct (Nat.eqb_spec (tid b) i) as [E|E]; [split; [discriminate | intros [_ [H _]]; contradiction]|].
  destruct (nth_error g (tid b)) as [a|] eqn:Ea; [|apply nth_error_None in Ea; lia].
  pose proof (find_back_spec (bonds a) i None) as Hf. destruct (find_back (bonds a) i None) as [[back|]|].
  - destruct Hf as [[_ [H1 [H2 H3]]]|[H _]]; [|discriminate]. unfold compatible. rewrite compatible_spec.
    destruct (bond_kind_eqb (bk back) (spec_reverse (bk b))) eqn:Ek.
    + apply bond_kind_eqb_eq in Ek. split; [intros _; repeat split; auto; exists a, back; auto | reflexivity].
    + split; [discriminate|]. intros [_ [_ [a' [back' [Ha' [Hc [Hin [Ht Hk]]]]]]]]. exfalso. inversion Ha'; subst a'.
      (* the back bond is unique *)
      assert (back' = back).
      { clear - H1 H2 H3 Hin Ht. unfold count_to in H1. induction (bonds a) as [|o t IH]; [contradiction|]. cbn [filter] in H1.
        destruct (Nat.eqb_spec (tid o) i) as [Eo|Eo]; cbn [length] in H1.
        - assert (Hz : filter (fun b => Nat.eqb (tid b) i) t = []) by (destruct (filter _ t); [reflexivity | simpl in H1; lia]).
          assert (Hno : forall x, In x t -> tid x <> i).
          { intros x Hx Ex. assert (In x (filter (fun b => Nat.eqb (tid b) i) t)) by (apply filter_In; split; [exact Hx | apply Nat.eqb_eq; exact Ex]). rewrite Hz in H. exact H. }
          destruct H2 as [->|H2]; [|exfalso; exact (Hno _ H2 H3)]. destruct Hin as [->|Hin]; [reflexivity | exfalso; exact (Hno _ Hin Ht)].
        - destruct H2 as [->|H2]; [contradiction|]. destruct Hin as [->|Hin]; [contradiction|]. apply IH; assumption. }
      subst back'. rewrite Hk in Ek. rewrite (proj2 (bond_kind_eqb_eq _ _) eq_refl) in Ek. discriminate.
  - destruct Hf as [H _]. split; [discriminate|]. intros [_ [_ [a' [back' [Ha' [Hc _]]]]]]. inversion Ha'; subst. lia.
  - split; [discriminate|]. intros [_ [_ [a' [back' [Ha' [Hc _]]]]]]. inversion Ha'; subst. simpl in Hf. lia.
Qed.

Lemma first_err_none {A} (f : A -> option werr) l : first_err f l = None <-> forall x, In x l -> f x = None.
Proof.
  induction l as [|a t IH]; cbn [first_err]; [split; [intros _ x [] | reflexivity]|].
  destruct (f a) eqn:E; [split; [discriminate | intros H; specialize (H a (or_introl eq_refl)); congruence]|].
  rewrite IH. split; [intros H x [<-|Hx]; auto | intros H x Hx; apply H; right; exact Hx].
Qed.
Lemma in_enumerate {A} (l : list A) i a : In (i, a) (enumerate l) <-> nth_error l i = Some a.
Proof.
  unfold enumerate. assert (G : forall k, In (i, a) (combine (seq k (length l)) l) <-> k <= i /\ nth_error l (i - k) = Some a).
  { induction l as [|x t IH]; intros k; cbn [length seq combine].
    - split; [intros [] | intros [_ H]; destruct (i - k); discriminate].
    - cbn [In]. rewrite IH. split.
      + intros [E|[H1 H2]].
        * inversion E; subst. split; [lia | rewrite Nat.sub_diag; reflexivity].
        * split; [lia|]. replace (i - k) with (S (i - S k)) by lia. exact H2.
      + intros [H1 H2]. destruct (Nat.eq_dec i k) as [->|Hne].
        * left. rewrite Nat.sub_diag in H2. inversion H2. reflexivity.
        * right. split; [lia|]. replace (i - k) with (S (i - S k)) in H2 by lia. exact H2. }
  rewrite G. rewrite Nat.sub_0_r. split; [tauto | intros H; split; [lia | exact H]].
Qed.
Lemma validate_none g : validate g = None <-> forall i a b, nth_error g i = Some a -> In b (bonds a) -> bond_valid g i b.
Proof.
  unfold validate. rewrite first_err_none. split.
  - intros H i a b Ha Hb. specialize (H (i, a) (proj2 (in_enumerate g i a) Ha)). cbn [fst snd] in H. rewrite first_err_none in H. apply validate_bond_none. apply H. exact Hb.
  - intros H [i a] Hin. cbn [fst snd]. apply first_err_none. intros b Hb. apply validate_bond_none. apply (H i a b); [apply in_enumerate; exact Hin | exact Hb].
Qed.

(* the specification boolean *)
Lemma wf_from_spec g : forall l i, wf_from g i l = true <-> forall k a b, nth_error l k = Some a -> In b (bonds a) -> half_ok g (i + k) (bonds a) b = true.
Proof.
  induction l as [|x t IH]; intros i; cbn [wf_from].
  - split; [intros _ k a b H; destruct k; discriminate | reflexivity].
  - rewrite andb_true_iff, forallb_forall, IH. split.
    + intros [H1 H2] k a b Ha Hb. destruct k as [|k]; cbn [nth_error] in Ha; [inversion Ha; subst; rewrite Nat.add_0_r; apply H1; exact Hb|].
      replace (i + S k) with (S i + k) by lia. apply (H2 k a b Ha Hb).
    + intros H. split; [intros b Hb; specialize (H 0 x b eq_refl Hb); rewrite Nat.add_0_r in H; exact H|].
      intros k a b Ha Hb. replace (S i + k) with (i + S k) by lia. apply (H (S k) a b Ha Hb).
Qed.
Lemma count_one_in l j : count_to l j = 1 -> exists b, In b l /\ tid b = j.
Proof.
  unfold count_to. intros H. destruct (filter (fun b => Nat.eqb (tid b) j) l) as [|b t] eqn:E; [discriminate|].
  assert (In b (filter (fun b => Nat.eqb (tid b) j) l)) by (rewrite E; left; reflexivity). apply filter_In in H0 as [H1 H2]. apply Nat.eqb_eq in H2. eauto.
Qed.
Theorem validate_iff_wf g : validate g = None <-> wf g = true.
Proof.
  unfold wf. rewrite validate_none, wf_from_spec. cbn [Nat.add]. split.
  - intros H k a b Ha Hb. destruct (H k a b Ha Hb) as [H1 [H2 [a' [back [Ha' [Hc [Hin [Ht Hk]]]]]]]].
    unfold half_ok. rewrite Ha'. repeat (apply andb_true_iff; split).
    + apply Nat.ltb_lt. exact H1.
    + apply negb_true_iff, Nat.eqb_neq. exact H2.
    + (* the target is named once in the own list: validate the back bond *)
      destruct (H (tid b) a' back Ha' Hin) as [_ [_ [a'' [bb [Ha'' [Hc'' _]]]]]]. rewrite Ht in Ha''. rewrite Ha in Ha''. inversion Ha''; subst a''. apply Nat.eqb_eq. exact Hc''.
    + apply Nat.eqb_eq. exact Hc.
    + apply forallb_forall. intros b' Hb'. destruct (Nat.eqb_spec (tid b') k) as [E|E]; [|reflexivity]. cbn [negb orb].
      (* b' is the unique back bond *)
      assert (b' = back).
      { clear - Hc Hin Ht Hb' E. unfold count_to in Hc. induction (bonds a') as [|o t IH]; [contradiction|]. cbn [filter] in Hc.
        destruct (Nat.eqb_spec (tid o) k) as [Eo|Eo]; cbn [length] in Hc.
        - assert (Hz : filter (fun b => Nat.eqb (tid b) k) t = []) by (destruct (filter _ t); [reflexivity | simpl in Hc; lia]).
          assert (Hno : forall x, In x t -> tid x <> k).
          { intros x Hx Ex. assert (In x (filter (fun b => Nat.eqb (tid b) k) t)) by (apply filter_In; split; [exact Hx | apply Nat.eqb_eq; exact Ex]). rewrite Hz in H. exact H. }
          destruct Hin as [->|Hin]; [|exfalso; exact (Hno _ Hin Ht)]. destruct Hb' as [->|Hb']; [reflexivity | exfalso; exact (Hno _ Hb' E)].
        - destruct Hin as [->|Hin]; [contradiction|]. destruct Hb' as [->|Hb']; [contradiction|]. apply IH; assumption. }
      subst b'. apply bond_kind_eqb_eq. exact Hk.
  - intros H i a b Ha Hb. specialize (H i a b Ha Hb). unfold half_ok in H.
    apply andb_true_iff in H as [H H4]. apply andb_true_iff in H as [H H3]. apply andb_true_iff in H as [H1 H2].
    apply Nat.ltb_lt in H1. apply negb_true_iff, Nat.eqb_neq in H2.
    destruct (nth_error g (tid b)) as [a'|] eqn:Ea'; [|discriminate]. apply andb_true_iff in H4 as [H4 H5]. apply Nat.eqb_eq in H4.
    destruct (count_one_in _ _ H4) as [back [Hin Ht]]. rewrite forallb_forall in H5. specialize (H5 back Hin). rewrite Ht, Nat.eqb_refl in H5. cbn [negb orb] in H5. apply bond_kind_eqb_eq in H5.
    repeat split; auto. exists a', back. auto.
Qed.

(* an error reported by the validation pass names a real defect *)
Definition defect_of (e : werr) : defect :=
  match e with HalfBond a b => DHalf a b | DuplicateBond a b => DDuplicate a b | UnknownTarget a b => DUnknown a b
             | IncompatibleBond a b => DIncompatible a b | Loop a => DLoop a end.
Lemma first_err_some {A} (f : A -> option werr) l e : first_err f l = Some e -> exists x, In x l /\ f x = Some e.
Proof.
  induction l as [|a t IH]; cbn [first_err]; [discriminate|]. destruct (f a) eqn:E; [intros H; inversion H; subst; exists a; split; [left; reflexivity | exact E]|].
  intros H. destruct (IH H) as [x [Hx Hf]]. exists x. split; [right; exact Hx | exact Hf].
Qed.
Theorem validate_error_real g e : validate g = Some e -> has_defect g (defect_of e).
Proof.
  unfold validate. intros H. apply first_err_some in H as [[i a] [Hin H]]. cbn [fst snd] in H. apply first_err_some in H as [b [Hb H]].
  apply in_enumerate in Hin. assert (Hba : In b (bonds_at g i)) by (unfold bonds_at; rewrite Hin; exact Hb).
  unfold validate_bond in H. destruct (Nat.leb_spec (length g) (tid b)) as [Hge|Hlt].
  - inversion H; subst. cbn [defect_of has_defect]. split; [exists b; auto | exact Hge].
  - destruct (Nat.eqb_spec (tid b) i) as [E|E]; [inversion H; subst; cbn [defect_of has_defect]; exists b; auto|].
    destruct (nth_error g (tid b)) as [a'|] eqn:Ea'; [|apply nth_error_None in Ea'; lia].
    pose proof (find_back_spec (bonds a') i None) as Hf. destruct (find_back (bonds a') i None) as [[back|]|].
    + destruct Hf as [[_ [H1 [H2 H3]]]|[Hx _]]; [|discriminate]. unfold compatible in H. rewrite compatible_spec in H.
      destruct (bond_kind_eqb (bk back) (spec_reverse (bk b))) eqn:Ek; [discriminate|]. inversion H; subst. cbn [defect_of has_defect].
      exists b, back. unfold bonds_at. rewrite Ea'. repeat split; auto. intros Eq. rewrite Eq in Ek. rewrite (proj2 (bond_kind_eqb_eq _ _) eq_refl) in Ek. discriminate.
    + destruct Hf as [Hc _]. inversion H; subst. cbn [defect_of has_defect]. split; [exists b; auto|]. unfold bonds_at. rewrite Ea'. exact Hc.
    + inversion H; subst. cbn [defect_of has_defect]. split; [exists b; auto|]. unfold bonds_at. rewrite Ea'. simpl in Hf. lia.
Qed.
(* success implies well-formedness *)
Theorem walk_ok_wf g : fst (walk g) = WOk -> wf g = true.
Proof. unfold walk. destruct (validate g) eqn:E; [discriminate|]. intros _. apply validate_iff_wf. exact E. Qed.
Theorem walk_rejects_ill_formed g : wf g = false -> exists e, fst (walk g) = WErr e /\ has_defect g (defect_of e).
Proof.
  intros H. unfold walk. destruct (validate g) as [e|] eqn:E.
  - exists e. split; [reflexivity | apply validate_error_real; exact E].
  - apply validate_iff_wf in E. congruence.
Qed.
