(* The executable recogniser of Spec/Grammar.v decides the declarative grammar of Spec/Lang.v -- part 3:
   the token families, bracket atoms, items, the nesting fuel of p_X, and the two theorems
     accepts_spec s = true <-> Lang s          viable_spec s = true <-> viable s. *)
From Coq Require Import String.
From Coq Require Import List NArith Lia Bool Arith.
Import ListNotations.
Require Import P.Meta.Scan P.Spec.Reading P.Spec.Grammar P.Spec.Lang P.Proofs.LangBNF P.Proofs.GrammarOracleBase P.Proofs.GrammarOracleStar.

(* ---------- inhabitation and non-emptiness ---------- *)
Lemma inh_cat (A B : lang) : Inh A -> Inh B -> Inh (Cat A B).
Proof. intros [a Ha] [b Hb]. exists (a ++ b), a, b. split; [reflexivity | split; assumption]. Qed.
Lemma inh_opt (A : lang) : Inh (opt A).
Proof. exists []. left. reflexivity. Qed.
Lemma inh_alt_l (A B : lang) : Inh A -> Inh (Alt A B).
Proof. intros [a Ha]. exists a. left. exact Ha. Qed.
Lemma inh_tok1 c : Inh (Tok [[c]]).
Proof. exists [c]. left. reflexivity. Qed.
Lemma inh_dig m : Inh (DigN (S m)).
Proof. exists [48%N]. split; [cbn [length]; lia | apply Forall_cons; [apply d0 | apply Forall_nil]]. Qed.
Lemma tok1 c x : Tok [[c]] x <-> x = [c].
Proof. unfold Tok. cbn [In]. split; [intros [H|[]]; symmetry; exact H | intros ->; left; reflexivity]. Qed.

Definition nonnil (k : list char) : bool := match k with [] => false | _ => true end.
Lemma table_ne (t : list (list char)) : forallb nonnil t = true -> NE (Tok t).
Proof. intros H x Hx. apply (proj1 (forallb_forall _ _) H) in Hx. destruct x; [discriminate Hx | discriminate]. Qed.
Lemma memb_tok (t : list (list char)) x : existsb (fun k => if list_eq_dec N.eq_dec k x then true else false) t = true -> Tok t x.
Proof. intros H. apply existsb_exists in H as [k [Hk E]]. destruct (list_eq_dec N.eq_dec k x) as [->|]; [exact Hk | discriminate]. Qed.

Lemma organic_ne : NE Organic.
Proof. apply (table_ne (keys organic_table)). vm_compute. reflexivity. Qed.
Lemma organic_inh : Inh Organic.
Proof. exists [67%N]. apply (memb_tok (keys organic_table)). vm_compute. reflexivity. Qed.
Lemma symbol_inh : Inh Symbol.
Proof. exists [67%N]. apply (memb_tok (keys symbol_table)). vm_compute. reflexivity. Qed.

(* ---------- token families ---------- *)
Lemma organic_ok : OKall (token (keys organic_table)) Organic.
Proof. exact (token_ok (keys organic_table)). Qed.
Lemma symbol_ok : OKall p_symbol Symbol.
Proof. exact (token_ok (keys symbol_table)). Qed.
Lemma configuration_ok : OKall p_configuration Configuration.
Proof. exact (token_ok (keys configuration_table)). Qed.
Lemma hcount_ok : OKall p_hcount Hcount.
Proof. exact (token_ok (keys hcount_table)). Qed.
Lemma charge_ok : OKall p_charge Charge.
Proof. exact (token_ok (keys charge_table)). Qed.
Lemma bond_ok : OKall p_bond Bond.
Proof. exact (token_ok (keys bond_table)). Qed.
Lemma isotope_ok : OKall p_isotope Isotope.
Proof. exact (digits_ok 3). Qed.

Lemma map_ok : OKall p_map Map.
Proof.
  apply (OKall_ext _ (Cat (Tok [[58%N]]) (DigN 3))).
  - intros x. unfold Map, Cat. change (str ":") with [58%N]. split.
    + intros [a [b [-> [Ha Hb]]]]. apply tok1 in Ha. subst a. exists b. split; [reflexivity | exact Hb].
    + intros [d [-> Hd]]. exists [58%N], d. split; [reflexivity | split; [apply tok1; reflexivity | exact Hd]].
  - apply seqp_okall; [apply chr_ok | apply digits_ok | apply inh_dig].
Qed.
Lemma rnum_ok : OKall p_rnum Rnum.
Proof.
  rewrite p_rnum_eq. apply (OKall_ext _ (Alt (DigN 1) (Cat (Tok [[37%N]]) Two))).
  - intros x. unfold Rnum, Alt, Cat, Two. change (str "%") with [37%N]. split.
    + intros [[Hl Hf]|[a [b [-> [Ha [x1 [x2 [-> [H1 H2]]]]]]]]].
      * left. destruct x as [|a [|b x]]; cbn [length] in Hl; try lia. exists a. split; [reflexivity | exact (Forall_inv Hf)].
      * right. apply tok1 in Ha. subst a. exists x1, x2. split; [reflexivity | split; assumption].
    + intros [[a [-> Ha]]|[a [b [-> [Ha Hb]]]]].
      * left. split; [cbn [length]; lia | apply Forall_cons; [exact Ha | apply Forall_nil]].
      * right. exists [37%N], [a; b]. split; [reflexivity|]. split; [apply tok1; reflexivity|]. exists a, b. split; [reflexivity | split; assumption].
  - apply altp_okall; [apply digits_ok|]. apply seqp_okall; [apply chr_ok | apply rtail_ok|].
    exists [48%N; 48%N], 48%N, 48%N. split; [reflexivity | split; apply d0].
Qed.
Lemma rnum_ne : NE Rnum.
Proof. intros x [[a [-> _]]|[a [b [-> _]]]]; discriminate. Qed.

(* ---------- bracket atoms ---------- *)
Definition BracketL : lang :=
  Cat (Tok [[91%N]]) (Cat (opt Isotope) (Cat Symbol (Cat (opt Configuration) (Cat (opt Hcount) (Cat (opt Charge) (Cat (opt Map) (Tok [[93%N]]))))))).
Lemma bracketL_iff x : BracketL x <-> Bracket x.
Proof.
  split.
  - intros [a [x1 [-> [Ha [i [x2 [-> [Hi [s [x3 [-> [Hs [c [x4 [-> [Hc [h [x5 [-> [Hh [g [x6 [-> [Hg [m [z [-> [Hm Hz]]]]]]]]]]]]]]]]]]]]]]]]]]]].
    apply tok1 in Ha, Hz. subst a z. apply (bracket i s c h g m); assumption.
  - intros [i s c h g m Hi Hs Hc Hh Hg Hm].
    exists [91%N], (i ++ s ++ c ++ h ++ g ++ m ++ [93%N]). split; [reflexivity|]. split; [apply tok1; reflexivity|].
    exists i, (s ++ c ++ h ++ g ++ m ++ [93%N]). split; [reflexivity|]. split; [exact Hi|].
    exists s, (c ++ h ++ g ++ m ++ [93%N]). split; [reflexivity|]. split; [exact Hs|].
    exists c, (h ++ g ++ m ++ [93%N]). split; [reflexivity|]. split; [exact Hc|].
    exists h, (g ++ m ++ [93%N]). split; [reflexivity|]. split; [exact Hh|].
    exists g, (m ++ [93%N]). split; [reflexivity|]. split; [exact Hg|].
    exists m, [93%N]. split; [reflexivity|]. split; [exact Hm | apply tok1; reflexivity].
Qed.
Lemma bracket_ok : OKall p_bracket Bracket.
Proof.
  apply (OKall_ext _ BracketL _ bracketL_iff). unfold p_bracket, BracketL.
  assert (I7 : Inh (Tok [[93%N]])) by apply inh_tok1.
  assert (I6 : Inh (Cat (opt Map) (Tok [[93%N]]))) by (apply inh_cat; [apply inh_opt | exact I7]).
  assert (I5 : Inh (Cat (opt Charge) (Cat (opt Map) (Tok [[93%N]])))) by (apply inh_cat; [apply inh_opt | exact I6]).
  assert (I4 : Inh (Cat (opt Hcount) (Cat (opt Charge) (Cat (opt Map) (Tok [[93%N]]))))) by (apply inh_cat; [apply inh_opt | exact I5]).
  assert (I3 : Inh (Cat (opt Configuration) (Cat (opt Hcount) (Cat (opt Charge) (Cat (opt Map) (Tok [[93%N]])))))) by (apply inh_cat; [apply inh_opt | exact I4]).
  assert (I2 : Inh (Cat Symbol (Cat (opt Configuration) (Cat (opt Hcount) (Cat (opt Charge) (Cat (opt Map) (Tok [[93%N]]))))))) by (apply inh_cat; [apply symbol_inh | exact I3]).
  assert (I1 : Inh (Cat (opt Isotope) (Cat Symbol (Cat (opt Configuration) (Cat (opt Hcount) (Cat (opt Charge) (Cat (opt Map) (Tok [[93%N]])))))))) by (apply inh_cat; [apply inh_opt | exact I2]).
  apply seqp_okall; [apply chr_ok | | exact I1].
  apply seqp_okall; [apply optp_okall, isotope_ok | | exact I2].
  apply seqp_okall; [apply symbol_ok | | exact I3].
  apply seqp_okall; [apply optp_okall, configuration_ok | | exact I4].
  apply seqp_okall; [apply optp_okall, hcount_ok | | exact I5].
  apply seqp_okall; [apply optp_okall, charge_ok | | exact I6].
  apply seqp_okall; [apply optp_okall, map_ok | apply chr_ok | exact I7].
Qed.
Lemma bracket_ne : NE Bracket.
Proof. intros x Hx. destruct Hx. change (str "[") with [91%N]. discriminate. Qed.

(* ---------- atoms ---------- *)
Lemma atom_ok : OKall p_atom Atom.
Proof.
  apply (OKall_ext _ (Alt Organic (Alt (Tok [[42%N]]) Bracket))).
  - intros x. unfold Atom, Alt. change (str "*") with [42%N]. rewrite tok1. reflexivity.
  - unfold p_atom. apply altp_okall; [apply organic_ok|]. apply altp_okall; [apply chr_ok | apply bracket_ok].
Qed.
Lemma atom_ne : NE Atom.
Proof. intros x [H|[->|H]]; [apply organic_ne; exact H | discriminate | apply bracket_ne; exact H]. Qed.
Lemma atom_inh : Inh Atom.
Proof. destruct organic_inh as [x Hx]. exists x. left. exact Hx. Qed.
Lemma chain_inh : Inh Chain.
Proof. destruct atom_inh as [x Hx]. exists (x ++ []). apply chain; [exact Hx | apply items_nil]. Qed.
Lemma chain_ne : NE Chain.
Proof. intros x Hx. destruct Hx as [a r Ha _]. pose proof (atom_ne a Ha). destruct a; [contradiction | discriminate]. Qed.

(* ---------- items ---------- *)
Definition item_of (px : parser) : parser :=
  altp (seqp (chr 40%N) (seqp (altp (chr 46%N) (optp p_bond)) (seqp px (chr 41%N))))
       (altp (seqp (chr 46%N) p_atom) (seqp (optp p_bond) (altp p_atom p_rnum))).
Lemma pX_S f s : p_X (S f) s =
  let a := p_atom s in let r := star (S (length s)) (item_of (p_X f)) (rests a) (rests a) false in
  {| hit_end := hit_end a || hit_end r; rests := rests r |}.
Proof. reflexivity. Qed.
Definition ItemL : lang :=
  Alt (Cat (Tok [[40%N]]) (Cat (Alt (Tok [[46%N]]) (opt Bond)) (Cat Chain (Tok [[41%N]]))))
      (Alt (Cat (Tok [[46%N]]) Atom) (Cat (opt Bond) (Alt Atom Rnum))).
Lemma itemL_iff x : ItemL x <-> Item x.
Proof.
  split.
  - intros [[a [x1 [-> [Ha [p [x2 [-> [Hp [c [z [-> [Hc Hz]]]]]]]]]]]]|[[a [b [-> [Ha Hb]]]]|[b [y [-> [Hb [Hy|Hy]]]]]]].
    + apply tok1 in Ha, Hz. subst a z. apply (item_branch p c); [|exact Hc]. destruct Hp as [Hp|Hp]; [left; apply tok1 in Hp; exact Hp | right; exact Hp].
    + apply tok1 in Ha. subst a. apply (item_dot b). exact Hb.
    + apply item_atom; assumption.
    + apply item_ring; assumption.
  - intros [p c Hp Hc|a Ha|b a Hb Ha|b r Hb Hr].
    + left. exists [40%N], (p ++ c ++ [41%N]). split; [reflexivity|]. split; [apply tok1; reflexivity|].
      exists p, (c ++ [41%N]). split; [reflexivity|]. split.
      * destruct Hp as [->|Hp]; [left; apply tok1; reflexivity | right; exact Hp].
      * exists c, [41%N]. split; [reflexivity|]. split; [exact Hc | apply tok1; reflexivity].
    + right. left. exists [46%N], a. split; [reflexivity|]. split; [apply tok1; reflexivity | exact Ha].
    + right. right. exists b, a. split; [reflexivity|]. split; [exact Hb | left; exact Ha].
    + right. right. exists b, r. split; [reflexivity|]. split; [exact Hb | right; exact Hr].
Qed.
Lemma item_ok n px : OKn n px Chain -> OKn n (item_of px) Item.
Proof.
  intros Hpx. apply (OKn_ext n _ ItemL _ itemL_iff). unfold item_of, ItemL.
  assert (I1 : Inh (Cat Chain (Tok [[41%N]]))) by (apply inh_cat; [apply chain_inh | apply inh_tok1]).
  apply altp_okn; [|apply altp_okn].
  - apply seqp_okn; [apply OKall_n, chr_ok | | apply inh_cat; [apply inh_alt_l, inh_tok1 | exact I1]].
    apply seqp_okn; [apply altp_okn; [apply OKall_n, chr_ok | apply optp_okn, OKall_n, bond_ok] | | exact I1].
    apply seqp_okn; [exact Hpx | apply OKall_n, chr_ok | apply inh_tok1].
  - apply seqp_okn; [apply OKall_n, chr_ok | apply OKall_n, atom_ok | apply atom_inh].
  - apply seqp_okn; [apply optp_okn, OKall_n, bond_ok | | apply inh_alt_l, atom_inh].
    apply altp_okn; apply OKall_n; [apply atom_ok | apply rnum_ok].
Qed.
Lemma item_ne : NE Item.
Proof.
  intros x Hx. destruct Hx as [p c Hp Hc|a Ha|b a Hb Ha|b r Hb Hr].
  - change (str "(") with [40%N]. discriminate.
  - change (str ".") with [46%N]. discriminate.
  - intros E. apply app_eq_nil in E as [_ E]. exact (atom_ne a Ha E).
  - intros E. apply app_eq_nil in E as [_ E]. exact (rnum_ne r Hr E).
Qed.
Lemma rep_items c : Rep Item c <-> Items c.
Proof.
  split; intros H.
  - induction H as [|i r Hi Hr IH]; [apply items_nil | apply items_cons; assumption].
  - induction H as [|i r Hi Hr IH]; [apply rep_nil | apply rep_cons; assumption].
Qed.

(* ---------- chains: the fuel of p_X bounds the nesting depth, which is smaller than the length ---------- *)
Lemma pX_ok : forall f n, n < f -> OKn n (p_X f) Chain.
Proof.
  induction f as [|f IH]; intros n Hn; [lia|]. intros s Hs.
  destruct (atom_ok s) as [Ha1 [Ha2 Ha3]].
  set (seen0 := rests (p_atom s)) in *.
  assert (Hlen : forall x, In x seen0 -> length x < length s).
  { intros x Hx. apply Ha1 in Hx as [a [-> Ha]]. pose proof (atom_ne a Ha). rewrite app_length. destruct a; [contradiction | cbn [length]; lia]. }
  assert (Hsuf : forall x, In x seen0 -> suffix x s) by (intros x Hx; apply (OK_suffix p_atom Atom); assumption).
  assert (Hitem : forall x, Reach Item seen0 x -> OK (item_of (p_X f)) Item x).
  { intros x [x0 [c [H0 [E _]]]]. pose proof (Hlen x0 H0) as Hl. subst x0. rewrite app_length in Hl.
    apply (item_ok (length s - 1)); [apply IH; lia | lia]. }
  pose proof (star_ok (item_of (p_X f)) Item s seen0 Hitem item_ne Hsuf (S (length s))) as HP.
  assert (HP' : Post (item_of (p_X f)) Item seen0 (star (S (length s)) (item_of (p_X f)) seen0 seen0 false)).
  { apply HP. intros x Hx. pose proof (Hlen x Hx). lia. }
  clear HP. set (res := star (S (length s)) (item_of (p_X f)) seen0 seen0 false) in *.
  assert (Hrests : rests (p_X (S f) s) = rests res) by reflexivity.
  assert (Hhit : hit_end (p_X (S f) s) = hit_end (p_atom s) || hit_end res) by reflexivity.
  split; [|split].
  - intros r. rewrite Hrests. split.
    + intros Hr. destruct (post_reach _ _ _ _ HP' r Hr) as [x0 [c [H0 [E Hc]]]]. apply Ha1 in H0 as [a [Es Ha]].
      exists (a ++ c). split; [rewrite <- app_assoc, <- E; exact Es | apply chain; [exact Ha | apply rep_items; exact Hc]].
    + intros [c [Es Hc]]. destruct Hc as [a its Ha Hits]. rewrite <- app_assoc in Es.
      apply (post_rep (item_of (p_X f)) Item seen0 Hitem res HP' its (proj2 (rep_items its) Hits)).
      apply (post_seen0 _ _ _ _ HP'). apply Ha1. exists a. split; assumption.
  - unfold HS. rewrite Hhit. intros H. apply orb_true_iff in H as [H|H].
    + destruct (Ha2 H) as [u Hu]. exists u. rewrite <- (app_nil_r (s ++ u)). apply chain; [exact Hu | apply items_nil].
    + destruct (post_hit _ _ _ _ HP' H) as [x [Hx Hh]]. destruct (Hitem x Hx) as [_ [Hi2 _]]. destruct (Hi2 Hh) as [u Hu].
      destruct Hx as [x0 [c [H0 [E Hc]]]]. apply Ha1 in H0 as [a [Es Ha]]. exists u. subst x0 s.
      rewrite <- !app_assoc. apply chain; [exact Ha|]. apply rep_items. apply rep_snoc; assumption.
  - intros [u Hu]. rewrite Hhit, Hrests. remember (s ++ u) as y eqn:Ey. destruct Hu as [a its Ha Hits].
    apply app_eq_app in Ey as [l [[E1 E2]|[E1 E2]]].
    + (* the input ends inside the first atom *)
      subst a. destruct (Ha3 (ex_intro _ l Ha)) as [H|H]; [left; rewrite H; reflexivity | right; apply (post_seen0 _ _ _ _ HP'); exact H].
    + (* the first atom is read: s = a ++ l, and l is a prefix of a repetition of items *)
      assert (Hl : In l (rests res)) by (apply (post_seen0 _ _ _ _ HP'); apply Ha1; exists a; split; assumption).
      destruct (rep_split Item its (proj2 (rep_items its) Hits) l u E2) as [Hr|[l1 [l2 [El [Hr Hp]]]]].
      * right. apply (post_rep (item_of (p_X f)) Item seen0 Hitem res HP' l Hr). rewrite app_nil_r. exact Hl.
      * subst l. assert (Hl2 : In l2 (rests res)) by (apply (post_rep (item_of (p_X f)) Item seen0 Hitem res HP' l1 Hr); exact Hl).
        destruct (post_closed _ _ _ _ HP' l2 Hl2) as [Hcl Hch].
        destruct (Hitem l2 (post_reach _ _ _ _ HP' l2 Hl2)) as [_ [_ Hi3]]. destruct (Hi3 Hp) as [H|H].
        -- left. rewrite (Hch H). apply orb_true_r.
        -- right. apply Hcl. exact H.
Qed.
Lemma parse_ok s : OK parse Chain s.
Proof. unfold OK, RS, HS, HC, parse. apply (pX_ok (S (length s)) (length s)); lia. Qed.

(* ---------- the theorems ---------- *)
Theorem accepts_spec_correct : forall s, accepts_spec s = true <-> Lang s.
Proof.
  intros s. unfold accepts_spec, Lang. rewrite has_nil. destruct (parse_ok s) as [H1 _]. rewrite (H1 []). split.
  - intros [c [E Hc]]. rewrite app_nil_r in E. subst c. exact Hc.
  - intros H. exists s. split; [rewrite app_nil_r; reflexivity | exact H].
Qed.
Theorem viable_spec_correct : forall s, viable_spec s = true <-> viable s.
Proof.
  intros s. unfold viable_spec, viable, Lang. cbv zeta. rewrite orb_true_iff, has_nil. destruct (parse_ok s) as [H1 [H2 H3]]. split.
  - intros [H|H]; [exact (H2 H)|]. apply H1 in H as [c [E Hc]]. rewrite app_nil_r in E. subst c. exists []. rewrite app_nil_r. exact Hc.
  - intros H. exact (H3 H).
Qed.
(* the same for the documented production-by-production form *)
Corollary accepts_spec_smiles : forall s, accepts_spec s = true <-> Smiles s.
Proof. intros s. rewrite accepts_spec_correct. symmetry. apply smiles_is_lang. Qed.
