(* Token level of C04 against the declarative grammar (Spec/Lang.v), for every string:
   - what a token reader of the code returns as a value is a spelling of its family (soundness);
   - a spelling of the family, followed by text that continues no spelling, is read entirely (completeness);
   - where no spelling starts, the reader says "not here" without consuming.
   Derived from Proofs/Reading.v (learned trie = specification trie on every string) and Proofs/LangTrie.v. *)
From Coq Require Import String.
From Coq Require Import List NArith Lia Bool Arith.
Import ListNotations.
Require Import P.Generated.Enums P.Meta.Scan P.Spec.Values P.Spec.Reading P.Generated.Trees P.Checks.Reading_defs P.Proofs.Reading
  P.Model.Base P.Model.Token P.Spec.Lang P.Proofs.LangTrie P.Proofs.LangDigits.
Strategy opaque [tree_symbol tree_organic tree_configuration tree_charge tree_bond tree_rnum tree_hcount tree_isotope tree_map].

(* ---------- shapes ---------- *)
Definition hd_in (w : list N) (follow : list N) : Prop := match w with [] => True | c :: _ => In c follow end.
Definition hd_out (w : list N) (starts : list N) : Prop := match w with [] => True | c :: _ => ~ In c starts end.
(* reading with [rd] returns values only for members of P *)
Definition tok_sound {A} (rd : list N -> tok A) (P : list N -> Prop) : Prop :=
  forall x v m, rd x = TOk v m -> exists p w, x = p ++ w /\ P p /\ m = length p.
(* members of P followed by a character of [follow] (or by nothing) are read entirely *)
Definition tok_complete {A} (rd : list N -> tok A) (P : list N -> Prop) (follow : list N) : Prop :=
  forall p w, P p -> hd_in w follow -> exists v, rd (p ++ w) = TOk v (length p).
Definition tok_absent {A} (rd : list N -> tok A) (starts : list N) : Prop :=
  forall w, hd_out w starts -> rd w = TNo.

(* ---------- finite checks on tables ---------- *)
Fixpoint prefixb (p q : list N) : bool :=
  match p, q with [], _ => true | a :: p', b :: q' => N.eqb a b && prefixb p' q' | _ :: _, [] => false end.
Lemma prefixb_iff p : forall q, prefixb p q = true <-> is_prefix p q.
Proof.
  induction p as [|a p IH]; intros q; cbn [prefixb].
  - split; [intros _; exists q; reflexivity | reflexivity].
  - destruct q as [|b q].
    + split; [discriminate | intros [r Hr]; discriminate].
    + rewrite andb_true_iff, N.eqb_eq, IH. split.
      * intros [-> [r ->]]. exists r. reflexivity.
      * intros [r Hr]. inversion Hr; subst. split; [reflexivity | exists r; reflexivity].
Qed.
Definition no_ext_b (keys : list (list N)) (follow : list N) : bool :=
  forallb (fun p => forallb (fun c => negb (existsb (prefixb (p ++ [c])) keys)) follow) keys.
Lemma no_ext_free {V} (table : list (list N * V)) follow p w :
  no_ext_b (map fst table) follow = true -> key table p -> hd_in w follow -> ext_free table p w.
Proof.
  intros H Hp Hw. destruct w as [|c w']; [exact I|]. cbn [ext_free hd_in] in *. intros q v Hq Hpre.
  pose proof (forallb_In _ _ _ (forallb_In _ _ _ H Hp) Hw) as Hn. cbv beta in Hn. apply negb_true_iff in Hn.
  assert (Ht : existsb (prefixb (p ++ [c])) (map fst table) = true); [|congruence].
  apply existsb_exists. exists q. split; [apply (in_map fst _ _ Hq) | apply prefixb_iff; exact Hpre].
Qed.
Definition disj_b (l1 l2 : list N) : bool := forallb (fun c => negb (mem c l2)) l1.
Lemma disj_out l1 l2 w : disj_b l1 l2 = true -> hd_in w l1 -> hd_out w l2.
Proof.
  intros H Hw. destruct w as [|c w']; [exact I|]. cbn [hd_in hd_out] in *. intros Hc.
  pose proof (forallb_In _ _ _ H Hw) as Hn. cbv beta in Hn. apply negb_true_iff in Hn. apply mem_In in Hc. congruence.
Qed.
Definition bounded_b {V} (f : nat) (table : list (list N * V)) : bool := forallb (fun e => length (fst e) <=? f) table.
Lemma bounded_ok {V} f (table : list (list N * V)) : bounded_b f table = true -> bounded f table.
Proof. intros H k v Hin. pose proof (forallb_In _ _ _ H Hin) as Hk. cbn [fst] in Hk. apply Nat.leb_le. exact Hk. Qed.
Lemma key_entry {V} (table : list (list N * V)) p : key table p <-> exists v, In (p, v) table.
Proof.
  unfold key. rewrite in_map_iff. split.
  - intros [[k v] [E Hin]]. cbn [fst] in E. subst. exists v. exact Hin.
  - intros [v Hin]. exists (p, v). split; [reflexivity | exact Hin].
Qed.
Lemma key_head {V} (table : list (list N * V)) p : key table p -> accepting V table = None -> exists c t, p = c :: t /\ In c (heads V table).
Proof.
  intros Hk Ha. apply key_entry in Hk as [v Hin]. destruct p as [|c t].
  - exfalso. exact (accepting_None V table Ha v Hin).
  - exists c, t. split; [reflexivity|]. apply heads_In. exists t, v. exact Hin.
Qed.

(* ---------- one family: learned trie against the table ---------- *)
Section Family.
Variable V : Type.
Variable veqb : V -> V -> bool.
Variable tr : tree V.
Variable ar : option (outcome V).
Variable table : list (list N * V).
Hypothesis Hsame : forall s, same veqb (run tr s 0 0) (run (trie_of ar table) s 0 0) = true.
Hypothesis Hne : table <> [].
Hypothesis Hb : bounded_b 8 table = true.

Lemma fam_ro s : ro (run (trie_of ar table) s 0 0) = scan ar table s 0.
Proof. apply run_trie; [exact Hne | apply bounded_ok; exact Hb]. Qed.

Lemma fam_value s v n : run_tok tr s = TOk v n -> exists v', scan ar table s 0 = (OVal v', n) /\ veqb v v' = true.
Proof.
  intros H. pose proof (Hsame s) as Hs. pose proof (fam_ro s) as Hr. unfold ro in Hr. unfold run_tok, of_run in H. unfold same in Hs.
  destruct (r_out (run tr s 0 0)) as [x| | | |] eqn:E1; try discriminate.
  - inversion H; subst. apply andb_true_iff in Hs as [Ho Hp]. cbn [is_err orb] in Hp. apply Nat.eqb_eq in Hp.
    destruct (r_out (run (trie_of ar table) s 0 0)) as [y| | | |] eqn:E2; try discriminate. cbn [out_eqb] in Ho.
    exists y. split; [rewrite <- Hr, Hp; reflexivity | exact Ho].
  - destruct (Nat.eqb (r_pos (run tr s 0 0)) 0); discriminate.
Qed.
(* the converse: what the table says is what the code does *)
Lemma fam_of_scan s v n : scan ar table s 0 = (OVal v, n) -> exists v', run_tok tr s = TOk v' n /\ veqb v' v = true.
Proof.
  intros H. pose proof (Hsame s) as Hs. pose proof (fam_ro s) as Hr. unfold ro in Hr. rewrite H in Hr. assert (Ho := f_equal fst Hr). assert (Hp := f_equal snd Hr). cbn [fst snd] in Ho, Hp.
  unfold same in Hs. rewrite Ho, Hp in Hs. apply andb_true_iff in Hs as [Hs1 Hs2]. unfold run_tok, of_run.
  destruct (r_out (run tr s 0 0)) as [x| | | |]; try discriminate. cbn [is_err orb] in Hs2. apply Nat.eqb_eq in Hs2.
  exists x. split; [rewrite Hs2; reflexivity | exact Hs1].
Qed.
Lemma fam_none_of_scan s : scan ar table s 0 = (ONone, 0) -> run_tok tr s = TNo.
Proof.
  intros H. pose proof (Hsame s) as Hs. pose proof (fam_ro s) as Hr. unfold ro in Hr. rewrite H in Hr. assert (Ho := f_equal fst Hr). assert (Hp := f_equal snd Hr). cbn [fst snd] in Ho, Hp.
  unfold same in Hs. rewrite Ho, Hp in Hs. apply andb_true_iff in Hs as [Hs1 Hs2]. unfold run_tok, of_run.
  destruct (r_out (run tr s 0 0)) as [x| | | |]; try discriminate. cbn [is_err orb] in Hs2. rewrite Hs2. reflexivity.
Qed.

Lemma fam_sound : ar = None \/ ar = Some ONone -> tok_sound (run_tok tr) (key table).
Proof.
  intros Har x v m H. apply fam_value in H as [v' [Hs _]].
  apply scan_value in Hs as [[p [w [-> [Hin ->]]]]|[_ [_ [Hx _]]]].
  - exists p, w. split; [reflexivity|]. split; [apply key_entry; exists v'; exact Hin | reflexivity].
  - destruct Har as [Har|Har]; rewrite Har in Hx; discriminate.
Qed.
Lemma fam_complete follow : no_ext_b (map fst table) follow = true -> tok_complete (run_tok tr) (key table) follow.
Proof.
  intros Hext p w Hp Hw. pose proof (no_ext_free table follow p w Hext Hp Hw) as Hfree.
  apply key_entry in Hp as [v Hin]. destruct (scan_key V ar p table w 0 v Hin Hfree) as [v' Hs].
  apply fam_of_scan in Hs as [v'' [Hr _]]. exists v''. exact Hr.
Qed.
Lemma fam_absent : ar = Some ONone -> accepting V table = None -> tok_absent (run_tok tr) (heads V table).
Proof.
  intros Har Ha w Hw. apply fam_none_of_scan. apply scan_root; [exact Har | exact Ha | exact Hw].
Qed.
End Family.

(* ---------- follow sets ---------- *)
Definition LBc : N := 91%N.  Definition RBc : N := 93%N.
Definition F_map : list N := [RBc].
Definition F_charge := heads _ map_table ++ F_map.
Definition F_hcount := heads _ charge_table ++ F_charge.
Definition F_config := heads _ hcount_table ++ F_hcount.
Definition F_symbol := heads _ configuration_table ++ F_config.
Definition F_isotope := heads _ symbol_table.
Definition atom_starts : list N := heads _ organic_table ++ [LBc; 42%N].
Definition rnum_starts : list N := heads _ rnum_table.
Definition bond_starts : list N := heads _ bond_table.
(* what may follow a complete item of a chain: the start of another item, or ")" *)
Definition F_body : list N := [40%N; 41%N; 46%N] ++ bond_starts ++ atom_starts ++ rnum_starts.

(* ---------- the nine families ---------- *)
Strategy opaque [trie_of].   (* spec_X must unfold to trie_of .. table, not the other way round *)
Ltac table_fact := vm_compute; first [reflexivity | discriminate].

Lemma isotope_sound : tok_sound (run_tok tree_isotope) (key isotope_table).
Proof. apply (fam_sound _ _ _ _ _ isotope_as_documented); [table_fact | table_fact | right; reflexivity]. Qed.
Lemma symbol_sound : tok_sound (run_tok tree_symbol) (key symbol_table).
Proof. apply (fam_sound _ _ _ _ _ symbol_as_documented); [table_fact | table_fact | left; reflexivity]. Qed.
Lemma configuration_sound : tok_sound (run_tok tree_configuration) (key configuration_table).
Proof. apply (fam_sound _ _ _ _ _ configuration_as_documented); [table_fact | table_fact | right; reflexivity]. Qed.
Lemma hcount_sound : tok_sound (run_tok tree_hcount) (key hcount_table).
Proof. apply (fam_sound _ _ _ _ _ hcount_as_documented); [table_fact | table_fact | right; reflexivity]. Qed.
Lemma charge_sound : tok_sound (run_tok tree_charge) (key charge_table).
Proof. apply (fam_sound _ _ _ _ _ charge_as_documented); [table_fact | table_fact | right; reflexivity]. Qed.
Lemma map_sound : tok_sound (run_tok tree_map) (key map_table).
Proof. apply (fam_sound _ _ _ _ _ map_as_documented); [table_fact | table_fact | right; reflexivity]. Qed.
Lemma organic_sound : tok_sound (run_tok tree_organic) (key organic_table).
Proof. apply (fam_sound _ _ _ _ _ organic_as_documented); [table_fact | table_fact | right; reflexivity]. Qed.
Lemma rnum_sound : tok_sound (run_tok tree_rnum) (key rnum_table).
Proof. apply (fam_sound _ _ _ _ _ rnum_as_documented); [table_fact | table_fact | right; reflexivity]. Qed.

Lemma isotope_complete : tok_complete (run_tok tree_isotope) (key isotope_table) F_isotope.
Proof. apply (fam_complete _ _ _ _ _ isotope_as_documented); table_fact. Qed.
Lemma symbol_complete : tok_complete (run_tok tree_symbol) (key symbol_table) F_symbol.
Proof. apply (fam_complete _ _ _ _ _ symbol_as_documented); table_fact. Qed.
Lemma configuration_complete : tok_complete (run_tok tree_configuration) (key configuration_table) F_config.
Proof. apply (fam_complete _ _ _ _ _ configuration_as_documented); table_fact. Qed.
Lemma hcount_complete : tok_complete (run_tok tree_hcount) (key hcount_table) F_hcount.
Proof. apply (fam_complete _ _ _ _ _ hcount_as_documented); table_fact. Qed.
Lemma charge_complete : tok_complete (run_tok tree_charge) (key charge_table) F_charge.
Proof. apply (fam_complete _ _ _ _ _ charge_as_documented); table_fact. Qed.
Lemma map_complete : tok_complete (run_tok tree_map) (key map_table) F_map.
Proof. apply (fam_complete _ _ _ _ _ map_as_documented); table_fact. Qed.
Lemma organic_complete : tok_complete (run_tok tree_organic) (key organic_table) F_body.
Proof. apply (fam_complete _ _ _ _ _ organic_as_documented); table_fact. Qed.
Lemma rnum_complete : tok_complete (run_tok tree_rnum) (key rnum_table) F_body.
Proof. apply (fam_complete _ _ _ _ _ rnum_as_documented); table_fact. Qed.
Lemma bond_complete : tok_complete (run_tok tree_bond) (key bond_table) (atom_starts ++ rnum_starts).
Proof. apply (fam_complete _ _ _ _ _ bond_as_documented); table_fact. Qed.

Lemma isotope_absent : tok_absent (run_tok tree_isotope) (heads _ isotope_table).
Proof. apply (fam_absent _ _ _ _ _ isotope_as_documented); table_fact. Qed.
Lemma configuration_absent : tok_absent (run_tok tree_configuration) (heads _ configuration_table).
Proof. apply (fam_absent _ _ _ _ _ configuration_as_documented); table_fact. Qed.
Lemma hcount_absent : tok_absent (run_tok tree_hcount) (heads _ hcount_table).
Proof. apply (fam_absent _ _ _ _ _ hcount_as_documented); table_fact. Qed.
Lemma charge_absent : tok_absent (run_tok tree_charge) (heads _ charge_table).
Proof. apply (fam_absent _ _ _ _ _ charge_as_documented); table_fact. Qed.
Lemma map_absent : tok_absent (run_tok tree_map) (heads _ map_table).
Proof. apply (fam_absent _ _ _ _ _ map_as_documented); table_fact. Qed.
Lemma organic_absent : tok_absent (run_tok tree_organic) (heads _ organic_table).
Proof. apply (fam_absent _ _ _ _ _ organic_as_documented); table_fact. Qed.
Lemma rnum_absent : tok_absent (run_tok tree_rnum) (heads _ rnum_table).
Proof. apply (fam_absent _ _ _ _ _ rnum_as_documented); table_fact. Qed.
