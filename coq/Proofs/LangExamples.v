(* Sanity examples for the declarative grammar of Spec/Lang.v.  Two derivations are built by hand; the other
   memberships and non-memberships are decided with the theorems reader_sound / reader_complete (running the
   reader model), which is legitimate because Lang itself does not mention the reader. *)
From Coq Require Import String.
From Coq Require Import List NArith Lia Bool Arith.
Import ListNotations.
Require Import P.Generated.Enums P.Meta.Scan P.Spec.Values P.Spec.Reading P.Generated.Trees P.Model.Base P.Model.Reader
  P.Spec.Lang P.Proofs.LangDigits P.Proofs.LangSound P.Proofs.LangComplete.
Strategy opaque [tree_symbol tree_organic tree_configuration tree_charge tree_bond tree_rnum tree_hcount tree_isotope tree_map].

(* ---------- by hand ---------- *)
Ltac is_key := apply memk_In; vm_compute; reflexivity.
Ltac digs := split; [cbn; lia | repeat (apply Forall_cons; [unfold digit; lia|]); apply Forall_nil].
Example methane : Lang (str "C").
Proof. apply (chain (str "C") []); [left; is_key | apply items_nil]. Qed.
Example acetic_acid : Lang (str "CC(=O)O").
Proof.
  apply (chain (str "C") (str "C(=O)O")); [left; is_key|].
  apply (items_cons (str "C") (str "(=O)O")); [apply (item_atom [] (str "C")); [left; reflexivity | left; is_key]|].
  apply (items_cons (str "(=O)") (str "O")).
  - apply (item_branch (str "=") (str "O")); [right; right; is_key|]. apply (chain (str "O") []); [left; is_key | apply items_nil].
  - apply (items_cons (str "O") []); [apply (item_atom [] (str "O")); [left; reflexivity | left; is_key] | apply items_nil].
Qed.
Example bracket_atom : Lang (str "[13C@@H2+:7]").
Proof.
  apply (chain (str "[13C@@H2+:7]") []); [|apply items_nil]. right. right.
  apply (bracket (str "13") (str "C") (str "@@") (str "H2") (str "+") (str ":7")).
  - right. change (str "13") with [49%N; 51%N]. digs.
  - is_key.
  - right. is_key.
  - right. is_key.
  - right. is_key.
  - right. exists (str "7"). split; [reflexivity|]. change (str "7") with [55%N]. digs.
Qed.

(* ---------- with the theorems ---------- *)
Lemma accepted_in_lang s : fst (rd s) = VOk -> Lang s.
Proof. intros H. apply (reader_sound s (snd (rd s))). rewrite <- H. destruct (rd s); reflexivity. Qed.
Lemma rejected_not_in_lang s : fst (rd s) <> VOk -> ~ Lang s.
Proof. intros H HL. apply H. apply reader_complete. exact HL. Qed.
Ltac yes := apply accepted_in_lang; vm_compute; reflexivity.
Ltac no := apply rejected_not_in_lang; vm_compute; discriminate.

Example y01 : Lang (str "c1ccccc1"). Proof. yes. Qed.
Example y02 : Lang (str "C%12CC%12"). Proof. yes. Qed.
Example y03 : Lang (str "C%123CC%12C3"). Proof. yes. Qed.            (* %12 then ring 3 *)
Example y04 : Lang (str "C12CC1C2"). Proof. yes. Qed.               (* digits after an atom: separate closures *)
Example y05 : Lang (str "ClCBr"). Proof. yes. Qed.
Example y06 : Lang (str "Sc"). Proof. yes. Qed.                     (* outside brackets: S then c *)
Example y07 : Lang (str "[Sc]"). Proof. yes. Qed.                   (* inside: scandium *)
Example y08 : Lang (str "CnCoCsNbSnPb"). Proof. yes. Qed.
Example y09 : Lang (str "[Cn][Co][Cs][Nb][Sn][Pb]"). Proof. yes. Qed.
Example y10 : Lang (str "[CH4]"). Proof. yes. Qed.
Example y11 : Lang (str "[H][HH][Hg][Hf][Ho][Hs][He][H+]"). Proof. yes. Qed.
Example y12 : Lang (str "[C@TH1H][C@AL2][Co@SP3][Fe@TB20][Fe@OH30+3:123]"). Proof. yes. Qed.
Example y13 : Lang (str "[C--][C-15][C++][C+15][NH4+][se][as][*][238U]"). Proof. yes. Qed.
Example y14 : Lang (str "C.C(.C)(=O)/C=C\C#N$C:c*"). Proof. yes. Qed.
Example y15 : Lang (str "C=1CC=1"). Proof. yes. Qed.
Example y16 : Lang (str "AtTs"). Proof. yes. Qed.
Example y17 : Lang (str "[C:007][012C]"). Proof. yes. Qed.

Example n01 : ~ Lang []. Proof. no. Qed.
Example n02 : ~ Lang (str "C%1"). Proof. no. Qed.                    (* % needs two digits *)
Example n03 : ~ Lang (str "C%1C"). Proof. no. Qed.
Example n04 : ~ Lang (str "C("). Proof. no. Qed.
Example n05 : ~ Lang (str "C()"). Proof. no. Qed.
Example n06 : ~ Lang (str "(C)"). Proof. no. Qed.
Example n07 : ~ Lang (str "C)"). Proof. no. Qed.
Example n08 : ~ Lang (str "C(C"). Proof. no. Qed.
Example n09 : ~ Lang (str "C="). Proof. no. Qed.
Example n10 : ~ Lang (str "C==C"). Proof. no. Qed.
Example n11 : ~ Lang (str "C..C"). Proof. no. Qed.
Example n12 : ~ Lang (str "1C"). Proof. no. Qed.
Example n13 : ~ Lang (str "=C"). Proof. no. Qed.
Example n14 : ~ Lang (str "[C"). Proof. no. Qed.
Example n15 : ~ Lang (str "[]"). Proof. no. Qed.
Example n16 : ~ Lang (str "[13]"). Proof. no. Qed.
Example n17 : ~ Lang (str "[1234C]"). Proof. no. Qed.
Example n18 : ~ Lang (str "[C:1234]"). Proof. no. Qed.
Example n19 : ~ Lang (str "[CH10]"). Proof. no. Qed.
Example n20 : ~ Lang (str "[CHH]"). Proof. no. Qed.
Example n21 : ~ Lang (str "[C+16]"). Proof. no. Qed.
Example n22 : ~ Lang (str "[C+-]"). Proof. no. Qed.
Example n23 : ~ Lang (str "[C@@@H]"). Proof. no. Qed.
Example n24 : ~ Lang (str "[C@TH3]"). Proof. no. Qed.
Example n25 : ~ Lang (str "[C@TB21]"). Proof. no. Qed.
Example n26 : ~ Lang (str "[C@OH31]"). Proof. no. Qed.
Example n27 : ~ Lang (str "[nb]"). Proof. no. Qed.
Example n28 : ~ Lang (str "[HC]"). Proof. no. Qed.
Example n29 : ~ Lang (str "A"). Proof. no. Qed.
Example n30 : ~ Lang (str "Xx"). Proof. no. Qed.
Example n31 : ~ Lang (str "C C"). Proof. no. Qed.
Example n32 : ~ Lang (str "C(.)C"). Proof. no. Qed.
Example n33 : ~ Lang (str "C(=.C)"). Proof. no. Qed.
Example n34 : ~ Lang (str "[C+H]"). Proof. no. Qed.                  (* field order *)
Example n35 : ~ Lang (str "[C:1+]"). Proof. no. Qed.
