From Coq Require Import List NArith Lia Bool Arith FinFun.
Import ListNotations.
Require Import P.Model.Base P.Model.Pool.
Local Open Scope N_scope.

(* ---------- list_min / remove_one facts ---------- *)
Lemma list_min_none l : list_min l = None -> l = [].
Proof. destruct l as [|x t]; [reflexivity|]. simpl. destruct (list_min t); discriminate. Qed.
Lemma list_min_in : forall l m, list_min l = Some m -> In m l.
Proof.
  induction l as [|x t IH]; intros m H; [discriminate|]. simpl in H.
  destruct (list_min t) as [m'|] eqn:E.
  - inversion H; subst. destruct (N.min_spec x m') as [[_ ->]|[_ ->]]; [left; reflexivity | right; apply IH; reflexivity].
  - inversion H; subst. left. reflexivity.
Qed.
Lemma list_min_le : forall l m x, list_min l = Some m -> In x l -> m <= x.
Proof.
  induction l as [|y t IH]; intros m x H Hx; [contradiction|]. simpl in H.
  destruct (list_min t) as [m'|] eqn:E.
  - inversion H; subst. destruct Hx as [->|Hx]; [lia|]. specialize (IH m' x eq_refl Hx). lia.
  - inversion H; subst. destruct Hx as [->|Hx]; [lia|]. apply list_min_none in E. subst. contradiction.
Qed.
Lemma remove_one_in : forall l x y, In y (remove_one l x) -> In y l.
Proof.
  induction l as [|a t IH]; intros x y H; [contradiction|]. simpl in H.
  destruct (N.eqb x a); [right; exact H|]. destruct H as [->|H]; [left; reflexivity | right; eapply IH; exact H].
Qed.
Lemma remove_one_nodup : forall l x, NoDup l -> NoDup (remove_one l x) /\ ~ In x (remove_one l x).
Proof.
  induction l as [|a t IH]; intros x H; [split; [constructor | intros []]|].
  inversion H as [|? ? Hn Ht]; subst. simpl. destruct (N.eqb_spec x a) as [->|Hne].
  - split; assumption.
  - destruct (IH x Ht) as [H1 H2]. split.
    + constructor; [intros Hin; apply Hn; eapply remove_one_in; exact Hin | exact H1].
    + intros [E|Hin]; [congruence | exact (H2 Hin)].
Qed.
Lemma remove_one_keeps : forall l x y, In y l -> y <> x -> In y (remove_one l x).
Proof.
  induction l as [|a t IH]; intros x y H Hne; [contradiction|]. simpl.
  destruct (N.eqb_spec x a) as [->|Hxa].
  - destruct H as [->|H]; [congruence | exact H].
  - destruct H as [->|H]; [left; reflexivity | right; apply IH; assumption].
Qed.

(* ---------- borrowed as a finite map keyed by unordered pairs ---------- *)
Definition nums (b : list ((nat * nat) * N)) := map snd b.
Lemma lookup_in : forall b p n, lookup b p = Some n -> In n (nums b).
Proof.
  induction b as [|[q m] t IH]; intros p n H; [discriminate|]. simpl in H.
  destruct (pair_eqb q p); [inversion H; left; reflexivity | right; eapply IH; exact H].
Qed.
Lemma remove_nums_sub : forall b p n, In n (nums (remove b p)) -> In n (nums b).
Proof.
  induction b as [|[q m] t IH]; intros p n H; [contradiction|]. simpl in H.
  destruct (pair_eqb q p); [right; exact H|]. destruct H as [<-|H]; [left; reflexivity | right; eapply IH; exact H].
Qed.
Lemma remove_nums : forall b p r, NoDup (nums b) -> lookup b p = Some r ->
  NoDup (nums (remove b p)) /\ ~ In r (nums (remove b p)) /\ (forall n, In n (nums b) -> n = r \/ In n (nums (remove b p))) /\
  S (length (remove b p)) = length b.
Proof.
  induction b as [|[q m] t IH]; intros p r Hnd H; [discriminate|]. simpl in *.
  inversion Hnd as [|? ? Hn Ht]; subst. destruct (pair_eqb q p).
  - inversion H; subst. repeat split; auto. intros n [->|Hin]; auto.
  - destruct (IH p r Ht H) as [H1 [H2 [H3 H4]]]. simpl. repeat split.
    + constructor; [intros Hin; apply Hn; eapply remove_nums_sub; exact Hin | exact H1].
    + intros [->|Hin]; [apply Hn; eapply lookup_in; exact H | exact (H2 Hin)].
    + intros n [<-|Hin]; [right; left; reflexivity|]. destruct (H3 n Hin); [left; assumption | right; right; assumption].
    + lia.
Qed.

(* ---------- the representation invariant of the repaired pool ---------- *)
Record pinv (p : pool) : Prop := {
  pi_nd : NoDup (nums (borrowed p));
  pi_rnd : NoDup (replaced p);
  pi_rng : forall n, In n (nums (borrowed p)) \/ In n (replaced p) -> 1 <= n < counter p;
  pi_disj : forall n, In n (nums (borrowed p)) -> ~ In n (replaced p);
  pi_cover : forall n, 1 <= n < counter p -> In n (nums (borrowed p)) \/ In n (replaced p);
  pi_pos : 1 <= counter p;
  pi_small : forall n, In n (nums (borrowed p)) -> n < 100
}.
Lemma pinv0 : pinv pool0.
Proof. constructor; simpl; try constructor; try tauto; intros; lia. Qed.

(* "n is the smallest number >= 1 that no open closure carries" *)
Definition min_free (b : list ((nat * nat) * N)) (n : N) :=
  1 <= n /\ ~ In n (nums b) /\ forall m, 1 <= m < n -> In m (nums b).

Lemma seq_incl_len : forall (k : nat) (l : list N), NoDup l ->
  (forall m, 1 <= m < N.of_nat k + 1 -> In m l) -> (k <= length l)%nat.
Proof.
  intros k l Hnd H.
  assert (Hi : incl (map (fun i => N.of_nat i + 1) (seq 0 k)) l).
  { intros x Hx. apply in_map_iff in Hx as [i [<- Hi]]. apply in_seq in Hi. apply H. lia. }
  assert (Hnd' : NoDup (map (fun i => N.of_nat i + 1) (seq 0 k))).
  { apply FinFun.Injective_map_NoDup; [intros a b E; lia | apply seq_NoDup]. }
  pose proof (NoDup_incl_length Hnd' Hi) as Hlen. rewrite map_length, seq_length in Hlen. exact Hlen.
Qed.

Lemma min_free_bound b n : NoDup (nums b) -> min_free b n -> n <= N.of_nat (length b) + 1.
Proof.
  intros Hnd [H1 [_ H3]].
  pose proof (seq_incl_len (N.to_nat (n - 1)) (nums b) Hnd) as H.
  rewrite N2Nat.id in H. unfold nums in H. rewrite map_length in H.
  assert (N.to_nat (n - 1) <= length b)%nat by (apply H; intros m Hm; apply H3; lia). lia.
Qed.

(* opening: the number handed out is the smallest free one; closing: the pair's own number *)
Theorem hit_spec p sid tid : pinv p ->
  match lookup (borrowed p) (sid, tid) with
  | None =>
      (N.of_nat (length (borrowed p)) < 99 ->
       exists n p', hit p sid tid = POk n p' /\ min_free (borrowed p) n /\
                    borrowed p' = ((sid, tid), n) :: borrowed p /\ pinv p')
  | Some r =>
      exists p', hit p sid tid = POk r p' /\ borrowed p' = remove (borrowed p) (sid, tid) /\ pinv p'
  end.
Proof.
  intros [Hnd Hrnd Hrng Hdisj Hcov Hpos Hsmall]. unfold hit.
  destruct (lookup (borrowed p) (sid, tid)) as [r|] eqn:El.
  - (* close *)
    assert (Hin : In r (nums (borrowed p))) by (eapply lookup_in; exact El).
    assert (Hr : 1 <= r < counter p) by (apply Hrng; left; exact Hin).
    destruct (remove_nums (borrowed p) (sid, tid) r Hnd El) as [R1 [R2 [R3 R4]]].
    unfold to_rnum. destruct (N.ltb_spec r 100) as [_|Hge]; [|specialize (Hsmall r Hin); lia].
    eexists. split; [reflexivity|]. split; [reflexivity|].
    constructor; cbn [counter borrowed replaced].
    + exact R1.
    + constructor; [apply Hdisj; exact Hin | exact Hrnd].
    + intros n [Hn|[<-|Hn]]; [apply Hrng; left; eapply remove_nums_sub; exact Hn | exact Hr | apply Hrng; right; exact Hn].
    + intros n Hn [<-|Hn']; [exact (R2 Hn) | apply (Hdisj n); [eapply remove_nums_sub; exact Hn | exact Hn']].
    + intros n Hn. destruct (Hcov n Hn) as [Hb|Hrp]; [|right; right; exact Hrp].
      destruct (R3 n Hb) as [->|Hb']; [right; left; reflexivity | left; exact Hb'].
    + exact Hpos.
    + intros n Hn. apply Hsmall. eapply remove_nums_sub. exact Hn.
  - (* open *)
    intros Hroom.
    destruct (list_min (replaced p)) as [m|] eqn:Em.
    + (* reuse the smallest returned number *)
      assert (Hmin : In m (replaced p)) by (apply list_min_in; exact Em).
      assert (Hm : 1 <= m < counter p) by (apply Hrng; right; exact Hmin).
      assert (Hfree : min_free (borrowed p) m).
      { split; [lia|]. split; [intros Hb; exact (Hdisj m Hb Hmin)|].
        intros k Hk. destruct (Hcov k ltac:(lia)) as [Hb|Hrp]; [exact Hb|].
        pose proof (list_min_le (replaced p) m k Em Hrp). lia. }
      pose proof (min_free_bound (borrowed p) m Hnd Hfree) as Hb.
      unfold to_rnum. destruct (N.ltb_spec m 100) as [_|Hge]; [|lia].
      eexists m, _. split; [reflexivity|]. split; [exact Hfree|]. split; [reflexivity|].
      destruct (remove_one_nodup (replaced p) m Hrnd) as [Q1 Q2].
      constructor; cbn [counter borrowed replaced nums map snd].
      * constructor; [destruct Hfree as [_ [Hf _]]; exact Hf | exact Hnd].
      * exact Q1.
      * intros n [[<-|Hn]|Hn]; [exact Hm | apply Hrng; left; exact Hn | apply Hrng; right; eapply remove_one_in; exact Hn].
      * intros n [<-|Hn] Hn'; [exact (Q2 Hn') | apply (Hdisj n Hn); eapply remove_one_in; exact Hn'].
      * intros n Hn. destruct (N.eq_dec n m) as [->|Hne]; [left; left; reflexivity|].
        destruct (Hcov n Hn) as [Hb'|Hrp]; [left; right; exact Hb' | right; apply remove_one_keeps; assumption].
      * exact Hpos.
      * intros n [<-|Hn]; [lia | apply Hsmall; exact Hn].
    + (* never-used number *)
      apply list_min_none in Em.
      assert (Hfree : min_free (borrowed p) (counter p)).
      { split; [exact Hpos|]. split; [intros Hb; specialize (Hrng (counter p) (or_introl Hb)); lia|].
        intros k Hk. destruct (Hcov k ltac:(lia)) as [Hb|Hrp]; [exact Hb|]. rewrite Em in Hrp. contradiction. }
      pose proof (min_free_bound (borrowed p) (counter p) Hnd Hfree) as Hb.
      destruct (N.leb_spec 65535 (counter p)) as [Hbig|_]; [lia|].
      unfold to_rnum. destruct (N.ltb_spec (counter p) 100) as [_|Hge]; [|lia].
      eexists (counter p), _. split; [reflexivity|]. split; [exact Hfree|]. split; [reflexivity|].
      constructor; cbn [counter borrowed replaced nums map snd].
      * constructor; [destruct Hfree as [_ [Hf _]]; exact Hf | exact Hnd].
      * exact Hrnd.
      * intros n [[<-|Hn]|Hn]; [lia | specialize (Hrng n (or_introl Hn)); lia | specialize (Hrng n (or_intror Hn)); lia].
      * intros n [<-|Hn] Hn'; [rewrite Em in Hn'; contradiction | exact (Hdisj n Hn Hn')].
      * intros n Hn. destruct (N.eq_dec n (counter p)) as [->|Hne]; [left; left; reflexivity|].
        destruct (Hcov n ltac:(lia)) as [Hb'|Hrp]; [left; right; exact Hb' | right; exact Hrp].
      * lia.
      * intros n [<-|Hn]; [lia | apply Hsmall; exact Hn].
Qed.

(* inversion-style corollaries: whatever hit returned, it is what the specification says *)
Lemma hit_never_counter p sid tid : pinv p -> hit p sid tid <> PPanicCounter.
Proof.
  intros [Hnd Hrnd Hrng Hdisj Hcov Hpos Hsmall]. unfold hit.
  destruct (lookup (borrowed p) (sid, tid)); [destruct (to_rnum n); discriminate|].
  destruct (list_min (replaced p)) as [m|] eqn:Em; [destruct (to_rnum m); discriminate|].
  apply list_min_none in Em.
  destruct (N.leb_spec 65535 (counter p)) as [Hbig|_]; [|destruct (to_rnum _); discriminate].
  exfalso. destruct (Hcov 200 ltac:(lia)) as [Hb|Hr]; [specialize (Hsmall 200 Hb); lia | rewrite Em in Hr; contradiction].
Qed.

Lemma hit_close p sid tid r n p' : pinv p -> lookup (borrowed p) (sid, tid) = Some r -> hit p sid tid = POk n p' ->
  n = r /\ borrowed p' = remove (borrowed p) (sid, tid) /\ pinv p'.
Proof.
  intros Hp Hl Hh. pose proof (hit_spec p sid tid Hp) as H. rewrite Hl in H. destruct H as [p'' [E [Hb Hi]]].
  rewrite E in Hh. inversion Hh; subst. auto.
Qed.

Lemma hit_open p sid tid n p' : pinv p -> lookup (borrowed p) (sid, tid) = None -> hit p sid tid = POk n p' ->
  ~ In n (nums (borrowed p)) /\ borrowed p' = ((sid, tid), n) :: borrowed p /\ pinv p'.
Proof.
  intros Hp Hl Hh.
  destruct (N.ltb_spec (N.of_nat (length (borrowed p))) 99) as [Hlt|Hge].
  - pose proof (hit_spec p sid tid Hp) as H. rewrite Hl in H. destruct (H Hlt) as [n' [p'' [E [[_ [Hf _]] [Hb Hi]]]]].
    rewrite E in Hh. inversion Hh; subst. auto.
  - (* with 99 or more closures open the smallest free number is >= 100 and hit panics *)
    exfalso. destruct Hp as [Hnd Hrnd Hrng Hdisj Hcov Hpos Hsmall].
    unfold hit in Hh. rewrite Hl in Hh.
    assert (Hall : forall m, 1 <= m < 100 -> In m (nums (borrowed p))).
    { (* 99 distinct numbers below 100 and at least 1: all of 1..99 are taken *)
      intros m Hm. destruct (in_dec N.eq_dec m (nums (borrowed p))) as [Hin|Hnin]; [exact Hin|]. exfalso.
      set (R := map (fun i => N.of_nat i + 1) (seq 0 99)).
      assert (Hincl : incl (nums (borrowed p)) (List.remove N.eq_dec m R)).
      { intros k Hk. apply in_in_remove; [intros ->; exact (Hnin Hk)|]. apply in_map_iff. exists (N.to_nat (k - 1)).
        specialize (Hsmall k Hk). specialize (Hrng k (or_introl Hk)). split; [lia | apply in_seq; lia]. }
      pose proof (NoDup_incl_length Hnd Hincl) as Hlen.
      assert (Hrem : (length (List.remove N.eq_dec m R) < 99)%nat).
      { assert (Hm_in : In m R) by (apply in_map_iff; exists (N.to_nat (m - 1)); split; [lia | apply in_seq; lia]).
        pose proof (remove_length_lt N.eq_dec _ _ Hm_in) as Hl'. unfold R in Hl' at 2. rewrite map_length, seq_length in Hl'. exact Hl'. }
      unfold nums in Hlen. rewrite map_length in Hlen. lia. }
    destruct (list_min (replaced p)) as [m|] eqn:Em.
    + assert (Hmin : In m (replaced p)) by (apply list_min_in; exact Em).
      unfold to_rnum in Hh. destruct (N.ltb_spec m 100) as [Hm|Hm]; [|discriminate].
      specialize (Hrng m (or_intror Hmin)). exact (Hdisj m (Hall m ltac:(lia)) Hmin).
    + destruct (N.leb_spec 65535 (counter p)) as [Hbig|_]; [discriminate|].
      unfold to_rnum in Hh. destruct (N.ltb_spec (counter p) 100) as [Hm|Hm]; [|discriminate].
      specialize (Hrng (counter p) (or_introl (Hall (counter p) ltac:(lia)))). lia.
Qed.

