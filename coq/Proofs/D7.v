From Coq Require Import List NArith Lia Bool Arith.
Import ListNotations.
Require Import P.Generated.Enums P.Spec.Values P.Generated.Tables P.Model.Base P.Model.Pool P.Proofs.PoolSpec P.Model.Walk P.Model.Builder P.Proofs.D0 P.Proofs.D1 P.Proofs.D3 P.Proofs.D2 P.Proofs.D4 P.Proofs.D5 P.Proofs.D6.

(* ---------- build on a graph without placeholders ---------- *)
Definition to_bond (e : edge) : bond := match etgt e with TId t => {| bk := ek e; tid := t |} | TRnum _ _ _ => {| bk := ek e; tid := 0 |} end.
Definition is_tid (e : edge) := exists t, etgt e = TId t.
Lemma conv_edges_tid : forall es, Forall is_tid es -> conv_edges es = BLOk (map to_bond es).
Proof.
  induction es as [|e es IH]; intros H; [reflexivity|]. inversion H as [|? ? [t Ht] Hes]; subst.
  cbn [conv_edges map]. rewrite Ht, (IH Hes). unfold to_bond. rewrite Ht. reflexivity.
Qed.
Lemma conv_nodes_tid : forall gr, Forall (fun nd => Forall is_tid (edges nd)) gr ->
  conv_nodes gr = BOk (map (fun nd => {| akind := nkind nd; bonds := map to_bond (edges nd) |}) gr).
Proof.
  induction gr as [|nd gr IH]; intros H; [reflexivity|]. inversion H as [|? ? Hnd Hgr]; subst.
  cbn [conv_nodes map]. rewrite (conv_edges_tid _ Hnd), (IH Hgr). reflexivity.
Qed.

Lemma index_of_nth : forall l i d, NoDup l -> i < length l -> index_of (nth i l d) l = i.
Proof.
  induction l as [|a l IH]; intros i d Hnd Hi; [simpl in Hi; lia|]. inversion Hnd as [|? ? Hn Hnd']; subst.
  destruct i; cbn [nth index_of]; [rewrite Nat.eqb_refl; reflexivity|].
  destruct (Nat.eqb_spec a (nth i l d)) as [E|E].
  - exfalso. apply Hn. rewrite E. apply nth_In. simpl in Hi. lia.
  - rewrite IH; [reflexivity | exact Hnd' | simpl in Hi; lia].
Qed.
Lemma remove_first_keeps p l c : In c l -> tid c <> p -> In c (remove_first_to p l).
Proof.
  induction l as [|a t IH]; intros H Hne; [contradiction|]. simpl. destruct (Nat.eqb_spec (tid a) p) as [E|E].
  - destruct H as [->|H]; [congruence | exact H].
  - destruct H as [->|H]; [left; reflexivity | right; apply IH; assumption].
Qed.
Lemma Forall2_eq_map {A B} (f : A -> B) : forall l es, Forall2 (fun a e => e = f a) l es -> es = map f l.
Proof. induction 1; simpl; congruence. Qed.

Section D7.
Variable g : list atom.
Notation n := (length g).
Notation bonds_of := (bonds_of g).
Notation atom_at := (atom_at g).
Notation nonback := (nonback g).
Notation processed := (processed g).

Hypothesis wf_range : forall x b, x < n -> In b (bonds_of x) -> tid b < n /\ tid b <> x.
Hypothesis wf_nodup : forall x, x < n -> NoDup (map tid (bonds_of x)).
Hypothesis wf_sym : forall x b, x < n -> In b (bonds_of x) ->
  exists b', find_to x (bonds_of (tid b)) = Some b' /\ bk b' = reverse (bk b).
Hypothesis safe_kinds : forall x, safe (akind (atom_at x)).

(* the bond list with the arrival bond moved to the front, and its renaming by the visiting order *)
Definition arrival_first (gh : ghost) x : list bond :=
  match par gh x with
  | None => bonds_of x
  | Some p => match find_to p (bonds_of x) with Some bb => bb :: remove_first_to p (bonds_of x) | None => bonds_of x end
  end.
Definition rename (gh : ghost) (c : bond) : bond := {| bk := bk c; tid := phi gh (tid c) |}.

Theorem C12_traverse : forall h, traverse g = (WOk, h) ->
  exists gh g', bld h = BOk g' /\ length g' = n /\
    NoDup (order gh) /\ (forall x, In x (order gh) <-> x < n) /\
    forall x, x < n ->
      nth_error g' (phi gh x) = Some {| akind := kind_final g gh x; bonds := map (rename gh) (arrival_first gh x) |}.
Proof.
  intros h Hwalk. unfold traverse in Hwalk.
  pose proof (outer_Inv g wf_range wf_nodup wf_sym safe_kinds (seq 0 n) (S (total_bonds g)) (state0 g)) as Hout.
  destruct (outer (seq 0 n) (S (total_bonds g)) n (state0 g)) as [r s'] eqn:Eo.
  inversion Hwalk; subst r h. clear Hwalk.
  destruct Hout as [[gh [b [W [B Hf]]]] [Hstk [_ Hall]]].
  { intros id Hid. apply in_seq in Hid. lia. } { apply Inv0. } { reflexivity. }
  (* every atom has been visited and is complete *)
  assert (Hin : forall x, x < n -> In x (order gh)).
  { intros x Hx. specialize (Hall x ltac:(apply in_seq; lia)). unfold visited in Hall.
    rewrite (ws_rem g gh s' W x Hx) in Hall. destruct (in_dec Nat.eq_dec x (order gh)); [assumption|discriminate]. }
  assert (Hdone : forall z, In z (order gh) -> cnt gh z = length (nonback gh z)).
  { intros z Hz. destruct (in_dec Nat.eq_dec z (chain s')) as [Hzc|Hzc]; [|apply (ws_done g gh s' W z Hz Hzc)].
    pose proof (ws_stk g gh s' W) as Hs. rewrite Hstk in Hs. symmetry in Hs.
    assert (Hseg : seg g gh z = []).
    { clear -Hs Hzc. induction (chain s') as [|a l IH]; [contradiction|]. cbn [flat_map] in Hs. apply app_eq_nil in Hs as [H1 H2].
      destruct Hzc as [->|Hzc]; [exact H1 | apply IH; assumption]. }
    unfold seg in Hseg. apply map_eq_nil in Hseg. unfold D1.pending in Hseg. apply skipn_nil_len in Hseg. pose proof (ws_cnt g gh s' W z). lia. }
  assert (Hprocall : forall z, In z (order gh) -> processed gh z = nonback gh z).
  { intros z Hz. unfold D1.processed. rewrite (Hdone z Hz). apply firstn_all. }
  (* no closure is left open *)
  assert (Hnoopen : borrowed (wpool s') = []).
  { destruct (borrowed (wpool s')) as [|[[u v] r0] t] eqn:Eb; [reflexivity|]. exfalso.
    destruct (bs_open g gh s' b B u v r0) as [Hu [Hv [[c [Hc Hcv]] [Hnc Hnpar]]]]; [rewrite Eb; left; reflexivity|].
    apply Hnc. rewrite (Hprocall v Hv).
    assert (Hcu : In c (bonds_of u)) by (eapply nonback_sub; eapply processed_sub; exact Hc).
    destruct (wf_sym u c (ws_rng g gh s' W u Hu) Hcu) as [b' [Hfb _]]. rewrite Hcv in Hfb.
    destruct (find_to_in _ _ _ Hfb) as [Hb'in Hb't].
    exists b'. split; [|exact Hb't]. unfold D1.nonback. destruct (par gh v) as [p|] eqn:Ep; [|exact Hb'in].
    apply remove_first_keeps; [exact Hb'in|]. rewrite Hb't. intros E. apply Hnpar. rewrite E. reflexivity. }
  (* shape of every node *)
  assert (Hnode : forall x, In x (order gh) -> exists nd, nth_error (graph b) (phi gh x) = Some nd /\
            nkind nd = kind_final g gh x /\ edges nd = map (fun c => mk_edge (bk c) (phi gh (tid c))) (arrival_first gh x)).
  { intros x Hx. destruct (bs_nodes g gh s' b B x Hx) as [nd [Hnd [Hk [es [He Hf2]]]]]. exists nd. split; [exact Hnd|]. split; [exact Hk|].
    rewrite (Hprocall x Hx) in Hf2.
    assert (Hes : es = map (fun c => mk_edge (bk c) (phi gh (tid c))) (nonback gh x)).
    { apply Forall2_eq_map. eapply Forall2_impl_in; [|exact Hf2]. intros c e _ Hok. unfold D2.edge_ok in Hok. rewrite Hnoopen in Hok. cbn [lookup] in Hok.
      destruct (par gh (tid c)) as [q|]; [destruct (Nat.eqb q x)|]; exact Hok. }
    rewrite He, Hes. unfold D2.back_edges, arrival_first, D1.nonback. destruct (par gh x) as [p|] eqn:Ep; [|reflexivity].
    destruct (ws_par g gh s' W x p Ep) as [_ [_ [bb Hbb]]]. rewrite Hbb. destruct (find_to_in _ _ _ Hbb) as [_ Hbt].
    cbn [map app]. rewrite Hbt. reflexivity. }
  (* build *)
  assert (Hlen : length (graph b) = length (order gh)) by apply (bs_len g gh s' b B).
  assert (Hndo : NoDup (order gh)) by apply (ws_nd g gh s' W).
  assert (Halltid : Forall (fun nd => Forall is_tid (edges nd)) (graph b)).
  { apply Forall_forall. intros nd Hnd. apply In_nth_error in Hnd as [i Hi].
    assert (Hil : i < length (order gh)) by (rewrite <- Hlen; apply nth_error_Some; congruence).
    set (x := nth i (order gh) 0). assert (Hx : In x (order gh)) by (apply nth_In; exact Hil).
    destruct (Hnode x Hx) as [nd' [Hnd' [_ He']]]. unfold phi in Hnd'. unfold x in Hnd'. rewrite (index_of_nth _ _ _ Hndo Hil) in Hnd'.
    rewrite Hi in Hnd'. inversion Hnd'; subst nd'. rewrite He'. apply Forall_forall. intros e He. apply in_map_iff in He as [c [<- _]]. eexists. reflexivity. }
  exists gh. eexists. unfold bld. rewrite Hf. unfold build. rewrite (bs_err g gh s' b B). split; [apply conv_nodes_tid; exact Halltid|].
  assert (Hcard : length (order gh) = n).
  { apply Nat.le_antisymm.
    - assert (Hincl : incl (order gh) (seq 0 n)) by (intros x Hx; apply in_seq; pose proof (ws_rng g gh s' W x Hx); lia).
      pose proof (NoDup_incl_length Hndo Hincl) as Hl. rewrite seq_length in Hl. exact Hl.
    - assert (Hincl : incl (seq 0 n) (order gh)) by (intros x Hx; apply in_seq in Hx; apply Hin; lia).
      pose proof (NoDup_incl_length (seq_NoDup n 0) Hincl) as Hl. rewrite seq_length in Hl. exact Hl. }
  split; [rewrite map_length, Hlen; exact Hcard|]. split; [exact Hndo|]. split.
  - intros x. split; [apply (ws_rng g gh s' W) | apply Hin].
  - intros x Hx. destruct (Hnode x (Hin x Hx)) as [nd [Hnd [Hk He]]].
    rewrite nth_error_map, Hnd. cbn [option_map]. rewrite Hk, He, map_map. reflexivity.
Qed.
End D7.


(* ---------- the statement with the well-formedness conditions as premises ---------- *)
Theorem C12_main : forall g h,
  (forall x b, x < length g -> In b (bonds_of g x) -> tid b < length g /\ tid b <> x) ->
  (forall x, x < length g -> NoDup (map tid (bonds_of g x))) ->
  (forall x b, x < length g -> In b (bonds_of g x) ->
     exists b', find_to x (bonds_of g (tid b)) = Some b' /\ bk b' = reverse (bk b)) ->
  (forall x, safe (akind (atom_at g x))) ->
  traverse g = (WOk, h) ->
  exists gh g', bld h = BOk g' /\ length g' = length g /\
    NoDup (order gh) /\ (forall x, In x (order gh) <-> x < length g) /\
    forall x, x < length g ->
      nth_error g' (phi gh x) = Some {| akind := kind_final g gh x; bonds := map (rename gh) (arrival_first g gh x) |}.
Proof. intros g h H1 H2 H3 H4. apply C12_traverse; assumption. Qed.
(* the public entry point runs the validation pass first *)
Corollary C12_walk : forall g h,
  (forall x b, x < length g -> In b (bonds_of g x) -> tid b < length g /\ tid b <> x) ->
  (forall x, x < length g -> NoDup (map tid (bonds_of g x))) ->
  (forall x b, x < length g -> In b (bonds_of g x) ->
     exists b', find_to x (bonds_of g (tid b)) = Some b' /\ bk b' = reverse (bk b)) ->
  (forall x, safe (akind (atom_at g x))) ->
  walk g = (WOk, h) ->
  exists gh g', bld h = BOk g' /\ length g' = length g /\
    NoDup (order gh) /\ (forall x, In x (order gh) <-> x < length g) /\
    forall x, x < length g ->
      nth_error g' (phi gh x) = Some {| akind := kind_final g gh x; bonds := map (rename gh) (arrival_first g gh x) |}.
Proof. intros g h H1 H2 H3 H4 Hw. unfold walk in Hw. destruct (validate g); [discriminate|]. apply C12_main; assumption. Qed.
Print Assumptions C12_main.
