(* C10, error half, preliminaries: the declarative reconciliation is [resolve]; counting tokens of one number ([rank]);
   a closure has one opener; the occurrence index of a token produced by [collect] is its position. *)
From Coq Require Import List NArith Lia Bool Arith Sorted.
Import ListNotations.
Require Import P.Generated.Enums P.Spec.Values P.Model.Base P.Checks.C18_defs P.Proofs.C09_Inverse P.Spec.Denote
  P.Proofs.DenotePair P.Proofs.DenoteSim P.Spec.BuildErrors.
Local Notation length := List.length.

(* ---------- kinds ---------- *)
Lemma flip_up_down b : flip b = up_down b.
Proof. destruct b; reflexivity. Qed.
Lemma resolve_reconciled b0 b l r : resolve b0 b = Some (l, r) <-> reconciled b0 b l r.
Proof.
  split.
  - intros H. destruct b0, b; vm_compute in H; try discriminate; inversion H; subst; clear H;
      first [ apply rc_same; intros [E|E]; discriminate
            | match goal with |- reconciled BK_Elided ?x _ _ => apply (rc_opening_elided x); discriminate end
            | match goal with |- reconciled ?x BK_Elided _ _ => apply (rc_closing_elided x); discriminate end
            | apply (rc_up_down BK_Up); left; reflexivity
            | apply (rc_up_down BK_Down); right; reflexivity ].
  - intros H. destruct H as [x Hx|x Hx|x Hx|x Hx]; destruct x; try (vm_compute; reflexivity); exfalso;
      first [ apply Hx; reflexivity | apply Hx; left; reflexivity | apply Hx; right; reflexivity | destruct Hx; discriminate ].
Qed.
Lemma resolve_none b0 b : resolve b0 b = None <-> irreconcilable b0 b.
Proof.
  split.
  - intros H l r Hr. apply resolve_reconciled in Hr. congruence.
  - intros H. destruct (resolve b0 b) as [[l r]|] eqn:E; [|reflexivity]. exfalso. apply (H l r), resolve_reconciled. exact E.
Qed.
Lemma resolve_some b0 b : (exists l r, reconciled b0 b l r) <-> resolve b0 b <> None.
Proof.
  split.
  - intros [l [r H]]. apply resolve_reconciled in H. congruence.
  - intros H. destruct (resolve b0 b) as [[l r]|] eqn:E; [|congruence]. exists l, r. apply resolve_reconciled. exact E.
Qed.

(* ---------- lists ---------- *)
Lemma firstn_S_nth {A} (l : list A) : forall n t, nth_error l n = Some t -> firstn (S n) l = firstn n l ++ [t].
Proof.
  induction l as [|x l IH]; intros [|n] t H; cbn [nth_error] in H; try discriminate.
  - inversion H; subst. reflexivity.
  - cbn [firstn app]. rewrite <- (IH n t H). reflexivity.
Qed.
Lemma firstn_S_none {A} (l : list A) n : nth_error l n = None -> firstn (S n) l = firstn n l.
Proof. intros H. apply nth_error_None in H. rewrite !firstn_all2 by lia. reflexivity. Qed.

(* ---------- counting ---------- *)
Section Rank.
Variable rg : list ringocc.
Notation rank := (rank rg).
Lemma rank_unfold n r : rank n r = length (filter (rkey r) (firstn n rg)).
Proof. reflexivity. Qed.
Lemma rank_0 r : rank 0 r = 0.
Proof. reflexivity. Qed.
Lemma rank_S n t r : nth_error rg n = Some t -> rank (S n) r = if rkey r t then S (rank n r) else rank n r.
Proof.
  intros H. rewrite !rank_unfold, (firstn_S_nth rg n t H), filter_app, app_length. cbn [filter].
  destruct (rkey r t); cbn [length]; lia.
Qed.
Lemma rank_S_none n r : nth_error rg n = None -> rank (S n) r = rank n r.
Proof. intros H. rewrite !rank_unfold, (firstn_S_none rg n H). reflexivity. Qed.
Lemma rank_S_le n r : rank n r <= rank (S n) r.
Proof.
  destruct (nth_error rg n) as [t|] eqn:E; [rewrite (rank_S n t r E); destruct (rkey r t); lia | rewrite (rank_S_none n r E); lia].
Qed.
Lemma rank_mono n m r : n <= m -> rank n r <= rank m r.
Proof. induction 1 as [|m Hle IH]; [lia|]. pose proof (rank_S_le m r). lia. Qed.
Lemma rank_past n r : length rg <= n -> rank n r = rank (length rg) r.
Proof. intros H. rewrite !rank_unfold, !firstn_all2 by lia. reflexivity. Qed.
Lemma rkey_true r t : rkey r t = true <-> tok_r t = r.
Proof. unfold rkey. apply N.eqb_eq. Qed.
Lemma rkey_false r t : rkey r t = false <-> tok_r t <> r.
Proof. unfold rkey. apply N.eqb_neq. Qed.
Lemma rank_lt i m t r : nth_error rg i = Some t -> tok_r t = r -> i < m -> S (rank i r) <= rank m r.
Proof.
  intros Ht Hr Hlt. pose proof (rank_S i t r Ht) as HS. apply rkey_true in Hr. rewrite Hr in HS.
  pose proof (rank_mono (S i) m r Hlt). lia.
Qed.
(* tokens of one number are told apart by their rank *)
Lemma rank_inj i i' t t' r : nth_error rg i = Some t -> nth_error rg i' = Some t' -> tok_r t = r -> tok_r t' = r ->
  rank i r = rank i' r -> i = i'.
Proof.
  intros Ht Ht' Hr Hr' E. destruct (Nat.lt_trichotomy i i') as [Hlt|[Heq|Hgt]]; [|exact Heq|].
  - pose proof (rank_lt i i' t r Ht Hr Hlt). lia.
  - pose proof (rank_lt i' i t' r Ht' Hr' Hgt). lia.
Qed.
Lemma rank_none_between i m r : rank m r = rank i r -> forall j t, i <= j < m -> nth_error rg j = Some t -> tok_r t <> r.
Proof.
  intros E j t Hj Ht Hr. pose proof (rank_lt j m t r Ht Hr (proj2 Hj)). pose proof (rank_mono i j r (proj1 Hj)). lia.
Qed.
Lemma rank_const i m r : i <= m -> (forall j t, i <= j < m -> nth_error rg j = Some t -> tok_r t <> r) -> rank m r = rank i r.
Proof.
  induction 1 as [|m Hle IH]; intros H; [reflexivity|].
  rewrite <- IH by (intros j t Hj; apply H; lia).
  destruct (nth_error rg m) as [t|] eqn:E; [|apply rank_S_none; exact E].
  rewrite (rank_S m t r E). assert (Hf : rkey r t = false) by (apply rkey_false; apply (H m t); [lia|exact E]). rewrite Hf. reflexivity.
Qed.
(* an odd count means the last token with that number is still open *)
Lemma odd_rank_open r : forall n, Nat.Odd (rank n r) ->
  exists i t, i < n /\ nth_error rg i = Some t /\ tok_r t = r /\ Nat.Even (rank i r) /\ rank n r = S (rank i r).
Proof.
  induction n as [|n IH]; intros Ho.
  - rewrite rank_0 in Ho. destruct Ho as [k Hk]. lia.
  - destruct (nth_error rg n) as [t|] eqn:E.
    + rewrite (rank_S n t r E) in *. destruct (rkey r t) eqn:Ek.
      * exists n, t. split; [lia|]. split; [exact E|]. split; [apply rkey_true; exact Ek|]. split; [apply Nat.Odd_succ; exact Ho | reflexivity].
      * destruct (IH Ho) as [i [t' [Hi H]]]. exists i, t'. split; [lia | exact H].
    + rewrite (rank_S_none n r E) in *. destruct (IH Ho) as [i [t' [Hi H]]]. exists i, t'. split; [lia | exact H].
Qed.

(* ---------- tokens and closures ---------- *)
Lemma token_nth i a r b : token rg i a r b -> nth_error rg i = Some (i, a, r, b).
Proof. exact (fun H => H). Qed.
Lemma token_fun i a r b a' r' b' : token rg i a r b -> token rg i a' r' b' -> a = a' /\ r = r' /\ b = b'.
Proof. unfold token. intros H H'. rewrite H in H'. inversion H'. auto. Qed.
Lemma token_lt i a r b : token rg i a r b -> i < length rg.
Proof. intros H. apply nth_error_Some. rewrite H. discriminate. Qed.
Lemma closure_fun i a0 b0 j a b i' a0' b0' a' b' :
  closure rg i a0 b0 j a b -> closure rg i' a0' b0' j a' b' -> i = i' /\ a0 = a0' /\ b0 = b0' /\ a = a' /\ b = b'.
Proof.
  intros [r [Ti [Tj [Hlt [He Hr]]]]] [r' [Ti' [Tj' [Hlt' [He' Hr']]]]].
  destruct (token_fun _ _ _ _ _ _ _ Tj Tj') as [Ea [Er Eb]]. subst a' r' b'.
  assert (Ei : i = i') by (apply (rank_inj i i' _ _ r Ti Ti'); [reflexivity|reflexivity|lia]). subst i'.
  destruct (token_fun _ _ _ _ _ _ _ Ti Ti') as [Ea [_ Eb]]. subst. auto.
Qed.
Lemma closure_lt i a0 b0 j a b : closure rg i a0 b0 j a b -> i < j /\ j < length rg.
Proof. intros [r [_ [Tj [Hlt _]]]]. split; [exact Hlt | exact (token_lt _ _ _ _ Tj)]. Qed.
(* a closing token has odd count before it; an opening or unmatched one an even count *)
Lemma closure_odd i a0 b0 j a b r : closure rg i a0 b0 j a b -> token rg j a r b -> Nat.Odd (rank j r).
Proof.
  intros [r' [_ [Tj [_ [He Hr]]]]] Tj'. destruct (token_fun _ _ _ _ _ _ _ Tj Tj') as [_ [Er _]]. subst r'. rewrite Hr. apply Nat.Odd_succ. exact He.
Qed.

Hypothesis Hocc : forall i t, nth_error rg i = Some t -> tok_occ t = i.
Lemma nth_token i t : nth_error rg i = Some t -> token rg i (tok_atom t) (tok_r t) (tok_b t).
Proof. intros H. unfold token. rewrite H. pose proof (Hocc i t H) as E. destruct t as [[[o a] r] b]. cbn in E. subst o. reflexivity. Qed.
(* [unmatched], by counting *)
Lemma unmatched_rank i : unmatched rg i <-> exists a r b, token rg i a r b /\ Nat.Even (rank i r) /\ rank (length rg) r = S (rank i r).
Proof.
  split; intros [a [r [b [Ti [He H]]]]]; exists a, r, b; (split; [exact Ti|]); (split; [exact He|]).
  - pose proof (token_lt _ _ _ _ Ti) as Hlt. pose proof (rank_S i _ r Ti) as HS.
    assert (Hk : rkey r (i, a, r, b) = true) by (apply rkey_true; reflexivity). rewrite Hk in HS. rewrite <- HS.
    apply rank_const; [lia|]. intros j t Hj Ht Hr. apply (H j (tok_atom t) (tok_b t)); [lia|]. rewrite <- Hr. apply nth_token. exact Ht.
  - intros j a' b' Hlt Tj. assert (Hj : j < length rg) by exact (token_lt _ _ _ _ Tj).
    pose proof (rank_lt j (length rg) _ r Tj eq_refl Hj). pose proof (rank_lt i j _ r Ti eq_refl Hlt). lia.
Qed.
End Rank.

(* ---------- the tokens of a string are numbered by position ---------- *)
Lemma collect_occs : forall bd cur next occ sl ats nx oc rg, collect bd cur next occ = (sl, ats, nx, oc, rg) ->
  oc = occ + length rg /\ forall i t, nth_error rg i = Some t -> tok_occ t = occ + i.
Proof.
  induction bd as [| b r rest IH | l k inner IHi rest IHr | l k rest IH]; intros cur next occ sl ats nx oc rg H; cbn [collect] in H.
  - inversion H; subst. split; [cbn; lia|]. intros [|i] t Hi; discriminate.
  - destruct (collect rest cur next (S occ)) as [[[[sl1 ats1] nx1] oc1] rg1] eqn:E. inversion H; subst. clear H.
    destruct (IH _ _ _ _ _ _ _ _ E) as [Ho Hn]. split; [cbn [length]; lia|].
    intros [|i] t Hi; cbn [nth_error] in Hi; [inversion Hi; subst; cbn; lia|]. rewrite (Hn i t Hi). lia.
  - destruct (collect inner next (S next) occ) as [[[[sla ata] nx1] oc1] rg1] eqn:E1.
    destruct (collect rest cur nx1 oc1) as [[[[sl2 ats2] nx2] oc2] rg2] eqn:E2. inversion H; subst. clear H.
    destruct (IHi _ _ _ _ _ _ _ _ E1) as [Ho1 Hn1]. destruct (IHr _ _ _ _ _ _ _ _ E2) as [Ho2 Hn2].
    split; [rewrite app_length; lia|]. intros i t Hi. destruct (Nat.lt_ge_cases i (length rg1)) as [Hlt|Hge].
    + rewrite nth_error_app1 in Hi by exact Hlt. exact (Hn1 i t Hi).
    + rewrite nth_error_app2 in Hi by exact Hge. rewrite (Hn2 _ t Hi). lia.
  - destruct (collect rest next (S next) occ) as [[[[sla ata] nx1] oc1] rg1] eqn:E. inversion H; subst. clear H.
    exact (IH _ _ _ _ _ _ _ _ E).
Qed.
Lemma ring_tokens_occ bd : forall i t, nth_error (ring_tokens bd) i = Some t -> tok_occ t = i.
Proof.
  unfold ring_tokens. destruct (collect bd 0 1 0) as [[[[sl ats] nx] oc] rg] eqn:E.
  destruct (collect_occs _ _ _ _ _ _ _ _ _ E) as [_ H]. exact H.
Qed.
