(* The executable recogniser decides the declarative grammar -- part 2: the closure loop [star].
   Started from a set seen0 of suffixes of one input, with an item parser that is correct (on the states reached)
   for a language I of non-empty strings, and with at least as much fuel as the longest state plus one, [star] returns exactly the
   states reachable from seen0 by consuming a repetition of I; the result is closed under one more item; and the
   "ran out of input" flag is the disjunction of the item's flag over all the states reached. *)
From Coq Require Import List NArith Lia Bool Arith.
Import ListNotations.
Require Import P.Meta.Scan P.Spec.Reading P.Spec.Grammar P.Spec.Lang P.Proofs.GrammarOracleBase.

Inductive Rep (I : lang) : lang :=
| rep_nil : Rep I []
| rep_cons i r : I i -> Rep I r -> Rep I (i ++ r).
Lemma rep_snoc (I : lang) c i : Rep I c -> I i -> Rep I (c ++ i).
Proof.
  intros Hc Hi. induction Hc as [|j r Hj Hr IH].
  - cbn [app]. rewrite <- (app_nil_r i). apply rep_cons; [exact Hi | apply rep_nil].
  - rewrite <- app_assoc. apply rep_cons; assumption.
Qed.
(* a prefix of a repetition is a repetition followed by a prefix of one more item (possibly the empty prefix) *)
Lemma rep_split (I : lang) x : Rep I x -> forall l u, x = l ++ u -> Rep I l \/ exists l1 l2, l = l1 ++ l2 /\ Rep I l1 /\ Pre I l2.
Proof.
  intros Hx. induction Hx as [|i r Hi Hr IH]; intros l u E.
  - symmetry in E. apply app_eq_nil in E as [-> _]. left. apply rep_nil.
  - symmetry in E. apply app_eq_app in E as [k [[E1 E2]|[E1 E2]]].
    + subst l. destruct (IH k u E2) as [H|[l1 [l2 [-> [H1 H2]]]]].
      * left. apply rep_cons; assumption.
      * right. exists (i ++ l1), l2. split; [rewrite app_assoc; reflexivity|]. split; [apply rep_cons; assumption | exact H2].
    + subst i. right. exists [], l. split; [reflexivity|]. split; [apply rep_nil | exists k; exact Hi].
Qed.

Definition step_news (item : parser) (seen frontier : list (list char)) : list (list char) :=
  filter (fun x => negb (existsb (fun y => Nat.eqb (length y) (length x)) seen)) (dedup (flat_map rests (map item frontier))).
Lemma star_0 item seen frontier hit : star 0 item seen frontier hit = {| hit_end := hit; rests := seen |}.
Proof. reflexivity. Qed.
Lemma star_nil fuel item seen hit : star fuel item seen [] hit = {| hit_end := hit; rests := seen |}.
Proof. destruct fuel; reflexivity. Qed.
Lemma star_S f item seen frontier hit : frontier <> [] ->
  star (S f) item seen frontier hit =
  star f item (seen ++ step_news item seen frontier) (step_news item seen frontier) (hit || existsb hit_end (map item frontier)).
Proof. destruct frontier; [congruence | reflexivity]. Qed.

Section Star.
Variable item : parser.
Variable I : lang.
Variable s0 : list char.
Variable seen0 : list (list char).
Definition Reach (x : list char) : Prop := exists x0 c, In x0 seen0 /\ x0 = c ++ x /\ Rep I c.
Hypothesis Hitem : forall x, Reach x -> OK item I x.      (* the item parser is only ever applied to reachable states *)
Hypothesis Hne : NE I.
Hypothesis Hseen0 : forall x, In x seen0 -> suffix x s0.

Lemma reach_suffix x : Reach x -> suffix x s0.
Proof. intros [x0 [c [H0 [E _]]]]. apply (suffix_trans x x0 s0); [exists c; exact E | apply Hseen0; exact H0]. Qed.
Lemma reach_ok x : Reach x -> OK item I x.
Proof. exact (Hitem x). Qed.
Lemma reach_step x r : Reach x -> In r (rests (item x)) -> Reach r /\ length r < length x.
Proof.
  intros Hx Hr. destruct (reach_ok x Hx) as [H1 _]. apply H1 in Hr as [c [E Hc]]. destruct Hx as [x0 [c0 [H0 [E0 Hc0]]]]. split.
  - exists x0, (c0 ++ c). split; [exact H0|]. split; [rewrite <- app_assoc, <- E; exact E0 | apply rep_snoc; assumption].
  - subst x. rewrite app_length. pose proof (Hne c Hc) as Hn. destruct c; [contradiction | cbn [length]; lia].
Qed.

Definition closed_at (x : list char) (seen : list (list char)) (hit : bool) : Prop :=
  (forall r, In r (rests (item x)) -> In r seen) /\ (hit_end (item x) = true -> hit = true).
Record Inv (fuel : nat) (seen frontier : list (list char)) (hit : bool) : Prop := {
  inv_reach : forall x, In x seen -> Reach x;
  inv_front : incl frontier seen;
  inv_closed : forall x, In x seen -> In x frontier \/ closed_at x seen hit;
  inv_fuel : forall x, In x frontier -> length x < fuel;
  inv_seen0 : incl seen0 seen;
  inv_hit : hit = true -> exists x, Reach x /\ hit_end (item x) = true }.
Record Post (res : pres) : Prop := {
  post_reach : forall x, In x (rests res) -> Reach x;
  post_seen0 : incl seen0 (rests res);
  post_closed : forall x, In x (rests res) -> closed_at x (rests res) (hit_end res);
  post_hit : hit_end res = true -> exists x, Reach x /\ hit_end (item x) = true }.

Lemma inv_done fuel seen hit : Inv fuel seen [] hit -> Post {| hit_end := hit; rests := seen |}.
Proof.
  intros [H1 H2 H3 H4 H5 H6]. split; cbn [rests hit_end]; try assumption.
  intros x Hx. destruct (H3 x Hx) as [[]|H]. exact H.
Qed.

Lemma news_in seen frontier y : (forall x, In x seen -> Reach x) -> incl frontier seen ->
  (In y (step_news item seen frontier) <->
   (exists x, In x frontier /\ In y (rests (item x))) /\ ~ exists z, In z seen /\ length z = length y).
Proof.
  intros Hs Hf. unfold step_news. rewrite filter_In, negb_true_iff, (dedup_in s0), in_fm_map.
  - split; intros [H1 H2]; (split; [exact H1|]).
    + intros [z [Hz E]]. assert (Ht : existsb (fun y0 => Nat.eqb (length y0) (length y)) seen = true); [|congruence].
      apply existsb_exists. exists z. split; [exact Hz | apply Nat.eqb_eq; exact E].
    + destruct (existsb (fun y0 => Nat.eqb (length y0) (length y)) seen) eqn:E; [|reflexivity]. exfalso. apply H2.
      apply existsb_exists in E as [z [Hz E]]. exists z. split; [exact Hz | apply Nat.eqb_eq; exact E].
  - intros x Hx. apply in_fm_map in Hx as [x1 [Hx1 Hx]]. apply reach_suffix. apply (reach_step x1 x); [apply Hs, Hf; exact Hx1 | exact Hx].
Qed.
Lemma news_or_seen seen frontier x y : (forall x, In x seen -> Reach x) -> incl frontier seen ->
  In x frontier -> In y (rests (item x)) -> In y (seen ++ step_news item seen frontier).
Proof.
  intros Hs Hf Hx Hy. apply in_app_iff.
  destruct (existsb (fun z => Nat.eqb (length z) (length y)) seen) eqn:E.
  - left. apply existsb_exists in E as [z [Hz E]]. apply Nat.eqb_eq in E.
    assert (Hry : Reach y) by (apply (reach_step x y); [apply Hs, Hf; exact Hx | exact Hy]).
    rewrite <- (suffix_eq z y s0 (reach_suffix z (Hs z Hz)) (reach_suffix y Hry) E). exact Hz.
  - right. apply (news_in seen frontier y Hs Hf). split; [exists x; split; assumption|].
    intros [z [Hz Ez]]. assert (Ht : existsb (fun z => Nat.eqb (length z) (length y)) seen = true); [|congruence].
    apply existsb_exists. exists z. split; [exact Hz | apply Nat.eqb_eq; exact Ez].
Qed.

Lemma inv_step f seen frontier hit : Inv (S f) seen frontier hit ->
  Inv f (seen ++ step_news item seen frontier) (step_news item seen frontier) (hit || existsb hit_end (map item frontier)).
Proof.
  intros [H1 H2 H3 H4 H5 H6]. split.
  - intros x Hx. apply in_app_iff in Hx as [Hx|Hx]; [apply H1; exact Hx|].
    apply (news_in seen frontier x H1 H2) in Hx as [[x1 [Hx1 Hx]] _]. apply (reach_step x1 x); [apply H1, H2; exact Hx1 | exact Hx].
  - intros x Hx. apply in_app_iff. right. exact Hx.
  - intros x Hx. apply in_app_iff in Hx as [Hx|Hx]; [|left; exact Hx]. right. destruct (H3 x Hx) as [Hf|[Hc Hh]]; split.
    + intros r Hr. apply (news_or_seen seen frontier x r H1 H2 Hf Hr).
    + intros Hh. apply orb_true_iff. right. apply ex_hit_map. exists x. split; assumption.
    + intros r Hr. apply in_app_iff. left. apply Hc. exact Hr.
    + intros Hh'. rewrite (Hh Hh'). reflexivity.
  - intros y Hy. apply (news_in seen frontier y H1 H2) in Hy as [[x [Hx Hy]] _].
    pose proof (H4 x Hx) as Hl. destruct (reach_step x y (H1 x (H2 x Hx)) Hy) as [_ Hlt]. lia.
  - intros x Hx. apply in_app_iff. left. apply H5. exact Hx.
  - intros H. apply orb_true_iff in H as [H|H]; [apply H6; exact H|].
    apply ex_hit_map in H as [x [Hx H]]. exists x. split; [apply H1, H2; exact Hx | exact H].
Qed.

Lemma star_post : forall fuel seen frontier hit, Inv fuel seen frontier hit -> Post (star fuel item seen frontier hit).
Proof.
  induction fuel as [|f IH]; intros seen frontier hit HI.
  - rewrite star_0. destruct frontier as [|x fr]; [apply (inv_done 0); exact HI|].
    pose proof (inv_fuel _ _ _ _ HI x (or_introl eq_refl)). lia.
  - destruct frontier as [|x fr]; [rewrite star_nil; apply (inv_done (S f)); exact HI|].
    rewrite star_S by discriminate. apply IH. apply inv_step. exact HI.
Qed.

Lemma inv_init fuel : (forall x, In x seen0 -> length x < fuel) -> Inv fuel seen0 seen0 false.
Proof.
  intros Hf. split.
  - intros x Hx. exists x, []. split; [exact Hx | split; [reflexivity | apply rep_nil]].
  - apply incl_refl.
  - intros x Hx. left. exact Hx.
  - exact Hf.
  - apply incl_refl.
  - discriminate.
Qed.

Theorem star_ok fuel : (forall x, In x seen0 -> length x < fuel) -> Post (star fuel item seen0 seen0 false).
Proof. intros Hf. apply star_post. apply inv_init. exact Hf. Qed.

(* what a closed set contains *)
Lemma post_rep res : Post res -> forall c, Rep I c -> forall r, In (c ++ r) (rests res) -> In r (rests res).
Proof.
  intros HP c Hc. induction Hc as [|i c' Hi Hc' IH]; intros r Hin; [exact Hin|].
  apply IH. rewrite <- app_assoc in Hin. destruct (post_closed _ HP _ Hin) as [Hcl _]. apply Hcl.
  destruct (reach_ok _ (post_reach _ HP _ Hin)) as [H1 _]. apply H1. exists i. split; [reflexivity | exact Hi].
Qed.
End Star.
