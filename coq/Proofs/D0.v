(* C12 (lock-step simulation of walk and builder), part 0: total inversion on safe kinds, list lemmas, and what
   scan_bonds computes on a well-formed bond list. *)
From Coq Require Import List NArith Lia Bool Arith.
Import ListNotations.
Require Import P.Generated.Enums P.Spec.Values P.Generated.Tables P.Model.Base P.Model.Pool P.Proofs.PoolSpec P.Model.Walk P.Model.Builder.

(* ================= total version of invert, and the kinds on which invert does not hit unimplemented!() ================= *)
Definition inv (k : kind) : kind := match invert k with KOk k' => k' | KPanic => k end.
Definition safe (k : kind) : Prop := invert k <> KPanic.
Lemma invert_safe k : safe k -> invert k = KOk (inv k).
Proof. unfold safe, inv. destruct (invert k); [reflexivity | intros H; exfalso; apply H; reflexivity]. Qed.

Definition tbl_ok (o : invert_out) : bool := match o with InvSame | InvTo _ => true | InvPanic | InvOther => false end.
Lemma safe_bracket i s c h g m : safe (AK_Bracket i s c h g m) <-> tbl_ok (invert_table c h) = true.
Proof. unfold safe. cbn [invert]. destruct (invert_table c h); cbn [tbl_ok]; split; intros H; try discriminate; try reflexivity; exfalso; apply H; reflexivity. Qed.

(* the table, by finite computation: inverting twice is safe; the hydrogen-free flip stays on safe entries *)
Lemma table_inv_safe c h : tbl_ok (invert_table c h) = true ->
  match invert_table c h with InvTo c' => tbl_ok (invert_table (Some c') h) = true | _ => True end.
Proof.
  assert (H : forallb (fun c => forallb (fun h =>
              match invert_table c h with InvTo c' => tbl_ok (invert_table (Some c') h) | _ => true end)
              (all_option all_virtual_hydrogen)) (all_option all_configuration) = true) by (vm_compute; reflexivity).
  rewrite forallb_forall in H. specialize (H c (all_option_complete _ all_configuration_complete c)).
  rewrite forallb_forall in H. specialize (H h (all_option_complete _ all_virtual_hydrogen_complete h)).
  intros _. destruct (invert_table c h); auto.
Qed.
Lemma table_noH_safe h : has_hydrogens h = false ->
  tbl_ok (invert_table (Some Cf_TH1) h) = true /\ tbl_ok (invert_table (Some Cf_TH2) h) = true.
Proof. destruct h as [[]|]; cbn; intros H; try discriminate; split; reflexivity. Qed.

Lemma inv_safe k : safe k -> safe (inv k).
Proof.
  intros H. destruct k as [| | |i s c h g m]; try exact H.
  pose proof (proj1 (safe_bracket _ _ _ _ _ _) H) as Ht. pose proof (table_inv_safe c h Ht) as H2.
  unfold inv. cbn [invert]. destruct (invert_table c h) eqn:E; try exact H; try discriminate.
  apply safe_bracket. exact H2.
Qed.
Lemma invert_noH_safe k : safe k -> safe (invert_noH k).
Proof.
  intros H. destruct k as [| | |i s c h g m]; try exact H. cbn [invert_noH].
  destruct (has_hydrogens h) eqn:Eh; [exact H|]. destruct (table_noH_safe h Eh) as [H1 H2].
  destruct c as [[]|]; try exact H; apply safe_bracket; assumption.
Qed.
(* what the walk does to the kind of an atom entered through the bond at index idx *)
Definition wadj (idx : nat) (k : kind) : kind := if Nat.even idx then inv k else invert_noH k.
Lemma wadj_safe idx k : safe k -> safe (wadj idx k).
Proof. unfold wadj. destruct (Nat.even idx); [apply inv_safe | apply invert_noH_safe]. Qed.

(* ================= generic list lemmas ================= *)
Fixpoint index_of (x : nat) (l : list nat) : nat :=
  match l with [] => 0 | h :: t => if Nat.eqb h x then 0 else S (index_of x t) end.
Lemma index_of_app_in x l l' : In x l -> index_of x (l ++ l') = index_of x l.
Proof.
  induction l as [|h t IH]; intros H; [contradiction|]. simpl. destruct (Nat.eqb_spec h x); [reflexivity|].
  destruct H as [->|H]; [congruence|]. rewrite IH by exact H. reflexivity.
Qed.
Lemma index_of_app_new x l : ~ In x l -> index_of x (l ++ [x]) = length l.
Proof.
  induction l as [|h t IH]; intros H; simpl; [rewrite Nat.eqb_refl; reflexivity|].
  destruct (Nat.eqb_spec h x); [exfalso; apply H; left; assumption|]. rewrite IH; [reflexivity|]. intros Hin; apply H; right; exact Hin.
Qed.
Lemma index_of_lt x l : In x l -> index_of x l < length l.
Proof.
  induction l as [|h t IH]; intros H; [contradiction|]. simpl. destruct (Nat.eqb_spec h x); [lia|].
  destruct H as [->|H]; [congruence|]. specialize (IH H). lia.
Qed.
Lemma index_of_inj x y l : In x l -> In y l -> index_of x l = index_of y l -> x = y.
Proof.
  induction l as [|h t IH]; intros Hx Hy E; [contradiction|]. simpl in E.
  destruct (Nat.eqb_spec h x), (Nat.eqb_spec h y); try congruence; try discriminate.
  destruct Hx as [->|Hx]; [congruence|]. destruct Hy as [->|Hy]; [congruence|]. apply IH; auto.
Qed.

Lemma nth_error_set_nth_same {A} (l : list A) i x : i < length l -> nth_error (set_nth l i x) i = Some x.
Proof. revert i; induction l as [|a l IH]; intros i Hi; destruct i; simpl in *; try lia; auto. apply IH. lia. Qed.
Lemma nth_error_set_nth_other {A} (l : list A) i j x : i <> j -> nth_error (set_nth l i x) j = nth_error l j.
Proof. revert i j; induction l as [|a l IH]; intros i j Hne; destruct i, j; simpl; auto; try lia. Qed.
Lemma nth_set_nth_same {A} (l : list A) i x d : i < length l -> nth i (set_nth l i x) d = x.
Proof. revert i; induction l as [|a l IH]; intros i Hi; destruct i; simpl in *; try lia; auto. apply IH. lia. Qed.
Lemma nth_set_nth_other {A} (l : list A) i j x d : i <> j -> nth j (set_nth l i x) d = nth j l d.
Proof. revert i j; induction l as [|a l IH]; intros i j Hne; destruct i, j; simpl; auto; try lia. Qed.
Lemma set_nth_length {A} (l : list A) i x : length (set_nth l i x) = length l.
Proof. revert i; induction l as [|a l IH]; intros i; destruct i; simpl; auto. Qed.
Lemma nth_error_app_new {A} (l : list A) x : nth_error (l ++ [x]) (length l) = Some x.
Proof. rewrite nth_error_app2 by lia. rewrite Nat.sub_diag. reflexivity. Qed.

(* bonds *)
Fixpoint remove_first_to (p : nat) (l : list bond) : list bond :=
  match l with [] => [] | b :: t => if Nat.eqb (tid b) p then t else b :: remove_first_to p t end.
Fixpoint find_to (p : nat) (l : list bond) : option bond :=
  match l with [] => None | b :: t => if Nat.eqb (tid b) p then Some b else find_to p t end.

Lemma find_to_in p l b : find_to p l = Some b -> In b l /\ tid b = p.
Proof.
  induction l as [|a t IH]; intros H; [discriminate|]. simpl in H. destruct (Nat.eqb_spec (tid a) p).
  - inversion H; subst. split; [left; reflexivity|reflexivity].
  - destruct (IH H). split; [right; assumption|assumption].
Qed.
Lemma find_to_none p l : find_to p l = None -> forall b, In b l -> tid b <> p.
Proof.
  induction l as [|a t IH]; intros H b Hb; [contradiction|]. simpl in H. destruct (Nat.eqb_spec (tid a) p); [discriminate|].
  destruct Hb as [<-|Hb]; [assumption|]. apply IH; assumption.
Qed.
Lemma remove_first_none p l : find_to p l = None -> remove_first_to p l = l.
Proof.
  induction l as [|a t IH]; intros H; [reflexivity|]. simpl in *. destruct (Nat.eqb (tid a) p); [discriminate|]. rewrite IH by exact H. reflexivity.
Qed.
Lemma split_at_target p l b : NoDup (map tid l) -> find_to p l = Some b ->
  exists l1 l2, l = l1 ++ b :: l2 /\ remove_first_to p l = l1 ++ l2 /\
                (forall c, In c (l1 ++ l2) -> tid c <> p) /\ length l1 = index_of p (map tid l).
Proof.
  induction l as [|a t IH]; intros Hnd H; [discriminate|]. simpl in H. simpl in Hnd. inversion Hnd as [|? ? Hn Ht]; subst.
  cbn [remove_first_to map index_of]. destruct (Nat.eqb_spec (tid a) p) as [E|E].
  - inversion H; subst. exists [], t. repeat split; try reflexivity.
    intros c Hc Ec. apply Hn. rewrite <- Ec. apply in_map. exact Hc.
  - destruct (IH Ht H) as [l1 [l2 [E1 [E2 [E3 E4]]]]]. exists (a :: l1), l2. repeat split.
    + rewrite E1. reflexivity.
    + rewrite E2. reflexivity.
    + intros c [<-|Hc]; [exact E | apply E3; exact Hc].
    + simpl. rewrite E4. reflexivity.
Qed.
Lemma remove_first_sub p l c : In c (remove_first_to p l) -> In c l.
Proof.
  induction l as [|a t IH]; intros H; [contradiction|]. simpl in H. destruct (Nat.eqb (tid a) p); [right; exact H|].
  destruct H as [<-|H]; [left; reflexivity | right; apply IH; exact H].
Qed.
Lemma remove_first_nodup p l : NoDup (map tid l) -> NoDup (map tid (remove_first_to p l)).
Proof.
  induction l as [|a t IH]; intros H; [constructor|]. simpl in *. inversion H as [|? ? Hn Ht]; subst.
  destruct (Nat.eqb (tid a) p); [exact Ht|]. simpl. constructor; [|apply IH; exact Ht].
  intros Hin. apply Hn. apply in_map_iff in Hin as [c [Ec Hc]]. rewrite <- Ec. apply in_map. eapply remove_first_sub. exact Hc.
Qed.

(* ================= scan_bonds on a well-formed bond list (no stereo: NoCfg kinds) ================= *)
Lemma scan_nomatch : forall (E : list (nat * bond)) sid k back pushes,
  (forall e, In e E -> tid (snd e) <> sid) ->
  scan_bonds (rev E) sid k back pushes = SOk k back (map snd E ++ pushes).
Proof.
  induction E as [|e E IH] using rev_ind; intros sid k back pushes H; [reflexivity|].
  rewrite rev_app_distr. cbn [rev app scan_bonds]. destruct e as [idx out].
  destruct (Nat.eqb_spec (tid out) sid) as [Eq|Ne].
  - exfalso. apply (H (idx, out)); [apply in_or_app; right; left; reflexivity | exact Eq].
  - rewrite IH by (intros e He; apply H; apply in_or_app; left; exact He).
    rewrite map_app. cbn [map snd]. rewrite <- app_assoc. reflexivity.
Qed.

Lemma scan_onematch : forall (E1 E2 : list (nat * bond)) idx b0 sid k pushes,
  safe k -> tid b0 = sid ->
  (forall e, In e (E1 ++ E2) -> tid (snd e) <> sid) ->
  scan_bonds (rev (E1 ++ (idx, b0) :: E2)) sid k None pushes = SOk (wadj idx k) (Some b0) (map snd E1 ++ map snd E2 ++ pushes).
Proof.
  intros E1 E2 idx b0 sid k pushes Hk Hb H.
  rewrite rev_app_distr. cbn [rev]. rewrite <- app_assoc. cbn [app].
  assert (H2 : forall e, In e E2 -> tid (snd e) <> sid) by (intros e He; apply H; apply in_or_app; right; exact He).
  assert (H1 : forall e, In e E1 -> tid (snd e) <> sid) by (intros e He; apply H; apply in_or_app; left; exact He).
  revert pushes. induction E2 as [|e E2 IH2] using rev_ind; intros pushes.
  - cbn [rev app scan_bonds]. rewrite Hb, Nat.eqb_refl.
    assert (Hinv : (if Nat.even idx then invert k else KOk (invert_noH k)) = KOk (wadj idx k)) by (unfold wadj; destruct (Nat.even idx); [apply invert_safe; exact Hk | reflexivity]).
    rewrite Hinv. rewrite scan_nomatch by exact H1. reflexivity.
  - rewrite rev_app_distr. cbn [rev app scan_bonds]. destruct e as [i2 out2].
    destruct (Nat.eqb_spec (tid out2) sid) as [Eq|Ne].
    + exfalso. apply (H2 (i2, out2)); [apply in_or_app; right; left; reflexivity | exact Eq].
    + rewrite IH2.
      * rewrite map_app. cbn [map snd]. rewrite <- !app_assoc. reflexivity.
      * intros e He. apply H. apply in_app_or in He as [He|He]; apply in_or_app; [left; exact He | right; apply in_or_app; left; exact He].
      * intros e He. apply H2. apply in_or_app. left. exact He.
Qed.

Lemma combine_app' {A B} (a1 a2 : list A) (b1 b2 : list B) : length a1 = length b1 ->
  combine (a1 ++ a2) (b1 ++ b2) = combine a1 b1 ++ combine a2 b2.
Proof.
  revert b1; induction a1 as [|x a1 IH]; intros b1 H; destruct b1 as [|y b1]; simpl in *; try lia; [reflexivity|].
  rewrite IH by lia. reflexivity.
Qed.
Lemma enumerate_app {A} (l1 l2 : list A) :
  enumerate (l1 ++ l2) = enumerate l1 ++ combine (seq (length l1) (length l2)) l2.
Proof.
  unfold enumerate. rewrite app_length, seq_app. rewrite combine_app'; [reflexivity|]. rewrite seq_length. reflexivity.
Qed.
Lemma map_snd_combine_seq {A} (l : list A) i : map snd (combine (seq i (length l)) l) = l.
Proof. revert i; induction l as [|a l IH]; intros i; simpl; [reflexivity|]. rewrite IH. reflexivity. Qed.
Lemma in_combine_snd {A} (l : list A) i e : In e (combine (seq i (length l)) l) -> In (snd e) l.
Proof. destruct e as [j a]. intros H. apply in_combine_r in H. exact H. Qed.

Theorem scan_wf : forall l sid k b0,
  safe k -> NoDup (map tid l) -> find_to sid l = Some b0 ->
  scan_bonds (rev (enumerate l)) sid k None [] = SOk (wadj (index_of sid (map tid l)) k) (Some b0) (remove_first_to sid l).
Proof.
  intros l sid k b0 Hk Hnd Ef.
  destruct (split_at_target sid l b0 Hnd Ef) as [l1 [l2 [E1 [E2 [E3 E4]]]]].
  rewrite E2. rewrite <- E4. rewrite E1 at 1. rewrite enumerate_app. cbn [length seq combine].
  rewrite (scan_onematch (enumerate l1) (combine (seq (S (length l1)) (length l2)) l2) (length l1) b0 sid k [] Hk).
  - unfold enumerate. rewrite !map_snd_combine_seq, app_nil_r. reflexivity.
  - apply find_to_in in Ef. tauto.
  - intros e He. apply E3. apply in_app_or in He as [He|He]; apply in_or_app; [left|right]; eapply in_combine_snd; exact He.
Qed.
