(* C02 / C10, step 2 continued: the simulation relation between the symbolic and the real builder, its preservation
   by every event, and its consequences at the end of the history. *)
From Coq Require Import List NArith Lia Bool Arith.
Import ListNotations.
Require Import P.Generated.Enums P.Spec.Values P.Generated.Tables P.Spec.Events P.Model.Base P.Model.Builder P.Spec.Known
  P.Proofs.C09_Inverse P.Spec.Denote P.Proofs.WalkPanics P.Proofs.FollowerSafe P.Proofs.BuilderWf P.Proofs.DenoteSym P.Proofs.DenotePair P.Proofs.DenoteSim.

(* what a step of the real builder does to everything but the graph *)
Lemma bstep_frame s e s' : bstep s e = Some s' ->
  bstack s' = (match e with ERoot _ | EExtend _ _ => length (graph s) :: bstack s | EJoin _ _ => bstack s | EPop d => skipn d (bstack s) end) /\
  rid s' = (match e with EJoin _ _ => S (rid s) | _ => rid s end) /\
  opens s' = (match e with
              | EJoin b r => match olookup (opens s) r with Some _ => oremove (opens s) r | None => (r, hd 0 (bstack s)) :: opens s end
              | _ => opens s end) /\
  exists more, errors s' = errors s ++ more.
Proof.
  destruct e as [k|b k|b r|d]; cbn [bstep]; intros H.
  - inversion H; subst. cbn. repeat split. exists []. rewrite app_nil_r. reflexivity.
  - destruct (bstack s) as [|sid st]; [discriminate|]. destruct (invert k); [|discriminate]. destruct (nth_error (graph s) sid); [|discriminate].
    inversion H; subst. cbn. repeat split. exists []. rewrite app_nil_r. reflexivity.
  - destruct (olookup (opens s) r) as [t|].
    + destruct (bstack s) as [|sid st]; [discriminate|]. destruct (nth_error (graph s) sid) as [nds|]; [|discriminate].
      destruct (nth_error (graph s) t) as [nd|]; [|discriminate]. destruct (find_ph (edges nd) r) as [ph|]; [|discriminate].
      destruct (Nat.eqb sid t || targets_id (edges nds) t); [inversion H; subst; cbn; repeat split; eexists; reflexivity|].
      destruct (reconcile (ek ph) b) as [[l rt]|]; [|inversion H; subst; cbn; repeat split; eexists; reflexivity].
      destruct (replace_ph (edges nd) r _); [|discriminate]. inversion H; subst. cbn. repeat split. exists []. rewrite app_nil_r. reflexivity.
    + destruct (bstack s) as [|sid st]; [discriminate|]. destruct (nth_error (graph s) sid); [|discriminate].
      inversion H; subst. cbn. repeat split. exists []. rewrite app_nil_r. reflexivity.
  - inversion H; subst. cbn. repeat split. exists []. rewrite app_nil_r. reflexivity.
Qed.

Definition pst_of (T : list (nat * nat)) (sym : sst) : pst := fold_left pstep (srg sym) {| popens := []; pbonded := T; pres := [] |}.
Lemma pst_of_step T sym e sym1 : sstep sym e = Some sym1 ->
  pst_of T sym1 = match e with EJoin b r => pstep (pst_of T sym) (length (srg sym), hd 0 (sstack sym), r, b) | _ => pst_of T sym end.
Proof.
  destruct e as [k|b k|b r|d]; cbn [sstep]; intros H.
  - inversion H; subst. reflexivity.
  - destruct (sstack sym); [discriminate|]. inversion H; subst. reflexivity.
  - destruct (sstack sym) as [|sid st]; [discriminate|]. inversion H; subst. unfold pst_of. cbn [srg hd]. apply fold_left_app.
  - inversion H; subst. reflexivity.
Qed.
Lemma sstep_frame sym e sym1 : sstep sym e = Some sym1 ->
  sstack sym1 = (match e with ERoot _ | EExtend _ _ => length (snodes sym) :: sstack sym | EJoin _ _ => sstack sym | EPop d => skipn d (sstack sym) end) /\
  length (snodes sym1) = length (snodes sym) + (if is_new e then 1 else 0) /\
  length (srg sym1) = (match e with EJoin _ _ => S (length (srg sym)) | _ => length (srg sym) end) /\
  (match e with EExtend _ _ | EJoin _ _ => sstack sym <> [] | _ => True end).
Proof.
  destruct e as [k|b k|b r|d]; cbn [sstep is_new]; intros H.
  - inversion H; subst. cbn. rewrite app_length. cbn. repeat split; lia.
  - destruct (sstack sym); [discriminate|]. inversion H; subst. cbn. rewrite app_length, upd_length. cbn. repeat split; try lia. discriminate.
  - destruct (sstack sym) as [|sid st]; [discriminate|]. inversion H; subst. cbn. rewrite app_length, upd_length. cbn. repeat split; try lia. discriminate.
  - inversion H; subst. cbn. repeat split; lia.
Qed.

Record rel (T : list (nat * nat)) (sym : sst) (real : bstate) : Prop := {
  r_stack : bstack real = sstack sym;
  r_rid : rid real = length (srg sym);
  r_inv : Inv real;
  r_len : length (graph real) = length (snodes sym);
  r_opens : opens real = map okey (popens (pst_of T sym));
  r_swf : swf sym;
  r_err : match errors real with
          | [] => good T (snodes sym) (srg sym) (graph real) (pst_of T sym)
          | e :: _ => exists occ a b, find isbad (rev (pres (pst_of T sym))) = Some (occ, RBad a b) /\ e = P.Model.Builder.BJoin a b
          end
}.

Definition evok (e : ev) : Prop := match e with EExtend _ k => known_invert_panic k = false | _ => True end.

Lemma keys_okey l : keys (map okey l) = map tok_r l.
Proof. unfold keys. rewrite map_map. reflexivity. Qed.

(* everything but the graph *)
Lemma sim_common T sym real e sym1 : rel T sym real -> sstep sym e = Some sym1 -> evok e ->
  exists real1, bstep real e = Some real1 /\ bstack real1 = sstack sym1 /\ rid real1 = length (srg sym1) /\ Inv real1 /\
    length (graph real1) = length (snodes sym1) /\ opens real1 = map okey (popens (pst_of T sym1)) /\ swf sym1 /\
    exists more, errors real1 = errors real ++ more.
Proof.
  intros [Rs Rr Ri Rl Ro Rw Re] Hs Hev. destruct (sstep_frame _ _ _ Hs) as [S1 [S2 [S3 S4]]].
  assert (Hpre : pre real e) by (destruct e; cbn [pre]; try exact I; rewrite Rs; exact S4).
  assert (Hinv : invert_ok e).
  { destruct e as [|b k| |]; cbn [invert_ok evok] in *; try exact I. intros E. apply invert_panic_known in E. congruence. }
  destruct (bstep_safe real e (proj1 Ri) Hpre Hinv) as [real1 [E1 _]]. exists real1. split; [exact E1|].
  destruct (bstep_frame _ _ _ E1) as [F1 [F2 [F3 F4]]].
  split; [rewrite F1, S1, Rs, Rl; reflexivity|].
  split; [rewrite F2, S3, Rr; reflexivity|].
  split; [exact (bstep_inv _ _ _ Ri E1)|].
  split; [rewrite (bstep_length _ _ _ E1), S2, Rl; reflexivity|].
  split; [|split; [exact (swf_step _ _ _ Rw Hs) | exact F4]].
  rewrite F3, (pst_of_step T _ _ _ Hs). destruct e as [k|b k|b r|d]; try exact Ro.
  rewrite pstep_opens. cbn [tok_r fst snd]. rewrite Ro, olookup_map.
  destruct (find (rkey r) (popens (pst_of T sym))) as [z|]; cbn [option_map].
  - apply oremove_map. rewrite <- keys_okey, <- Ro. exact (bi_keys _ (proj1 Ri)).
  - cbn [map]. unfold okey at 2. cbn [tok_r tok_atom fst snd]. rewrite Rs. reflexivity.
Qed.

Lemma find_bad_new res occ a b : (forall p, In p res -> isbad p = false) ->
  find isbad (rev ((occ, RBad a b) :: res)) = Some (occ, RBad a b).
Proof.
  intros H. cbn [rev]. rewrite find_app. assert (E : find isbad (rev res) = None).
  { apply find_none_iff. intros x Hx. apply H. apply in_rev. exact Hx. }
  rewrite E. reflexivity.
Qed.

Lemma sim_step T sym real e sym1 : rel T sym real -> sstep sym e = Some sym1 -> tree_ok T (snodes sym1) -> evok e ->
  exists real1, bstep real e = Some real1 /\ rel T sym1 real1.
Proof.
  intros R Hs Ht Hev. destruct (sim_common T sym real e sym1 R Hs Hev) as [real1 [E1 [C1 [C2 [C3 [C4 [C5 [C6 [more C7]]]]]]]]].
  exists real1. split; [exact E1|]. constructor; try assumption.
  destruct R as [Rs Rr Ri Rl Ro Rw Re]. rewrite (pst_of_step T sym e sym1 Hs). set (st := pst_of T sym) in *.
  destruct (errors real) as [|e0 rest] eqn:Eerr.
  2: { rewrite C7. cbn [app]. destruct Re as [occ [a [b [Hf ->]]]]. exists occ, a, b. split; [|reflexivity].
       destruct e as [k|bb k|bb r|d]; try exact Hf.
       destruct (pstep_res st (length (srg sym), hd 0 (sstack sym), r, bb)) as [new ->]. rewrite rev_app_distr, find_app, Hf. reflexivity. }
  clear C7 more C1 C2 C4 C5. pose proof (inv_in_range _ Ri) as Hrng.
  destruct e as [k|b k|b r|d]; cbn [sstep] in Hs; cbn [bstep] in E1.
  - inversion Hs; subst sym1; clear Hs. inversion E1; subst real1; clear E1. cbn [errors graph snodes srg] in *. rewrite Eerr.
    apply good_root; assumption.
  - destruct (sstack sym) as [|sid stk] eqn:Es; [discriminate|]. inversion Hs; subst sym1; clear Hs.
    assert (Hsid : sid < length (snodes sym)) by (apply (w_stack _ Rw); rewrite Es; left; reflexivity).
    rewrite Rs, (invert_adj b k Hev) in E1. destruct (nth_error (graph real) sid) as [nds|]; [|discriminate].
    inversion E1; subst real1; clear E1. cbn [errors graph snodes srg] in *. rewrite Eerr.
    apply good_extend; assumption.
  - destruct (sstack sym) as [|sid stk] eqn:Es; [discriminate|]. inversion Hs; subst sym1; clear Hs. cbn [hd snodes srg] in *.
    assert (Hsid : sid < length (snodes sym)) by (apply (w_stack _ Rw); rewrite Es; left; reflexivity).
    rewrite Ro, olookup_map, Rs in E1. fold st in E1.
    destruct (find (rkey r) (popens st)) as [z|] eqn:Ef; cbn [option_map] in E1.
    + (* closing *)
      destruct (nth_error (graph real) sid) as [nds|] eqn:Ens; [|discriminate].
      destruct (nth_error (graph real) (tok_atom z)) as [nd|] eqn:Ent; [|discriminate].
      destruct (find_ph (edges nd) r) as [ph|] eqn:Eph; [|discriminate].
      rewrite (close_ph T _ _ _ _ r z Re Ef nd ph Ent Eph), reconcile_resolve in E1.
      assert (Htg : tok_atom z < length (graph real)) by (apply nth_error_Some; congruence).
      rewrite (g_bnd _ _ _ _ _ Re sid (tok_atom z) nds Ens Htg) in E1. unfold sp in E1.
      unfold pstep. cbn [tok_occ tok_atom tok_r tok_b fst snd]. rewrite Ef.
      destruct (Nat.eqb sid (tok_atom z) || existsb (fun p => same_pair p sid (tok_atom z)) (pbonded st)) eqn:Ebd.
      * inversion E1; subst real1; clear E1. cbn [errors pres]. rewrite Eerr. cbn [app]. exists (length (srg sym)), sid, (tok_atom z).
        split; [|reflexivity]. apply find_bad_new. exact (g_nobad _ _ _ _ _ Re).
      * destruct (resolve (tok_b z) b) as [[l rt]|] eqn:Er.
        -- destruct (replace_ph (edges nd) r _) as [es'|] eqn:Erep; [|discriminate]. inversion E1; subst real1; clear E1.
           cbn [errors graph]. rewrite Eerr. apply orb_false_iff in Ebd as [Ebd _]. apply Nat.eqb_neq in Ebd.
           eapply (good_close T _ _ _ st sid r b z Re Rl Hsid Ef l rt); try reflexivity; eassumption.
        -- inversion E1; subst real1; clear E1. cbn [errors pres]. rewrite Eerr. cbn [app]. exists (length (srg sym)), sid, (tok_atom z).
           split; [|reflexivity]. apply find_bad_new. exact (g_nobad _ _ _ _ _ Re).
    + (* opening *)
      destruct (nth_error (graph real) sid) as [nds|] eqn:Ens; [|discriminate]. inversion E1; subst real1; clear E1.
      cbn [errors graph]. rewrite Eerr, Rr.
      apply (good_open T _ _ _ st); try assumption; unfold pstep; cbn [tok_occ tok_atom tok_r tok_b fst snd]; rewrite Ef; reflexivity.
  - inversion Hs; subst sym1; clear Hs. inversion E1; subst real1; clear E1. cbn [errors graph snodes srg] in *. rewrite Eerr. exact Re.
Qed.

Lemma sim_fold T : forall h sym real symF, rel T sym real -> sfold sym h = Some symF -> tree_ok T (snodes symF) -> Forall evok h ->
  exists realF, bfold real h = Some realF /\ rel T symF realF.
Proof.
  induction h as [|e h IH]; intros sym real symF R Hf Ht Hev; cbn [sfold] in Hf; cbn [bfold].
  - inversion Hf; subst. exists real. split; [reflexivity | exact R].
  - destruct (sstep sym e) as [sym1|] eqn:Es; [|discriminate]. inversion Hev as [|? ? He Hev']; subst.
    destruct (sim_step T sym real e sym1 R Es (tree_ok_back_fold T h sym1 symF Hf Ht) He) as [real1 [E1 R1]]. rewrite E1.
    apply (IH sym1 real1 symF R1 Hf Ht Hev').
Qed.
