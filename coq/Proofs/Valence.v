(* C16 / C17 lemmas. *)
From Coq Require Import List String ZArith NArith Lia Bool Arith.
Import ListNotations.
Require Import P.Generated.Enums P.Spec.Values P.Generated.Tables P.Spec.Spelling P.Spec.Valence P.Model.Base P.Model.Atom
  P.Proofs.Finite P.Checks.C18_defs P.Proofs.C18_conv P.Checks.Valence_defs.
Local Open Scope N_scope.

Lemma lN_eqb_eq a b : lN_eqb a b = true -> a = b.
Proof.
  revert b; induction a as [|x a IH]; intros [|y b]; simpl; try discriminate; [reflexivity|].
  intros H. apply andb_true_iff in H as [H1 H2]. apply N.eqb_eq in H1. f_equal; [exact H1 | apply IH; exact H2].
Qed.

(* ---------- finite facts ---------- *)
Lemma targets_checks : bad_targets_aliphatic = [] /\ bad_targets_aromatic = [] /\ bad_targets_neutral = [] /\ bad_targets_charged = [] /\ targets_misc_ok = true.
Proof. vm_compute. repeat split; reflexivity. Qed.
Lemma debracket_checks : bad_debracket_model = [] /\ bad_debracket_meaning = [] /\ debracket_misc_ok = true /\ bad_is_aromatic = [].
Proof. vm_compute. repeat split; reflexivity. Qed.

Lemma targets_aliphatic_std a : targets_aliphatic a = std_valences (name_aliphatic a).
Proof. destruct targets_checks as [H _]. apply lN_eqb_eq. apply (filter_nil_all _ _ all_aliphatic_complete H). Qed.
Lemma targets_aromatic_std a : targets_aromatic a = std_valences (name_aromatic a).
Proof. destruct targets_checks as [_ [H _]]. apply lN_eqb_eq. apply (filter_nil_all _ _ all_aromatic_complete H). Qed.
Lemma list_prod_complete {A B} (la : list A) (lb : list B) : (forall a, In a la) -> (forall b, In b lb) -> forall p, In p (list_prod la lb).
Proof. intros Ha Hb [a b]. apply in_prod; auto. Qed.
Lemma targets_isoelectronic s c : targets_bracket s c <> [] -> iso_targets s c = Some (targets_bracket s c).
Proof.
  intros Hne. destruct targets_checks as [_ [_ [_ [H _]]]].
  pose proof (filter_nil_all _ _ (list_prod_complete _ _ all_bracket_symbol_complete (all_option_complete _ all_charge_complete)) H (s, c)) as Hc.
  cbn [fst snd] in Hc. unfold charged_ok in Hc. destruct (targets_bracket s c) as [|t ts]; [congruence|].
  destruct (iso_targets s c) as [t'|]; [|discriminate]. apply lN_eqb_eq in Hc. congruence.
Qed.

(* ---------- the fold ---------- *)
Lemma fold_add_shift (l : list bond) : forall a, fold_left (fun sum b => sum + order_bond_kind (bk b)) l a = a + fold_left (fun sum b => sum + order_bond_kind (bk b)) l 0.
Proof.
  induction l as [|b l IH]; intros a; cbn [fold_left]; [lia|]. rewrite IH, (IH (0 + _)). lia.
Qed.
Lemma valence_eq a : valence a = hcount_value (akind a) + order_sum (bonds a).
Proof. unfold valence, order_sum. apply fold_add_shift. Qed.
Lemma order_ge_1 k : 1 <= order_bond_kind k.
Proof. destruct (bond_kind_facts k) as [_ [_ [H _]]]. rewrite H. unfold order_spec. destruct (name_bond_kind k) as [|? ?]; try lia. repeat (match goal with |- context [match ?x with _ => _ end] => destruct x end; try lia). Qed.
Lemma order_sum_ge_degree (l : list bond) : N.of_nat (List.length l) <= order_sum l.
Proof.
  unfold order_sum. induction l as [|b l IH]; [cbn; lia|]. cbn [fold_left List.length]. rewrite fold_add_shift.
  pose proof (order_ge_1 (bk b)). rewrite Nat2N.inj_succ. set (x := fold_left _ l 0) in *. lia.
Qed.

(* ---------- C17 ---------- *)
Lemma distance_find vs v : match find (fun t => v <=? t) vs with Some t => t - v | None => 0 end = distance vs v.
Proof. reflexivity. Qed.
Lemma hydrogens_follow_spec a : suppressed_hydrogens a = hydrogens_spec (akind a) (order_sum (bonds a)).
Proof.
  unfold suppressed_hydrogens, hydrogens_spec, subvalence. rewrite valence_eq.
  destruct (akind a) as [|al|ar|i s c h g m] eqn:E; cbn [hcount_value targets].
  - reflexivity.
  - rewrite targets_aliphatic_std. rewrite N.add_0_l. reflexivity.
  - rewrite targets_aromatic_std. rewrite N.add_0_l. rewrite distance_find.
    set (d := distance (std_valences (name_aromatic ar)) (order_sum (bonds a))). destruct (N.ltb_spec 1 d); lia.
  - destruct h as [h|]; [|reflexivity]. cbn [hcount_of]. apply (proj1 (vh_into_inverse h)).
Qed.
Lemma subvalence_follows_targets a :
  subvalence a = distance (targets (akind a)) (hcount_of (match akind a with AK_Bracket _ _ _ h _ _ => h | _ => None end) + order_sum (bonds a)).
Proof.
  unfold subvalence. rewrite valence_eq, distance_find. f_equal. f_equal.
  destruct (akind a) as [| | |i s c [h|] g m]; cbn [hcount_value hcount_of]; try reflexivity. apply (proj1 (vh_into_inverse h)).
Qed.

(* ---------- C16 ---------- *)
Lemma sym_h_complete p : In p sym_h.
Proof. apply list_prod_complete; [apply all_bracket_symbol_complete | apply all_option_complete, all_virtual_hydrogen_complete]. Qed.
Lemma debracket_plain_meaning s h b : b < 256 -> b + hcount_of h <= 255 ->
  exists k', debracket (plain_bracket s h) b = Some k' /\ kind_element_name k' = kind_element_name (plain_bracket s h) /\
             kind_aromatic k' = kind_aromatic (plain_bracket s h) /\ hydrogens_spec k' b = hcount_of h.
Proof.
  intros Hb Hfit. destruct debracket_checks as [_ [H _]].
  assert (Hok : debracket_ok s h b = true).
  { destruct (debracket_ok s h b) eqn:E; [reflexivity|]. exfalso.
    assert (In (s, h, b) bad_debracket_meaning).
    { unfold bad_debracket_meaning.
      (* explicit instance: [apply in_flat_map] alone lets unification reduce the tables (12 minutes) *)
      refine (proj2 (in_flat_map (fun p : bracket_symbol * option virtual_hydrogen => let '(s0, h0) := p in map (fun b0 => (s0, h0, b0)) (filter (fun b0 => negb (debracket_ok s0 h0 b0)) sums)) sym_h (s, h, b)) _).
      exists (s, h). split; [apply sym_h_complete|].
      apply in_map. apply filter_In. split; [apply N_below_complete; exact Hb | rewrite E; reflexivity]. }
    rewrite H in H0. exact H0. }
  unfold debracket_ok in Hok. destruct (N.ltb_spec 255 (b + hcount_of h)) as [Hgt|_]; [lia|].
  destruct (debracket (plain_bracket s h) b) as [k'|]; [|discriminate]. exists k'.
  apply andb_true_iff in Hok as [Hok H3]. apply andb_true_iff in Hok as [H1 H2].
  apply String.eqb_eq in H1. apply Bool.eqb_prop in H2. apply N.eqb_eq in H3. auto.
Qed.
Lemma debracket_meaning i s c h g m b : b < 256 -> b + hcount_of h <= 255 ->
  let k := AK_Bracket i s c h g m in
  exists k', debracket k b = Some k' /\ kind_element_name k' = kind_element_name k /\ kind_aromatic k' = kind_aromatic k /\
             hydrogens_spec k' b = hcount_of h /\ (any_field i c g m = true -> k' = k).
Proof.
  intros Hb Hfit k. destruct (any_field i c g m) eqn:Ea.
  - exists k. unfold k at 1. cbn [debracket]. rewrite Ea. repeat split; reflexivity.
  - assert (i = None /\ c = None /\ g = None /\ m = None) as [-> [-> [-> ->]]] by (destruct i, c, g, m; try discriminate; auto).
    destruct (debracket_plain_meaning s h b Hb Hfit) as [k' [H1 [H2 [H3 H4]]]]. exists k'. repeat split; try assumption. discriminate.
Qed.
Lemma debracket_unbracketed k b : match k with AK_Bracket _ _ _ _ _ _ => True | _ => debracket k b = Some k end.
Proof. destruct k; reflexivity. Qed.
