From Coq Require Import List NArith Lia Bool Arith.
Import ListNotations.
Require Import P.Generated.Enums P.Spec.Values P.Generated.Tables P.Model.Base P.Model.Pool P.Proofs.PoolSpec P.Model.Walk P.Model.Builder P.Proofs.D0 P.Proofs.D1 P.Proofs.D3 P.Proofs.D2.

Section D4.
Variable g : list atom.
Notation n := (length g).
Notation bonds_of := (bonds_of g).
Notation atom_at := (atom_at g).
Notation nonback := (nonback g).
Notation processed := (processed g).
Notation pending := (pending g).
Notation wsim := (wsim g).
Notation bsim := (bsim g).
Notation top_facts := (top_facts g).
Notation node_ok := (node_ok g).
Notation back_edges := (back_edges g).

Hypothesis wf_range : forall x b, x < n -> In b (bonds_of x) -> tid b < n /\ tid b <> x.
Hypothesis wf_nodup : forall x, x < n -> NoDup (map tid (bonds_of x)).
Hypothesis wf_sym : forall x b, x < n -> In b (bonds_of x) ->
  exists b', find_to x (bonds_of (tid b)) = Some b' /\ bk b' = reverse (bk b).
Hypothesis safe_kinds : forall x, safe (akind (atom_at x)).
Notation walk_kind := (walk_kind g).
Notation kind_final := (kind_final g).

(* ---------- small facts ---------- *)
Lemma firstn_skipn_mid {A} (l : list A) i b : skipn i l = b :: skipn (S i) l -> l = firstn i l ++ b :: skipn (S i) l.
Proof. intros H. rewrite <- H. symmetry. apply firstn_skipn. Qed.

Lemma nodup_mid_notin (l1 l2 : list bond) b : NoDup (map tid (l1 ++ b :: l2)) -> forall c, In c l1 -> tid c <> tid b.
Proof.
  rewrite map_app. cbn [map]. intros H c Hc E. apply NoDup_remove_2 in H. apply H. apply in_or_app. left.
  rewrite <- E. apply in_map. exact Hc.
Qed.

Lemma top_not_processed gh x b : x < n -> pending gh x = b :: skipn (S (cnt gh x)) (nonback gh x) ->
  forall c, In c (processed gh x) -> tid c <> tid b.
Proof.
  intros Hx Hp c Hc. unfold pending in Hp. pose proof (firstn_skipn_mid _ _ _ Hp) as Hsplit.
  pose proof (nonback_nodup g wf_nodup gh x Hx) as Hnd. rewrite Hsplit in Hnd.
  eapply nodup_mid_notin; [exact Hnd | exact Hc].
Qed.

Lemma find_to_unique l p b c : NoDup (map tid l) -> find_to p l = Some b -> In c l -> tid c = p -> c = b.
Proof.
  induction l as [|a t IH]; intros Hnd Hf Hc Ht; [contradiction|]. simpl in *. inversion Hnd as [|? ? Hn Hnd']; subst.
  destruct (Nat.eqb_spec (tid a) (tid c)) as [E|E].
  - inversion Hf; subst. destruct Hc as [->|Hc]; [reflexivity|]. exfalso. apply Hn. rewrite E. apply in_map. exact Hc.
  - destruct Hc as [->|Hc]; [congruence|]. apply IH; auto.
Qed.

Lemma remove_first_no_target p l : NoDup (map tid l) -> forall c, In c (remove_first_to p l) -> tid c <> p.
Proof.
  induction l as [|a t IH]; intros Hnd c Hc; [contradiction|]. simpl in *. inversion Hnd as [|? ? Hn Hnd']; subst.
  destruct (Nat.eqb_spec (tid a) p) as [E|E].
  - intros Ec. apply Hn. rewrite E, <- Ec. apply in_map. exact Hc.
  - destruct Hc as [<-|Hc]; [exact E | apply IH; assumption].
Qed.

Lemma nonback_not_parent gh x p : x < n -> par gh x = Some p -> forall c, In c (nonback gh x) -> tid c <> p.
Proof.
  intros Hx Hp c Hc. unfold D1.nonback in Hc. rewrite Hp in Hc. eapply remove_first_no_target; [apply wf_nodup; exact Hx | exact Hc].
Qed.

Lemma firstn_sub {A} (l : list A) i x : In x (firstn i l) -> In x l.
Proof. revert i; induction l as [|a l IH]; intros i H; destruct i; simpl in *; try contradiction. destruct H as [->|H]; [left; reflexivity | right; eapply IH; exact H]. Qed.
Lemma processed_sub gh x c : In c (processed gh x) -> In c (nonback gh x).
Proof. unfold D1.processed. apply firstn_sub. Qed.

Lemma phi_inj gh x y : In x (order gh) -> In y (order gh) -> phi gh x = phi gh y -> x = y.
Proof. apply index_of_inj. Qed.

(* edge_ok only looks at par, phi and one lookup *)
Lemma edge_ok_same gh p p' u c e x :
  lookup (borrowed p') (u, tid c) = lookup (borrowed p) (u, tid c) ->
  edge_ok gh p u c e -> edge_ok (gh_join gh x) p' u c e.
Proof. unfold D2.edge_ok. cbn [gh_join par]. unfold phi. cbn [gh_join order]. intros ->. auto. Qed.

(* while x -> y is the top pending bond of x and {x,y} is not open, y has not processed its bond to x *)
Lemma partner_unprocessed gh s b x bd rest pre post :
  wsim gh s -> bsim gh s b -> top_facts gh s x bd rest pre post -> In (tid bd) (order gh) ->
  lookup (borrowed (wpool s)) (x, tid bd) = None ->
  ~ (exists c, In c (processed gh (tid bd)) /\ tid c = x).
Proof.
  intros W B [Es [Ech [Epre [Epend [Erest [Hnp [Hb [Hxn [Hy [Hyx Hxo]]]]]]]]]] Hin Hl [c [Hc Hcx]].
  assert (Hbn : In bd (nonback gh x)) by (unfold D1.pending in Epend; eapply skipn_sub; rewrite Epend; left; reflexivity).
  destruct (par gh x) as [q|] eqn:Epar.
  - destruct (Nat.eq_dec q (tid bd)) as [->|Hq].
    + exact (nonback_not_parent gh x (tid bd) Hxn Epar bd Hbn eq_refl).
    + assert (Hnt : ~ tree_child gh (tid bd) c) by (unfold tree_child; rewrite Hcx, Epar; intros E; inversion E; congruence).
      assert (Hl' : lookup (borrowed (wpool s)) (tid bd, tid c) = None) by (rewrite Hcx, lookup_sym; exact Hl).
      destruct (bs_closed g gh s b B (tid bd) c Hin Hc Hnt Hl') as [c' [Hc' Ht']]. rewrite Hcx in Hc'.
      exact (top_not_processed gh x bd Hxn Epend c' Hc' Ht').
  - assert (Hnt : ~ tree_child gh (tid bd) c) by (unfold tree_child; rewrite Hcx, Epar; discriminate).
    assert (Hl' : lookup (borrowed (wpool s)) (tid bd, tid c) = None) by (rewrite Hcx, lookup_sym; exact Hl).
    destruct (bs_closed g gh s b B (tid bd) c Hin Hc Hnt Hl') as [c' [Hc' Ht']]. rewrite Hcx in Hc'.
    exact (top_not_processed gh x bd Hxn Epend c' Hc' Ht').
Qed.

(* y is not a tree child of x through the bond that is still pending *)
Lemma top_not_child gh s x bd rest pre post :
  wsim gh s -> top_facts gh s x bd rest pre post -> In (tid bd) (order gh) -> par gh (tid bd) <> Some x.
Proof.
  intros W [Es [Ech [Epre [Epend [Erest [Hnp [Hb [Hxn [Hy [Hyx Hxo]]]]]]]]]] Hin Hp.
  destruct (ws_child g gh s W (tid bd) x Hp) as [c [Hc Ht]].
  exact (top_not_processed gh x bd Hxn Epend c Hc Ht).
Qed.

Lemma Forall2_app_one {A B} (R : A -> B -> Prop) l1 l2 a b : Forall2 R l1 l2 -> R a b -> Forall2 R (l1 ++ [a]) (l2 ++ [b]).
Proof. intros H1 H2. apply Forall2_app; [exact H1 | constructor; [exact H2 | constructor]]. Qed.
Lemma Forall2_impl_in {A B} (R R' : A -> B -> Prop) l1 l2 :
  (forall a b, In a l1 -> R a b -> R' a b) -> Forall2 R l1 l2 -> Forall2 R' l1 l2.
Proof.
  intros H F. induction F as [|a b l1 l2 Hab F IH]; constructor.
  - apply H; [left; reflexivity | exact Hab].
  - apply IH. intros a' b' Hin. apply H. right. exact Hin.
Qed.

Definition join_state (s : wstate) x bd rest post (pre : list nat) r p' : wstate :=
  {| rem := rem s; stk := rest; chain := x :: post; wpool := p'; evs := EJoin (bk bd) r :: popped s pre |}.

(* ---------- opening a ring closure ---------- *)
Lemma sim_join_open gh s b x bd rest pre post r p' b1 tail :
  wsim gh s -> bsim gh s b -> top_facts gh s x bd rest pre post -> In (tid bd) (order gh) ->
  lookup (borrowed (wpool s)) (x, tid bd) = None ->
  borrowed p' = ((x, tid bd), r) :: borrowed (wpool s) -> pinv p' -> ~ In r (nums (borrowed (wpool s))) ->
  bstack b1 = phi gh x :: map (phi gh) post ++ tail -> graph b1 = graph b -> opens b1 = opens b -> errors b1 = errors b ->
  exists b2, bstep b1 (EJoin (bk bd) r) = Some b2 /\ bsim (gh_join gh x) (join_state s x bd rest post pre r p') b2.
Proof.
  intros W B T Hin Hl Hb' Hp' Hfresh Hst Hgr Hop Her.
  pose proof T as [Es [Ech [Epre [Epend [Erest [Hnp [Hb [Hxn [Hy [Hyx Hxo]]]]]]]]]].
  set (y := tid bd) in *.
  destruct (bs_nodes g gh s b B x Hxo) as [ndx [Hndx [Hkx [esx [Hex Hfx]]]]].
  (* the builder step *)
  assert (Hol : olookup (opens b1) r = None) by (rewrite Hop, (bs_opens g gh s b B); apply olookup_fresh; exact Hfresh).
  set (ph := {| ek := bk bd; etgt := TRnum (rid b1) (phi gh x) r |}).
  exists {| bstack := bstack b1; graph := add_edge (graph b) (phi gh x) ph; opens := (r, phi gh x) :: opens b1;
            errors := errors b1; rid := S (rid b1) |}.
  split; [cbn [bstep]; rewrite Hol, Hst, Hgr, Hndx; reflexivity|].
  assert (Hproc : processed (gh_join gh x) x = processed gh x ++ [bd]).
  { unfold D1.processed. change (nonback (gh_join gh x) x) with (nonback gh x). cbn [gh_join cnt]. rewrite upd_same.
    unfold D1.pending in Epend. apply skipn_S_firstn. exact Epend. }
  assert (Hprocz : forall z, z <> x -> processed (gh_join gh x) z = processed gh z).
  { intros z Hz. unfold D1.processed. change (nonback (gh_join gh x) z) with (nonback gh z). cbn [gh_join cnt]. rewrite upd_other by exact Hz. reflexivity. }
  assert (Hnochild : par gh y <> Some x) by (eapply top_not_child; eauto).
  assert (Hunproc : ~ (exists c, In c (processed gh y) /\ tid c = x)) by (eapply partner_unprocessed; eauto).
  (* lookups of processed bonds are unchanged *)
  assert (Hlk : forall u c, In u (order gh) -> In c (processed gh u) ->
                lookup (borrowed p') (u, tid c) = lookup (borrowed (wpool s)) (u, tid c)).
  { intros u c Hu Hc. rewrite Hb'. cbn [lookup]. destruct (pair_eqb (x, y) (u, tid c)) eqn:E; [|reflexivity]. exfalso.
    apply pair_eqb_true in E. cbn [fst snd] in E. destruct E as [[E1 E2]|[E1 E2]].
    - subst u. exact (top_not_processed gh x bd Hxn Epend c Hc (eq_sym E2)).
    - apply Hunproc. exists c. subst u. split; [exact Hc | symmetry; exact E1]. }
  constructor; cbn [join_state chain wpool].
  - cbn [graph]. rewrite add_edge_length. apply (bs_len g gh s b B).
  - exists tail. cbn [bstack]. rewrite Hst. reflexivity.
  - intros z Hz. cbn [graph]. destruct (Nat.eq_dec z x) as [->|Hzx].
    + eexists. split; [apply add_edge_same; exact Hndx|]. split; [exact Hkx|].
      exists (esx ++ [ph]). cbn [edges]. split; [rewrite Hex, <- app_assoc; reflexivity|].
      rewrite Hproc. apply Forall2_app_one.
      * eapply Forall2_impl_in; [|exact Hfx]. intros c e Hc Hok. apply (edge_ok_same gh (wpool s) p' x c e x); [apply Hlk; assumption | exact Hok].
      * unfold D2.edge_ok. cbn [gh_join par]. fold y. rewrite Hb'. cbn [lookup]. 
        assert (Epe : pair_eqb (x, y) (x, y) = true) by (apply pair_eqb_true; left; split; reflexivity).
        destruct (par gh y) as [q|] eqn:Epar.
        -- destruct (Nat.eqb_spec q x) as [->|Hq]; [exfalso; apply Hnochild; reflexivity|]. rewrite Epe. split; [reflexivity|]. exists (rid b1). reflexivity.
        -- rewrite Epe. split; [reflexivity|]. exists (rid b1). reflexivity.
    + destruct (bs_nodes g gh s b B z Hz) as [ndz [Hndz [Hkz [esz [Hez Hfz]]]]].
      exists ndz. split.
      * rewrite add_edge_other; [exact Hndz|]. intros E. apply Hzx. symmetry. eapply phi_inj; eauto.
      * split; [exact Hkz|]. exists esz. split; [exact Hez|]. rewrite Hprocz by exact Hzx.
        eapply Forall2_impl_in; [|exact Hfz]. intros c e Hc Hok. apply (edge_ok_same gh (wpool s) p' z c e x); [apply Hlk; assumption | exact Hok].
  - cbn [opens]. rewrite Hop, (bs_opens g gh s b B), Hb'. reflexivity.
  - cbn [errors]. rewrite Her. apply (bs_err g gh s b B).
  - exact Hp'.
  - rewrite Hb'. cbn [pairs_distinct]. split; [|apply (bs_pairs g gh s b B)].
    intros q' r' Hq'. destruct (pair_eqb (x, y) q') eqn:E; [|reflexivity]. exfalso.
    rewrite pair_eqb_sym in E. exact (in_lookup _ q' r' (x, y) Hq' E Hl).
  - intros u v r0 Hent. rewrite Hb' in Hent. destruct Hent as [Hent|Hent].
    + inversion Hent; subst u v r0. split; [exact Hxo|]. split; [exact Hin|]. split; [|split].
      * exists bd. split; [rewrite Hproc; apply in_or_app; right; left; reflexivity | reflexivity].
      * rewrite Hprocz by (intros E; apply Hyx; exact E). exact Hunproc.
      * exact Hnochild.
    + destruct (bs_open g gh s b B u v r0 Hent) as [Hu [Hv [[c [Hc Hcv]] [Hnc Hnpar]]]].
      split; [exact Hu|]. split; [exact Hv|]. split; [|split; [|exact Hnpar]].
      * exists c. split; [|exact Hcv]. destruct (Nat.eq_dec u x) as [->|Hux]; [rewrite Hproc; apply in_or_app; left; exact Hc | rewrite Hprocz by exact Hux; exact Hc].
      * intros [c' [Hc' Hcu]]. destruct (Nat.eq_dec v x) as [->|Hvx].
        -- rewrite Hproc in Hc'. apply in_app_or in Hc' as [Hc'|[<-|[]]]; [apply Hnc; exists c'; split; assumption|].
           (* the new bond x -> y would close an entry ((y, x), r0): but {x,y} was not open *)
           fold y in Hcu. subst u. apply (in_lookup _ (y, x) r0 (x, y) Hent); [apply pair_eqb_true; right; split; reflexivity | exact Hl].
        -- rewrite Hprocz in Hc' by exact Hvx. apply Hnc. exists c'. split; assumption.
  - intros u c Hu Hc Hnt Hlu.
    destruct (Nat.eq_dec u x) as [->|Hux].
    + rewrite Hproc in Hc. apply in_app_or in Hc as [Hc|[<-|[]]].
      * rewrite (Hlk x c Hxo Hc) in Hlu. destruct (bs_closed g gh s b B x c Hxo Hc Hnt Hlu) as [c' [Hc' Ht']].
        exists c'. split; [|exact Ht']. destruct (Nat.eq_dec (tid c) x) as [E|E]; [rewrite E, Hproc; apply in_or_app; left; rewrite <- E; exact Hc' | rewrite Hprocz by exact E; exact Hc'].
      * exfalso. fold y in Hlu. rewrite Hb' in Hlu. cbn [lookup] in Hlu.
        assert (Epe : pair_eqb (x, y) (x, y) = true) by (apply pair_eqb_true; left; split; reflexivity). rewrite Epe in Hlu. discriminate.
    + rewrite Hprocz in Hc by exact Hux. rewrite (Hlk u c Hu Hc) in Hlu.
      destruct (bs_closed g gh s b B u c Hu Hc Hnt Hlu) as [c' [Hc' Ht']].
      exists c'. split; [|exact Ht']. destruct (Nat.eq_dec (tid c) x) as [E|E]; [rewrite E, Hproc; apply in_or_app; left; rewrite <- E; exact Hc' | rewrite Hprocz by exact E; exact Hc'].
Qed.

Lemma NoDup_app_l {A} (l1 l2 : list A) : NoDup (l1 ++ l2) -> NoDup l1.
Proof.
  induction l1 as [|a l1 IH]; intros H; [constructor|]. simpl in H. inversion H; subst. constructor.
  - intros Hin. apply H2. apply in_or_app. left. exact Hin.
  - apply IH. assumption.
Qed.

(* ---------- placeholders in an edge list ---------- *)
Definition is_ph (e : edge) (r : rnumN) : Prop := exists rid sid, etgt e = TRnum rid sid r.
Lemma ph_split : forall pre' e0 post' r f, (forall e, In e pre' -> ~ is_ph e r) -> is_ph e0 r ->
  find_ph (pre' ++ e0 :: post') r = Some e0 /\ replace_ph (pre' ++ e0 :: post') r f = Some (pre' ++ f e0 :: post').
Proof.
  induction pre' as [|e pre' IH]; intros e0 post' r f Hpre [rid0 [sid0 H0]]; cbn [app find_ph replace_ph].
  - rewrite H0, N.eqb_refl. split; reflexivity.
  - destruct (IH e0 post' r f) as [I1 I2]; [intros e' He'; apply Hpre; right; exact He' | exists rid0, sid0; exact H0|].
    destruct (etgt e) as [t|rid1 sid1 r1] eqn:Et.
    + rewrite I1, I2. split; reflexivity.
    + destruct (N.eqb_spec r1 r) as [->|Hne]; [exfalso; apply (Hpre e (or_introl eq_refl)); exists rid1, sid1; exact Et|].
      rewrite I1, I2. split; reflexivity.
Qed.

Lemma Forall2_split_l {A B} (R : A -> B -> Prop) : forall l1 a l2 es, Forall2 R (l1 ++ a :: l2) es ->
  exists e1 e e2, es = e1 ++ e :: e2 /\ Forall2 R l1 e1 /\ R a e /\ Forall2 R l2 e2.
Proof.
  induction l1 as [|x l1 IH]; intros a l2 es H; cbn [app] in H.
  - inversion H; subst. exists [], y, l'. repeat split; auto.
  - inversion H; subst. destruct (IH a l2 l' H4) as [e1 [e [e2 [E [F1 [Ra F2]]]]]]. exists (y :: e1), e, e2. subst l'. repeat split; auto.
Qed.
Lemma Forall2_in_r {A B} (R : A -> B -> Prop) : forall l1 l2 e, Forall2 R l1 l2 -> In e l2 -> exists a, In a l1 /\ R a e.
Proof.
  induction 1 as [|a b l1 l2 Hab F IH]; intros Hin; [contradiction|]. destruct Hin as [<-|Hin]; [exists a; split; [left; reflexivity|exact Hab]|].
  destruct (IH Hin) as [a' [Ha' Hr]]. exists a'. split; [right; exact Ha' | exact Hr].
Qed.
Lemma in_split_first {A} (l : list A) x : In x l -> exists l1 l2, l = l1 ++ x :: l2.
Proof. apply in_split. Qed.

Lemma nums_entry_unique : forall b q1 q2 r, NoDup (nums b) -> In (q1, r) b -> In (q2, r) b -> q1 = q2.
Proof.
  induction b as [|[q m] t IH]; intros q1 q2 r Hnd H1 H2; [contradiction|]. simpl in Hnd. inversion Hnd as [|? ? Hn Ht]; subst.
  destruct H1 as [H1|H1], H2 as [H2|H2].
  - congruence.
  - inversion H1; subst. exfalso. apply Hn. apply in_map_iff. exists (q2, r). split; [reflexivity|exact H2].
  - inversion H2; subst. exfalso. apply Hn. apply in_map_iff. exists (q1, r). split; [reflexivity|exact H1].
  - eapply IH; eauto.
Qed.

Lemma set_nth_nth_error {A} (l : list A) i x j : nth_error (set_nth l i x) j = if Nat.eqb i j then (if j <? length l then Some x else None) else nth_error l j.
Proof.
  revert i j; induction l as [|a l IH]; intros i j; destruct i, j; simpl; auto.
  - destruct (Nat.eqb i j); reflexivity.
  - rewrite IH. destruct (Nat.eqb i j); [|reflexivity]. destruct (Nat.ltb_spec j (length l)), (Nat.ltb_spec (S j) (S (length l))); try reflexivity; lia.
Qed.

(* ---------- closing a ring closure ---------- *)
Lemma sim_join_close gh s b x bd rest pre post r p' b1 tail :
  wsim gh s -> bsim gh s b -> top_facts gh s x bd rest pre post -> In (tid bd) (order gh) ->
  lookup (borrowed (wpool s)) (x, tid bd) = Some r ->
  borrowed p' = remove (borrowed (wpool s)) (x, tid bd) -> pinv p' ->
  bstack b1 = phi gh x :: map (phi gh) post ++ tail -> graph b1 = graph b -> opens b1 = opens b -> errors b1 = errors b ->
  exists b2, bstep b1 (EJoin (bk bd) r) = Some b2 /\ bsim (gh_join gh x) (join_state s x bd rest post pre r p') b2.
Proof.
  intros W B T Hin Hl Hb' Hp' Hst Hgr Hop Her.
  pose proof T as [Es [Ech [Epre [Epend [Erest [Hnp [Hb [Hxn [Hy [Hyx Hxo]]]]]]]]]].
  set (y := tid bd) in *.
  pose proof (bs_pinv g gh s b B) as Pinv. pose proof (pi_nd _ Pinv) as Hnd.
  pose proof (bs_pairs g gh s b B) as Hpd.
  (* the open entry is ((y, x), r): it was opened from y *)
  destruct (lookup_entry _ _ _ Hl) as [q [Hent Hq]].
  assert (Hq' : q = (y, x)).
  { apply pair_eqb_true in Hq. cbn [fst snd] in Hq. destruct q as [q1 q2]. cbn [fst snd] in Hq. destruct Hq as [[-> ->]|[-> ->]]; [|reflexivity].
    exfalso. destruct (bs_open g gh s b B x y r Hent) as [_ [_ [[c [Hc Hcy]] _]]].
    exact (top_not_processed gh x bd Hxn Epend c Hc Hcy). }
  subst q.
  destruct (bs_open g gh s b B y x r Hent) as [Hyo [_ [[c0 [Hc0 Hc0x]] [Hxun _]]]].
  assert (Hyn : y < n) by exact Hy.
  assert (Hnochild : par gh y <> Some x) by (eapply top_not_child; eauto).
  assert (Hbn : In bd (nonback gh x)) by (unfold D1.pending in Epend; eapply skipn_sub; rewrite Epend; left; reflexivity).
  assert (Hparx : par gh x <> Some y) by (intros E; exact (nonback_not_parent gh x y Hxn E bd Hbn eq_refl)).
  assert (Hphi : phi gh x <> phi gh y) by (intros E; apply Hyx; symmetry; eapply phi_inj; eauto).
  (* the two nodes *)
  destruct (bs_nodes g gh s b B x Hxo) as [ndx [Hndx [Hkx [esx [Hex Hfx]]]]].
  destruct (bs_nodes g gh s b B y Hyo) as [ndy [Hndy [Hky [esy [Hey Hfy]]]]].
  destruct (in_split _ _ Hc0) as [l1 [l2 Hsplit]].
  rewrite Hsplit in Hfy. destruct (Forall2_split_l _ _ _ _ _ Hfy) as [e1 [e0 [e2 [Hesy [F1 [Hok0 F2]]]]]].
  (* c0's edge is the placeholder for r *)
  assert (Hl0 : lookup (borrowed (wpool s)) (y, tid c0) = Some r) by (rewrite Hc0x, lookup_sym; exact Hl).
  assert (Hph0 : ek e0 = bk c0 /\ exists rid0, etgt e0 = TRnum rid0 (phi gh y) r).
  { unfold D2.edge_ok in Hok0. rewrite Hc0x in Hok0. rewrite Hc0x in Hl0. destruct (par gh x) as [q|] eqn:Epx.
    - destruct (Nat.eqb_spec q y) as [->|Hqy]; [exfalso; apply Hparx; reflexivity|]. rewrite Hl0 in Hok0. exact Hok0.
    - rewrite Hl0 in Hok0. exact Hok0. }
  destruct Hph0 as [Hek0 [rid0 Het0]].
  (* no earlier edge of y is a placeholder for r *)
  pose proof (nonback_nodup g wf_nodup gh y Hyn) as Hndy'.
  assert (Hsplit_nb : exists l3, nonback gh y = l1 ++ c0 :: l3).
  { unfold D1.processed in Hsplit. exists (l2 ++ skipn (cnt gh y) (nonback gh y)).
    rewrite <- (firstn_skipn (cnt gh y) (nonback gh y)) at 1. rewrite Hsplit, <- app_assoc. reflexivity. }
  destruct Hsplit_nb as [l3 Hnb3].
  assert (Hl1x : forall c, In c l1 -> tid c <> x).
  { intros c Hc. rewrite Hnb3 in Hndy'. rewrite <- Hc0x. eapply nodup_mid_notin; [exact Hndy' | exact Hc]. }
  assert (Hl2x : forall c, In c l2 -> tid c <> x).
  { intros c Hc E. pose proof (top_not_processed) as _. 
    assert (Hnd2 : NoDup (map tid (processed gh y))) by (unfold D1.processed; rewrite <- (firstn_skipn (cnt gh y) (nonback gh y)) in Hndy'; rewrite map_app in Hndy'; eapply NoDup_app_l; exact Hndy').
    rewrite Hsplit, map_app in Hnd2. cbn [map] in Hnd2. apply NoDup_remove_2 in Hnd2. apply Hnd2. apply in_or_app. right.
    rewrite Hc0x, <- E. apply in_map. exact Hc. }
  assert (Hpre_noph : forall e, In e (back_edges gh y ++ e1) -> ~ is_ph e r).
  { intros e He [rid1 [sid1 Het]]. apply in_app_or in He as [He|He].
    - unfold D2.back_edges in He. destruct (par gh y); [|contradiction]. destruct (find_to _ _); [|contradiction].
      destruct He as [<-|[]]. cbn [mk_edge etgt] in Het. discriminate.
    - destruct (Forall2_in_r _ _ _ _ F1 He) as [c [Hc Hokc]]. unfold D2.edge_ok in Hokc.
      assert (Hcase : lookup (borrowed (wpool s)) (y, tid c) = Some r).
      { destruct (par gh (tid c)) as [qq|]; [destruct (Nat.eqb qq y); [subst e; cbn [mk_edge etgt] in Het; discriminate|]|];
        (destruct (lookup (borrowed (wpool s)) (y, tid c)) as [r1|]; [destruct Hokc as [_ [rr Hrr]]; rewrite Hrr in Het; inversion Het; subst; reflexivity | subst e; cbn [mk_edge etgt] in Het; discriminate]). }
      destruct (lookup_entry _ _ _ Hcase) as [q1 [Hq1 Hq1e]].
      pose proof (nums_entry_unique _ _ _ _ Hnd Hq1 Hent) as ->.
      apply pair_eqb_true in Hq1e. cbn [fst snd] in Hq1e. destruct Hq1e as [[_ E]|[E1 E2]]; [exact (Hl1x c Hc (eq_sym E)) | apply Hyx; symmetry; exact E2]. }
  (* the two ends carry mutually reversed kinds *)
  destruct (wf_sym x bd Hxn Hb) as [b2' [Hfb Hkb]]. fold y in Hfb.
  assert (Hc0b : In c0 (bonds_of y)) by (eapply nonback_sub; eapply processed_sub; exact Hc0).
  pose proof (find_to_unique _ _ _ _ (wf_nodup y Hyn) Hfb Hc0b Hc0x) as Ec0. subst b2'.
  (* the builder step *)
  set (e0' := mk_edge (bk c0) (phi gh x)).
  set (ndy' := {| nkind := nkind ndy; edges := (back_edges gh y ++ e1) ++ e0' :: e2 |}).
  set (g1 := set_nth (graph b) (phi gh y) ndy').
  assert (Hlen_y : phi gh y < length (graph b)) by (apply nth_error_Some; congruence).
  assert (Hg1x : nth_error g1 (phi gh x) = Some ndx).
  { unfold g1. rewrite set_nth_nth_error. destruct (Nat.eqb_spec (phi gh y) (phi gh x)) as [E|_]; [exfalso; apply Hphi; symmetry; exact E | exact Hndx]. }
  assert (Hg1y : nth_error g1 (phi gh y) = Some ndy') by (unfold g1; apply nth_error_set_nth_same; exact Hlen_y).
  assert (Hg1z : forall j, j <> phi gh y -> nth_error g1 j = nth_error (graph b) j).
  { intros j Hj. unfold g1. apply nth_error_set_nth_other. intros E. apply Hj. symmetry. exact E. }
  exists {| bstack := bstack b1; graph := add_edge g1 (phi gh x) (mk_edge (bk bd) (phi gh y));
            opens := oremove (opens b1) r; errors := errors b1; rid := S (rid b1) |}.
  (* the source is not bonded to the opener yet: no self bond, and no edge of x targets y (its back edge goes to its
     parent, which is not y; its other edges are the images of its processed bonds, none of which goes to y) *)
  assert (Hbonded : Nat.eqb (phi gh x) (phi gh y) || targets_id (edges ndx) (phi gh y) = false).
  { apply orb_false_iff. split; [apply Nat.eqb_neq; exact Hphi|].
    unfold targets_id. destruct (existsb _ (edges ndx)) eqn:Eex; [|reflexivity]. exfalso.
    apply existsb_exists in Eex as [e [He Hte]]. rewrite Hex in He. apply in_app_or in He as [He|He].
    - unfold D2.back_edges in He. destruct (par gh x) as [q|] eqn:Epx; [|contradiction].
      destruct (ws_par g gh s W x q Epx) as [_ [Hqo _]].
      destruct (find_to q (bonds_of x)); [|contradiction]. destruct He as [<-|[]]. cbn [mk_edge etgt] in Hte.
      apply Nat.eqb_eq in Hte. apply Hparx. f_equal. eapply phi_inj; eauto.
    - destruct (Forall2_in_r _ _ _ _ Hfx He) as [c [Hc Hokc]].
      assert (Hcase : e = mk_edge (bk c) (phi gh (tid c))).
      { unfold D2.edge_ok in Hokc.
        destruct (par gh (tid c)) as [qq|]; [destruct (Nat.eqb qq x); [exact Hokc|]|];
        (destruct (lookup (borrowed (wpool s)) (x, tid c)); [destruct Hokc as [_ [rr Hrr]]; rewrite Hrr in Hte; discriminate | exact Hokc]). }
      subst e. cbn [mk_edge etgt] in Hte. apply Nat.eqb_eq in Hte.
      apply (top_not_processed gh x bd Hxn Epend c Hc). fold y. eapply phi_inj; [apply (ws_proc g gh s W x c Hxo Hc) | exact Hyo | exact Hte]. }
  split.
  { cbn [bstep]. rewrite Hop, (bs_opens g gh s b B). rewrite (olookup_entry (phi gh) _ (y, x) r Hnd Hent). cbn [fst].
    rewrite Hst, Hgr, Hndx, Hndy. cbv zeta. rewrite Hbonded. rewrite Hey, Hesy, app_assoc.
    destruct (ph_split (back_edges gh y ++ e1) e0 e2 r (fun _ => {| ek := reverse (bk bd); etgt := TId (phi gh x) |}) Hpre_noph) as [Hfind Hrepl];
      [exists rid0, (phi gh y); exact Het0|].
    rewrite Hfind, Hek0, Hkb, reconcile_wf, Hrepl.
    fold g1. unfold g1 at 1. fold ndy'. 
    replace {| nkind := nkind ndy; edges := (back_edges gh y ++ e1) ++ {| ek := reverse (bk bd); etgt := TId (phi gh x) |} :: e2 |} with ndy'
      by (unfold ndy', e0', mk_edge; rewrite Hkb; reflexivity).
    fold g1. reflexivity. }
  (* processed lists *)
  assert (Hproc : processed (gh_join gh x) x = processed gh x ++ [bd]).
  { unfold D1.processed. change (nonback (gh_join gh x) x) with (nonback gh x). cbn [gh_join cnt]. rewrite upd_same.
    unfold D1.pending in Epend. apply skipn_S_firstn. exact Epend. }
  assert (Hprocz : forall z, z <> x -> processed (gh_join gh x) z = processed gh z).
  { intros z Hz. unfold D1.processed. change (nonback (gh_join gh x) z) with (nonback gh z). cbn [gh_join cnt]. rewrite upd_other by exact Hz. reflexivity. }
  (* lookups after the removal *)
  assert (Hlk_other : forall u w, pair_eqb (x, y) (u, w) = false -> lookup (borrowed p') (u, w) = lookup (borrowed (wpool s)) (u, w))
    by (intros u w E; rewrite Hb'; apply lookup_remove_other; exact E).
  assert (Hlk_xy : lookup (borrowed p') (x, y) = None) by (rewrite Hb'; apply lookup_remove_same; exact Hpd).
  assert (Hlk_yx : lookup (borrowed p') (y, x) = None) by (rewrite lookup_sym; exact Hlk_xy).
  assert (Hpe : forall u w, pair_eqb (x, y) (u, w) = true -> (u = x /\ w = y) \/ (u = y /\ w = x)).
  { intros u w E. apply pair_eqb_true in E. cbn [fst snd] in E. destruct E as [[-> ->]|[-> ->]]; [left|right]; split; reflexivity. }
  assert (Hstable : forall u c e, In u (order gh) -> In c (processed gh u) -> ~ (u = y /\ tid c = x) ->
                    edge_ok gh (wpool s) u c e -> edge_ok (gh_join gh x) p' u c e).
  { intros u c e Hu Hc Hne Hok. apply (edge_ok_same gh (wpool s) p' u c e x); [|exact Hok].
    apply Hlk_other. destruct (pair_eqb (x, y) (u, tid c)) eqn:E; [|reflexivity]. exfalso.
    destruct (Hpe _ _ E) as [[-> Et]|[-> Et]]; [exact (top_not_processed gh x bd Hxn Epend c Hc Et) | apply Hne; split; [reflexivity|exact Et]]. }
  constructor; cbn [join_state chain wpool].
  - cbn [graph]. rewrite add_edge_length. unfold g1. rewrite set_nth_length. apply (bs_len g gh s b B).
  - exists tail. cbn [bstack]. rewrite Hst. reflexivity.
  - intros z Hz. cbn [graph]. destruct (Nat.eq_dec z x) as [->|Hzx]; [|destruct (Nat.eq_dec z y) as [->|Hzy]].
    + (* x: gains the closing edge *)
      eexists. split; [apply add_edge_same; exact Hg1x|]. split; [exact Hkx|].
      exists (esx ++ [mk_edge (bk bd) (phi gh y)]). cbn [edges]. split; [rewrite Hex, <- app_assoc; reflexivity|].
      rewrite Hproc. apply Forall2_app_one.
      * eapply Forall2_impl_in; [|exact Hfx]. intros c e Hc Hok. apply Hstable; auto. intros [E _]. apply Hyx. symmetry. exact E.
      * unfold D2.edge_ok. cbn [gh_join par]. fold y. rewrite Hlk_xy.
        destruct (par gh y) as [qq|] eqn:Epar; [|reflexivity].
        destruct (Nat.eqb_spec qq x) as [->|_]; [exfalso; apply Hnochild; reflexivity | reflexivity].
    + (* y: its placeholder became a real edge *)
      exists ndy'. split; [rewrite add_edge_other by exact Hphi; exact Hg1y|]. split; [exact Hky|].
      exists (e1 ++ e0' :: e2). cbn [ndy' edges]. split; [rewrite <- app_assoc; reflexivity|].
      rewrite Hprocz by (intros E; apply Hyx; exact E). rewrite Hsplit.
      apply Forall2_app; [|constructor].
      * eapply Forall2_impl_in; [|exact F1]. intros c e Hc Hok. apply Hstable; auto.
        -- rewrite Hsplit. apply in_or_app. left. exact Hc.
        -- intros [_ E]. exact (Hl1x c Hc E).
      * unfold D2.edge_ok. cbn [gh_join par]. rewrite Hc0x, Hlk_yx.
        destruct (par gh x) as [qq|] eqn:Epar; [|reflexivity].
        destruct (Nat.eqb_spec qq y) as [->|_]; [exfalso; apply Hparx; reflexivity | reflexivity].
      * eapply Forall2_impl_in; [|exact F2]. intros c e Hc Hok. apply Hstable; auto.
        -- rewrite Hsplit. apply in_or_app. right. right. exact Hc.
        -- intros [_ E]. exact (Hl2x c Hc E).
    + destruct (bs_nodes g gh s b B z Hz) as [ndz [Hndz [Hkz [esz [Hez Hfz]]]]].
      exists ndz. split.
      * rewrite add_edge_other by (intros E; apply Hzx; symmetry; eapply phi_inj; eauto).
        rewrite Hg1z by (intros E; apply Hzy; eapply phi_inj; eauto). exact Hndz.
      * split; [exact Hkz|]. exists esz. split; [exact Hez|]. rewrite Hprocz by exact Hzx.
        eapply Forall2_impl_in; [|exact Hfz]. intros c e Hc Hok. apply Hstable; auto. intros [E _]. exact (Hzy E).
  - cbn [opens]. rewrite Hop, (bs_opens g gh s b B), Hb'. apply oremove_mirror; assumption.
  - cbn [errors]. rewrite Her. apply (bs_err g gh s b B).
  - exact Hp'.
  - rewrite Hb'. apply pairs_distinct_remove. exact Hpd.
  - intros u v r0 Hent'. rewrite Hb' in Hent'. pose proof (remove_sub _ _ _ Hent') as Hold.
    destruct (bs_open g gh s b B u v r0 Hold) as [Hu [Hv [[c [Hc Hcv]] [Hnc Hnpar]]]].
    split; [exact Hu|]. split; [exact Hv|]. split; [|split; [|exact Hnpar]].
    + exists c. split; [|exact Hcv]. destruct (Nat.eq_dec u x) as [->|Hux]; [rewrite Hproc; apply in_or_app; left; exact Hc | rewrite Hprocz by exact Hux; exact Hc].
    + intros [c' [Hc' Hcu]]. destruct (Nat.eq_dec v x) as [->|Hvx].
      * rewrite Hproc in Hc'. apply in_app_or in Hc' as [Hc'|[<-|[]]]; [apply Hnc; exists c'; split; assumption|].
        fold y in Hcu. subst u.
        (* ((y, x), r0) would still be open after removing the {x,y} entry *)
        assert (Hne : lookup (remove (borrowed (wpool s)) (x, y)) (x, y) <> None)
          by (eapply in_lookup; [exact Hent' | apply pair_eqb_true; right; split; reflexivity]).
        apply Hne. apply lookup_remove_same. exact Hpd.
      * rewrite Hprocz in Hc' by exact Hvx. apply Hnc. exists c'. split; assumption.
  - intros u c Hu Hc Hnt Hlu.
    assert (Hmono : forall w c', In c' (processed gh w) -> In c' (processed (gh_join gh x) w)).
    { intros w c' Hc'. destruct (Nat.eq_dec w x) as [->|Hwx]; [rewrite Hproc; apply in_or_app; left; exact Hc' | rewrite Hprocz by exact Hwx; exact Hc']. }
    destruct (Nat.eq_dec u x) as [->|Hux].
    + rewrite Hproc in Hc. apply in_app_or in Hc as [Hc|[<-|[]]].
      * assert (E : pair_eqb (x, y) (x, tid c) = false).
        { destruct (pair_eqb (x, y) (x, tid c)) eqn:E; [|reflexivity]. exfalso. destruct (Hpe _ _ E) as [[_ Et]|[Ex _]]; [exact (top_not_processed gh x bd Hxn Epend c Hc Et) | apply Hyx; symmetry; exact Ex]. }
        rewrite (Hlk_other _ _ E) in Hlu. destruct (bs_closed g gh s b B x c Hxo Hc Hnt Hlu) as [c' [Hc' Ht']].
        exists c'. split; [apply Hmono; exact Hc' | exact Ht'].
      * exists c0. fold y. split; [apply Hmono; exact Hc0 | exact Hc0x].
    + rewrite Hprocz in Hc by exact Hux.
      destruct (pair_eqb (x, y) (u, tid c)) eqn:E.
      * destruct (Hpe _ _ E) as [[Eu _]|[-> Et]]; [contradiction|].
        exists bd. split; [rewrite Et, Hproc; apply in_or_app; right; left; reflexivity | reflexivity].
      * rewrite (Hlk_other _ _ E) in Hlu. destruct (bs_closed g gh s b B u c Hu Hc Hnt Hlu) as [c' [Hc' Ht']].
        exists c'. split; [apply Hmono; exact Hc' | exact Ht'].
Qed.

(* ---------- visiting a new atom ---------- *)
Definition extend_state (s : wstate) x bd rest post (pre : list nat) : wstate :=
  {| rem := set_nth (rem s) (tid bd) None;
     stk := map (pair (tid bd)) (remove_first_to x (bonds_of (tid bd))) ++ rest;
     chain := tid bd :: x :: post; wpool := wpool s;
     evs := EExtend (bk bd) (walk_kind x (tid bd)) :: popped s pre |}.

Lemma phi_extend_old gh x y z : In z (order gh) -> phi (gh_extend gh x y) z = phi gh z.
Proof. intros H. unfold phi. cbn [gh_extend order]. apply index_of_app_in. exact H. Qed.
Lemma phi_extend_new gh x y : ~ In y (order gh) -> phi (gh_extend gh x y) y = length (order gh).
Proof. intros H. unfold phi. cbn [gh_extend order]. apply index_of_app_new. exact H. Qed.

Lemma edge_ok_extend gh p u c e x y : ~ In y (order gh) -> In u (order gh) -> In (tid c) (order gh) ->
  edge_ok gh p u c e -> edge_ok (gh_extend gh x y) p u c e.
Proof.
  intros Hy Hu Hc. unfold D2.edge_ok. cbn [gh_extend par].
  assert (Hne : tid c <> y) by (intros E; apply Hy; rewrite <- E; exact Hc).
  rewrite upd_other by exact Hne. rewrite !phi_extend_old by assumption. auto.
Qed.

Lemma sim_extend gh s b x bd rest pre post b' b1 tail :
  wsim gh s -> bsim gh s b -> top_facts gh s x bd rest pre post -> ~ In (tid bd) (order gh) ->
  find_to x (bonds_of (tid bd)) = Some b' -> bk b' = reverse (bk bd) ->
  bstack b1 = phi gh x :: map (phi gh) post ++ tail -> graph b1 = graph b -> opens b1 = opens b -> errors b1 = errors b ->
  exists b2, bstep b1 (EExtend (bk bd) (walk_kind x (tid bd))) = Some b2 /\
             bsim (gh_extend gh x (tid bd)) (extend_state s x bd rest post pre) b2.
Proof.
  intros W B T Hnin Hfb Hkb Hst Hgr Hop Her.
  pose proof T as [Es [Ech [Epre [Epend [Erest [Hnp [Hb [Hxn [Hy [Hyx Hxo]]]]]]]]]].
  set (y := tid bd) in *. set (gh' := gh_extend gh x y).
  destruct (ws_fresh g gh s W y Hnin) as [Hcy Hpy].
  destruct (bs_nodes g gh s b B x Hxo) as [ndx [Hndx [Hkx [esx [Hex Hfx]]]]].
  pose proof (bs_len g gh s b B) as Hlen.
  assert (Hxy : x <> y) by (intros E; apply Hnin; rewrite <- E; exact Hxo).
  assert (Hphix : phi gh x < length (graph b)) by (rewrite Hlen; apply index_of_lt; exact Hxo).
  set (newnode := {| nkind := inv (walk_kind x y); edges := [mk_edge (reverse (bk bd)) (phi gh x)] |}).
  exists {| bstack := length (graph b) :: bstack b1;
            graph := add_edge (graph b ++ [newnode]) (phi gh x) (mk_edge (bk bd) (length (graph b)));
            opens := opens b1; errors := errors b1; rid := rid b1 |}.
  split.
  { rewrite (bstep_extend b1 (phi gh x) (map (phi gh) post ++ tail) (bk bd) (walk_kind x y) ndx Hst); [|apply wadj_safe; apply safe_kinds|rewrite Hgr; exact Hndx].
    rewrite Hgr. reflexivity. }
  assert (Hkf : forall z, z <> y -> kind_final gh' z = kind_final gh z).
  { intros z Hz. unfold D2.kind_final. cbn [gh' gh_extend par]. rewrite upd_other by exact Hz. reflexivity. }
  (* ghost facts *)
  assert (Hparz : forall z, z <> y -> par gh' z = par gh z) by (intros z Hz; cbn [gh' gh_extend par]; rewrite upd_other by exact Hz; reflexivity).
  assert (Hnb : forall z, z <> y -> nonback gh' z = nonback gh z) by (intros z Hz; unfold D1.nonback; rewrite Hparz by exact Hz; reflexivity).
  assert (Hcz : forall z, z <> x -> cnt gh' z = cnt gh z) by (intros z Hz; cbn [gh' gh_extend cnt]; rewrite upd_other by exact Hz; reflexivity).
  assert (Hcx : cnt gh' x = S (cnt gh x)) by (cbn [gh' gh_extend cnt]; rewrite upd_same; reflexivity).
  assert (Hprocx : processed gh' x = processed gh x ++ [bd]).
  { unfold D1.processed. rewrite Hcx, Hnb by exact Hxy. unfold D1.pending in Epend. apply skipn_S_firstn. exact Epend. }
  assert (Hprocy : processed gh' y = []) by (unfold D1.processed; rewrite Hcz by (intros E; apply Hxy; symmetry; exact E); rewrite Hcy; reflexivity).
  assert (Hprocz : forall z, z <> x -> z <> y -> processed gh' z = processed gh z)
    by (intros z Hz1 Hz2; unfold D1.processed; rewrite Hcz, Hnb by assumption; reflexivity).
  assert (Hord : forall z, In z (order gh') <-> In z (order gh) \/ z = y).
  { intros z. cbn [gh' gh_extend order]. rewrite in_app_iff. simpl. intuition. }
  assert (Hphio : forall z, In z (order gh) -> phi gh' z = phi gh z) by (intros z Hz; apply phi_extend_old; exact Hz).
  assert (Hphiy : phi gh' y = length (graph b)) by (rewrite Hlen; apply phi_extend_new; exact Hnin).
  assert (Hback : forall z, In z (order gh) -> back_edges gh' z = back_edges gh z).
  { intros z Hz. unfold D2.back_edges. assert (Hzy : z <> y) by (intros E; apply Hnin; rewrite <- E; exact Hz).
    rewrite Hparz by exact Hzy. destruct (par gh z) as [q|] eqn:Epz; [|reflexivity].
    destruct (ws_par g gh s W z q Epz) as [_ [Hq _]]. rewrite (Hphio q Hq). reflexivity. }
  assert (Hmono : forall w c', In w (order gh) -> In c' (processed gh w) -> In c' (processed gh' w)).
  { intros w c' Hw Hc'. assert (Hwy : w <> y) by (intros E; apply Hnin; rewrite <- E; exact Hw).
    destruct (Nat.eq_dec w x) as [->|Hwx]; [rewrite Hprocx; apply in_or_app; left; exact Hc' | rewrite Hprocz by assumption; exact Hc']. }
  assert (Hstable : forall u c e, In u (order gh) -> In c (processed gh u) -> edge_ok gh (wpool s) u c e -> edge_ok gh' (wpool s) u c e).
  { intros u c e Hu Hc Hok. apply edge_ok_extend; auto. apply (ws_proc g gh s W u c Hu Hc). }
  constructor; cbn [extend_state chain wpool].
  - cbn [graph]. rewrite add_edge_length, app_length. cbn [length gh' gh_extend order]. rewrite app_length. cbn [length]. lia.
  - exists tail. cbn [bstack map]. fold y. rewrite Hst, Hphiy, (Hphio x Hxo). cbn [app]. f_equal. f_equal. f_equal.
    apply map_ext_in. intros z Hz. symmetry. apply Hphio. apply (ws_chain g gh s W). rewrite Ech. apply in_or_app. right. right. exact Hz.
  - intros z Hz. cbn [graph]. apply Hord in Hz as [Hz|Hz].
    + assert (Hzy : z <> y) by (intros E; apply Hnin; rewrite <- E; exact Hz).
      rewrite (Hphio z Hz). destruct (Nat.eq_dec z x) as [->|Hzx].
      * eexists. split; [apply add_edge_same; rewrite nth_error_app1 by exact Hphix; exact Hndx|]. split; [cbn [nkind]; rewrite Hkf by exact Hxy; exact Hkx|].
        exists (esx ++ [mk_edge (bk bd) (length (graph b))]). cbn [edges]. split; [rewrite Hback by exact Hxo; rewrite Hex, <- app_assoc; reflexivity|].
        rewrite Hprocx. apply Forall2_app_one.
        -- eapply Forall2_impl_in; [|exact Hfx]. intros c e Hc Hok. apply Hstable; assumption.
        -- unfold D2.edge_ok. fold y. cbn [gh' gh_extend par]. rewrite upd_same, Nat.eqb_refl. fold gh'. rewrite Hphiy. reflexivity.
      * destruct (bs_nodes g gh s b B z Hz) as [ndz [Hndz [Hkz [esz [Hez Hfz]]]]].
        assert (Hphiz : phi gh z < length (graph b)) by (rewrite Hlen; apply index_of_lt; exact Hz).
        exists ndz. split.
        -- rewrite add_edge_other by (intros E; apply Hzx; symmetry; eapply phi_inj; eauto). rewrite nth_error_app1 by exact Hphiz. exact Hndz.
        -- split; [rewrite Hkf by exact Hzy; exact Hkz|]. exists esz. split; [rewrite Hback by exact Hz; exact Hez|]. rewrite Hprocz by assumption.
           eapply Forall2_impl_in; [|exact Hfz]. intros c e Hc Hok. apply Hstable; assumption.
    + subst z. rewrite Hphiy. exists newnode. split.
      * rewrite add_edge_other by lia. apply nth_error_app_new.
      * split; [unfold D2.kind_final; cbn [gh' gh_extend par newnode nkind]; rewrite upd_same; reflexivity|]. exists []. split; [|rewrite Hprocy; constructor].
        unfold D2.back_edges. cbn [gh' gh_extend par]. rewrite upd_same. fold y. rewrite Hfb. fold gh'. rewrite (Hphio x Hxo), Hkb, app_nil_r. reflexivity.
  - cbn [opens]. rewrite Hop, (bs_opens g gh s b B). unfold mirror. apply map_ext_in. intros [[u v] r0] Hent. cbn [fst snd].
    destruct (bs_open g gh s b B u v r0 Hent) as [Hu _]. rewrite (Hphio u Hu). reflexivity.
  - cbn [errors]. rewrite Her. apply (bs_err g gh s b B).
  - apply (bs_pinv g gh s b B).
  - apply (bs_pairs g gh s b B).
  - intros u v r0 Hent. destruct (bs_open g gh s b B u v r0 Hent) as [Hu [Hv [[c [Hc Hcv]] [Hnc Hnpar]]]].
    assert (Hvy : v <> y) by (intros E; apply Hnin; rewrite <- E; exact Hv).
    split; [apply Hord; left; exact Hu|]. split; [apply Hord; left; exact Hv|]. split; [|split; [|rewrite Hparz by exact Hvy; exact Hnpar]].
    + exists c. split; [apply Hmono; assumption | exact Hcv].
    + intros [c' [Hc' Hcu]].
      destruct (Nat.eq_dec v x) as [->|Hvx].
      * rewrite Hprocx in Hc'. apply in_app_or in Hc' as [Hc'|[<-|[]]]; [apply Hnc; exists c'; split; assumption|].
        fold y in Hcu. apply Hnin. rewrite Hcu. exact Hu.
      * rewrite Hprocz in Hc' by assumption. apply Hnc. exists c'. split; assumption.
  - intros u c Hu Hc Hnt Hlu. apply Hord in Hu as [Hu|Hu].
    + assert (Huy : u <> y) by (intros E; apply Hnin; rewrite <- E; exact Hu).
      destruct (Nat.eq_dec u x) as [->|Hux].
      * rewrite Hprocx in Hc. apply in_app_or in Hc as [Hc|[<-|[]]].
        -- assert (Htc : In (tid c) (order gh)) by (apply (ws_proc g gh s W x c Hxo Hc)).
           assert (Hnt' : ~ tree_child gh x c).
           { unfold tree_child in *. intros E. apply Hnt. rewrite Hparz; [exact E|]. intros E'. apply Hnin. rewrite <- E'. exact Htc. }
           destruct (bs_closed g gh s b B x c Hxo Hc Hnt' Hlu) as [c' [Hc' Ht']]. exists c'. split; [apply Hmono; assumption | exact Ht'].
        -- exfalso. apply Hnt. unfold tree_child. fold y. cbn [gh' gh_extend par]. rewrite upd_same. reflexivity.
      * rewrite Hprocz in Hc by assumption.
        assert (Htc : In (tid c) (order gh)) by (apply (ws_proc g gh s W u c Hu Hc)).
        assert (Hnt' : ~ tree_child gh u c).
        { unfold tree_child in *. intros E. apply Hnt. rewrite Hparz; [exact E|]. intros E'. apply Hnin. rewrite <- E'. exact Htc. }
        destruct (bs_closed g gh s b B u c Hu Hc Hnt' Hlu) as [c' [Hc' Ht']]. exists c'. split; [apply Hmono; assumption | exact Ht'].
    + subst u. rewrite Hprocy in Hc. contradiction.
Qed.
End D4.
