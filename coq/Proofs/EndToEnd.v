(* End-to-end corollaries: the theorems of the individual properties composed along the pipeline
     string --rd--> events --bld--> graph --walk--> events --wr--> string.
   1. every event the reader emits carries values in range (every string, accepted or not);
   2. every accepted string has a normal form: the text the writer prints for its events is accepted, replays the
      same events up to the documented shorthands, and is reproduced character for character when written again;
   3. for every accepted string whose events build a graph: the graph is a well-formed simple graph with values in
      range; the traversal either stops at the documented limit of 100 simultaneously open ring closures or succeeds,
      and then its text is accepted, replays the traversal's events, rebuilds to the specification's expected
      round-trip graph (Spec/Roundtrip.v), and that graph is traversed and written to the very same text. *)
From Coq Require Import List NArith Lia Bool Arith Permutation.
Import ListNotations.
Require Import P.Generated.Enums P.Spec.Values P.Spec.Normal P.Spec.Events P.Spec.Graph P.Spec.Roundtrip
  P.Model.Base P.Model.Reader P.Model.Writer P.Model.Walk P.Model.Builder
  P.Proofs.WalkInv P.Proofs.ReaderConf P.Proofs.TokenFacts P.Proofs.BodyFacts P.Proofs.C09_Writer P.Proofs.C09_Final
  P.Proofs.C12_Final P.Proofs.BuilderWf P.Proofs.BuilderMore P.Proofs.WalkValues P.Proofs.C01_Text P.Proofs.C02_Final
  P.Proofs.D1 P.Proofs.DfsOrderClosed P.Proofs.C01 P.Proofs.WalkEquiv P.Proofs.ReaderValues.
Strategy opaque [P.Generated.Trees.tree_symbol P.Generated.Trees.tree_organic P.Generated.Trees.tree_configuration
  P.Generated.Trees.tree_charge P.Generated.Trees.tree_bond P.Generated.Trees.tree_rnum P.Generated.Trees.tree_hcount
  P.Generated.Trees.tree_isotope P.Generated.Trees.tree_map].
Local Notation length := List.length.

(* ================= 1. reader events are in range ================= *)
Theorem reader_events_in_range_all : forall s, Forall okev (snd (rd s)).
Proof. exact reader_values_in_range. Qed.
Theorem reader_events_in_range : forall s h v, rd s = (v, h) -> Forall okev h.
Proof. intros s h v H. pose proof (reader_values_in_range s) as Hv. rewrite H in Hv. exact Hv. Qed.

(* ================= 2. every accepted string has a normal form ================= *)
Theorem accepted_text_normalises : forall s h, rd s = (VOk, h) ->
  exists t, wr h = Some t /\ rd t = (VOk, map nkev h) /\ wr (map nkev h) = Some t.
Proof.
  intros s h Hrd.
  pose proof (accepted_has_root s h Hrd) as Hc.
  pose proof (reader_events_in_range s h VOk Hrd) as Hv.
  destruct (C09_inverse h Hc Hv) as [t [Hw Hr]].
  exists t. split; [exact Hw|]. split; [exact Hr|]. rewrite wr_nk. exact Hw.
Qed.
(* ... and the normal form is itself normal: normalising twice is normalising once *)
Lemma nk_cfg_idem c : nk_cfg (nk_cfg c) = nk_cfg c.
Proof.
  assert (H : forallb (fun c => opt_eqb configuration_eqb (nk_cfg (nk_cfg c)) (nk_cfg c)) (all_option all_configuration) = true) by (vm_compute; reflexivity).
  rewrite forallb_forall in H. apply (opt_eqb_eq _ configuration_eqb_eq). apply H. apply all_option_complete. exact all_configuration_complete.
Qed.
Lemma nk_h_idem c : nk_h (nk_h c) = nk_h c.
Proof.
  assert (H : forallb (fun c => opt_eqb virtual_hydrogen_eqb (nk_h (nk_h c)) (nk_h c)) (all_option all_virtual_hydrogen) = true) by (vm_compute; reflexivity).
  rewrite forallb_forall in H. apply (opt_eqb_eq _ virtual_hydrogen_eqb_eq). apply H. apply all_option_complete. exact all_virtual_hydrogen_complete.
Qed.
Lemma nkev_idem e : nkev (nkev e) = nkev e.
Proof. destruct e as [k|b k| |]; cbn [nkev]; try reflexivity; destruct k; cbn [nk_kind]; rewrite ?nk_cfg_idem, ?nk_h_idem; reflexivity. Qed.
Theorem normal_form_is_stable : forall s h, rd s = (VOk, h) ->
  exists t, wr h = Some t /\ rd t = (VOk, map nkev h) /\
    (* reading and writing the normal form again changes nothing any more *)
    forall h', rd t = (VOk, h') -> wr h' = Some t /\ map nkev h' = h'.
Proof.
  intros s h Hrd. destruct (accepted_text_normalises s h Hrd) as [t [Hw [Hr Hw2]]].
  exists t. split; [exact Hw|]. split; [exact Hr|]. intros h' Hr'. rewrite Hr in Hr'. inversion Hr' as [E]. split; [exact Hw2|].
  rewrite map_map. apply map_ext. intros e. apply nkev_idem.
Qed.

(* ================= 3. the whole pipeline ================= *)
(* the builder stores the kinds it is given (a root's kind as is, an extension's kind after the documented
   tetrahedral flip, which does not touch the numbers) *)
Definition nodes_ok (ns : list node) : Prop := Forall (fun nd => okk (nkind nd)) ns.
Lemma Forall_set_nth {A} (P : A -> Prop) : forall (l : list A) i x, Forall P l -> P x -> Forall P (set_nth l i x).
Proof.
  induction l as [|a l IH]; intros i x Hl Hx; cbn [set_nth]; [constructor|].
  inversion Hl as [|? ? Ha Ht]; subst. destruct i as [|i]; constructor; try assumption. apply IH; assumption.
Qed.
Lemma nodes_ok_nth ns i nd : nodes_ok ns -> nth_error ns i = Some nd -> okk (nkind nd).
Proof. intros H E. unfold nodes_ok in H. rewrite Forall_forall in H. apply H. eapply nth_error_In. exact E. Qed.
Lemma nodes_ok_add_edge ns i e : nodes_ok ns -> nodes_ok (add_edge ns i e).
Proof.
  intros H. unfold add_edge. destruct (nth_error ns i) as [nd|] eqn:E; [|exact H].
  apply Forall_set_nth; [exact H|]. cbn [nkind]. exact (nodes_ok_nth ns i nd H E).
Qed.
Lemma nodes_ok_snoc ns nd : nodes_ok ns -> okk (nkind nd) -> nodes_ok (ns ++ [nd]).
Proof. intros H Hk. apply Forall_app. split; [exact H | constructor; [exact Hk | constructor]]. Qed.

Lemma bstep_nodes_ok s e s' : nodes_ok (graph s) -> okev e -> bstep s e = Some s' -> nodes_ok (graph s').
Proof.
  intros Hs He H. destruct e as [k|b k|b r|d]; cbn [bstep okev] in *.
  - inversion H; subst s'. cbn [graph]. apply nodes_ok_snoc; [exact Hs | exact He].
  - destruct (bstack s) as [|sid st]; [discriminate|]. destruct (invert k) as [k'|] eqn:Ek; [|discriminate].
    destruct (nth_error (graph s) sid) as [nd|]; [|discriminate]. inversion H; subst s'. cbn [graph].
    apply nodes_ok_add_edge. apply nodes_ok_snoc; [exact Hs|]. cbn [nkind]. exact (okk_invert k k' He Ek).
  - destruct (olookup (opens s) r) as [t|].
    + destruct (bstack s) as [|sid st]; [discriminate|].
      destruct (nth_error (graph s) sid) as [snd_|]; [|discriminate]. destruct (nth_error (graph s) t) as [nd|] eqn:En; [|discriminate].
      destruct (find_ph (edges nd) r) as [ph|]; [|discriminate].
      destruct (Nat.eqb sid t || targets_id (edges snd_) t).
      * inversion H; subst s'. exact Hs.
      * destruct (reconcile (ek ph) b) as [[l rt]|]; [|inversion H; subst s'; exact Hs].
        destruct (replace_ph (edges nd) r _) as [es'|]; [|discriminate]. inversion H; subst s'. cbn [graph].
        apply nodes_ok_add_edge. apply Forall_set_nth; [exact Hs|]. cbn [nkind]. exact (nodes_ok_nth _ _ _ Hs En).
    + destruct (bstack s) as [|sid st]; [discriminate|]. destruct (nth_error (graph s) sid) as [nd|]; [|discriminate].
      inversion H; subst s'. cbn [graph]. apply nodes_ok_add_edge. exact Hs.
  - inversion H; subst s'. exact Hs.
Qed.
Lemma bfold_nodes_ok : forall h s s', nodes_ok (graph s) -> Forall okev h -> bfold s h = Some s' -> nodes_ok (graph s').
Proof.
  induction h as [|e t IH]; intros s s' Hs Hh H; cbn [bfold] in H; [inversion H; subst; exact Hs|].
  inversion Hh as [|? ? He Ht]; subst. destruct (bstep s e) as [s1|] eqn:E1; [|discriminate].
  apply (IH s1 s'); [exact (bstep_nodes_ok s e s1 Hs He E1) | exact Ht | exact H].
Qed.
(* every history, conformant or not *)
Theorem built_graph_in_range : forall h g, Forall okev h -> bld h = BOk g -> okg g.
Proof.
  intros h g Hh H. unfold bld in H. destruct (bfold b0 h) as [s|] eqn:Ef; [|discriminate].
  pose proof (bfold_nodes_ok h b0 s ltac:(constructor) Hh Ef) as Hn. unfold build in H. destruct (errors s); [|discriminate].
  apply conv_nodes_spec in H. subst g. intros a Hin. apply in_map_iff in Hin as [nd [<- Hin]]. cbn [atom_of akind].
  unfold nodes_ok in Hn. rewrite Forall_forall in Hn. exact (Hn nd Hin).
Qed.
Lemma built_graph_nonempty : forall h g, conformant_history h -> bld h = BOk g -> g <> [].
Proof.
  intros h g Hc Hb. pose proof (conformant_history_P h Hc) as HP. pose proof (build_ok_length h g Hb) as Hl.
  destruct h as [|[k0| | |] t]; try contradiction. cbn [filter is_new length] in Hl. intros ->. discriminate.
Qed.

(* what an accepted string's graph is: a non-empty well-formed simple graph with values in range *)
Theorem accepted_graph_is_wellformed : forall s h g, rd s = (VOk, h) -> bld h = BOk g ->
  wf g = true /\ okg g /\ g <> [] /\ length g = length (filter is_new h).
Proof.
  intros s h g Hrd Hb. pose proof (accepted_has_root s h Hrd) as Hc.
  split; [exact (build_ok_is_simple h g (proj2 Hc) Hb)|].
  split; [exact (built_graph_in_range h g (reader_events_in_range s h VOk Hrd) Hb)|].
  split; [exact (built_graph_nonempty h g Hc Hb) | exact (build_ok_length h g Hb)].
Qed.

(* the pipeline.  [g' := map nk_atom (expected_roundtrip g)] is the graph the specification expects after one
   round trip (depth-first renumbering, arrival bond first, tetrahedral marks following the parity), with the
   reading shorthands normalised. *)
Theorem pipeline : forall s h g, rd s = (VOk, h) -> bld h = BOk g -> safe_graph g ->
  fst (walk g) = WPanic 3 \/
  exists h2 t, let g' := map nk_atom (expected_roundtrip g) in
    walk g = (WOk, h2) /\                          (* the traversal succeeds, *)
    wr h2 = Some t /\                              (* its events are written, *)
    rd t = (VOk, map nkev h2) /\                   (* the text is accepted and replays them up to the shorthands, *)
    bld (map nkev h2) = BOk g' /\                  (* they build the expected round-trip graph, *)
    exists h3, walk g' = (WOk, h3) /\              (* which is traversed with the same events up to the shorthands *)
      map nkev h3 = map nkev h2 /\ wr h3 = Some t. (* and written to the very same text *)
Proof.
  intros s h g Hrd Hb Hs.
  destruct (accepted_graph_is_wellformed s h g Hrd Hb) as [Hwf [Hok [Hne _]]].
  destruct (wf_accepted g Hwf Hs) as [Hw|Hw]; [right | left; exact Hw].
  destruct (walk g) as [r h2] eqn:Ew. cbn [fst] in Hw. subst r.
  destruct (text_round_trip g h2 Hwf Hs Hok Hne Ew) as [t [Hwr [Hr Hbld]]].
  destruct (read_graph_fixed_point g h2 Hwf Hs Ew) as [h3 [Hw3 He]].
  exists h2, t. cbv zeta. split; [reflexivity|]. split; [exact Hwr|]. split; [exact Hr|]. split; [exact Hbld|].
  exists h3. split; [exact Hw3|]. split; [exact He|]. rewrite <- (wr_nk h3), He, wr_nk. exact Hwr.
Qed.

(* the same, iterated: from the second text on nothing changes any more.  For the text t of the pipeline, its own
   pipeline run ends in t again. *)
Theorem pipeline_output_is_fixed_point : forall s h g h2 t, rd s = (VOk, h) -> bld h = BOk g -> safe_graph g ->
  walk g = (WOk, h2) -> wr h2 = Some t ->
  exists hr gr h3, rd t = (VOk, hr) /\ bld hr = BOk gr /\ walk gr = (WOk, h3) /\ wr h3 = Some t.
Proof.
  intros s h g h2 t Hrd Hb Hs Hw Hwr.
  destruct (pipeline s h g Hrd Hb Hs) as [Hp|[h2' [t' Hp]]]; [rewrite Hw in Hp; discriminate|].
  cbv zeta in Hp. destruct Hp as [Hw' [Hwr' [Hr [Hbld [h3 [Hw3 [_ Hwr3]]]]]]].
  rewrite Hw in Hw'. inversion Hw' as [E]. subst h2'. rewrite Hwr in Hwr'. inversion Hwr' as [E]. subst t'.
  exists (map nkev h2), (map nk_atom (expected_roundtrip g)), h3. repeat split; assumption.
Qed.

(* the molecule survives: the expected round-trip graph is the accepted string's graph renumbered by an injective
   map, with the same constitution at every atom and the same bonds (same kinds as seen from each end) *)
Theorem pipeline_preserves_constitution : forall s h g h2, rd s = (VOk, h) -> bld h = BOk g -> safe_graph g ->
  walk g = (WOk, h2) ->
  let g' := expected_roundtrip g in
  bld h2 = BOk g' /\ length g' = length g /\
  exists phi : nat -> nat,
    (forall x y, x < length g -> y < length g -> phi x = phi y -> x = y) /\ (forall x, x < length g -> phi x < length g) /\
    forall x, x < length g -> exists a', nth_error g' (phi x) = Some a' /\
      constitution (akind a') = constitution (akind (atom_at g x)) /\
      Permutation (bonds a') (map (fun b => {| bk := bk b; tid := phi (tid b) |}) (bonds_of g x)).
Proof.
  intros s h g h2 Hrd Hb Hs Hw. cbv zeta.
  destruct (accepted_graph_is_wellformed s h g Hrd Hb) as [Hwf _].
  pose proof (C12_closed_form g h2 Hwf Hs Hw) as Hc.
  destruct (roundtrip_graph g h2 Hwf Hs Hw) as [phi [g1 [Hb1 [Hl [Hinj [Hrng Hat]]]]]].
  rewrite Hc in Hb1. inversion Hb1 as [E]. subst g1.
  split; [exact Hc|]. split; [exact Hl|]. exists phi. split; [exact Hinj|]. split; [exact Hrng | exact Hat].
Qed.

Print Assumptions reader_events_in_range.
Print Assumptions accepted_text_normalises.
Print Assumptions normal_form_is_stable.
Print Assumptions built_graph_in_range.
Print Assumptions accepted_graph_is_wellformed.
Print Assumptions pipeline.
Print Assumptions pipeline_output_is_fixed_point.
Print Assumptions pipeline_preserves_constitution.
