(* C09, writer half: the string writer is the image, under printing, of a writer over syntax; the syntax it builds
   flattens back to the history it was fed. *)
From Coq Require Import List NArith Lia Bool Arith.
Import ListNotations.
Require Import P.Generated.Enums P.Spec.Values P.Meta.Scan P.Spec.Normal P.Model.Base P.Model.Token P.Model.Reader P.Model.Writer P.Proofs.WalkInv P.Proofs.C09_Inverse.

(* ---------- the same writer over syntax ---------- *)
Inductive item := IJoin (b : bond_kind) (r : rnumN) | IBranch (l : link) (k : kind) (inner : body).
Record seg := { slink : option link; skind : kind; sitems : list item }.   (* slink = None only for the very first root *)
Definition pp_item (i : item) : list char :=
  match i with IJoin b r => pp_bond b ++ pp_rnum r | IBranch l k inner => LP :: pp_link l ++ pp_kind k ++ pp inner ++ [RP] end.
Definition pp_olink (l : option link) := match l with None => [] | Some l => pp_link l end.
Definition pp_seg (s : seg) : list char := pp_olink (slink s) ++ pp_kind (skind s) ++ concat (map pp_item (sitems s)).
Definition flat_item (i : item) : list ev :=
  match i with IJoin b r => [EJoin b r] | IBranch l k inner => ev_link l (nk_kind k) :: flat inner ++ [EPop (S (len inner))] end.
Definition ev_olink (l : option link) (k : kind) : ev := match l with None => ERoot k | Some l => ev_link l k end.
Definition flat_seg (s : seg) : list ev := ev_olink (slink s) (nk_kind (skind s)) :: concat (map flat_item (sitems s)).

Fixpoint to_body (items : list item) (tail : body) : body :=
  match items with
  | [] => tail
  | IJoin b r :: t => BJoin b r (to_body t tail)
  | IBranch l k inner :: t => BBranch l k inner (to_body t tail)
  end.
Definition the_link (s : seg) : link := match slink s with Some l => l | None => LDot end.
Fixpoint chain_body (segs : list seg) : body :=
  match segs with [] => BNil | s :: t => BNext (the_link s) (skind s) (to_body (sitems s) (chain_body t)) end.

Lemma pp_to_body items tail : pp (to_body items tail) = concat (map pp_item items) ++ pp tail.
Proof.
  induction items as [|[b r|l k inner] t IH]; cbn [to_body pp map concat pp_item app]; [reflexivity| |].
  - rewrite IH. rewrite <- ?app_assoc. reflexivity.
  - rewrite IH. rewrite <- ?app_assoc. cbn [app]. rewrite <- ?app_assoc. reflexivity.
Qed.
Lemma flat_to_body items tail : flat (to_body items tail) = concat (map flat_item items) ++ flat tail.
Proof.
  induction items as [|[b r|l k inner] t IH]; cbn [to_body flat map concat flat_item app]; [reflexivity| |].
  - rewrite IH. reflexivity.
  - rewrite IH. rewrite <- ?app_assoc. reflexivity.
Qed.
Lemma len_to_body items tail : len (to_body items tail) = len tail.
Proof. induction items as [|[b r|l k inner] t IH]; cbn [to_body len]; auto. Qed.

Definition linked (s : seg) := slink s <> None.
Lemma pp_chain segs : Forall linked segs -> pp (chain_body segs) = concat (map pp_seg segs).
Proof.
  induction 1 as [|s t Hs Ht IH]; cbn [chain_body pp map concat]; [reflexivity|].
  rewrite pp_to_body, IH. unfold pp_seg, the_link. destruct (slink s) as [l|] eqn:E; [|destruct (Hs E)].
  cbn [pp_olink]. rewrite <- ?app_assoc. reflexivity.
Qed.
Lemma flat_chain segs : Forall linked segs -> flat (chain_body segs) = concat (map flat_seg segs).
Proof.
  induction 1 as [|s t Hs Ht IH]; cbn [chain_body flat map concat]; [reflexivity|].
  rewrite flat_to_body, IH. unfold flat_seg, the_link. destruct (slink s) as [l|] eqn:E; [|destruct (Hs E)].
  cbn [ev_olink app]. reflexivity.
Qed.
Lemma len_chain segs : len (chain_body segs) = length segs.
Proof. induction segs as [|s t IH]; cbn [chain_body len length]; [reflexivity|]. rewrite len_to_body, IH. reflexivity. Qed.

Definition add_item (s : seg) (i : item) : seg := {| slink := slink s; skind := skind s; sitems := sitems s ++ [i] |}.
Definition sw_step (S : list seg) (e : ev) : option (list seg) :=
  match e with
  | ERoot k => Some (S ++ [{| slink := match S with [] => None | _ => Some (LDot) end; skind := k; sitems := [] |}])
  | EExtend b k => Some (S ++ [{| slink := Some (LBond b); skind := k; sitems := [] |}])
  | EJoin b r => match split_last S with
                 | None => None
                 | Some (init, last) => Some (init ++ [add_item last (IJoin b r)]) end
  | EPop d => if length S <=? d then None
              else let keep := firstn (length S - d) S in
                   let chain := skipn (length S - d) S in
                   match split_last keep, chain with
                   | Some (init, last), p :: prest =>
                       Some (init ++ [add_item last (IBranch (the_link p) (skind p) (to_body (sitems p) (chain_body prest)))])
                   | _, _ => None end
  end.

(* well-formed stacks: only the bottom segment lacks a link *)
Definition wfstack (S : list seg) := match S with [] => True | s :: t => slink s = None /\ Forall linked t end.

Lemma split_last_app {A} (l : list A) x : split_last (l ++ [x]) = Some (l, x).
Proof. unfold split_last. rewrite rev_app_distr. cbn [rev app]. rewrite rev_involutive. reflexivity. Qed.
Lemma split_last_spec {A} (l : list A) : match split_last l with None => l = [] | Some (i, x) => l = i ++ [x] end.
Proof.
  destruct l as [|a l] using rev_ind; [reflexivity|]. rewrite split_last_app. reflexivity.
Qed.
Lemma split_last_map {A B} (f : A -> B) (l : list A) :
  split_last (map f l) = option_map (fun p => (map f (fst p), f (snd p))) (split_last l).
Proof.
  destruct l as [|a l] using rev_ind; [reflexivity|]. rewrite map_app. cbn [map]. rewrite !split_last_app. reflexivity.
Qed.

Lemma pp_add_item s i : pp_seg (add_item s i) = pp_seg s ++ pp_item i.
Proof. unfold pp_seg, add_item. cbn [slink skind sitems]. rewrite map_app, concat_app. cbn [map concat]. rewrite app_nil_r, <- !app_assoc. reflexivity. Qed.

Lemma wf_skipn S m : wfstack S -> 1 <= m -> Forall linked (skipn m S).
Proof.
  intros Hwf Hm. destruct S as [|s t]; [rewrite skipn_nil; constructor|].
  destruct m as [|m]; [lia|]. cbn [skipn]. destruct Hwf as [_ Ht].
  clear Hm. revert m. induction Ht as [|x l Hx Hl IH]; intros m; [rewrite skipn_nil; constructor|].
  destruct m; cbn [skipn]; [constructor; assumption | apply IH].
Qed.

Lemma pp_chain_cons p prest : Forall linked (p :: prest) ->
  concat (map pp_seg (p :: prest)) = pp_link (the_link p) ++ pp_kind (skind p) ++ pp (to_body (sitems p) (chain_body prest)).
Proof. intros H. rewrite <- (pp_chain (p :: prest) H). reflexivity. Qed.

(* the string writer is the image of the syntactic writer under printing (pop depth 0 excluded: conformance) *)
Definition pop_pos (e : ev) := match e with EPop d => 1 <= d | _ => True end.
Lemma w_hom S e : wfstack S -> pop_pos e ->
  w_step (map pp_seg S) e = option_map (map pp_seg) (sw_step S e).
Proof.
  intros Hwf Hpos. destruct e as [k|b k|b r|d]; cbn [w_step sw_step option_map].
  - rewrite map_app. cbn [map]. destruct S; cbn [map]; unfold pp_seg; cbn [slink skind sitems pp_olink map concat pp_link app];
      rewrite ?app_nil_r; reflexivity.
  - rewrite map_app. cbn [map]. unfold pp_seg. cbn [slink skind sitems pp_olink map concat pp_link]. rewrite app_nil_r. reflexivity.
  - rewrite split_last_map. destruct (split_last S) as [[init last]|]; cbn [option_map fst snd]; [|reflexivity].
    rewrite map_app. cbn [map]. rewrite pp_add_item. reflexivity.
  - cbn [pop_pos] in Hpos. rewrite map_length. destruct (length S <=? d) eqn:E; [reflexivity|].
    apply Nat.leb_gt in E.
    rewrite firstn_map, skipn_map. rewrite split_last_map.
    destruct (split_last (firstn (length S - d) S)) as [[init last]|] eqn:Ek; cbn [option_map fst snd].
    + destruct (skipn (length S - d) S) as [|p prest] eqn:Ec.
      * exfalso. assert (length (skipn (length S - d) S) = d) by (rewrite skipn_length; lia). rewrite Ec in H. simpl in H. lia.
      * assert (Hl : Forall linked (p :: prest)) by (rewrite <- Ec; apply wf_skipn; [exact Hwf|lia]).
        cbn [option_map]. rewrite (pp_chain_cons p prest Hl).
        rewrite map_app. cbn [map]. rewrite pp_add_item. cbn [pp_item].
        rewrite <- ?app_assoc. reflexivity.
    + exfalso. pose proof (split_last_spec (firstn (length S - d) S)) as Hs. rewrite Ek in Hs.
      assert (length (firstn (length S - d) S) = length S - d) by (rewrite firstn_length; lia). rewrite Hs in H. simpl in H. lia.
Qed.

(* ---------- histories ---------- *)
Definition nkev (e : ev) : ev := match e with ERoot k => ERoot (nk_kind k) | EExtend b k => EExtend b (nk_kind k) | x => x end.
(* protocol conformance from a path of length n *)
Definition conformantP (h : list ev) := match h with ERoot _ :: _ => confP 0 h | _ => False end.

Fixpoint sw_fold (Sk : list seg) (h : list ev) : option (list seg) :=
  match h with [] => Some Sk | e :: t => match sw_step Sk e with None => None | Some Sk' => sw_fold Sk' t end end.

Definition flat_stack (Sk : list seg) := concat (map flat_seg Sk).

Lemma flat_add_item s i : flat_seg (add_item s i) = flat_seg s ++ flat_item i.
Proof. unfold flat_seg, add_item. cbn [slink skind sitems]. rewrite map_app, concat_app. cbn [map concat]. rewrite app_nil_r. reflexivity. Qed.

Lemma flat_chain_cons p prest : Forall linked (p :: prest) ->
  concat (map flat_seg (p :: prest)) = ev_link (the_link p) (nk_kind (skind p)) :: flat (to_body (sitems p) (chain_body prest)).
Proof. intros H. rewrite <- (flat_chain (p :: prest) H). reflexivity. Qed.

Lemma firstn_skipn_split {A} (l : list A) n : l = firstn n l ++ skipn n l.
Proof. symmetry. apply firstn_skipn. Qed.

(* one step: well-formedness, length and flattening *)
Lemma sw_step_ok Sk e : wfstack Sk ->
  match e with ERoot _ => True | EExtend _ _ => 1 <= length Sk | EJoin _ _ => 1 <= length Sk | EPop d => 1 <= d /\ d < length Sk end ->
  exists Sk', sw_step Sk e = Some Sk' /\ wfstack Sk' /\
             length Sk' = (match e with ERoot _ | EExtend _ _ => S (length Sk) | EJoin _ _ => length Sk | EPop d => length Sk - d end) /\
             flat_stack Sk' = flat_stack Sk ++ [nkev e].
Proof.
  intros Hwf Hc. destruct e as [k|b k|b r|d]; cbn [sw_step].
  - eexists. split; [reflexivity|]. split; [|split].
    + destruct Sk as [|s t]; cbn [app wfstack slink]; [split; [reflexivity|constructor]|].
      destruct Hwf as [H1 H2]. split; [exact H1|]. apply Forall_app. split; [exact H2|]. constructor; [|constructor]. unfold linked. cbn [slink]. discriminate.
    + rewrite app_length. cbn [length]. lia.
    + unfold flat_stack. rewrite map_app, concat_app. cbn [map concat]. rewrite app_nil_r. unfold flat_seg. cbn [slink skind sitems map concat].
      destruct Sk; cbn [ev_olink ev_link nkev]; reflexivity.
  - eexists. split; [reflexivity|]. split; [|split].
    + destruct Sk as [|s t]; [simpl in Hc; lia|]. cbn [app wfstack]. destruct Hwf as [H1 H2]. split; [exact H1|].
      apply Forall_app. split; [exact H2|]. constructor; [|constructor]. unfold linked. cbn [slink]. discriminate.
    + rewrite app_length. cbn [length]. lia.
    + unfold flat_stack. rewrite map_app, concat_app. cbn [map concat]. rewrite app_nil_r. reflexivity.
  - pose proof (split_last_spec Sk) as Hs. destruct (split_last Sk) as [[init last]|]; [|subst; simpl in Hc; lia].
    eexists. split; [reflexivity|]. subst Sk. split; [|split].
    + destruct init as [|s t]; cbn [app wfstack] in *.
      * destruct Hwf as [H1 _]. split; [exact H1|constructor].
      * destruct Hwf as [H1 H2]. split; [exact H1|]. apply Forall_app in H2 as [H2 H3]. apply Forall_app. split; [exact H2|].
        inversion H3; subst. constructor; [|constructor]. unfold linked, add_item in *. cbn [slink]. assumption.
    + rewrite !app_length. reflexivity.
    + unfold flat_stack. rewrite !map_app, !concat_app. cbn [map concat]. rewrite !app_nil_r. rewrite flat_add_item. rewrite <- app_assoc. reflexivity.
  - destruct Hc as [Hd1 Hd2]. destruct (Nat.leb_spec (length Sk) d) as [Hle|Hgt]; [lia|].
    pose proof (split_last_spec (firstn (length Sk - d) Sk)) as Hs.
    assert (Hlk : length (firstn (length Sk - d) Sk) = length Sk - d) by (rewrite firstn_length; lia).
    destruct (split_last (firstn (length Sk - d) Sk)) as [[init last]|]; [|rewrite Hs in Hlk; simpl in Hlk; lia].
    assert (Hlc : length (skipn (length Sk - d) Sk) = d) by (rewrite skipn_length; lia).
    destruct (skipn (length Sk - d) Sk) as [|p prest] eqn:Ec; [simpl in Hlc; lia|].
    assert (Hl : Forall linked (p :: prest)) by (rewrite <- Ec; apply wf_skipn; [exact Hwf|lia]).
    eexists. split; [reflexivity|].
    assert (HS : Sk = (init ++ [last]) ++ p :: prest) by (rewrite <- Hs, <- Ec; apply firstn_skipn_split).
    split; [|split].
    + rewrite HS in Hwf. destruct init as [|s t]; cbn [app wfstack] in *.
      * destruct Hwf as [H1 _]. split; [exact H1|constructor].
      * destruct Hwf as [H1 H2]. split; [exact H1|]. rewrite <- app_assoc in H2. apply Forall_app in H2 as [H2 H3]. apply Forall_app. split; [exact H2|].
        inversion H3; subst. constructor; [|constructor]. unfold linked, add_item in *. cbn [slink]. assumption.
    + rewrite app_length. cbn [length]. rewrite Hs in Hlk. rewrite app_length in Hlk. cbn [length] in Hlk. lia.
    + unfold flat_stack. rewrite HS. rewrite !map_app, !concat_app. rewrite (flat_chain_cons p prest Hl).
      cbn [map concat]. rewrite !app_nil_r. rewrite flat_add_item.
      cbn [flat_item nkev]. rewrite len_to_body, len_chain.
      simpl in Hlc. replace (S (length prest)) with d by lia. rewrite <- ?app_assoc. cbn [app]. rewrite <- ?app_assoc. reflexivity.
Qed.

Lemma sw_fold_ok : forall h Sk, wfstack Sk -> confP (length Sk) h ->
  exists Sk', sw_fold Sk h = Some Sk' /\ wfstack Sk' /\ flat_stack Sk' = flat_stack Sk ++ map nkev h /\ (Sk <> [] -> Sk' <> []).
Proof.
  induction h as [|e t IH]; intros Sk Hwf Hc; cbn [sw_fold].
  - exists Sk. rewrite app_nil_r. auto.
  - assert (Hpre : match e with ERoot _ => True | EExtend _ _ => 1 <= length Sk | EJoin _ _ => 1 <= length Sk | EPop d => 1 <= d /\ d < length Sk end)
      by (destruct e; cbn [confP] in Hc; tauto).
    destruct (sw_step_ok Sk e Hwf Hpre) as [S1 [E1 [W1 [L1 F1]]]]. rewrite E1.
    assert (Hc1 : confP (length S1) t) by (rewrite L1; destruct e; cbn [confP] in Hc; tauto).
    destruct (IH S1 W1 Hc1) as [Sk' [E' [W' [F' N']]]]. exists Sk'. split; [exact E'|]. split; [exact W'|]. split.
    + rewrite F', F1. rewrite <- app_assoc. reflexivity.
    + intros HS. apply N'. intros ->. destruct e; simpl in L1; lia.
Qed.

Lemma w_fold_hom : forall h Sk, wfstack Sk -> confP (length Sk) h ->
  w_fold (map pp_seg Sk) h = option_map (map pp_seg) (sw_fold Sk h).
Proof.
  induction h as [|e t IH]; intros Sk Hwf Hc; cbn [w_fold sw_fold]; [reflexivity|].
  assert (Hpos : pop_pos e) by (destruct e; cbn [confP pop_pos] in *; tauto).
  rewrite (w_hom Sk e Hwf Hpos).
  assert (Hpre : match e with ERoot _ => True | EExtend _ _ => 1 <= length Sk | EJoin _ _ => 1 <= length Sk | EPop d => 1 <= d /\ d < length Sk end)
    by (destruct e; cbn [confP] in Hc; tauto).
  destruct (sw_step_ok Sk e Hwf Hpre) as [S1 [E1 [W1 [L1 F1]]]]. rewrite E1. cbn [option_map].
  apply IH; [exact W1|]. rewrite L1. destruct e; cbn [confP] in Hc; tauto.
Qed.

