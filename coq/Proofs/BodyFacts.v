(* The token facts in the shape the reader/writer proofs consume (premises H_* of the C09 development), derived from
   Proofs/TokenFacts.v for values in range: isotope/map below 1000, ring numbers below 100. *)
From Coq Require Import List String Ascii ZArith NArith Lia Bool Arith.
Import ListNotations.
Require Import P.Generated.Enums P.Spec.Values P.Generated.Tables P.Meta.Scan P.Generated.Trees P.Spec.Spelling P.Spec.Normal
  P.Model.Base P.Model.Token P.Model.Reader P.Proofs.Finite P.Checks.Token_defs P.Proofs.TokenFacts.
Local Notation length := List.length.

Definition okk (k : kind) : Prop := wf_numbers k.
Definition okr (r : rnumN) : Prop := (r < 100)%N.
Definition plain (x : list char) := match x with [] => True | c :: _ => N.eqb c LP = false /\ N.eqb c DOT = false end.

Lemma mem_by_existsb (c : char) l : existsb (N.eqb c) l = true -> In c l.
Proof. intros H. apply existsb_exists in H as [x [Hin E]]. apply N.eqb_eq in E. subst. exact Hin. Qed.
Lemma in_existsb (c : char) l : In c l -> existsb (N.eqb c) l = true.
Proof. intros H. apply existsb_exists. exists c. split; [exact H | apply N.eqb_refl]. Qed.

(* first character of each printed token *)
Lemma pp_kind_head k : exists c x, pp_kind k = c :: x /\ In c atom_starts.
Proof.
  destruct k as [|a|a|i s c h g m].
  - exists STAR, []. split; [reflexivity | apply mem_by_existsb; vm_compute; reflexivity].
  - assert (H : forallb (fun a => match pp_kind (AK_Aliphatic a) with c :: _ => existsb (N.eqb c) atom_starts | [] => false end) all_aliphatic = true) by (vm_compute; reflexivity).
    rewrite forallb_forall in H. specialize (H a (all_aliphatic_complete a)). destruct (pp_kind (AK_Aliphatic a)) as [|c x]; [discriminate|]. exists c, x. split; [reflexivity | apply mem_by_existsb; exact H].
  - assert (H : forallb (fun a => match pp_kind (AK_Aromatic a) with c :: _ => existsb (N.eqb c) atom_starts | [] => false end) all_aromatic = true) by (vm_compute; reflexivity).
    rewrite forallb_forall in H. specialize (H a (all_aromatic_complete a)). destruct (pp_kind (AK_Aromatic a)) as [|c x]; [discriminate|]. exists c, x. split; [reflexivity | apply mem_by_existsb; exact H].
  - rewrite pp_kind_bracket. unfold bracket_text. eexists LB, _. split; [reflexivity | apply mem_by_existsb; vm_compute; reflexivity].
Qed.
Lemma pp_rnum_head r : okr r -> exists c x, pp_rnum r = c :: x /\ In c (digit_chars ++ [37%N]).
Proof.
  intros Hr. destruct (rnum_of_small r Hr) as [rv [E _]]. rewrite (pp_rnum_text r rv E).
  assert (H : forallb (fun rv => match rnum_text rv with c :: _ => existsb (N.eqb c) (digit_chars ++ [37%N]) | [] => false end) all_rnum = true) by (vm_compute; reflexivity).
  rewrite forallb_forall in H. specialize (H rv (all_rnum_complete rv)). destruct (rnum_text rv) as [|c x]; [discriminate|]. exists c, x. split; [reflexivity | apply mem_by_existsb; exact H].
Qed.
Lemma pp_bond_head b : pp_bond b = [] \/ exists c x, pp_bond b = c :: x /\ In c bond_chars.
Proof.
  destruct (pp_bond b) as [|c x] eqn:E; [left; reflexivity|]. right. exists c, x. split; [reflexivity|].
  unfold bond_chars. eapply firsts_in; [apply (in_map (fun b => chars (display_bond_kind b))), (all_bond_kind_complete b) | exact E].
Qed.
Lemma sub_body l c : In c l -> (forall d, In d l -> In d body_chars) -> In c body_chars. Proof. auto. Qed.
Lemma bond_in_body c : In c bond_chars -> In c body_chars. Proof. intros H. apply in_or_app. left. exact H. Qed.
Lemma start_in_body c : In c atom_starts -> In c body_chars. Proof. intros H. apply in_or_app. right. apply in_or_app. left. exact H. Qed.
Lemma digit_in_body c : In c (digit_chars ++ [37%N]) -> In c body_chars.
Proof.
  intros H. apply mem_by_existsb.
  assert (Hall : forallb (fun c => existsb (N.eqb c) body_chars) (digit_chars ++ [37%N]) = true) by (vm_compute; reflexivity).
  rewrite forallb_forall in Hall. apply Hall. exact H.
Qed.

Lemma F_stop x : stop x -> follows x.
Proof. intros [->|[y ->]]; [left; reflexivity|]. right. exists 41%N, y. split; [reflexivity | apply mem_by_existsb; vm_compute; reflexivity]. Qed.
Lemma F_lp x : follows (LP :: x). Proof. right. exists LP, x. split; [reflexivity | apply mem_by_existsb; vm_compute; reflexivity]. Qed.
Lemma F_dot x : follows (DOT :: x). Proof. right. exists DOT, x. split; [reflexivity | apply mem_by_existsb; vm_compute; reflexivity]. Qed.
Lemma F_bk b k x : follows (pp_bond b ++ pp_kind k ++ x).
Proof.
  right. destruct (pp_bond_head b) as [->|[c [y [-> Hc]]]].
  - destruct (pp_kind_head k) as [c [y [-> Hc]]]. exists c, (y ++ x). split; [reflexivity | apply start_in_body; exact Hc].
  - exists c, (y ++ pp_kind k ++ x). split; [reflexivity | apply bond_in_body; exact Hc].
Qed.
Lemma F_br b r x : okr r -> follows (pp_bond b ++ pp_rnum r ++ x).
Proof.
  intros Hr. right. destruct (pp_bond_head b) as [->|[c [y [-> Hc]]]].
  - destruct (pp_rnum_head r Hr) as [c [y [-> Hc]]]. exists c, (y ++ x). split; [reflexivity | apply digit_in_body; exact Hc].
  - exists c, (y ++ pp_rnum r ++ x). split; [reflexivity | apply bond_in_body; exact Hc].
Qed.
Lemma H_atom k x : okk k -> follows x -> read_atom (pp_kind k ++ x) = TOk (nk_kind k) (length (pp_kind k)).
Proof. intros Hk Hx. apply read_atom_text; [exact Hk | destruct k; auto]. Qed.
Lemma H_atom_stop x : stop x -> read_atom x = TNo.
Proof. intros [->|[y ->]]; apply read_atom_none; [exact I | apply mem_by_existsb; vm_compute; reflexivity]. Qed.
Lemma H_atom_rnum r x : okr r -> read_atom (pp_rnum r ++ x) = TNo.
Proof.
  intros Hr. destruct (pp_rnum_head r Hr) as [c [y [-> Hc]]]. apply read_atom_none. cbn [app].
  apply mem_by_existsb.
  assert (Hall : forallb (fun c => existsb (N.eqb c) (digit_chars ++ [37; 40; 41; 46]%N ++ bond_chars)) (digit_chars ++ [37%N]) = true) by (vm_compute; reflexivity).
  rewrite forallb_forall in Hall. apply Hall. exact Hc.
Qed.
Lemma H_bond_atom b k x : read_bond (pp_bond b ++ pp_kind k ++ x) = (b, length (pp_bond b)).
Proof.
  apply read_bond_text. destruct (pp_kind_head k) as [c [y [-> Hc]]]. exists c, (y ++ x). split; [reflexivity | apply in_or_app; left; exact Hc].
Qed.
Lemma H_bond_rnum b r x : okr r -> read_bond (pp_bond b ++ pp_rnum r ++ x) = (b, length (pp_bond b)).
Proof.
  intros Hr. apply read_bond_text. destruct (pp_rnum_head r Hr) as [c [y [-> Hc]]]. exists c, (y ++ x). split; [reflexivity | apply in_or_app; right; exact Hc].
Qed.
Lemma elided_is_elided : elided_value = Some BK_Elided. Proof. vm_compute. reflexivity. Qed.
Lemma H_bond_stop x : stop x -> read_bond x = (BK_Elided, 0).
Proof.
  intros Hs. destruct (read_bond_none x) as [e [He Hr]].
  - destruct Hs as [->|[y ->]]; [exact I | apply mem_by_existsb; vm_compute; reflexivity].
  - rewrite elided_is_elided in He. inversion He. subst. exact Hr.
Qed.
Lemma H_rnum r x : okr r -> follows x -> read_rnum (pp_rnum r ++ x) = TOk r (length (pp_rnum r)).
Proof.
  intros Hr Hx. destruct (rnum_of_small r Hr) as [rv [E Ev]]. rewrite (pp_rnum_text r rv E). rewrite read_rnum_text by exact Hx. rewrite Ev. reflexivity.
Qed.
Lemma H_rnum_stop x : stop x -> read_rnum x = TNo.
Proof. intros Hs. apply read_rnum_none. destruct Hs as [->|[y ->]]; [exact I | apply mem_by_existsb; vm_compute; reflexivity]. Qed.
Lemma H_kind_ne k : pp_kind k <> [].
Proof. destruct (pp_kind_head k) as [c [y [-> _]]]. discriminate. Qed.
Lemma H_rnum_ne r : okr r -> pp_rnum r <> [].
Proof. intros Hr. destruct (pp_rnum_head r Hr) as [c [y [-> _]]]. discriminate. Qed.
Lemma plain_of_in c x l : In c l -> forallb (fun c => negb (N.eqb c LP) && negb (N.eqb c DOT)) l = true -> plain (c :: x).
Proof. intros Hc H. rewrite forallb_forall in H. specialize (H c Hc). apply andb_true_iff in H as [H1 H2]. apply negb_true_iff in H1, H2. split; assumption. Qed.
Lemma H_plain_bk b k x : plain (pp_bond b ++ pp_kind k ++ x).
Proof.
  destruct (pp_bond_head b) as [->|[c [y [-> Hc]]]].
  - destruct (pp_kind_head k) as [c [y [-> Hc]]]. cbn [app]. apply (plain_of_in c _ atom_starts Hc). vm_compute. reflexivity.
  - cbn [app]. apply (plain_of_in c _ bond_chars Hc). vm_compute. reflexivity.
Qed.
Lemma H_plain_br b r x : okr r -> plain (pp_bond b ++ pp_rnum r ++ x).
Proof.
  intros Hr. destruct (pp_bond_head b) as [->|[c [y [-> Hc]]]].
  - destruct (pp_rnum_head r Hr) as [c [y [-> Hc]]]. cbn [app]. apply (plain_of_in c _ (digit_chars ++ [37%N]) Hc). vm_compute. reflexivity.
  - cbn [app]. apply (plain_of_in c _ bond_chars Hc). vm_compute. reflexivity.
Qed.
Lemma stop_plain x : stop x -> plain x.
Proof. intros [->|[y ->]]; [exact I | split; reflexivity]. Qed.
