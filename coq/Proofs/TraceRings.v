(* The bond map of the Trace, ring closures.
   1. ring_bond_stored: the closing RJoin of ring number r records, under (opening atom, closing atom), the bond cursor
      handed in by the OPENING RJoin, and under (closing atom, opening atom) the bond cursor of the CLOSING RJoin; both
      entries survive to the final trace unless a later ring closure joins the same two atoms again.
   2. reader_ring_bond_cursors: on the reader's events of a string each of the two cursors is the position of the bond
      symbol written before that end's ring token, or the first character of that ring token when no symbol was written.
   3. unlinked_bond_none / trace_bond_past: pairs that never had a bond event (or ids past the last atom) map to nothing;
      pop_changes_no_entry: RPop touches no atom / bond / ring-token entry. *)
From Coq Require Import List NArith Lia Bool Arith.
Import ListNotations.
Require Import P.Generated.Enums P.Spec.Values P.Meta.Scan P.Meta.ScanMeta P.Generated.Trees P.Model.Base P.Model.Token
  P.Model.Reader P.Model.Trace P.Proofs.TraceCursors.

(* keep the kernel from unfolding the (large) learned tries during conversion checks; vm_compute is not affected *)
Strategy opaque [tree_symbol tree_organic tree_configuration tree_charge tree_bond tree_rnum tree_hcount tree_isotope tree_map].

(* ---------- 0. the model on concrete inputs: which direction gets which cursor ---------- *)
Definition c1cc_eq_1 : list char := [67; 49; 67; 67; 61; 49]%N.          (* C1CC=1 *)
Definition c_eq_1cc1 : list char := [67; 61; 49; 67; 67; 49]%N.          (* C=1CC1 *)
Definition c_pc12 : list char := [67; 37; 49; 50; 67; 67; 37; 49; 50]%N. (* C%12CC%12 *)
(* C1CC=1 : atom 0 opens at digit 1 (elided: cursor 1), atom 2 closes with '=' at 4 and digit at 5 *)
Example ring_dirs_close_symbol :
  exists t, tfold trace0 (r_events (read c1cc_eq_1)) = Some t /\
            r_events (read c1cc_eq_1) = [RRoot (AK_Aliphatic Al_C) 0 1; RJoin BK_Elided 1%N 1 1 2;
                                         RExtend BK_Elided (AK_Aliphatic Al_C) 2 2 3; RExtend BK_Elided (AK_Aliphatic Al_C) 3 3 4;
                                         RJoin BK_Double 1%N 4 5 6] /\
            trace_bond t 0 2 = Some 1 /\ trace_bond t 2 0 = Some 4.
Proof. eexists. split; [vm_compute; reflexivity|]. split; vm_compute; [reflexivity | split; reflexivity]. Qed.
(* C=1CC1 : atom 0 opens with '=' at 1 and digit at 2, atom 2 closes at digit 5 (elided: cursor 5) *)
Example ring_dirs_open_symbol :
  exists t, tfold trace0 (r_events (read c_eq_1cc1)) = Some t /\
            r_events (read c_eq_1cc1) = [RRoot (AK_Aliphatic Al_C) 0 1; RJoin BK_Double 1%N 1 2 3;
                                         RExtend BK_Elided (AK_Aliphatic Al_C) 3 3 4; RExtend BK_Elided (AK_Aliphatic Al_C) 4 4 5;
                                         RJoin BK_Elided 1%N 5 5 6] /\
            trace_bond t 0 2 = Some 1 /\ trace_bond t 2 0 = Some 5.
Proof. eexists. split; [vm_compute; reflexivity|]. split; vm_compute; [reflexivity | split; reflexivity]. Qed.
(* C%12CC%12 : the cursors are the '%' characters (1 and 6), the ring tokens are 1..4 and 6..9 *)
Example ring_dirs_percent :
  exists t, tfold trace0 (r_events (read c_pc12)) = Some t /\
            r_events (read c_pc12) = [RRoot (AK_Aliphatic Al_C) 0 1; RJoin BK_Elided 12%N 1 1 4;
                                      RExtend BK_Elided (AK_Aliphatic Al_C) 4 4 5; RExtend BK_Elided (AK_Aliphatic Al_C) 5 5 6;
                                      RJoin BK_Elided 12%N 6 6 9] /\
            trace_bond t 0 2 = Some 1 /\ trace_bond t 2 0 = Some 6 /\
            trace_rnum t 0 = Some (1, 4) /\ trace_rnum t 1 = Some (6, 9).
Proof. eexists. split; [vm_compute; reflexivity|]. split; vm_compute; [reflexivity | repeat split; reflexivity]. Qed.

(* ---------- 1. the open-ring table ---------- *)
Lemma oget_odel_other : forall (o : list (rnumN * topen)) (q r : rnumN), q <> r -> oget (odel o q) r = oget o r.
Proof.
  induction o as [|[p v] o IH]; intros q r Hqr; cbn [odel oget]; [reflexivity|].
  destruct (N.eqb_spec p q) as [Epq|Npq].
  - subst p. destruct (N.eqb_spec q r) as [Eqr|Nqr]; [contradiction | reflexivity].
  - cbn [oget]. destruct (N.eqb p r); [reflexivity | apply IH; exact Hqr].
Qed.
Lemma oget_None_notin : forall (o : list (rnumN * topen)) (r : rnumN), oget o r = None -> ~ In r (map fst o).
Proof.
  induction o as [|[p v] o IH]; intros r Hg; cbn [oget map fst In] in *; [tauto|].
  destruct (N.eqb_spec p r) as [Epr|Npr]; [discriminate|]. intros [Hin|Hin]; [contradiction | exact (IH r Hg Hin)].
Qed.
Lemma notin_oget_None : forall (o : list (rnumN * topen)) (r : rnumN), ~ In r (map fst o) -> oget o r = None.
Proof.
  induction o as [|[p v] o IH]; intros r Hn; cbn [oget map fst In] in *; [reflexivity|].
  destruct (N.eqb_spec p r) as [Epr|Npr]; [exfalso; apply Hn; left; exact Epr | apply IH; tauto].
Qed.
Lemma in_odel_keys : forall (o : list (rnumN * topen)) (r x : rnumN), In x (map fst (odel o r)) -> In x (map fst o).
Proof.
  induction o as [|[p v] o IH]; intros r x; cbn [odel map fst In]; [tauto|].
  destruct (N.eqb p r); cbn [map fst In]; [tauto|]. intros [Hx|Hx]; [left; exact Hx | right; exact (IH r x Hx)].
Qed.
Lemma NoDup_odel : forall (o : list (rnumN * topen)) (r : rnumN), NoDup (map fst o) -> NoDup (map fst (odel o r)).
Proof.
  induction o as [|[p v] o IH]; intros r Hn; cbn [odel map fst] in *; [exact Hn|].
  inversion Hn as [|p' l' Hnotin Hrest]; subst. destruct (N.eqb p r); [exact Hrest|].
  cbn [map fst]. constructor; [|apply IH; exact Hrest]. intros Hin. apply Hnotin. exact (in_odel_keys _ _ _ Hin).
Qed.
Lemma oget_odel_same : forall (o : list (rnumN * topen)) (r : rnumN), NoDup (map fst o) -> oget (odel o r) r = None.
Proof.
  induction o as [|[p v] o IH]; intros r Hn; cbn [odel map fst] in *; [reflexivity|].
  inversion Hn as [|p' l' Hnotin Hrest]; subst. destruct (N.eqb_spec p r) as [Epr|Npr].
  - subst p. apply notin_oget_None. exact Hnotin.
  - cbn [oget]. destruct (N.eqb_spec p r) as [Epr|_]; [contradiction|]. apply IH. exact Hrest.
Qed.

(* the event is not a ring token with number r *)
Definition not_join (r : rnumN) (e : rcall) : Prop := match e with RJoin _ q _ _ _ => q <> r | _ => True end.
Definition is_join (r : rnumN) (e : rcall) : bool := match e with RJoin _ q _ _ _ => N.eqb q r | _ => false end.
(* parity of the number of ring tokens with number r *)
Fixpoint jpar (r : rnumN) (h : list rcall) : bool := match h with [] => false | e :: h' => xorb (is_join r e) (jpar r h') end.
Definition is_open (t : trace) (r : rnumN) : bool := match oget (t_opens t) r with Some _ => true | None => false end.

Lemma not_join_is_join r e : not_join r e <-> is_join r e = false.
Proof. destruct e as [k a b|bk k bc a b|bk q bc a b|d]; cbn [not_join is_join]; try tauto. destruct (N.eqb_spec q r); split; intros; try tauto; discriminate. Qed.
Lemma jpar_app r : forall h1 h2, jpar r (h1 ++ h2) = xorb (jpar r h1) (jpar r h2).
Proof. induction h1 as [|e h1 IH]; intros h2; cbn [app jpar]; [destruct (jpar r h2); reflexivity|]. rewrite IH, xorb_assoc. reflexivity. Qed.
Lemma jpar_no_join r : forall h, Forall (not_join r) h -> jpar r h = false.
Proof.
  induction h as [|e h IH]; intros Hf; cbn [jpar]; [reflexivity|]. inversion Hf as [|e' h' He Hh]; subst.
  apply not_join_is_join in He. rewrite He, (IH Hh). reflexivity.
Qed.

(* any other event leaves the entry of r in the open-ring table alone *)
Lemma tstep_opens_other t e t' r : tstep t e = Some t' -> not_join r e -> oget (t_opens t') r = oget (t_opens t) r.
Proof.
  destruct e as [k a b|bk k bc a b|bk q bc a b|d]; cbn [tstep not_join].
  - intros E _; inversion E; subst; reflexivity.
  - destruct (t_stack t) as [|sid st]; [discriminate|]. intros E _; inversion E; subst; reflexivity.
  - destruct (t_stack t) as [|sid st]; [discriminate|].
    destruct (oget (t_opens t) q) as [o|]; intros E Hq; inversion E; subst; clear E; cbn [t_opens].
    + apply oget_odel_other. exact Hq.
    + cbn [oget]. destruct (N.eqb_spec q r) as [Eqr|_]; [contradiction | reflexivity].
  - destruct (length (t_stack t) <=? d); [discriminate|]. intros E _; inversion E; subst; reflexivity.
Qed.
Lemma tfold_opens_other : forall h t t' r, tfold t h = Some t' -> Forall (not_join r) h -> oget (t_opens t') r = oget (t_opens t) r.
Proof.
  induction h as [|e h IH]; intros t t' r; cbn [tfold].
  - intros E _; inversion E; subst; reflexivity.
  - destruct (tstep t e) as [t1|] eqn:Es; [|discriminate]. intros E Hf. inversion Hf as [|e' h' He Hh]; subst.
    rewrite (IH _ _ _ E Hh). exact (tstep_opens_other _ _ _ _ Es He).
Qed.

(* ring number r is open exactly after an odd number of ring tokens r *)
Lemma tstep_open_parity t e t' r : NoDup (map fst (t_opens t)) -> tstep t e = Some t' ->
  NoDup (map fst (t_opens t')) /\ is_open t' r = xorb (is_join r e) (is_open t r).
Proof.
  intros Hn. unfold is_open. destruct e as [k a b|bk k bc a b|bk q bc a b|d]; cbn [tstep is_join].
  - intros E; inversion E; subst; cbn [t_opens]. split; [exact Hn | rewrite xorb_false_l; reflexivity].
  - destruct (t_stack t) as [|sid st]; [discriminate|]. intros E; inversion E; subst; cbn [t_opens]. split; [exact Hn | rewrite xorb_false_l; reflexivity].
  - destruct (t_stack t) as [|sid st]; [discriminate|].
    destruct (oget (t_opens t) q) as [o|] eqn:Eo; intros E; inversion E; subst; clear E; cbn [t_opens].
    + split; [apply NoDup_odel; exact Hn|]. destruct (N.eqb_spec q r) as [Eqr|Nqr].
      * subst q. rewrite (oget_odel_same _ _ Hn), Eo. reflexivity.
      * rewrite (oget_odel_other _ _ _ Nqr), xorb_false_l. reflexivity.
    + split; [cbn [map fst]; constructor; [apply oget_None_notin; exact Eo | exact Hn]|].
      cbn [oget]. destruct (N.eqb_spec q r) as [Eqr|Nqr]; [subst q; rewrite Eo; reflexivity | rewrite xorb_false_l; reflexivity].
  - destruct (length (t_stack t) <=? d); [discriminate|]. intros E; inversion E; subst; cbn [t_opens]. split; [exact Hn | rewrite xorb_false_l; reflexivity].
Qed.
Lemma tfold_open_parity : forall h t t' r, NoDup (map fst (t_opens t)) -> tfold t h = Some t' ->
  NoDup (map fst (t_opens t')) /\ is_open t' r = xorb (jpar r h) (is_open t r).
Proof.
  induction h as [|e h IH]; intros t t' r Hn; cbn [tfold jpar].
  - intros E; inversion E; subst. split; [exact Hn | rewrite xorb_false_l; reflexivity].
  - destruct (tstep t e) as [t1|] eqn:Es; [|discriminate]. intros E.
    destruct (tstep_open_parity t e t1 r Hn Es) as [Hn1 P1]. destruct (IH t1 t' r Hn1 E) as [Hn2 P2].
    split; [exact Hn2|]. rewrite P2, P1. destruct (is_join r e), (jpar r h), (is_open t r); reflexivity.
Qed.
Theorem open_iff_odd : forall h t r, tfold trace0 h = Some t -> (oget (t_opens t) r = None <-> jpar r h = false).
Proof.
  intros h t r E. destruct (tfold_open_parity h trace0 t r ltac:(constructor) E) as [_ P].
  unfold is_open in P. cbn [trace0 t_opens oget] in P. rewrite xorb_false_r in P.
  destruct (oget (t_opens t) r) as [o|]; rewrite <- P; split; intros H; try reflexivity; discriminate.
Qed.

(* a successful fold folds every prefix *)
Lemma tfold_prefix : forall h1 h2 t0 t, tfold t0 (h1 ++ h2) = Some t -> exists t1, tfold t0 h1 = Some t1 /\ tfold t1 h2 = Some t.
Proof. intros h1 h2 t0 t E. rewrite tfold_app in E. destruct (tfold t0 h1) as [t1|]; [|discriminate]. exists t1. split; [reflexivity | exact E]. Qed.

(* ---------- 2. ring tokens are stored in order of appearance ---------- *)
Lemma rnum_ranges_app h1 h2 : rnum_ranges (h1 ++ h2) = rnum_ranges h1 ++ rnum_ranges h2.
Proof. unfold rnum_ranges. apply flat_map_app. Qed.
Lemma atom_ranges_app h1 h2 : atom_ranges (h1 ++ h2) = atom_ranges h1 ++ atom_ranges h2.
Proof. unfold atom_ranges. apply flat_map_app. Qed.
Lemma rnum_nth_mid hA bk r bc a b hB : nth_error (rnum_ranges (hA ++ RJoin bk r bc a b :: hB)) (length (rnum_ranges hA)) = Some (a, b).
Proof.
  rewrite rnum_ranges_app. rewrite nth_error_app2 by lia. rewrite Nat.sub_diag. unfold rnum_ranges. cbn [flat_map app nth_error]. reflexivity.
Qed.

(* ---------- 3. the two directions of a ring closure ---------- *)
(* the closing step itself *)
Lemma join_close_inserted t bk r bc a b sid o t' :
  hd_error (t_stack t) = Some sid -> oget (t_opens t) r = Some o -> tstep t (RJoin bk r bc a b) = Some t' ->
  t_atoms t' = t_atoms t /\
  trace_bond t' (o_sid o) sid = Some (o_bond_cursor o) /\ (o_sid o <> sid -> trace_bond t' sid (o_sid o) = Some bc).
Proof.
  intros Hh Ho. cbn [tstep]. destruct (t_stack t) as [|sid' st]; [discriminate|]. cbn [hd_error] in Hh. inversion Hh; subst sid'.
  rewrite Ho. intros E; inversion E; subst; clear E. rewrite !trace_bond_lookup. cbn [t_atoms t_bonds].
  split; [reflexivity|]. split.
  - rewrite lookup_cons, !Nat.eqb_refl. reflexivity.
  - intros Hne. rewrite !lookup_cons. replace (Nat.eqb (o_sid o) sid) with false by (symmetry; apply Nat.eqb_neq; exact Hne).
    cbn [andb]. rewrite !Nat.eqb_refl. reflexivity.
Qed.

Section Ring.
Variables (h1 hmid h2 : list rcall) (bk1 bk2 : bond_kind) (r : rnumN) (bc1 a1 b1 bc2 a2 b2 : nat).
Let J1 := RJoin bk1 r bc1 a1 b1.
Let J2 := RJoin bk2 r bc2 a2 b2.

(* ring_bond_stored.  The first token OPENS r (r is not open after h1), the second is the matching CLOSE (no token r in
   between).  With sid1 / sid2 the heads of the stack when the two tokens are read, the final trace maps
     (sid1, sid2) to bc1, the cursor handed in with the OPENING token, and
     (sid2, sid1) to bc2, the cursor handed in with the CLOSING token,
   unless a later closure joins the same two atoms again.  (When sid1 = sid2 -- "C11" -- the single key holds bc1.)
   The two ring tokens themselves are entries |rnums h1| and |rnums (h1 ++ J1 :: hmid)| of the ring-token table. *)
Theorem ring_bond_stored : forall t1 t,
  tfold trace0 h1 = Some t1 -> oget (t_opens t1) r = None -> Forall (not_join r) hmid ->
  tfold trace0 (h1 ++ J1 :: hmid ++ J2 :: h2) = Some t ->
  exists sid1 sid2 t2 t3,
    hd_error (t_stack t1) = Some sid1 /\
    tfold trace0 (h1 ++ J1 :: hmid) = Some t2 /\ hd_error (t_stack t2) = Some sid2 /\
    tstep t2 J2 = Some t3 /\
    sid1 < length (atom_ranges h1) /\ sid2 < length (atom_ranges (h1 ++ J1 :: hmid)) /\
    trace_rnum t (length (rnum_ranges h1)) = Some (a1, b1) /\
    trace_rnum t (length (rnum_ranges (h1 ++ J1 :: hmid))) = Some (a2, b2) /\
    (never_reclosed t3 h2 sid1 sid2 ->
       trace_bond t sid1 sid2 = Some bc1 /\ (sid1 <> sid2 -> trace_bond t sid2 sid1 = Some bc2)).
Proof.
  intros t1 t E1 Hop Hmid E.
  pose proof E as Efull.
  rewrite tfold_app, E1 in E. cbn [tfold] in E.
  destruct (tstep t1 J1) as [t1'|] eqn:Es1; [|discriminate].
  rewrite tfold_app in E. destruct (tfold t1' hmid) as [t2|] eqn:Em; [|discriminate]. cbn [tfold] in E.
  destruct (tstep t2 J2) as [t3|] eqn:Es2; [|discriminate].
  (* well-formedness along the way *)
  destruct (tfold_twf _ _ _ twf0 E1) as [Hw1 _]. destruct (tstep_twf _ _ _ Hw1 Es1) as [Hw1' L1].
  destruct (tfold_twf _ _ _ Hw1' Em) as [Hw2 L2]. destruct (tstep_twf _ _ _ Hw2 Es2) as [Hw3 L3].
  assert (E2 : tfold trace0 (h1 ++ J1 :: hmid) = Some t2) by (rewrite tfold_app, E1; cbn [tfold]; rewrite Es1; exact Em).
  (* the opening step *)
  pose proof Es1 as Es1o. unfold J1 in Es1o. cbn [tstep] in Es1o.
  destruct (t_stack t1) as [|sid1 st1] eqn:Est1; [discriminate|]. rewrite Hop in Es1o.
  assert (Ho1 : oget (t_opens t1') r = Some {| o_sid := sid1; o_bond_cursor := bc1 |}).
  { inversion Es1o; subst t1'. cbn [t_opens oget]. rewrite N.eqb_refl. reflexivity. }
  assert (Ho2 : oget (t_opens t2) r = Some {| o_sid := sid1; o_bond_cursor := bc1 |}).
  { rewrite (tfold_opens_other _ _ _ _ Em Hmid). exact Ho1. }
  (* the closing step *)
  assert (Hst2 : exists sid2, hd_error (t_stack t2) = Some sid2).
  { pose proof Es2 as Es2o. unfold J2 in Es2o. cbn [tstep] in Es2o. destruct (t_stack t2) as [|sid2 st2]; [discriminate|]. exists sid2. reflexivity. }
  destruct Hst2 as [sid2 Hh2].
  destruct (join_close_inserted t2 bk2 r bc2 a2 b2 sid2 _ t3 Hh2 Ho2 Es2) as [Hat3 [B1 B2]]. cbn [o_sid o_bond_cursor] in B1, B2.
  (* ids *)
  assert (Hlt1 : sid1 < length (t_atoms t1)).
  { destruct Hw1 as [Hs _]. rewrite Est1 in Hs. inversion Hs; assumption. }
  assert (Hlt2 : sid2 < length (t_atoms t2)).
  { destruct Hw2 as [Hs _]. destruct (t_stack t2) as [|x st2]; [discriminate|]. cbn [hd_error] in Hh2. inversion Hh2; subst x. inversion Hs; assumption. }
  pose proof (proj1 (trace_stores_ranges _ _ E1)) as Ha1. pose proof (proj1 (trace_stores_ranges _ _ E2)) as Ha2.
  exists sid1, sid2, t2, t3.
  split; [reflexivity|]. split; [exact E2|]. split; [exact Hh2|]. split; [exact Es2|].
  split; [rewrite <- Ha1; exact Hlt1|]. split; [rewrite <- Ha2; exact Hlt2|].
  split; [|split].
  - rewrite (trace_rnum_nth _ _ _ Efull). apply rnum_nth_mid.
  - rewrite (trace_rnum_nth _ _ _ Efull).
    replace (h1 ++ J1 :: hmid ++ J2 :: h2) with ((h1 ++ J1 :: hmid) ++ J2 :: h2) by (rewrite <- app_assoc; reflexivity).
    apply rnum_nth_mid.
  - intros Hn. split.
    + apply (tfold_keeps h2 t3 t sid1 sid2 bc1 Hw3 ltac:(lia) ltac:(lia) E Hn B1).
    + intros Hne. apply (tfold_keeps h2 t3 t sid2 sid1 bc2 Hw3 ltac:(lia) ltac:(lia) E (never_reclosed_sym _ _ _ _ Hn) (B2 Hne)).
Qed.

(* the same with the two stack heads and the trace after the closing step given: the form asked for *)
Corollary ring_bond_cursors : forall t1 t2 t3 t sid1 sid2,
  tfold trace0 h1 = Some t1 -> oget (t_opens t1) r = None -> hd_error (t_stack t1) = Some sid1 ->
  Forall (not_join r) hmid ->
  tfold trace0 (h1 ++ J1 :: hmid) = Some t2 -> hd_error (t_stack t2) = Some sid2 -> tstep t2 J2 = Some t3 ->
  tfold trace0 (h1 ++ J1 :: hmid ++ J2 :: h2) = Some t ->
  never_reclosed t3 h2 sid1 sid2 -> sid1 <> sid2 ->
  trace_bond t sid1 sid2 = Some bc1 /\ trace_bond t sid2 sid1 = Some bc2.
Proof.
  intros t1 t2 t3 t sid1 sid2 E1 Hop Hh1 Hmid E2 Hh2 Es2 E Hn Hne.
  destruct (ring_bond_stored t1 t E1 Hop Hmid E) as [s1 [s2 [u2 [u3 [Hh1' [E2' [Hh2' [Es2' [_ [_ [_ [_ Hb]]]]]]]]]]]].
  rewrite Hh1 in Hh1'. inversion Hh1'; subst s1. rewrite E2 in E2'. inversion E2'; subst u2.
  rewrite Hh2 in Hh2'. inversion Hh2'; subst s2. rewrite Es2 in Es2'. inversion Es2'; subst u3.
  destruct (Hb Hn) as [B1 B2]. split; [exact B1 | exact (B2 Hne)].
Qed.

(* the opening condition read off the history alone: an even number of tokens r before the first one *)
Corollary ring_bond_stored_history : forall t,
  jpar r h1 = false -> Forall (not_join r) hmid ->
  tfold trace0 (h1 ++ J1 :: hmid ++ J2 :: h2) = Some t ->
  exists t1 sid1 sid2 t2 t3,
    tfold trace0 h1 = Some t1 /\ hd_error (t_stack t1) = Some sid1 /\
    tfold trace0 (h1 ++ J1 :: hmid) = Some t2 /\ hd_error (t_stack t2) = Some sid2 /\
    tstep t2 J2 = Some t3 /\
    sid1 < length (atom_ranges h1) /\ sid2 < length (atom_ranges (h1 ++ J1 :: hmid)) /\
    trace_rnum t (length (rnum_ranges h1)) = Some (a1, b1) /\
    trace_rnum t (length (rnum_ranges (h1 ++ J1 :: hmid))) = Some (a2, b2) /\
    (never_reclosed t3 h2 sid1 sid2 ->
       trace_bond t sid1 sid2 = Some bc1 /\ (sid1 <> sid2 -> trace_bond t sid2 sid1 = Some bc2)).
Proof.
  intros t Hpar Hmid E. destruct (tfold_prefix _ _ _ _ E) as [t1 [E1 _]].
  pose proof (proj2 (open_iff_odd h1 t1 r E1) Hpar) as Hop.
  destruct (ring_bond_stored t1 t E1 Hop Hmid E) as [sid1 [sid2 [t2 [t3 H]]]].
  exists t1, sid1, sid2, t2, t3. split; [exact E1 | exact H].
Qed.
End Ring.

(* ---------- 4. through the reader: where the two cursors point in the input ---------- *)
(* one end of a ring bond, as written in s: a ring token r at a..b; the cursor bc is the bond symbol written
   immediately before the token (one character, read as bk) or, when no symbol was written, the first character of the token *)
Definition ring_end_anchored (s : list char) (bk : bond_kind) (r : rnumN) (bc a b : nat) : Prop :=
  a <= b /\ read_rnum (skipn a s) = TOk r (b - a) /\
  read_bond (skipn bc s) = (bk, a - bc) /\
  (if bondk_eqb bk BK_Elided then bc = a else bc + 1 = a).

Lemma anchored_ring_end s bk r bc a b : anchored s (RJoin bk r bc a b) -> ring_end_anchored s bk r bc a b.
Proof.
  cbn [anchored]. intros [Hab [Hr [Hle Hb]]]. unfold ring_end_anchored.
  split; [exact Hab|]. split; [exact Hr|]. split; [exact Hb|].
  pose proof (read_bond_width _ _ _ Hb) as Hw. destruct (bondk_eqb bk BK_Elided); lia.
Qed.

Theorem reader_ring_ends_anchored : forall s h1 bk1 r1 bc1 a1 b1 hmid bk2 r2 bc2 a2 b2 h2,
  r_events (read s) = h1 ++ RJoin bk1 r1 bc1 a1 b1 :: hmid ++ RJoin bk2 r2 bc2 a2 b2 :: h2 ->
  ring_end_anchored s bk1 r1 bc1 a1 b1 /\ ring_end_anchored s bk2 r2 bc2 a2 b2.
Proof.
  intros s h1 bk1 r1 bc1 a1 b1 hmid bk2 r2 bc2 a2 b2 h2 Ev.
  pose proof (reader_events_anchored s) as Ha. rewrite Ev in Ha. rewrite Forall_forall in Ha. split.
  - apply anchored_ring_end. apply Ha. apply in_or_app. right. left. reflexivity.
  - apply anchored_ring_end. apply Ha. apply in_or_app. right. right. apply in_or_app. right. left. reflexivity.
Qed.

(* the string-level statement: for an input s, every ring closure (an opening token r after an even number of tokens r,
   its matching closing token with no token r in between) yields the two directed entries, each pointing at its own
   end: the bond symbol before that end's ring token, else the first character of that ring token *)
Theorem reader_ring_bond_cursors : forall s t h1 bk1 r bc1 a1 b1 hmid bk2 bc2 a2 b2 h2,
  tfold trace0 (r_events (read s)) = Some t ->
  r_events (read s) = h1 ++ RJoin bk1 r bc1 a1 b1 :: hmid ++ RJoin bk2 r bc2 a2 b2 :: h2 ->
  jpar r h1 = false -> Forall (not_join r) hmid ->
  exists t1 sid1 sid2 t2 t3,
    tfold trace0 h1 = Some t1 /\ hd_error (t_stack t1) = Some sid1 /\
    tfold trace0 (h1 ++ RJoin bk1 r bc1 a1 b1 :: hmid) = Some t2 /\ hd_error (t_stack t2) = Some sid2 /\
    tstep t2 (RJoin bk2 r bc2 a2 b2) = Some t3 /\
    sid1 < length (atom_ranges h1) /\ sid2 < length (atom_ranges (h1 ++ RJoin bk1 r bc1 a1 b1 :: hmid)) /\
    trace_rnum t (length (rnum_ranges h1)) = Some (a1, b1) /\
    trace_rnum t (length (rnum_ranges (h1 ++ RJoin bk1 r bc1 a1 b1 :: hmid))) = Some (a2, b2) /\
    ring_end_anchored s bk1 r bc1 a1 b1 /\ ring_end_anchored s bk2 r bc2 a2 b2 /\
    (never_reclosed t3 h2 sid1 sid2 ->
       trace_bond t sid1 sid2 = Some (if bondk_eqb bk1 BK_Elided then a1 else a1 - 1) /\
       (sid1 <> sid2 -> trace_bond t sid2 sid1 = Some (if bondk_eqb bk2 BK_Elided then a2 else a2 - 1))).
Proof.
  intros s t h1 bk1 r bc1 a1 b1 hmid bk2 bc2 a2 b2 h2 E Ev Hpar Hmid.
  destruct (reader_ring_ends_anchored s _ _ _ _ _ _ _ _ _ _ _ _ _ Ev) as [An1 An2].
  rewrite Ev in E.
  destruct (ring_bond_stored_history h1 hmid h2 bk1 bk2 r bc1 a1 b1 bc2 a2 b2 t Hpar Hmid E)
    as [t1 [sid1 [sid2 [t2 [t3 [E1 [Hh1 [E2 [Hh2 [Es2 [L1 [L2 [R1 [R2 Hb]]]]]]]]]]]]]].
  exists t1, sid1, sid2, t2, t3.
  repeat (split; [assumption|]).
  intros Hn. destruct (Hb Hn) as [B1 B2].
  assert (C1 : bc1 = if bondk_eqb bk1 BK_Elided then a1 else a1 - 1).
  { destruct An1 as [_ [_ [_ Hc]]]. destruct (bondk_eqb bk1 BK_Elided); lia. }
  assert (C2 : bc2 = if bondk_eqb bk2 BK_Elided then a2 else a2 - 1).
  { destruct An2 as [_ [_ [_ Hc]]]. destruct (bondk_eqb bk2 BK_Elided); lia. }
  rewrite <- C1, <- C2. split; [exact B1 | exact B2].
Qed.

(* the hypotheses of the string-level theorem are satisfiable: it applies to C=1CC1 and gives both directed cursors *)
Example reader_ring_bond_cursors_applies : forall t, tfold trace0 (r_events (read c_eq_1cc1)) = Some t ->
  trace_bond t 0 2 = Some 1 /\ trace_bond t 2 0 = Some 5.
Proof.
  intros t E.
  assert (Ev : r_events (read c_eq_1cc1) =
               [RRoot (AK_Aliphatic Al_C) 0 1] ++ RJoin BK_Double 1%N 1 2 3 ::
               [RExtend BK_Elided (AK_Aliphatic Al_C) 3 3 4; RExtend BK_Elided (AK_Aliphatic Al_C) 4 4 5] ++ RJoin BK_Elided 1%N 5 5 6 :: [])
    by (vm_compute; reflexivity).
  destruct (reader_ring_bond_cursors c_eq_1cc1 t _ _ _ _ _ _ _ _ _ _ _ _ E Ev eq_refl ltac:(repeat constructor))
    as [t1 [sid1 [sid2 [t2 [t3 [E1 [Hh1 [E2 [Hh2 [_ [_ [_ [_ [_ [_ [_ Hb]]]]]]]]]]]]]]]].
  vm_compute in E1. inversion E1; subst t1. vm_compute in Hh1. inversion Hh1; subst sid1.
  vm_compute in E2. inversion E2; subst t2. vm_compute in Hh2. inversion Hh2; subst sid2.
  destruct (Hb I) as [B1 B2]. split; [exact B1 | apply B2; discriminate].
Qed.

(* ---------- 5. pairs without a bond event; pops ---------- *)
(* the event creates or overwrites the entries between atoms x and y *)
Definition links (t : trace) (e : rcall) (x y : nat) : Prop :=
  match e with
  | RExtend _ _ _ _ _ =>
      match t_stack t with
      | sid :: _ => (x = sid /\ y = length (t_atoms t)) \/ (x = length (t_atoms t) /\ y = sid)
      | [] => False
      end
  | _ => recloses t e x y
  end.
Fixpoint never_linked (t : trace) (h : list rcall) (x y : nat) : Prop :=
  match h with
  | [] => True
  | e :: h' => ~ links t e x y /\ match tstep t e with Some t' => never_linked t' h' x y | None => True end
  end.

Lemma tstep_stays_none t e t' x y : tstep t e = Some t' -> ~ links t e x y -> trace_bond t x y = None -> trace_bond t' x y = None.
Proof.
  rewrite !trace_bond_lookup. destruct e as [k a b|bk k bc a b|bk r bc a b|d]; cbn [tstep links recloses].
  - intros E; inversion E; subst; clear E. cbn [t_bonds]. auto.
  - destruct (t_stack t) as [|sid st]; [discriminate|]. intros E; inversion E; subst; clear E. cbn [t_bonds]. intros Hn Hc.
    rewrite !lookup_cons.
    destruct (Nat.eqb_spec (length (t_atoms t)) x) as [E1|N1]; destruct (Nat.eqb_spec sid y) as [E2|N2];
      destruct (Nat.eqb_spec sid x) as [E3|N3]; destruct (Nat.eqb_spec (length (t_atoms t)) y) as [E4|N4]; cbn [andb]; try exact Hc;
      exfalso; apply Hn; subst; auto.
  - destruct (t_stack t) as [|sid st]; [discriminate|].
    destruct (oget (t_opens t) r) as [o|]; intros E; inversion E; subst; clear E; cbn [t_bonds]; intros Hn Hc; [|exact Hc].
    rewrite !lookup_cons.
    destruct (Nat.eqb_spec (o_sid o) x) as [E1|N1]; destruct (Nat.eqb_spec sid y) as [E2|N2];
      destruct (Nat.eqb_spec sid x) as [E3|N3]; destruct (Nat.eqb_spec (o_sid o) y) as [E4|N4]; cbn [andb]; try exact Hc;
      exfalso; apply Hn; subst; auto.
  - destruct (length (t_stack t) <=? d); [discriminate|]. intros E; inversion E; subst; clear E. cbn [t_bonds]. auto.
Qed.
Lemma tfold_stays_none : forall h t t' x y, tfold t h = Some t' -> never_linked t h x y -> trace_bond t x y = None -> trace_bond t' x y = None.
Proof.
  induction h as [|e h IH]; intros t t' x y; cbn [tfold never_linked].
  - intros E; inversion E; subst. auto.
  - destruct (tstep t e) as [t1|] eqn:Es; [|discriminate]. intros E [Hn Hr] Hc.
    apply (IH t1 t' x y E Hr). exact (tstep_stays_none _ _ _ _ _ Es Hn Hc).
Qed.
(* a pair of atoms that never had a bond event maps to nothing ... *)
Theorem unlinked_bond_none : forall h t x y, tfold trace0 h = Some t -> never_linked trace0 h x y -> trace_bond t x y = None.
Proof. intros h t x y E Hn. apply (tfold_stays_none h trace0 t x y E Hn). reflexivity. Qed.
(* ... so every entry was put there by an extend or a ring closure between these two atoms *)
Corollary bond_entry_has_event : forall h t x y c, tfold trace0 h = Some t -> trace_bond t x y = Some c -> ~ never_linked trace0 h x y.
Proof. intros h t x y c E Hc Hn. rewrite (unlinked_bond_none h t x y E Hn) in Hc. discriminate. Qed.

(* keys of the bond map are ids of existing atoms *)
Definition bkeys (t : trace) : Prop :=
  Forall (fun p => fst (fst p) < length (t_atoms t) /\ snd (fst p) < length (t_atoms t)) (t_bonds t).
Lemma tstep_bkeys t e t' : twf t -> bkeys t -> tstep t e = Some t' -> bkeys t'.
Proof.
  intros [Hs Ho] Hk. unfold bkeys in *. destruct e as [k a b|bk k bc a b|bk r bc a b|d]; cbn [tstep].
  - intros E; inversion E; subst; clear E. cbn [t_atoms t_bonds]. rewrite app_length. cbn [length].
    eapply Forall_impl; [|exact Hk]. cbv beta. intros p [H1 H2]. split; lia.
  - destruct (t_stack t) as [|sid st] eqn:Est; [discriminate|]. intros E; inversion E; subst; clear E.
    cbn [t_atoms t_bonds]. rewrite app_length. cbn [length]. assert (Hsid : sid < length (t_atoms t)) by (inversion Hs; assumption).
    constructor; [cbn [fst snd]; split; lia|]. constructor; [cbn [fst snd]; split; lia|].
    eapply Forall_impl; [|exact Hk]. cbv beta. intros p [H1 H2]. split; lia.
  - destruct (t_stack t) as [|sid st] eqn:Est; [discriminate|]. assert (Hsid : sid < length (t_atoms t)) by (inversion Hs; assumption).
    destruct (oget (t_opens t) r) as [o|] eqn:Eo; intros E; inversion E; subst; clear E; cbn [t_atoms t_bonds]; [|exact Hk].
    destruct (oget_Forall _ _ _ _ Ho Eo) as [q Hq]. cbn [snd] in Hq.
    constructor; [cbn [fst snd]; split; lia|]. constructor; [cbn [fst snd]; split; lia|]. exact Hk.
  - destruct (length (t_stack t) <=? d); [discriminate|]. intros E; inversion E; subst; clear E. exact Hk.
Qed.
Lemma tfold_bkeys : forall h t t', twf t -> bkeys t -> tfold t h = Some t' -> bkeys t'.
Proof.
  induction h as [|e h IH]; intros t t' Hw Hk; cbn [tfold].
  - intros E; inversion E; subst. exact Hk.
  - destruct (tstep t e) as [t1|] eqn:Es; [|discriminate]. intros E.
    exact (IH t1 t' (proj1 (tstep_twf _ _ _ Hw Es)) (tstep_bkeys _ _ _ Hw Hk Es) E).
Qed.
Lemma lookup_out_of_range n : forall l x y, Forall (fun p : (nat * nat) * nat => fst (fst p) < n /\ snd (fst p) < n) l ->
  n <= x \/ n <= y -> lookup l x y = None.
Proof.
  induction l as [|[[u v] c] l IH]; intros x y Hf Hxy; [reflexivity|]. inversion Hf as [|p l' [Hu Hv] Hl]; subst. cbn [fst snd] in Hu, Hv.
  rewrite lookup_cons.
  destruct (Nat.eqb_spec u x) as [E1|N1]; destruct (Nat.eqb_spec v y) as [E2|N2]; cbn [andb]; try (apply IH; assumption).
  exfalso. lia.
Qed.
(* ids past the last atom have no bond entry *)
Theorem trace_bond_past : forall h t x y, tfold trace0 h = Some t ->
  length (atom_ranges h) <= x \/ length (atom_ranges h) <= y -> trace_bond t x y = None.
Proof.
  intros h t x y E Hxy. pose proof (tfold_bkeys h trace0 t twf0 ltac:(constructor) E) as Hk.
  rewrite trace_bond_lookup. apply (lookup_out_of_range (length (t_atoms t))); [exact Hk|].
  rewrite (proj1 (trace_stores_ranges _ _ E)). exact Hxy.
Qed.
(* RPop changes the stack only *)
Theorem pop_changes_only_stack : forall t d t', tstep t (RPop d) = Some t' ->
  t_atoms t' = t_atoms t /\ t_bonds t' = t_bonds t /\ t_rnums t' = t_rnums t /\ t_opens t' = t_opens t /\
  t_stack t' = skipn d (t_stack t) /\ d < length (t_stack t).
Proof.
  intros t d t'. cbn [tstep]. destruct (Nat.leb_spec (length (t_stack t)) d) as [Hle|Hlt]; [discriminate|].
  intros E; inversion E; subst; clear E. cbn [t_atoms t_bonds t_rnums t_opens t_stack]. repeat split; try reflexivity. exact Hlt.
Qed.
Corollary pop_changes_no_entry : forall t d t', tstep t (RPop d) = Some t' ->
  (forall x y, trace_bond t' x y = trace_bond t x y) /\ (forall i, trace_atom t' i = trace_atom t i) /\
  (forall i, trace_rnum t' i = trace_rnum t i).
Proof.
  intros t d t' E. destruct (pop_changes_only_stack t d t' E) as [Ha [Hb [Hr _]]].
  unfold trace_bond, trace_atom, trace_rnum. rewrite Ha, Hb, Hr. repeat split; reflexivity.
Qed.
(* a run of pops changes no entry: e.g. the maps of the final trace are those of the history without its trailing pops *)
Corollary trailing_pops_change_no_entry : forall pops t t', Forall (fun e => exists d, e = RPop d) pops -> tfold t pops = Some t' ->
  (forall x y, trace_bond t' x y = trace_bond t x y) /\ (forall i, trace_atom t' i = trace_atom t i) /\
  (forall i, trace_rnum t' i = trace_rnum t i).
Proof.
  induction pops as [|e pops IH]; intros t t' Hf; cbn [tfold].
  - intros E; inversion E; subst. repeat split; reflexivity.
  - inversion Hf as [|e' l' [d He] Hrest]; subst. destruct (tstep t (RPop d)) as [t1|] eqn:Es; [|discriminate]. intros E.
    destruct (pop_changes_no_entry _ _ _ Es) as [P1 [P2 P3]]. destruct (IH t1 t' Hrest E) as [Q1 [Q2 Q3]].
    repeat split; intros; [rewrite Q1; apply P1 | rewrite Q2; apply P2 | rewrite Q3; apply P3].
Qed.

Print Assumptions ring_bond_stored.
Print Assumptions ring_bond_cursors.
Print Assumptions ring_bond_stored_history.
Print Assumptions open_iff_odd.
Print Assumptions reader_ring_ends_anchored.
Print Assumptions reader_ring_bond_cursors.
Print Assumptions unlinked_bond_none.
Print Assumptions trace_bond_past.
Print Assumptions pop_changes_no_entry.
Print Assumptions trailing_pops_change_no_entry.
