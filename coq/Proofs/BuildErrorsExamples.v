(* C10, error half: the declarative definitions of Spec/BuildErrors.v exercised by hand on concrete strings (no appeal to
   the executable denotation), then the theorems of Proofs/BuildErrors.v instantiated on the same strings. *)
From Coq Require Import List NArith Lia Bool Arith String.
Import ListNotations.
Require Import P.Generated.Trees P.Generated.Enums P.Spec.Values P.Model.Base P.Model.Token P.Model.Reader P.Model.Builder
  P.Proofs.C09_Inverse P.Spec.Denote P.Spec.BuildErrors P.Proofs.BuildErrorsRank P.Proofs.BuildErrors.
Strategy opaque [tree_symbol tree_organic tree_configuration tree_charge tree_bond tree_rnum tree_hcount tree_isotope tree_map].
Open Scope string_scope.

Definition syn (s : string) : kind * body := match syntax_of (snd (rd (chars s))) with Some p => p | None => (AK_Star, BNil) end.
Definition toks (s : string) : list ringocc := ring_tokens (snd (syn s)).
Definition tbs (s : string) : list (nat * nat) := tree_bonds (snd (syn s)).
Definition den (s : string) : dres := denote (fst (syn s)) (snd (syn s)).
Definition E := BK_Elided.

(* the tokens and tree bonds of the examples *)
Example toks_1 : toks "C11" = [(0, 0, 1%N, E); (1, 0, 1%N, E)] /\ tbs "C11" = []. Proof. vm_compute. auto. Qed.
Example toks_2 : toks "C1C1" = [(0, 0, 1%N, E); (1, 1, 1%N, E)] /\ tbs "C1C1" = [(1, 0)]. Proof. vm_compute. auto. Qed.
Example toks_3 : toks "C12CC12" = [(0, 0, 1%N, E); (1, 0, 2%N, E); (2, 2, 1%N, E); (3, 2, 2%N, E)] /\ tbs "C12CC12" = [(1, 0); (2, 1)].
Proof. vm_compute. auto. Qed.
Example toks_4 : toks "C=1CC#1" = [(0, 0, 1%N, BK_Double); (1, 2, 1%N, BK_Triple)] /\ tbs "C=1CC#1" = [(1, 0); (2, 1)]. Proof. vm_compute. auto. Qed.
Example toks_5 : toks "C/1CC/1" = [(0, 0, 1%N, BK_Up); (1, 2, 1%N, BK_Up)]. Proof. vm_compute. auto. Qed.
Example toks_6 : toks "C(C1)1" = [(0, 1, 1%N, E); (1, 0, 1%N, E)] /\ tbs "C(C1)1" = [(1, 0)]. Proof. vm_compute. auto. Qed.
Example toks_7 : toks "C1CC1C1" = [(0, 0, 1%N, E); (1, 2, 1%N, E); (2, 3, 1%N, E)]. Proof. vm_compute. auto. Qed.
Example toks_8 : toks "C1C2CC1" = [(0, 0, 1%N, E); (1, 1, 2%N, E); (2, 3, 1%N, E)]. Proof. vm_compute. auto. Qed.
Example toks_9 : toks "C=1%11CCC#1%11" = [(0, 0, 1%N, BK_Double); (1, 0, 11%N, E); (2, 3, 1%N, BK_Triple); (3, 3, 11%N, E)] /\
                 tbs "C=1%11CCC#1%11" = [(1, 0); (2, 1); (3, 2)]. Proof. vm_compute. auto. Qed.

(* by hand: a closure over a concrete token list *)
Ltac clo r := exists r; split; [reflexivity|]; split; [reflexivity|]; split; [lia|]; split; [apply Nat.even_spec; reflexivity | reflexivity].
(* by hand: enumerate the closures completed strictly before a concrete token *)
Ltac earlier :=
  let i' := fresh "i" in let j' := fresh "j" in let r := fresh "r" in let Ti := fresh "Ti" in let Tj := fresh "Tj" in let Hij := fresh "Hij" in
  intros i' ? ? j' ? ? ? [r [Ti [Tj [Hij _]]]] ?;
  repeat (destruct j' as [|j']; [| try lia]); try lia;
  repeat (destruct i' as [|i']; [| try lia]); try lia;
  unfold token in Ti, Tj; cbn [nth_error] in Ti, Tj; inversion Ti; subst; inversion Tj; subst.

Example self_bond : bad_closure [(0, 0, 1%N, E); (1, 0, 1%N, E)] [] 1.                                          (* C11 *)
Proof. apply (bad_self _ _ 0 0 E 1 0 E); [clo 1%N | reflexivity]. Qed.
Example second_bond_tree : bad_closure [(0, 0, 1%N, E); (1, 1, 1%N, E)] [(1, 0)] 1.                               (* C1C1 *)
Proof. apply (bad_tree _ _ 0 0 E 1 1 E); [clo 1%N | left; left; reflexivity]. Qed.
Example second_bond_tree_rev : bad_closure [(0, 1, 1%N, E); (1, 0, 1%N, E)] [(1, 0)] 1.                           (* C(C1)1 *)
Proof. apply (bad_tree _ _ 0 1 E 1 0 E); [clo 1%N | right; left; reflexivity]. Qed.
Definition rg3 := [(0, 0, 1%N, E); (1, 0, 2%N, E); (2, 2, 1%N, E); (3, 2, 2%N, E)].
Example first_ring_made : makes_bond rg3 [(1, 0); (2, 1)] 2.                                                       (* C12CC12, ring 1 *)
Proof.
  apply (mb_intro _ _ 0 0 E 2 2 E); [clo 1%N | discriminate | | exists E, E; apply rc_same; intros [H|H]; discriminate |].
  - intros [[H|[H|[]]]|[H|[H|[]]]]; discriminate.
  - earlier.
Qed.
Example second_bond_ring : bad_closure rg3 [(1, 0); (2, 1)] 3.                                                     (* C12CC12, ring 2 *)
Proof. apply (bad_again _ _ 1 0 E 3 2 E 0 0 E 2 2 E); [clo 2%N | lia | clo 1%N | left; auto | exact first_ring_made]. Qed.
Example kinds_differ : bad_closure [(0, 0, 1%N, BK_Double); (1, 2, 1%N, BK_Triple)] [(1, 0); (2, 1)] 1.            (* C=1CC#1 *)
Proof. apply (bad_kinds _ _ 0 0 BK_Double 1 2 BK_Triple); [clo 1%N | intros l r H; inversion H]. Qed.
Example two_ups : bad_closure [(0, 0, 1%N, BK_Up); (1, 2, 1%N, BK_Up)] [(1, 0); (2, 1)] 1.                         (* C/1CC/1 *)
Proof.
  apply (bad_kinds _ _ 0 0 BK_Up 1 2 BK_Up); [clo 1%N|]. intros l r H. inversion H as [b Hd|b Hd|b Hd|b Hd Eb Ef]; subst.
  apply Hd. left. reflexivity.
Qed.
Example up_down_fine : reconciled BK_Up BK_Down BK_Up BK_Down /\ reconciled BK_Down BK_Up BK_Down BK_Up /\
  reconciled E BK_Up BK_Down BK_Up /\ reconciled BK_Up E BK_Up BK_Down /\ reconciled E BK_Double BK_Double BK_Double /\ reconciled E E E E.
Proof.
  split; [exact (rc_up_down BK_Up (or_introl eq_refl))|]. split; [exact (rc_up_down BK_Down (or_intror eq_refl))|].
  split; [apply (rc_opening_elided BK_Up); discriminate|]. split; [apply (rc_closing_elided BK_Up); discriminate|].
  split; [apply (rc_opening_elided BK_Double); discriminate|]. apply rc_same. intros [H|H]; discriminate.
Qed.
(* a failed closure makes no bond: after = against # on ring 1, ring 11 between the same two atoms goes through *)
Definition rg9 := [(0, 0, 1%N, BK_Double); (1, 0, 11%N, E); (2, 3, 1%N, BK_Triple); (3, 3, 11%N, E)].
Example failed_then_made : bad_closure rg9 [(1, 0); (2, 1); (3, 2)] 2 /\ makes_bond rg9 [(1, 0); (2, 1); (3, 2)] 3.
Proof.
  assert (B : bad_closure rg9 [(1, 0); (2, 1); (3, 2)] 2) by (apply (bad_kinds _ _ 0 0 BK_Double 2 3 BK_Triple); [clo 1%N | intros l r H; inversion H]).
  split; [exact B|].
  apply (mb_intro _ _ 1 0 E 3 3 E); [clo 11%N | discriminate | | exists E, E; apply rc_same; intros [H|H]; discriminate |].
  - intros [[H|[H|[H|[]]]]|[H|[H|[H|[]]]]]; discriminate.
  - earlier; exact B.
Qed.
Example unmatched_0 : unmatched [(0, 0, 1%N, E)] 0.                                                                (* C1CC *)
Proof. exists 0, 1%N, E. split; [reflexivity|]. split; [apply Nat.even_spec; reflexivity|]. intros [|[|j]] a b Hj T; try lia; discriminate. Qed.
Example unmatched_2 : unmatched [(0, 0, 1%N, E); (1, 2, 1%N, E); (2, 3, 1%N, E)] 2 /\                              (* C1CC1C1 *)
  ~ unmatched [(0, 0, 1%N, E); (1, 2, 1%N, E); (2, 3, 1%N, E)] 0 /\ closes [(0, 0, 1%N, E); (1, 2, 1%N, E); (2, 3, 1%N, E)] 0 1.
Proof.
  split; [|split].
  - exists 3, 1%N, E. split; [reflexivity|]. split; [apply Nat.even_spec; reflexivity|]. intros [|[|[|[|j]]]] a b Hj T; try lia; discriminate.
  - intros [a [r [b [T [_ H]]]]]. inversion T; subst. apply (H 1 2 E); [lia | reflexivity].
  - exists 0, E, 2, E. clo 1%N.
Qed.
Example unmatched_1 : unmatched [(0, 0, 1%N, E); (1, 1, 2%N, E); (2, 3, 1%N, E)] 1.                                (* C1C2CC1 *)
Proof. exists 1, 2%N, E. split; [reflexivity|]. split; [apply Nat.even_spec; reflexivity|]. intros [|[|[|[|j]]]] a b Hj T; try lia; discriminate. Qed.
(* a number used again: 1st-2nd and 3rd-4th, not 2nd-3rd *)
Example reuse : let rg := [(0, 0, 1%N, E); (1, 2, 1%N, E); (2, 3, 1%N, E); (3, 5, 1%N, E)] in
  closes rg 0 1 /\ closes rg 2 3 /\ ~ closes rg 1 2 /\ ~ closes rg 0 3.                                            (* C1CC1C1CC1 *)
Proof.
  cbv zeta. split; [exists 0, E, 2, E; clo 1%N|]. split; [exists 3, E, 5, E; clo 1%N|].
  split; intros [a0 [b0 [a [b [r [Ti [Tj [_ [He Hr]]]]]]]]]; inversion Ti; subst.
  - apply Nat.even_spec in He. discriminate.
  - discriminate.
Qed.

(* ---------- the theorems on the same strings ---------- *)
Ltac by_theorem := match goal with |- context [toks ?s] => unfold toks, tbs; apply denote_join_iff with (k0 := fst (syn s)); vm_compute; reflexivity end.
Example thm_1 : exists j, first_bad_closure (toks "C11") (tbs "C11") j 0 0. Proof. by_theorem. Qed.
Example thm_2 : exists j, first_bad_closure (toks "C1C1") (tbs "C1C1") j 1 0. Proof. by_theorem. Qed.
Example thm_3 : exists j, first_bad_closure (toks "C12CC12") (tbs "C12CC12") j 2 0. Proof. by_theorem. Qed.
Example thm_4 : exists j, first_bad_closure (toks "C=1CC#1") (tbs "C=1CC#1") j 2 0. Proof. by_theorem. Qed.
Example thm_5 : exists j, first_bad_closure (toks "C/1CC/1") (tbs "C/1CC/1") j 2 0. Proof. by_theorem. Qed.
Example thm_6 : exists j, first_bad_closure (toks "C(C1)1") (tbs "C(C1)1") j 0 1. Proof. by_theorem. Qed.
Ltac by_theorem_ok := match goal with |- context [toks ?s] => unfold toks, tbs; apply denote_ok_iff with (k0 := fst (syn s)); eexists; vm_compute; reflexivity end.
Example thm_7 : no_bad_closure (toks "C/1CC\1") (tbs "C/1CC\1") /\ forall i, ~ unmatched (toks "C/1CC\1") i. Proof. by_theorem_ok. Qed.
Example thm_8 : no_bad_closure (toks "C1CC1C1CC1") (tbs "C1CC1C1CC1") /\ forall i, ~ unmatched (toks "C1CC1C1CC1") i. Proof. by_theorem_ok. Qed.
Example thm_9 : no_bad_closure (toks "C1.C1") (tbs "C1.C1") /\ forall i, ~ unmatched (toks "C1.C1") i. Proof. by_theorem_ok. Qed.
Ltac by_theorem_un l := match goal with |- context [toks ?s] => unfold toks, tbs; apply (proj1 (denote_unmatched_iff (fst (syn s)) (snd (syn s)) l)); vm_compute; reflexivity end.
Example thm_10 : no_bad_closure (toks "C1CC") (tbs "C1CC") /\ [0] <> [] /\ decreasing [0] /\ forall i, In i [0] <-> unmatched (toks "C1CC") i. Proof. by_theorem_un [0]. Qed.
Example thm_11 : no_bad_closure (toks "C1CC1C1") (tbs "C1CC1C1") /\ [2] <> [] /\ decreasing [2] /\ forall i, In i [2] <-> unmatched (toks "C1CC1C1") i. Proof. by_theorem_un [2]. Qed.
Example thm_12 : no_bad_closure (toks "C1C2CC1") (tbs "C1C2CC1") /\ [1] <> [] /\ decreasing [1] /\ forall i, In i [1] <-> unmatched (toks "C1C2CC1") i. Proof. by_theorem_un [1]. Qed.
Example thm_13 : no_bad_closure (toks "C1C2C3") (tbs "C1C2C3") /\ [2; 1; 0] <> [] /\ decreasing [2; 1; 0] /\ forall i, In i [2; 1; 0] <-> unmatched (toks "C1C2C3") i. Proof. by_theorem_un [2; 1; 0]. Qed.
