(* C05, locality of the reader: a verdict "character i" depends only on the first i+1 characters of the input.
   Two runs of Model/Reader.v on inputs that agree up to position n stay in lockstep (same results, same cursors)
   as long as the run on the first input stays below n; the fuel of the two runs may differ. *)
From Coq Require Import String.
From Coq Require Import List NArith Lia Bool Arith.
Import ListNotations.
Require Import P.Generated.Enums P.Meta.Scan P.Spec.Values P.Spec.Reading P.Generated.Trees
  P.Model.Base P.Model.Token P.Model.Reader P.Proofs.ReaderSafe
  P.Spec.Lang P.Proofs.LangTokens P.Proofs.LangAtoms P.Proofs.LangSound P.Proofs.LangComplete P.Proofs.LangViable P.Proofs.LangViableReader P.Proofs.LangLocal.
Strategy opaque [tree_symbol tree_organic tree_configuration tree_charge tree_bond tree_rnum tree_hcount tree_isotope tree_map].

(* ---------- cursors only move forward ---------- *)
Definition mono {A} (st : rstate) (x : rres A * rstate) : Prop :=
  match fst x with ROk _ => pos st <= pos (snd x) | RErrChar i => pos st <= i | _ => True end.
Lemma consumed_pos L st st' : consumed L st st' -> pos st <= pos st' /\ length (rest st') + (pos st' - pos st) = length (rest st).
Proof. intros [x [_ [Hr Hp]]]. rewrite Hr, app_length. unfold char in *. lia. Qed.
Lemma link_mono input st : mono st (read_link input st).
Proof.
  pose proof (link_ok input st) as H. unfold link_post, mono in *. destruct (fst (read_link input st)) as [[|]| |i| |]; try exact I.
  - apply (consumed_pos _ _ _ H).
  - destruct H as [_ H]. lia.
  - destruct H as [H _]. exact H.
Qed.

Section Sim.
Variable n : nat.
Definition Rel (st su : rstate) : Prop :=
  pos su = pos st /\ out su = out st /\ maxd su = maxd st /\ firstn (n - pos st) (rest st) = firstn (n - pos st) (rest su).
Definition ncross {A} (x : rres A * rstate) : Prop :=
  match fst x with ROk _ => pos (snd x) < n | RErrChar j => j < n | _ => False end.
Lemma ncross_start {A} st (x : rres A * rstate) : mono st x -> ncross x -> pos st < n.
Proof. unfold mono, ncross. destruct (fst x); intros; try contradiction; lia. Qed.

Lemma Rel_adv st su m : Rel st su -> Rel (adv st m) (adv su m).
Proof.
  intros [Hp [Ho [Hm Hf]]]. unfold Rel, adv. cbn [pos out maxd rest]. split; [lia|]. split; [exact Ho|]. split; [exact Hm|].
  destruct (le_lt_dec m (n - pos st)) as [Hle|Hlt].
  - apply firstn_skipn_agree. apply (firstn_le _ _ _ (n - pos st)); [lia | exact Hf].
  - replace (n - (pos st + m)) with 0 by lia. reflexivity.
Qed.
Lemma Rel_emit st su e : Rel st su -> Rel (emit st e) (emit su e).
Proof. intros [Hp [Ho [Hm Hf]]]. unfold Rel, emit. cbn [pos out maxd rest]. rewrite Ho. auto. Qed.
Lemma Rel_head st su : Rel st su -> pos st < n -> hd_error (rest su) = hd_error (rest st).
Proof. intros [_ [_ [_ Hf]]] Hlt. symmetry. apply head_agree. apply (firstn_le _ _ _ (n - pos st)); [lia | exact Hf]. Qed.
Lemma Rel_peek st su : Rel st su -> pos st < n -> peek su = peek st.
Proof. apply Rel_head. Qed.
Lemma Rel_miss {A} st su : Rel st su -> pos st < n -> @missing_character A su = @missing_character A st.
Proof.
  intros HR Hlt. pose proof (Rel_head st su HR Hlt) as Hh. destruct HR as [Hp _]. unfold missing_character. rewrite Hp.
  destruct (rest st), (rest su); cbn [hd_error] in Hh; try discriminate; reflexivity.
Qed.
Lemma Rel_tok {A} (rd : list N -> tok A) st su e : tok_loc rd -> Rel st su -> ext (rd (rest st)) = Some e -> pos st + e < n ->
  rd (rest su) = rd (rest st).
Proof. intros Hl [_ [_ [_ Hf]]] He Hlt. apply (Hl _ _ e He). apply (firstn_le _ _ _ (n - pos st)); [lia | exact Hf]. Qed.
Lemma Rel_bond st su : Rel st su -> pos st + snd (read_bond (rest st)) < n -> read_bond (rest su) = read_bond (rest st).
Proof. intros [_ [_ [_ Hf]]] Hlt. apply bond_loc. apply (firstn_le _ _ _ (n - pos st)); [lia | exact Hf]. Qed.
Lemma pos_adv st m : pos (adv st m) = pos st + m. Proof. reflexivity. Qed.

(* ---------- read_link ---------- *)
Lemma sim_link input st su : Rel st su -> ncross (read_link input st) ->
  fst (read_link input su) = fst (read_link input st) /\ Rel (snd (read_link input st)) (snd (read_link input su)).
Proof.
  intros HR Hn. pose proof HR as [Hp _]. unfold read_link in *.
  destruct (read_atom (rest st)) as [k m| | |j|] eqn:E; unfold ncross in Hn; cbn [fst snd tok_err emit adv pos] in Hn; try contradiction.
  - rewrite (Rel_tok read_atom st su m atom_loc HR) by (first [rewrite E; reflexivity | lia]). rewrite E. cbn [fst snd]. split; [reflexivity|].
    cbn [adv pos]. rewrite Hp. apply Rel_emit, Rel_adv. exact HR.
  - rewrite (Rel_tok read_atom st su 0 atom_loc HR) by (first [rewrite E; reflexivity | lia]). rewrite E. cbn [fst snd]. auto.
  - rewrite (Rel_tok read_atom st su j atom_loc HR) by (first [rewrite E; reflexivity | lia]). rewrite E. cbn [fst snd tok_err]. rewrite Hp. auto.
Qed.

(* ---------- the loop, for two readers of the nested chains ---------- *)
Section Loop.
Variable rs rs' : option bond_kind -> rstate -> rres (option nat) * rstate.
Variable F' : nat.
Hypothesis rs_post : forall input st, smiles_post st (rs input st).
Hypothesis rs'_post : forall input st, smiles_post st (rs' input st).
Hypothesis rs_sim : forall input st su, Rel st su -> lr su < F' -> ncross (rs input st) ->
  fst (rs' input su) = fst (rs input st) /\ Rel (snd (rs input st)) (snd (rs' input su)).

Lemma rs_mono input st : mono st (rs input st).
Proof.
  pose proof (rs_post input st) as H. unfold smiles_post, mono in *. destruct (fst (rs input st)) as [[k|]| |i| |]; try exact I.
  - apply (consumed_pos _ _ _ H).
  - destruct H as [_ H]. lia.
  - destruct H as [H _]. exact H.
Qed.
Lemma branch_mono st : mono st (read_branch rs st).
Proof.
  pose proof (branch_ok rs rs_post st) as H. unfold branch_post, mono in *. destruct (fst (read_branch rs st)) as [[|]| |i| |]; try exact I.
  - apply (consumed_pos _ _ _ H).
  - destruct H as [_ H]. lia.
  - destruct H as [H _]. exact H.
Qed.
Lemma loop_mono g st acc : mono st (loop rs g st acc).
Proof.
  pose proof (loop_ok rs rs_post g st acc) as H. unfold loop_post, mono in *. destruct (fst (loop rs g st acc)) as [[k|]| |i| |]; try exact I.
  - apply (consumed_pos _ _ _ H).
  - contradiction.
  - destruct H as [H _]. exact H.
Qed.

Definition tail (r : option bond_kind -> rstate -> rres (option nat) * rstate) (input : option bond_kind) (s2 : rstate) : rres bool * rstate :=
  match r input s2 with
  | (ROk (Some len), s) =>
      match peek s with
      | Some c'' => if N.eqb c'' RP then (ROk true, emit (adv s 1) (RPop len)) else (missing_character s, s)
      | None => (missing_character s, s)
      end
  | (ROk None, s) => (missing_character s, s)
  | (RErrEol, s) => (RErrEol, s) | (RErrChar i, s) => (RErrChar i, s) | (RPanic, s) => (RPanic, s) | (RFuel, s) => (RFuel, s)
  end.
Lemma miss_cases {A} s : @missing_character A s = RErrEol \/ @missing_character A s = RErrChar (pos s).
Proof. unfold missing_character. destruct (rest s); auto. Qed.
Lemma tail_inner input s2 : ncross (tail rs input s2) -> ncross (rs input s2).
Proof.
  unfold tail, ncross. destruct (rs input s2) as [[[len|]| |i| |] s3]; cbn [fst snd]; try tauto.
  - destruct (peek s3) as [c''|]; [destruct (N.eqb c'' RP)|]; cbn [fst snd emit adv pos]; try lia;
      destruct (@miss_cases bool s3) as [E|E]; rewrite E; tauto.
  - destruct (@miss_cases bool s3) as [E|E]; rewrite E; tauto.
Qed.
Lemma tail_mono input s2 : mono s2 (tail rs input s2).
Proof.
  pose proof (rs_mono input s2) as H. unfold tail, mono in *. destruct (rs input s2) as [[[len|]| |i| |] s3]; cbn [fst snd] in *; try exact I; try exact H.
  - destruct (peek s3) as [c''|]; [destruct (N.eqb c'' RP)|]; cbn [fst snd emit adv pos]; try lia;
      destruct (@miss_cases bool s3) as [E|E]; rewrite E; cbn; try exact I; lia.
  - destruct (@miss_cases bool s3) as [E|E]; rewrite E; cbn; try exact I; lia.
Qed.
Lemma sim_tail input s2 u2 : Rel s2 u2 -> lr u2 < F' -> ncross (tail rs input s2) ->
  fst (tail rs' input u2) = fst (tail rs input s2) /\ Rel (snd (tail rs input s2)) (snd (tail rs' input u2)).
Proof.
  intros HR Hlr Hn. pose proof (tail_inner input s2 Hn) as Hin. destruct (rs_sim input s2 u2 HR Hlr Hin) as [Hf HR3].
  unfold tail in *. destruct (rs input s2) as [r s3]. destruct (rs' input u2) as [r' u3]. cbn [fst snd] in Hf, HR3, Hin. subst r'.
  unfold ncross in Hin. cbn [fst snd] in Hin.
  destruct r as [[len|]| |i| |]; try contradiction.
  - rewrite (Rel_peek s3 u3 HR3 Hin). destruct (peek s3) as [c''|].
    + destruct (N.eqb c'' RP); cbn [fst snd].
      * split; [reflexivity | apply Rel_emit, Rel_adv; exact HR3].
      * rewrite (Rel_miss s3 u3 HR3 Hin). auto.
    + cbn [fst snd]. rewrite (Rel_miss s3 u3 HR3 Hin). auto.
  - cbn [fst snd]. assert (Hlt : pos s3 < n).
    { unfold ncross in Hn. cbn [fst snd] in Hn. destruct (@miss_cases bool s3) as [E|E]; rewrite E in Hn; [contradiction | exact Hn]. }
    rewrite (Rel_miss s3 u3 HR3 Hlt). auto.
  - cbn [fst snd]. auto.
Qed.

Lemma branch_is_tail (r : option bond_kind -> rstate -> rres (option nat) * rstate) st :
  read_branch r st =
  match peek st with
  | Some c => if N.eqb c LP then
                match peek (adv st 1) with
                | Some c' => if N.eqb c' DOT then tail r None (adv (adv st 1) 1)
                             else tail r (Some (fst (read_bond (rest (adv st 1))))) (adv (adv st 1) (snd (read_bond (rest (adv st 1)))))
                | None => tail r (Some (fst (read_bond (rest (adv st 1))))) (adv (adv st 1) (snd (read_bond (rest (adv st 1)))))
                end
              else (ROk false, st)
  | None => (ROk false, st)
  end.
Proof.
  unfold read_branch, tail. destruct (peek st) as [c|]; [|reflexivity]. destruct (N.eqb c LP); [|reflexivity].
  destruct (peek (adv st 1)) as [c'|]; [destruct (N.eqb c' DOT); [reflexivity|]|]; destruct (read_bond (rest (adv st 1))) as [b m]; reflexivity.
Qed.

Lemma sim_branch st su : Rel st su -> lr su < F' -> ncross (read_branch rs st) ->
  fst (read_branch rs' su) = fst (read_branch rs st) /\ Rel (snd (read_branch rs st)) (snd (read_branch rs' su)).
Proof.
  intros HR Hlr Hn. pose proof (ncross_start st _ (branch_mono st) Hn) as Hlt.
  rewrite (branch_is_tail rs st) in *. rewrite (branch_is_tail rs' su). rewrite (Rel_peek st su HR Hlt).
  destruct (peek st) as [c|]; [|cbn [fst snd]; auto]. destruct (N.eqb c LP); [|cbn [fst snd]; auto].
  pose proof (Rel_adv st su 1 HR) as HR1. set (s1 := adv st 1) in *. set (u1 := adv su 1) in *.
  assert (Hlr1 : lr u1 < F') by (pose proof (lr_adv su 1); unfold u1; lia).
  assert (Hp1 : pos s1 = pos st + 1) by reflexivity.
  assert (Hbond : ncross (tail rs (Some (fst (read_bond (rest s1)))) (adv s1 (snd (read_bond (rest s1))))) ->
     fst (tail rs' (Some (fst (read_bond (rest u1)))) (adv u1 (snd (read_bond (rest u1))))) = fst (tail rs (Some (fst (read_bond (rest s1)))) (adv s1 (snd (read_bond (rest s1))))) /\
     Rel (snd (tail rs (Some (fst (read_bond (rest s1)))) (adv s1 (snd (read_bond (rest s1)))))) (snd (tail rs' (Some (fst (read_bond (rest u1)))) (adv u1 (snd (read_bond (rest u1))))))).
  { intros Hn2. pose proof (ncross_start _ _ (tail_mono _ _) Hn2) as Hlt2. rewrite pos_adv in Hlt2.
    rewrite (Rel_bond s1 u1 HR1 Hlt2).
    apply sim_tail; [apply Rel_adv; exact HR1 | pose proof (lr_adv u1 (snd (read_bond (rest s1)))); lia | exact Hn2]. }
  assert (Hlt1 : pos s1 < n).
  { destruct (peek s1) as [c'|]; [destruct (N.eqb c' DOT)|]; pose proof (ncross_start _ _ (tail_mono _ _) Hn) as Hlt2; rewrite pos_adv in Hlt2; lia. }
  rewrite (Rel_peek s1 u1 HR1 Hlt1).
  destruct (peek s1) as [c'|] eqn:Ep1; [|apply Hbond; exact Hn].
  destruct (N.eqb c' DOT) eqn:Ed; [|apply Hbond; exact Hn].
  apply sim_tail; [apply Rel_adv; exact HR1 | pose proof (lr_adv u1 1); lia | exact Hn].
Qed.

(* progress of the second run *)
Lemma lr_consumed L su u1 : consumed L su u1 -> (forall x, L x -> 1 <= length x) -> lr u1 < lr su.
Proof. intros [x [Hx [Hr Hp]]] Hl. unfold lr. rewrite Hr, app_length. specialize (Hl x Hx). unfold char in *. lia. Qed.
Lemma lr_same su u1 : same_place su u1 -> lr u1 = lr su.
Proof. intros [Hr _]. unfold lr. rewrite Hr. reflexivity. Qed.

Lemma sim_loop : forall g g' st su acc, Rel st su -> lr su < F' -> lr su < g' -> ncross (loop rs g st acc) ->
  fst (loop rs' g' su acc) = fst (loop rs g st acc) /\ Rel (snd (loop rs g st acc)) (snd (loop rs' g' su acc)).
Proof.
  induction g as [|g IH]; intros g' st su acc HR Hlr Hg Hn; [unfold ncross in Hn; cbn in Hn; contradiction|].
  destruct g' as [|g']; [lia|].
  pose proof (ncross_start st _ (loop_mono (S g) st acc) Hn) as Hlt.
  cbn [loop] in *.
  pose proof (branch_mono st) as Hbm. pose proof (branch_ok rs rs_post st) as Hbp. pose proof (branch_ok rs' rs'_post su) as Hbp'.
  pose proof (sim_branch st su HR Hlr) as Hsb.
  destruct (read_branch rs st) as [rb s1]. destruct (read_branch rs' su) as [rb' u1].
  unfold mono in Hbm. unfold branch_post in Hbp, Hbp'. cbn [fst snd] in *.
  assert (Hnb : ncross (rb, s1)).
  { unfold ncross. cbn [fst snd]. destruct rb as [[|]| |i| |]; try (unfold ncross in Hn; cbn [fst] in Hn; contradiction).
    - apply (ncross_start s1 _ (loop_mono g s1 acc) Hn).
    - destruct Hbp as [_ Hbp]. lia.
    - exact Hn. }
  destruct (Hsb Hnb) as [Hf HR1]. subst rb'. clear Hsb.
  destruct rb as [[|]| |i| |]; try (unfold ncross in Hnb; cbn [fst] in Hnb; contradiction).
  - (* branch read *) apply IH; [exact HR1 | pose proof (lr_consumed _ _ _ Hbp' item_len); lia | pose proof (lr_consumed _ _ _ Hbp' item_len); lia | exact Hn].
  - (* no branch *)
    assert (Hlt1 : pos s1 < n) by (destruct Hbp as [_ Hbp]; lia).
    assert (Hlr1 : lr u1 = lr su) by (apply lr_same; exact Hbp'). clear Hbp Hbp' Hbm Hnb.
    rewrite (Rel_peek s1 u1 HR1 Hlt1).
    destruct (match peek s1 with Some c => N.eqb c DOT | None => false end) eqn:Ed.
    + pose proof (Rel_adv s1 u1 1 HR1) as HR2. set (s2 := adv s1 1) in *. set (u2 := adv u1 1) in *.
      pose proof (link_mono None s2) as Hlm. pose proof (link_ok None u2) as Hlp'. pose proof (sim_link None s2 u2 HR2) as Hsl.
      destruct (read_link None s2) as [rl s3]. destruct (read_link None u2) as [rl' u3]. unfold mono in Hlm. unfold link_post in Hlp'. cbn [fst snd] in *.
      assert (Hnl : ncross (rl, s3)).
      { unfold ncross. cbn [fst snd]. destruct rl as [[|]| |i| |]; try (unfold ncross in Hn; cbn [fst] in Hn; contradiction).
        - apply (ncross_start s3 _ (loop_mono g s3 (S acc)) Hn).
        - unfold ncross in Hn. cbn [fst] in Hn. destruct (@miss_cases (option nat) s3) as [E|E]; rewrite E in Hn; [contradiction | exact Hn].
        - exact Hn. }
      destruct (Hsl Hnl) as [Hf HR3]. subst rl'. clear Hsl.
      destruct rl as [[|]| |i| |]; try (unfold ncross in Hnl; cbn [fst] in Hnl; contradiction).
      * apply IH; [exact HR3 | | | exact Hn]; pose proof (lr_consumed _ _ _ Hlp' atom_len); pose proof (lr_adv u1 1); unfold u2 in *; lia.
      * cbn [fst snd]. unfold ncross in Hnl. cbn [fst snd] in Hnl. rewrite (Rel_miss s3 u3 HR3 Hnl). auto.
      * cbn [fst snd]. auto.
    + assert (Hbl : pos s1 + snd (read_bond (rest s1)) < n /\
                    ncross (read_link (Some (fst (read_bond (rest s1)))) (adv s1 (snd (read_bond (rest s1)))))).
      { destruct (read_bond (rest s1)) as [b m]. cbn [fst snd]. set (s2 := adv s1 m) in *.
        pose proof (link_mono (Some b) s2) as Hlm. pose proof (link_ok (Some b) s2) as Hlp.
        destruct (read_link (Some b) s2) as [rl s3]. unfold mono in Hlm. unfold link_post in Hlp. cbn [fst snd] in *.
        assert (Hnl : ncross (rl, s3)).
        { unfold ncross. cbn [fst snd]. destruct rl as [[|]| |i| |]; try (unfold ncross in Hn; cbn [fst] in Hn; contradiction).
          - apply (ncross_start s3 _ (loop_mono g s3 (S acc)) Hn).
          - destruct (read_rnum (rest s3)) as [rn k| | |j|].
            + pose proof (ncross_start _ _ (loop_mono g _ acc) Hn) as H. cbn [emit adv pos] in H. lia.
            + destruct (bondk_eqb b BK_Elided); [exact Hn|].
              unfold ncross in Hn. cbn [fst] in Hn. destruct (@miss_cases (option nat) s3) as [E|E]; rewrite E in Hn; [contradiction | exact Hn].
            + unfold ncross in Hn. cbn in Hn. contradiction.
            + unfold ncross in Hn. cbn [fst tok_err] in Hn. lia.
            + unfold ncross in Hn. cbn in Hn. contradiction.
          - exact Hn. }
        split; [|exact Hnl]. unfold ncross in Hnl. cbn [fst snd] in Hnl. cbn [s2 adv pos] in Hlm.
        destruct rl as [[|]| |i| |]; try contradiction; lia. }
      destruct Hbl as [Hb1 Hnl]. rewrite (Rel_bond s1 u1 HR1 Hb1).
      destruct (read_bond (rest s1)) as [b m]. cbn [fst snd] in Hb1, Hnl.
      pose proof (Rel_adv s1 u1 m HR1) as HR2. set (s2 := adv s1 m) in *. set (u2 := adv u1 m) in *.
      pose proof (link_ok (Some b) s2) as Hlp. pose proof (link_ok (Some b) u2) as Hlp'. destruct (sim_link (Some b) s2 u2 HR2 Hnl) as [Hf HR3].
      destruct (read_link (Some b) s2) as [rl s3]. destruct (read_link (Some b) u2) as [rl' u3]. unfold link_post in Hlp, Hlp'. cbn [fst snd] in *. subst rl'.
      assert (Hlr2 : lr u2 <= lr su) by (pose proof (lr_adv u1 m); unfold u2; lia).
      destruct rl as [[|]| |i| |]; try (unfold ncross in Hnl; cbn [fst] in Hnl; contradiction).
      * apply IH; [exact HR3 | | | exact Hn]; pose proof (lr_consumed _ _ _ Hlp' atom_len); lia.
      * unfold ncross in Hnl. cbn [fst snd] in Hnl.
        assert (Hlr3 : lr u3 = lr u2) by (apply lr_same; exact Hlp').
        assert (Ern : read_rnum (rest u3) = read_rnum (rest s3)).
        { destruct (read_rnum (rest s3)) as [rn k| | |j|] eqn:Er.
          - rewrite <- Er. apply (Rel_tok read_rnum s3 u3 k rnum_loc HR3); [rewrite Er; reflexivity|].
            pose proof (ncross_start _ _ (loop_mono g _ acc) Hn) as H. cbn [emit adv pos] in H. exact H.
          - rewrite <- Er. apply (Rel_tok read_rnum s3 u3 0 rnum_loc HR3); [rewrite Er; reflexivity | lia].
          - unfold ncross in Hn. cbn in Hn. contradiction.
          - rewrite <- Er. apply (Rel_tok read_rnum s3 u3 j rnum_loc HR3); [rewrite Er; reflexivity|].
            unfold ncross in Hn. cbn [fst tok_err] in Hn. exact Hn.
          - unfold ncross in Hn. cbn in Hn. contradiction. }
        rewrite Ern. destruct HR1 as [Hp1 HR1']. destruct HR3 as [Hp3 HR3']. rewrite Hp1, Hp3.
        assert (HR3 : Rel s3 u3) by (split; assumption).
        destruct (read_rnum (rest s3)) as [rn k| | |j|] eqn:Er.
        -- apply IH; [cbn [adv pos]; rewrite Hp3; apply Rel_emit, Rel_adv; exact HR3 | | | exact Hn].
           ++ rewrite lr_emit. pose proof (lr_adv u3 k). lia.
           ++ rewrite lr_emit. destruct (rnum_read_sound _ _ _ Ern) as [q [w [Hq [HRq ->]]]]. destruct (rnum_head q HRq) as [c0 [t0 [-> _]]].
              unfold lr in *. unfold adv. cbn [rest]. rewrite Hq, skipn_len_app. rewrite Hq in Hlr3. rewrite app_length in Hlr3. cbn [length] in Hlr3. unfold char in *. lia.
        -- destruct (bondk_eqb b BK_Elided); cbn [fst snd]; [auto|]. rewrite (Rel_miss s3 u3 HR3 Hnl). auto.
        -- unfold ncross in Hn. cbn in Hn. contradiction.
        -- cbn [fst snd tok_err]. auto.
        -- unfold ncross in Hn. cbn in Hn. contradiction.
      * cbn [fst snd]. auto.
  - cbn [fst snd]. auto.
Qed.
End Loop.

Lemma smiles_mono f d input st : mono st (read_smiles f d input st).
Proof.
  pose proof (smiles_ok f d input st) as H. unfold smiles_post, mono in *. destruct (fst (read_smiles f d input st)) as [[k|]| |i| |]; try exact I.
  - apply (consumed_pos _ _ _ H).
  - destruct H as [_ H]. lia.
  - destruct H as [H _]. exact H.
Qed.

Lemma sim_smiles : forall f f' d input st su, Rel st su -> lr su < f' -> ncross (read_smiles f d input st) ->
  fst (read_smiles f' d input su) = fst (read_smiles f d input st) /\ Rel (snd (read_smiles f d input st)) (snd (read_smiles f' d input su)).
Proof.
  induction f as [|f IH]; intros f' d input st su HR Hlr Hn; [unfold ncross in Hn; cbn in Hn; contradiction|].
  destruct f' as [|f']; [lia|]. cbn [read_smiles] in *.
  set (s0 := {| rest := rest st; pos := pos st; out := out st; maxd := Nat.max (maxd st) (S d) |}) in *.
  set (u0 := {| rest := rest su; pos := pos su; out := out su; maxd := Nat.max (maxd su) (S d) |}).
  assert (HR0 : Rel s0 u0).
  { destruct HR as [Hp [Ho [Hm Hf]]]. unfold Rel, s0, u0. cbn [rest pos out maxd]. rewrite Hm. auto. }
  pose proof (link_ok input u0) as Hlp'. pose proof (sim_link input s0 u0 HR0) as Hsl.
  destruct (read_link input s0) as [rl s1]. destruct (read_link input u0) as [rl' u1]. unfold link_post in Hlp'. cbn [fst snd] in *.
  assert (Hnl : ncross (rl, s1)).
  { unfold ncross. cbn [fst snd]. destruct rl as [[|]| |i| |]; try (unfold ncross in Hn; cbn [fst] in Hn; contradiction).
    - apply (ncross_start s1 _ (loop_mono (read_smiles f (S d)) (smiles_ok f (S d)) _ s1 1) Hn).
    - exact Hn.
    - exact Hn. }
  destruct (Hsl Hnl) as [Hf HR1]. subst rl'. clear Hsl.
  destruct rl as [[|]| |i| |]; try (unfold ncross in Hnl; cbn [fst] in Hnl; contradiction).
  - assert (Hlt : lr u1 < lr su) by (apply (lr_consumed Atom u0 u1 Hlp' atom_len)).
    apply (sim_loop (read_smiles f (S d)) (read_smiles f' (S d)) f' (smiles_ok f (S d)) (smiles_ok f' (S d))).
    + intros inp st2 su2 HR2 Hlr2 Hn2. apply IH; assumption.
    + exact HR1.
    + lia.
    + unfold lr. lia.
    + exact Hn.
  - cbn [fst snd]. auto.
  - cbn [fst snd]. auto.
Qed.
End Sim.

(* C05: the verdict "character i" is decided by the first i+1 characters *)
Theorem char_verdict_local : forall s u i h, rd s = (VChar i, h) -> firstn (S i) u = firstn (S i) s -> fst (rd u) = VChar i.
Proof.
  intros s u i h H Hu. unfold rd, read, read_from in *.
  set (s0 := {| rest := s; pos := 0; out := []; maxd := 0 |}) in *. set (u0 := {| rest := u; pos := 0; out := []; maxd := 0 |}).
  assert (HR : Rel (S i) s0 u0).
  { unfold Rel, s0, u0. cbn [rest pos out maxd]. rewrite Nat.sub_0_r. auto. }
  pose proof (sim_smiles (S i) (S (length s)) (S (length u)) 0 None s0 u0 HR ltac:(unfold lr, u0; cbn [rest]; lia)) as Hs.
  pose proof (smiles_ok (S (length s)) 0 None s0) as Hp. unfold smiles_post in Hp.
  destruct (read_smiles (S (length s)) 0 None s0) as [r s1]. destruct (read_smiles (S (length u)) 0 None u0) as [r' u1].
  cbn [fst snd r_verdict] in *.
  assert (Hn : ncross (S i) (r, s1)).
  { unfold ncross. cbn [fst snd]. destruct r as [[k|]| |j| |]; try (inversion H; fail).
    - destruct (rest s1); inversion H. lia.
    - destruct (rest s1); inversion H. lia.
    - inversion H. lia. }
  destruct (Hs Hn) as [Hf HR1]. subst r'.
  assert (Hlt : forall k, r = ROk k -> pos s1 < S i) by (intros k ->; exact Hn).
  destruct r as [[k|]| |j| |]; try (inversion H; fail).
  - pose proof (Rel_head (S i) s1 u1 HR1 (Hlt _ eq_refl)) as Hh. destruct HR1 as [Hp1 _].
    destruct (rest s1) as [|c t]; [inversion H|]. destruct (rest u1); cbn [hd_error] in Hh; [discriminate|]. inversion H. rewrite Hp1. reflexivity.
  - pose proof (Rel_head (S i) s1 u1 HR1 (Hlt _ eq_refl)) as Hh. destruct HR1 as [Hp1 _].
    destruct (rest s1) as [|c t]; [inversion H|]. destruct (rest u1); cbn [hd_error] in Hh; [discriminate|]. inversion H. rewrite Hp1. reflexivity.
  - inversion H. reflexivity.
Qed.
