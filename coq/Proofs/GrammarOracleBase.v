(* The executable recogniser of Spec/Grammar.v decides the declarative grammar of Spec/Lang.v -- part 1: the
   specification of a parser against a language, and of every combinator.

   A parser p is correct for a language L on an input s ([OK p L s]) when
     RS  r is among the remainders of p s   <->   s = c ++ r for some c in L;
     HS  p s reports "ran out of input"      ->   s can be continued to a member of L;
     HC  s can be continued to a member of L ->   p s reports "ran out of input" or has the remainder [].
   The remainders of one input are all suffixes of it, so a suffix is determined by its length, which is what
   makes the deduplication by length of Spec/Grammar.v harmless ([dedup_in]). *)
From Coq Require Import List NArith Lia Bool Arith.
Import ListNotations.
Require Import P.Meta.Scan P.Spec.Reading P.Spec.Grammar P.Spec.Lang.

Definition lang := list char -> Prop.
Definition parser := list char -> pres.

(* ---------- suffixes ---------- *)
Definition suffix (r s : list char) : Prop := exists c, s = c ++ r.
Lemma suffix_refl s : suffix s s.
Proof. exists []. reflexivity. Qed.
Lemma suffix_trans a b c : suffix a b -> suffix b c -> suffix a c.
Proof. intros [x ->] [y ->]. exists (y ++ x). rewrite app_assoc. reflexivity. Qed.
Lemma suffix_len r s : suffix r s -> length r <= length s.
Proof. intros [c ->]. rewrite app_length. lia. Qed.
Lemma skipn_len_app (c r : list char) : skipn (length c) (c ++ r) = r.
Proof. induction c as [|a c IH]; [reflexivity | exact IH]. Qed.
Lemma suffix_skipn r s : suffix r s -> r = skipn (length s - length r) s.
Proof.
  intros [c ->]. rewrite app_length. replace (length c + length r - length r) with (length c) by lia.
  symmetry. apply skipn_len_app.
Qed.
Lemma suffix_eq r1 r2 s : suffix r1 s -> suffix r2 s -> length r1 = length r2 -> r1 = r2.
Proof. intros H1 H2 E. rewrite (suffix_skipn _ _ H1), (suffix_skipn _ _ H2), E. reflexivity. Qed.

(* ---------- dedup ---------- *)
Definition samelen (x : list char) : list char -> bool := fun y => Nat.eqb (length y) (length x).
Lemma dedup_cons x l : dedup (x :: l) = if existsb (samelen x) (dedup l) then dedup l else x :: dedup l.
Proof. reflexivity. Qed.
Lemma samelen_ex x l : existsb (samelen x) l = true <-> exists y, In y l /\ length y = length x.
Proof.
  rewrite existsb_exists. unfold samelen. split; intros [y [Hy E]]; exists y; (split; [exact Hy|]); apply Nat.eqb_eq; exact E.
Qed.
Lemma dedup_in s l : (forall x, In x l -> suffix x s) -> forall r, In r (dedup l) <-> In r l.
Proof.
  induction l as [|x l IH]; intros Hs r; [reflexivity|].
  assert (Hl : forall y, In y l -> suffix y s) by (intros y Hy; apply Hs; right; exact Hy).
  specialize (IH Hl). rewrite dedup_cons. destruct (existsb (samelen x) (dedup l)) eqn:E.
  - rewrite IH. cbn [In]. split; [intros H; right; exact H|]. intros [<-|H]; [|exact H].
    apply samelen_ex in E as [y [Hy Ey]]. apply IH in Hy.
    rewrite <- (suffix_eq y x s (Hl y Hy) (Hs x (or_introl eq_refl)) Ey). exact Hy.
  - cbn [In]. rewrite IH. reflexivity.
Qed.

(* ---------- strip, cut_short ---------- *)
Lemma strip_spec t : forall s r, strip t s = Some r <-> s = t ++ r.
Proof.
  induction t as [|c t IH]; intros s r; cbn [strip app].
  - split; [intros H; inversion H; reflexivity | intros ->; reflexivity].
  - destruct s as [|d s]; [split; discriminate|]. destruct (N.eqb c d) eqn:E.
    + apply N.eqb_eq in E. subst d. rewrite IH. split; [intros ->; reflexivity | intros H; inversion H; reflexivity].
    + apply N.eqb_neq in E. split; [discriminate | intros H; inversion H; congruence].
Qed.
Lemma cut_short_spec t : forall s, cut_short t s = true <-> exists u, u <> [] /\ t = s ++ u.
Proof.
  induction t as [|c t IH]; intros s; cbn [cut_short].
  - split; [destruct s; discriminate|]. intros [u [Hu E]]. symmetry in E. apply app_eq_nil in E as [_ E]. contradiction.
  - destruct s as [|d s].
    + split; [intros _; exists (c :: t); split; [discriminate | reflexivity] | reflexivity].
    + rewrite andb_true_iff, N.eqb_eq, IH. cbn [app]. split.
      * intros [-> [u [Hu ->]]]. exists u. split; [exact Hu | reflexivity].
      * intros [u [Hu E]]. inversion E; subst. split; [reflexivity|]. exists u. split; [exact Hu | reflexivity].
Qed.

(* ---------- parsers against languages ---------- *)
Definition Pre (L : lang) (s : list char) : Prop := exists u, L (s ++ u).
Definition RS (p : parser) (L : lang) (s : list char) : Prop := forall r, In r (rests (p s)) <-> exists c, s = c ++ r /\ L c.
Definition HS (p : parser) (L : lang) (s : list char) : Prop := hit_end (p s) = true -> Pre L s.
Definition HC (p : parser) (L : lang) (s : list char) : Prop := Pre L s -> hit_end (p s) = true \/ In [] (rests (p s)).
Definition OK (p : parser) (L : lang) (s : list char) : Prop := RS p L s /\ HS p L s /\ HC p L s.
Definition OKn (n : nat) (p : parser) (L : lang) : Prop := forall s, length s <= n -> OK p L s.
Definition OKall (p : parser) (L : lang) : Prop := forall s, OK p L s.
Lemma OKall_n n p L : OKall p L -> OKn n p L.
Proof. intros H s _. apply H. Qed.
Lemma OK_suffix p L s r : RS p L s -> In r (rests (p s)) -> suffix r s.
Proof. intros H Hr. apply H in Hr as [c [-> _]]. exists c. reflexivity. Qed.

Definition Cat (L1 L2 : lang) : lang := fun x => exists a b, x = a ++ b /\ L1 a /\ L2 b.
Definition Alt (L1 L2 : lang) : lang := fun x => L1 x \/ L2 x.
Definition Tok (table : list (list char)) : lang := fun x => In x table.
Definition DigN (n : nat) : lang := fun x => 1 <= length x <= n /\ Forall digit x.
Definition Two : lang := fun x => exists a b, x = [a; b] /\ digit a /\ digit b.
Definition Inh (L : lang) : Prop := exists x, L x.
Definition NE (L : lang) : Prop := forall x, L x -> x <> [].

Lemma OK_ext p (L L' : lang) s : (forall x, L x <-> L' x) -> OK p L s -> OK p L' s.
Proof.
  intros E [H1 [H2 H3]]. split; [|split].
  - intros r. rewrite (H1 r). split; intros [c [Hc HL]]; exists c; (split; [exact Hc|]); apply E; exact HL.
  - intros H. destruct (H2 H) as [u Hu]. exists u. apply E. exact Hu.
  - intros [u Hu]. apply H3. exists u. apply E. exact Hu.
Qed.
Lemma OKn_ext n p (L L' : lang) : (forall x, L x <-> L' x) -> OKn n p L -> OKn n p L'.
Proof. intros E H s Hs. apply (OK_ext p L L' s E). apply H. exact Hs. Qed.
Lemma OKall_ext p (L L' : lang) : (forall x, L x <-> L' x) -> OKall p L -> OKall p L'.
Proof. intros E H s. apply (OK_ext p L L' s E). apply H. Qed.

(* ---------- membership in the intermediate lists ---------- *)
Lemma in_fm_map (q : parser) l y : In y (flat_map rests (map q l)) <-> exists x, In x l /\ In y (rests (q x)).
Proof.
  rewrite in_flat_map. split.
  - intros [pr [Hpr Hy]]. apply in_map_iff in Hpr as [x [<- Hx]]. exists x. split; assumption.
  - intros [x [Hx Hy]]. exists (q x). split; [apply in_map; exact Hx | exact Hy].
Qed.
Lemma ex_hit_map (q : parser) l : existsb hit_end (map q l) = true <-> exists x, In x l /\ hit_end (q x) = true.
Proof.
  rewrite existsb_exists. split.
  - intros [pr [Hpr Hy]]. apply in_map_iff in Hpr as [x [<- Hx]]. exists x. split; assumption.
  - intros [x [Hx Hy]]. exists (q x). split; [apply in_map; exact Hx | exact Hy].
Qed.
Lemma has_nil l : existsb (fun r : list char => match r with [] => true | _ => false end) l = true <-> In [] l.
Proof.
  rewrite existsb_exists. split.
  - intros [[|a x] [Hx E]]; [exact Hx | discriminate].
  - intros H. exists []. split; [exact H | reflexivity].
Qed.

(* ---------- token ---------- *)
Lemma token_ok table : OKall (token table) (Tok table).
Proof.
  intros s.
  assert (Hfm : forall r, In r (flat_map (fun t => match strip t s with Some r => [r] | None => [] end) table) <-> exists t, In t table /\ s = t ++ r).
  { intros r. rewrite in_flat_map. split; intros [t [Ht H]]; exists t; (split; [exact Ht|]).
    - destruct (strip t s) as [r'|] eqn:E; [|destruct H]. destruct H as [->|[]]. apply strip_spec. exact E.
    - apply strip_spec in H. rewrite H. left. reflexivity. }
  split; [|split].
  - intros r. unfold token. cbn [rests]. rewrite (dedup_in s).
    + rewrite Hfm. split; intros [t [H1 H2]]; exists t; split; assumption.
    + intros x Hx. apply Hfm in Hx as [t [_ ->]]. exists t. reflexivity.
  - unfold HS, token. cbn [hit_end]. intros H. apply existsb_exists in H as [t [Ht H]].
    apply cut_short_spec in H as [u [_ ->]]. exists u. exact Ht.
  - unfold HC, token. cbn [hit_end rests]. intros [u Hu]. destruct u as [|a u].
    + right. rewrite app_nil_r in Hu. rewrite (dedup_in s).
      * apply Hfm. exists s. split; [exact Hu | rewrite app_nil_r; reflexivity].
      * intros x Hx. apply Hfm in Hx as [t [_ ->]]. exists t. reflexivity.
    + left. apply existsb_exists. exists (s ++ a :: u). split; [exact Hu|]. apply cut_short_spec.
      exists (a :: u). split; [discriminate | reflexivity].
Qed.
Lemma chr_ok c : OKall (chr c) (Tok [[c]]).
Proof. apply token_ok. Qed.

(* ---------- sequence ---------- *)
Lemma seqp_ok p q (L1 L2 : lang) s :
  OK p L1 s -> (forall r, In r (rests (p s)) -> OK q L2 r) -> Inh L2 -> OK (seqp p q) (Cat L1 L2) s.
Proof.
  intros [Hp1 [Hp2 Hp3]] Hq [w Hw].
  assert (Hsuf : forall x, In x (flat_map rests (map q (rests (p s)))) -> suffix x s).
  { intros x Hx. apply in_fm_map in Hx as [r1 [Hr1 Hx]]. destruct (Hq r1 Hr1) as [Hq1 _].
    apply (suffix_trans x r1 s); [apply (OK_suffix q L2); assumption | apply (OK_suffix p L1); assumption]. }
  assert (Hrs : RS (seqp p q) (Cat L1 L2) s).
  { intros r. unfold seqp. cbn [rests]. rewrite (dedup_in s _ Hsuf), in_fm_map. split.
    - intros [r1 [Hr1 Hr]]. destruct (Hq r1 Hr1) as [Hq1 _]. apply Hp1 in Hr1 as [c1 [-> Hc1]]. apply Hq1 in Hr as [c2 [-> Hc2]].
      exists (c1 ++ c2). split; [rewrite app_assoc; reflexivity|]. exists c1, c2. split; [reflexivity | split; assumption].
    - intros [c [-> [c1 [c2 [-> [Hc1 Hc2]]]]]]. exists (c2 ++ r).
      assert (Hr1 : In (c2 ++ r) (rests (p ((c1 ++ c2) ++ r)))) by (apply Hp1; exists c1; split; [rewrite app_assoc; reflexivity | exact Hc1]).
      split; [exact Hr1|]. destruct (Hq _ Hr1) as [Hq1 _]. apply Hq1. exists c2. split; [reflexivity | exact Hc2]. }
  split; [exact Hrs | split].
  - unfold HS, seqp. cbn [hit_end]. intros H. apply orb_true_iff in H as [H|H].
    + destruct (Hp2 H) as [u Hu]. exists (u ++ w). exists (s ++ u), w. split; [rewrite app_assoc; reflexivity | split; assumption].
    + apply ex_hit_map in H as [r1 [Hr1 H]]. destruct (Hq r1 Hr1) as [_ [Hq2 _]]. destruct (Hq2 H) as [u Hu].
      apply Hp1 in Hr1 as [c1 [-> Hc1]]. exists u. exists c1, (r1 ++ u). split; [rewrite app_assoc; reflexivity | split; assumption].
  - intros [u [c1 [c2 [E [Hc1 Hc2]]]]].
    assert (Hvia : forall r1, In r1 (rests (p s)) -> Pre L2 r1 -> hit_end (seqp p q s) = true \/ In [] (rests (seqp p q s))).
    { intros r1 Hr1 Hpre. destruct (Hq r1 Hr1) as [Hq1 [_ Hq3]]. destruct (Hq3 Hpre) as [H|H].
      - left. unfold seqp. cbn [hit_end]. apply orb_true_iff. right. apply ex_hit_map. exists r1. split; assumption.
      - right. unfold seqp. cbn [rests]. rewrite (dedup_in s _ Hsuf), in_fm_map. exists r1. split; assumption. }
    apply app_eq_app in E as [l [[E1 E2]|[E1 E2]]].
    + (* s extends c1 *) subst s c2.
      apply (Hvia l); [apply Hp1; exists c1; split; [reflexivity | exact Hc1] | exists u; exact Hc2].
    + (* c1 extends s *) subst c1 u.
      destruct (Hp3 (ex_intro _ l Hc1)) as [H|H].
      * left. unfold seqp. cbn [hit_end]. rewrite H. reflexivity.
      * apply (Hvia [] H). exists w. exact Hw.
Qed.
Lemma seqp_okn n p q (L1 L2 : lang) : OKn n p L1 -> OKn n q L2 -> Inh L2 -> OKn n (seqp p q) (Cat L1 L2).
Proof.
  intros Hp Hq Hi s Hs. apply seqp_ok; [apply Hp; exact Hs | | exact Hi].
  intros r Hr. apply Hq. destruct (Hp s Hs) as [H1 _]. pose proof (suffix_len r s (OK_suffix p L1 s r H1 Hr)). lia.
Qed.
Lemma seqp_okall p q (L1 L2 : lang) : OKall p L1 -> OKall q L2 -> Inh L2 -> OKall (seqp p q) (Cat L1 L2).
Proof. intros Hp Hq Hi s. apply seqp_ok; [apply Hp | intros r _; apply Hq | exact Hi]. Qed.

(* ---------- option, alternative ---------- *)
Lemma optp_ok p (L : lang) s : OK p L s -> OK (optp p) (opt L) s.
Proof.
  intros [H1 [H2 H3]].
  assert (Hsuf : forall x, In x (s :: rests (p s)) -> suffix x s).
  { intros x [<-|Hx]; [apply suffix_refl | apply (OK_suffix p L); assumption]. }
  assert (Hin : forall r, In r (rests (optp p s)) <-> r = s \/ In r (rests (p s))).
  { intros r. unfold optp. cbn [rests]. rewrite (dedup_in s _ Hsuf). cbn [In]. split; intros [H|H]; auto. }
  split; [|split].
  - intros r. rewrite Hin, (H1 r). split.
    + intros [->|[c [E Hc]]]; [exists []; split; [reflexivity | left; reflexivity] | exists c; split; [exact E | right; exact Hc]].
    + intros [c [E [->|Hc]]]; [left; symmetry; exact E | right; exists c; split; assumption].
  - unfold HS, optp. cbn [hit_end]. intros H. destruct (H2 H) as [u Hu]. exists u. right. exact Hu.
  - intros [u [Hu|Hu]].
    + right. apply Hin. left. apply app_eq_nil in Hu as [-> _]. reflexivity.
    + destruct (H3 (ex_intro _ u Hu)) as [H|H]; [left; exact H | right; apply Hin; right; exact H].
Qed.
Lemma altp_ok p q (L1 L2 : lang) s : OK p L1 s -> OK q L2 s -> OK (altp p q) (Alt L1 L2) s.
Proof.
  intros [Hp1 [Hp2 Hp3]] [Hq1 [Hq2 Hq3]].
  assert (Hsuf : forall x, In x (rests (p s) ++ rests (q s)) -> suffix x s).
  { intros x Hx. apply in_app_iff in Hx as [Hx|Hx]; [apply (OK_suffix p L1) | apply (OK_suffix q L2)]; assumption. }
  assert (Hin : forall r, In r (rests (altp p q s)) <-> In r (rests (p s)) \/ In r (rests (q s))).
  { intros r. unfold altp. cbn [rests]. rewrite (dedup_in s _ Hsuf), in_app_iff. reflexivity. }
  split; [|split].
  - intros r. rewrite Hin, (Hp1 r), (Hq1 r). split.
    + intros [[c [E Hc]]|[c [E Hc]]]; exists c; (split; [exact E|]); [left | right]; exact Hc.
    + intros [c [E [Hc|Hc]]]; [left | right]; exists c; split; assumption.
  - unfold HS, altp. cbn [hit_end]. intros H. apply orb_true_iff in H as [H|H].
    + destruct (Hp2 H) as [u Hu]. exists u. left. exact Hu.
    + destruct (Hq2 H) as [u Hu]. exists u. right. exact Hu.
  - intros [u [Hu|Hu]].
    + destruct (Hp3 (ex_intro _ u Hu)) as [H|H]; [left; unfold altp; cbn [hit_end]; rewrite H; reflexivity | right; apply Hin; left; exact H].
    + destruct (Hq3 (ex_intro _ u Hu)) as [H|H]; [left; unfold altp; cbn [hit_end]; rewrite H; apply orb_true_r | right; apply Hin; right; exact H].
Qed.
Lemma optp_okn n p L : OKn n p L -> OKn n (optp p) (opt L).
Proof. intros H s Hs. apply optp_ok. apply H. exact Hs. Qed.
Lemma altp_okn n p q L1 L2 : OKn n p L1 -> OKn n q L2 -> OKn n (altp p q) (Alt L1 L2).
Proof. intros Hp Hq s Hs. apply altp_ok; [apply Hp | apply Hq]; exact Hs. Qed.
Lemma optp_okall p L : OKall p L -> OKall (optp p) (opt L).
Proof. intros H s. apply optp_ok. apply H. Qed.
Lemma altp_okall p q L1 L2 : OKall p L1 -> OKall q L2 -> OKall (altp p q) (Alt L1 L2).
Proof. intros Hp Hq s. apply altp_ok; [apply Hp | apply Hq]. Qed.

(* ---------- digits ---------- *)
Lemma is_digit_iff c : is_digit c = true <-> digit c.
Proof. unfold is_digit, digit. rewrite andb_true_iff, !N.leb_le. tauto. Qed.
Lemma fail_rs (L : lang) s : (forall c r, s = c ++ r -> ~ L c) -> RS (fun _ => fail) L s.
Proof. intros H r. cbn [fail rests In]. split; [intros [] | intros [c [E Hc]]; exact (H c r E Hc)]. Qed.
Lemma digits_rs : forall m s, RS (digits m) (DigN m) s.
Proof.
  induction m as [|m IH]; intros s r.
  - cbn [digits fail rests In]. split; [intros [] | intros [c [_ [Hl _]]]; lia].
  - destruct s as [|a s].
    + cbn [digits rests In]. split; [intros []|]. intros [c [E [Hl _]]]. symmetry in E. apply app_eq_nil in E as [-> _]. cbn [length] in Hl. lia.
    + cbn [digits]. destruct (is_digit a) eqn:Ea.
      * cbn [rests]. apply is_digit_iff in Ea. rewrite (dedup_in s).
        -- cbn [In]. rewrite (IH s r). split.
           ++ intros [<-|[c [-> [Hl Hf]]]].
              ** exists [a]. split; [reflexivity|]. split; [cbn [length]; lia | apply Forall_cons; [exact Ea | apply Forall_nil]].
              ** exists (a :: c). split; [reflexivity|]. split; [cbn [length]; lia | apply Forall_cons; assumption].
           ++ intros [c [E [Hl Hf]]]. destruct c as [|a' c]; [cbn [length] in Hl; lia|]. cbn [app] in E. inversion E; subst a'.
              destruct c as [|b c]; [left; reflexivity|]. right. exists (b :: c). split; [reflexivity|].
              split; [cbn [length] in *; lia | exact (Forall_inv_tail Hf)].
        -- intros x [<-|Hx]; [apply suffix_refl|]. apply (IH s x) in Hx as [c [-> _]]. exists c. reflexivity.
      * cbn [fail rests In]. split; [intros []|]. intros [c [E [Hl Hf]]]. destruct c as [|a' c]; [cbn [length] in Hl; lia|].
        cbn [app] in E. inversion E; subst a'. pose proof (Forall_inv Hf) as Hd. apply is_digit_iff in Hd. congruence.
Qed.
Lemma DigN_prefix m s u : s <> [] -> DigN m (s ++ u) -> DigN m s.
Proof.
  intros Hs [Hl Hf]. rewrite app_length in Hl. apply Forall_app in Hf as [Hf _]. split; [|exact Hf].
  destruct s; [contradiction | cbn [length] in *; lia].
Qed.
Lemma digits_ok m : OKall (digits m) (DigN m).
Proof.
  intros s. split; [apply digits_rs | split].
  - unfold HS. destruct m as [|m]; [cbn [digits fail hit_end]; discriminate|]. destruct s as [|a s].
    + intros _. exists [48%N]. split; [cbn [app length]; lia | apply Forall_cons; [unfold digit; lia | apply Forall_nil]].
    + cbn [digits]. destruct (is_digit a); cbn [hit_end fail]; discriminate.
  - intros [u Hu]. destruct s as [|a s].
    + left. destruct m as [|m]; [destruct Hu as [Hl _]; lia | reflexivity].
    + right. apply digits_rs. exists (a :: s). split; [rewrite app_nil_r; reflexivity|]. apply (DigN_prefix m _ u); [discriminate | exact Hu].
Qed.

(* ---------- the two digits after "%" ---------- *)
Definition rtail : parser := fun s => match s with
    | [] => {| hit_end := true; rests := [] |}
    | a :: [] => {| hit_end := is_digit a; rests := [] |}
    | a :: b :: r => if is_digit a && is_digit b then {| hit_end := false; rests := [r] |} else fail end.
Lemma p_rnum_eq : p_rnum = altp (digits 1) (seqp (chr 37%N) rtail).
Proof. reflexivity. Qed.
Lemma d0 : digit 48%N.
Proof. unfold digit. lia. Qed.
Lemma rtail_ok : OKall rtail Two.
Proof.
  intros s. split; [|split].
  - intros r. destruct s as [|a [|b s]]; cbn [rtail rests In].
    + split; [intros []|]. intros [c [E [x [y [-> _]]]]]. discriminate.
    + split; [intros []|]. intros [c [E [x [y [-> _]]]]]. discriminate.
    + destruct (is_digit a && is_digit b) eqn:E; cbn [rests fail In].
      * apply andb_true_iff in E as [Ea Eb]. apply is_digit_iff in Ea, Eb. split.
        -- intros [<-|[]]. exists [a; b]. split; [reflexivity|]. exists a, b. split; [reflexivity | split; assumption].
        -- intros [c [E [x [y [-> _]]]]]. inversion E. left. reflexivity.
      * split; [intros []|]. intros [c [E' [x [y [-> [Hx Hy]]]]]]. inversion E'; subst x y.
        apply is_digit_iff in Hx, Hy. rewrite Hx, Hy in E. discriminate.
  - unfold HS. destruct s as [|a [|b s]]; cbn [rtail hit_end].
    + intros _. exists [48%N; 48%N]. exists 48%N, 48%N. split; [reflexivity | split; apply d0].
    + intros Ha. apply is_digit_iff in Ha. exists [48%N]. exists a, 48%N. split; [reflexivity | split; [exact Ha | apply d0]].
    + destruct (is_digit a && is_digit b); cbn [hit_end fail]; discriminate.
  - intros [u [x [y [E [Hx Hy]]]]]. destruct s as [|a [|b s]]; cbn [rtail hit_end rests].
    + left. reflexivity.
    + left. inversion E; subst. apply is_digit_iff. exact Hx.
    + right. cbn [app] in E. injection E as Ea Eb Es. apply app_eq_nil in Es as [-> _]. subst x y.
      apply is_digit_iff in Hx, Hy. rewrite Hx, Hy. cbn [andb rests In]. left. reflexivity.
Qed.
