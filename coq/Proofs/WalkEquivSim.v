(* C14, graph level, part 3: the simulation.  Two graphs g and g' on the same number of atoms, and the final ghost ghF
   of the traversal of g (visiting order = the specification's depth-first order, with parents).  g' is g renamed by the
   visiting rank ph, every non-root atom's bond list having its arrival bond moved to the front.  The traversal of g'
   then runs in lock step with the traversal of g: same chain (renamed), same pool (renamed), same events up to a
   chosen normalisation N of atom kinds (N := identity for the exact statement, N := the reading shorthands for the
   text-level corollary).  Both runs are described by D1.wsim with related ghosts; that the visited list is always a
   prefix of the final order comes from DfsOrder.Fut. *)
From Coq Require Import List NArith Lia Bool Arith.
Import ListNotations.
Require Import P.Generated.Enums P.Spec.Values P.Generated.Tables P.Model.Base P.Model.Pool P.Proofs.PoolSpec P.Model.Walk P.Model.Builder
  P.Proofs.D0 P.Proofs.D1 P.Proofs.D3 P.Proofs.D2 P.Proofs.D4 P.Proofs.D5 P.Proofs.D6 P.Proofs.D7 P.Spec.Roundtrip P.Proofs.DfsOrder
  P.Proofs.WalkInv P.Proofs.WalkEquivPool P.Proofs.WalkEquivBase.

(* events up to a normalisation of atom kinds *)
Definition NE (N : kind -> kind) (e : ev) : ev :=
  match e with ERoot k => ERoot (N k) | EExtend b k => EExtend b (N k) | x => x end.

Section Equiv.
Variables g g' : list atom.
Variable ghF : ghost.
Variable N : kind -> kind.
Notation n := (length g).
Notation ph := (phi ghF).
Notation ren := (rename ghF).

Hypothesis wf_range : forall x b, x < n -> In b (bonds_of g x) -> tid b < n /\ tid b <> x.
Hypothesis wf_nodup : forall x, x < n -> NoDup (map tid (bonds_of g x)).
Hypothesis wf_sym : forall x b, x < n -> In b (bonds_of g x) ->
  exists b', find_to x (bonds_of g (tid b)) = Some b' /\ bk b' = reverse (bk b).
Hypothesis safe_kinds : forall x, safe (akind (atom_at g x)).
Hypothesis wf_range' : forall x b, x < length g' -> In b (bonds_of g' x) -> tid b < length g' /\ tid b <> x.
Hypothesis wf_nodup' : forall x, x < length g' -> NoDup (map tid (bonds_of g' x)).
Hypothesis wf_sym' : forall x b, x < length g' -> In b (bonds_of g' x) ->
  exists b', find_to x (bonds_of g' (tid b)) = Some b' /\ bk b' = reverse (bk b).
Hypothesis safe_kinds' : forall x, safe (akind (atom_at g' x)).
Hypothesis len' : length g' = n.
(* the final ghost of the traversal of g *)
Hypothesis F_nd : NoDup (order ghF).
Hypothesis F_cov : forall x, In x (order ghF) <-> x < n.
Hypothesis F_par : forall x p, par ghF x = Some p -> exists bb, find_to p (bonds_of g x) = Some bb.
Hypothesis F_dfs : vis_of ghF = dfs_all g.
(* g' in terms of g *)
Hypothesis G_bonds : forall x, x < n -> bonds_of g' (ph x) = map ren (arrival_first g ghF x).
Hypothesis G_root : forall x, x < n -> par ghF x = None -> N (akind (atom_at g' (ph x))) = N (akind (atom_at g x)).
Hypothesis G_ext : forall x y, y < n -> par ghF y = Some x -> N (walk_kind g' (ph x) (ph y)) = N (walk_kind g x y).

(* ================= the renaming ================= *)
Lemma F_len : length (order ghF) = n.
Proof.
  apply Nat.le_antisymm.
  - assert (Hincl : incl (order ghF) (seq 0 n)) by (intros x Hx; apply in_seq; apply F_cov in Hx; lia).
    pose proof (NoDup_incl_length F_nd Hincl) as Hl. rewrite seq_length in Hl. exact Hl.
  - assert (Hincl : incl (seq 0 n) (order ghF)) by (intros x Hx; apply in_seq in Hx; apply F_cov; lia).
    pose proof (NoDup_incl_length (seq_NoDup n 0) Hincl) as Hl. rewrite seq_length in Hl. exact Hl.
Qed.
Lemma ph_lt x : x < n -> ph x < n.
Proof. intros H. rewrite <- F_len. apply index_of_lt. apply F_cov. exact H. Qed.
Lemma ph_inj a b : a < n -> b < n -> ph a = ph b -> a = b.
Proof. intros Ha Hb. apply phi_inj; apply F_cov; assumption. Qed.

(* the visited list of a ghost is a prefix of the final one, with the same parents *)
Definition pre (gh : ghost) : Prop := exists E, order ghF = order gh ++ E /\ forall x, In x (order gh) -> par ghF x = par gh x.
Lemma pre_of_fut ids gh s : Fut g ids gh s -> pre gh.
Proof.
  intros HF. destruct (fut_prefix g ids gh s HF) as [ext E]. rewrite <- F_dfs in E.
  assert (Ho : order ghF = order gh ++ map fst ext) by (rewrite <- (vis_of_fst ghF), E, map_app, vis_of_fst; reflexivity).
  exists (map fst ext). split; [exact Ho|].
  unfold vis_of in E at 1. rewrite Ho, map_app in E. apply app_eq_len in E as [E1 _]; [|unfold vis_of; rewrite !map_length; reflexivity].
  intros x Hx. pose proof (map_eq_in _ _ _ E1 x Hx) as H. inversion H. reflexivity.
Qed.
Lemma pre_ph gh x : pre gh -> In x (order gh) -> ph x = phi gh x.
Proof. intros [E [Ho _]] Hx. unfold phi. rewrite Ho. apply index_of_app_in. exact Hx. Qed.
Lemma pre_lt gh x : pre gh -> In x (order gh) -> x < n.
Proof. intros [E [Ho _]] Hx. apply F_cov. rewrite Ho. apply in_or_app. left. exact Hx. Qed.
Lemma pre_len gh : pre gh -> length (order gh) <= n.
Proof. intros [E [Ho _]]. rewrite <- F_len, Ho, app_length. lia. Qed.
Lemma pre_seq gh : pre gh -> map ph (order gh) = seq 0 (length (order gh)).
Proof. intros [E [Ho _]]. unfold phi. rewrite Ho. apply index_map_seq. rewrite <- Ho. exact F_nd. Qed.

(* ================= related ghosts ================= *)
Record GR (gh gh' : ghost) : Prop := {
  gr_ord : order gh' = map ph (order gh);
  gr_par : forall x, x < n -> par gh' (ph x) = option_map ph (par gh x);
  gr_cnt : forall x, x < n -> cnt gh' (ph x) = cnt gh x }.

Lemma GR_extend gh gh' x y : GR gh gh' -> x < n -> y < n -> GR (gh_extend gh x y) (gh_extend gh' (ph x) (ph y)).
Proof.
  intros R Hx Hy. constructor; cbn [gh_extend order par cnt].
  - rewrite (gr_ord gh gh' R), map_app. reflexivity.
  - intros z Hz. unfold upd. rewrite (eqb_ren ph n ph_inj z y Hz Hy). destruct (Nat.eqb z y); [reflexivity | apply (gr_par gh gh' R); exact Hz].
  - intros z Hz. unfold upd. rewrite (eqb_ren ph n ph_inj z x Hz Hx), (gr_cnt gh gh' R x Hx), (gr_cnt gh gh' R z Hz). reflexivity.
Qed.
Lemma GR_join gh gh' x : GR gh gh' -> x < n -> GR (gh_join gh x) (gh_join gh' (ph x)).
Proof.
  intros R Hx. constructor; cbn [gh_join order par cnt].
  - apply (gr_ord gh gh' R).
  - apply (gr_par gh gh' R).
  - intros z Hz. unfold upd. rewrite (eqb_ren ph n ph_inj z x Hz Hx), (gr_cnt gh gh' R x Hx), (gr_cnt gh gh' R z Hz). reflexivity.
Qed.
Lemma GR_root gh gh' id : GR gh gh' -> GR (gh_root gh id) (gh_root gh' (ph id)).
Proof.
  intros R. constructor; cbn [gh_root order par cnt].
  - rewrite (gr_ord gh gh' R), map_app. reflexivity.
  - apply (gr_par gh gh' R).
  - apply (gr_cnt gh gh' R).
Qed.

(* the bond lists still to be explored correspond *)
Lemma nonback_ren gh gh' x : pre gh -> GR gh gh' -> In x (order gh) -> nonback g' gh' (ph x) = map ren (nonback g gh x).
Proof.
  intros P R Hx. pose proof (pre_lt gh x P Hx) as Hxn. unfold nonback. rewrite (gr_par gh gh' R x Hxn), (G_bonds x Hxn). unfold arrival_first.
  destruct P as [E [Ho Hp]]. rewrite (Hp x Hx). destruct (par gh x) as [p|] eqn:Ep; cbn [option_map]; [|reflexivity].
  destruct (F_par x p) as [bb Hbb]; [rewrite (Hp x Hx); exact Ep|]. rewrite Hbb. destruct (find_to_in _ _ _ Hbb) as [_ Ht].
  cbn [map remove_first_to rename tid]. rewrite Ht, Nat.eqb_refl. reflexivity.
Qed.
Lemma pending_ren gh gh' x : pre gh -> GR gh gh' -> In x (order gh) -> pending g' gh' (ph x) = map ren (pending g gh x).
Proof.
  intros P R Hx. unfold pending. rewrite (nonback_ren gh gh' x P R Hx), (gr_cnt gh gh' R x (pre_lt gh x P Hx)). apply skipn_map.
Qed.
Definition rens (e : nat * bond) : nat * bond := (ph (fst e), ren (snd e)).
Lemma seg_ren gh gh' x : pre gh -> GR gh gh' -> In x (order gh) -> seg g' gh' (ph x) = map rens (seg g gh x).
Proof. intros P R Hx. unfold seg. rewrite (pending_ren gh gh' x P R Hx), !map_map. reflexivity. Qed.
Lemma flat_ren gh gh' : pre gh -> GR gh gh' -> forall ch, (forall c, In c ch -> In c (order gh)) ->
  flat_map (seg g' gh') (map ph ch) = map rens (flat_map (seg g gh) ch).
Proof.
  intros P R. induction ch as [|c ch IH]; intros H; [reflexivity|]. cbn [map flat_map].
  rewrite map_app, (seg_ren gh gh' c P R (H c (or_introl eq_refl))), IH; [reflexivity|]. intros z Hz. apply H. right. exact Hz.
Qed.
Lemma stk_ren gh gh' s s' : pre gh -> GR gh gh' -> wsim g gh s -> wsim g' gh' s' -> chain s' = map ph (chain s) -> stk s' = map rens (stk s).
Proof.
  intros P R W W' Hch. rewrite (ws_stk g' gh' s' W'), (ws_stk g gh s W), Hch. apply (flat_ren gh gh' P R). apply (ws_chain g gh s W).
Qed.

(* ================= the simulation relation ================= *)
Record SimG (ids : list nat) (gh gh' : ghost) (s s' : wstate) : Prop := {
  sg_w : wsim g gh s;
  sg_w' : wsim g' gh' s';
  sg_fut : Fut g ids gh s;
  sg_gr : GR gh gh';
  sg_chain : chain s' = map ph (chain s);
  sg_evs : map (NE N) (evs s') = map (NE N) (evs s);
  sg_pool : wpool s' = ren_pool ph (wpool s);
  sg_rng : brng n (borrowed (wpool s)) }.

Lemma popped_ren s s' (pre0 pre0' : list nat) : map (NE N) (evs s') = map (NE N) (evs s) -> length pre0' = length pre0 ->
  map (NE N) (popped s' pre0') = map (NE N) (popped s pre0).
Proof. unfold popped. intros He ->. destruct (Nat.eqb (length pre0) 0); cbn [map NE]; [exact He | rewrite He; reflexivity]. Qed.

Lemma top_ren gh gh' s s' x bd rest pre0 post bd' rest' pre0' post' :
  wsim g gh s -> pre gh -> chain s' = map ph (chain s) ->
  top_facts g gh s x bd rest pre0 post -> top_facts g' gh' s' (ph x) bd' rest' pre0' post' ->
  pre0' = map ph pre0 /\ post' = map ph post.
Proof.
  intros W P Hch T T'.
  destruct T as [_ [Ech [_ [_ [_ [Hnp [_ [Hxn _]]]]]]]]. destruct T' as [_ [Ech' [_ [_ [_ [Hnp' _]]]]]].
  rewrite Hch, Ech, map_app in Ech'. cbn [map] in Ech'.
  assert (Hn : ~ In (ph x) (map ph pre0)).
  { intros H. apply in_map_iff in H as [z [Ez Hz]]. apply ph_inj in Ez; [subst z; exact (Hnp Hz) | | exact Hxn].
    apply (pre_lt gh z P). apply (ws_chain g gh s W). rewrite Ech. apply in_or_app. left. exact Hz. }
  destruct (split_unique (ph x) _ _ _ _ Hn Hnp' Ech') as [E1 E2]. split; symmetry; assumption.
Qed.

(* ================= one step ================= *)
Lemma step_sim ids gh gh' s s' : SimG ids gh gh' s s' ->
  match step n s with
  | Cont s1 => exists s1' gh1 gh1', step n s' = Cont s1' /\ SimG ids gh1 gh1' s1 s1'
  | Done s1 => s1 = s /\ step n s' = Done s' /\ stk s = []
  | Stop _ _ => True
  end.
Proof.
  intros [W W' HF R Hch Hev Hpool Hrng].
  pose proof (pre_of_fut ids gh s HF) as P.
  pose proof (stk_ren gh gh' s s' P R W W' Hch) as Hstk'.
  destruct (stk s) as [|[x bd] rest] eqn:Es.
  - rewrite (step_done_fn n s Es). split; [reflexivity|]. split; [apply step_done_fn; exact Hstk' | reflexivity].
  - destruct (in_dec Nat.eq_dec (tid bd) (order gh)) as [Hin|Hnin].
    + (* ring closure *)
      destruct (step_join_fn g wf_range wf_nodup wf_sym safe_kinds gh s x bd rest W Es Hin) as [pre0 [post [T Hstep]]].
      pose proof T as [_ [Ech [_ [_ [_ [Hnp [_ [Hxn [Hyn [_ Hxo]]]]]]]]]].
      destruct (hit (wpool s) x (tid bd)) as [r p'| |] eqn:Eh; [|destruct Hstep as [k [s'' Hstep]]; rewrite Hstep; exact I|destruct Hstep as [k [s'' Hstep]]; rewrite Hstep; exact I].
      rewrite Hstep.
      assert (Hin' : In (tid (ren bd)) (order gh')) by (rewrite (gr_ord gh gh' R); cbn [rename tid]; apply in_map; exact Hin).
      destruct (step_join_fn g' wf_range' wf_nodup' wf_sym' safe_kinds' gh' s' (ph x) (ren bd) (map rens rest) W' Hstk' Hin') as [pre0' [post' [T' Hstep']]].
      rewrite Hpool in Hstep'. cbn [rename tid] in Hstep'.
      rewrite (hit_ren ph n ph_inj (wpool s) x (tid bd) Hrng Hxn Hyn), Eh in Hstep'. cbn [ren_pres] in Hstep'. rewrite len' in Hstep'.
      destruct (top_ren gh gh' s s' x bd rest pre0 post _ _ pre0' post' W P Hch T T') as [-> ->].
      eexists _, (gh_join gh x), (gh_join gh' (ph x)). split; [exact Hstep'|].
      constructor; cbn [chain evs wpool].
      * eapply wsim_join; eassumption.
      * apply (wsim_join g' gh' s' (ph x) (ren bd) _ _ _ r _ W' T' Hin').
      * unfold Fut. cbn [chain]. rewrite (resume_join g gh s x bd rest pre0 post W T Hin). exact HF.
      * apply GR_join; assumption.
      * reflexivity.
      * cbn [map NE rename bk]. f_equal. apply popped_ren; [exact Hev | apply map_length].
      * reflexivity.
      * exact (hit_brng n (wpool s) x (tid bd) r p' Hrng Hxn Hyn Eh).
    + (* a new atom *)
      destruct (step_extend_fn g wf_range wf_nodup wf_sym safe_kinds gh s x bd rest W Es Hnin) as [pre0 [post [b' [T [Hfb Hstep]]]]].
      pose proof T as [_ [Ech [_ [_ [_ [Hnp [_ [Hxn [Hyn [_ Hxo]]]]]]]]]].
      rewrite Hstep.
      assert (Hnin' : ~ In (tid (ren bd)) (order gh')).
      { rewrite (gr_ord gh gh' R). cbn [rename tid]. intros H. apply in_map_iff in H as [z [Ez Hz]].
        apply ph_inj in Ez; [subst z; exact (Hnin Hz) | exact (pre_lt gh z P Hz) | exact Hyn]. }
      destruct (step_extend_fn g' wf_range' wf_nodup' wf_sym' safe_kinds' gh' s' (ph x) (ren bd) (map rens rest) W' Hstk' Hnin') as [pre0' [post' [b'' [T' [Hfb' Hstep']]]]].
      rewrite len' in Hstep'.
      destruct (top_ren gh gh' s s' x bd rest pre0 post _ _ pre0' post' W P Hch T T') as [-> ->].
      set (s1 := {| rem := set_nth (rem s) (tid bd) None; stk := _; chain := _; wpool := _; evs := _ |}).
      assert (HF1 : Fut g ids (gh_extend gh x (tid bd)) s1).
      { unfold Fut, s1. cbn [chain]. rewrite (resume_extend g gh s x bd rest pre0 post W T Hnin). exact HF. }
      pose proof (pre_of_fut ids _ _ HF1) as P1.
      assert (HparF : par ghF (tid bd) = Some x).
      { destruct P1 as [E1 [Ho1 Hp1]]. rewrite (Hp1 (tid bd)); [cbn [gh_extend par]; apply upd_same|].
        cbn [gh_extend order]. apply in_or_app. right. left. reflexivity. }
      eexists _, (gh_extend gh x (tid bd)), (gh_extend gh' (ph x) (tid (ren bd))). split; [exact Hstep'|].
      constructor; cbn [chain evs wpool].
      * unfold s1. eapply wsim_extend; eassumption.
      * apply (wsim_extend g' gh' s' (ph x) (ren bd) _ _ _ b'' W' T' Hnin' Hfb').
      * exact HF1.
      * apply GR_extend; assumption.
      * reflexivity.
      * unfold s1. cbn [evs map NE rename bk tid]. f_equal; [f_equal; apply (G_ext x (tid bd) Hyn HparF)|].
        apply popped_ren; [exact Hev | apply map_length].
      * exact Hpool.
      * exact Hrng.
Qed.

(* ================= one component ================= *)
Lemma run_sim ids : forall f s sf, run_root f n s = (WOk, sf) -> forall f' gh gh' s', SimG ids gh gh' s s' ->
  fst (run_root f' n s') = WFuel \/
  exists sf' ghf ghf', run_root f' n s' = (WOk, sf') /\ SimG ids ghf ghf' sf sf' /\ stk sf = [].
Proof.
  induction f as [|f IH]; intros s sf H f' gh gh' s' S; cbn [run_root] in H; [discriminate|].
  destruct f' as [|f']; [left; reflexivity|]. cbn [run_root].
  pose proof (step_sim ids gh gh' s s' S) as Hst.
  destruct (step n s) as [s1|s1|r s1] eqn:Es.
  - destruct Hst as [s1' [gh1 [gh1' [Es' S1]]]]. rewrite Es'. exact (IH s1 sf H f' gh1 gh1' s1' S1).
  - destruct Hst as [-> [Es' Hstk]]. rewrite Es'. inversion H; subst sf. right. exists s', gh, gh'.
    split; [reflexivity|]. split; [exact S | exact Hstk].
  - inversion H; subst. exfalso. exact (step_stop_not_ok g s WOk sf Es eq_refl).
Qed.

(* ================= all components ================= *)
Lemma ord_seq ids gh gh' s s' : SimG ids gh gh' s s' -> order gh' = seq 0 (length (order gh)).
Proof. intros S. rewrite (gr_ord gh gh' (sg_gr _ _ _ _ _ S)). apply pre_seq. apply (pre_of_fut ids gh s). apply (sg_fut _ _ _ _ _ S). Qed.
Lemma visited_lt ids gh gh' s s' i : SimG ids gh gh' s s' -> i < n -> nth i (rem s') None = None -> i < length (order gh).
Proof.
  intros S Hi H. rewrite (ws_rem g' gh' s' (sg_w' _ _ _ _ _ S) i) in H by (rewrite len'; exact Hi).
  destruct (in_dec Nat.eq_dec i (order gh')) as [Hin|_]; [|discriminate]. rewrite (ord_seq _ _ _ _ _ S) in Hin. apply in_seq in Hin. lia.
Qed.
Lemma lt_visited ids gh gh' s s' i : SimG ids gh gh' s s' -> i < length (order gh) -> nth i (rem s') None = None.
Proof.
  intros S Hi. pose proof (pre_len gh (pre_of_fut ids gh s (sg_fut _ _ _ _ _ S))) as Hl.
  rewrite (ws_rem g' gh' s' (sg_w' _ _ _ _ _ S) i) by (rewrite len'; lia).
  destruct (in_dec Nat.eq_dec i (order gh')) as [_|Hn]; [reflexivity|]. exfalso. apply Hn. rewrite (ord_seq _ _ _ _ _ S). apply in_seq. lia.
Qed.
Lemma seq_split a k : a <= k -> k <= n -> seq a (n - a) = seq a (k - a) ++ seq k (n - k).
Proof. intros H1 H2. replace (n - a) with ((k - a) + (n - k)) by lia. rewrite seq_app. replace (a + (k - a)) with k by lia. reflexivity. Qed.

Lemma outer_sim : forall ids f s sf, (forall id, In id ids -> id < n) -> outer ids f n s = (WOk, sf) -> stk s = [] ->
  forall f' gh gh' s' a, SimG ids gh gh' s s' -> a <= length (order gh) ->
  fst (outer (seq a (n - a)) f' n s') = WFuel \/
  exists sf' ghf ghf', outer (seq a (n - a)) f' n s' = (WOk, sf') /\ SimG [] ghf ghf' sf sf'.
Proof.
  induction ids as [|id rest IH]; intros f s sf Hids H Hstk f' gh gh' s' a SG Ha.
  - cbn [outer] in H. inversion H; subst sf. right. exists s', gh, gh'. split; [|exact SG].
    assert (Hk : length (order gh) = n).
    { pose proof (fut_done g gh s (sg_w _ _ _ _ _ SG) (sg_fut _ _ _ _ _ SG) Hstk) as Hv. rewrite <- F_dfs in Hv.
      apply (f_equal (map fst)) in Hv. rewrite !vis_of_fst in Hv. rewrite Hv. exact F_len. }
    rewrite <- (app_nil_r (seq a (n - a))), outer_skip; [reflexivity|].
    intros i Hi. apply in_seq in Hi. apply (lt_visited _ _ _ _ _ i SG). lia.
  - cbn [outer] in H. assert (Hid : id < n) by (apply Hids; left; reflexivity).
    pose proof SG as [W W' HF R Hch Hev Hpool Hrng].
    pose proof (pre_of_fut _ _ _ HF) as P.
    pose proof (stk_ren gh gh' s s' P R W W' Hch) as Hstk'. rewrite Hstk in Hstk'. cbn [map] in Hstk'.
    destruct (nth id (rem s) None) as [root|] eqn:Er.
    + destruct (wsim_root g gh s id root W Hstk Hid Er) as [-> [Hnin Wr]].
      destruct (run_root f n (start_root s id (atom_at g id))) as [r s1] eqn:Erun.
      destruct r; cbv beta iota in H; try discriminate H.
      set (k := length (order gh)) in *.
      pose proof (fut_root g rest gh s id W HF Hstk Hnin) as HFr.
      pose proof (pre_of_fut _ _ _ HFr) as Pr.
      assert (Hidr : In id (order (gh_root gh id))) by (cbn [gh_root order]; apply in_or_app; right; left; reflexivity).
      assert (Hphid : ph id = k).
      { rewrite (pre_ph _ id Pr Hidr). unfold phi. cbn [gh_root order]. apply index_of_app_new. exact Hnin. }
      assert (HparF : par ghF id = None).
      { destruct Pr as [E1 [Ho1 Hp1]]. rewrite (Hp1 id Hidr). cbn [gh_root par]. apply (ws_fresh g gh s W id Hnin). }
      assert (Hk : k < n) by (rewrite <- Hphid; apply ph_lt; exact Hid).
      assert (Er' : nth k (rem s') None = Some (atom_at g' k)).
      { rewrite (ws_rem g' gh' s' W' k) by (rewrite len'; exact Hk).
        destruct (in_dec Nat.eq_dec k (order gh')) as [Hi|_]; [|reflexivity]. exfalso. rewrite (ord_seq _ _ _ _ _ SG) in Hi. apply in_seq in Hi. fold k in Hi. lia. }
      rewrite (seq_split a k) by lia.
      rewrite outer_skip by (intros i Hi; apply in_seq in Hi; apply (lt_visited _ _ _ _ _ i SG); fold k; lia).
      replace (n - k) with (S (n - S k)) by lia. cbn [seq outer]. rewrite Er'.
      assert (Sr : SimG rest (gh_root gh id) (gh_root gh' k) (start_root s id (atom_at g id)) (start_root s' k (atom_at g' k))).
      { destruct (wsim_root g' gh' s' k (atom_at g' k) W' Hstk' ltac:(rewrite len'; exact Hk) Er') as [_ [_ Wr']].
        constructor; cbn [start_root chain evs wpool].
        - exact Wr.
        - exact Wr'.
        - exact HFr.
        - rewrite <- Hphid. apply GR_root. exact R.
        - cbn [map]. rewrite Hphid. reflexivity.
        - cbn [map NE]. f_equal; [|exact Hev]. f_equal. rewrite <- Hphid. apply G_root; assumption.
        - exact Hpool.
        - exact Hrng. }
      destruct (run_sim rest f _ s1 Erun f' _ _ _ Sr) as [Hfuel | [s1' [gh1 [gh1' [Erun' [S1 Hstk1]]]]]].
      * left. destruct (run_root f' n (start_root s' k (atom_at g' k))) as [r' s1']. cbn [fst] in Hfuel. subst r'. reflexivity.
      * rewrite Erun'. cbv beta iota.
        apply (IH f s1 sf (fun i Hi => Hids i (or_intror Hi)) H Hstk1 f' gh1 gh1' s1' (S k) S1).
        assert (Hv : nth k (rem s1') None = None).
        { apply (run_root_visited g' f' (start_root s' k (atom_at g' k)) s1' k); [rewrite len'; exact Erun'|].
          unfold visited. cbn [start_root rem]. apply nth_set_nth_same. rewrite (ws_len g' gh' s' W'), len'. exact Hk. }
        pose proof (visited_lt _ _ _ _ _ k S1 Hk Hv). lia.
    + assert (Hin : In id (order gh)).
      { rewrite (ws_rem g gh s W id Hid) in Er. destruct (in_dec Nat.eq_dec id (order gh)); [assumption|discriminate]. }
      apply (IH f s sf (fun i Hi => Hids i (or_intror Hi)) H Hstk f' gh gh' s' a); [|exact Ha].
      constructor; try assumption. apply (fut_skip g rest gh s id W HF Hstk Hin).
Qed.

(* ================= the whole traversal ================= *)
Lemma sim0 : SimG (seq 0 n) gh0 gh0 (state0 g) (state0 g').
Proof.
  constructor.
  - apply wsim0.
  - apply wsim0.
  - apply fut0.
  - constructor; [reflexivity | intros x _; reflexivity | intros x _; reflexivity].
  - reflexivity.
  - reflexivity.
  - reflexivity.
  - apply brng_nil.
Qed.

Theorem traverse_equiv h : traverse g = (WOk, h) -> exists h', traverse g' = (WOk, h') /\ map (NE N) h' = map (NE N) h.
Proof.
  unfold traverse. intros H.
  destruct (outer (seq 0 n) (S (total_bonds g)) n (state0 g)) as [r sf] eqn:Eo. inversion H; subst r h.
  assert (Hids : forall id, In id (seq 0 n) -> id < n) by (intros id Hid; apply in_seq in Hid; lia).
  destruct (outer_sim (seq 0 n) _ _ sf Hids Eo eq_refl (S (total_bonds g')) gh0 gh0 (state0 g') 0 sim0 (Nat.le_0_l _)) as [Hfuel | [sf' [ghf [ghf' [Eo' Sf]]]]].
  - exfalso. pose proof (traverse_safe g') as Hs. unfold traverse in Hs. rewrite len' in Hs. rewrite Nat.sub_0_r in Hfuel.
    destruct (outer (seq 0 n) (S (total_bonds g')) n (state0 g')) as [r' s'']. cbn [fst] in Hfuel. subst r'. destruct Hs as [_ [Hs _]]. apply Hs. reflexivity.
  - rewrite len'. rewrite Nat.sub_0_r in Eo'. rewrite Eo'. eexists. split; [reflexivity|]. rewrite !map_rev. f_equal. exact (sg_evs _ _ _ _ _ Sf).
Qed.
End Equiv.
