(* C08, reader half: for every input string the events emitted by the reader model (up to the point where it
   reports an error) obey the follower protocol; and the chain-length accounting that becomes pop depths. *)
From Coq Require Import List NArith Lia Bool Arith.
Import ListNotations.
Require Import P.Generated.Enums P.Spec.Values P.Meta.Scan P.Model.Base P.Model.Token P.Model.Reader P.Spec.Events P.Proofs.WalkInv.

Definition evs_of (s : rstate) : list ev := rev (map ev_of (out s)).
Definition cok (s : rstate) : Prop := confP 0 (evs_of s).
Definition pl (s : rstate) : nat := plen 0 (evs_of s).

Lemma evs_adv s n : evs_of (adv s n) = evs_of s. Proof. reflexivity. Qed.
Lemma evs_emit s e : evs_of (emit s e) = evs_of s ++ [ev_of e]. Proof. unfold evs_of, emit. cbn [out map rev]. reflexivity. Qed.
Lemma cok_emit s e : cok s -> confP (pl s) [ev_of e] -> cok (emit s e).
Proof. unfold cok, pl. rewrite evs_emit, conf_app. tauto. Qed.
Lemma pl_emit s e : pl (emit s e) = plen (pl s) [ev_of e].
Proof. unfold pl. rewrite evs_emit, plen_app. reflexivity. Qed.

Lemma read_link_spec input s : cok s -> (input <> None -> 1 <= pl s) ->
  match read_link input s with
  | (ROk true, s') => cok s' /\ pl s' = S (pl s)
  | (_, s') => evs_of s' = evs_of s
  end.
Proof.
  intros Hc Hl. unfold read_link. destruct (read_atom (rest s)) as [k n| | | |]; try reflexivity.
  split.
  - apply cok_emit; [exact Hc|]. rewrite (evs_adv s n : pl (adv s n) = pl s) || idtac.
    change (pl (adv s n)) with (pl s). destruct input as [b|]; cbn [ev_of confP]; [split; [apply Hl; discriminate | exact I] | exact I].
  - rewrite pl_emit. change (pl (adv s n)) with (pl s). destruct input; reflexivity.
Qed.

Section Loop.
Variable rs : option bond_kind -> rstate -> rres (option nat) * rstate.
Hypothesis Hrs : forall input s, cok s -> 1 <= pl s ->
  let '(r, s') := rs input s in cok s' /\ match r with ROk (Some len) => 1 <= len /\ pl s' = pl s + len | _ => True end.

Lemma read_branch_spec s : cok s -> 1 <= pl s ->
  let '(r, s') := read_branch rs s in cok s' /\ match r with ROk _ => pl s' = pl s | _ => True end.
Proof.
  intros Hc Hl. unfold read_branch. destruct (peek s) as [c|]; [|auto].
  destruct (N.eqb c LP); [|auto].
  set (s1 := adv s 1).
  assert (Hc1 : cok s1) by exact Hc. assert (Hl1 : pl s1 = pl s) by reflexivity.
  set (r := match peek s1 with
            | Some c' => if N.eqb c' DOT then rs None (adv s1 1) else let '(b, n) := read_bond (rest s1) in rs (Some b) (adv s1 n)
            | None => let '(b, n) := read_bond (rest s1) in rs (Some b) (adv s1 n) end).
  assert (Hr : let '(x, s') := r in cok s' /\ match x with ROk (Some len) => 1 <= len /\ pl s' = pl s + len | _ => True end).
  { unfold r. destruct (peek s1) as [c'|].
    - destruct (N.eqb c' DOT).
      + apply (Hrs None (adv s1 1)); [exact Hc | exact Hl].
      + destruct (read_bond (rest s1)) as [b n]. apply (Hrs (Some b) (adv s1 n)); [exact Hc | exact Hl].
    - destruct (read_bond (rest s1)) as [b n]. apply (Hrs (Some b) (adv s1 n)); [exact Hc | exact Hl]. }
  destruct r as [x s2]. destruct Hr as [Hc2 Hx]. destruct x as [[len|]| | | |]; try (split; [exact Hc2 | exact I]).
  - destruct Hx as [Hlen Hp2]. destruct (peek s2) as [c''|].
    + destruct (N.eqb c'' RP).
      * split.
        -- apply cok_emit; [exact Hc2|]. change (pl (adv s2 1)) with (pl s2). cbn [ev_of confP]. repeat split; lia.
        -- rewrite pl_emit. change (pl (adv s2 1)) with (pl s2). cbn [ev_of plen]. lia.
      * split; [exact Hc2|]. unfold missing_character. destruct (rest s2); exact I.
    + split; [exact Hc2|]. unfold missing_character. destruct (rest s2); exact I.
  - split; [exact Hc2|]. unfold missing_character. destruct (rest s2); exact I.
Qed.

Lemma loop_spec : forall g s acc B, cok s -> 1 <= acc -> pl s = B + acc ->
  let '(r, s') := loop rs g s acc in cok s' /\ match r with ROk (Some n) => 1 <= n /\ pl s' = B + n | _ => True end.
Proof.
  induction g as [|g IH]; intros s acc B Hc Hacc Hp; cbn [loop]; [split; [exact Hc | exact I]|].
  pose proof (read_branch_spec s Hc ltac:(lia)) as Hb.
  destruct (read_branch rs s) as [rb s1]. destruct Hb as [Hc1 Hb].
  destruct rb as [[|]| | | |]; try (split; [exact Hc1 | exact I]).
  - apply (IH s1 acc B Hc1 Hacc). lia.
  - destruct (match peek s1 with Some c => N.eqb c DOT | None => false end).
    + pose proof (read_link_spec None (adv s1 1) Hc1 ltac:(congruence)) as Hlk.
      destruct (read_link None (adv s1 1)) as [rl s2]. destruct rl as [[|]| | | |].
      * destruct Hlk as [Hc2 Hp2]. apply (IH s2 (S acc) B Hc2 ltac:(lia)). change (pl (adv s1 1)) with (pl s1) in Hp2. lia.
      * split; [unfold cok; rewrite Hlk; exact Hc1|]. unfold missing_character. destruct (rest s2); exact I.
      * split; [unfold cok; rewrite Hlk; exact Hc1 | exact I].
      * split; [unfold cok; rewrite Hlk; exact Hc1 | exact I].
      * split; [unfold cok; rewrite Hlk; exact Hc1 | exact I].
      * split; [unfold cok; rewrite Hlk; exact Hc1 | exact I].
    + destruct (read_bond (rest s1)) as [b n].
      pose proof (read_link_spec (Some b) (adv s1 n) Hc1 ltac:(intros _; change (pl (adv s1 n)) with (pl s1); lia)) as Hlk.
      destruct (read_link (Some b) (adv s1 n)) as [rl s2]. destruct rl as [[|]| | | |].
      * destruct Hlk as [Hc2 Hp2]. apply (IH s2 (S acc) B Hc2 ltac:(lia)). change (pl (adv s1 n)) with (pl s1) in Hp2. lia.
      * assert (Hc2 : cok s2) by (unfold cok; rewrite Hlk; exact Hc1).
        assert (Hp2 : pl s2 = pl s1) by (unfold pl; rewrite Hlk; reflexivity).
        destruct (read_rnum (rest s2)) as [r m| | | |].
        -- apply (IH (emit (adv s2 m) (RJoin b r (pos s1) (pos s2) (pos (adv s2 m)))) acc B).
           ++ apply cok_emit; [exact Hc2|]. change (pl (adv s2 m)) with (pl s2). cbn [ev_of confP]. split; [lia | exact I].
           ++ exact Hacc.
           ++ rewrite pl_emit. change (pl (adv s2 m)) with (pl s2). cbn [ev_of plen]. lia.
        -- destruct (bondk_eqb b BK_Elided).
           ++ split; [exact Hc2|]. split; [exact Hacc | lia].
           ++ split; [exact Hc2|]. unfold missing_character. destruct (rest s2); exact I.
        -- split; [exact Hc2 | exact I].
        -- split; [exact Hc2 | exact I].
        -- split; [exact Hc2 | exact I].
      * split; [unfold cok; rewrite Hlk; exact Hc1 | exact I].
      * split; [unfold cok; rewrite Hlk; exact Hc1 | exact I].
      * split; [unfold cok; rewrite Hlk; exact Hc1 | exact I].
      * split; [unfold cok; rewrite Hlk; exact Hc1 | exact I].
Qed.
End Loop.

Lemma read_smiles_spec : forall f d input s, cok s -> (input <> None -> 1 <= pl s) ->
  let '(r, s') := read_smiles f d input s in cok s' /\ match r with ROk (Some n) => 1 <= n /\ pl s' = pl s + n | _ => True end.
Proof.
  induction f as [|f IH]; intros d input s Hc Hl; cbn [read_smiles]; [split; [exact Hc | exact I]|].
  set (s0 := {| rest := rest s; pos := pos s; out := out s; maxd := Nat.max (maxd s) (S d) |}).
  assert (Hc0 : cok s0) by exact Hc. assert (Hp0 : pl s0 = pl s) by reflexivity.
  pose proof (read_link_spec input s0 Hc0 ltac:(rewrite Hp0; exact Hl)) as Hlk.
  destruct (read_link input s0) as [rl s1]. destruct rl as [[|]| | | |].
  - destruct Hlk as [Hc1 Hp1].
    pose proof (loop_spec (read_smiles f (S d))) as Hloop.
    specialize (Hloop (fun input s Hc Hl => IH (S d) input s Hc (fun _ => Hl))).
    specialize (Hloop (S (length (rest s1))) s1 1 (pl s) Hc1 ltac:(lia) ltac:(lia)).
    destruct (loop (read_smiles f (S d)) (S (length (rest s1))) s1 1) as [r s2]. exact Hloop.
  - split; [unfold cok; rewrite Hlk; exact Hc0 | exact I].
  - split; [unfold cok; rewrite Hlk; exact Hc0 | exact I].
  - split; [unfold cok; rewrite Hlk; exact Hc0 | exact I].
  - split; [unfold cok; rewrite Hlk; exact Hc0 | exact I].
  - split; [unfold cok; rewrite Hlk; exact Hc0 | exact I].
Qed.

Theorem reader_conformant : forall s, conformant (snd (rd s)) = true.
Proof.
  intros s. unfold rd, read, read_from.
  set (s0 := {| rest := s; pos := 0; out := []; maxd := 0 |}).
  pose proof (read_smiles_spec (S (length s)) 0 None s0 I ltac:(congruence)) as H.
  destruct (read_smiles (S (length s)) 0 None s0) as [r s1]. destruct H as [H _].
  cbn [snd r_events r_verdict]. rewrite map_rev. apply conf_iff. exact H.
Qed.
