(* Lifting finite computations to universally quantified statements. *)
From Coq Require Import List ZArith NArith Bool Arith Lia.
Import ListNotations.

Lemma forallb_all {A} (P : A -> bool) (l : list A) : (forall x, In x l) -> forallb P l = true -> forall x, P x = true.
Proof. intros Hc H x. rewrite forallb_forall in H. apply H, Hc. Qed.
Lemma filter_nil_all {A} (P : A -> bool) (l : list A) : (forall x, In x l) -> filter (fun x => negb (P x)) l = [] -> forall x, P x = true.
Proof.
  intros Hc H x. destruct (P x) eqn:E; [reflexivity|]. exfalso.
  assert (In x (filter (fun x => negb (P x)) l)) as Hin by (apply filter_In; split; [apply Hc | rewrite E; reflexivity]).
  rewrite H in Hin. exact Hin.
Qed.
Lemma filter_nil_in {A} (P : A -> bool) (l : list A) : filter (fun x => negb (P x)) l = [] -> forall x, In x l -> P x = true.
Proof.
  intros H x Hx. destruct (P x) eqn:E; [reflexivity|]. exfalso.
  assert (In x (filter (fun x => negb (P x)) l)) as Hin by (apply filter_In; split; [exact Hx | rewrite E; reflexivity]).
  rewrite H in Hin. exact Hin.
Qed.

(* all N below a bound, all Z in an interval *)
Definition N_below (n : nat) : list N := map N.of_nat (seq 0 n).
Lemma N_below_complete n x : (x < N.of_nat n)%N -> In x (N_below n).
Proof.
  intros H. unfold N_below. rewrite <- (N2Nat.id x). apply in_map. apply in_seq. lia.
Qed.
Definition Z_interval (lo : Z) (n : nat) : list Z := map (fun i => (lo + Z.of_nat i)%Z) (seq 0 n).
Lemma Z_interval_complete lo n z : (lo <= z < lo + Z.of_nat n)%Z -> In z (Z_interval lo n).
Proof.
  intros H. unfold Z_interval. replace z with (lo + Z.of_nat (Z.to_nat (z - lo)))%Z by lia.
  apply in_map with (f := fun i => (lo + Z.of_nat i)%Z). apply in_seq. lia.
Qed.

(* run-length encoded total functions on [0, top) *)
Section Segs.
Variable A : Type.
Fixpoint seg_lookup (segs : list (N * N * A)) (n : N) : option A :=
  match segs with
  | [] => None
  | (lo, hi, v) :: t => if (N.leb lo n && N.leb n hi)%bool then Some v else seg_lookup t n
  end.
Fixpoint tiles (segs : list (N * N * A)) (next top : N) : bool :=
  match segs with
  | [] => N.eqb next top
  | (lo, hi, _) :: t => (N.eqb lo next && N.leb lo hi && tiles t (hi + 1) top)%bool
  end.
Lemma seg_lookup_spec (Q : N -> A -> Prop) : forall segs next top,
  tiles segs next top = true ->
  Forall (fun s => let '(lo, hi, v) := s in forall n, (lo <= n <= hi)%N -> Q n v) segs ->
  forall n, (next <= n < top)%N -> exists v, seg_lookup segs n = Some v /\ Q n v.
Proof.
  induction segs as [|[[lo hi] v] t IH]; intros next top Ht Hq n Hn; cbn [tiles seg_lookup] in *.
  - apply N.eqb_eq in Ht. lia.
  - apply andb_true_iff in Ht as [Ht Ht3]. apply andb_true_iff in Ht as [Ht1 Ht2].
    apply N.eqb_eq in Ht1. apply N.leb_le in Ht2. subst lo. inversion Hq as [|? ? Hq1 Hq2]; subst.
    destruct (N.leb next n && N.leb n hi)%bool eqn:E.
    + apply andb_true_iff in E as [E1 E2]. apply N.leb_le in E1, E2. exists v. split; [reflexivity|]. apply Hq1. lia.
    + apply (IH (hi + 1)%N top Ht3 Hq2). apply andb_false_iff in E as [E|E]; apply N.leb_gt in E; lia.
Qed.
End Segs.
Arguments seg_lookup {A}. Arguments tiles {A}.
