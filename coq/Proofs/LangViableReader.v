(* C05, first half: what the reader (Model/Reader.v, with cursors) has read up to a reported error position is a
   viable prefix of the language, and the position is inside the input; at a reported end of line the whole input
   is a viable prefix.  One invariant per reader function: on success the consumed text is a member of the
   function's language and the cursor has advanced by its length; on error the text before the reported position
   can be completed to a member. *)
From Coq Require Import String.
From Coq Require Import List NArith Lia Bool Arith.
Import ListNotations.
Require Import P.Generated.Enums P.Meta.Scan P.Spec.Values P.Spec.Reading P.Generated.Trees
  P.Model.Base P.Model.Token P.Model.Reader
  P.Spec.Lang P.Proofs.LangTokens P.Proofs.LangAtoms P.Proofs.LangSound P.Proofs.LangViable.
Strategy opaque [tree_symbol tree_organic tree_configuration tree_charge tree_bond tree_rnum tree_hcount tree_isotope tree_map].

Definition consumed (L : list N -> Prop) (st st' : rstate) : Prop :=
  exists x, L x /\ rest st = x ++ rest st' /\ pos st' = pos st + length x.
Definition same_place (st st' : rstate) : Prop := rest st' = rest st /\ pos st' = pos st.
Definition err_ok {A} (L : list N -> Prop) (st : rstate) (r : rres A) : Prop :=
  match r with
  | RErrChar i => pos st <= i /\ i - pos st < length (rest st) /\ Viable L (firstn (i - pos st) (rest st))
  | RErrEol => Viable L (rest st)
  | _ => True end.

Lemma firstn_exact {A} (x w : list A) : firstn (length x) (x ++ w) = x.
Proof. rewrite firstn_app, Nat.sub_diag, firstn_all. cbn [firstn]. apply app_nil_r. Qed.

Lemma err_lift {A B} (L1 L : list N -> Prop) st st1 x (r : rres A) (r' : rres B) :
  rest st = x ++ rest st1 -> pos st1 = pos st + length x -> (forall y, Viable L1 y -> Viable L (x ++ y)) ->
  match r, r' with RErrChar i, RErrChar j => i = j | RErrEol, RErrEol => True | _, _ => False end ->
  err_ok L1 st1 r -> err_ok L st r'.
Proof.
  intros Hr Hp Hv Hrr H. destruct r as [v| |i| |]; destruct r' as [v'| |j| |]; try contradiction.
  - cbn [err_ok] in *. rewrite Hr. apply Hv. exact H.
  - subst j. cbn [err_ok] in *. destruct H as [H1 [H2 H3]]. split; [lia|]. split; [rewrite Hr, app_length; lia|].
    rewrite Hr. rewrite firstn_past by lia. replace (i - pos st - length x) with (i - pos st1) by lia. apply Hv. exact H3.
Qed.
Lemma miss_ok {A} (L : list N -> Prop) st st1 x : rest st = x ++ rest st1 -> pos st1 = pos st + length x -> Viable L x ->
  err_ok L st (@missing_character A st1).
Proof.
  intros Hr Hp Hv. unfold missing_character. destruct (rest st1) as [|c t] eqn:E; cbn [err_ok].
  - rewrite Hr, app_nil_r. exact Hv.
  - split; [lia|]. split; [rewrite Hr, app_length; cbn [length]; lia|].
    rewrite Hr, Hp. replace (pos st + length x - pos st) with (length x) by lia. rewrite firstn_exact. exact Hv.
Qed.
Lemma peek_rest st c : peek st = Some c -> rest st = c :: rest (adv st 1) /\ pos (adv st 1) = pos st + 1.
Proof. unfold peek, adv. cbn [rest pos]. destruct (rest st) as [|c' t]; [discriminate|]. intros H. inversion H. auto. Qed.
Lemma bond_split' x b n : read_bond x = (b, n) -> exists p, opt Bond p /\ x = p ++ skipn n x /\ n = length p /\ (bondk_eqb b BK_Elided = true -> p = []).
Proof.
  intros H. destruct (bond_read _ _ _ H) as [[-> ->]|[Hb [p [w [-> [Hp ->]]]]]].
  - exists []. split; [left; reflexivity|]. auto.
  - exists p. split; [right; exact Hp|]. rewrite skipn_len_app. split; [reflexivity|]. split; [reflexivity|]. intros E. congruence.
Qed.

(* ---------- completions ---------- *)
Lemma carbon_atom : Atom (str "C"). Proof. left. exact carbon_organic. Qed.
Lemma carbon_chain : Chain (str "C"). Proof. rewrite <- (app_nil_r (str "C")). apply chain; [exact carbon_atom | apply items_nil]. Qed.
Lemma items_one i : Item i -> Items i.
Proof. intros H. rewrite <- (app_nil_r i). apply items_cons; [exact H | apply items_nil]. Qed.
Lemma via_atom_chain y : Viable Atom y -> Viable Chain y.
Proof. intros [q H]. exists q. rewrite <- (app_nil_r (y ++ q)). apply chain; [exact H | apply items_nil]. Qed.
Lemma via_items_chain a y : Atom a -> Viable Items y -> Viable Chain (a ++ y).
Proof. intros Ha [q H]. exists q. rewrite <- app_assoc. apply chain; assumption. Qed.
Lemma via_item_items y : Viable Item y -> Viable Items y.
Proof. intros [q H]. exists q. apply items_one. exact H. Qed.
Lemma via_items_cons i y : Item i -> Viable Items y -> Viable Items (i ++ y).
Proof. intros Hi [q H]. exists q. rewrite <- app_assoc. apply items_cons; assumption. Qed.
Lemma via_branch p y : p = str "." \/ opt Bond p -> Viable Chain y -> Viable Item (str "(" ++ p ++ y).
Proof.
  intros Hp [q H]. exists (q ++ str ")"). replace ((str "(" ++ p ++ y) ++ q ++ str ")") with (str "(" ++ p ++ (y ++ q) ++ str ")").
  - apply item_branch; assumption.
  - repeat rewrite <- app_assoc. reflexivity.
Qed.
Lemma via_dot y : Viable Atom y -> Viable Items (str "." ++ y).
Proof. intros [q H]. exists q. apply items_one. rewrite <- app_assoc. apply item_dot. exact H. Qed.
Lemma via_bond_atom p y : opt Bond p -> Viable Atom y -> Viable Items (p ++ y).
Proof. intros Hp [q H]. exists q. apply items_one. rewrite <- app_assoc. apply item_atom; assumption. Qed.
Lemma via_bond_rnum p y : opt Bond p -> Viable Rnum y -> Viable Items (p ++ y).
Proof. intros Hp [q H]. exists q. apply items_one. rewrite <- app_assoc. apply item_ring; assumption. Qed.
Lemma via_nil_atom : Viable Atom []. Proof. exists (str "C"). exact carbon_atom. Qed.
Lemma via_nil_chain : Viable Chain []. Proof. exists (str "C"). exact carbon_chain. Qed.

(* ---------- read_link ---------- *)
Definition link_post (st : rstate) (x : rres bool * rstate) : Prop :=
  match fst x with ROk true => consumed Atom st (snd x) | ROk false => same_place st (snd x) | r => err_ok Atom st r end.
Lemma link_ok input st : link_post st (read_link input st).
Proof.
  unfold read_link, link_post. destruct (atom_viable (rest st)) as [V1 V2].
  destruct (read_atom (rest st)) as [k n| | |j|] eqn:E; cbn [fst snd tok_err err_ok].
  - destruct (atom_sound _ _ _ E) as [p [w [Hx [Hp ->]]]]. exists p. split; [exact Hp|]. cbn [emit adv rest pos]. rewrite Hx, skipn_len_app. auto.
  - split; reflexivity.
  - apply V2. reflexivity.
  - destruct (V1 j eq_refl) as [Hl Hv]. replace (pos st + j - pos st) with j by lia. split; [lia|]. split; [exact Hl | exact Hv].
  - exact I.
Qed.

Definition smiles_post (st : rstate) (x : rres (option nat) * rstate) : Prop :=
  match fst x with ROk (Some _) => consumed Chain st (snd x) | ROk None => same_place st (snd x) | r => err_ok Chain st r end.
Definition branch_post (st : rstate) (x : rres bool * rstate) : Prop :=
  match fst x with ROk true => consumed Item st (snd x) | ROk false => same_place st (snd x) | r => err_ok Item st r end.
Definition loop_post (st : rstate) (x : rres (option nat) * rstate) : Prop :=
  match fst x with ROk (Some _) => consumed Items st (snd x) | ROk None => False | r => err_ok Items st r end.

Lemma branch_post_miss st0 st3 : err_ok Item st0 (@missing_character bool st3) -> branch_post st0 (missing_character st3, st3).
Proof. unfold branch_post. cbn [fst]. unfold missing_character. destruct (rest st3); intros H; exact H. Qed.
Lemma loop_post_miss st0 st3 : err_ok Items st0 (@missing_character (option nat) st3) -> loop_post st0 (missing_character st3, st3).
Proof. unfold loop_post. cbn [fst]. unfold missing_character. destruct (rest st3); intros H; exact H. Qed.

Section Loop.
Variable rs : option bond_kind -> rstate -> rres (option nat) * rstate.
Hypothesis rs_post : forall input st, smiles_post st (rs input st).

(* after "(" and its optional dot or bond *)
Lemma branch_tail p st0 st2 input : p = str "." \/ opt Bond p -> rest st0 = (str "(" ++ p) ++ rest st2 -> pos st2 = pos st0 + length (str "(" ++ p) ->
  branch_post st0 (match rs input st2 with
      | (ROk (Some len), s) =>
          match peek s with
          | Some c'' => if N.eqb c'' RP then (ROk true, emit (adv s 1) (RPop len)) else (missing_character s, s)
          | None => (missing_character s, s)
          end
      | (ROk None, s) => (missing_character s, s)
      | (RErrEol, s) => (RErrEol, s) | (RErrChar i, s) => (RErrChar i, s) | (RPanic, s) => (RPanic, s) | (RFuel, s) => (RFuel, s)
      end).
Proof.
  intros Hp Hr Hpos. pose proof (rs_post input st2) as Hrs. unfold smiles_post in Hrs.
  assert (Hlift : forall y, Viable Chain y -> Viable Item ((str "(" ++ p) ++ y)).
  { intros y Hy. rewrite <- app_assoc. apply via_branch; assumption. }
  destruct (rs input st2) as [[[len|]| |i| |] st3]; cbn [fst snd] in Hrs; unfold branch_post; cbn [fst snd].
  - destruct Hrs as [x [Hx [Hrx Hpx]]].
    assert (Hmiss : err_ok Item st0 (@missing_character bool st3)).
    { apply (miss_ok Item st0 st3 ((str "(" ++ p) ++ x)).
      - rewrite Hr, Hrx. rewrite app_assoc. reflexivity.
      - rewrite Hpx, Hpos. rewrite !app_length. lia.
      - apply Hlift. exists []. rewrite app_nil_r. exact Hx. }
    destruct (peek st3) as [c''|] eqn:Ep.
    + destruct (N.eqb_spec c'' RP) as [->|_].
      * cbn [fst snd]. destruct (peek_rest st3 _ Ep) as [Hr3 Hp3]. exists (str "(" ++ p ++ x ++ str ")").
        split; [apply item_branch; assumption|]. cbn [emit rest pos]. split.
        -- rewrite Hr, Hrx, Hr3. change (str ")") with [RP]. repeat rewrite <- app_assoc. reflexivity.
        -- cbn [adv pos] in *. rewrite Hpx, Hpos. rewrite !app_length. change (length (str ")")) with 1. lia.
      * apply branch_post_miss. exact Hmiss.
    + apply branch_post_miss. exact Hmiss.
  - destruct Hrs as [Hr3 Hp3].
    assert (Hmiss : err_ok Item st0 (@missing_character bool st3)).
    { apply (miss_ok Item st0 st3 (str "(" ++ p)).
      - rewrite Hr3. exact Hr.
      - rewrite Hp3. exact Hpos.
      - rewrite <- (app_nil_r (str "(" ++ p)). apply Hlift. exact via_nil_chain. }
    apply branch_post_miss. exact Hmiss.
  - apply (err_lift Chain Item st0 st2 (str "(" ++ p) (@RErrEol (option nat)) (@RErrEol bool) Hr Hpos Hlift I Hrs).
  - apply (err_lift Chain Item st0 st2 (str "(" ++ p) (@RErrChar (option nat) i) (@RErrChar bool i) Hr Hpos Hlift eq_refl Hrs).
  - exact I.
  - exact I.
Qed.

Lemma branch_ok st : branch_post st (read_branch rs st).
Proof.
  unfold read_branch. destruct (peek st) as [c|] eqn:Ep; [|split; reflexivity].
  destruct (N.eqb_spec c LP) as [->|_]; [|split; reflexivity].
  destruct (peek_rest st _ Ep) as [Hr1 Hp1]. set (st1 := adv st 1) in *.
  assert (Hbond : branch_post st (match (let '(b, n) := read_bond (rest st1) in rs (Some b) (adv st1 n)) with
      | (ROk (Some len), s) =>
          match peek s with
          | Some c'' => if N.eqb c'' RP then (ROk true, emit (adv s 1) (RPop len)) else (missing_character s, s)
          | None => (missing_character s, s)
          end
      | (ROk None, s) => (missing_character s, s)
      | (RErrEol, s) => (RErrEol, s) | (RErrChar i, s) => (RErrChar i, s) | (RPanic, s) => (RPanic, s) | (RFuel, s) => (RFuel, s)
      end)).
  { destruct (read_bond (rest st1)) as [b n] eqn:Eb. destruct (bond_split' _ _ _ Eb) as [p [Hp [Hx [Hn _]]]].
    apply (branch_tail p st (adv st1 n) (Some b)); [right; exact Hp | |].
    - rewrite Hr1. change (str "(") with [LP]. cbn [app adv rest]. f_equal. exact Hx.
    - cbn [adv pos] in *. rewrite Hp1, app_length. change (length (str "(")) with 1. lia. }
  destruct (peek st1) as [c'|] eqn:Ep1; [|exact Hbond].
  destruct (N.eqb_spec c' DOT) as [->|_]; [|exact Hbond].
  destruct (peek_rest st1 _ Ep1) as [Hr2 Hp2].
  apply (branch_tail (str ".") st (adv st1 1) None); [left; reflexivity | |].
  - rewrite Hr1, Hr2. reflexivity.
  - rewrite Hp2, Hp1. change (length (str "(" ++ str ".")) with 2. lia.
Qed.

Lemma loop_lift st st1 i (x : rres (option nat) * rstate) : consumed (fun y => y = i) st st1 -> (i = [] \/ Item i) -> loop_post st1 x -> loop_post st x.
Proof.
  intros [y [Ey [Hr Hp]]] Hi H. subst i. unfold loop_post in *.
  assert (Hv : forall z, Viable Items z -> Viable Items (y ++ z)).
  { intros z Hz. destruct Hi as [->|Hi]; [exact Hz | apply via_items_cons; assumption]. }
  destruct (fst x) as [[n|]| |j| |] eqn:E.
  - destruct H as [r [Hr' [Hrr Hpr]]]. exists (y ++ r). split; [|split].
    + destruct Hi as [->|Hi]; [exact Hr' | apply items_cons; assumption].
    + rewrite Hr, Hrr, app_assoc. reflexivity.
    + rewrite Hpr, Hp, app_length. lia.
  - exact H.
  - apply (err_lift Items Items st st1 y (@RErrEol (option nat)) (@RErrEol (option nat)) Hr Hp Hv I H).
  - apply (err_lift Items Items st st1 y (@RErrChar (option nat) j) (@RErrChar (option nat) j) Hr Hp Hv eq_refl H).
  - exact I.
  - exact I.
Qed.
Lemma consumed_is L st st1 x : L x -> rest st = x ++ rest st1 -> pos st1 = pos st + length x -> consumed (fun y => y = x) st st1.
Proof. intros _ Hr Hp. exists x. auto. Qed.

Lemma loop_ok : forall g st acc, loop_post st (loop rs g st acc).
Proof.
  induction g as [|g IH]; intros st acc; cbn [loop]; [exact I|].
  pose proof (branch_ok st) as Hb. unfold branch_post in Hb.
  destruct (read_branch rs st) as [[[|]| |i| |] st1]; cbn [fst snd] in Hb.
  - (* a branch was read *) destruct Hb as [x [Hx [Hr Hp]]]. apply (loop_lift st st1 x); [exists x; auto | right; exact Hx | apply IH].
  - (* no branch here *) destruct Hb as [Hr1 Hp1].
    assert (Hsame : consumed (fun y => y = []) st st1) by (exists []; cbn [app length]; split; [reflexivity | split; [congruence | lia]]).
    apply (loop_lift st st1 [] _ Hsame (or_introl eq_refl)). clear Hsame Hr1 Hp1 st.
    destruct (match peek st1 with Some c => N.eqb c DOT | None => false end) eqn:Ed.
    + destruct (peek st1) as [c|] eqn:Ep; [|discriminate]. apply N.eqb_eq in Ed. subst c.
      destruct (peek_rest st1 _ Ep) as [Hr2 Hp2]. set (st2 := adv st1 1) in *.
      pose proof (link_ok None st2) as Hl. unfold link_post in Hl.
      assert (Hlift : forall y, Viable Atom y -> Viable Items (str "." ++ y)) by (intros y; apply via_dot).
      destruct (read_link None st2) as [[[|]| |i| |] st3]; cbn [fst snd] in Hl.
      * destruct Hl as [a [Ha [Hr3 Hp3]]]. apply (loop_lift st1 st3 (str "." ++ a)); [|right; apply item_dot; exact Ha | apply IH].
        exists (str "." ++ a). split; [reflexivity|]. split; [rewrite Hr2, Hr3; reflexivity | rewrite Hp3, Hp2, app_length; change (length (str ".")) with 1; lia].
      * destruct Hl as [Hr3 Hp3].
        assert (Hm : err_ok Items st1 (@missing_character (option nat) st3)).
        { apply (miss_ok Items st1 st3 (str ".")); [rewrite Hr3; exact Hr2 | rewrite Hp3; exact Hp2|].
          rewrite <- (app_nil_r (str ".")). apply Hlift. exact via_nil_atom. }
        apply loop_post_miss. exact Hm.
      * apply (err_lift Atom Items st1 st2 (str ".") (@RErrEol bool) (@RErrEol (option nat)) Hr2 Hp2 Hlift I Hl).
      * apply (err_lift Atom Items st1 st2 (str ".") (@RErrChar bool i) (@RErrChar (option nat) i) Hr2 Hp2 Hlift eq_refl Hl).
      * exact I.
      * exact I.
    + destruct (read_bond (rest st1)) as [b n] eqn:Eb. destruct (bond_split' _ _ _ Eb) as [p [Hp [Hx [Hn Hel]]]].
      set (st2 := adv st1 n).
      assert (Hr2 : rest st1 = p ++ rest st2) by exact Hx.
      assert (Hp2 : pos st2 = pos st1 + length p) by (cbn [st2 adv pos]; lia).
      pose proof (link_ok (Some b) st2) as Hl. unfold link_post in Hl.
      assert (Hlift : forall y, Viable Atom y -> Viable Items (p ++ y)) by (intros y; apply via_bond_atom; exact Hp).
      destruct (read_link (Some b) st2) as [[[|]| |i| |] st3]; cbn [fst snd] in Hl.
      * destruct Hl as [a [Ha [Hr3 Hp3]]]. apply (loop_lift st1 st3 (p ++ a)); [|right; apply item_atom; assumption | apply IH].
        exists (p ++ a). split; [reflexivity|]. split; [rewrite Hr2, Hr3, app_assoc; reflexivity | rewrite Hp3, Hp2, app_length; lia].
      * destruct Hl as [Hr3 Hp3].
        assert (Hr3' : rest st1 = p ++ rest st3) by (rewrite Hr3; exact Hr2).
        assert (Hp3' : pos st3 = pos st1 + length p) by (rewrite Hp3; exact Hp2).
        assert (Hlift' : forall y, Viable Rnum y -> Viable Items (p ++ y)) by (intros y; apply via_bond_rnum; exact Hp).
        destruct (rnum_read_viable (rest st3)) as [V1 V2].
        destruct (read_rnum (rest st3)) as [rn m| | |j|] eqn:Er.
        -- destruct (rnum_read_sound _ _ _ Er) as [q [w [Hq [HRq ->]]]].
           apply (loop_lift st1 (emit (adv st3 (length q)) (RJoin b rn (pos st1) (pos st3) (pos (adv st3 (length q))))) (p ++ q));
             [|right; apply item_ring; assumption | apply IH].
           exists (p ++ q). split; [reflexivity|]. cbn [emit adv rest pos]. split.
           ++ rewrite Hr3', Hq, skipn_len_app, app_assoc. reflexivity.
           ++ rewrite Hp3', app_length. lia.
        -- destruct (bondk_eqb b BK_Elided) eqn:Ee.
           ++ unfold loop_post. cbn [fst snd]. exists []. split; [apply items_nil|]. rewrite (Hel eq_refl) in *. cbn [app length] in *.
              split; [exact Hr3' | lia].
           ++ assert (Hm : err_ok Items st1 (@missing_character (option nat) st3)).
              { apply (miss_ok Items st1 st3 p Hr3' Hp3'). rewrite <- (app_nil_r p). apply Hlift. exact via_nil_atom. }
              apply loop_post_miss. exact Hm.
        -- unfold loop_post. cbn [fst tok_err].
           apply (err_lift Rnum Items st1 st3 p (@RErrEol (option nat)) (@RErrEol (option nat)) Hr3' Hp3' Hlift' I). cbn [err_ok]. apply V2. reflexivity.
        -- unfold loop_post. cbn [fst tok_err].
           apply (err_lift Rnum Items st1 st3 p (@RErrChar (option nat) (pos st3 + j)) (@RErrChar (option nat) (pos st3 + j)) Hr3' Hp3' Hlift' eq_refl).
           cbn [err_ok]. destruct (V1 j eq_refl) as [Hl' Hv]. replace (pos st3 + j - pos st3) with j by lia. split; [lia|]. split; [exact Hl' | exact Hv].
        -- exact I.
      * apply (err_lift Atom Items st1 st2 p (@RErrEol bool) (@RErrEol (option nat)) Hr2 Hp2 Hlift I Hl).
      * apply (err_lift Atom Items st1 st2 p (@RErrChar bool i) (@RErrChar (option nat) i) Hr2 Hp2 Hlift eq_refl Hl).
      * exact I.
      * exact I.
  - (* errors inside the branch *)
    assert (H0 : rest st = [] ++ rest st) by reflexivity. assert (H1 : pos st = pos st + length (@nil N)) by (cbn [length]; lia).
    apply (err_lift Item Items st st [] (@RErrEol bool) (@RErrEol (option nat)) H0 H1 (fun y Hy => via_item_items y Hy) I Hb).
  - assert (H0 : rest st = [] ++ rest st) by reflexivity. assert (H1 : pos st = pos st + length (@nil N)) by (cbn [length]; lia).
    apply (err_lift Item Items st st [] (@RErrChar bool i) (@RErrChar (option nat) i) H0 H1 (fun y Hy => via_item_items y Hy) eq_refl Hb).
  - exact I.
  - exact I.
Qed.
End Loop.

Lemma smiles_ok : forall f d input st, smiles_post st (read_smiles f d input st).
Proof.
  induction f as [|f IH]; intros d input st; cbn [read_smiles]; [exact I|].
  set (st0 := {| rest := rest st; pos := pos st; out := out st; maxd := Nat.max (maxd st) (S d) |}).
  assert (H0 : rest st = [] ++ rest st0) by reflexivity. assert (H1 : pos st0 = pos st + length (@nil N)) by (cbn [st0 pos length]; lia).
  pose proof (link_ok input st0) as Hl. unfold link_post in Hl.
  destruct (read_link input st0) as [[[|]| |i| |] st1]; cbn [fst snd] in Hl; unfold smiles_post.
  - destruct Hl as [a [Ha [Hr Hp]]]. pose proof (loop_ok (read_smiles f (S d)) (IH (S d)) (S (length (rest st1))) st1 1) as Hlp.
    unfold loop_post in Hlp.
    assert (Hlift : forall y, Viable Items y -> Viable Chain (a ++ y)) by (intros y; apply via_items_chain; exact Ha).
    assert (Hr' : rest st = a ++ rest st1) by exact Hr. assert (Hp' : pos st1 = pos st + length a) by exact Hp.
    destruct (loop (read_smiles f (S d)) (S (length (rest st1))) st1 1) as [[[n|]| |j| |] st2]; cbn [fst snd] in *.
    + destruct Hlp as [r [Hr2 [Hrr Hpr]]]. exists (a ++ r). split; [apply chain; assumption|].
      split; [rewrite Hr', Hrr, app_assoc; reflexivity | rewrite Hpr, Hp', app_length; lia].
    + contradiction.
    + apply (err_lift Items Chain st st1 a (@RErrEol (option nat)) (@RErrEol (option nat)) Hr' Hp' Hlift I Hlp).
    + apply (err_lift Items Chain st st1 a (@RErrChar (option nat) j) (@RErrChar (option nat) j) Hr' Hp' Hlift eq_refl Hlp).
    + exact I.
    + exact I.
  - cbn [fst snd]. destruct Hl as [Hr Hp]. split; [exact Hr | exact Hp].
  - cbn [fst]. apply (err_lift Atom Chain st st0 [] (@RErrEol bool) (@RErrEol (option nat)) H0 H1 (fun y Hy => via_atom_chain y Hy) I Hl).
  - cbn [fst]. apply (err_lift Atom Chain st st0 [] (@RErrChar bool i) (@RErrChar (option nat) i) H0 H1 (fun y Hy => via_atom_chain y Hy) eq_refl Hl).
  - exact I.
  - exact I.
Qed.

(* C05, first half *)
Theorem error_prefix_viable : forall s h,
  (forall i, rd s = (VChar i, h) -> i < length s /\ viable (firstn i s)) /\ (rd s = (VEol, h) -> viable s).
Proof.
  intros s h. unfold rd, read, read_from.
  set (s0 := {| rest := s; pos := 0; out := []; maxd := 0 |}).
  pose proof (smiles_ok (S (length s)) 0 None s0) as H. unfold smiles_post in H.
  destruct (read_smiles (S (length s)) 0 None s0) as [[[n|]| |j| |] st']; cbn [fst snd r_verdict] in *.
  - destruct H as [x [Hx [Hr Hp]]]. cbn [s0 rest pos] in Hr, Hp. destruct (rest st') as [|c t] eqn:Et.
    + split; [intros i Hi|intros Hi]; discriminate.
    + split; [|intros Hi; discriminate]. intros i Hi. inversion Hi; subst i. rewrite Hp, Hr. cbn [Nat.add].
      split; [rewrite app_length; cbn [length]; lia|]. rewrite firstn_exact. exists []. rewrite app_nil_r. exact Hx.
  - destruct H as [Hr Hp]. cbn [s0 rest pos] in Hr, Hp. rewrite Hr, Hp. destruct s as [|c t].
    + split; [intros i Hi; discriminate | intros _]. exact via_nil_chain.
    + split; [|intros Hi; discriminate]. intros i Hi. inversion Hi; subst i. split; [cbn [length]; lia | exact via_nil_chain].
  - split; [intros i Hi; discriminate | intros _]. exact H.
  - split; [|intros Hi; discriminate]. intros i Hi. inversion Hi; subst i. cbn [err_ok] in H. cbn [s0 rest pos] in H. rewrite Nat.sub_0_r in H.
    destruct H as [_ [G2 G3]]. split; assumption.
  - split; [intros i Hi|intros Hi]; discriminate.
  - split; [intros i Hi|intros Hi]; discriminate.
Qed.
