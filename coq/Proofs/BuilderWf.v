(* The builder model returns well-formed simple graphs: whenever it succeeds on an event history, the adjacency list
   is well formed in the sense of Spec/Graph.v (targets in range, no self bond, no pair bonded twice, every bond present
   on both ends with mutually reversed kinds). *)
From Coq Require Import List NArith Lia Bool Arith.
Import ListNotations.
Require Import P.Generated.Enums P.Spec.Values P.Generated.Tables P.Spec.Events P.Model.Base P.Model.Builder
  P.Checks.C18_defs P.Proofs.C18_conv P.Spec.Graph P.Proofs.WalkInv P.Proofs.FollowerSafe.

(* ---------- finite facts on bond kinds ---------- *)
Lemma rev_invol k : reverse (reverse k) = k.
Proof. exact (proj1 (bond_kind_facts k)). Qed.
Lemma rev_spec k : reverse k = spec_reverse k.
Proof. exact (proj1 (proj2 (bond_kind_facts k))). Qed.
Lemma reconcile_rev a b l r : reconcile a b = Some (l, r) -> r = reverse l /\ l = reverse r.
Proof. unfold reconcile, reverse. destruct a, b; cbn; intros H; try discriminate; inversion H; subst; split; reflexivity. Qed.
Lemma bond_kind_eqb_refl k : bond_kind_eqb k k = true.
Proof. destruct k; reflexivity. Qed.

(* ---------- the resolved half-bonds of an edge list ---------- *)
Definition idl (es : list edge) : list (bond_kind * nat) :=
  flat_map (fun e => match etgt e with TId j => [(ek e, j)] | TRnum _ _ _ => [] end) es.
Lemma idl_app a b : idl (a ++ b) = idl a ++ idl b.
Proof. apply flat_map_app. Qed.
Lemma idl_cons e es : idl (e :: es) = match etgt e with TId j => [(ek e, j)] | TRnum _ _ _ => [] end ++ idl es.
Proof. reflexivity. Qed.

Definition adj (g : list node) (i : nat) : list (bond_kind * nat) :=
  match nth_error g i with Some nd => idl (edges nd) | None => [] end.

Lemma targets_id_false es t : targets_id es t = false -> ~ In t (map snd (idl es)).
Proof.
  induction es as [|e es IH]; [cbn; tauto|]. unfold targets_id. cbn [existsb]. fold (targets_id es t). rewrite idl_cons, map_app.
  intros H. apply orb_false_iff in H as [H1 H2]. intros Hin. apply in_app_or in Hin as [Hin|Hin]; [|exact (IH H2 Hin)].
  destruct (etgt e); cbn in Hin; [|contradiction]. destruct Hin as [<-|[]]. rewrite Nat.eqb_refl in H1. discriminate.
Qed.

Lemma replace_ph_idl es r l sid : forall es', replace_ph es r (fun _ => {| ek := l; etgt := TId sid |}) = Some es' ->
  Add (l, sid) (idl es) (idl es').
Proof.
  induction es as [|x t IH]; intros es' H; cbn [replace_ph] in H; [discriminate|]. rewrite (idl_cons x).
  destruct (etgt x) as [n|a b q] eqn:Ex.
  - destruct (replace_ph t r _) as [t'|]; [|discriminate]. inversion H; subst. rewrite idl_cons, Ex. cbn [app]. apply Add_cons. apply IH. reflexivity.
  - destruct (N.eqb q r).
    + inversion H; subst. rewrite idl_cons. cbn [etgt ek app]. apply Add_head.
    + destruct (replace_ph t r _) as [t'|]; [|discriminate]. inversion H; subst. rewrite idl_cons, Ex. cbn [app]. apply IH. reflexivity.
Qed.

(* ---------- adjacency of the list operations ---------- *)
Lemma adj_nil i : adj [] i = [].
Proof. unfold adj. destruct i; reflexivity. Qed.
Lemma adj_out g i : length g <= i -> adj g i = [].
Proof. intros H. unfold adj. apply nth_error_None in H. rewrite H. reflexivity. Qed.
Lemma adj_app g nd i : adj (g ++ [nd]) i = if i =? length g then idl (edges nd) else adj g i.
Proof.
  unfold adj. destruct (Nat.eqb_spec i (length g)) as [->|Hne].
  - rewrite nth_error_app2, Nat.sub_diag by lia. reflexivity.
  - destruct (Nat.lt_ge_cases i (length g)) as [Hlt|Hge].
    + rewrite nth_error_app1 by exact Hlt. reflexivity.
    + assert (E1 : nth_error (g ++ [nd]) i = None) by (apply nth_error_None; rewrite app_length; cbn; lia).
      assert (E2 : nth_error g i = None) by (apply nth_error_None; lia). rewrite E1, E2. reflexivity.
Qed.
Lemma adj_add_edge g s e i : adj (add_edge g s e) i = if (s =? i) && (i <? length g) then adj g i ++ idl [e] else adj g i.
Proof.
  unfold adj. rewrite add_edge_nth. destruct (nth_error g i) as [nd|] eqn:En.
  - assert (Hlt : i < length g) by (apply nth_error_Some; congruence). apply Nat.ltb_lt in Hlt. rewrite Hlt, andb_true_r.
    destruct (s =? i); [cbn [edges]; apply idl_app | reflexivity].
  - apply nth_error_None in En. destruct (Nat.ltb_spec i (length g)); [lia|]. rewrite andb_false_r. reflexivity.
Qed.
Lemma adj_set_nth g t nd i : adj (set_nth g t nd) i = if (t =? i) && (i <? length g) then idl (edges nd) else adj g i.
Proof.
  unfold adj. rewrite nth_error_set_nth. destruct (t =? i); cbn [andb]; [|reflexivity].
  destruct (Nat.ltb_spec i (length g)) as [Hlt|Hge]; [reflexivity|]. apply nth_error_None in Hge. rewrite Hge. reflexivity.
Qed.

(* ---------- the graph invariant, on the adjacency function ---------- *)
Record ainv (n : nat) (A : nat -> list (bond_kind * nat)) : Prop := {
  ai_rng : forall i k j, In (k, j) (A i) -> j < n /\ j <> i;
  ai_nd : forall i, NoDup (map snd (A i));
  ai_sym : forall i k j, In (k, j) (A i) -> In (reverse k, i) (A j)
}.

Lemma ainv_ext n n' A A' : (forall i, A' i = A i) -> n <= n' -> ainv n A -> ainv n' A'.
Proof.
  intros HA Hn [H1 H2 H3]. constructor.
  - intros i k j. rewrite HA. intros H. destruct (H1 i k j H). split; [lia | assumption].
  - intros i. rewrite HA. apply H2.
  - intros i k j. rewrite !HA. apply H3.
Qed.

Lemma Add_map {X Y} (f : X -> Y) x l l' : Add x l l' -> Add (f x) (map f l) (map f l').
Proof. induction 1; cbn [map]; [apply Add_head | apply Add_cons; assumption]. Qed.

(* adding one bond a -- b, kind k seen from a, between two existing, distinct, so far unbonded nodes *)
Lemma ainv_pair n A A' a b k : ainv n A -> a <> b -> a < n -> b < n -> ~ In b (map snd (A a)) ->
  Add (k, b) (A a) (A' a) -> Add (reverse k, a) (A b) (A' b) -> (forall i, i <> a -> i <> b -> A' i = A i) -> ainv n A'.
Proof.
  intros [H1 H2 H3] Hab Ha Hb Hfresh Ada Adb Hoth.
  assert (Hfresh' : ~ In a (map snd (A b))).
  { intros Hin. apply in_map_iff in Hin as [[k' j] [E Hin]]. cbn in E. subst j. apply H3 in Hin. apply Hfresh. apply in_map_iff. exists (reverse k', b). split; [reflexivity | exact Hin]. }
  assert (Hchar : forall i x, In x (A' i) <-> In x (A i) \/ (i = a /\ x = (k, b)) \/ (i = b /\ x = (reverse k, a))).
  { intros i x. destruct (Nat.eq_dec i a) as [->|Hia]; [|destruct (Nat.eq_dec i b) as [->|Hib]].
    - rewrite (Add_in Ada). cbn [In]. split; [intros [E|H]; [right; left; split; [reflexivity | symmetry; exact E] | left; exact H] |].
      intros [H|[[_ E]|[E _]]]; [right; exact H | left; symmetry; exact E | congruence].
    - rewrite (Add_in Adb). cbn [In]. split; [intros [E|H]; [right; right; split; [reflexivity | symmetry; exact E] | left; exact H] |].
      intros [H|[[E _]|[_ E]]]; [right; exact H | congruence | left; symmetry; exact E].
    - rewrite (Hoth i Hia Hib). split; [tauto|]. intros [H|[[E _]|[E _]]]; [exact H | congruence | congruence]. }
  constructor.
  - intros i k' j Hin. apply Hchar in Hin as [Hin|[[-> E]|[-> E]]].
    + apply (H1 i k' j Hin).
    + inversion E; subst. split; [exact Hb | congruence].
    + inversion E; subst. split; [exact Ha | congruence].
  - intros i. destruct (Nat.eq_dec i a) as [->|Hia]; [|destruct (Nat.eq_dec i b) as [->|Hib]].
    + apply (NoDup_Add (Add_map snd _ _ _ Ada)). split; [apply H2 | exact Hfresh].
    + apply (NoDup_Add (Add_map snd _ _ _ Adb)). split; [apply H2 | exact Hfresh'].
    + rewrite (Hoth i Hia Hib). apply H2.
  - intros i k' j Hin. apply Hchar. apply Hchar in Hin as [Hin|[[-> E]|[-> E]]].
    + left. apply H3. exact Hin.
    + inversion E; subst. right. right. split; reflexivity.
    + inversion E; subst. right. left. rewrite rev_invol. split; reflexivity.
Qed.

(* ---------- preservation by the builder ---------- *)
Definition Inv (s : bstate) : Prop := binv s /\ ainv (length (graph s)) (adj (graph s)).

Lemma Inv0 : Inv b0.
Proof.
  split; [exact binv0|]. constructor; cbn [graph b0]; intros i; [intros k j | | intros k j]; rewrite ?adj_nil; cbn; try tauto. constructor.
Qed.

Lemma bstep_pre s e s' : bstep s e = Some s' -> pre s e /\ invert_ok e.
Proof.
  destruct e as [k|b k|b r|d]; cbn [bstep pre invert_ok]; intros H; split; try exact I.
  - intros E. rewrite E in H. discriminate.
  - intros E. destruct (bstack s); [discriminate|]. rewrite E in H. discriminate.
  - intros E. rewrite E in H. destruct (olookup (opens s) r); discriminate.
Qed.

Lemma bstep_inv s e s' : Inv s -> bstep s e = Some s' -> Inv s'.
Proof.
  intros [Hb Ha] Hs. split.
  { destruct (bstep_pre s e s' Hs) as [Hp Hi]. destruct (bstep_safe s e Hb Hp Hi) as [s'' [E [Hb' _]]]. congruence. }
  destruct e as [k|b k|b r|d]; cbn [bstep] in Hs.
  - inversion Hs; subst; clear Hs. cbn [graph]. eapply ainv_ext; [| |exact Ha].
    + intros i. rewrite adj_app. destruct (Nat.eqb_spec i (length (graph s))) as [->|]; [|reflexivity]. cbn [edges]. rewrite adj_out by lia. reflexivity.
    + rewrite app_length. cbn. lia.
  - destruct (bstack s) as [|sid st] eqn:Es; [discriminate|]. destruct (invert k) as [k'|]; [|discriminate].
    destruct (nth_error (graph s) sid) as [nds|] eqn:En; [|discriminate]. inversion Hs; subst; clear Hs. cbn [graph].
    assert (Hsid : sid < length (graph s)) by (apply nth_error_Some; congruence).
    rewrite add_edge_length, app_length. cbn [length]. rewrite Nat.add_1_r.
    assert (Ha1 : ainv (S (length (graph s))) (adj (graph s))) by (eapply ainv_ext; [reflexivity | | exact Ha]; lia).
    eapply (ainv_pair _ _ _ sid (length (graph s)) b Ha1).
    + lia.
    + lia.
    + lia.
    + intros Hin. apply in_map_iff in Hin as [[k0 j0] [E Hin]]. cbn in E. subst j0. destruct (ai_rng _ _ Ha _ _ _ Hin). lia.
    + rewrite adj_add_edge, adj_app, Nat.eqb_refl, app_length. cbn [length].
      destruct (Nat.ltb_spec sid (length (graph s) + 1)); [|lia]. cbn [andb].
      destruct (Nat.eqb_spec sid (length (graph s))); [lia|]. cbn.
      pose proof (Add_app (b, length (graph s)) (adj (graph s) sid) []) as HA. rewrite app_nil_r in HA. exact HA.
    + rewrite adj_add_edge, adj_app, Nat.eqb_refl. destruct (Nat.eqb_spec sid (length (graph s))); [lia|]. cbn [andb].
      rewrite adj_out by lia. cbn. apply Add_head.
    + intros i Hi1 Hi2. rewrite adj_add_edge, adj_app. destruct (Nat.eqb_spec sid i); [congruence|]. cbn [andb].
      destruct (Nat.eqb_spec i (length (graph s))); [congruence | reflexivity].
  - destruct (olookup (opens s) r) as [t|] eqn:El.
    + destruct (bstack s) as [|sid st] eqn:Es; [discriminate|].
      destruct (nth_error (graph s) sid) as [nds|] eqn:En; [|discriminate].
      destruct (nth_error (graph s) t) as [nd|] eqn:Ent; [|discriminate].
      destruct (find_ph (edges nd) r) as [ph|] eqn:Eph; [|discriminate].
      destruct (Nat.eqb sid t || targets_id (edges nds) t) eqn:Eb; [inversion Hs; subst; exact Ha|].
      destruct (reconcile (ek ph) b) as [[l rt]|] eqn:Er; [|inversion Hs; subst; exact Ha].
      destruct (replace_ph (edges nd) r _) as [es'|] eqn:Erep; [|discriminate]. inversion Hs; subst; clear Hs. cbn [graph].
      apply orb_false_iff in Eb as [Eb1 Eb2]. apply Nat.eqb_neq in Eb1.
      assert (Hsid : sid < length (graph s)) by (apply nth_error_Some; congruence).
      assert (Ht : t < length (graph s)) by (apply nth_error_Some; congruence).
      destruct (reconcile_rev _ _ _ _ Er) as [Hrt Hl].
      rewrite add_edge_length, set_nth_length.
      eapply (ainv_pair _ _ _ sid t rt Ha); [exact Eb1 | exact Hsid | exact Ht | | | |].
      * unfold adj. rewrite En. apply targets_id_false. exact Eb2.
      * rewrite adj_add_edge, adj_set_nth, set_nth_length, Nat.eqb_refl. destruct (Nat.ltb_spec sid (length (graph s))); [|lia]. cbn [andb].
        destruct (Nat.eqb_spec t sid); [congruence|]. cbn.
        pose proof (Add_app (rt, t) (adj (graph s) sid) []) as HA. rewrite app_nil_r in HA. exact HA.
      * rewrite adj_add_edge, adj_set_nth, Nat.eqb_refl. destruct (Nat.eqb_spec sid t); [congruence|]. cbn [andb].
        destruct (Nat.ltb_spec t (length (graph s))); [|lia]. cbn [edges]. unfold adj. rewrite Ent. rewrite <- Hl.
        eapply replace_ph_idl. exact Erep.
      * intros i Hi1 Hi2. rewrite adj_add_edge, adj_set_nth. destruct (Nat.eqb_spec sid i); [congruence|]. cbn [andb].
        destruct (Nat.eqb_spec t i); [congruence | reflexivity].
    + destruct (bstack s) as [|sid st] eqn:Es; [discriminate|].
      destruct (nth_error (graph s) sid) as [nds|] eqn:En; [|discriminate]. inversion Hs; subst; clear Hs. cbn [graph].
      rewrite add_edge_length. eapply ainv_ext; [| |exact Ha]; [|lia].
      intros i. rewrite adj_add_edge. destruct ((sid =? i) && (i <? length (graph s))); [|reflexivity]. cbn. apply app_nil_r.
  - inversion Hs; subst. exact Ha.
Qed.

Lemma bfold_inv : forall h s s', Inv s -> bfold s h = Some s' -> Inv s'.
Proof.
  induction h as [|e t IH]; intros s s' Hi H; cbn [bfold] in H; [inversion H; subst; exact Hi|].
  destruct (bstep s e) as [s1|] eqn:E1; [|discriminate]. eapply IH; [|exact H]. eapply bstep_inv; eassumption.
Qed.

(* ---------- the result of a successful build ---------- *)
Definition mkb (p : bond_kind * nat) : bond := {| bk := fst p; tid := snd p |}.
Definition atom_of (nd : node) : atom := {| akind := nkind nd; bonds := map mkb (idl (edges nd)) |}.

Lemma conv_edges_idl : forall es l, conv_edges es = BLOk l -> l = map mkb (idl es).
Proof.
  induction es as [|e t IH]; intros l H; cbn [conv_edges] in H; [inversion H; reflexivity|]. rewrite idl_cons.
  destruct (etgt e) as [n|a b q]; [|discriminate]. destruct (conv_edges t) as [l'|]; [|discriminate]. inversion H; subst.
  cbn [app map]. f_equal. apply IH. reflexivity.
Qed.
Lemma conv_nodes_spec : forall ns g, conv_nodes ns = BOk g -> g = map atom_of ns.
Proof.
  induction ns as [|n t IH]; intros g H; cbn [conv_nodes] in H; [inversion H; reflexivity|].
  destruct (conv_edges (edges n)) as [l|] eqn:El; [|discriminate]. destruct (conv_nodes t) as [g'| |]; try discriminate.
  inversion H; subst. cbn [map]. f_equal; [|apply IH; reflexivity]. unfold atom_of. f_equal. apply conv_edges_idl. exact El.
Qed.

(* ---------- from the invariant to the boolean wf ---------- *)
Lemma count_notin L j : ~ In j (map snd L) -> count_to (map mkb L) j = 0.
Proof.
  unfold count_to. induction L as [|[k' j'] L IH]; intros H; [reflexivity|]. cbn [map filter mkb tid snd] in *.
  destruct (Nat.eqb_spec j' j) as [->|Hne]; [exfalso; apply H; left; reflexivity|]. apply IH. intros Hin. apply H. right. exact Hin.
Qed.
Lemma count_nodup L j : NoDup (map snd L) -> In j (map snd L) -> count_to (map mkb L) j = 1.
Proof.
  induction L as [|[k' j'] L IH]; intros Hnd Hin; [destruct Hin|]. cbn [map snd] in Hnd, Hin. inversion Hnd as [|? ? Hn Hnd']; subst.
  unfold count_to in *. cbn [map filter mkb tid snd]. destruct (Nat.eqb_spec j' j) as [->|Hne].
  - cbn [length]. f_equal. apply (count_notin L j Hn).
  - apply IH; [exact Hnd'|]. destruct Hin; [congruence | assumption].
Qed.
Lemma nodup_snd_inj (L : list (bond_kind * nat)) k1 k2 j : NoDup (map snd L) -> In (k1, j) L -> In (k2, j) L -> k1 = k2.
Proof.
  induction L as [|[k' j'] L IH]; intros Hnd H1 H2; [destruct H1|]. cbn [map snd] in Hnd. inversion Hnd as [|? ? Hn Hnd']; subst.
  destruct H1 as [E1|H1], H2 as [E2|H2].
  - congruence.
  - inversion E1; subst. exfalso. apply Hn. apply in_map_iff. exists (k2, j). split; [reflexivity | exact H2].
  - inversion E2; subst. exfalso. apply Hn. apply in_map_iff. exists (k1, j). split; [reflexivity | exact H1].
  - apply IH; assumption.
Qed.

Lemma wf_from_all g : forall l i, (forall k a, nth_error l k = Some a -> forallb (half_ok g (i + k) (bonds a)) (bonds a) = true) -> wf_from g i l = true.
Proof.
  induction l as [|a t IH]; intros i H; cbn [wf_from]; [reflexivity|]. apply andb_true_iff. split.
  - specialize (H 0 a eq_refl). rewrite Nat.add_0_r in H. exact H.
  - apply IH. intros k a' Hk. specialize (H (S k) a' Hk). rewrite Nat.add_succ_r in H. exact H.
Qed.

Lemma ainv_wf ns : ainv (length ns) (adj ns) -> wf (map atom_of ns) = true.
Proof.
  intros [H1 H2 H3]. unfold wf. apply wf_from_all. intros i a Hn. cbn [Nat.add].
  rewrite nth_error_map in Hn. destruct (nth_error ns i) as [nd|] eqn:En; [|discriminate]. inversion Hn; subst; clear Hn. cbn [atom_of bonds].
  assert (EA : idl (edges nd) = adj ns i) by (unfold adj; rewrite En; reflexivity). rewrite EA.
  apply forallb_forall. intros bb Hbb. apply in_map_iff in Hbb as [[k j] [<- Hin]].
  destruct (H1 i k j Hin) as [Hj Hji]. pose proof (H3 i k j Hin) as Hsym.
  unfold half_ok. cbn [mkb tid bk fst snd]. rewrite map_length.
  destruct (Nat.ltb_spec j (length ns)); [|lia]. destruct (Nat.eqb_spec j i); [congruence|]. cbn [andb negb].
  rewrite (count_nodup (adj ns i) j (H2 i)) by (apply in_map_iff; exists (k, j); split; [reflexivity | exact Hin]). cbn [Nat.eqb andb].
  rewrite nth_error_map. destruct (nth_error ns j) as [nd'|] eqn:En'; [|apply nth_error_None in En'; lia]. cbn [option_map atom_of bonds].
  assert (EA' : idl (edges nd') = adj ns j) by (unfold adj; rewrite En'; reflexivity). rewrite EA'.
  rewrite (count_nodup (adj ns j) i (H2 j)) by (apply in_map_iff; exists (reverse k, i); split; [reflexivity | exact Hsym]). cbn [Nat.eqb andb].
  apply forallb_forall. intros b' Hb'. apply in_map_iff in Hb' as [[k' j'] [<- Hin']]. cbn [mkb tid bk fst snd].
  destruct (Nat.eqb_spec j' i) as [->|]; [|reflexivity]. cbn [negb orb].
  rewrite (nodup_snd_inj _ _ _ _ (H2 j) Hin' Hsym), rev_spec. apply bond_kind_eqb_refl.
Qed.

Theorem build_ok_is_simple : forall h g, conformant h = true -> bld h = BOk g -> wf g = true.
Proof.
  intros h g _ H. unfold bld in H. destruct (bfold b0 h) as [s|] eqn:Ef; [|discriminate].
  destruct (bfold_inv h b0 s Inv0 Ef) as [_ Ha]. unfold build in H. destruct (errors s); [|discriminate].
  apply conv_nodes_spec in H. subst g. apply ainv_wf. exact Ha.
Qed.

(* ---------- bookkeeping: one atom per root / extend event ---------- *)
Definition is_new (e : ev) : bool := match e with ERoot _ | EExtend _ _ => true | _ => false end.
Lemma bstep_length s e s' : bstep s e = Some s' -> length (graph s') = length (graph s) + (if is_new e then 1 else 0).
Proof.
  destruct e as [k|b k|b r|d]; cbn [bstep is_new]; intros H.
  - inversion H; subst. cbn [graph]. apply app_length.
  - destruct (bstack s); [discriminate|]. destruct (invert k); [|discriminate]. destruct (nth_error (graph s) n); [|discriminate].
    inversion H; subst. cbn [graph]. rewrite add_edge_length. apply app_length.
  - destruct (olookup (opens s) r).
    + destruct (bstack s) as [|sid st]; [discriminate|]. destruct (nth_error (graph s) sid) as [nds|]; [|discriminate].
      destruct (nth_error (graph s) n) as [nd|]; [|discriminate]. destruct (find_ph (edges nd) r) as [ph|]; [|discriminate].
      destruct (Nat.eqb sid n || targets_id (edges nds) n); [inversion H; subst; cbn [graph]; lia|].
      destruct (reconcile (ek ph) b) as [[l rt]|]; [|inversion H; subst; cbn [graph]; lia].
      destruct (replace_ph (edges nd) r _); [|discriminate]. inversion H; subst. cbn [graph]. rewrite add_edge_length, set_nth_length. lia.
    + destruct (bstack s) as [|sid st]; [discriminate|]. destruct (nth_error (graph s) sid); [|discriminate].
      inversion H; subst. cbn [graph]. rewrite add_edge_length. lia.
  - inversion H; subst. cbn [graph]. lia.
Qed.
Lemma bfold_length : forall h s s', bfold s h = Some s' -> length (graph s') = length (graph s) + length (filter is_new h).
Proof.
  induction h as [|e t IH]; intros s s' H; cbn [bfold] in H; [inversion H; subst; cbn; lia|].
  destruct (bstep s e) as [s1|] eqn:E1; [|discriminate]. rewrite (IH _ _ H), (bstep_length _ _ _ E1). cbn [filter].
  destruct (is_new e); cbn [length]; lia.
Qed.
Lemma build_ok_length : forall h g, bld h = BOk g -> length g = length (filter is_new h).
Proof.
  intros h g H. unfold bld in H. destruct (bfold b0 h) as [s|] eqn:Ef; [|discriminate]. unfold build in H.
  destruct (errors s); [|discriminate]. apply conv_nodes_spec in H. subst g. rewrite map_length, (bfold_length _ _ _ Ef). reflexivity.
Qed.

Print Assumptions build_ok_is_simple.
Print Assumptions build_ok_length.
