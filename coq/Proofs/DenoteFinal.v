(* C02 / C10: the graph (or the error) the builder produces on the event history of a syntax tree is the denotation of
   that syntax tree (Spec/Denote.v), for kinds outside the known class on which invert_configuration is unimplemented. *)
From Coq Require Import List NArith Lia Bool Arith.
Import ListNotations.
Require Import P.Generated.Enums P.Spec.Values P.Generated.Tables P.Spec.Events P.Model.Base P.Model.Builder P.Spec.Known
  P.Checks.C18_defs P.Proofs.C09_Inverse P.Spec.Denote P.Proofs.FollowerSafe P.Proofs.BuilderWf P.Proofs.DenoteSym P.Proofs.DenotePair P.Proofs.DenoteSim P.Proofs.DenoteRel.

(* ---------- the hypothesis: no extended atom is of the known class ---------- *)
Definition link_ok (l : link) (k : kind) : Prop := match l with LBond _ => known_invert_panic k = false | LDot => True end.
Fixpoint nopanic (bd : body) : Prop :=
  match bd with
  | BNil => True
  | C09_Inverse.BJoin _ _ rest => nopanic rest
  | BBranch l k inner rest => link_ok l k /\ nopanic inner /\ nopanic rest
  | BNext l k rest => link_ok l k /\ nopanic rest
  end.
Lemma nopanic_evok bd : nopanic bd -> Forall evok (flat0 bd).
Proof.
  induction bd as [| b r rest IH | l k inner IHi rest IHr | l k rest IH]; cbn [nopanic flat0]; intros H.
  - constructor.
  - constructor; [exact I | apply IH; exact H].
  - destruct H as [H1 [H2 H3]]. constructor; [destruct l; exact H1|]. apply Forall_app. split; [apply IHi; exact H2|].
    constructor; [exact I | apply IHr; exact H3].
  - destruct H as [H1 H2]. constructor; [destruct l; exact H1 | apply IH; exact H2].
Qed.

(* ---------- the specification, restated over the fold ---------- *)
Definition dconv (res : list (nat * resol)) (s : slot) : bond :=
  match s with
  | SPrev b a => {| bk := up_down b; tid := a |}
  | SNext b a => {| bk := b; tid := a |}
  | SRing b occ => match lookup_res res occ with Some (RMatched p k) => {| bk := k; tid := p |} | _ => {| bk := b; tid := 0 |} end
  end.
Lemma denote_eq k0 bd sl0 ats nx oc rg : collect bd 0 1 0 = (sl0, ats, nx, oc, rg) ->
  let all := (0, k0, sl0) :: ats in
  let st := fold_left pstep rg {| popens := []; pbonded := tree_of all; pres := [] |} in
  denote k0 bd =
  match find isbad (rev (pres st)) with
  | Some (_, RBad a b) => DJoin a b
  | _ => match popens st with
         | _ :: _ => DUnmatched (map tok_occ (popens st))
         | [] => DOk (map (fun t => {| akind := snd (fst t); bonds := map (dconv (pres st)) (snd t) |}) all)
         end
  end.
Proof.
  intros Ec. unfold denote. rewrite Ec.
  change (flat_map (fun t : nat * atom_kind * list slot => flat_map (fun s => match s with SPrev _ p => [(fst (fst t), p)] | _ => [] end) (snd t)) ((0, k0, sl0) :: ats))
    with (tree_of ((0, k0, sl0) :: ats)).
  rewrite pair_rings_fold. reflexivity.
Qed.

(* ---------- the builder's final conversion ---------- *)
Lemma conv_edges_err es rid : conv_edges es = BLErr rid -> exists e sid r, In e es /\ etgt e = TRnum rid sid r.
Proof.
  induction es as [|e es IH]; cbn [conv_edges]; [discriminate|]. destruct (etgt e) as [n|x y q] eqn:E.
  - destruct (conv_edges es) as [l|rid']; [discriminate|]. intros H. inversion H; subst.
    destruct (IH eq_refl) as [e' [sid [r [Hin He]]]]. exists e', sid, r. split; [right; exact Hin | exact He].
  - intros H. inversion H; subst. exists e, y, q. split; [left; reflexivity | exact E].
Qed.
Lemma conv_edges_ok es l r : conv_edges es = BLOk l -> find_ph es r = None.
Proof.
  revert l. induction es as [|e es IH]; intros l; cbn [conv_edges find_ph]; [reflexivity|]. destruct (etgt e) as [n|x y q]; [|discriminate].
  destruct (conv_edges es) as [l'|]; [|discriminate]. intros _. apply (IH l' eq_refl).
Qed.
Lemma conv_nodes_cases ns :
  match conv_nodes ns with
  | BOk _ => forall nd r, In nd ns -> find_ph (edges nd) r = None
  | BErr e => exists rid nd ed sid r, e = BRnum rid /\ In nd ns /\ In ed (edges nd) /\ etgt ed = TRnum rid sid r
  | BPanic => False
  end.
Proof.
  induction ns as [|n ns IH]; cbn [conv_nodes]; [intros nd r []|].
  destruct (conv_edges (edges n)) as [l|rid] eqn:El.
  - destruct (conv_nodes ns) as [g|e|].
    + intros nd r [<-|Hin]; [apply (conv_edges_ok _ _ _ El) | apply IH; exact Hin].
    + destruct IH as [rid [nd [ed [sid [r [E [Hin H]]]]]]]. exists rid, nd, ed, sid, r. split; [exact E|]. split; [right; exact Hin | exact H].
    + exact IH.
  - destruct (conv_edges_err _ _ El) as [e [sid [r [Hin He]]]]. exists rid, n, e, sid, r. repeat split; [left; reflexivity | exact Hin | exact He].
Qed.

(* when every ring slot is matched the conversion succeeds and is the specification's *)
Lemma conv_edges_matched res rg sl : (forall b o, In (SRing b o) sl -> exists p k, lookup_res res o = Some (RMatched p k)) ->
  conv_edges (map (conv_slot res rg) sl) = BLOk (map (dconv res) sl).
Proof.
  induction sl as [|s sl IH]; intros H; cbn [map conv_edges]; [reflexivity|].
  rewrite IH by (intros b o Hin; apply (H b o); right; exact Hin).
  destruct s as [b a|b a|b o]; cbn [conv_slot dconv etgt ek]; [rewrite reverse_up_down; reflexivity | reflexivity|].
  destruct (H b o (or_introl eq_refl)) as [p [k ->]]. reflexivity.
Qed.
Lemma conv_nodes_matched res rg nodes :
  (forall t b o, In t nodes -> In (SRing b o) (snd t) -> exists p k, lookup_res res o = Some (RMatched p k)) ->
  conv_nodes (map (conv_node res rg) nodes) = BOk (map (fun t => {| akind := snd (fst t); bonds := map (dconv res) (snd t) |}) nodes).
Proof.
  induction nodes as [|t nodes IH]; intros H; cbn [map conv_nodes]; [reflexivity|]. cbn [conv_node edges nkind].
  rewrite (conv_edges_matched res rg (snd t)) by (intros b o Hin; apply (H t b o (or_introl eq_refl) Hin)).
  rewrite IH by (intros t' b o Hin; apply (H t' b o); right; exact Hin). reflexivity.
Qed.

(* ---------- initial state ---------- *)
Lemma rel0 T : rel T s0 b0.
Proof.
  constructor; cbn; try reflexivity; [exact Inv0 | exact swf0|]. constructor; cbn.
  - intros p [].
  - reflexivity.
  - intros [|a] a0 nd H; discriminate.
  - exists []. split; [reflexivity | intros p []].
  - constructor; cbn.
    + constructor.
    + intros [|i] b o H; destruct H.
    + intros [|i] b o H; destruct H.
    + intros [|i]; constructor.
    + intros x [].
    + intros x [].
    + intros p [].
    + intros [|o] x H; discriminate.
Qed.
Lemma swf_fold : forall h s s', swf s -> sfold s h = Some s' -> swf s'.
Proof.
  induction h as [|e h IH]; intros s s' Hw H; cbn [sfold] in H; [inversion H; subst; exact Hw|].
  destruct (sstep s e) as [s1|] eqn:E; [|discriminate]. eapply IH; [|exact H]. eapply swf_step; eassumption.
Qed.

(* ---------- the theorem ---------- *)
Theorem builder_is_denotation : forall k0 bd, nopanic bd ->
  match bld (ERoot k0 :: flat0 bd), denote k0 bd with
  | BOk g, DOk g' => g = g'
  | BErr (P.Model.Builder.BJoin x y), DJoin x' y' => x = x' /\ y = y'
  | BErr (BRnum rid), DUnmatched occs => In rid occs
  | _, _ => False
  end.
Proof.
  intros k0 bd Hnp. destruct (collect bd 0 1 0) as [[[[sl0 ats] nx] oc] rg] eqn:Ec.
  rewrite (denote_eq k0 bd _ _ _ _ _ Ec). cbv zeta.
  destruct (symbolic_is_collect k0 bd _ _ _ _ _ Ec) as [chain Hsf].
  set (symF := {| sstack := chain ++ [0]; snodes := (0, k0, sl0) :: ats; srg := rg |}) in *.
  set (T := tree_of ((0, k0, sl0) :: ats)).
  assert (HwF : swf symF) by (eapply swf_fold; [exact swf0 | exact Hsf]).
  assert (HtF : tree_ok T (snodes symF)) by (apply (tree_ok_final symF HwF)).
  assert (Hev : Forall evok (ERoot k0 :: flat0 bd)) by (constructor; [exact I | apply nopanic_evok; exact Hnp]).
  destruct (sim_fold T _ s0 b0 symF (rel0 T) Hsf HtF Hev) as [realF [Ebf [Rs Rr Ri Rl Ro Rw Re]]].
  unfold bld. rewrite Ebf. unfold build.
  change (fold_left pstep rg {| popens := []; pbonded := T; pres := [] |}) with (pst_of T symF). set (st := pst_of T symF) in *.
  destruct (errors realF) as [|e0 rest].
  2: { destruct Re as [occ [a [b [Hf ->]]]]. rewrite Hf. split; reflexivity. }
  pose proof Re as [G1 G2 G3 G4 G5]. cbn [snodes srg symF] in G2.
  assert (Hnb : find isbad (rev (pres st)) = None) by (apply find_none_iff; intros x Hx; apply G1; apply in_rev; exact Hx).
  rewrite Hnb. pose proof (conv_nodes_cases (graph realF)) as Hc.
  destruct (popens st) as [|x ops] eqn:Eo.
  - (* nothing left open: every ring slot is matched *)
    rewrite G2. rewrite conv_nodes_matched; [reflexivity|].
    intros t b o Ht Hin. apply In_nth_error in Ht as [i Hi].
    assert (Hin' : In (b, o) (rings (slots_at (snodes symF) i))) by (unfold slots_at; cbn [snodes symF]; rewrite Hi; apply in_rings; exact Hin).
    destruct (lookup_res (pres st) o) as [[p k|c d]|] eqn:El.
    + eauto.
    + apply lookup_res_in in El. apply G1 in El. discriminate.
    + destruct (k_slot_open _ _ _ G5 i b o Hin' El) as [y [Hy _]]. rewrite Eo in Hy. destruct Hy.
  - (* an open token: its placeholder is still in the graph *)
    assert (Hph : exists nd, In nd (graph realF) /\ find_ph (edges nd) (tok_r x) <> None).
    { destruct (bi_open _ (proj1 Ri) (tok_r x) (tok_atom x)) as [nd [Hn Hf]].
      - rewrite Ro. cbn [map olookup okey]. rewrite N.eqb_refl. reflexivity.
      - exists nd. split; [eapply nth_error_In; exact Hn | exact Hf]. }
    destruct (conv_nodes (graph realF)) as [g|e|]; [| |exact Hc].
    + destruct Hph as [nd [Hin Hf]]. apply Hf. apply Hc. exact Hin.
    + destruct Hc as [rid [nd [ed [sid [r [-> [Hnd [Hed Het]]]]]]]]. rewrite G2 in Hnd. apply in_map_iff in Hnd as [t [<- Ht]].
      cbn [conv_node edges] in Hed. apply in_map_iff in Hed as [s [<- Hs]]. apply In_nth_error in Ht as [i Hi].
      destruct s as [b a|b a|b o]; try discriminate.
      assert (Hin' : In (b, o) (rings (slots_at (snodes symF) i))) by (unfold slots_at; cbn [snodes symF]; rewrite Hi; apply in_rings; exact Hs).
      destruct (ph_slot _ _ _ _ _ _ _ _ _ _ _ Re Hin' Het) as [Hx Hl].
      assert (rid = o).
      { cbn [conv_slot] in Het. rewrite Hl in Het. destruct (nth_error rg o); cbn [etgt] in Het; inversion Het; reflexivity. }
      subst rid. rewrite <- Eo. apply in_map_iff. exists (o, i, r, b). split; [reflexivity | exact Hx].
Qed.

(* ---------- consequences ---------- *)
(* success, both directions *)
Corollary built_graph_is_denotation k0 bd g : nopanic bd -> (bld (ERoot k0 :: flat0 bd) = BOk g <-> denote k0 bd = DOk g).
Proof.
  intros Hnp. pose proof (builder_is_denotation k0 bd Hnp) as H. split; intros E; rewrite E in H.
  - destruct (denote k0 bd); try contradiction. congruence.
  - destruct (bld (ERoot k0 :: flat0 bd)) as [g'|[x y|rid]|]; try contradiction. congruence.
Qed.
(* the errors: an irreconcilable or duplicate closure names the same two atoms; an unmatched ring number is one of the
   specification's unmatched occurrences *)
Corollary built_error_is_classified k0 bd e : nopanic bd -> bld (ERoot k0 :: flat0 bd) = BErr e ->
  match e with
  | P.Model.Builder.BJoin x y => denote k0 bd = DJoin x y
  | BRnum rid => exists occs, denote k0 bd = DUnmatched occs /\ In rid occs
  end.
Proof.
  intros Hnp E. pose proof (builder_is_denotation k0 bd Hnp) as H. rewrite E in H. destruct e as [x y|rid]; destruct (denote k0 bd); try contradiction.
  - destruct H as [-> ->]. reflexivity.
  - eauto.
Qed.
Corollary builder_never_panics k0 bd : nopanic bd -> bld (ERoot k0 :: flat0 bd) <> BPanic.
Proof. intros Hnp E. pose proof (builder_is_denotation k0 bd Hnp) as H. rewrite E in H. exact H. Qed.

(* atom numbering and kinds: atom i of the built graph is the i-th atom token, with the kind adjusted as [adj] says *)
Fixpoint atoms_of (bd : body) : list (link * kind) :=
  match bd with
  | BNil => []
  | C09_Inverse.BJoin _ _ rest => atoms_of rest
  | BBranch l k inner rest => (l, k) :: atoms_of inner ++ atoms_of rest
  | BNext l k rest => (l, k) :: atoms_of rest
  end.
Lemma collect_kinds : forall bd cur n o sl ats nx oc rg, collect bd cur n o = (sl, ats, nx, oc, rg) ->
  map (fun t : nat * kind * list slot => snd (fst t)) ats = map (fun p => P.Spec.Denote.adj (fst p) (snd p)) (atoms_of bd).
Proof.
  induction bd as [| b r rest IH | l k inner IHi rest IHr | l k rest IH]; intros cur n o sl ats nx oc rg Hc; cbn [collect] in Hc.
  - inversion Hc; subst. reflexivity.
  - destruct (collect rest cur n (S o)) as [[[[sl1 ats1] nx1] oc1] rg1] eqn:E1. inversion Hc; subst. apply (IH _ _ _ _ _ _ _ _ E1).
  - destruct (collect inner n (S n) o) as [[[[sla ata] nx1] oc1] rg1] eqn:E1.
    destruct (collect rest cur nx1 oc1) as [[[[sl2 ats2] nx2] oc2] rg2] eqn:E2. inversion Hc; subst.
    cbn [map atoms_of fst snd]. rewrite !map_app, (IHi _ _ _ _ _ _ _ _ E1), (IHr _ _ _ _ _ _ _ _ E2). reflexivity.
  - destruct (collect rest n (S n) o) as [[[[sla ata] nx1] oc1] rg1] eqn:E1. inversion Hc; subst.
    cbn [map atoms_of fst snd]. rewrite (IH _ _ _ _ _ _ _ _ E1). reflexivity.
Qed.
Theorem built_atoms_are_the_atom_tokens k0 bd g : nopanic bd -> bld (ERoot k0 :: flat0 bd) = BOk g ->
  map akind g = k0 :: map (fun p => P.Spec.Denote.adj (fst p) (snd p)) (atoms_of bd) /\ length g = 1 + length (atoms_of bd).
Proof.
  intros Hnp E. apply (built_graph_is_denotation k0 bd g Hnp) in E.
  assert (Hk : map akind g = k0 :: map (fun p => P.Spec.Denote.adj (fst p) (snd p)) (atoms_of bd)).
  { destruct (collect bd 0 1 0) as [[[[sl0 ats] nx] oc] rg] eqn:Ec. rewrite (denote_eq k0 bd _ _ _ _ _ Ec) in E. cbv zeta in E.
    rewrite <- (collect_kinds _ _ _ _ _ _ _ _ _ Ec).
    destruct (find isbad (rev (pres _))) as [[? [|]]|]; try discriminate; destruct (popens _); try discriminate; inversion E; subst.
      all: cbn [map akind fst snd]; f_equal; rewrite map_map; reflexivity. }
  split; [exact Hk|]. rewrite <- (map_length akind), Hk. cbn [length]. rewrite map_length. reflexivity.
Qed.

Print Assumptions builder_is_denotation.
Print Assumptions built_graph_is_denotation.
Print Assumptions built_error_is_classified.
Print Assumptions built_atoms_are_the_atom_tokens.
