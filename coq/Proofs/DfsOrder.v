(* C12, closed form, part 1: the order in which the explicit-stack traversal of Model/Walk.v visits atoms IS the
   specification's recursive depth-first order (Spec/Roundtrip.v [dfs_all]).

   The lock-step invariant of D0..D7 is strengthened by one ghost clause, [Fut]: the specification's search, RESUMED from
   the current visited list through the pending bonds of the chain (head first, each chain member at the fuel the
   recursive search holds at that depth) and then through the remaining component roots, yields [dfs_all g].  The
   clause is invariant under one [step], holds initially by definition of [dfs_all], and collapses to
   "visited list = dfs_all g" when the stack is empty and no root is left. *)
From Coq Require Import List NArith Lia Bool Arith.
Import ListNotations.
Require Import P.Generated.Enums P.Spec.Values P.Generated.Tables P.Model.Base P.Model.Pool P.Proofs.PoolSpec P.Model.Walk P.Model.Builder
  P.Proofs.D0 P.Proofs.D1 P.Proofs.D3 P.Proofs.D2 P.Proofs.D4 P.Proofs.D5 P.Proofs.D6 P.Proofs.D7 P.Spec.Roundtrip.
Local Notation length := List.length.

(* the specification's visited list that corresponds to a ghost *)
Definition vis_of (gh : ghost) : list (nat * option nat) := map (fun x => (x, par gh x)) (order gh).
Lemma vis_of_fst gh : map fst (vis_of gh) = order gh.
Proof. unfold vis_of. rewrite map_map. cbn [fst]. apply map_id. Qed.

Lemma seen_iff x (vis : list (nat * option nat)) :
  existsb (fun v => Nat.eqb (fst v) x) vis = true <-> In x (map fst vis).
Proof.
  rewrite existsb_exists. split.
  - intros [v [Hv E]]. apply Nat.eqb_eq in E. subst. apply in_map. exact Hv.
  - intros H. apply in_map_iff in H as [v [E Hv]]. exists v. split; [exact Hv | apply Nat.eqb_eq; exact E].
Qed.

Section DfsOrder.
Variable g : list atom.
Notation n := (length g).
Notation bonds_of := (bonds_of g).
Notation atom_at := (atom_at g).
Notation nonback := (nonback g).
Notation processed := (processed g).
Notation pending := (pending g).
Notation wsim := (wsim g).
Notation bsim := (bsim g).
Notation top_facts := (top_facts g).

Hypothesis wf_range : forall x b, x < n -> In b (bonds_of x) -> tid b < n /\ tid b <> x.
Hypothesis wf_nodup : forall x, x < n -> NoDup (map tid (bonds_of x)).
Hypothesis wf_sym : forall x b, x < n -> In b (bonds_of x) ->
  exists b', find_to x (bonds_of (tid b)) = Some b' /\ bk b' = reverse (bk b).
Hypothesis safe_kinds : forall x, safe (akind (atom_at x)).

(* ================= the recursive specification, one bond list at a time ================= *)
Definition dfs_list (f : nat) (x : nat) (l : list bond) (vis : list (nat * option nat)) : list (nat * option nat) :=
  fold_left (fun vis' b => dfs f g (tid b) (Some x) vis') l vis.
Lemma dfs_list_cons f x b l vis : dfs_list f x (b :: l) vis = dfs_list f x l (dfs f g (tid b) (Some x) vis).
Proof. reflexivity. Qed.

Lemma dfs_seen f x p vis : In x (map fst vis) -> dfs f g x p vis = vis.
Proof. intros H. destruct f; [reflexivity|]. cbn [dfs]. apply seen_iff in H. rewrite H. reflexivity. Qed.
Lemma dfs_new f x p vis : ~ In x (map fst vis) -> dfs (S f) g x p vis = dfs_list f x (bonds_of x) (vis ++ [(x, p)]).
Proof.
  intros H. cbn [dfs]. destruct (existsb (fun v => Nat.eqb (fst v) x) vis) eqn:E; [apply seen_iff in E; contradiction|]. reflexivity.
Qed.
(* the search only ever appends *)
Lemma dfs_extends : forall f x p vis, exists ext, dfs f g x p vis = vis ++ ext.
Proof.
  induction f as [|f IH]; intros x p vis; [exists []; rewrite app_nil_r; reflexivity|].
  cbn [dfs]. destruct (existsb (fun v => Nat.eqb (fst v) x) vis); [exists []; rewrite app_nil_r; reflexivity|].
  assert (H : forall l v, exists ext, fold_left (fun vis' b => dfs f g (tid b) (Some x) vis') l v = v ++ ext).
  { induction l as [|a t IHl]; intros v; [exists []; rewrite app_nil_r; reflexivity|]. cbn [fold_left].
    destruct (IH (tid a) (Some x) v) as [e1 E1]. rewrite E1. destruct (IHl (v ++ e1)) as [e2 E2]. exists (e1 ++ e2). rewrite E2, app_assoc. reflexivity. }
  destruct (H (bonds (nth_atom g x)) (vis ++ [(x, p)])) as [e E]. exists ((x, p) :: e). rewrite E, <- app_assoc. reflexivity.
Qed.
Lemma dfs_keeps f x p vis z : In z (map fst vis) -> In z (map fst (dfs f g x p vis)).
Proof. intros H. destruct (dfs_extends f x p vis) as [e ->]. rewrite map_app. apply in_or_app. left. exact H. Qed.
(* the bond back to an already visited atom (the parent) does nothing *)
Lemma dfs_list_remove f y p : forall l vis, In p (map fst vis) -> dfs_list f y (remove_first_to p l) vis = dfs_list f y l vis.
Proof.
  induction l as [|a t IH]; intros vis H; [reflexivity|]. cbn [remove_first_to]. destruct (Nat.eqb_spec (tid a) p) as [E|E].
  - rewrite dfs_list_cons, E, dfs_seen by exact H. reflexivity.
  - rewrite !dfs_list_cons. apply IH. apply dfs_keeps. exact H.
Qed.

(* ================= the future of the specification, read off the machine state ================= *)
(* continue the search through the pending bonds of the chain, head first; the chain member with [rest] below it
   sits at recursion depth [length rest], where the search (started with fuel S n at the root) folds with fuel n - length rest *)
Fixpoint resume (gh : ghost) (ch : list nat) (vis : list (nat * option nat)) : list (nat * option nat) :=
  match ch with
  | [] => vis
  | c :: rest => resume gh rest (dfs_list (n - length rest) c (pending gh c) vis)
  end.
Definition roots (ids : list nat) (vis : list (nat * option nat)) : list (nat * option nat) :=
  fold_left (fun vis x => dfs (S n) g x None vis) ids vis.
Definition Fut (ids : list nat) (gh : ghost) (s : wstate) : Prop :=
  roots ids (resume gh (chain s) (vis_of gh)) = dfs_all g.

Lemma resume_ext gh gh' : forall ch, (forall z, In z ch -> pending gh z = pending gh' z) -> forall vis, resume gh ch vis = resume gh' ch vis.
Proof.
  induction ch as [|c ch IH]; intros H vis; [reflexivity|]. cbn [resume]. rewrite (H c (or_introl eq_refl)).
  apply IH. intros z Hz. apply H. right. exact Hz.
Qed.
Lemma resume_pre gh : forall pre ch vis, (forall z, In z pre -> pending gh z = []) -> resume gh (pre ++ ch) vis = resume gh ch vis.
Proof.
  induction pre as [|c pre IH]; intros ch vis H; [reflexivity|]. cbn [app resume]. rewrite (H c (or_introl eq_refl)).
  unfold dfs_list at 1. cbn [fold_left]. apply IH. intros z Hz. apply H. right. exact Hz.
Qed.
Lemma resume_done gh s vis : wsim gh s -> stk s = [] -> resume gh (chain s) vis = vis.
Proof.
  intros W Hstk. pose proof (ws_stk g gh s W) as Hs. rewrite Hstk in Hs. symmetry in Hs.
  rewrite <- (app_nil_r (chain s)). rewrite resume_pre; [reflexivity|].
  intros z Hz. revert Hs Hz. generalize (chain s). induction l as [|a l IH]; intros Hs Hz; [contradiction|].
  cbn [flat_map] in Hs. apply app_eq_nil in Hs as [H1 H2]. destruct Hz as [->|Hz]; [|apply IH; assumption].
  unfold seg in H1. apply map_eq_nil in H1. exact H1.
Qed.

Lemma chain_short gh s : wsim gh s -> length (chain s) <= n.
Proof.
  intros W. assert (Hincl : incl (chain s) (seq 0 n)).
  { intros z Hz. apply in_seq. pose proof (ws_rng g gh s W z (ws_chain g gh s W z Hz)). lia. }
  pose proof (NoDup_incl_length (ws_ndc g gh s W) Hincl) as Hl. rewrite seq_length in Hl. exact Hl.
Qed.

(* ---------- ring closure: the specification meets a visited atom ---------- *)
Lemma resume_join gh s x b rest pre post :
  wsim gh s -> top_facts gh s x b rest pre post -> In (tid b) (order gh) ->
  resume (gh_join gh x) (x :: post) (vis_of (gh_join gh x)) = resume gh (chain s) (vis_of gh).
Proof.
  intros W [Es [Ech [Epre [Epend [Erest [Hnp [Hb [Hxn [Hy [Hyx Hxo]]]]]]]]]] Hin.
  rewrite Ech, (resume_pre gh pre (x :: post) _ Epre). cbn [resume]. rewrite Epend, dfs_list_cons.
  change (vis_of (gh_join gh x)) with (vis_of gh).
  rewrite dfs_seen by (rewrite vis_of_fst; exact Hin).
  assert (Hpx : pending (gh_join gh x) x = skipn (S (cnt gh x)) (nonback gh x)).
  { unfold D1.pending. change (D1.nonback g (gh_join gh x) x) with (nonback gh x). cbn [gh_join cnt]. rewrite upd_same. reflexivity. }
  rewrite Hpx. apply resume_ext. intros z Hz.
  pose proof (ws_ndc g gh s W) as Hndc. rewrite Ech in Hndc. apply NoDup_remove_2 in Hndc.
  assert (Hzx : z <> x) by (intros ->; apply Hndc; apply in_or_app; right; exact Hz).
  unfold D1.pending. change (D1.nonback g (gh_join gh x) z) with (nonback gh z). cbn [gh_join cnt]. rewrite upd_other by exact Hzx. reflexivity.
Qed.

(* ---------- a new atom: the specification enters it, and its bond list becomes the innermost pending list ---------- *)
Lemma resume_extend gh s x b rest pre post :
  wsim gh s -> top_facts gh s x b rest pre post -> ~ In (tid b) (order gh) ->
  resume (gh_extend gh x (tid b)) (tid b :: x :: post) (vis_of (gh_extend gh x (tid b))) = resume gh (chain s) (vis_of gh).
Proof.
  intros W [Es [Ech [Epre [Epend [Erest [Hnp [Hb [Hxn [Hy [Hyx Hxo]]]]]]]]]] Hnin.
  set (y := tid b) in *. set (gh' := gh_extend gh x y).
  destruct (ws_fresh g gh s W y Hnin) as [Hcy Hpy].
  assert (Hxy : x <> y) by (intros E; apply Hnin; rewrite <- E; exact Hxo).
  assert (Hparz : forall z, z <> y -> par gh' z = par gh z) by (intros z Hz; cbn [gh' gh_extend par]; rewrite upd_other by exact Hz; reflexivity).
  assert (Hnb : forall z, z <> y -> D1.nonback g gh' z = nonback gh z) by (intros z Hz; unfold D1.nonback; rewrite Hparz by exact Hz; reflexivity).
  assert (Hnby : D1.nonback g gh' y = remove_first_to x (bonds_of y)) by (unfold D1.nonback; cbn [gh' gh_extend par]; rewrite upd_same; reflexivity).
  assert (Hcz : forall z, z <> x -> cnt gh' z = cnt gh z) by (intros z Hz; cbn [gh' gh_extend cnt]; rewrite upd_other by exact Hz; reflexivity).
  assert (Hcx : cnt gh' x = S (cnt gh x)) by (cbn [gh' gh_extend cnt]; rewrite upd_same; reflexivity).
  assert (Hpo : forall z, z <> x -> z <> y -> pending gh' z = pending gh z).
  { intros z Hz1 Hz2. unfold D1.pending. rewrite Hnb, Hcz by assumption. reflexivity. }
  assert (Hpx : pending gh' x = skipn (S (cnt gh x)) (nonback gh x)) by (unfold D1.pending; rewrite Hnb, Hcx by exact Hxy; reflexivity).
  assert (Hpy' : pending gh' y = remove_first_to x (bonds_of y)).
  { unfold D1.pending. rewrite Hnby, Hcz by (intros E; apply Hxy; symmetry; exact E). rewrite Hcy. reflexivity. }
  pose proof (ws_ndc g gh s W) as Hndc. rewrite Ech in Hndc.
  assert (Hxpost : ~ In x post) by (apply NoDup_remove_2 in Hndc; intros H; apply Hndc; apply in_or_app; right; exact H).
  assert (Hypost : ~ In y (x :: post)).
  { intros H. apply Hnin. apply (ws_chain g gh s W). rewrite Ech. apply in_or_app. right. exact H. }
  assert (Hvis : vis_of gh' = vis_of gh ++ [(y, Some x)]).
  { unfold vis_of. cbn [gh' gh_extend order par]. rewrite map_app. cbn [map]. rewrite upd_same. f_equal.
    apply map_ext_in. intros z Hz. rewrite upd_other; [reflexivity|]. intros ->. exact (Hnin Hz). }
  assert (Hlen : length post < n).
  { pose proof (chain_short gh s W) as Hl. rewrite Ech, app_length in Hl. cbn [length] in Hl. lia. }
  (* the machine side *)
  cbn [resume length]. rewrite Hpy', Hpx, Hvis.
  rewrite dfs_list_remove by (rewrite map_app, vis_of_fst; apply in_or_app; left; exact Hxo).
  rewrite <- (dfs_new (n - S (length post)) y (Some x) (vis_of gh)) by (rewrite vis_of_fst; exact Hnin).
  replace (S (n - S (length post))) with (n - length post) by lia.
  (* the specification side *)
  rewrite Ech, (resume_pre gh pre (x :: post) _ Epre). cbn [resume]. rewrite Epend, dfs_list_cons.
  apply resume_ext. intros z Hz. apply Hpo; [intros ->; exact (Hxpost Hz) | intros ->; apply Hypost; right; exact Hz].
Qed.

(* ================= the strengthened lock-step invariant ================= *)
Definition Inv2 (ids : list nat) (s : wstate) :=
  exists gh b, wsim gh s /\ bsim gh s b /\ bfold b0 (rev (evs s)) = Some b /\ Fut ids gh s.

Lemma step_Inv2 ids s : Inv2 ids s ->
  match step n s with
  | Cont s' => Inv2 ids s'
  | Done s' => s' = s /\ stk s = []
  | Stop _ _ => True
  end.
Proof.
  intros [gh [b [W [B [Hf HF]]]]].
  pose proof (wstep_spec g wf_range wf_nodup wf_sym safe_kinds gh s W) as Hstep.
  inversion Hstep as [Hs | x bd rest pre post b' T Hnin Hfb Hkb | x bd rest pre post r p' T Hin Hhit | x bd rest pre post s' k T Hin Hhit Hk].
  - split; [reflexivity | exact Hs].
  - (* new atom *)
    pose proof T as [Es [Ech _]].
    destruct (builder_popped g gh s b pre x post B Ech) as [b1 [junk [Hpop [Hst [Hgr [Hop [Her _]]]]]]].
    edestruct (sim_extend g safe_kinds) with (gh := gh) (s := s) (b := b) (b1 := b1) (tail := junk) as [b2 [Hb2 B2]]; try eassumption.
    exists (gh_extend gh x (tid bd)), b2. split; [|split; [|split]].
    + eapply wsim_extend; eassumption.
    + exact B2.
    + cbn [evs rev]. rewrite rev_popped. eapply bfold_snoc; [|exact Hb2]. rewrite bfold_app, Hf. exact Hpop.
    + unfold Fut. cbn [chain]. rewrite (resume_extend gh s x bd rest pre post W T Hnin). exact HF.
  - (* ring closure *)
    pose proof T as [Es [Ech _]].
    destruct (builder_popped g gh s b pre x post B Ech) as [b1 [junk [Hpop [Hst [Hgr [Hop [Her _]]]]]]].
    pose proof (bs_pinv g gh s b B) as Pinv.
    assert (HF' : Fut ids (gh_join gh x) {| rem := rem s; stk := rest; chain := x :: post; wpool := p'; evs := EJoin (bk bd) r :: popped s pre |}).
    { unfold Fut. cbn [chain]. rewrite (resume_join gh s x bd rest pre post W T Hin). exact HF. }
    destruct (lookup (borrowed (wpool s)) (x, tid bd)) as [r0|] eqn:El.
    + destruct (hit_close _ _ _ _ _ _ Pinv El Hhit) as [-> [Hb' Hp']].
      edestruct (sim_join_close g wf_nodup wf_sym) with (gh := gh) (s := s) (b := b) (b1 := b1) (tail := junk) (p' := p') as [b2 [Hb2 B2]]; try eassumption.
      exists (gh_join gh x), b2. split; [|split; [|split]].
      * eapply wsim_join; eassumption.
      * exact B2.
      * cbn [evs rev]. rewrite rev_popped. eapply bfold_snoc; [|exact Hb2]. rewrite bfold_app, Hf. exact Hpop.
      * exact HF'.
    + destruct (hit_open _ _ _ _ _ Pinv El Hhit) as [Hfresh [Hb' Hp']].
      edestruct (sim_join_open g wf_nodup) with (gh := gh) (s := s) (b := b) (b1 := b1) (tail := junk) (p' := p') as [b2 [Hb2 B2]]; try eassumption.
      exists (gh_join gh x), b2. split; [|split; [|split]].
      * eapply wsim_join; eassumption.
      * exact B2.
      * cbn [evs rev]. rewrite rev_popped. eapply bfold_snoc; [|exact Hb2]. rewrite bfold_app, Hf. exact Hpop.
      * exact HF'.
  - exact I.
Qed.

Lemma run_root_Inv2 ids : forall fuel s, Inv2 ids s ->
  match run_root fuel n s with
  | (WOk, s') => Inv2 ids s' /\ stk s' = []
  | _ => True
  end.
Proof.
  induction fuel as [|f IH]; intros s HI; cbn [run_root]; [exact I|].
  pose proof (step_Inv2 ids s HI) as Hs. destruct (step n s) as [s1|s1|r s1] eqn:Es.
  - apply IH. exact Hs.
  - destruct Hs as [-> Hst]. split; assumption.
  - destruct r; try exact I. exfalso. exact (step_stop_not_ok g s WOk s1 Es eq_refl).
Qed.

(* a component root: the specification's [dfs (S n) g id None] either starts a new search there or skips it *)
Lemma Inv2_root ids s id root : Inv2 (id :: ids) s -> stk s = [] -> id < n -> nth id (rem s) None = Some root ->
  Inv2 ids (start_root s id root).
Proof.
  intros [gh [b [W [B [Hf HF]]]]] Hstk Hid Hroot.
  destruct (sim_root g gh s b id root W B Hstk Hid Hroot) as [Hr [Hnin [W' [b2 [Hb2 B2]]]]].
  exists (gh_root gh id), b2. split; [exact W'|]. split; [exact B2|]. split.
  - cbn [start_root evs rev]. eapply bfold_snoc; eassumption.
  - unfold Fut in *. cbn [start_root chain resume length]. rewrite (resume_done gh s _ W Hstk) in HF.
    cbn [roots fold_left] in HF. fold (roots ids) in HF. rewrite <- HF. f_equal.
    destruct (ws_fresh g gh s W id Hnin) as [Hc0 Hp0].
    rewrite dfs_new by (rewrite vis_of_fst; exact Hnin). rewrite Nat.sub_0_r.
    assert (Hv : vis_of (gh_root gh id) = vis_of gh ++ [(id, None)]).
    { unfold vis_of. cbn [gh_root order par]. rewrite map_app. cbn [map]. rewrite Hp0. reflexivity. }
    rewrite Hv. f_equal.
    change (pending (gh_root gh id) id) with (pending gh id). unfold D1.pending, D1.nonback. rewrite Hc0, Hp0. reflexivity.
Qed.
Lemma Inv2_skip ids s id : Inv2 (id :: ids) s -> stk s = [] -> id < n -> nth id (rem s) None = None -> Inv2 ids s.
Proof.
  intros [gh [b [W [B [Hf HF]]]]] Hstk Hid Hrem. exists gh, b. split; [exact W|]. split; [exact B|]. split; [exact Hf|].
  unfold Fut in *. rewrite (resume_done gh s _ W Hstk) in *. cbn [roots fold_left] in HF. fold (roots ids) in HF.
  rewrite dfs_seen in HF; [exact HF|]. rewrite vis_of_fst.
  rewrite (ws_rem g gh s W id Hid) in Hrem. destruct (in_dec Nat.eq_dec id (order gh)); [assumption|discriminate].
Qed.

Lemma outer_Inv2 : forall ids fuel s, (forall id, In id ids -> id < n) -> Inv2 ids s -> stk s = [] ->
  match outer ids fuel n s with
  | (WOk, s') => Inv2 [] s' /\ stk s' = []
  | _ => True
  end.
Proof.
  induction ids as [|id rest IH]; intros fuel s Hids HI Hstk; cbn [outer].
  - split; assumption.
  - destruct (nth id (rem s) None) as [root|] eqn:Eroot.
    + pose proof (Inv2_root rest s id root HI Hstk (Hids id (or_introl eq_refl)) Eroot) as HI1.
      pose proof (run_root_Inv2 rest fuel _ HI1) as Hrun.
      destruct (run_root fuel n (start_root s id root)) as [r s1] eqn:Er.
      destruct r; try exact I. destruct Hrun as [HI2 Hs2].
      apply IH; [intros i Hi; apply Hids; right; exact Hi | exact HI2 | exact Hs2].
    + apply IH; [intros i Hi; apply Hids; right; exact Hi | | exact Hstk].
      apply (Inv2_skip rest s id HI Hstk (Hids id (or_introl eq_refl)) Eroot).
Qed.

Lemma Inv2_0 : Inv2 (seq 0 n) (state0 g).
Proof.
  destruct (Inv0 g) as [gh [b [W [B Hf]]]]. exists gh, b. split; [exact W|]. split; [exact B|]. split; [exact Hf|].
  assert (Ho : order gh = []).
  { destruct (order gh) as [|a l] eqn:E; [reflexivity|]. exfalso.
    assert (Ha : In a (order gh)) by (rewrite E; left; reflexivity).
    pose proof (ws_rng g gh _ W a Ha) as Han. pose proof (ws_rem g gh _ W a Han) as Hr.
    destruct (in_dec Nat.eq_dec a (order gh)) as [_|Hn]; [|exact (Hn Ha)].
    cbn [state0 rem] in Hr. rewrite nth_indep with (d' := Some dummy_atom) in Hr by (rewrite map_length; exact Han).
    rewrite map_nth in Hr. discriminate. }
  unfold Fut. cbn [state0 chain resume]. unfold vis_of. rewrite Ho. reflexivity.
Qed.

(* ================= the end of the run (as in D7.C12_traverse, for the ghost at hand) ================= *)
Lemma final_shape gh b s' : wsim gh s' -> bsim gh s' b -> bfold b0 (rev (evs s')) = Some b -> stk s' = [] ->
  (forall id, In id (seq 0 n) -> visited s' id) ->
  exists g', bld (rev (evs s')) = BOk g' /\ length g' = n /\
    NoDup (order gh) /\ (forall x, In x (order gh) <-> x < n) /\
    (forall x p, par gh x = Some p -> exists bb, find_to p (bonds_of x) = Some bb) /\
    forall x, x < n ->
      nth_error g' (phi gh x) = Some {| akind := kind_final g gh x; bonds := map (rename gh) (arrival_first g gh x) |}.
Proof.
  intros W B Hf Hstk Hall.
  assert (Hin : forall x, x < n -> In x (order gh)).
  { intros x Hx. specialize (Hall x ltac:(apply in_seq; lia)). unfold visited in Hall.
    rewrite (ws_rem g gh s' W x Hx) in Hall. destruct (in_dec Nat.eq_dec x (order gh)); [assumption|discriminate]. }
  assert (Hdone : forall z, In z (order gh) -> cnt gh z = length (nonback gh z)).
  { intros z Hz. destruct (in_dec Nat.eq_dec z (chain s')) as [Hzc|Hzc]; [|apply (ws_done g gh s' W z Hz Hzc)].
    pose proof (ws_stk g gh s' W) as Hs. rewrite Hstk in Hs. symmetry in Hs.
    assert (Hseg : seg g gh z = []).
    { clear -Hs Hzc. induction (chain s') as [|a l IH]; [contradiction|]. cbn [flat_map] in Hs. apply app_eq_nil in Hs as [H1 H2].
      destruct Hzc as [->|Hzc]; [exact H1 | apply IH; assumption]. }
    unfold seg in Hseg. apply map_eq_nil in Hseg. unfold D1.pending in Hseg. apply skipn_nil_len in Hseg. pose proof (ws_cnt g gh s' W z). lia. }
  assert (Hprocall : forall z, In z (order gh) -> processed gh z = nonback gh z).
  { intros z Hz. unfold D1.processed. rewrite (Hdone z Hz). apply firstn_all. }
  assert (Hnoopen : borrowed (wpool s') = []).
  { destruct (borrowed (wpool s')) as [|[[u v] r0] t] eqn:Eb; [reflexivity|]. exfalso.
    destruct (bs_open g gh s' b B u v r0) as [Hu [Hv [[c [Hc Hcv]] [Hnc Hnpar]]]]; [rewrite Eb; left; reflexivity|].
    apply Hnc. rewrite (Hprocall v Hv).
    assert (Hcu : In c (bonds_of u)) by (eapply nonback_sub; eapply processed_sub; exact Hc).
    destruct (wf_sym u c (ws_rng g gh s' W u Hu) Hcu) as [b' [Hfb _]]. rewrite Hcv in Hfb.
    destruct (find_to_in _ _ _ Hfb) as [Hb'in Hb't].
    exists b'. split; [|exact Hb't]. unfold D1.nonback. destruct (par gh v) as [p|] eqn:Ep; [|exact Hb'in].
    apply remove_first_keeps; [exact Hb'in|]. rewrite Hb't. intros E. apply Hnpar. rewrite E. reflexivity. }
  assert (Hnode : forall x, In x (order gh) -> exists nd, nth_error (graph b) (phi gh x) = Some nd /\
            nkind nd = kind_final g gh x /\ edges nd = map (fun c => mk_edge (bk c) (phi gh (tid c))) (arrival_first g gh x)).
  { intros x Hx. destruct (bs_nodes g gh s' b B x Hx) as [nd [Hnd [Hk [es [He Hf2]]]]]. exists nd. split; [exact Hnd|]. split; [exact Hk|].
    rewrite (Hprocall x Hx) in Hf2.
    assert (Hes : es = map (fun c => mk_edge (bk c) (phi gh (tid c))) (nonback gh x)).
    { apply Forall2_eq_map. eapply Forall2_impl_in; [|exact Hf2]. intros c e _ Hok. unfold D2.edge_ok in Hok. rewrite Hnoopen in Hok. cbn [lookup] in Hok.
      destruct (par gh (tid c)) as [q|]; [destruct (Nat.eqb q x)|]; exact Hok. }
    rewrite He, Hes. unfold D2.back_edges, arrival_first, D1.nonback. destruct (par gh x) as [p|] eqn:Ep; [|reflexivity].
    destruct (ws_par g gh s' W x p Ep) as [_ [_ [bb Hbb]]]. rewrite Hbb. destruct (find_to_in _ _ _ Hbb) as [_ Hbt].
    cbn [map app]. rewrite Hbt. reflexivity. }
  assert (Hlen : length (graph b) = length (order gh)) by apply (bs_len g gh s' b B).
  assert (Hndo : NoDup (order gh)) by apply (ws_nd g gh s' W).
  assert (Halltid : Forall (fun nd => Forall is_tid (edges nd)) (graph b)).
  { apply Forall_forall. intros nd Hnd. apply In_nth_error in Hnd as [i Hi].
    assert (Hil : i < length (order gh)) by (rewrite <- Hlen; apply nth_error_Some; congruence).
    set (x := nth i (order gh) 0). assert (Hx : In x (order gh)) by (apply nth_In; exact Hil).
    destruct (Hnode x Hx) as [nd' [Hnd' [_ He']]]. unfold phi in Hnd'. unfold x in Hnd'. rewrite (index_of_nth _ _ _ Hndo Hil) in Hnd'.
    rewrite Hi in Hnd'. inversion Hnd'; subst nd'. rewrite He'. apply Forall_forall. intros e He. apply in_map_iff in He as [c [<- _]]. eexists. reflexivity. }
  eexists. unfold bld. rewrite Hf. unfold build. rewrite (bs_err g gh s' b B). split; [apply conv_nodes_tid; exact Halltid|].
  assert (Hcard : length (order gh) = n).
  { apply Nat.le_antisymm.
    - assert (Hincl : incl (order gh) (seq 0 n)) by (intros x Hx; apply in_seq; pose proof (ws_rng g gh s' W x Hx); lia).
      pose proof (NoDup_incl_length Hndo Hincl) as Hl. rewrite seq_length in Hl. exact Hl.
    - assert (Hincl : incl (seq 0 n) (order gh)) by (intros x Hx; apply in_seq in Hx; apply Hin; lia).
      pose proof (NoDup_incl_length (seq_NoDup n 0) Hincl) as Hl. rewrite seq_length in Hl. exact Hl. }
  split; [rewrite map_length, Hlen; exact Hcard|]. split; [exact Hndo|]. split; [|split].
  - intros x. split; [apply (ws_rng g gh s' W) | apply Hin].
  - intros x p Hp. destruct (ws_par g gh s' W x p Hp) as [_ [_ H]]. exact H.
  - intros x Hx. destruct (Hnode x (Hin x Hx)) as [nd [Hnd [Hk He]]].
    rewrite nth_error_map, Hnd. cbn [option_map]. rewrite Hk, He, map_map. reflexivity.
Qed.

(* ================= the traversal visits atoms in the specification's depth-first order ================= *)
Theorem traverse_order_is_dfs : forall h, traverse g = (WOk, h) ->
  exists gh g', bld h = BOk g' /\ length g' = n /\
    NoDup (order gh) /\ (forall x, In x (order gh) <-> x < n) /\
    (forall x p, par gh x = Some p -> exists bb, find_to p (bonds_of x) = Some bb) /\
    (forall x, x < n ->
      nth_error g' (phi gh x) = Some {| akind := kind_final g gh x; bonds := map (rename gh) (arrival_first g gh x) |}) /\
    map (fun x => (x, par gh x)) (order gh) = dfs_all g.
Proof.
  intros h Hwalk. unfold traverse in Hwalk.
  assert (Hids : forall id, In id (seq 0 n) -> id < n) by (intros id Hid; apply in_seq in Hid; lia).
  pose proof (outer_Inv g wf_range wf_nodup wf_sym safe_kinds (seq 0 n) (S (total_bonds g)) (state0 g) Hids (Inv0 g) eq_refl) as Hout.
  pose proof (outer_Inv2 (seq 0 n) (S (total_bonds g)) (state0 g) Hids Inv2_0 eq_refl) as Hout2.
  destruct (outer (seq 0 n) (S (total_bonds g)) n (state0 g)) as [r s'] eqn:Eo.
  inversion Hwalk; subst r h. clear Hwalk.
  destruct Hout as [_ [_ [_ Hall]]]. destruct Hout2 as [[gh [b [W [B [Hf HF]]]]] Hstk].
  destruct (final_shape gh b s' W B Hf Hstk Hall) as [g' [H1 [H2 [H3 [H4 [H5 H6]]]]]].
  exists gh, g'. repeat (split; [assumption|]).
  unfold Fut in HF. cbn [roots fold_left] in HF. rewrite (resume_done gh s' _ W Hstk) in HF. exact HF.
Qed.
End DfsOrder.
