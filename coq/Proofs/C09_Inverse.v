(* C09, reader half: the reader replays what the writer's syntax denotes.  Syntax of what the writer writes
   ([body]), its printing [pp], the events it stands for [flat], and the theorem that the (simple) reader on
   [pp bd ++ rest] emits exactly [flat bd]. Recursion fuel needed = nesting depth of branches [dp]. *)
From Coq Require Import List NArith Lia Bool Arith.
Import ListNotations.
Require Import P.Generated.Enums P.Spec.Values P.Meta.Scan P.Spec.Normal P.Model.Base P.Model.Token P.Model.Reader P.Model.SimpleReader
  P.Checks.Token_defs P.Proofs.TokenFacts P.Proofs.BodyFacts.

Inductive link := LDot | LBond (b : bond_kind).
Inductive body := BNil | BJoin (b : bond_kind) (r : rnumN) (rest : body) | BBranch (l : link) (k : kind) (inner rest : body) | BNext (l : link) (k : kind) (rest : body).
Definition pp_link l := match l with LDot => [DOT] | LBond b => pp_bond b end.
Fixpoint pp (bd : body) : list char :=
  match bd with
  | BNil => []
  | BJoin b r rest => pp_bond b ++ pp_rnum r ++ pp rest
  | BBranch l k inner rest => LP :: pp_link l ++ pp_kind k ++ pp inner ++ RP :: pp rest
  | BNext l k rest => pp_link l ++ pp_kind k ++ pp rest
  end.
Fixpoint len (bd : body) : nat := match bd with BNil => 0 | BJoin _ _ r => len r | BBranch _ _ _ r => len r | BNext _ _ r => S (len r) end.
(* only branches nest calls of read_smiles *)
Fixpoint dp (bd : body) : nat :=
  match bd with BNil => 0 | BJoin _ _ r => dp r | BBranch _ _ i r => Nat.max (S (dp i)) (dp r) | BNext _ _ r => dp r end.
Fixpoint items (bd : body) : nat := match bd with BNil => 0 | BJoin _ _ r => S (items r) | BBranch _ _ _ r => S (items r) | BNext _ _ r => S (items r) end.
Definition ev_link l (k : kind) : ev := match l with LDot => ERoot k | LBond b => EExtend b k end.
Definition input_of l : option bond_kind := match l with LDot => None | LBond b => Some b end.
Fixpoint flat (bd : body) : list ev :=
  match bd with
  | BNil => []
  | BJoin b r rest => EJoin b r :: flat rest
  | BBranch l k inner rest => ev_link l (nk_kind k) :: flat inner ++ EPop (S (len inner)) :: flat rest
  | BNext l k rest => ev_link l (nk_kind k) :: flat rest
  end.
(* values in range *)
Fixpoint okbody (bd : body) : Prop :=
  match bd with
  | BNil => True
  | BJoin _ r rest => okr r /\ okbody rest
  | BBranch _ k inner rest => okk k /\ okbody inner /\ okbody rest
  | BNext _ k rest => okk k /\ okbody rest
  end.

Lemma skipn_app_len {A} (a b : list A) : skipn (length a) (a ++ b) = b.
Proof. induction a; simpl; auto. Qed.
Lemma speek_plain (x : list char) (e : list ev) c : plain x -> speek (x, e) = Some c -> N.eqb c LP = false /\ N.eqb c DOT = false.
Proof. destruct x; simpl; intros H E; inversion E; subst; exact H. Qed.
Lemma branch_plain rs (x : list char) (e : list ev) : plain x -> sread_branch rs (x, e) = (inl false, (x, e)).
Proof.
  intros Hp. unfold sread_branch. destruct (speek (x, e)) as [c|] eqn:E; [|reflexivity].
  destruct (speek_plain x e c Hp E) as [-> _]. reflexivity.
Qed.
Lemma link_atom inp k (x : list char) (e : list ev) : okk k -> follows x ->
  sread_link inp (pp_kind k ++ x, e) = (inl true, (x, (match inp with Some b => EExtend b (nk_kind k) | None => ERoot (nk_kind k) end) :: e)).
Proof. intros Hk HF. unfold sread_link. cbn [fst]. rewrite (H_atom k x Hk HF). unfold sadv, semit. cbn [fst snd]. rewrite skipn_app_len. reflexivity. Qed.

Lemma F_pp bd y : okbody bd -> follows y -> follows (pp bd ++ y).
Proof.
  intros Hok Hy. destruct bd as [| b r rest0 | l k inner rest0 | l k rest0]; cbn [pp app].
  - exact Hy.
  - rewrite <- !app_assoc. apply F_br. apply Hok.
  - apply F_lp.
  - destruct l; cbn [pp_link]; [cbn [app]; apply F_dot | rewrite <- !app_assoc; apply F_bk].
Qed.

(* the loop on an input where nothing more can be read: it returns the chain length *)
Lemma loop_stop rs g (x : list char) (e : list ev) acc : stop x -> sloop rs (S g) (x, e) acc = (inl (Some acc), (x, e)).
Proof.
  intros Hs. cbn [sloop]. rewrite (branch_plain rs x e (stop_plain x Hs)).
  assert (Hdot : match speek (x, e) with Some c => N.eqb c DOT | None => false end = false).
  { destruct (speek (x, e)) as [c|] eqn:E; [|reflexivity]. apply (speek_plain x e c (stop_plain x Hs) E). }
  rewrite Hdot. cbn [fst]. rewrite (H_bond_stop x Hs). unfold sadv. cbn [fst snd skipn]. unfold sread_link. cbn [fst].
  rewrite (H_atom_stop x Hs). cbn [fst]. rewrite (H_rnum_stop x Hs). reflexivity.
Qed.
Lemma not_dot_plain (x : list char) (e : list ev) : plain x -> match speek (x, e) with Some c => N.eqb c DOT | None => false end = false.
Proof. intros Hp. destruct (speek (x, e)) as [c|] eqn:E; [|reflexivity]. apply (speek_plain x e c Hp E). Qed.

Lemma branch_ok rs l k (x y : list char) (e e' : list ev) n :
  rs (input_of l) (pp_kind k ++ x, e) = (inl (Some n), (RP :: y, e')) ->
  sread_branch rs (LP :: pp_link l ++ pp_kind k ++ x, e) = (inl true, (y, EPop n :: e')).
Proof.
  intros Hrs. unfold sread_branch, speek, sadv. cbn [fst snd skipn hd_error]. rewrite N.eqb_refl.
  destruct l as [|b]; cbn [pp_link input_of] in *.
  - cbn [app hd_error skipn]. rewrite N.eqb_refl. rewrite Hrs.
    cbn [fst snd hd_error]. rewrite N.eqb_refl. unfold semit. cbn [fst snd skipn]. reflexivity.
  - pose proof (H_plain_bk b k x) as Hp.
    destruct (pp_bond b ++ pp_kind k ++ x) as [|c z] eqn:E.
    + exfalso. destruct (pp_bond b); [destruct (pp_kind k) eqn:K; [exact (H_kind_ne k K)|discriminate]|discriminate].
    + cbn [hd_error]. simpl in Hp. destruct Hp as [_ Hd]. rewrite Hd. rewrite <- E.
      rewrite H_bond_atom. rewrite skipn_app_len. rewrite Hrs.
      cbn [fst snd hd_error]. rewrite N.eqb_refl. unfold semit. cbn [fst snd skipn]. reflexivity.
Qed.

Lemma items_le_len bd : okbody bd -> items bd <= length (pp bd).
Proof.
  induction bd as [| b r rest IH | l k inner _ rest IH | l k rest IH]; cbn [items pp length okbody]; intros Hok; [lia| | |].
  - rewrite !app_length. destruct Hok as [Hr Hrest]. destruct (pp_rnum r) eqn:E; [destruct (H_rnum_ne r Hr E)|]. specialize (IH Hrest). simpl. lia.
  - destruct Hok as [_ [_ Hrest]]. specialize (IH Hrest). repeat (rewrite app_length || cbn [length]). lia.
  - rewrite !app_length. destruct Hok as [_ Hrest]. destruct (pp_kind k) eqn:E; [destruct (H_kind_ne k E)|]. specialize (IH Hrest). simpl. lia.
Qed.

Theorem loop_replays : forall bd f g rest e acc,
  okbody bd -> dp bd <= f -> items bd + 1 <= g -> stop rest ->
  sloop (sread_smiles f) g (pp bd ++ rest, e) acc = (inl (Some (acc + len bd)), (rest, rev (flat bd) ++ e)).
Proof.
  induction bd as [| b r rest0 IH | l k inner IHi rest0 IHr | l k rest0 IH]; intros f g rest e acc Hok Hf Hg Hs; cbn [dp items okbody] in *.
  - destruct g as [|g]; try lia. cbn [pp app]. rewrite (loop_stop _ g rest e acc Hs). cbn [len flat rev app]. repeat f_equal; lia.
  - destruct g as [|g]; try lia. destruct Hok as [Hr Hok]. cbn [pp]. rewrite <- !app_assoc. cbn [sloop].
    rewrite (branch_plain _ _ e (H_plain_br b r (pp rest0 ++ rest) Hr)). rewrite (not_dot_plain _ e (H_plain_br b r (pp rest0 ++ rest) Hr)).
    cbn [fst]. rewrite (H_bond_rnum b r _ Hr). unfold sadv at 1. cbn [fst snd]. rewrite skipn_app_len.
    unfold sread_link. cbn [fst]. rewrite (H_atom_rnum r _ Hr). cbn [fst].
    rewrite (H_rnum r _ Hr (F_pp rest0 rest Hok (F_stop rest Hs))). unfold sadv, semit. cbn [fst snd]. rewrite skipn_app_len.
    rewrite (IH f g rest (EJoin b r :: e) acc Hok); [|lia|lia|exact Hs].
    cbn [len flat rev]. rewrite <- app_assoc. reflexivity.
  - destruct g as [|g]; try lia. destruct f as [|f]; [lia|]. destruct Hok as [Hk [Hoki Hokr]].
    cbn [pp].
    assert (Hin : sread_smiles (S f) (input_of l) (pp_kind k ++ pp inner ++ RP :: pp rest0 ++ rest, e)
                  = (inl (Some (1 + len inner)), (RP :: pp rest0 ++ rest, rev (flat inner) ++ ev_link l (nk_kind k) :: e))).
    { cbn [sread_smiles]. rewrite (link_atom _ k _ e Hk) by (apply F_pp; [exact Hoki | apply F_stop; right; eexists; reflexivity]).
      assert (Hev : (match input_of l with Some b => EExtend b (nk_kind k) | None => ERoot (nk_kind k) end) = ev_link l (nk_kind k)) by (destruct l; reflexivity).
      rewrite Hev. cbn [fst]. apply IHi; [exact Hoki | lia | | right; eexists; reflexivity].
      pose proof (items_le_len inner Hoki). rewrite app_length. cbn [length]. lia. }
    cbn [sloop].
    assert (Hshape : (LP :: pp_link l ++ pp_kind k ++ pp inner ++ RP :: pp rest0) ++ rest
                     = LP :: pp_link l ++ pp_kind k ++ (pp inner ++ RP :: pp rest0 ++ rest)).
    { cbn [app]. f_equal. rewrite <- !app_assoc. reflexivity. }
    rewrite Hshape.
    rewrite (branch_ok _ l k _ (pp rest0 ++ rest) e _ _ Hin).
    rewrite (IHr (S f) g rest _ acc Hokr); [|lia|lia|exact Hs].
    cbn [len flat rev]. rewrite rev_app_distr. cbn [rev]. rewrite <- !app_assoc. cbn [app]. reflexivity.
  - destruct g as [|g]; try lia. destruct Hok as [Hk Hok]. cbn [pp]. rewrite <- !app_assoc.
    destruct l as [|b]; cbn [pp_link].
    + cbn [app sloop]. unfold sread_branch at 1. cbn [speek fst hd_error]. change (N.eqb DOT LP) with false. cbv iota.
      cbn [speek fst hd_error]. rewrite N.eqb_refl. unfold sadv at 1. cbn [fst snd skipn].
      rewrite (link_atom _ k _ e Hk) by (apply F_pp; [exact Hok | apply F_stop; exact Hs]).
      rewrite (IH f g rest _ (S acc) Hok); [|lia|lia|exact Hs].
      cbn [len flat rev ev_link]. rewrite <- app_assoc. cbn [app]. replace (S acc + len rest0) with (acc + S (len rest0)) by lia. reflexivity.
    + cbn [sloop]. rewrite (branch_plain _ _ e (H_plain_bk b k (pp rest0 ++ rest))). rewrite (not_dot_plain _ e (H_plain_bk b k (pp rest0 ++ rest))).
      cbn [fst]. rewrite H_bond_atom. unfold sadv at 1. cbn [fst snd]. rewrite skipn_app_len.
      rewrite (link_atom _ k _ e Hk) by (apply F_pp; [exact Hok | apply F_stop; exact Hs]).
      rewrite (IH f g rest _ (S acc) Hok); [|lia|lia|exact Hs].
      cbn [len flat rev ev_link]. rewrite <- app_assoc. cbn [app]. replace (S acc + len rest0) with (acc + S (len rest0)) by lia. reflexivity.
Qed.
