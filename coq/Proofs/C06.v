(* C06 assembly: every public entry point of the model, and the known findings as refutation witnesses. *)
From Coq Require Import List String NArith Lia Bool Arith.
Import ListNotations.
Require Import P.Generated.Enums P.Spec.Values P.Generated.Tables P.Spec.Events P.Spec.Known P.Model.Base P.Model.Token P.Model.Reader P.Model.Trace
  P.Model.Writer P.Model.Builder P.Model.Pool P.Model.Walk P.Proofs.WalkInv P.Proofs.ReaderConf P.Proofs.ReaderSafe P.Proofs.FollowerSafe
  P.Proofs.C09_Writer P.Proofs.C09_Final P.Proofs.WalkPanics.

Lemma writer_on_conformant h : conformant h = true -> w_fold [] h <> None.
Proof.
  intros Hc. destruct h as [|e t]; [discriminate|].
  assert (Hh : conformant_history (e :: t)) by (split; [discriminate | exact Hc]).
  destruct (writer_total (e :: t) Hh) as [text Hw]. intros E. unfold wr in Hw. rewrite E in Hw. discriminate.
Qed.
Theorem writer_on_reader_stream s : w_fold [] (snd (rd s)) <> None.
Proof. apply writer_on_conformant, reader_conformant. Qed.
Theorem trace_on_reader_stream s : tfold trace0 (r_events (read s)) <> None.
Proof.
  pose proof (reader_conformant s) as Hc. unfold rd in Hc. cbn [snd] in Hc. apply conf_iff in Hc.
  destruct (tfold_safe (r_events (read s)) trace0 Hc) as [t' E]. rewrite E. discriminate.
Qed.
Definition no_known_kind (h : list ev) : Prop := forall b k, In (EExtend b k) h -> known_invert_panic k = false.
Theorem builder_outside_known h : conformant h = true -> no_known_kind h -> bld h <> BPanic.
Proof.
  intros Hc Hk. apply builder_safe; [exact Hc|]. apply Forall_forall. intros e He. destruct e as [k|b k|b r|d]; cbn [invert_ok]; try exact I.
  intros Ep. apply invert_panic_known in Ep. rewrite (Hk b k He) in Ep. discriminate.
Qed.
Theorem builder_on_reader_stream s : no_known_kind (snd (rd s)) -> bld (snd (rd s)) <> BPanic.
Proof. intros Hk. apply builder_outside_known; [apply reader_conformant | exact Hk]. Qed.
Theorem walk_panic_sites g : fst (walk g) <> WPanic 1 /\ fst (walk g) <> WFuel /\ fst (walk g) <> WPanic 4.
Proof.
  pose proof (walk_safe g) as H. pose proof (walk_never_overflows_counter g) as H4. destruct (walk g) as [r h]. destruct H as [H1 [H2 _]]. auto.
Qed.

(* the full statement, kept visible, and its refutation on the faithful model (known findings F14, F15) *)
Definition C06_full : Prop :=
  (forall s, bld (snd (rd s)) <> BPanic) /\ (forall g, match fst (walk g) with WPanic _ => False | _ => True end).
Definition witness_B4 : list N := chars "C[Pt@SP1H](C)(C)C".
Lemma witness_B4_panics : bld (snd (rd witness_B4)) = BPanic. Proof. vm_compute. reflexivity. Qed.
Theorem C06_refuted : ~ C06_full.
Proof. intros [H _]. apply (H witness_B4). exact witness_B4_panics. Qed.
