(* C03 pieces on the final models: what walk followed by the builder does to the tetrahedral mark of an atom, read
   off kind_final of the C12 simulation, against the parity of the permutation "move the arrival bond to the front". *)
From Coq Require Import List NArith Lia Bool Arith.
Import ListNotations.
Require Import P.Generated.Enums P.Spec.Values P.Generated.Tables P.Model.Base P.Model.Pool P.Proofs.PoolSpec P.Model.Walk P.Model.Builder
  P.Proofs.D0 P.Proofs.D1 P.Proofs.D3 P.Proofs.D2 P.Proofs.D7.

(* ---------- what the code does to a tetrahedral mark (read off kind_final) ---------- *)
Definition final_of (idx : nat) (k : kind) := inv (wadj idx k).
(* swap TH1 and TH2 on a bracket atom, nothing else *)
Definition flip_TH (k : kind) : kind :=
  match k with
  | AK_Bracket i s (Some Cf_TH1) h g m => AK_Bracket i s (Some Cf_TH2) h g m
  | AK_Bracket i s (Some Cf_TH2) h g m => AK_Bracket i s (Some Cf_TH1) h g m
  | _ => k
  end.
Definition is_THc (c : option configuration) : bool := match c with Some Cf_TH1 | Some Cf_TH2 => true | _ => false end.

(* the two inversions, from the dumped table by finite computation: invert flips a TH mark exactly when a virtual
   hydrogen is present (and otherwise leaves the kind alone or panics); invert_noH flips it exactly when none is *)
Lemma inv_bracket i s c h g m :
  inv (AK_Bracket i s c h g m) = if is_THc c && has_hydrogens h then flip_TH (AK_Bracket i s c h g m) else AK_Bracket i s c h g m.
Proof.
  assert (H : forallb (fun c => forallb (fun h =>
              match invert_table c h, c with
              | InvTo Cf_TH2, Some Cf_TH1 | InvTo Cf_TH1, Some Cf_TH2 => has_hydrogens h
              | InvTo _, _ => false
              | _, _ => negb (is_THc c && has_hydrogens h) end)
              (all_option all_virtual_hydrogen)) (all_option all_configuration) = true) by (vm_compute; reflexivity).
  rewrite forallb_forall in H. specialize (H c (all_option_complete _ all_configuration_complete c)).
  rewrite forallb_forall in H. specialize (H h (all_option_complete _ all_virtual_hydrogen_complete h)).
  unfold inv. cbn [invert]. destruct (invert_table c h) as [|c'| |].
  - apply negb_true_iff in H. rewrite H. reflexivity.
  - destruct c as [c|]; [|destruct c'; discriminate].
    destruct c', c; try discriminate; cbn [is_THc andb flip_TH]; rewrite H; reflexivity.
  - apply negb_true_iff in H. rewrite H. reflexivity.
  - apply negb_true_iff in H. rewrite H. reflexivity.
Qed.
Lemma invert_noH_bracket i s c h g m :
  invert_noH (AK_Bracket i s c h g m) = if is_THc c && negb (has_hydrogens h) then flip_TH (AK_Bracket i s c h g m) else AK_Bracket i s c h g m.
Proof. cbn [invert_noH]. destruct (has_hydrogens h); [rewrite andb_false_r; reflexivity|]. rewrite andb_true_r. destruct c as [[]|]; reflexivity. Qed.

Definition should_flip (arrival_index : nat) := Nat.odd arrival_index.

(* the whole effect of walk + builder on the kind of an atom entered through the bond at index idx: the TH mark is
   swapped iff idx is odd, whether or not there is a virtual hydrogen; every other kind is left alone *)
Definition flipo (c : option configuration) : option configuration :=
  match c with Some Cf_TH1 => Some Cf_TH2 | Some Cf_TH2 => Some Cf_TH1 | x => x end.
Lemma flip_TH_bracket i s c h g m : flip_TH (AK_Bracket i s c h g m) = AK_Bracket i s (flipo c) h g m.
Proof. destruct c as [[]|]; reflexivity. Qed.
Lemma is_THc_flipo c : is_THc (flipo c) = is_THc c.
Proof. destruct c as [[]|]; reflexivity. Qed.
Lemma flipo_invol c : flipo (flipo c) = c.
Proof. destruct c as [[]|]; reflexivity. Qed.
Lemma flipo_not_TH c : is_THc c = false -> flipo c = c.
Proof. destruct c as [[]|]; try discriminate; reflexivity. Qed.

Theorem final_of_spec idx k : final_of idx k = if should_flip idx then flip_TH k else k.
Proof.
  unfold final_of, wadj, should_flip. rewrite <- Nat.negb_even.
  destruct k as [| | |i s c h g m]; try (destruct (Nat.even idx); reflexivity).
  (* even: inverted twice when there is a hydrogen, never otherwise;
     odd: flipped by the walk when there is no hydrogen, by the builder when there is one *)
  destruct (Nat.even idx), (is_THc c) eqn:Ec, (has_hydrogens h) eqn:Eh; cbn [negb];
    rewrite ?inv_bracket, ?invert_noH_bracket, ?Ec, ?Eh; cbn [andb negb];
    rewrite ?flip_TH_bracket, ?inv_bracket, ?is_THc_flipo, ?Ec, ?Eh; cbn [andb negb];
    rewrite ?flip_TH_bracket, ?flipo_invol, ?(flipo_not_TH c Ec); reflexivity.
Qed.

Definition flipc (c : configuration) : configuration := match c with Cf_TH1 => Cf_TH2 | Cf_TH2 => Cf_TH1 | x => x end.
Corollary final_TH idx i s c h g m : is_THc (Some c) = true ->
  final_of idx (AK_Bracket i s (Some c) h g m) = AK_Bracket i s (Some (if should_flip idx then flipc c else c)) h g m.
Proof. intros Hc. rewrite final_of_spec. destruct (should_flip idx); [|reflexivity]. destruct c; try discriminate; reflexivity. Qed.
(* the prototype's two cases: with a virtual hydrogen, and without one (refuted for the unrepaired walk, F13) *)
Corollary stereo_withH idx i s c h g m : is_THc (Some c) = true -> has_hydrogens h = true ->
  final_of idx (AK_Bracket i s (Some c) h g m) = AK_Bracket i s (Some (if should_flip idx then flipc c else c)) h g m.
Proof. intros Hc _. apply final_TH. exact Hc. Qed.
Corollary stereo_noH idx i s c h g m : is_THc (Some c) = true -> has_hydrogens h = false ->
  final_of idx (AK_Bracket i s (Some c) h g m) = AK_Bracket i s (Some (if should_flip idx then flipc c else c)) h g m.
Proof. intros Hc _. apply final_TH. exact Hc. Qed.
Corollary final_other idx k : flip_TH k = k -> final_of idx k = k.
Proof. intros H. rewrite final_of_spec, H. destruct (should_flip idx); reflexivity. Qed.
Corollary final_not_TH idx i s c h g m : is_THc c = false -> final_of idx (AK_Bracket i s c h g m) = AK_Bracket i s c h g m.
Proof. intros H. apply final_other. destruct c as [[]|]; try discriminate; reflexivity. Qed.

(* the kind the builder ends up with (C12_main) in these terms *)
Theorem kind_final_spec g gh x :
  kind_final g gh x =
  match par gh x with
  | None => akind (atom_at g x)
  | Some p => if should_flip (index_of p (map tid (bonds_of g x))) then flip_TH (akind (atom_at g x)) else akind (atom_at g x)
  end.
Proof. unfold kind_final. destruct (par gh x) as [p|]; [|reflexivity]. apply final_of_spec. Qed.
(* the arrival bond of C12_main's bond list sits at that index of the input's bond list *)
Lemma arrival_index g gh x p bb : par gh x = Some p -> find_to p (bonds_of g x) = Some bb ->
  nth_error (bonds_of g x) (index_of p (map tid (bonds_of g x))) = Some bb /\
  arrival_first g gh x = bb :: remove_first_to p (bonds_of g x).
Proof.
  intros Hp Hf. split; [|unfold arrival_first; rewrite Hp, Hf; reflexivity].
  clear Hp. induction (bonds_of g x) as [|a t IH]; [discriminate|]. cbn [find_to map index_of] in *.
  destruct (Nat.eqb (tid a) p); [exact Hf | apply IH; exact Hf].
Qed.

(* ---------- the specification: parity of the permutation "move element k to the front" ---------- *)
(* neighbours are distinct positions; we count inversions of a list of distinct naturals *)
Fixpoint inv_count_one (x : nat) (l : list nat) : nat :=
  match l with [] => 0 | y :: t => (if y <? x then 1 else 0) + inv_count_one x t end.
Fixpoint inversions (l : list nat) : nat :=
  match l with [] => 0 | x :: t => inv_count_one x t + inversions t end.
Definition move_to_front (k : nat) (l : list nat) : list nat :=
  match nth_error l k with Some x => x :: firstn k l ++ skipn (S k) l | None => l end.

Lemma inv_count_one_app x l1 l2 : inv_count_one x (l1 ++ l2) = inv_count_one x l1 + inv_count_one x l2.
Proof. induction l1 as [|y t IH]; simpl; [reflexivity|]. rewrite IH. lia. Qed.
Lemma inversions_seq : forall n i, inversions (seq i n) = 0.
Proof.
  induction n as [|n IH]; intros i; [reflexivity|]. cbn [seq inversions]. rewrite IH.
  assert (H : forall m j, i < j -> inv_count_one i (seq j m) = 0).
  { induction m as [|m IHm]; intros j Hj; [reflexivity|]. cbn [seq inv_count_one]. destruct (Nat.ltb_spec j i); [lia|]. rewrite IHm by lia. reflexivity. }
  rewrite H by lia. reflexivity.
Qed.
Lemma inv_count_one_small : forall m j x, j + m <= x -> inv_count_one x (seq j m) = m.
Proof.
  induction m as [|m IH]; intros j x H; [reflexivity|]. cbn [seq inv_count_one]. destruct (Nat.ltb_spec j x); [|lia]. rewrite IH by lia. lia.
Qed.
Lemma inv_count_one_large : forall m j x, x < j -> inv_count_one x (seq j m) = 0.
Proof.
  induction m as [|m IH]; intros j x H; [reflexivity|]. cbn [seq inv_count_one]. destruct (Nat.ltb_spec j x); [lia|]. rewrite IH by lia. reflexivity.
Qed.
Lemma inversions_app_sorted : forall a b c, inversions (seq a b ++ seq (a + b + 1) c) = 0.
Proof.
  intros a b. revert a. induction b as [|b IH]; intros a c; cbn [seq app].
  - apply inversions_seq.
  - cbn [inversions]. rewrite inv_count_one_app, !inv_count_one_large by lia.
    replace (a + S b + 1) with (S a + b + 1) by lia. rewrite IH. reflexivity.
Qed.

Lemma firstn_seq : forall a n i, a <= n -> firstn a (seq i n) = seq i a.
Proof. induction a as [|a IH]; intros n i H; [reflexivity|]. destruct n; [lia|]. cbn [seq firstn]. rewrite IH by lia. reflexivity. Qed.
Lemma skipn_seq : forall a n i, skipn a (seq i n) = seq (i + a) (n - a).
Proof.
  induction a as [|a IH]; intros n i; [rewrite Nat.add_0_r, Nat.sub_0_r; reflexivity|].
  destruct n; [reflexivity|]. cbn [seq skipn]. rewrite IH. f_equal; lia.
Qed.

(* moving position k of the identity arrangement to the front creates exactly k inversions *)
Theorem parity_move_to_front n k : k < n -> inversions (move_to_front k (seq 0 n)) = k.
Proof.
  intros Hk. unfold move_to_front. rewrite nth_error_nth' with (d := 0) by (rewrite seq_length; exact Hk).
  rewrite seq_nth by exact Hk. cbn [Nat.add inversions].
  assert (Hf : firstn k (seq 0 n) = seq 0 k) by (apply firstn_seq; lia).
  assert (Hs : skipn (S k) (seq 0 n) = seq (S k) (n - S k)) by (rewrite skipn_seq; reflexivity).
  rewrite Hf, Hs, inv_count_one_app, inv_count_one_small, inv_count_one_large by lia.
  replace (S k) with (0 + k + 1) by lia. rewrite inversions_app_sorted. lia.
Qed.


(* moving the element at position k of any list to the front is move_to_front on positions; remove_first_to is that move *)
Lemma remove_first_split p l bb : find_to p l = Some bb ->
  remove_first_to p l = firstn (index_of p (map tid l)) l ++ skipn (S (index_of p (map tid l))) l.
Proof.
  induction l as [|a t IH]; intros H; [discriminate|]. cbn [find_to remove_first_to map index_of] in *.
  destruct (Nat.eqb (tid a) p); [reflexivity|]. cbn [firstn skipn app]. rewrite (IH H). reflexivity.
Qed.
(* hence the bond list of C12_main is the input's bond list permuted by move_to_front at the arrival index, a permutation
   of parity = parity of the arrival index: the written mark must be flipped iff that index is odd, and it is *)
Theorem arrival_first_is_move_to_front g gh x p bb : par gh x = Some p -> find_to p (bonds_of g x) = Some bb ->
  let k := index_of p (map tid (bonds_of g x)) in
  arrival_first g gh x = bb :: firstn k (bonds_of g x) ++ skipn (S k) (bonds_of g x) /\
  nth_error (bonds_of g x) k = Some bb /\
  Nat.odd (inversions (move_to_front k (seq 0 (length (bonds_of g x))))) = should_flip k /\
  kind_final g gh x = if should_flip k then flip_TH (akind (atom_at g x)) else akind (atom_at g x).
Proof.
  intros Hp Hf k. destruct (arrival_index g gh x p bb Hp Hf) as [Hn Ha]. split; [|split; [exact Hn|split]].
  - rewrite Ha, (remove_first_split _ _ _ Hf). reflexivity.
  - rewrite parity_move_to_front; [reflexivity|]. apply nth_error_Some. fold k in Hn. congruence.
  - rewrite kind_final_spec, Hp. reflexivity.
Qed.
Print Assumptions arrival_first_is_move_to_front.
Print Assumptions C12_main.
