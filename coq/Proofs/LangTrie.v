(* Semantics of the specification trie of a token family (Spec/Reading.v: trie_of): running it on a string is the
   list-recursive function [scan]: follow the string while some spelling of the table continues; where none does,
   answer with the spelling read so far if it is one, with the root answer if nothing was read, otherwise report
   the position.  Generic in the table; nothing about the code here. *)
From Coq Require Import List NArith Lia Bool Arith.
Import ListNotations.
Require Import P.Meta.Scan P.Spec.Reading.

Section Sem.
Variable V : Type.
Notation entries := (list (list char * V)).
Variable ar : option (outcome V).

Definition mem (c : char) (l : list char) : bool := existsb (N.eqb c) l.
Lemma mem_In c l : mem c l = true <-> In c l.
Proof.
  unfold mem. rewrite existsb_exists. split.
  - intros [x [Hin E]]. apply N.eqb_eq in E. subst. exact Hin.
  - intros Hin. exists c. split; [exact Hin | apply N.eqb_refl].
Qed.

Definition stop_out (pos : nat) (es : entries) (eof : bool) : outcome V :=
  match accepting V es with
  | Some v => OVal v
  | None => match pos, ar with 0, Some o => o | _, _ => if eof then OErrEol else OErrChar pos end
  end.
Fixpoint scan (es : entries) (s : list char) (pos : nat) : outcome V * nat :=
  match s with
  | [] => (stop_out pos es true, pos)
  | c :: s' => if mem c (heads V es) then scan (step_entries V c es) s' (S pos) else (stop_out pos es false, pos)
  end.

(* ---------- the table operations ---------- *)
Lemma heads_In c (es : entries) : In c (heads V es) <-> exists t v, In (c :: t, v) es.
Proof.
  unfold heads. rewrite nodup_In, in_flat_map. split.
  - intros [[k v] [Hin Hc]]. cbn [fst] in Hc. destruct k as [|c' t]; [contradiction|]. destruct Hc as [->|[]]. exists t, v. exact Hin.
  - intros [t [v Hin]]. exists (c :: t, v). split; [exact Hin | left; reflexivity].
Qed.
Lemma step_In c (es : entries) t v : In (t, v) (step_entries V c es) <-> In (c :: t, v) es.
Proof.
  unfold step_entries. rewrite in_flat_map. split.
  - intros [[k v'] [Hin H]]. cbn [fst snd] in H. destruct k as [|c' t']; [contradiction|].
    destruct (N.eqb_spec c' c) as [->|]; [|contradiction]. destruct H as [H|[]]. inversion H; subst. exact Hin.
  - intros Hin. exists (c :: t, v). split; [exact Hin|]. cbn [fst snd]. rewrite N.eqb_refl. left. reflexivity.
Qed.
Lemma accepting_Some (es : entries) v : accepting V es = Some v -> In ([], v) es.
Proof.
  unfold accepting. destruct (find _ es) as [[k v']|] eqn:E; [|discriminate]. intros H. inversion H; subst.
  apply find_some in E as [Hin Hk]. cbn [fst] in Hk. destruct k; [exact Hin | discriminate].
Qed.
Lemma accepting_None (es : entries) : accepting V es = None -> forall v, ~ In ([], v) es.
Proof.
  unfold accepting. destruct (find _ es) as [[k v']|] eqn:E; [discriminate|]. intros _ v Hin.
  apply (find_none _ _ E) in Hin. discriminate.
Qed.
Lemma accepting_In (es : entries) v : In ([], v) es -> exists v', accepting V es = Some v'.
Proof. intros Hin. destruct (accepting V es) as [v'|] eqn:E; [eauto|]. exfalso. exact (accepting_None es E v Hin). Qed.
Lemma no_heads_accepting (es : entries) : es <> [] -> heads V es = [] -> exists v, accepting V es = Some v.
Proof.
  intros Hne Hh. destruct es as [|[k v] es']; [contradiction|]. destruct k as [|c t].
  - apply (accepting_In _ v). left. reflexivity.
  - exfalso. assert (Hin : In c (heads V ((c :: t, v) :: es'))) by (apply heads_In; exists t, v; left; reflexivity).
    rewrite Hh in Hin. exact Hin.
Qed.

(* ---------- running the trie ---------- *)
Definition ro (r : res V) : outcome V * nat := (r_out r, r_pos r).

Lemma run_tests (T : char -> tree V) (stop : tree V) c s' pos : forall hs pk,
  exists pk', run (fold_right (fun h t => Test (PLit h) (Pop (T h)) t) stop hs) (c :: s') pos pk =
              if mem c hs then run (T c) s' (S pos) pk' else run stop (c :: s') pos pk'.
Proof.
  induction hs as [|h hs IH]; intros pk; cbn [fold_right mem existsb].
  - exists pk. reflexivity.
  - cbn [run pmatch]. rewrite N.eqb_sym. destruct (N.eqb_spec c h) as [->|Hne]; cbn [orb].
    + eexists. reflexivity.
    + destruct (IH (Nat.max pk (S pos))) as [pk' E]. exists pk'. exact E.
Qed.

Definition bounded (f : nat) (es : entries) : Prop := forall k v, In (k, v) es -> length k <= f.

Theorem run_trie : forall f es, es <> [] -> bounded f es -> forall s pos pk, ro (run (trie V f ar pos es) s pos pk) = scan es s pos.
Proof.
  induction f as [|f IH]; intros es Hne Hb s pos pk.
  - assert (Hh : heads V es = []).
    { destruct (heads V es) as [|c l] eqn:E; [reflexivity|]. exfalso.
      assert (Hin : In c (heads V es)) by (rewrite E; left; reflexivity). apply heads_In in Hin as [t [v Hin]].
      specialize (Hb _ _ Hin). cbn [length] in Hb. lia. }
    destruct (no_heads_accepting es Hne Hh) as [v Hv].
    cbn [trie]. rewrite Hv. cbn [run ro r_out r_pos]. destruct s as [|c s']; cbn [scan]; [|rewrite Hh; cbn [mem existsb]]; unfold stop_out; rewrite Hv; reflexivity.
  - cbn [trie]. destruct (heads V es) as [|h0 hs0] eqn:Hh.
    + destruct (no_heads_accepting es Hne Hh) as [v Hv]. rewrite Hv. cbn [run ro r_out r_pos].
      destruct s as [|c s']; cbn [scan]; [|rewrite Hh; cbn [mem existsb]]; unfold stop_out; rewrite Hv; reflexivity.
    + rewrite <- Hh. destruct s as [|c s'].
      * cbn [run scan]. unfold stop_out. destruct (accepting V es) as [v|]; [reflexivity|].
        destruct pos as [|pos']; [destruct ar as [o|]|]; reflexivity.
      * cbn [run scan].
        destruct (run_tests (fun h => trie V f ar (S pos) (step_entries V h es))
                    (match accepting V es with Some v => Leaf (OVal v) | None => match pos, ar with 0, Some o => Leaf o | _, _ => Leaf (OErrChar pos) end end)
                    c s' pos (heads V es) (Nat.max pk (S pos))) as [pk' E].
        rewrite E. clear E. destruct (mem c (heads V es)) eqn:Hm.
        -- apply IH.
           ++ apply mem_In, heads_In in Hm as [t [v Hin]]. apply (step_In c es t v) in Hin. intros E. rewrite E in Hin. exact Hin.
           ++ intros k v Hin. apply step_In in Hin. specialize (Hb _ _ Hin). cbn [length] in Hb. lia.
        -- unfold stop_out. destruct (accepting V es) as [v|]; [reflexivity|].
           destruct pos as [|pos']; [destruct ar as [o|]|]; reflexivity.
Qed.

(* ---------- what scan answers ---------- *)
Definition is_prefix (p q : list char) : Prop := exists r, q = p ++ r.
(* after the spelling p, the text w does not continue any spelling of the table *)
Definition ext_free (es : entries) (p w : list char) : Prop :=
  match w with [] => True | c :: _ => forall q v, In (q, v) es -> ~ is_prefix (p ++ [c]) q end.

(* a value is read only for a spelling of the table (or is the root answer, nothing consumed) *)
Lemma scan_value : forall s es pos v n, scan es s pos = (OVal v, n) ->
  (exists p w, s = p ++ w /\ In (p, v) es /\ n = pos + length p) \/ (pos = 0 /\ n = 0 /\ ar = Some (OVal v) /\ accepting V es = None).
Proof.
  assert (Hstop : forall es pos s eof v n, (stop_out pos es eof, pos) = (OVal v, n) ->
    (exists p w, s = p ++ w /\ In (p, v) es /\ n = pos + length p) \/ (pos = 0 /\ n = 0 /\ ar = Some (OVal v) /\ accepting V es = None)).
  { intros es pos s eof v n H. unfold stop_out in H. destruct (accepting V es) as [v'|] eqn:Ha.
    - inversion H; subst. left. exists [], s. split; [reflexivity|]. split; [apply accepting_Some; exact Ha | cbn [length]; lia].
    - destruct pos as [|pos']; [destruct ar as [o|]|]; try (destruct eof; discriminate). inversion H; subst. right. auto. }
  induction s as [|c s' IH]; intros es pos v n H; cbn [scan] in H.
  - apply (Hstop _ _ _ _ _ _ H).
  - destruct (mem c (heads V es)); [|apply (Hstop _ _ _ _ _ _ H)].
    apply IH in H as [[p [w [-> [Hin ->]]]]|[Hpos _]]; [|discriminate]. left. exists (c :: p), w.
    split; [reflexivity|]. split; [apply step_In; exact Hin | cbn [length]; lia].
Qed.

(* a spelling of the table followed by something that continues no spelling is read entirely *)
Lemma scan_key : forall p es w pos v, In (p, v) es -> ext_free es p w -> exists v', scan es (p ++ w) pos = (OVal v', pos + length p).
Proof.
  induction p as [|a p IH]; intros es w pos v Hin Hfree.
  - destruct (accepting_In es v Hin) as [v' Hv]. exists v'. cbn [app length]. rewrite Nat.add_0_r.
    destruct w as [|c w']; cbn [scan].
    + unfold stop_out. rewrite Hv. reflexivity.
    + destruct (mem c (heads V es)) eqn:Hm.
      * exfalso. apply mem_In, heads_In in Hm as [t [v0 Hin0]]. apply (Hfree _ _ Hin0). exists t. reflexivity.
      * unfold stop_out. rewrite Hv. reflexivity.
  - cbn [app scan]. assert (Hm : mem a (heads V es) = true) by (apply mem_In, heads_In; exists p, v; exact Hin). rewrite Hm.
    destruct (IH (step_entries V a es) w (S pos) v) as [v' E].
    + apply step_In. exact Hin.
    + destruct w as [|c w']; [exact I|]. cbn [ext_free] in *. intros q v0 Hq [r Hr]. apply step_In in Hq.
      apply (Hfree _ _ Hq). exists r. cbn [app]. rewrite Hr. reflexivity.
    + exists v'. rewrite E. f_equal. cbn [length]. lia.
Qed.

(* where no spelling starts, the root answer, nothing consumed *)
Lemma scan_root es s o : ar = Some o -> accepting V es = None -> match s with [] => True | c :: _ => ~ In c (heads V es) end ->
  scan es s 0 = (o, 0).
Proof.
  intros Har Ha Hs. destruct s as [|c s']; cbn [scan].
  - unfold stop_out. rewrite Ha, Har. reflexivity.
  - destruct (mem c (heads V es)) eqn:Hm; [exfalso; apply Hs, mem_In; exact Hm|]. unfold stop_out. rewrite Ha, Har. reflexivity.
Qed.
Lemma scan_none_pos : forall s es pos n, scan es s pos = (ONone, n) -> pos = 0 /\ n = 0 \/ ar <> Some ONone.
Proof.
  induction s as [|c s' IH]; intros es pos n H; cbn [scan] in H.
  - unfold stop_out in H. destruct (accepting V es); [discriminate|]. destruct pos as [|pos']; [|discriminate].
    inversion H; subst. left. auto.
  - destruct (mem c (heads V es)).
    + apply IH in H as [[H _]|H]; [discriminate | right; exact H].
    + unfold stop_out in H. destruct (accepting V es); [discriminate|]. destruct pos as [|pos']; [|discriminate]. inversion H; subst. left. auto.
Qed.
End Sem.
Arguments scan {V}. Arguments ext_free {V}. Arguments bounded {V}. Arguments ro {V}.
