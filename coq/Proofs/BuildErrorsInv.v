(* C10, error half: pass 2 of the denotation ([pstep] folded over the ring tokens) against the declarative reading
   of Spec/BuildErrors.v.  After n tokens: the open table holds exactly the tokens open at n, latest first; the joined
   pairs are the tree bonds and the closures that made a bond; the first recorded failure is the first bad closure. *)
From Coq Require Import List NArith Lia Bool Arith Sorted.
Import ListNotations.
Require Import P.Generated.Enums P.Spec.Values P.Model.Base P.Checks.C18_defs P.Proofs.C09_Inverse P.Spec.Denote
  P.Proofs.DenotePair P.Proofs.DenoteSim P.Spec.BuildErrors P.Proofs.BuildErrorsRank.
Local Notation length := List.length.

Lemma sorted_map_filter {A} (f : A -> nat) (p : A -> bool) l : StronglySorted gt (map f l) -> StronglySorted gt (map f (filter p l)).
Proof.
  induction l as [|x l IH]; cbn [map filter]; intros H; [constructor|].
  apply StronglySorted_inv in H as [Hs Hf]. destruct (p x); [|exact (IH Hs)].
  cbn [map]. constructor; [exact (IH Hs)|]. rewrite Forall_forall in *. intros y Hy. apply Hf.
  apply in_map_iff in Hy as [z [Ez Hz]]. apply filter_In in Hz as [Hz _]. apply in_map_iff. exists z. auto.
Qed.

(* the three outcomes of a step, apart from the open table ([pstep_opens]) *)
Lemma pstep_cases st tok :
  let a := tok_atom tok in
  (find (rkey (tok_r tok)) (popens st) = None /\ pbonded (pstep st tok) = pbonded st /\ pres (pstep st tok) = pres st) \/
  (exists z, find (rkey (tok_r tok)) (popens st) = Some z /\ let a0 := tok_atom z in
     (((Nat.eqb a a0 || sp (pbonded st) a a0 = true) \/ resolve (tok_b z) (tok_b tok) = None) /\
      pbonded (pstep st tok) = pbonded st /\ pres (pstep st tok) = (tok_occ tok, RBad a a0) :: pres st) \/
     (Nat.eqb a a0 || sp (pbonded st) a a0 = false /\ exists l rt, resolve (tok_b z) (tok_b tok) = Some (l, rt) /\
      pbonded (pstep st tok) = (a, a0) :: pbonded st /\
      pres (pstep st tok) = (tok_occ z, RMatched a l) :: (tok_occ tok, RMatched a0 rt) :: pres st)).
Proof.
  cbv zeta. unfold pstep. destruct (find (rkey (tok_r tok)) (popens st)) as [z|]; [right; exists z; split; [reflexivity|] | left; auto].
  fold (sp (pbonded st) (tok_atom tok) (tok_atom z)).
  destruct (Nat.eqb (tok_atom tok) (tok_atom z) || sp (pbonded st) (tok_atom tok) (tok_atom z)) eqn:Ec; [left; auto|].
  destruct (resolve (tok_b z) (tok_b tok)) as [[l rt]|] eqn:Er; [right | left; auto].
  split; [reflexivity|]. exists l, rt. auto.
Qed.

Section Inv.
Variable rg : list ringocc.
Variable tree : list (nat * nat).
Hypothesis Hocc : forall i t, nth_error rg i = Some t -> tok_occ t = i.
Notation rank := (BuildErrors.rank rg).
Notation mb := (makes_bond rg tree).
Notation bad := (bad_closure rg tree).
Notation clo := (closure rg).

(* ---------- inversion of the two predicates; they exclude each other ---------- *)
Definition dup_of (n a a0 : nat) : Prop :=
  exists i' x0 c0 j' x c, j' < n /\ clo i' x0 c0 j' x c /\ same_ends x x0 a a0 /\ mb j'.
Lemma bad_inv j : bad j -> exists i a0 b0 a b, clo i a0 b0 j a b /\
  (a = a0 \/ tree_bonded tree a a0 \/ dup_of j a a0 \/ irreconcilable b0 b).
Proof.
  intros H. destruct H as [i a0 b0 j a b C E|i a0 b0 j a b C E|i a0 b0 j a b i' x0 c0 j' x c C Hlt C' Hs Hm|i a0 b0 j a b C E];
    exists i, a0, b0, a, b; (split; [exact C|]).
  - left; exact E.
  - right; left; exact E.
  - right; right; left. exists i', x0, c0, j', x, c. auto.
  - right; right; right; exact E.
Qed.
Lemma mb_inv j : mb j -> exists i a0 b0 a b, clo i a0 b0 j a b /\ a <> a0 /\ ~ tree_bonded tree a a0 /\
  (exists l r, reconciled b0 b l r) /\
  (forall i' x0 c0 j' x c, j' < j -> clo i' x0 c0 j' x c -> same_ends x x0 a a0 -> bad j').
Proof. intros H. destruct H as [i a0 b0 j a b C H1 H2 H3 H4]. exists i, a0, b0, a, b. auto. Qed.
Lemma mb_not_bad : forall j, mb j -> bad j -> False.
Proof.
  induction j as [j IH] using lt_wf_ind. intros Hm Hb.
  destruct (mb_inv j Hm) as [i [a0 [b0 [a [b [C [Hne [Hnt [[l [r Hrec]] Hall]]]]]]]]].
  destruct (bad_inv j Hb) as [i' [a0' [b0' [a' [b' [C' Hc]]]]]].
  destruct (closure_fun rg _ _ _ _ _ _ _ _ _ _ _ C C') as [-> [<- [<- [<- <-]]]].
  destruct Hc as [E|[E|[E|E]]].
  - exact (Hne E).
  - exact (Hnt E).
  - destruct E as [i2 [x0 [c0 [j2 [x [c [Hlt [C2 [Hs Hm2]]]]]]]]]. apply (IH j2 Hlt Hm2). exact (Hall _ _ _ _ _ _ Hlt C2 Hs).
  - exact (E l r Hrec).
Qed.

(* ---------- the state after n tokens ---------- *)
Definition st0 : pst := {| popens := []; pbonded := tree; pres := [] |}.
Definition stn (n : nat) : pst := fold_left pstep (firstn n rg) st0.
Lemma stn_S n t : nth_error rg n = Some t -> stn (S n) = pstep (stn n) t.
Proof. intros H. unfold stn. rewrite (firstn_S_nth rg n t H), fold_left_app. reflexivity. Qed.
Lemma stn_all : stn (length rg) = fold_left pstep rg st0.
Proof. unfold stn. rewrite firstn_all. reflexivity. Qed.

Definition open_at (n i : nat) (r : rnumN) : Prop := Nat.Even (rank i r) /\ rank n r = S (rank i r).
Definition fb (st : pst) : option (nat * resol) := find isbad (rev (pres st)).
Definition P_opens n := forall t, In t (popens (stn n)) <-> exists i, i < n /\ nth_error rg i = Some t /\ open_at n i (tok_r t).
Definition P_sorted n := StronglySorted gt (map tok_occ (popens (stn n))).
Definition P_bonded n := forall x y, In (x, y) (pbonded (stn n)) <->
  In (x, y) tree \/ exists j i b0 b, j < n /\ clo i y b0 j x b /\ mb j.
Definition P_total n := forall j i a0 b0 a b, j < n -> clo i a0 b0 j a b -> mb j \/ bad j.
Definition P_first n := match fb (stn n) with
  | None => forall j, j < n -> ~ bad j
  | Some (occ, RBad a a0) => occ < n /\ first_bad_closure rg tree occ a a0
  | Some (_, RMatched _ _) => False end.

Lemma open_at_other n t i r' : nth_error rg n = Some t -> tok_r t <> r' -> (open_at (S n) i r' <-> open_at n i r').
Proof.
  intros Ht Hne. unfold open_at. rewrite (rank_S rg n t r' Ht).
  assert (Hk : rkey r' t = false) by (apply rkey_false; exact Hne). rewrite Hk. tauto.
Qed.
Lemma rank_S_same n t : nth_error rg n = Some t -> rank (S n) (tok_r t) = S (rank n (tok_r t)).
Proof. intros Ht. rewrite (rank_S rg n t _ Ht). assert (Hk : rkey (tok_r t) t = true) by (apply rkey_true; reflexivity). rewrite Hk. reflexivity. Qed.
Lemma open_at_closed n t i : nth_error rg n = Some t -> Nat.Odd (rank n (tok_r t)) -> ~ open_at (S n) i (tok_r t).
Proof.
  intros Ht Ho [He E]. rewrite (rank_S_same n t Ht) in E. injection E as E. rewrite E in Ho. exact (Nat.Even_Odd_False _ He Ho).
Qed.
Lemma open_at_new n t i t' : nth_error rg n = Some t -> nth_error rg i = Some t' -> tok_r t' = tok_r t -> i < S n ->
  open_at (S n) i (tok_r t) -> i = n.
Proof.
  intros Ht Ht' Hr Hi [_ E]. rewrite (rank_S_same n t Ht) in E. injection E as E.
  destruct (Nat.eq_dec i n) as [|Hne]; [assumption|]. assert (Hlt : i < n) by lia.
  pose proof (rank_lt rg i n t' _ Ht' Hr Hlt). lia.
Qed.
(* no open token with the number: the count is even *)
Lemma none_even n r : P_opens n -> find (rkey r) (popens (stn n)) = None -> Nat.Even (rank n r).
Proof.
  intros Ho Ef. destruct (Nat.Even_or_Odd (rank n r)) as [He|Hodd]; [exact He|]. exfalso.
  destruct (odd_rank_open rg r n Hodd) as [i [t' [Hi [Ht' [Hr [He E]]]]]].
  assert (Hin : In t' (popens (stn n))) by (apply Ho; exists i; rewrite Hr; repeat split; assumption).
  rewrite find_none_iff in Ef. apply Ef in Hin. apply rkey_false in Hin. exact (Hin Hr).
Qed.

Lemma step_opens n t : nth_error rg n = Some t -> P_opens n -> P_sorted n -> P_opens (S n) /\ P_sorted (S n).
Proof.
  intros Ht Ho Hs. unfold P_opens, P_sorted. rewrite (stn_S n t Ht), pstep_opens.
  destruct (find (rkey (tok_r t)) (popens (stn n))) as [z|] eqn:Ef.
  - pose proof (find_some _ _ Ef) as [Hzin Hzk]. apply rkey_true in Hzk.
    apply Ho in Hzin as [i0 [Hi0 [Hz [He0 Hr0]]]]. rewrite Hzk in He0, Hr0.
    assert (Hodd : Nat.Odd (rank n (tok_r t))) by (rewrite Hr0; apply Nat.Odd_succ; exact He0).
    split; [|apply sorted_map_filter; exact Hs].
    intros t'. rewrite filter_In. split.
    + intros [Hin Hk]. apply negb_true_iff, rkey_false in Hk. apply Ho in Hin as [i [Hi [Hn Hop]]].
      exists i. split; [lia|]. split; [exact Hn|]. apply (open_at_other n t i _ Ht); [congruence | exact Hop].
    + intros [i [Hi [Hn Hop]]]. destruct (N.eq_dec (tok_r t') (tok_r t)) as [E|Hne].
      * exfalso. rewrite E in Hop. exact (open_at_closed n t i Ht Hodd Hop).
      * assert (Hin : i <> n) by (intros ->; rewrite Ht in Hn; inversion Hn; subst; apply Hne; reflexivity).
        split; [|apply negb_true_iff, rkey_false; exact Hne].
        apply Ho. exists i. split; [lia|]. split; [exact Hn|]. apply (open_at_other n t i _ Ht); [congruence | exact Hop].
  - pose proof (none_even n _ Ho Ef) as Hev. split.
    + intros t'. cbn [In]. split.
      * intros [E|Hin].
        -- subst t'. exists n. split; [lia|]. split; [exact Ht|]. split; [exact Hev | exact (rank_S_same n t Ht)].
        -- assert (Hne : tok_r t' <> tok_r t).
           { intros E. rewrite find_none_iff in Ef. apply Ef in Hin. apply rkey_false in Hin. exact (Hin E). }
           apply Ho in Hin as [i [Hi [Hn Hop]]]. exists i. split; [lia|]. split; [exact Hn|].
           apply (open_at_other n t i _ Ht); [congruence | exact Hop].
      * intros [i [Hi [Hn Hop]]]. destruct (N.eq_dec (tok_r t') (tok_r t)) as [E|Hne].
        -- left. rewrite E in Hop. pose proof (open_at_new n t i t' Ht Hn E Hi Hop) as ->. congruence.
        -- right. assert (Hin : i <> n) by (intros ->; rewrite Ht in Hn; inversion Hn; subst; apply Hne; reflexivity).
           apply Ho. exists i. split; [lia|]. split; [exact Hn|]. apply (open_at_other n t i _ Ht); [congruence | exact Hop].
    + cbn [map]. constructor; [exact Hs|]. rewrite Forall_forall. intros x Hx. apply in_map_iff in Hx as [t' [Ex Hin]].
      apply Ho in Hin as [i [Hi [Hn _]]]. rewrite (Hocc i t' Hn) in Ex. rewrite (Hocc n t Ht). lia.
Qed.

(* ---------- the bonds made and the failures recorded ---------- *)
Lemma fb_bad st occ a a0 p : pres p = (occ, RBad a a0) :: pres st ->
  fb p = match fb st with Some x => Some x | None => Some (occ, RBad a a0) end.
Proof. intros E. unfold fb. rewrite E. cbn [rev]. rewrite find_app. destruct (find isbad (rev (pres st))); reflexivity. Qed.
Lemma fb_good st o1 x1 k1 o2 x2 k2 p : pres p = (o1, RMatched x1 k1) :: (o2, RMatched x2 k2) :: pres st -> fb p = fb st.
Proof. intros E. unfold fb. rewrite E. cbn [rev]. rewrite !find_app. destruct (find isbad (rev (pres st))); reflexivity. Qed.

Lemma sp_bonded n a a0 : P_bonded n -> (sp (pbonded (stn n)) a a0 = true <-> tree_bonded tree a a0 \/ dup_of n a a0).
Proof.
  intros Hb. rewrite sp_true, !(Hb _ _). unfold tree_bonded, dup_of, same_ends. split.
  - intros [[H|[j [i [b0 [b [Hj [C M]]]]]]]|[H|[j [i [b0 [b [Hj [C M]]]]]]]]; [left; left; exact H | | left; right; exact H | ]; right.
    + exists i, a0, b0, j, a, b. split; [exact Hj|]. split; [exact C|]. split; [left; auto | exact M].
    + exists i, a, b0, j, a0, b. split; [exact Hj|]. split; [exact C|]. split; [right; auto | exact M].
  - intros [[H|H]|[i [x0 [c0 [j [x [c [Hj [C [[[-> ->]|[-> ->]] M]]]]]]]]]]; [left; left; exact H | right; left; exact H | left | right];
      right; exists j, i, c0, c; auto.
Qed.

Lemma step_rest n t : nth_error rg n = Some t -> P_opens n -> P_bonded n -> P_total n -> P_first n ->
  P_bonded (S n) /\ P_total (S n) /\ P_first (S n).
Proof.
  intros Ht Ho Hb Htot Hf. pose proof (nth_token rg Hocc n t Ht) as Tn.
  unfold P_bonded, P_total, P_first. rewrite (stn_S n t Ht).
  destruct (pstep_cases (stn n) t) as [[Ef [Eb Er]] | [z [Ef Hz]]].
  - (* an opening token: no closure is completed at n *)
    pose proof (none_even n _ Ho Ef) as Hev.
    assert (Hnc : forall i a0 b0 a b, ~ clo i a0 b0 n a b).
    { intros i a0 b0 a b [r [_ [Tn' [_ [He Hr]]]]]. destruct (token_fun rg _ _ _ _ _ _ _ Tn Tn') as [_ [<- _]].
      rewrite Hr in Hev. exact (Nat.Even_Odd_False _ Hev (proj2 (Nat.Odd_succ _) He)). }
    assert (Hlt : forall j i a0 b0 a b, j < S n -> clo i a0 b0 j a b -> j < n).
    { intros j i a0 b0 a b Hj C. destruct (Nat.eq_dec j n) as [->|]; [destruct (Hnc _ _ _ _ _ C) | lia]. }
    rewrite Eb. unfold fb. rewrite Er. fold (fb (stn n)). split; [|split].
    + intros x y. rewrite (Hb x y). split; (intros [H|[j [i [b0 [b [Hj [C M]]]]]]]; [left; exact H | right; exists j, i, b0, b]).
      * split; [lia | auto].
      * split; [exact (Hlt _ _ _ _ _ _ Hj C) | auto].
    + intros j i a0 b0 a b Hj C. exact (Htot j i a0 b0 a b (Hlt _ _ _ _ _ _ Hj C) C).
    + unfold P_first in Hf. destruct (fb (stn n)) as [[occ [p k|a a0]]|]; [exact Hf | split; [lia | exact (proj2 Hf)] |].
      intros j Hj Hbad. destruct (bad_inv j Hbad) as [i [a0 [b0 [a [b [C _]]]]]]. exact (Hf j (Hlt _ _ _ _ _ _ Hj C) Hbad).
  - (* a closing token *)
    cbv zeta in Hz. pose proof (find_some _ _ Ef) as [Hzin Hzk]. apply rkey_true in Hzk.
    apply Ho in Hzin as [i0 [Hi0 [Hzn [He0 Hr0]]]]. rewrite Hzk in He0, Hr0.
    pose proof (nth_token rg Hocc i0 z Hzn) as Tz. rewrite Hzk in Tz.
    assert (C0 : clo i0 (tok_atom z) (tok_b z) n (tok_atom t) (tok_b t)) by (exists (tok_r t); auto).
    set (a := tok_atom t) in *. set (a0 := tok_atom z) in *.
    (* both failing outcomes, and the successful one *)
    assert (Hcases : (bad n /\ pbonded (pstep (stn n) t) = pbonded (stn n) /\ pres (pstep (stn n) t) = (n, RBad a a0) :: pres (stn n)) \/
                     (mb n /\ pbonded (pstep (stn n) t) = (a, a0) :: pbonded (stn n) /\ fb (pstep (stn n) t) = fb (stn n))).
    { destruct Hz as [[Hc [Eb Er]] | [Hc [l [rt [Hres [Eb Er]]]]]].
      - rewrite (Hocc n t Ht) in Er. left. split; [|split; [exact Eb | exact Er]]. destruct Hc as [Hc|Hc].
        + apply orb_true_iff in Hc as [Hc|Hc].
          * apply Nat.eqb_eq in Hc. exact (bad_self rg tree _ _ _ _ _ _ C0 Hc).
          * apply (sp_bonded n a a0 Hb) in Hc as [Hc|[i' [x0 [c0 [j' [x [c [Hj [C' [Hs M]]]]]]]]]].
            -- exact (bad_tree rg tree _ _ _ _ _ _ C0 Hc).
            -- exact (bad_again rg tree _ _ _ _ _ _ _ _ _ _ _ _ C0 Hj C' Hs M).
        + apply resolve_none in Hc. exact (bad_kinds rg tree _ _ _ _ _ _ C0 Hc).
      - right. split; [|split; [exact Eb | exact (fb_good _ _ _ _ _ _ _ _ Er)]].
        apply orb_false_iff in Hc as [Hc1 Hc2]. apply Nat.eqb_neq in Hc1.
        assert (Hns : ~ (tree_bonded tree a a0 \/ dup_of n a a0)) by (rewrite <- (sp_bonded n a a0 Hb); congruence).
        apply (mb_intro rg tree _ _ _ _ _ _ C0 Hc1); [tauto | exists l, rt; apply resolve_reconciled; exact Hres |].
        intros i' x0 c0 j' x c Hj C' Hs. destruct (Htot j' i' x0 c0 x c Hj C') as [M|B]; [|exact B].
        exfalso. apply Hns. right. exists i', x0, c0, j', x, c. auto. }
    clear Hz. destruct Hcases as [[Hbad [Eb Er]] | [Hmb [Eb Er]]].
    + assert (Hnm : ~ mb n) by (intros M; exact (mb_not_bad n M Hbad)).
      rewrite Eb, (fb_bad (stn n) n a a0 _ Er). split; [|split].
      * intros x y. rewrite (Hb x y). split; (intros [H|[j [i [b0 [b [Hj [C M]]]]]]]; [left; exact H | right; exists j, i, b0, b]).
        -- split; [lia | auto].
        -- split; [|auto]. destruct (Nat.eq_dec j n) as [->|]; [destruct (Hnm M) | lia].
      * intros j i x0 c0 x c Hj C. destruct (Nat.eq_dec j n) as [->|Hne]; [right; exact Hbad | apply (Htot j i x0 c0 x c); [lia | exact C]].
      * unfold P_first in Hf. destruct (fb (stn n)) as [[occ [p k|x y]]|]; [exact Hf | split; [lia | exact (proj2 Hf)] |].
        split; [lia|]. split; [exact Hbad|]. split; [exact Hf|]. exists i0, (tok_b z), (tok_b t). exact C0.
    + assert (Hnb : ~ bad n) by (intros B; exact (mb_not_bad n Hmb B)).
      rewrite Eb, Er. split; [|split].
      * intros x y. cbn [In]. rewrite (Hb x y). split.
        -- intros [E|[H|[j [i [b0 [b [Hj [C M]]]]]]]].
           ++ inversion E; subst x y. right. exists n, i0, (tok_b z), (tok_b t). split; [lia | auto].
           ++ left. exact H.
           ++ right. exists j, i, b0, b. split; [lia | auto].
        -- intros [H|[j [i [b0 [b [Hj [C M]]]]]]]; [right; left; exact H|].
           destruct (Nat.eq_dec j n) as [->|Hne].
           ++ left. destruct (closure_fun rg _ _ _ _ _ _ _ _ _ _ _ C0 C) as [_ [-> [_ [-> _]]]]. reflexivity.
           ++ right. right. exists j, i, b0, b. split; [lia | auto].
      * intros j i x0 c0 x c Hj C. destruct (Nat.eq_dec j n) as [->|Hne]; [left; exact Hmb | apply (Htot j i x0 c0 x c); [lia | exact C]].
      * unfold P_first in Hf. destruct (fb (stn n)) as [[occ [p k|x y]]|]; [exact Hf | split; [lia | exact (proj2 Hf)] |].
        intros j Hj. destruct (Nat.eq_dec j n) as [->|Hne]; [exact Hnb | apply Hf; lia].
Qed.

Definition inv n := P_opens n /\ P_sorted n /\ P_bonded n /\ P_total n /\ P_first n.
Lemma inv_0 : inv 0.
Proof.
  unfold inv, P_opens, P_sorted, P_bonded, P_total, P_first, stn, fb. cbn [firstn fold_left st0 popens pbonded pres rev find map In].
  split; [|split; [constructor|split; [|split]]].
  - intros t. split; [intros [] | intros [i [Hi _]]; lia].
  - intros x y. split; [intros H; left; exact H | intros [H|[j [i [b0 [b [Hj _]]]]]]; [exact H | lia]].
  - intros j i a0 b0 a b Hj. lia.
  - intros j Hj. lia.
Qed.
Lemma inv_n : forall n, n <= length rg -> inv n.
Proof.
  induction n as [|n IH]; intros Hn; [exact inv_0|].
  destruct (nth_error rg n) as [t|] eqn:Ht; [|apply nth_error_None in Ht; lia].
  destruct (IH ltac:(lia)) as [Ho [Hs [Hb [Htot Hf]]]].
  destruct (step_opens n t Ht Ho Hs) as [Ho' Hs']. destruct (step_rest n t Ht Ho Hb Htot Hf) as [Hb' [Htot' Hf']].
  exact (conj Ho' (conj Hs' (conj Hb' (conj Htot' Hf')))).
Qed.

(* ---------- what pass 2 returns ---------- *)
Theorem pass2_classified : let st := fold_left pstep rg st0 in
  match fb st with
  | Some (occ, RBad a a0) => first_bad_closure rg tree occ a a0
  | Some (_, RMatched _ _) => False
  | None => no_bad_closure rg tree /\ decreasing (map tok_occ (popens st)) /\ forall i, In i (map tok_occ (popens st)) <-> unmatched rg i
  end.
Proof.
  cbv zeta. rewrite <- stn_all. destruct (inv_n (length rg) (le_n _)) as [Ho [Hs [Hb [Htot Hf]]]]. unfold P_first in Hf.
  destruct (fb (stn (length rg))) as [[occ [p k|a a0]]|]; [exact Hf | exact (proj2 Hf) |].
  split; [|split; [exact Hs|]].
  - intros j Hbad. destruct (bad_inv j Hbad) as [i [a0 [b0 [a [b [C _]]]]]]. apply (Hf j); [exact (proj2 (closure_lt rg _ _ _ _ _ _ C)) | exact Hbad].
  - intros i. rewrite (unmatched_rank rg Hocc i), in_map_iff. split.
    + intros [t [Ei Hin]]. apply Ho in Hin as [i' [Hi' [Hn [He Hr]]]]. rewrite (Hocc i' t Hn) in Ei. subst i'.
      exists (tok_atom t), (tok_r t), (tok_b t). split; [exact (nth_token rg Hocc i t Hn) | auto].
    + intros [a [r [b [Ti [He Hr]]]]]. exists (i, a, r, b). split; [reflexivity|]. apply Ho. exists i.
      split; [exact (token_lt rg _ _ _ _ Ti)|]. split; [exact Ti|]. split; [exact He | exact Hr].
Qed.
(* every closure either makes a bond or is bad, never both *)
Theorem closure_decided j i a0 b0 a b : clo i a0 b0 j a b -> (mb j \/ bad j) /\ ~ (mb j /\ bad j).
Proof.
  intros C. split.
  - destruct (inv_n (length rg) (le_n _)) as [_ [_ [_ [Htot _]]]]. exact (Htot j i a0 b0 a b (proj2 (closure_lt rg _ _ _ _ _ _ C)) C).
  - intros [M B]. exact (mb_not_bad j M B).
Qed.
End Inv.
