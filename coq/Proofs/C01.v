(* C01: constitution is preserved by the walk -> builder round trip (graph level), derived from C12. *)
From Coq Require Import List String NArith Lia Bool Arith Permutation.
Import ListNotations.
Require Import P.Generated.Enums P.Spec.Values P.Generated.Tables P.Spec.Events P.Spec.Graph P.Spec.Known P.Spec.Valence P.Model.Base P.Model.Pool P.Model.Walk P.Model.Builder
  P.Proofs.D0 P.Proofs.D1 P.Proofs.D2 P.Proofs.D7 P.Proofs.Stereo P.Proofs.C12_Final.
Local Notation length := List.length.

(* what an atom kind says about constitution: element or wildcard, aromatic flag, isotope, charge, map, hydrogen count *)
Definition constitution (k : kind) : string * bool * option N * option charge * option N * option virtual_hydrogen :=
  match k with
  | AK_Bracket i s _ h g m => (kind_element_name k, kind_aromatic k, i, g, m, h)
  | _ => (kind_element_name k, kind_aromatic k, None, None, None, None)
  end.
Lemma constitution_flip k : constitution (flip_TH k) = constitution k.
Proof. destruct k as [| | |i s [c|] h g m]; try reflexivity. destruct c; reflexivity. Qed.
Lemma constitution_final g gh x : constitution (kind_final g gh x) = constitution (akind (atom_at g x)).
Proof. rewrite kind_final_spec. destruct (par gh x); [destruct (should_flip _); [apply constitution_flip | reflexivity] | reflexivity]. Qed.

Lemma remove_first_perm p l bb : find_to p l = Some bb -> Permutation l (bb :: remove_first_to p l).
Proof.
  induction l as [|a t IH]; cbn [find_to remove_first_to]; [discriminate|]. destruct (Nat.eqb (tid a) p).
  - intros E. inversion E; subst. apply Permutation_refl.
  - intros E. specialize (IH E). eapply Permutation_trans; [apply perm_skip; exact IH | apply perm_swap].
Qed.
Lemma arrival_first_perm g gh x : Permutation (bonds_of g x) (arrival_first g gh x).
Proof.
  unfold arrival_first. destruct (par gh x) as [p|]; [|apply Permutation_refl].
  destruct (find_to p (bonds_of g x)) as [bb|] eqn:E; [apply remove_first_perm; exact E | apply Permutation_refl].
Qed.

(* graph level: the graph rebuilt from the traversal's events is the original one up to the renaming phi, with the
   same constitution at every atom and, at every atom, the same bonds (kind as seen from that atom, renamed target) *)
Theorem roundtrip_graph : forall g h, wf g = true -> safe_graph g -> walk g = (WOk, h) ->
  exists (phi : nat -> nat) g', bld h = BOk g' /\ length g' = length g /\
    (forall x y, x < length g -> y < length g -> phi x = phi y -> x = y) /\ (forall x, x < length g -> phi x < length g) /\
    forall x, x < length g -> exists a', nth_error g' (phi x) = Some a' /\
      constitution (akind a') = constitution (akind (atom_at g x)) /\
      Permutation (bonds a') (map (fun b => {| bk := bk b; tid := phi (tid b) |}) (bonds_of g x)).
Proof.
  intros g h Hwf Hs Hw. destruct (C12_from_wf g h Hwf Hs Hw) as [gh [g' [Hb [Hl [Hnd [Hin Hx]]]]]].
  exists (P.Proofs.D1.phi gh), g'. split; [exact Hb|]. split; [exact Hl|]. split; [|split].
  - intros x y Hx1 Hy1 E. apply (index_of_inj x y (order gh)); [apply Hin; exact Hx1 | apply Hin; exact Hy1 | exact E].
  - intros x Hx1. unfold P.Proofs.D1.phi. pose proof (index_of_lt x (order gh) (proj2 (Hin x) Hx1)) as Hlt.
    assert (length (order gh) = length g).
    { apply Nat.le_antisymm.
      - assert (Hincl : incl (order gh) (seq 0 (length g))) by (intros z Hz; apply in_seq; apply Hin in Hz; lia).
        pose proof (NoDup_incl_length Hnd Hincl) as Hle. rewrite seq_length in Hle. exact Hle.
      - assert (Hincl : incl (seq 0 (length g)) (order gh)) by (intros z Hz; apply in_seq in Hz; apply Hin; lia).
        pose proof (NoDup_incl_length (seq_NoDup (length g) 0) Hincl) as Hle. rewrite seq_length in Hle. exact Hle. }
    lia.
  - intros x Hx1. eexists. split; [apply Hx; exact Hx1|]. cbn [akind bonds]. split; [apply constitution_final|].
    apply Permutation_sym. apply Permutation_map with (f := rename gh). apply arrival_first_perm.
Qed.
