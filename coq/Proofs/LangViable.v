(* C05, token level against the declarative grammar: when a token production of the code reports an error, what it
   has read up to the reported position can be continued to a member of its family (it is a viable prefix of the
   family); at end of input the whole remaining text can.  Lifted through the six fields of a bracket atom. *)
From Coq Require Import String.
From Coq Require Import List NArith Lia Bool Arith.
Import ListNotations.
Require Import P.Generated.Enums P.Meta.Scan P.Spec.Values P.Spec.Reading P.Generated.Trees P.Checks.Reading_defs P.Proofs.Reading
  P.Model.Base P.Model.Token P.Proofs.TokenSafe P.Spec.Lang P.Proofs.LangTrie P.Proofs.LangDigits P.Proofs.LangTokens P.Proofs.LangAtoms.
Strategy opaque [tree_symbol tree_organic tree_configuration tree_charge tree_bond tree_rnum tree_hcount tree_isotope tree_map].

(* ---------- errors of the specification trie ---------- *)
Section ScanErr.
Variable V : Type.
Variable ar : option (outcome V).
Hypothesis ar_plain : match ar with Some (OErrChar _) | Some OErrEol => False | _ => True end.
Notation entries := (list (list char * V)).

Lemma step_nonempty c (es : entries) : mem c (heads V es) = true -> step_entries V c es <> [].
Proof.
  intros Hm. apply mem_In, heads_In in Hm as [t [v Hin]]. apply (step_In V c es t v) in Hin. intros E. rewrite E in Hin. exact Hin.
Qed.
Lemma scan_errchar : forall s (es : entries) pos i n, es <> [] -> scan ar es s pos = (OErrChar i, n) ->
  pos <= i /\ i < pos + length s /\ exists q v, In (firstn (i - pos) s ++ q, v) es.
Proof.
  induction s as [|c s' IH]; intros es pos i n Hne H; cbn [scan] in H.
  - exfalso. unfold stop_out in H. destruct (accepting V es); [discriminate|].
    destruct pos as [|p]; [destruct ar as [[| | | |]|]|]; try discriminate; try contradiction.
  - destruct (mem c (heads V es)) eqn:Hm.
    + destruct (IH _ _ _ _ (step_nonempty c es Hm) H) as [H1 [H2 [q [v Hin]]]]. cbn [length]. split; [lia|]. split; [lia|].
      exists q, v. replace (i - pos) with (S (i - S pos)) by lia. cbn [firstn app]. apply step_In. exact Hin.
    + unfold stop_out in H. destruct (accepting V es); [discriminate|].
      assert (Hi : i = pos).
      { destruct pos as [|p]; [destruct ar as [[| | | |]|]|]; try discriminate; try contradiction; inversion H; reflexivity. }
      subst i. cbn [length]. split; [lia|]. split; [lia|]. rewrite Nat.sub_diag. cbn [firstn app].
      destruct es as [|[k v] es']; [contradiction|]. exists k, v. left. reflexivity.
Qed.
Lemma scan_erreol : forall s (es : entries) pos n, es <> [] -> scan ar es s pos = (OErrEol, n) -> exists q v, In (s ++ q, v) es.
Proof.
  induction s as [|c s' IH]; intros es pos n Hne H; cbn [scan] in H.
  - destruct es as [|[k v] es']; [contradiction|]. exists k, v. left. reflexivity.
  - destruct (mem c (heads V es)) eqn:Hm.
    + destruct (IH _ _ _ (step_nonempty c es Hm) H) as [q [v Hin]]. exists q, v. cbn [app]. apply step_In. exact Hin.
    + exfalso. unfold stop_out in H. destruct (accepting V es); [discriminate|].
      destruct pos as [|p]; [destruct ar as [[| | | |]|]|]; try discriminate; try contradiction.
Qed.
End ScanErr.

(* ---------- a family ---------- *)
Definition Viable (L : list N -> Prop) (t : list N) : Prop := exists q, L (t ++ q).
Definition tok_viable {A} (rd : list N -> tok A) (P : list N -> Prop) : Prop :=
  forall x, (forall j, rd x = TErrChar j -> j < length x /\ Viable P (firstn j x)) /\ (rd x = TErrEol -> Viable P x).

Section Family.
Variable V : Type.
Variable veqb : V -> V -> bool.
Variable tr : tree V.
Variable ar : option (outcome V).
Variable table : list (list N * V).
Hypothesis Hsame : forall s, same veqb (run tr s 0 0) (run (trie_of ar table) s 0 0) = true.
Hypothesis Hne : table <> [].
Hypothesis Hb : bounded_b 8 table = true.
Hypothesis ar_plain : match ar with Some (OErrChar _) | Some OErrEol => False | _ => True end.

Lemma fam_viable : tok_viable (run_tok tr) (key table).
Proof.
  intros x. pose proof (Hsame x) as Hs. pose proof (fam_ro V ar table Hne Hb x) as Hr. unfold ro in Hr.
  unfold same in Hs. apply andb_true_iff in Hs as [Ho _]. unfold run_tok, of_run.
  destruct (r_out (run tr x 0 0)) as [v| | |i|k] eqn:E1; (split; [intros j Hj | intros Hj]); try discriminate;
    try (destruct (Nat.eqb (r_pos (run tr x 0 0)) 0); discriminate).
  - destruct (r_out (run (trie_of ar table) x 0 0)) as [y| | |i'|k'] eqn:E2; try discriminate.
    destruct (scan_erreol V ar ar_plain x table 0 _ Hne (eq_sym Hr)) as [q [v Hin]]. exists q. apply key_entry. exists v. exact Hin.
  - inversion Hj; subst j. destruct (r_out (run (trie_of ar table) x 0 0)) as [y| | |i'|k'] eqn:E2; try discriminate.
    cbn [out_eqb] in Ho. apply Nat.eqb_eq in Ho. subst i'.
    destruct (scan_errchar V ar ar_plain x table 0 i _ Hne (eq_sym Hr)) as [_ [H2 [q [v Hin]]]]. rewrite Nat.sub_0_r in Hin.
    unfold char in *. split; [lia|]. exists q. apply key_entry. exists v. exact Hin.
Qed.
End Family.

Strategy opaque [trie_of heads].
Ltac table_fact := vm_compute; first [reflexivity | discriminate | exact I].
Lemma isotope_viable : tok_viable (run_tok tree_isotope) (key isotope_table).
Proof. apply (fam_viable _ _ _ _ _ isotope_as_documented); table_fact. Qed.
Lemma symbol_viable : tok_viable (run_tok tree_symbol) (key symbol_table).
Proof. apply (fam_viable _ _ _ _ _ symbol_as_documented); table_fact. Qed.
Lemma configuration_viable : tok_viable (run_tok tree_configuration) (key configuration_table).
Proof. apply (fam_viable _ _ _ _ _ configuration_as_documented); table_fact. Qed.
Lemma hcount_viable : tok_viable (run_tok tree_hcount) (key hcount_table).
Proof. apply (fam_viable _ _ _ _ _ hcount_as_documented); table_fact. Qed.
Lemma charge_viable : tok_viable (run_tok tree_charge) (key charge_table).
Proof. apply (fam_viable _ _ _ _ _ charge_as_documented); table_fact. Qed.
Lemma map_viable : tok_viable (run_tok tree_map) (key map_table).
Proof. apply (fam_viable _ _ _ _ _ map_as_documented); table_fact. Qed.
Lemma organic_viable : tok_viable (run_tok tree_organic) (key organic_table).
Proof. apply (fam_viable _ _ _ _ _ organic_as_documented); table_fact. Qed.
Lemma rnum_viable : tok_viable (run_tok tree_rnum) (key rnum_table).
Proof. apply (fam_viable _ _ _ _ _ rnum_as_documented); table_fact. Qed.

(* ---------- sequencing: readers at an offset of a fixed text ---------- *)
Definition seq_opt (P T : list N -> Prop) (x : list N) : Prop := exists f r, opt P f /\ T r /\ x = f ++ r.
Definition seq_req (P T : list N -> Prop) (x : list N) : Prop := exists f r, P f /\ T r /\ x = f ++ r.
Definition Vi {B} (s : list N) (R : nat -> tok B) (T : list N -> Prop) : Prop :=
  forall o, (forall j, R o = TErrChar j -> o <= j /\ j < length s /\ Viable T (firstn (j - o) (skipn o s)))
         /\ (R o = TErrEol -> Viable T (skipn o s)).

Lemma firstn_past {A} (p w : list A) n : length p <= n -> firstn n (p ++ w) = p ++ firstn (n - length p) w.
Proof. intros H. rewrite firstn_app. rewrite firstn_all2 by exact H. reflexivity. Qed.

Lemma Vi_field {A B} (req : bool) (s : list N) (rd : list N -> tok A) P T (k : option A -> nat -> tok B) :
  tok_sound rd P -> tok_viable rd P -> (exists t0, T t0) -> (forall ov, Vi s (k ov) T) ->
  Vi s (fun o => match rd (skipn o s) with
                 | TOk v n => k (Some v) (o + n)
                 | TNo => if req then TPanic else k None o
                 | TErrEol => TErrEol | TErrChar i => TErrChar (o + i) | TPanic => TPanic end)
       (if req then seq_req P T else seq_opt P T).
Proof.
  intros Hs Hv [t0 Ht0] Hk o.
  assert (Hlen : forall j', j' < length (skipn o s) -> o + j' < length s) by (intros j'; rewrite skipn_length; lia).
  destruct (rd (skipn o s)) as [v m| | |j'|] eqn:E.
  - destruct (Hs _ _ _ E) as [p [w [Hx [Hp ->]]]]. pose proof (skipn_more s o p w Hx) as Hw.
    destruct (Hk (Some v) (o + length p)) as [K1 K2]. split.
    + intros j Hj. destruct (K1 j Hj) as [H1 [H2 [q Hq]]]. split; [lia|]. split; [exact H2|].
      exists q. rewrite Hx. rewrite firstn_past by lia. replace (j - o - length p) with (j - (o + length p)) by lia.
      rewrite Hw in Hq. rewrite <- app_assoc. destruct req; exists p, (firstn (j - (o + length p)) w ++ q); auto. split; [right; exact Hp | auto].
    + intros Hj. destruct (K2 Hj) as [q Hq]. exists q. rewrite Hx, <- app_assoc. rewrite Hw in Hq.
      destruct req; exists p, (w ++ q); auto. split; [right; exact Hp | auto].
  - destruct req; [split; [intros j Hj|intros Hj]; discriminate|]. destruct (Hk None o) as [K1 K2]. split.
    + intros j Hj. destruct (K1 j Hj) as [H1 [H2 [q Hq]]]. split; [lia|]. split; [exact H2|]. exists q.
      exists [], (firstn (j - o) (skipn o s) ++ q). split; [left; reflexivity | auto].
    + intros Hj. destruct (K2 Hj) as [q Hq]. exists q. exists [], (skipn o s ++ q). split; [left; reflexivity | auto].
  - split; [intros j Hj; discriminate | intros _]. destruct (Hv (skipn o s)) as [_ V2]. destruct (V2 E) as [q Hq].
    exists (q ++ t0). rewrite app_assoc. destruct req; exists (skipn o s ++ q), t0; auto. split; [right; exact Hq | auto].
  - split; [intros j Hj | intros Hj; discriminate]. inversion Hj; subst j. destruct (Hv (skipn o s)) as [V1 _].
    destruct (V1 j' E) as [H1 [q Hq]]. split; [lia|]. split; [apply Hlen; exact H1|].
    replace (o + j' - o) with j' by lia. exists (q ++ t0). rewrite app_assoc.
    destruct req; exists (firstn j' (skipn o s) ++ q), t0; auto. split; [right; exact Hq | auto].
  - split; [intros j Hj|intros Hj]; discriminate.
Qed.
Lemma Vi_opt {A B} (s : list N) (rd : list N -> tok A) P T (k : option A -> nat -> tok B) :
  tok_sound rd P -> tok_viable rd P -> (exists t0, T t0) -> (forall ov, Vi s (k ov) T) ->
  Vi s (fun o => bind_opt (rd (skipn o s)) o k) (seq_opt P T).
Proof.
  intros Hs Hv Ht Hk o. pose proof (Vi_field false s rd P T k Hs Hv Ht Hk o) as H. cbv beta iota in H.
  unfold bind_opt. destruct (rd (skipn o s)); exact H.
Qed.
Lemma Vi_req {A B} (s : list N) (rd : list N -> tok A) P T (k : A -> nat -> tok B) :
  tok_sound rd P -> tok_viable rd P -> (exists t0, T t0) -> (forall v, Vi s (k v) T) ->
  Vi s (fun o => bind_req (rd (skipn o s)) o k) (seq_req P T).
Proof.
  intros Hs Hv Ht Hk o.
  assert (Hk' : forall ov : option A, Vi s (fun o => match ov with Some v => k v o | None => TPanic end) T).
  { intros [v|]; [apply Hk|]. intros o'. split; [intros j Hj|intros Hj]; discriminate. }
  pose proof (Vi_field true s rd P T (fun ov o => match ov with Some v => k v o | None => TPanic end) Hs Hv Ht Hk' o) as H. cbv beta iota in H.
  unfold bind_req. destruct (rd (skipn o s)); exact H.
Qed.
Lemma Vi_close {B} (s : list N) (f : nat -> B) :
  Vi s (fun o => match skipn o s with c' :: _ => if N.eqb c' RB then TOk (f o) (S o) else TErrChar o | [] => TErrEol end) (eq [RB]).
Proof.
  intros o. destruct (skipn o s) as [|c' l] eqn:E.
  - split; [intros j Hj; discriminate | intros _]. exists [RB]. reflexivity.
  - split; [|destruct (N.eqb c' RB); intros Hj; discriminate]. intros j Hj. destruct (N.eqb c' RB); [discriminate|]. inversion Hj; subst j.
    split; [lia|]. split.
    + assert (Hl : length (skipn o s) = S (length l)) by (rewrite E; reflexivity). rewrite skipn_length in Hl. lia.
    + rewrite Nat.sub_diag. exists [RB]. reflexivity.
Qed.

(* ---------- bracket ---------- *)
Definition BTail : list N -> Prop :=
  seq_opt (key isotope_table) (seq_req Symbol (seq_opt Configuration (seq_opt Hcount (seq_opt Charge (seq_opt (key map_table) (eq [RB])))))).
Lemma bracket_of_tail x : BTail x -> Bracket (LB :: x).
Proof.
  intros [i [r1 [Hi [[sy [r2 [Hsy [[cf [r3 [Hcf [[h [r4 [Hh [[g [r5 [Hg [[m [r6 [Hm [E6 E5]]]] E4]]]] E3]]]] E2]]]] E1]]]] E0]]]].
  subst.
  apply opt_iso in Hi. apply opt_map in Hm.
  exact (bracket i sy cf h g m Hi Hsy Hcf Hh Hg Hm).
Qed.
Lemma opt_nonempty P T : (exists t, T t) -> exists t, seq_opt P T t.
Proof. intros [t Ht]. exists t, [], t. split; [left; reflexivity | auto]. Qed.
Lemma req_nonempty (P T : list N -> Prop) p : P p -> (exists t, T t) -> exists t, seq_req P T t.
Proof. intros Hp [t Ht]. exists (p ++ t), p, t. auto. Qed.
Lemma carbon_symbol : Symbol (str "C"). Proof. apply memk_In. vm_compute. reflexivity. Qed.
Lemma carbon_organic : Organic (str "C"). Proof. apply memk_In. vm_compute. reflexivity. Qed.

Theorem bracket_viable : tok_viable read_bracket Bracket.
Proof.
  intros x. unfold read_bracket. destruct x as [|c0 s0]; [split; [intros j Hj|intros Hj]; discriminate|].
  destruct (N.eqb_spec c0 LB) as [->|]; [|split; [intros j Hj|intros Hj]; discriminate].
  remember (@cons N LB s0) as s eqn:Es.
  assert (N6 : exists t, eq [RB] t) by (eexists; reflexivity).
  assert (N5 := opt_nonempty (key map_table) _ N6). assert (N4 := opt_nonempty Charge _ N5).
  assert (N3 := opt_nonempty Hcount _ N4). assert (N2 := opt_nonempty Configuration _ N3).
  assert (N1 := req_nonempty Symbol _ _ carbon_symbol N2).
  assert (HV : Vi s (fun o =>
      bind_opt (run_tok tree_isotope (skipn o s)) o (fun iso o =>
      bind_req (run_tok tree_symbol (skipn o s)) o (fun sym o =>
      bind_opt (run_tok tree_configuration (skipn o s)) o (fun cfg o =>
      bind_opt (run_tok tree_hcount (skipn o s)) o (fun h o =>
      bind_opt (run_tok tree_charge (skipn o s)) o (fun chg o =>
      bind_opt (run_tok tree_map (skipn o s)) o (fun mp o =>
        match skipn o s with
        | c' :: _ => if N.eqb c' RB then TOk (AK_Bracket iso sym cfg h chg mp) (S o) else TErrChar o
        | [] => TErrEol
        end))))))) BTail).
  { apply (Vi_opt s _ _ _ _ isotope_sound isotope_viable N1). intros iso.
    apply (Vi_req s _ _ _ _ symbol_sound symbol_viable N2). intros sym.
    apply (Vi_opt s _ _ _ _ configuration_sound configuration_viable N3). intros cfg.
    apply (Vi_opt s _ _ _ _ hcount_sound hcount_viable N4). intros h.
    apply (Vi_opt s _ _ _ _ charge_sound charge_viable N5). intros chg.
    apply (Vi_opt s _ _ _ _ map_sound map_viable N6). intros mp.
    apply (Vi_close s (fun o => AK_Bracket iso sym cfg h chg mp)). }
  destruct (HV 1) as [H1 H2]. assert (Es1 : skipn 1 s = s0) by (rewrite Es; reflexivity). split.
  - intros j Hj. destruct (H1 j Hj) as [Hj1 [Hj2 [q Hq]]]. split; [exact Hj2|]. exists q. rewrite Es1 in Hq.
    rewrite Es. replace j with (S (j - 1)) by lia. cbn [firstn app]. apply bracket_of_tail. exact Hq.
  - intros Hj. destruct (H2 Hj) as [q Hq]. exists q. rewrite Es1 in Hq. rewrite Es. cbn [app]. apply bracket_of_tail. exact Hq.
Qed.

(* ---------- atom, rnum ---------- *)
Theorem atom_viable : tok_viable read_atom Atom.
Proof.
  intros x. unfold read_atom.
  assert (Horg : forall (P : tok atom_kind -> Prop), (read_organic x = TErrEol -> P TErrEol) -> (forall j, read_organic x = TErrChar j -> P (TErrChar j)) ->
                 (forall k n, P (TOk k n)) -> P TPanic -> (read_organic x = TNo -> P (match read_bracket x with TNo => read_star x | y => y end)) ->
                 P (match read_organic x with TNo => match read_bracket x with TNo => read_star x | y => y end | y => y end)).
  { intros P A1 A2 A3 A4 A5. destruct (read_organic x) as [k n| | |j|]; auto. }
  apply Horg; clear Horg.
  - intros E. split; [intros j Hj; discriminate | intros _].
    unfold read_organic in E. destruct (run_tok tree_organic x) as [[a|a|] n| | |j|] eqn:Er; try discriminate.
    destruct (organic_viable x) as [_ V2]. destruct (V2 Er) as [q Hq]. exists q. left. exact Hq.
  - intros j E. split; [|intros Hj; discriminate]. intros j' Hj. inversion Hj; subst j'.
    unfold read_organic in E. destruct (run_tok tree_organic x) as [[a|a|] n| | |j'|] eqn:Er; try discriminate. inversion E; subst j'.
    destruct (organic_viable x) as [V1 _]. destruct (V1 j Er) as [Hl [q Hq]]. split; [exact Hl|]. exists q. left. exact Hq.
  - intros k n. split; [intros j Hj|intros Hj]; discriminate.
  - split; [intros j Hj|intros Hj]; discriminate.
  - intros _. destruct (bracket_viable x) as [B1 B2].
    destruct (read_bracket x) as [k n| | |j|] eqn:Eb.
    + split; [intros j Hj|intros Hj]; discriminate.
    + unfold read_star. destruct x as [|c x']; [split; [intros j Hj|intros Hj]; discriminate|].
      destruct (N.eqb c STAR); split; intros; discriminate.
    + split; [intros j Hj; discriminate | intros _]. destruct (B2 eq_refl) as [q Hq]. exists q. right. right. exact Hq.
    + split; [|intros Hj; discriminate]. intros j' Hj. inversion Hj; subst j'. destruct (B1 j eq_refl) as [Hl [q Hq]].
      split; [exact Hl|]. exists q. right. right. exact Hq.
    + split; [intros j Hj|intros Hj]; discriminate.
Qed.
Theorem rnum_read_viable : tok_viable read_rnum Rnum.
Proof.
  intros x. unfold read_rnum. destruct (rnum_viable x) as [V1 V2].
  destruct (run_tok tree_rnum x) as [v n| | |j|] eqn:E; (split; [intros j' Hj|intros Hj]); try discriminate.
  - destruct (V2 eq_refl) as [q Hq]. exists q. apply rnum_keys. exact Hq.
  - inversion Hj; subst j'. destruct (V1 j eq_refl) as [Hl [q Hq]]. split; [exact Hl|]. exists q. apply rnum_keys. exact Hq.
Qed.
