(* The executable oracle of Spec/Grammar.v and the reader model agree on every string: consequences of
   Proofs/GrammarOracleFinal.v (recogniser = declarative grammar) and Proofs/LangFinal.v (reader = declarative grammar). *)
From Coq Require Import String.
From Coq Require Import List NArith Lia Bool Arith.
Import ListNotations.
Require Import P.Meta.Scan P.Model.Base P.Model.Reader P.Spec.Grammar P.Spec.Lang P.Proofs.LangFinal P.Proofs.GrammarOracleFinal.
Strategy opaque [P.Spec.Reading.trie_of P.Generated.Trees.tree_symbol P.Generated.Trees.tree_organic P.Generated.Trees.tree_configuration
  P.Generated.Trees.tree_charge P.Generated.Trees.tree_bond P.Generated.Trees.tree_rnum P.Generated.Trees.tree_hcount
  P.Generated.Trees.tree_isotope P.Generated.Trees.tree_map].

Lemma not_true_false (b : bool) : ~ (b = true) -> b = false.
Proof. destruct b; [intros H; exfalso; apply H; reflexivity | reflexivity]. Qed.

(* C04: the reader accepts exactly what the executable recogniser accepts *)
Theorem reader_accepts_iff_oracle : forall s, fst (rd s) = VOk <-> accepts_spec s = true.
Proof. intros s. rewrite accepts_spec_correct. apply C04_accepts_exactly_the_language. Qed.

(* C05: at a Character(i) verdict the oracle finds the first i characters viable and the first i+1 not *)
Theorem reader_character_oracle : forall s i h, rd s = (VChar i, h) ->
  i < length s /\ viable_spec (firstn i s) = true /\ viable_spec (firstn (S i) s) = false.
Proof.
  intros s i h H. destruct (C05_character s i h H) as [Hl [Hv Hn]]. split; [exact Hl|]. split.
  - apply viable_spec_correct. exact Hv.
  - apply not_true_false. intros Hs. apply Hn. apply viable_spec_correct. exact Hs.
Qed.
Theorem reader_end_of_line_oracle : forall s h, rd s = (VEol, h) -> viable_spec s = true /\ accepts_spec s = false.
Proof.
  intros s h H. destruct (C05_end_of_line s h H) as [Hv Hn]. split.
  - apply viable_spec_correct. exact Hv.
  - apply not_true_false. intros Hs. apply Hn. apply accepts_spec_correct. exact Hs.
Qed.

Print Assumptions accepts_spec_correct.
Print Assumptions viable_spec_correct.
Print Assumptions accepts_spec_smiles.
Print Assumptions reader_accepts_iff_oracle.
Print Assumptions reader_character_oracle.
Print Assumptions reader_end_of_line_oracle.
