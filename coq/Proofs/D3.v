From Coq Require Import List NArith Lia Bool Arith.
Import ListNotations.
Require Import P.Generated.Enums P.Spec.Values P.Generated.Tables P.Model.Base P.Model.Pool P.Proofs.PoolSpec P.Model.Walk P.Model.Builder P.Proofs.D0.

(* ---------- unordered pairs, lookup, remove ---------- *)
Lemma pair_eqb_true p q : pair_eqb p q = true <-> (fst p = fst q /\ snd p = snd q) \/ (fst p = snd q /\ snd p = fst q).
Proof.
  unfold pair_eqb. rewrite orb_true_iff, !andb_true_iff, !Nat.eqb_eq. tauto.
Qed.
Lemma pair_eqb_false p q : pair_eqb p q = false <-> ~ ((fst p = fst q /\ snd p = snd q) \/ (fst p = snd q /\ snd p = fst q)).
Proof.
  rewrite <- pair_eqb_true. destruct (pair_eqb p q).
  - split; [discriminate | intros H; exfalso; apply H; reflexivity].
  - split; [intros _ H; discriminate | reflexivity].
Qed.
Lemma pair_eqb_sym p q : pair_eqb p q = pair_eqb q p.
Proof.
  destruct (pair_eqb p q) eqn:E1, (pair_eqb q p) eqn:E2; try reflexivity.
  - apply pair_eqb_true in E1. apply pair_eqb_false in E2. exfalso. apply E2. intuition.
  - apply pair_eqb_true in E2. apply pair_eqb_false in E1. exfalso. apply E1. intuition.
Qed.
Lemma pair_eqb_swap x y q : pair_eqb q (x, y) = pair_eqb q (y, x).
Proof.
  destruct (pair_eqb q (x, y)) eqn:E1, (pair_eqb q (y, x)) eqn:E2; try reflexivity.
  - apply pair_eqb_true in E1. apply pair_eqb_false in E2. simpl in *. exfalso. apply E2. intuition.
  - apply pair_eqb_true in E2. apply pair_eqb_false in E1. simpl in *. exfalso. apply E1. intuition.
Qed.
Lemma pair_eqb_trans q p p' : pair_eqb q p = true -> pair_eqb q p' = true -> pair_eqb p p' = true.
Proof. rewrite !pair_eqb_true. intros [[? ?]|[? ?]] [[? ?]|[? ?]]; [left|right|right|left]; split; congruence. Qed.

Lemma lookup_sym b x y : lookup b (x, y) = lookup b (y, x).
Proof. induction b as [|[q m] t IH]; simpl; [reflexivity|]. rewrite (pair_eqb_swap x y q). rewrite IH. reflexivity. Qed.
Lemma lookup_entry : forall b p r, lookup b p = Some r -> exists q, In (q, r) b /\ pair_eqb q p = true.
Proof.
  induction b as [|[q m] t IH]; intros p r H; [discriminate|]. simpl in H. destruct (pair_eqb q p) eqn:E.
  - inversion H; subst. exists q. split; [left; reflexivity | exact E].
  - destruct (IH p r H) as [q' [H1 H2]]. exists q'. split; [right; exact H1 | exact H2].
Qed.
Lemma in_lookup : forall b q r p, In (q, r) b -> pair_eqb q p = true -> lookup b p <> None.
Proof.
  induction b as [|[q' m] t IH]; intros q r p H E; [contradiction|]. simpl. destruct (pair_eqb q' p) eqn:E'; [discriminate|].
  destruct H as [H|H]; [inversion H; subst; congruence | eapply IH; eauto].
Qed.
Lemma lookup_remove_other : forall b p p', pair_eqb p p' = false -> lookup (remove b p) p' = lookup b p'.
Proof.
  induction b as [|[q m] t IH]; intros p p' H; [reflexivity|]. simpl. destruct (pair_eqb q p) eqn:E1.
  - destruct (pair_eqb q p') eqn:E2; [|reflexivity]. rewrite (pair_eqb_trans q p p' E1 E2) in H. discriminate.
  - simpl. destruct (pair_eqb q p'); [reflexivity | apply IH; exact H].
Qed.
(* pairwise distinct keys (as unordered pairs) *)
Fixpoint pairs_distinct (b : list ((nat * nat) * N)) : Prop :=
  match b with [] => True | (q, _) :: t => (forall q' r', In (q', r') t -> pair_eqb q q' = false) /\ pairs_distinct t end.
Lemma remove_sub : forall b p e, In e (remove b p) -> In e b.
Proof.
  induction b as [|[q m] t IH]; intros p e H; [contradiction|]. simpl in H. destruct (pair_eqb q p); [right; exact H|].
  destruct H as [<-|H]; [left; reflexivity | right; eapply IH; exact H].
Qed.
Lemma pairs_distinct_remove : forall b p, pairs_distinct b -> pairs_distinct (remove b p).
Proof.
  induction b as [|[q m] t IH]; intros p H; [exact I|]. simpl in *. destruct H as [H1 H2]. destruct (pair_eqb q p); [exact H2|].
  simpl. split; [|apply IH; exact H2]. intros q' r' Hin. eapply H1. eapply remove_sub. exact Hin.
Qed.
Lemma lookup_remove_same : forall b p, pairs_distinct b -> lookup (remove b p) p = None.
Proof.
  induction b as [|[q m] t IH]; intros p H; [reflexivity|]. simpl in *. destruct H as [H1 H2]. destruct (pair_eqb q p) eqn:E.
  - destruct (lookup t p) as [r|] eqn:El; [|reflexivity]. exfalso.
    destruct (lookup_entry t p r El) as [q' [Hin Hq']]. specialize (H1 q' r Hin).
    assert (Ep : pair_eqb p q = true) by (rewrite pair_eqb_sym; exact E).
    assert (Ep' : pair_eqb p q' = true) by (rewrite pair_eqb_sym; exact Hq').
    pose proof (pair_eqb_trans p q q' Ep Ep'). congruence.
  - simpl. rewrite E. apply IH. exact H2.
Qed.
Lemma remove_in_other : forall b p q r, In (q, r) b -> pair_eqb q p = false -> In (q, r) (remove b p).
Proof.
  induction b as [|[q' m] t IH]; intros p q r H E; [contradiction|]. simpl. destruct (pair_eqb q' p) eqn:E'.
  - destruct H as [H|H]; [inversion H; subst; congruence | exact H].
  - destruct H as [H|H]; [left; exact H | right; apply IH; assumption].
Qed.

(* ---------- opens of the builder mirror borrowed of the pool ---------- *)
Section O.
Variable f : nat -> nat.
Definition mirror (b : list ((nat * nat) * N)) : list (rnumN * nat) := map (fun q => (snd q, f (fst (fst q)))) b.
Lemma olookup_fresh : forall b r, ~ In r (nums b) -> olookup (mirror b) r = None.
Proof.
  induction b as [|[q m] t IH]; intros r H; [reflexivity|]. simpl. destruct (N.eqb_spec m r) as [->|Hne].
  - exfalso. apply H. left. reflexivity.
  - apply IH. intros Hin. apply H. right. exact Hin.
Qed.
Lemma olookup_entry : forall b q r, NoDup (nums b) -> In (q, r) b -> olookup (mirror b) r = Some (f (fst q)).
Proof.
  induction b as [|[q' m] t IH]; intros q r Hnd H; [contradiction|]. simpl in *. inversion Hnd as [|? ? Hn Ht]; subst.
  destruct H as [H|H].
  - inversion H; subst. rewrite N.eqb_refl. reflexivity.
  - destruct (N.eqb_spec m r) as [->|Hne]; [exfalso; apply Hn; apply in_map_iff; exists (q, r); split; [reflexivity|exact H]|].
    apply IH; assumption.
Qed.
Lemma oremove_mirror : forall b p r, NoDup (nums b) -> lookup b p = Some r -> oremove (mirror b) r = mirror (remove b p).
Proof.
  induction b as [|[q m] t IH]; intros p r Hnd H; [discriminate|]. simpl in *. inversion Hnd as [|? ? Hn Ht]; subst.
  destruct (pair_eqb q p).
  - inversion H; subst. rewrite N.eqb_refl. reflexivity.
  - destruct (N.eqb_spec m r) as [->|Hne]; [exfalso; apply Hn; eapply lookup_in; exact H|].
    simpl. rewrite (IH p r Ht H). reflexivity.
Qed.
End O.

(* ---------- reconcile on a well-formed closure ---------- *)
Lemma reconcile_wf k : reconcile (reverse k) k = Some (reverse k, k).
Proof. destruct k; reflexivity. Qed.
Lemma reverse_invol k : reverse (reverse k) = k.
Proof. destruct k; reflexivity. Qed.
