(* C02 / C10, step 2: the real builder is the symbolic builder with the ring closures resolved eagerly.  The
   invariant relates the builder's graph to the conversion of the symbolic slots under the pairing of the ring tokens
   seen so far (pass 2 of the specification run on the prefix). *)
From Coq Require Import List NArith Lia Bool Arith.
Import ListNotations.
Require Import P.Generated.Enums P.Spec.Values P.Generated.Tables P.Spec.Events P.Model.Base P.Model.Builder P.Spec.Known
  P.Proofs.C09_Inverse P.Spec.Denote P.Proofs.FollowerSafe P.Proofs.BuilderWf P.Proofs.DenoteSym P.Proofs.DenotePair.

(* ---------- small list facts ---------- *)
Lemma find_app {A} (f : A -> bool) l1 l2 : find f (l1 ++ l2) = match find f l1 with Some x => Some x | None => find f l2 end.
Proof. induction l1 as [|a l1 IH]; cbn [find app]; [reflexivity|]. destruct (f a); [reflexivity | exact IH]. Qed.
Lemma find_none_iff {A} (f : A -> bool) l : find f l = None <-> forall x, In x l -> f x = false.
Proof.
  split; [apply find_none|]. induction l as [|a l IH]; intros H; cbn [find]; [reflexivity|].
  rewrite (H a (or_introl eq_refl)). apply IH. intros x Hx. apply H. right. exact Hx.
Qed.
Lemma nth_error_snoc {A} (l : list A) x o y : nth_error (l ++ [x]) o = Some y ->
  (o < length l /\ nth_error l o = Some y) \/ (o = length l /\ y = x).
Proof.
  intros H. destruct (Nat.lt_ge_cases o (length l)) as [Hlt|Hge].
  - left. rewrite nth_error_app1 in H by exact Hlt. split; assumption.
  - right. rewrite nth_error_app2 in H by exact Hge. destruct (o - length l) as [|j] eqn:E; [|destruct j; discriminate].
    inversion H; subst. split; [lia | reflexivity].
Qed.
Lemma nth_error_ext {A} : forall (l1 l2 : list A), (forall i, nth_error l1 i = nth_error l2 i) -> l1 = l2.
Proof.
  induction l1 as [|a l1 IH]; intros [|b l2] H; [reflexivity | specialize (H 0); discriminate | specialize (H 0); discriminate|].
  pose proof (H 0) as H0. cbn in H0. inversion H0; subst. f_equal. apply IH. intros i. exact (H (S i)).
Qed.
Lemma NoDup_map_eq {A B} (f : A -> B) l x y : NoDup (map f l) -> In x l -> In y l -> f x = f y -> x = y.
Proof.
  induction l as [|a l IH]; intros Hnd Hx Hy E; [destruct Hx|]. cbn [map] in Hnd. inversion Hnd as [|? ? Hn Hnd']; subst.
  destruct Hx as [->|Hx], Hy as [->|Hy]; [reflexivity | | |apply IH; assumption].
  - exfalso. apply Hn. rewrite E. apply in_map. exact Hy.
  - exfalso. apply Hn. rewrite <- E. apply in_map. exact Hx.
Qed.
Lemma NoDup_filter {A} (f : A -> bool) l : NoDup l -> NoDup (filter f l).
Proof.
  induction 1 as [|a l Hn Hnd IH]; cbn [filter]; [constructor|]. destruct (f a); [|exact IH]. constructor; [|exact IH].
  intros Hin. apply filter_In in Hin. tauto.
Qed.
Lemma NoDup_map_filter {A B} (g : A -> B) (f : A -> bool) l : NoDup (map g l) -> NoDup (map g (filter f l)).
Proof.
  induction l as [|a l IH]; cbn [map filter]; intros H; [constructor|]. inversion H as [|? ? Hn Hnd]; subst.
  destruct (f a); [|apply IH; exact Hnd]. cbn [map]. constructor; [|apply IH; exact Hnd].
  intros Hin. apply Hn. apply in_map_iff in Hin as [x [E Hx]]. apply filter_In in Hx as [Hx _]. rewrite <- E. apply in_map. exact Hx.
Qed.

(* ---------- lookups ---------- *)
Lemma lookup_res_cons o1 x res o : lookup_res ((o1, x) :: res) o = if Nat.eqb o1 o then Some x else lookup_res res o.
Proof. unfold lookup_res. cbn [find fst snd]. destruct (Nat.eqb o1 o); reflexivity. Qed.
Lemma lookup_res_fresh res n o : (forall p, In p res -> fst p < n) -> n <= o -> lookup_res res o = None.
Proof.
  intros H Ho. unfold lookup_res. assert (E : find (fun p : nat * resol => Nat.eqb (fst p) o) res = None).
  { apply find_none_iff. intros p Hp. specialize (H p Hp). apply Nat.eqb_neq. lia. }
  rewrite E. reflexivity.
Qed.
Lemma lookup_res_in res o x : lookup_res res o = Some x -> In (o, x) res.
Proof.
  unfold lookup_res. destruct (find (fun p : nat * resol => Nat.eqb (fst p) o) res) as [[o' x']|] eqn:E; [|discriminate].
  intros H. inversion H; subst. apply find_some in E as [Hin He]. cbn in He. apply Nat.eqb_eq in He. subst. exact Hin.
Qed.

Definition okey (o : ringocc) : rnumN * nat := (tok_r o, tok_atom o).
Lemma olookup_map l r : olookup (map okey l) r = option_map tok_atom (find (rkey r) l).
Proof.
  induction l as [|x l IH]; cbn [map olookup find]; [reflexivity|]. unfold okey at 1, rkey at 1.
  destruct (N.eqb (tok_r x) r); [reflexivity | exact IH].
Qed.
Lemma oremove_map l r : NoDup (map tok_r l) -> oremove (map okey l) r = map okey (filter (fun o => negb (rkey r o)) l).
Proof.
  induction l as [|x l IH]; cbn [map oremove filter]; intros Hnd; [reflexivity|]. inversion Hnd as [|? ? Hn Hnd']; subst.
  unfold okey at 1, rkey at 1. destruct (N.eqb_spec (tok_r x) r) as [E|Hne]; cbn [negb].
  - (* removed here; none of the rest has this number *)
    assert (Hf : filter (fun o => negb (rkey r o)) l = l).
    { clear IH Hnd Hnd'. induction l as [|y l IH]; cbn [filter]; [reflexivity|]. unfold rkey at 1.
      destruct (N.eqb_spec (tok_r y) r) as [E2|Hne2].
      - exfalso. apply Hn. left. congruence.
      - cbn [negb]. f_equal. apply IH. intros Hin. apply Hn. right. exact Hin. }
    rewrite Hf. reflexivity.
  - cbn [map]. f_equal. apply IH. exact Hnd'.
Qed.

(* ---------- edge lists ---------- *)
Definition tgt_is (t : nat) (e : edge) : bool := match etgt e with TId n => Nat.eqb n t | TRnum _ _ _ => false end.
Lemma targets_id_app es e t : targets_id (es ++ [e]) t = targets_id es t || tgt_is t e.
Proof. unfold targets_id. rewrite existsb_app. cbn [existsb]. rewrite orb_false_r. reflexivity. Qed.
Lemma targets_id_true es t : targets_id es t = true -> In t (map snd (idl es)).
Proof.
  induction es as [|e es IH]; [cbn; discriminate|]. unfold targets_id. cbn [existsb]. fold (targets_id es t). rewrite idl_cons, map_app.
  intros H. apply orb_true_iff in H as [H|H]; apply in_or_app; [left | right; apply IH; exact H].
  destruct (etgt e); [|discriminate]. apply Nat.eqb_eq in H. subst. left. reflexivity.
Qed.
Lemma replace_ph_targets es r l sid t : forall es', replace_ph es r (fun _ => {| ek := l; etgt := TId sid |}) = Some es' ->
  targets_id es' t = targets_id es t || Nat.eqb sid t.
Proof.
  induction es as [|x es IH]; intros es' H; cbn [replace_ph] in H; [discriminate|].
  unfold targets_id in *. destruct (etgt x) as [n|a b q] eqn:Ex.
  - destruct (replace_ph es r _) as [t'|]; [|discriminate]. inversion H; subst. cbn [existsb]. rewrite Ex. rewrite (IH t' eq_refl).
    rewrite orb_assoc. reflexivity.
  - destruct (N.eqb q r).
    + inversion H; subst. cbn [existsb etgt]. rewrite Ex. cbn [orb]. apply orb_comm.
    + destruct (replace_ph es r _) as [t'|]; [|discriminate]. inversion H; subst. cbn [existsb]. rewrite Ex. cbn [orb]. apply (IH t' eq_refl).
Qed.

(* the first placeholder of a converted slot list *)
Lemma find_ph_map (f : slot -> edge) r : forall sl ph, find_ph (map f sl) r = Some ph ->
  exists s x y, In s sl /\ f s = ph /\ etgt ph = TRnum x y r.
Proof.
  induction sl as [|s sl IH]; intros ph H; cbn [map find_ph] in H; [discriminate|].
  destruct (etgt (f s)) as [n|x y q] eqn:E.
  - destruct (IH ph H) as [s' [x [y [Hin Hs]]]]. exists s', x, y. split; [right; exact Hin | exact Hs].
  - destruct (N.eqb_spec q r) as [->|Hne].
    + inversion H; subst. exists s, x, y. split; [left; reflexivity|]. split; [reflexivity | exact E].
    + destruct (IH ph H) as [s' [x' [y' [Hin Hs]]]]. exists s', x', y'. split; [right; exact Hin | exact Hs].
Qed.
(* replacing the first placeholder numbered r in a converted slot list, when exactly the slot of occurrence occ0
   carries that number *)
Definition is_occ (occ0 : nat) (s : slot) : bool := match s with SRing _ o => Nat.eqb o occ0 | _ => false end.
Lemma replace_ph_map (f g : slot -> edge) r e_new occ0 : forall sl es',
  NoDup (map snd (rings sl)) ->
  (forall s, In s sl -> is_occ occ0 s = true -> (exists x y, etgt (f s) = TRnum x y r) /\ g s = e_new) ->
  (forall s, In s sl -> is_occ occ0 s = false -> g s = f s /\ forall x y, etgt (f s) <> TRnum x y r) ->
  replace_ph (map f sl) r (fun _ => e_new) = Some es' -> es' = map g sl.
Proof.
  induction sl as [|s sl IH]; intros es' Hnd H1 H2 H; cbn [map replace_ph] in H; [discriminate|].
  assert (Hnd' : NoDup (map snd (rings sl))).
  { destruct s; cbn [rings flat_map app map snd] in Hnd; try exact Hnd. inversion Hnd; assumption. }
  destruct (is_occ occ0 s) eqn:Eo.
  - destruct (H1 s (or_introl eq_refl) Eo) as [[x [y Ex]] Eg]. rewrite Ex, N.eqb_refl in H. injection H as <-. cbn [map]. f_equal; [symmetry; exact Eg|].
    apply map_ext_in. intros s' Hs'. symmetry. apply H2; [right; exact Hs'|].
    destruct s as [| |b o]; try discriminate. cbn [is_occ] in Eo. apply Nat.eqb_eq in Eo. subst o.
    destruct s' as [| |b' o']; try reflexivity. cbn [is_occ]. apply Nat.eqb_neq. intros ->.
    cbn [rings flat_map app map snd] in Hnd. inversion Hnd as [|? ? Hn _]; subst. apply Hn.
    apply in_map_iff. exists (b', occ0). split; [reflexivity | apply in_rings; exact Hs'].
  - destruct (H2 s (or_introl eq_refl) Eo) as [Eg Hno].
    assert (Hrec : exists t', replace_ph (map f sl) r (fun _ => e_new) = Some t' /\ es' = f s :: t').
    { destruct (etgt (f s)) as [n|x y q] eqn:E.
      - destruct (replace_ph (map f sl) r _) as [t'|]; [|discriminate]. inversion H; subst. eauto.
      - destruct (N.eqb_spec q r) as [->|Hne]; [exfalso; exact (Hno x y eq_refl)|].
        destruct (replace_ph (map f sl) r _) as [t'|]; [|discriminate]. inversion H; subst. eauto. }
    destruct Hrec as [t' [Ht' ->]]. cbn [map]. f_equal; [symmetry; exact Eg|].
    apply IH; [exact Hnd' | | | exact Ht'].
    + intros s' Hs'. apply H1. right. exact Hs'.
    + intros s' Hs'. apply H2. right. exact Hs'.
Qed.

(* ---------- the pairs already joined ---------- *)
Definition sp (L : list (nat * nat)) (a b : nat) : bool := existsb (fun p => same_pair p a b) L.
Lemma sp_app L1 L2 a b : sp (L1 ++ L2) a b = sp L1 a b || sp L2 a b.
Proof. apply existsb_app. Qed.
Lemma same_pair_iff p a b : same_pair p a b = true <-> (fst p = a /\ snd p = b) \/ (fst p = b /\ snd p = a).
Proof. unfold same_pair. rewrite orb_true_iff, !andb_true_iff, !Nat.eqb_eq. reflexivity. Qed.
Lemma sp_true L a b : sp L a b = true <-> In (a, b) L \/ In (b, a) L.
Proof.
  unfold sp. rewrite existsb_exists. split.
  - intros [[x y] [Hin Hs]]. apply same_pair_iff in Hs. cbn [fst snd] in Hs. destruct Hs as [[-> ->]|[-> ->]]; [left | right]; exact Hin.
  - intros [H|H]; eexists; (split; [exact H|]); apply same_pair_iff; cbn [fst snd]; tauto.
Qed.
Lemma sp_sym L a b : sp L a b = sp L b a.
Proof. apply eq_true_iff_eq. rewrite !sp_true. tauto. Qed.
Lemma sp_bound L n a b : (forall p, In p L -> fst p < n /\ snd p < n) -> n <= a \/ n <= b -> sp L a b = false.
Proof.
  intros H Hn. apply not_true_is_false. intros E. apply sp_true in E. destruct E as [E|E]; apply H in E; cbn [fst snd] in E; lia.
Qed.
(* the tree pairs of the newest node are its own [SPrev] slots *)
Lemma sp_tree_new T nodes n a0 : tree_ok T nodes -> n < length nodes -> a0 <= n ->
  (sp T n a0 = true <-> exists b, In (b, a0) (prevs (slots_at nodes n))).
Proof.
  intros [H1 H2] Hn Ha. rewrite sp_true, <- (H2 n a0 Hn). split; [|tauto]. intros [H|H]; [exact H|]. apply H1 in H. lia.
Qed.

(* ---------- bookkeeping of ring slots, tokens, open table and results ---------- *)
Record book (nodes : list snode) (rg : list ringocc) (st : pst) : Prop := {
  k_keys : NoDup (map tok_r (popens st));
  k_slot_tok : forall i b o, In (b, o) (rings (slots_at nodes i)) -> exists r, nth_error rg o = Some (o, i, r, b);
  k_slot_open : forall i b o, In (b, o) (rings (slots_at nodes i)) -> lookup_res (pres st) o = None -> exists x, In x (popens st) /\ tok_occ x = o;
  k_nodup : forall i, NoDup (map snd (rings (slots_at nodes i)));
  k_open_tok : forall x, In x (popens st) -> nth_error rg (tok_occ x) = Some x;
  k_open_res : forall x, In x (popens st) -> lookup_res (pres st) (tok_occ x) = None;
  k_res_fresh : forall p, In p (pres st) -> fst p < length rg;
  k_tok : forall o x, nth_error rg o = Some x -> tok_occ x = o /\ tok_atom x < length nodes
}.

Lemma book_same_rings nodes nodes1 rg st : book nodes rg st ->
  (forall i, rings (slots_at nodes1 i) = rings (slots_at nodes i)) -> length nodes <= length nodes1 -> book nodes1 rg st.
Proof.
  intros [H1 H2 H3 H4 H5 H6 H7 H8] Hr Hl. constructor; try assumption.
  - intros i b o. rewrite Hr. apply H2.
  - intros i b o. rewrite Hr. apply H3.
  - intros i. rewrite Hr. apply H4.
  - intros o x Hx. destruct (H8 o x Hx). split; [assumption | lia].
Qed.

Lemma rings_upd nodes sid b o i :
  rings (slots_at (upd nodes sid [SRing b o]) i) = if (sid =? i) && (i <? length nodes) then rings (slots_at nodes i) ++ [(b, o)] else rings (slots_at nodes i).
Proof. rewrite slots_at_upd. destruct ((sid =? i) && (i <? length nodes)); [rewrite rings_app|]; reflexivity. Qed.

(* the part of the bookkeeping that does not depend on whether the token opens or closes *)
Lemma book_tokens nodes rg st sid r b : book nodes rg st -> sid < length nodes ->
  let tok := (length rg, sid, r, b) in let nodes1 := upd nodes sid [SRing b (length rg)] in
  (forall i b' o, In (b', o) (rings (slots_at nodes1 i)) -> exists r', nth_error (rg ++ [tok]) o = Some (o, i, r', b')) /\
  (forall i, NoDup (map snd (rings (slots_at nodes1 i)))) /\
  (forall o x, nth_error (rg ++ [tok]) o = Some x -> tok_occ x = o /\ tok_atom x < length nodes1) /\
  (forall i b' o, In (b', o) (rings (slots_at nodes1 i)) -> In (b', o) (rings (slots_at nodes i)) \/ (o = length rg /\ i = sid /\ b' = b)).
Proof.
  intros [H1 H2 H3 H4 H5 H6 H7 H8] Hsid tok nodes1.
  assert (Hold : forall i b' o, In (b', o) (rings (slots_at nodes i)) -> o < length rg).
  { intros i b' o Hin. destruct (H2 i b' o Hin) as [r' E]. apply nth_error_Some. congruence. }
  assert (Hcase : forall i b' o, In (b', o) (rings (slots_at nodes1 i)) -> In (b', o) (rings (slots_at nodes i)) \/ (o = length rg /\ i = sid /\ b' = b)).
  { intros i b' o. unfold nodes1. rewrite rings_upd. destruct (Nat.eqb_spec sid i) as [<-|Hne]; cbn [andb]; [|tauto].
    destruct (sid <? length nodes); [|tauto]. intros Hin. apply in_app_or in Hin as [Hin|[E|[]]]; [tauto|]. inversion E; subst. tauto. }
  repeat split.
  - intros i b' o Hin. destruct (Hcase i b' o Hin) as [Hin'|[-> [-> ->]]].
    + destruct (H2 i b' o Hin') as [r' E]. exists r'. rewrite nth_error_app1 by (apply nth_error_Some; congruence). exact E.
    + exists r. rewrite nth_error_app2, Nat.sub_diag by lia. reflexivity.
  - intros i. unfold nodes1. rewrite rings_upd. destruct ((sid =? i) && (i <? length nodes)); [|apply H4].
    rewrite map_app. cbn [map snd]. apply NoDup_Add with (a := length rg) (l := map snd (rings (slots_at nodes i))).
    + pose proof (Add_app (length rg) (map snd (rings (slots_at nodes i))) []) as HA. rewrite app_nil_r in HA. exact HA.
    + split; [apply H4|]. intros Hin. apply in_map_iff in Hin as [[b' o] [E Hin]]. cbn in E. subst o. specialize (Hold i b' _ Hin). lia.
  - apply nth_error_snoc in H as [[_ H]|[-> ->]]; [apply (H8 o x H) | reflexivity].
  - unfold nodes1. rewrite upd_length. apply nth_error_snoc in H as [[_ H]|[-> ->]]; [apply (H8 o x H) | exact Hsid].
  - exact Hcase.
Qed.

Lemma book_open nodes rg st st1 sid r b : book nodes rg st -> sid < length nodes ->
  find (rkey r) (popens st) = None ->
  popens st1 = (length rg, sid, r, b) :: popens st -> pres st1 = pres st ->
  book (upd nodes sid [SRing b (length rg)]) (rg ++ [(length rg, sid, r, b)]) st1.
Proof.
  intros Hb Hsid Hf Ho Hr. destruct (book_tokens nodes rg st sid r b Hb Hsid) as [T1 [T2 [T3 T4]]].
  destruct Hb as [H1 H2 H3 H4 H5 H6 H7 H8]. constructor; rewrite ?Ho, ?Hr.
  - cbn [map]. constructor; [|exact H1]. intros Hin. apply in_map_iff in Hin as [x [E Hx]].
    pose proof (find_none _ _ Hf x Hx) as Hk. unfold rkey in Hk. cbn [tok_r fst snd] in E. rewrite E, N.eqb_refl in Hk. discriminate.
  - exact T1.
  - intros i b' o Hin Hl. destruct (T4 i b' o Hin) as [Hin'|[-> [-> ->]]].
    + destruct (H3 i b' o Hin' Hl) as [x [Hx Ex]]. exists x. split; [right; exact Hx | exact Ex].
    + eexists. split; [left; reflexivity | reflexivity].
  - exact T2.
  - intros x [<-|Hx].
    + cbn [tok_occ fst]. rewrite nth_error_app2, Nat.sub_diag by lia. reflexivity.
    + rewrite nth_error_app1; [apply H5; exact Hx|]. apply nth_error_Some. rewrite (H5 x Hx). discriminate.
  - intros x [<-|Hx]; [|apply H6; exact Hx]. cbn [tok_occ fst]. apply (lookup_res_fresh _ (length rg)); [exact H7 | lia].
  - intros p Hp. specialize (H7 p Hp). rewrite app_length. lia.
  - exact T3.
Qed.

Lemma book_close nodes rg st st1 sid r b z pa pb : book nodes rg st -> sid < length nodes ->
  find (rkey r) (popens st) = Some z ->
  popens st1 = filter (fun o => negb (rkey r o)) (popens st) ->
  pres st1 = (tok_occ z, pa) :: (length rg, pb) :: pres st ->
  book (upd nodes sid [SRing b (length rg)]) (rg ++ [(length rg, sid, r, b)]) st1.
Proof.
  intros Hb Hsid Hf Ho Hr. destruct (book_tokens nodes rg st sid r b Hb Hsid) as [T1 [T2 [T3 T4]]].
  destruct Hb as [H1 H2 H3 H4 H5 H6 H7 H8].
  apply find_some in Hf as [Hz Hzr]. unfold rkey in Hzr. apply N.eqb_eq in Hzr.
  assert (Hzo : tok_occ z < length rg) by (apply nth_error_Some; rewrite (H5 z Hz); discriminate).
  assert (Hsame : forall x, In x (popens st) -> tok_occ x = tok_occ z -> x = z).
  { intros x Hx E. pose proof (H5 x Hx) as E1. rewrite E, (H5 z Hz) in E1. congruence. }
  constructor; rewrite ?Ho, ?Hr.
  - apply NoDup_map_filter. exact H1.
  - exact T1.
  - intros i b' o Hin Hl. rewrite !lookup_res_cons in Hl. destruct (Nat.eqb_spec (tok_occ z) o) as [|Hne1]; [discriminate|].
    destruct (Nat.eqb_spec (length rg) o) as [|Hne2]; [discriminate|].
    destruct (T4 i b' o Hin) as [Hin'|[-> _]]; [|congruence].
    destruct (H3 i b' o Hin' Hl) as [x [Hx Ex]]. exists x. split; [|exact Ex]. apply filter_In. split; [exact Hx|].
    unfold rkey. destruct (N.eqb_spec (tok_r x) r) as [E|]; [|reflexivity]. exfalso. apply Hne1.
    rewrite <- Ex. f_equal. symmetry. apply (NoDup_map_eq tok_r _ _ _ H1 Hx Hz). congruence.
  - exact T2.
  - intros x Hx. apply filter_In in Hx as [Hx _]. rewrite nth_error_app1; [apply H5; exact Hx|]. apply nth_error_Some. rewrite (H5 x Hx). discriminate.
  - intros x Hx. apply filter_In in Hx as [Hx Hk]. rewrite !lookup_res_cons.
    destruct (Nat.eqb_spec (tok_occ z) (tok_occ x)) as [E|_].
    + exfalso. rewrite (Hsame x Hx (eq_sym E)) in Hk. unfold rkey in Hk. rewrite Hzr, N.eqb_refl in Hk. discriminate.
    + destruct (Nat.eqb_spec (length rg) (tok_occ x)) as [E|_]; [|apply H6; exact Hx].
      exfalso. assert (tok_occ x < length rg) by (apply nth_error_Some; rewrite (H5 x Hx); discriminate). lia.
  - intros p [<-|[<-|Hp]]; rewrite app_length; cbn [fst length]; [lia | lia | specialize (H7 p Hp); lia].
  - exact T3.
Qed.

(* ---------- the graph invariant (while no error has been recorded) ---------- *)
Definition isbad (p : nat * resol) : bool := match snd p with RBad _ _ => true | _ => false end.
Record good (T : list (nat * nat)) (nodes : list snode) (rg : list ringocc) (g : list node) (st : pst) : Prop := {
  g_nobad : forall p, In p (pres st) -> isbad p = false;
  g_graph : g = map (conv_node (pres st) rg) nodes;
  g_bnd : forall a a0 nd, nth_error g a = Some nd -> a0 < length g -> targets_id (edges nd) a0 = sp (pbonded st) a a0;
  g_rp : exists rp, pbonded st = rp ++ T /\ forall p, In p rp -> fst p < length nodes /\ snd p < length nodes;
  g_book : book nodes rg st
}.
Definition in_range (g : list node) : Prop := forall a nd t, nth_error g a = Some nd -> targets_id (edges nd) t = true -> t < length g.
Lemma inv_in_range s : Inv s -> in_range (graph s).
Proof.
  intros [_ Ha] a nd t Hn Ht. apply targets_id_true in Ht. apply in_map_iff in Ht as [[k j] [E Hin]]. cbn in E. subst j.
  apply (ai_rng _ _ Ha a k t). unfold BuilderWf.adj. rewrite Hn. exact Hin.
Qed.

Lemma good_root T nodes rg g st k : good T nodes rg g st -> in_range g -> length g = length nodes ->
  tree_ok T (nodes ++ [(length nodes, k, [])]) ->
  good T (nodes ++ [(length nodes, k, [])]) rg (g ++ [{| nkind := k; edges := [] |}]) st.
Proof.
  intros [G1 G2 G3 [rp [G4 G4']] G5] Hrng Hlen Ht. constructor.
  - exact G1.
  - rewrite map_app, <- G2. reflexivity.
  - intros a a0 nd Hn Ha0. rewrite app_length in Ha0. cbn [length] in Ha0.
    assert (Hnew : forall x, x <= length nodes -> sp (pbonded st) (length nodes) x = false).
    { intros x Hx. rewrite G4, sp_app. rewrite (sp_bound rp (length nodes)) by (auto; lia). cbn [orb].
      apply not_true_is_false. intros E. apply (sp_tree_new T _ _ x Ht) in E; [|rewrite app_length; cbn; lia | lia].
      destruct E as [b E]. rewrite slots_at_snoc, Nat.eqb_refl in E. destruct E. }
    destruct (Nat.lt_ge_cases a (length g)) as [Hlt|Hge].
    + rewrite nth_error_app1 in Hn by exact Hlt. destruct (Nat.eq_dec a0 (length g)) as [->|Hne].
      * rewrite Hlen, sp_sym, Hnew by lia. apply not_true_is_false. intros E. apply (Hrng a nd _ Hn) in E. lia.
      * apply G3; [exact Hn | lia].
    + rewrite nth_error_app2 in Hn by exact Hge. destruct (a - length g) as [|j] eqn:Ej; [|destruct j; discriminate].
      inversion Hn; subst. cbn [edges targets_id existsb]. assert (a = length nodes) by lia. subst a. symmetry. apply Hnew. lia.
  - exists rp. split; [exact G4|]. intros p Hp. rewrite app_length. destruct (G4' p Hp). split; lia.
  - apply (book_same_rings nodes); [exact G5 | | rewrite app_length; lia].
    intros i. rewrite slots_at_snoc. destruct (Nat.eqb_spec i (length nodes)) as [->|]; [|reflexivity]. rewrite slots_at_out by lia. reflexivity.
Qed.

Lemma good_extend T nodes rg g st sid b k' : good T nodes rg g st -> in_range g -> length g = length nodes -> sid < length nodes ->
  tree_ok T (upd nodes sid [SNext b (length nodes)] ++ [(length nodes, k', [SPrev b sid])]) ->
  good T (upd nodes sid [SNext b (length nodes)] ++ [(length nodes, k', [SPrev b sid])]) rg
         (add_edge (g ++ [{| nkind := k'; edges := [{| ek := reverse b; etgt := TId sid |}] |}]) sid {| ek := b; etgt := TId (length g) |}) st.
Proof.
  intros [G1 G2 G3 [rp [G4 G4']] G5] Hrng Hlen Hsid Ht. set (n := length nodes) in *.
  set (nodes1 := upd nodes sid [SNext b n] ++ [(n, k', [SPrev b sid])]) in *.
  assert (Hl1 : length nodes1 = S n) by (unfold nodes1; rewrite app_length, upd_length; cbn; lia).
  assert (Hpv : prevs (slots_at nodes1 n) = [(b, sid)]).
  { unfold nodes1. rewrite slots_at_snoc, upd_length. fold n. rewrite Nat.eqb_refl. reflexivity. }
  assert (Hnew : forall x, x <= n -> (sp (pbonded st) n x = true <-> x = sid)).
  { intros x Hx. rewrite G4, sp_app. rewrite (sp_bound rp n) by (auto; lia). cbn [orb].
    rewrite (sp_tree_new T nodes1 n x Ht) by lia. rewrite Hpv. split.
    - intros [b' [E|[]]]. inversion E; reflexivity.
    - intros ->. exists b. left. reflexivity. }
  constructor.
  - exact G1.
  - rewrite add_edge_app1 by lia. unfold nodes1. rewrite map_app, map_upd, <- G2. cbn [conv_slot map]. rewrite Hlen. reflexivity.
  - intros a a0 nd Hn Ha0. rewrite add_edge_length, app_length in Ha0. cbn [length] in Ha0. rewrite add_edge_nth in Hn.
    destruct (Nat.lt_ge_cases a (length g)) as [Hlt|Hge].
    + rewrite nth_error_app1 in Hn by exact Hlt. destruct (nth_error g a) as [nd0|] eqn:E0; [|discriminate].
      destruct (Nat.eqb_spec sid a) as [<-|Hne]; inversion Hn; subst nd; clear Hn; cbn [edges].
      * rewrite targets_id_app. unfold tgt_is. cbn [etgt]. destruct (Nat.eq_dec a0 (length g)) as [->|Hne0].
        -- rewrite Nat.eqb_refl, orb_true_r. symmetry. rewrite sp_sym, Hlen. apply Hnew; [lia | reflexivity].
        -- destruct (Nat.eqb_spec (length g) a0); [congruence|]. rewrite orb_false_r. apply G3; [exact E0 | lia].
      * destruct (Nat.eq_dec a0 (length g)) as [->|Hne0].
        -- transitivity false; [apply not_true_is_false; intros E; apply (Hrng a nd0 _ E0) in E; lia|].
           symmetry. apply not_true_is_false. intros E. rewrite sp_sym, Hlen in E. apply Hnew in E; [congruence | lia].
        -- apply G3; [exact E0 | lia].
    + assert (Ea : a = n).
      { assert (a < length (g ++ [{| nkind := k'; edges := [{| ek := reverse b; etgt := TId sid |}] |}])) by (apply nth_error_Some; destruct (nth_error _ a); discriminate).
        rewrite app_length in H. cbn [length] in H. lia. }
      subst a. rewrite nth_error_app2 in Hn by lia. replace (n - length g) with 0 in Hn by lia. cbn [nth_error] in Hn.
      destruct (Nat.eqb_spec sid n); [lia|]. inversion Hn; subst nd; clear Hn. cbn [edges targets_id existsb etgt]. rewrite orb_false_r.
      apply eq_true_iff_eq. rewrite Nat.eqb_eq, Hnew by lia. split; congruence.
  - exists rp. split; [exact G4|]. intros p Hp. rewrite Hl1. destruct (G4' p Hp). split; lia.
  - apply (book_same_rings nodes); [exact G5 | | lia].
    intros i. unfold nodes1. rewrite slots_at_snoc, upd_length. destruct (Nat.eqb_spec i (length nodes)) as [->|].
    + rewrite slots_at_out by lia. reflexivity.
    + rewrite slots_at_upd. destruct ((sid =? i) && (i <? length nodes)); [|reflexivity]. rewrite rings_app. cbn. apply app_nil_r.
Qed.

(* old nodes convert the same way after one more token, as long as the results at their occurrences do not change *)
Lemma conv_nodes_old nodes rg st tok res1 : book nodes rg st ->
  (forall i b o, In (b, o) (rings (slots_at nodes i)) -> lookup_res res1 o = lookup_res (pres st) o) ->
  map (conv_node res1 (rg ++ [tok])) nodes = map (conv_node (pres st) rg) nodes.
Proof.
  intros Hb Hres. apply map_ext_in. intros t Ht. apply In_nth_error in Ht as [i Hi]. unfold conv_node. f_equal.
  apply conv_slots_ext. intros b o Hin. assert (Hin' : In (b, o) (rings (slots_at nodes i))) by (unfold slots_at; rewrite Hi; exact Hin).
  split; [apply (Hres i b o Hin')|]. destruct (k_slot_tok _ _ _ Hb i b o Hin') as [r' E]. apply nth_error_app1. apply nth_error_Some. congruence.
Qed.

Lemma good_open T nodes rg g st st1 sid r b : good T nodes rg g st -> length g = length nodes -> sid < length nodes ->
  find (rkey r) (popens st) = None ->
  popens st1 = (length rg, sid, r, b) :: popens st -> pres st1 = pres st -> pbonded st1 = pbonded st ->
  good T (upd nodes sid [SRing b (length rg)]) (rg ++ [(length rg, sid, r, b)]) (add_edge g sid {| ek := b; etgt := TRnum (length rg) sid r |}) st1.
Proof.
  intros [G1 G2 G3 [rp [G4 G4']] G5] Hlen Hsid Hf Ho Hr Hb. constructor.
  - rewrite Hr. exact G1.
  - rewrite map_upd, Hr. rewrite (conv_nodes_old nodes rg st _ (pres st) G5) by reflexivity. rewrite <- G2. f_equal.
    cbn [conv_slot]. rewrite (lookup_res_fresh _ (length rg)) by (try apply (k_res_fresh _ _ _ G5); lia).
    rewrite nth_error_app2, Nat.sub_diag by lia. reflexivity.
  - intros a a0 nd Hn Ha0. rewrite add_edge_length in Ha0. rewrite add_edge_nth in Hn. rewrite Hb.
    destruct (nth_error g a) as [nd0|] eqn:E0; [|discriminate]. destruct (sid =? a); inversion Hn; subst nd; clear Hn; cbn [edges].
    + rewrite targets_id_app. unfold tgt_is. cbn [etgt]. rewrite orb_false_r. apply G3; assumption.
    + apply G3; assumption.
  - exists rp. rewrite Hb, upd_length. split; assumption.
  - apply (book_open nodes rg st); assumption.
Qed.

(* a slot that converts to a placeholder is an open token *)
Lemma ph_slot T nodes rg g st i b' o' x y r : good T nodes rg g st -> In (b', o') (rings (slots_at nodes i)) ->
  etgt (conv_slot (pres st) rg (SRing b' o')) = TRnum x y r -> In (o', i, r, b') (popens st) /\ lookup_res (pres st) o' = None.
Proof.
  intros [G1 _ _ _ G5] Hin H. destruct (k_slot_tok _ _ _ G5 i b' o' Hin) as [r' Etok]. cbn [conv_slot] in H.
  destruct (lookup_res (pres st) o') as [[p k|c d]|] eqn:El.
  - discriminate.
  - apply lookup_res_in in El. apply G1 in El. discriminate.
  - rewrite Etok in H. cbn [etgt tok_r tok_atom fst snd] in H. injection H as _ _ E3. subst r'. split; [|reflexivity].
    destruct (k_slot_open _ _ _ G5 i b' o' Hin El) as [xx [Hx Ex]]. pose proof (k_open_tok _ _ _ G5 xx Hx) as E. rewrite Ex, Etok in E.
    injection E as <-. exact Hx.
Qed.

Section Close.
Variables (T : list (nat * nat)) (nodes : list snode) (rg : list ringocc) (g : list node) (st : pst) (sid : nat) (r : rnumN) (b : bond_kind) (z : ringocc).
Hypotheses (Hg : good T nodes rg g st) (Hlen : length g = length nodes) (Hsid : sid < length nodes) (Hf : find (rkey r) (popens st) = Some z).
Let t := tok_atom z.

Lemma close_z : In z (popens st) /\ tok_r z = r /\ nth_error rg (tok_occ z) = Some z /\ tok_occ z < length rg /\ t < length nodes /\ lookup_res (pres st) (tok_occ z) = None.
Proof.
  destruct Hg as [_ _ _ _ G5]. apply find_some in Hf as [Hz Hzr]. unfold rkey in Hzr. apply N.eqb_eq in Hzr.
  pose proof (k_open_tok _ _ _ G5 z Hz) as E. split; [exact Hz|]. split; [exact Hzr|]. split; [exact E|].
  split; [apply nth_error_Some; congruence|]. split; [apply (k_tok _ _ _ G5 _ _ E) | apply (k_open_res _ _ _ G5 z Hz)].
Qed.
Lemma close_same i b' o' : In (o', i, r, b') (popens st) -> (o', i, r, b') = z.
Proof.
  destruct close_z as [Hz [Hzr _]]. intros Hx. apply (NoDup_map_eq tok_r (popens st)); [apply (k_keys _ _ _ (g_book _ _ _ _ _ Hg)) | exact Hx | exact Hz | rewrite Hzr; reflexivity].
Qed.

Lemma close_ph nd ph : nth_error g t = Some nd -> find_ph (edges nd) r = Some ph -> ek ph = tok_b z.
Proof.
  intros Hn Hph. rewrite (g_graph _ _ _ _ _ Hg), nth_error_map in Hn. destruct (nth_error nodes t) as [t0|] eqn:E0; [|discriminate].
  inversion Hn; subst nd; clear Hn. cbn [conv_node edges] in Hph.
  destruct (find_ph_map _ _ _ _ Hph) as [s [x [y [Hin [Es Et]]]]]. subst ph.
  destruct s as [b' p|b' p|b' o']; try discriminate.
  assert (Hin' : In (b', o') (rings (slots_at nodes t))) by (unfold slots_at; rewrite E0; apply in_rings; exact Hin).
  destruct (ph_slot _ _ _ _ _ _ _ _ _ _ _ Hg Hin' Et) as [Hx Hl]. pose proof (close_same _ _ _ Hx) as Ez.
  destruct close_z as [_ [_ [Ez2 _]]]. cbn [conv_slot]. rewrite Hl. rewrite <- Ez. cbn [tok_b snd].
  destruct (k_slot_tok _ _ _ (g_book _ _ _ _ _ Hg) t b' o' Hin') as [r' Etok]. rewrite Etok. reflexivity.
Qed.

Variables (l rt : bond_kind) (st1 : pst).
Hypotheses (Ho : popens st1 = filter (fun o => negb (rkey r o)) (popens st))
           (Hb : pbonded st1 = (sid, t) :: pbonded st)
           (Hr : pres st1 = (tok_occ z, RMatched sid l) :: (length rg, RMatched t rt) :: pres st).
Let tok : ringocc := (length rg, sid, r, b).

Lemma close_lookup_other o : o <> tok_occ z -> o < length rg -> lookup_res (pres st1) o = lookup_res (pres st) o.
Proof.
  intros H1 H2. rewrite Hr, !lookup_res_cons. destruct (Nat.eqb_spec (tok_occ z) o); [congruence|]. destruct (Nat.eqb_spec (length rg) o); [lia | reflexivity].
Qed.
Lemma close_slot_lt i b' o' : In (b', o') (rings (slots_at nodes i)) -> o' < length rg.
Proof. intros Hin. destruct (k_slot_tok _ _ _ (g_book _ _ _ _ _ Hg) i b' o' Hin) as [r' E]. apply nth_error_Some. congruence. Qed.

Lemma close_replace t0 es' : nth_error nodes t = Some t0 ->
  replace_ph (map (conv_slot (pres st) rg) (snd t0)) r (fun _ => {| ek := l; etgt := TId sid |}) = Some es' ->
  es' = map (conv_slot (pres st1) (rg ++ [tok])) (snd t0).
Proof.
  intros E0 Hrep. destruct close_z as [Hz [Hzr [Ez [Hzo [Ht Hzl]]]]].
  assert (Hsl : snd t0 = slots_at nodes t) by (unfold slots_at; rewrite E0; reflexivity).
  apply (replace_ph_map (conv_slot (pres st) rg) (conv_slot (pres st1) (rg ++ [tok])) r {| ek := l; etgt := TId sid |} (tok_occ z) (snd t0) es'); [| | |exact Hrep].
  - rewrite Hsl. apply (k_nodup _ _ _ (g_book _ _ _ _ _ Hg)).
  - intros s Hs Ho'. destruct s as [| |b' o']; try discriminate. cbn [is_occ] in Ho'. apply Nat.eqb_eq in Ho'. subst o'. split.
    + cbn [conv_slot]. rewrite Hzl, Ez. cbn [etgt]. rewrite Hzr. eauto.
    + cbn [conv_slot]. rewrite Hr, lookup_res_cons, Nat.eqb_refl. reflexivity.
  - intros s Hs Ho'. destruct s as [b' p|b' p|b' o']; [split; [reflexivity | discriminate] | split; [reflexivity | discriminate] |].
    cbn [is_occ] in Ho'. apply Nat.eqb_neq in Ho'.
    assert (Hin' : In (b', o') (rings (slots_at nodes t))) by (rewrite <- Hsl; apply in_rings; exact Hs).
    pose proof (close_slot_lt _ _ _ Hin') as Hlt. split.
    + cbn [conv_slot]. rewrite (close_lookup_other o' Ho' Hlt), nth_error_app1 by exact Hlt. reflexivity.
    + intros x y Et. destruct (ph_slot _ _ _ _ _ _ _ _ _ _ _ Hg Hin' Et) as [Hx _]. apply close_same in Hx. apply Ho'. rewrite <- Hx. reflexivity.
Qed.

Lemma good_close snd_ nd es' : nth_error g sid = Some snd_ -> nth_error g t = Some nd -> sid <> t ->
  replace_ph (edges nd) r (fun _ => {| ek := l; etgt := TId sid |}) = Some es' ->
  good T (upd nodes sid [SRing b (length rg)]) (rg ++ [tok])
       (add_edge (set_nth g t {| nkind := nkind nd; edges := es' |}) sid {| ek := rt; etgt := TId t |}) st1.
Proof.
  intros Hns Hnt Hne Hrep. destruct close_z as [Hz [Hzr [Ez [Hzo [Ht Hzl]]]]]. pose proof Hg as [G1 G2 G3 [rp [G4 G4']] G5].
  assert (Htg : t < length g) by (apply nth_error_Some; congruence).
  constructor.
  - rewrite Hr. intros p [<-|[<-|Hp]]; [reflexivity | reflexivity | apply G1; exact Hp].
  - rewrite map_upd. f_equal.
    + apply nth_error_ext. intros i. rewrite nth_error_set_nth, nth_error_map. destruct (Nat.eqb_spec t i) as [<-|Hti].
      * destruct (Nat.ltb_spec t (length g)); [|lia]. rewrite G2, nth_error_map in Hnt. destruct (nth_error nodes t) as [t0|] eqn:E0; [|discriminate].
        inversion Hnt; subst nd; clear Hnt. cbn [option_map] in *. unfold conv_node in *. cbn [nkind edges] in *. f_equal. f_equal. apply (close_replace t0 es' E0 Hrep).
      * rewrite G2, nth_error_map. destruct (nth_error nodes i) as [ti|] eqn:Ei; [|reflexivity]. cbn [option_map]. f_equal. unfold conv_node. f_equal.
        symmetry. apply conv_slots_ext. intros b' o' Hin. assert (Hin' : In (b', o') (rings (slots_at nodes i))) by (unfold slots_at; rewrite Ei; exact Hin).
        pose proof (close_slot_lt _ _ _ Hin') as Hlt. split; [|apply nth_error_app1; exact Hlt]. apply close_lookup_other; [|exact Hlt].
        intros ->. destruct (k_slot_tok _ _ _ G5 i b' _ Hin') as [r' E]. rewrite Ez in E. injection E as E. apply Hti. unfold t. rewrite E. reflexivity.
    + cbn [conv_slot]. rewrite Hr, !lookup_res_cons. destruct (Nat.eqb_spec (tok_occ z) (length rg)); [lia|]. rewrite Nat.eqb_refl. reflexivity.
  - intros a a0 nd' Hn Ha0. rewrite add_edge_length, set_nth_length in Ha0. rewrite add_edge_nth, nth_error_set_nth in Hn. rewrite Hb.
    unfold sp. cbn [existsb]. fold (sp (pbonded st) a a0). unfold same_pair. cbn [fst snd].
    destruct (Nat.eqb_spec t a) as [<-|Hta].
    + destruct (Nat.ltb_spec t (length g)); [|lia]. destruct (Nat.eqb_spec sid t); [congruence|]. inversion Hn; subst nd'; clear Hn. cbn [edges].
      rewrite (replace_ph_targets _ _ _ _ a0 _ Hrep), (G3 t a0 nd Hnt Ha0), andb_true_r, andb_false_l. cbn [orb]. apply orb_comm.
    + destruct (nth_error g a) as [nd0|] eqn:E0; [|discriminate]. destruct (Nat.eqb_spec sid a) as [<-|Hsa]; inversion Hn; subst nd'; clear Hn; cbn [edges].
      * rewrite targets_id_app. unfold tgt_is. cbn [etgt]. rewrite (G3 sid a0 nd0 E0 Ha0). destruct (Nat.eqb_spec t sid); [congruence|].
        rewrite andb_false_r, orb_false_r. cbn [andb]. apply orb_comm.
      * rewrite (G3 a a0 nd0 E0 Ha0). destruct (Nat.eqb_spec t a); [congruence|]. rewrite andb_false_r. reflexivity.
  - exists ((sid, t) :: rp). rewrite Hb, G4, upd_length. split; [reflexivity|]. intros p [<-|Hp]; [cbn [fst snd]; split; assumption | apply G4'; exact Hp].
  - apply (book_close nodes rg st st1 sid r b z (RMatched sid l) (RMatched t rt)); assumption.
Qed.
End Close.
