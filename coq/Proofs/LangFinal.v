(* C04 and C05 against the declarative grammar of Spec/Lang.v: the statements, for every string. *)
From Coq Require Import String.
From Coq Require Import List NArith Lia Bool Arith.
Import ListNotations.
Require Import P.Meta.Scan P.Model.Base P.Model.Reader P.Spec.Lang
  P.Proofs.LangSound P.Proofs.LangComplete P.Proofs.LangBNF P.Proofs.LangViableReader P.Proofs.LangLocalReader.

(* C04: the reader accepts exactly the documented language *)
Theorem C04_sound : forall s h, rd s = (VOk, h) -> Lang s.
Proof. exact reader_sound. Qed.
Theorem C04_complete : forall s, Lang s -> fst (rd s) = VOk.
Proof. exact reader_complete. Qed.
Corollary C04_accepts_exactly_the_language : forall s, fst (rd s) = VOk <-> Lang s.
Proof.
  intros s. split; [|apply reader_complete]. intros H. apply (reader_sound s (snd (rd s))). rewrite <- H. destruct (rd s); reflexivity.
Qed.
Corollary C04_accepts_exactly_the_documented_productions : forall s, fst (rd s) = VOk <-> Smiles s.
Proof. intros s. rewrite smiles_is_lang. apply C04_accepts_exactly_the_language. Qed.

(* C05: the reported cursor is the first position at which the input stops being a viable prefix *)
Theorem C05_character : forall s i h, rd s = (VChar i, h) ->
  i < length s /\ viable (firstn i s) /\ ~ viable (firstn (S i) s).
Proof.
  intros s i h H. destruct (error_prefix_viable s h) as [H1 _]. destruct (H1 i H) as [Hl Hv].
  split; [exact Hl|]. split; [exact Hv|]. intros [q Hq].
  pose proof (reader_complete _ Hq) as Hok.
  assert (Hpre : firstn (S i) (firstn (S i) s ++ q) = firstn (S i) s).
  { rewrite firstn_app, firstn_firstn, Nat.min_id. rewrite firstn_length. replace (S i - Nat.min (S i) (length s)) with 0 by lia.
    cbn [firstn]. apply app_nil_r. }
  pose proof (char_verdict_local s _ i h H Hpre) as Hloc. unfold char in *. rewrite Hloc in Hok. discriminate.
Qed.
Theorem C05_end_of_line : forall s h, rd s = (VEol, h) -> viable s /\ ~ Lang s.
Proof.
  intros s h H. destruct (error_prefix_viable s h) as [_ H2]. split; [exact (H2 H)|].
  intros HL. pose proof (reader_complete s HL) as Hok. rewrite H in Hok. discriminate.
Qed.
(* no other verdicts exist: VPanic and VFuel are excluded by Proofs/ReaderSafe.reader_safe *)

Print Assumptions C04_sound.
Print Assumptions C04_complete.
Print Assumptions C04_accepts_exactly_the_documented_productions.
Print Assumptions C05_character.
Print Assumptions C05_end_of_line.
