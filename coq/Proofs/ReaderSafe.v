(* C06, reader: for every input string the reader model neither panics nor runs out of fuel (its loops terminate:
   every iteration that continues consumes input; recursion depth is bounded by the input length). *)
From Coq Require Import List NArith Lia Bool Arith.
Import ListNotations.
Require Import P.Generated.Enums P.Spec.Values P.Meta.Scan P.Meta.ScanMeta P.Generated.Trees P.Model.Base P.Model.Token P.Model.Reader P.Proofs.TokenSafe.

(* keep the kernel from unfolding the (large) learned tries during conversion checks; vm_compute is not affected *)
Strategy opaque [tree_symbol tree_organic tree_configuration tree_charge tree_bond tree_rnum tree_hcount tree_isotope tree_map].
(* a run never consumes more than there is *)
Lemma run_pos_le {V} (t : tree V) : forall s pos pk, r_pos (run t s pos pk) <= pos + length s.
Proof.
  induction t as [o | t IH | te IHe tc IHc | p ty IHy tn IHn]; intros s pos pk; cbn [run].
  - simpl. lia.
  - destruct s as [|c s]; [specialize (IH [] pos (Nat.max pk (S pos))) | specialize (IH s (S pos) (Nat.max pk (S pos)))]; simpl in *; lia.
  - destruct s as [|c s]; [apply IHe | apply IHc].
  - destruct s as [|c s]; [apply IHn|]. destruct (pmatch p c); [apply IHy | apply IHn].
Qed.
Lemma run_tok_len {V} (t : tree V) s : match run_tok t s with TOk _ n => n <= length s | _ => True end.
Proof. unfold run_tok, of_run. pose proof (run_pos_le t s 0 0). destruct (r_out (run t s 0 0)); try exact I; [simpl in *; lia | destruct (Nat.eqb _ 0); exact I]. Qed.

Lemma bind_opt_len {A B} (t : tok A) off (k : option A -> nat -> tok B) (P : tok B -> Prop) :
  P TErrEol -> (forall i, P (TErrChar i)) -> P TPanic -> (forall v n, P (k v n)) -> P (bind_opt t off k).
Proof. intros. destruct t; cbn [bind_opt]; auto. Qed.
Lemma read_bracket_len s : match read_bracket s with TOk _ n => n <= length s | _ => True end.
Proof.
  unfold read_bracket. destruct s as [|c s']; [exact I|]. destruct (N.eqb c LB); [|exact I].
  set (str := c :: s').
  set (P := fun t : tok kind => match t with TOk _ n => n <= length str | _ => True end).
  change (P (bind_opt (run_tok tree_isotope (skipn 1 str)) 1 (fun iso o =>
      bind_req (run_tok tree_symbol (skipn o str)) o (fun sym o =>
      bind_opt (run_tok tree_configuration (skipn o str)) o (fun cfg o =>
      bind_opt (run_tok tree_hcount (skipn o str)) o (fun h o =>
      bind_opt (run_tok tree_charge (skipn o str)) o (fun chg o =>
      bind_opt (run_tok tree_map (skipn o str)) o (fun mp o =>
        match skipn o str with
        | c' :: _ => if N.eqb c' RB then TOk (AK_Bracket iso sym cfg h chg mp) (S o) else TErrChar o
        | [] => TErrEol end)))))))).
  apply bind_opt_len; try (intros; exact I). intros iso o1.
  destruct (run_tok tree_symbol (skipn o1 str)) as [sym n2| | | |]; cbn [bind_req]; try exact I.
  apply bind_opt_len; try (intros; exact I). intros cfg o3. apply bind_opt_len; try (intros; exact I). intros h o4.
  apply bind_opt_len; try (intros; exact I). intros chg o5. apply bind_opt_len; try (intros; exact I). intros mp o6.
  destruct (skipn o6 str) as [|c' x] eqn:E; [exact I|]. destruct (N.eqb c' RB); [|exact I]. unfold P.
  assert (o6 < length str).
  { destruct (Nat.lt_ge_cases o6 (length str)) as [Hlt|Hge]; [exact Hlt|]. rewrite skipn_all2 in E by exact Hge. discriminate. }
  lia.
Qed.
Lemma read_organic_len s : match read_organic s with TOk _ n => n <= length s | _ => True end.
Proof.
  unfold read_organic. pose proof (run_tok_len tree_organic s) as Ho.
  generalize dependent (run_tok tree_organic s). intros t Ho. destruct t as [[a|a|] n| | | |]; exact Ho || exact I.
Qed.
Lemma read_atom_len s : match read_atom s with TOk _ n => 1 <= n <= length s | TPanic => False | _ => True end.
Proof.
  pose proof (read_atom_sane s) as Hs. unfold read_atom in *.
  pose proof (read_organic_len s) as Ho. generalize dependent (read_organic s). intros to Hs Ho.
  destruct to as [k n| | | |]; try exact I; try contradiction.
  - destruct Hs as [Hs _]. lia.
  - pose proof (read_bracket_len s) as Hb. generalize dependent (read_bracket s). intros tb Hs Hb.
    destruct tb as [k n| | | |]; try exact I; try contradiction.
    + destruct Hs as [Hs _]. lia.
    + unfold read_star in *. destruct s as [|c x]; [exact I|]. destruct (N.eqb c STAR); [cbn [length]; lia | exact I].
Qed.
Lemma read_rnum_len s : match read_rnum s with TOk _ n => 1 <= n <= length s | TPanic => False | _ => True end.
Proof.
  pose proof (read_rnum_sane s) as Hs. unfold read_rnum in *. pose proof (run_tok_len tree_rnum s) as Hl.
  generalize dependent (run_tok tree_rnum s). intros t Hs Hl.
  destruct t as [r n| | | |]; try exact I; try contradiction. destruct Hs as [Hs _]. lia.
Qed.

Definition lr (s : rstate) : nat := length (rest s).
Definition good {A} (s : rstate) (x : rres A * rstate) : Prop :=
  fst x <> RPanic /\ fst x <> RFuel /\ lr (snd x) <= lr s.
Lemma lr_adv s n : lr (adv s n) <= lr s. Proof. unfold lr, adv. cbn [rest]. rewrite skipn_length. lia. Qed.
Lemma lr_adv_lt s n : 1 <= n <= lr s -> lr (adv s n) < lr s. Proof. unfold lr, adv. cbn [rest]. rewrite skipn_length. lia. Qed.
Lemma lr_emit s e : lr (emit s e) = lr s. Proof. reflexivity. Qed.
Lemma miss_good {A} s s0 : lr s <= lr s0 -> good s0 (@missing_character A s, s).
Proof. intros H. unfold good, missing_character. cbn [fst snd]. destruct (rest s); repeat split; try discriminate; exact H. Qed.

Ltac fin := unfold good; cbn [fst snd]; rewrite ?lr_emit; repeat split; try discriminate; try lia.
Lemma read_link_good input s : good s (read_link input s) /\ (fst (read_link input s) = ROk true -> lr (snd (read_link input s)) < lr s).
Proof.
  unfold read_link, good. pose proof (read_atom_len (rest s)) as H. destruct (read_atom (rest s)) as [k n| | | |]; cbn [fst snd tok_err].
  - split; [repeat split; try discriminate; rewrite lr_emit; apply lr_adv | intros _; rewrite lr_emit; apply lr_adv_lt; exact H].
  - split; [fin | discriminate].
  - split; [fin | discriminate].
  - split; [fin | discriminate].
  - contradiction.
Qed.

Section Loop.
Variable rs : option bond_kind -> rstate -> rres (option nat) * rstate.
Variable F : nat.
Hypothesis Hrs : forall input s, lr s < F -> good s (rs input s).

Lemma read_branch_good s : lr s <= F -> good s (read_branch rs s) /\ (fst (read_branch rs s) = ROk true -> lr (snd (read_branch rs s)) < lr s).
Proof.
  intros HF. unfold read_branch. destruct (peek s) as [c|] eqn:Ep; [|split; [fin | discriminate]].
  destruct (N.eqb c LP); [|split; [fin | discriminate]].
  assert (H1 : lr (adv s 1) < lr s) by (apply lr_adv_lt; unfold lr, peek in *; destruct (rest s); [discriminate | simpl; lia]).
  set (r := match peek (adv s 1) with
            | Some c' => if N.eqb c' DOT then rs None (adv (adv s 1) 1) else let '(b, n) := read_bond (rest (adv s 1)) in rs (Some b) (adv (adv s 1) n)
            | None => let '(b, n) := read_bond (rest (adv s 1)) in rs (Some b) (adv (adv s 1) n) end).
  assert (Hr : good (adv s 1) r).
  { unfold r. destruct (peek (adv s 1)) as [c'|].
    - destruct (N.eqb c' DOT).
      + pose proof (lr_adv (adv s 1) 1). destruct (Hrs None (adv (adv s 1) 1) ltac:(lia)) as [A [B C]]. repeat split; try assumption. lia.
      + destruct (read_bond (rest (adv s 1))) as [b n]. pose proof (lr_adv (adv s 1) n). destruct (Hrs (Some b) (adv (adv s 1) n) ltac:(lia)) as [A [B C]]. repeat split; try assumption. lia.
    - destruct (read_bond (rest (adv s 1))) as [b n]. pose proof (lr_adv (adv s 1) n). destruct (Hrs (Some b) (adv (adv s 1) n) ltac:(lia)) as [A [B C]]. repeat split; try assumption. lia. }
  destruct r as [x s2]. destruct Hr as [A [B C]]. cbn [fst snd] in A, B, C.
  destruct x as [[len|]| | | |]; try contradiction.
  - destruct (peek s2) as [c''|].
    + destruct (N.eqb c'' RP).
      * cbn [fst snd]. rewrite lr_emit. pose proof (lr_adv s2 1). split; [fin | intros _; lia].
      * split; [apply miss_good; lia | unfold missing_character; cbn [fst]; destruct (rest s2); discriminate].
    + split; [apply miss_good; lia | unfold missing_character; cbn [fst]; destruct (rest s2); discriminate].
  - split; [apply miss_good; lia | unfold missing_character; cbn [fst]; destruct (rest s2); discriminate].
  - split; [fin | discriminate].
  - split; [fin | discriminate].
Qed.

Lemma loop_good : forall g s acc, lr s < g -> lr s <= F -> good s (loop rs g s acc).
Proof.
  induction g as [|g IH]; intros s acc Hg HF; [lia|]. cbn [loop].
  destruct (read_branch_good s HF) as [Hb Hb2]. destruct (read_branch rs s) as [rb s1]. destruct Hb as [A [B C]]. cbn [fst snd] in A, B, C, Hb2.
  destruct rb as [[|]| | | |]; try contradiction.
  - specialize (Hb2 eq_refl). destruct (IH s1 acc ltac:(lia) ltac:(lia)) as [A1 [B1 C1]]. repeat split; try assumption. lia.
  - destruct (match peek s1 with Some c => N.eqb c DOT | None => false end) eqn:Edot.
    + assert (H1 : lr (adv s1 1) < lr s1).
      { apply lr_adv_lt. unfold lr, peek in *. destruct (rest s1); [discriminate | simpl; lia]. }
      destruct (read_link_good None (adv s1 1)) as [Hl Hl2]. destruct (read_link None (adv s1 1)) as [rl s2]. destruct Hl as [A1 [B1 C1]]. cbn [fst snd] in *.
      destruct rl as [[|]| | | |]; try contradiction.
      * specialize (Hl2 eq_refl). destruct (IH s2 (S acc) ltac:(lia) ltac:(lia)) as [A2 [B2 C2]]. repeat split; try assumption. lia.
      * apply miss_good. lia.
      * fin.
      * fin.
    + destruct (read_bond (rest s1)) as [b n]. pose proof (lr_adv s1 n) as Hn.
      destruct (read_link_good (Some b) (adv s1 n)) as [Hl Hl2]. destruct (read_link (Some b) (adv s1 n)) as [rl s2]. destruct Hl as [A1 [B1 C1]]. cbn [fst snd] in *.
      destruct rl as [[|]| | | |]; try contradiction.
      * specialize (Hl2 eq_refl). destruct (IH s2 (S acc) ltac:(lia) ltac:(lia)) as [A2 [B2 C2]]. repeat split; try assumption. lia.
      * pose proof (read_rnum_len (rest s2)) as Hr. destruct (read_rnum (rest s2)) as [r m| | | |]; cbn [tok_err]; try contradiction.
        -- pose proof (lr_adv_lt s2 m Hr). destruct (IH (emit (adv s2 m) (RJoin b r (pos s1) (pos s2) (pos (adv s2 m)))) acc) as [A2 [B2 C2]]; [rewrite lr_emit; lia | rewrite lr_emit; lia|].
           rewrite lr_emit in C2. repeat split; try assumption. lia.
        -- destruct (bondk_eqb b BK_Elided); [fin | apply miss_good; lia].
        -- fin.
        -- fin.
      * fin.
      * fin.
  - fin.
  - fin.
Qed.
End Loop.

Lemma read_smiles_good : forall f d input s, lr s < f -> good s (read_smiles f d input s).
Proof.
  induction f as [|f IH]; intros d input s Hf; [lia|]. cbn [read_smiles].
  set (s0 := {| rest := rest s; pos := pos s; out := out s; maxd := Nat.max (maxd s) (S d) |}).
  assert (E0 : lr s0 = lr s) by reflexivity.
  destruct (read_link_good input s0) as [Hl Hl2]. destruct (read_link input s0) as [rl s1]. destruct Hl as [A [B C]]. cbn [fst snd] in *.
  destruct rl as [[|]| | | |]; try contradiction.
  - specialize (Hl2 eq_refl).
    destruct (loop_good (read_smiles f (S d)) f (fun input s H => IH (S d) input s H) (S (length (rest s1))) s1 1) as [A1 [B1 C1]]; [unfold lr; lia | lia|].
    repeat split; try assumption. lia.
  - fin.
  - fin.
  - fin.
Qed.

Theorem reader_safe : forall s, fst (rd s) <> VPanic /\ fst (rd s) <> VFuel.
Proof.
  intros s. unfold rd, read, read_from.
  set (s0 := {| rest := s; pos := 0; out := []; maxd := 0 |}).
  pose proof (read_smiles_good (S (length s)) 0 None s0 ltac:(unfold lr; simpl; lia)) as [A [B _]].
  destruct (read_smiles (S (length s)) 0 None s0) as [r s1]. cbn [fst snd r_verdict] in *.
  destruct r as [[n|]| | | |]; try contradiction; split; try discriminate; destruct (rest s1); discriminate.
Qed.
