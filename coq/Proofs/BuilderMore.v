(* Two further facts on the builder model.
   1. A successful build means the joins of the history were matched (Spec/Events.v, [joins_matched]).
   2. The builder commutes with the reading shorthands: feeding the history with normalised kinds ([nkev]) yields the
      graph with normalised kinds, outside the known class on which invert_configuration is unimplemented. *)
From Coq Require Import List NArith Lia Bool Arith.
Import ListNotations.
Require Import P.Generated.Enums P.Spec.Values P.Generated.Tables P.Spec.Events P.Spec.Known P.Spec.Normal
  P.Model.Base P.Model.Builder P.Proofs.WalkInv P.Proofs.FollowerSafe P.Proofs.BuilderWf P.Proofs.C09_Writer.

(* ====================================================================================================== *)
(* 1. build ok -> joins matched                                                                            *)
(* ====================================================================================================== *)

(* the specification's table of open numbers and the builder's association list are the same list: lookup by [find]
   is [olookup], and with unique keys removal by [filter] is [oremove] *)
Lemma find_olookup o r :
  match olookup o r with
  | Some a => exists q, find (fun p : N * nat => N.eqb (fst p) r) o = Some (q, a)
  | None => find (fun p : N * nat => N.eqb (fst p) r) o = None
  end.
Proof.
  induction o as [|[q n] t IH]; cbn [olookup find fst]; [reflexivity|].
  destruct (N.eqb q r); [exists q; reflexivity | exact IH].
Qed.
Lemma filter_notin (o : list (N * nat)) r : ~ In r (keys o) -> filter (fun p => negb (N.eqb (fst p) r)) o = o.
Proof.
  induction o as [|[q n] t IH]; intros H; cbn [filter fst]; [reflexivity|]. cbn [keys map fst] in H.
  destruct (N.eqb_spec q r) as [->|Hne]; [exfalso; apply H; left; reflexivity|]. cbn [negb]. f_equal. apply IH.
  intros Hin. apply H. right. exact Hin.
Qed.
Lemma filter_oremove o r : NoDup (keys o) -> filter (fun p : N * nat => negb (N.eqb (fst p) r)) o = oremove o r.
Proof.
  induction o as [|[q n] t IH]; intros Hnd; cbn [filter oremove fst]; [reflexivity|]. cbn [keys map fst] in Hnd.
  inversion Hnd as [|? ? Hn Ht]; subst. destruct (N.eqb_spec q r) as [->|Hne]; cbn [negb].
  - apply filter_notin. exact Hn.
  - f_equal. apply IH. exact Ht.
Qed.

(* errors are only ever appended *)
Lemma bstep_errors s e s' : bstep s e = Some s' -> errors s' = [] -> errors s = [].
Proof.
  destruct e as [k|b k|b r|d]; cbn [bstep]; intros H.
  - inversion H; subst. cbn [errors]. tauto.
  - destruct (bstack s); [discriminate|]. destruct (invert k); [|discriminate]. destruct (nth_error (graph s) n); [|discriminate].
    inversion H; subst. cbn [errors]. tauto.
  - destruct (olookup (opens s) r).
    + destruct (bstack s) as [|sid st]; [discriminate|]. destruct (nth_error (graph s) sid) as [nds|]; [|discriminate].
      destruct (nth_error (graph s) n) as [nd|]; [|discriminate]. destruct (find_ph (edges nd) r) as [ph|]; [|discriminate].
      destruct (Nat.eqb sid n || targets_id (edges nds) n); [inversion H; subst; cbn [errors]; intros E; apply app_eq_nil in E; tauto|].
      destruct (reconcile (ek ph) b) as [[l rt]|]; [|inversion H; subst; cbn [errors]; intros E; apply app_eq_nil in E; tauto].
      destruct (replace_ph (edges nd) r _); [|discriminate]. inversion H; subst. cbn [errors]. tauto.
    + destruct (bstack s) as [|sid st]; [discriminate|]. destruct (nth_error (graph s) sid); [|discriminate].
      inversion H; subst. cbn [errors]. tauto.
  - inversion H; subst. cbn [errors]. tauto.
Qed.
Lemma bfold_errors : forall h s s', bfold s h = Some s' -> errors s' = [] -> errors s = [].
Proof.
  induction h as [|e t IH]; intros s s' H E; cbn [bfold] in H; [inversion H; subst; exact E|].
  destruct (bstep s e) as [s1|] eqn:E1; [|discriminate]. eapply bstep_errors; [exact E1|]. eapply IH; eassumption.
Qed.

(* the simulation: the specification's accumulators are the builder's stack, node count and table of open numbers *)
Lemma joins_sim : forall h s s', binv s -> bfold s h = Some s' -> errors s' = [] -> opens s' = [] ->
  joins_matched_aux h (bstack s) (length (graph s)) (opens s) = true.
Proof.
  induction h as [|e t IH]; intros s s' Hb Hf He Ho; cbn [bfold] in Hf.
  - inversion Hf; subst. cbn [joins_matched_aux]. rewrite Ho. reflexivity.
  - destruct (bstep s e) as [s1|] eqn:E1; [|discriminate].
    assert (Hb1 : binv s1).
    { destruct (bstep_pre s e s1 E1) as [Hp Hi]. destruct (bstep_safe s e Hb Hp Hi) as [s'' [E [Hb' _]]]. congruence. }
    pose proof (IH s1 s' Hb1 Hf He Ho) as IH1. pose proof (bfold_errors _ _ _ Hf He) as He1.
    destruct e as [k|b k|b r|d]; cbn [bstep] in E1; cbn [joins_matched_aux].
    + inversion E1; subst s1. cbn [bstack graph opens] in IH1. rewrite app_length, Nat.add_1_r in IH1. exact IH1.
    + destruct (bstack s) as [|sid st] eqn:Es; [discriminate|]. destruct (invert k) as [k'|]; [|discriminate].
      destruct (nth_error (graph s) sid) as [nds|]; [|discriminate]. inversion E1; subst s1.
      cbn [bstack graph opens] in IH1. rewrite add_edge_length, app_length, Nat.add_1_r in IH1. exact IH1.
    + pose proof (find_olookup (opens s) r) as Hfind. destruct (olookup (opens s) r) as [a|] eqn:El.
      * destruct Hfind as [q Hfind]. destruct (bstack s) as [|sid st] eqn:Es; [discriminate|]. rewrite Hfind.
        destruct (nth_error (graph s) sid) as [nds|]; [|discriminate].
        destruct (nth_error (graph s) a) as [nd|]; [|discriminate]. destruct (find_ph (edges nd) r) as [ph|]; [|discriminate].
        destruct (Nat.eqb sid a || targets_id (edges nds) a) eqn:Eb.
        { inversion E1; subst s1. cbn [errors] in He1. apply app_eq_nil in He1. destruct He1 as [_ He1]. discriminate. }
        destruct (reconcile (ek ph) b) as [[l rt]|].
        2:{ inversion E1; subst s1. cbn [errors] in He1. apply app_eq_nil in He1. destruct He1 as [_ He1]. discriminate. }
        destruct (replace_ph (edges nd) r _) as [es'|]; [|discriminate]. inversion E1; subst s1.
        cbn [bstack graph opens] in IH1. rewrite add_edge_length, set_nth_length in IH1.
        apply orb_false_iff in Eb as [Eb _]. rewrite Nat.eqb_sym, Eb. cbn [negb andb].
        rewrite (filter_oremove _ _ (bi_keys _ Hb)). exact IH1.
      * destruct (bstack s) as [|sid st] eqn:Es; [discriminate|]. rewrite Hfind.
        destruct (nth_error (graph s) sid) as [nds|]; [|discriminate]. inversion E1; subst s1.
        cbn [bstack graph opens] in IH1. rewrite add_edge_length in IH1. exact IH1.
    + inversion E1; subst s1. cbn [bstack graph opens] in IH1. exact IH1.
Qed.

(* a node that still carries a placeholder edge makes the conversion fail *)
Lemma find_ph_conv_edges es r : find_ph es r <> None -> exists rid, conv_edges es = BLErr rid.
Proof.
  induction es as [|e t IH]; cbn [find_ph conv_edges]; [congruence|]. destruct (etgt e) as [n|a b q]; [|intros _; eexists; reflexivity].
  intros H. destruct (IH H) as [rid ->]. eexists; reflexivity.
Qed.
Lemma conv_nodes_ok_edges : forall ns g i nd, conv_nodes ns = BOk g -> nth_error ns i = Some nd -> exists l, conv_edges (edges nd) = BLOk l.
Proof.
  induction ns as [|n t IH]; intros g i nd H Hn; [destruct i; discriminate|]. cbn [conv_nodes] in H.
  destruct (conv_edges (edges n)) as [l|] eqn:El; [|discriminate]. destruct (conv_nodes t) as [g'| |] eqn:Ec; try discriminate.
  destruct i as [|i]; cbn [nth_error] in Hn; [inversion Hn; subst; eexists; exact El | eapply IH; [reflexivity | exact Hn]].
Qed.
Lemma build_ok_opens s g : binv s -> build s = BOk g -> errors s = [] /\ opens s = [].
Proof.
  intros Hb H. unfold build in H. destruct (errors s) eqn:Ee; [|discriminate]. split; [reflexivity|].
  destruct (opens s) as [|[r t] o] eqn:Eo; [reflexivity|]. exfalso.
  destruct (bi_open _ Hb r t) as [nd [Hn Hf]]; [rewrite Eo; cbn [olookup]; rewrite N.eqb_refl; reflexivity|].
  destruct (conv_nodes_ok_edges _ _ _ _ H Hn) as [l Hl]. destruct (find_ph_conv_edges _ _ Hf) as [rid Hr]. congruence.
Qed.

Theorem build_ok_joins_matched : forall h g, conformant h = true -> bld h = BOk g -> joins_matched h = true.
Proof.
  intros h g _ H. unfold bld in H. destruct (bfold b0 h) as [s|] eqn:Ef; [|discriminate].
  destruct (bfold_inv h b0 s Inv0 Ef) as [Hb _]. destruct (build_ok_opens s g Hb H) as [He Ho].
  exact (joins_sim h b0 s binv0 Ef He Ho).
Qed.

(* ====================================================================================================== *)
(* 2. the builder commutes with the reading shorthands                                                     *)
(* ====================================================================================================== *)

(* the finite fact: outside the known-panic class, inversion commutes with normalisation of (configuration, hcount) *)
Definition inv_c (c : option configuration) (h : option virtual_hydrogen) : option (option configuration) :=
  match invert_table c h with InvSame => Some c | InvTo c' => Some (Some c') | InvPanic | InvOther => None end.
Lemma invert_inv_c i s c h g m :
  invert (AK_Bracket i s c h g m) = match inv_c c h with Some c' => KOk (AK_Bracket i s c' h g m) | None => KPanic end.
Proof. unfold invert, inv_c. destruct (invert_table c h); reflexivity. Qed.
Definition kp (c : option configuration) (h : option virtual_hydrogen) : bool :=
  match c, h with Some c, Some h => negb (is_TH c) && negb (P.Spec.Spelling.vh_value h =? 0)%N | _, _ => false end.
Lemma inv_c_nk c h : kp c h = false -> inv_c (nk_cfg c) (nk_h h) = option_map nk_cfg (inv_c c h).
Proof.
  assert (H : forallb (fun c => forallb (fun h => kp c h || opt_eqb (opt_eqb configuration_eqb) (inv_c (nk_cfg c) (nk_h h)) (option_map nk_cfg (inv_c c h)))
               (all_option all_virtual_hydrogen)) (all_option all_configuration) = true) by (vm_compute; reflexivity).
  rewrite forallb_forall in H. specialize (H c (all_option_complete _ all_configuration_complete c)).
  rewrite forallb_forall in H. specialize (H h (all_option_complete _ all_virtual_hydrogen_complete h)).
  intros Hk. rewrite Hk in H. cbn [orb] in H. apply (opt_eqb_eq _ (opt_eqb_eq _ configuration_eqb_eq)) in H. exact H.
Qed.
(* inversion does not touch the hydrogen count, so the normalised count of the result is the normalised count *)
Lemma invert_nk k : known_invert_panic k = false ->
  invert (nk_kind k) = match invert k with KOk k' => KOk (nk_kind k') | KPanic => KPanic end.
Proof.
  destruct k as [| | |i s c h g m]; try reflexivity. intros Hk. cbn [nk_kind]. rewrite !invert_inv_c.
  assert (Hkp : kp c h = false) by (destruct c, h; exact Hk). rewrite (inv_c_nk c h Hkp).
  destruct (inv_c c h) as [c'|]; reflexivity.
Qed.

(* the image of a builder state: only the node kinds change *)
Definition nk_node (nd : node) : node := {| nkind := nk_kind (nkind nd); edges := edges nd |}.
Definition nk_state (s : bstate) : bstate :=
  {| bstack := bstack s; graph := map nk_node (graph s); opens := opens s; errors := errors s; rid := rid s |}.
Definition nk_atom (a : atom) : atom := {| akind := nk_kind (akind a); bonds := bonds a |}.

Lemma set_nth_map {A B} (f : A -> B) : forall (l : list A) i x, set_nth (map f l) i (f x) = map f (set_nth l i x).
Proof. induction l as [|a l IH]; intros [|i] x; cbn [map set_nth]; try reflexivity. f_equal. apply IH. Qed.
Lemma add_edge_map g i e : add_edge (map nk_node g) i e = map nk_node (add_edge g i e).
Proof.
  unfold add_edge. rewrite nth_error_map. destruct (nth_error g i) as [nd|]; cbn [option_map]; [|reflexivity].
  rewrite <- set_nth_map. reflexivity.
Qed.

Definition ev_ok (e : ev) : Prop := match e with EExtend _ k => known_invert_panic k = false | _ => True end.

Lemma bstep_nk s e : ev_ok e -> bstep (nk_state s) (nkev e) = option_map nk_state (bstep s e).
Proof.
  destruct e as [k|b k|b r|d]; intros Hok; cbn [nkev bstep nk_state bstack graph opens errors rid ev_ok] in *.
  - rewrite map_length. unfold nk_state. cbn [option_map bstack graph opens errors rid]. rewrite map_app. reflexivity.
  - destruct (bstack s) as [|sid st]; [reflexivity|]. rewrite (invert_nk k Hok). destruct (invert k) as [k'|]; [|reflexivity].
    rewrite nth_error_map. destruct (nth_error (graph s) sid) as [nds|]; cbn [option_map]; [|reflexivity].
    unfold nk_state. cbn [bstack graph opens errors rid]. rewrite map_length. f_equal. f_equal.
    rewrite <- add_edge_map, map_app. reflexivity.
  - destruct (olookup (opens s) r) as [t|].
    + destruct (bstack s) as [|sid st]; [reflexivity|]. rewrite !nth_error_map.
      destruct (nth_error (graph s) sid) as [nds|]; cbn [option_map]; [|reflexivity].
      destruct (nth_error (graph s) t) as [nd|]; cbn [option_map]; [|reflexivity]. cbn [nk_node edges nkind].
      destruct (find_ph (edges nd) r) as [ph|]; [|reflexivity].
      destruct (Nat.eqb sid t || targets_id (edges nds) t); [reflexivity|].
      destruct (reconcile (ek ph) b) as [[l rt]|]; [|reflexivity].
      destruct (replace_ph (edges nd) r _) as [es'|]; [|reflexivity]. cbn [option_map]. unfold nk_state. cbn [bstack graph opens errors rid].
      f_equal. f_equal. rewrite <- add_edge_map. f_equal.
      exact (set_nth_map nk_node (graph s) t {| nkind := nkind nd; edges := es' |}).
    + destruct (bstack s) as [|sid st]; [reflexivity|]. rewrite nth_error_map.
      destruct (nth_error (graph s) sid) as [nds|]; cbn [option_map]; [|reflexivity].
      unfold nk_state. cbn [bstack graph opens errors rid]. rewrite add_edge_map. reflexivity.
  - reflexivity.
Qed.

Lemma bfold_nk : forall h s, Forall ev_ok h -> bfold (nk_state s) (map nkev h) = option_map nk_state (bfold s h).
Proof.
  induction h as [|e t IH]; intros s Hok; cbn [map bfold]; [reflexivity|]. inversion Hok as [|? ? He Ht]; subst.
  rewrite (bstep_nk s e He). destruct (bstep s e) as [s1|]; cbn [option_map]; [apply IH; exact Ht | reflexivity].
Qed.

Lemma conv_nodes_nk : forall ns, conv_nodes (map nk_node ns) = match conv_nodes ns with BOk g => BOk (map nk_atom g) | x => x end.
Proof.
  induction ns as [|n t IH]; cbn [map conv_nodes]; [reflexivity|]. cbn [nk_node edges nkind].
  destruct (conv_edges (edges n)) as [l|]; [|reflexivity]. rewrite IH. destruct (conv_nodes t); reflexivity.
Qed.
Lemma build_nk s : build (nk_state s) = match build s with BOk g => BOk (map nk_atom g) | x => x end.
Proof. unfold build. cbn [nk_state errors graph]. destruct (errors s); [apply conv_nodes_nk | reflexivity]. Qed.

(* the general form: the three outcomes are preserved *)
Theorem bld_nk : forall h, (forall b k, In (EExtend b k) h -> known_invert_panic k = false) ->
  bld (map nkev h) = match bld h with BOk g => BOk (map nk_atom g) | x => x end.
Proof.
  intros h Hk. assert (Hok : Forall ev_ok h).
  { apply Forall_forall. intros e He. destruct e; cbn [ev_ok]; try exact I. eapply Hk. exact He. }
  unfold bld. change b0 with (nk_state b0) at 1. rewrite (bfold_nk h b0 Hok).
  destruct (bfold b0 h) as [s|]; cbn [option_map]; [apply build_nk | reflexivity].
Qed.

Theorem build_commutes_with_shorthands : forall h g,
  (forall b k, In (EExtend b k) h -> known_invert_panic k = false) ->
  bld h = BOk g -> bld (map nkev h) = BOk (map nk_atom g).
Proof. intros h g Hk H. rewrite (bld_nk h Hk), H. reflexivity. Qed.

Print Assumptions build_ok_joins_matched.
Print Assumptions build_commutes_with_shorthands.
