(* C05, locality of the token productions: what a production answers is determined by the characters up to and
   including the one after the token it read (one character of lookahead), resp. up to and including the character
   it reports.  Finite check on each learned trie (r_peek bound), lifted by Meta/ScanMeta.run_local, then through
   the six fields of a bracket atom. *)
From Coq Require Import String.
From Coq Require Import List NArith Lia Bool Arith.
Import ListNotations.
Require Import P.Generated.Enums P.Meta.Scan P.Meta.ScanMeta P.Spec.Values P.Generated.Trees P.Checks.Token_defs
  P.Model.Base P.Model.Token P.Proofs.TokenSafe.
Strategy opaque [tree_symbol tree_organic tree_configuration tree_charge tree_bond tree_rnum tree_hcount tree_isotope tree_map].

(* ---------- prefixes ---------- *)
Lemma firstn_le {A} (x y : list A) k n : k <= n -> firstn n x = firstn n y -> firstn k x = firstn k y.
Proof.
  intros Hk H. assert (E : forall z : list A, firstn k z = firstn k (firstn n z)) by (intros z; rewrite firstn_firstn; f_equal; lia).
  rewrite (E x), (E y), H. reflexivity.
Qed.
Lemma firstn_skipn_agree {A} : forall o k (x y : list A), firstn (o + k) x = firstn (o + k) y -> firstn k (skipn o x) = firstn k (skipn o y).
Proof.
  induction o as [|o IH]; intros k x y H; [exact H|].
  destruct x as [|a x]; destruct y as [|b y]; cbn [Nat.add firstn skipn] in *.
  - reflexivity.
  - destruct k; [reflexivity|]. replace (o + S k) with (S (o + k)) in H by lia. destruct o; discriminate.
  - destruct k; [reflexivity|]. replace (o + S k) with (S (o + k)) in H by lia. destruct o; discriminate.
  - inversion H. apply IH. assumption.
Qed.
Lemma firstn_agree {A} : forall k (x y : list A), firstn k x = firstn k y -> forall i, i < k -> nth_error x i = nth_error y i.
Proof.
  induction k as [|k IH]; intros x y H i Hi; [lia|].
  destruct x as [|a x]; destruct y as [|b y]; cbn [firstn] in H; try discriminate; [reflexivity|].
  inversion H; subst. destruct i as [|i]; [reflexivity|]. cbn [nth_error]. apply (IH _ _ H2). lia.
Qed.

(* ---------- one trie ---------- *)
(* how far a result looked: 1 + the index of the last character that matters *)
Definition ext {A} (t : tok A) : option nat :=
  match t with TOk _ m => Some m | TNo => Some 0 | TErrChar j => Some j | _ => None end.
Definition tok_loc {A} (rd : list N -> tok A) : Prop :=
  forall x y e, ext (rd x) = Some e -> firstn (S e) x = firstn (S e) y -> rd y = rd x.

Definition la {V} (r : res V) : bool :=
  match r_out r with
  | OVal _ => r_peek r <=? S (r_pos r)
  | ONone => (r_peek r <=? 1)
  | OErrChar i => r_peek r <=? S i
  | _ => true end.
Lemma la_symbol : every tree_symbol la. Proof. apply every_by_family; vm_compute; reflexivity. Qed.
Lemma la_organic : every tree_organic la. Proof. apply every_by_family; vm_compute; reflexivity. Qed.
Lemma la_configuration : every tree_configuration la. Proof. apply every_by_family; vm_compute; reflexivity. Qed.
Lemma la_charge : every tree_charge la. Proof. apply every_by_family; vm_compute; reflexivity. Qed.
Lemma la_bond : every tree_bond la. Proof. apply every_by_family; vm_compute; reflexivity. Qed.
Lemma la_rnum : every tree_rnum la. Proof. apply every_by_family; vm_compute; reflexivity. Qed.
Lemma la_hcount : every tree_hcount la. Proof. apply every_by_family; vm_compute; reflexivity. Qed.
Lemma la_isotope : every tree_isotope la. Proof. apply every_by_family; vm_compute; reflexivity. Qed.
Lemma la_map : every tree_map la. Proof. apply every_by_family; vm_compute; reflexivity. Qed.

Lemma run_tok_loc {V} (t : tree V) : every t la -> tok_loc (run_tok t).
Proof.
  intros Hla x y e He Hxy. unfold run_tok in *.
  assert (Hrun : run t y 0 0 = run t x 0 0).
  { apply run_local. rewrite Nat.sub_0_r. intros i Hi. apply (firstn_agree (S e) x y Hxy).
    specialize (Hla x). unfold la in Hla. unfold of_run in He.
    destruct (r_out (run t x 0 0)) as [v| | |j|k]; cbn [ext] in He; try discriminate.
    - inversion He; subst. apply Nat.leb_le in Hla. lia.
    - destruct (Nat.eqb (r_pos (run t x 0 0)) 0); [|discriminate]. inversion He; subst. apply Nat.leb_le in Hla. lia.
    - inversion He; subst. apply Nat.leb_le in Hla. lia. }
  rewrite Hrun. reflexivity.
Qed.

(* ---------- readers at an offset of the text ---------- *)
Definition LocM {B} (R : list N -> nat -> tok B) : Prop :=
  forall s o e, ext (R s o) = Some e -> o <= e /\ forall u, firstn (S e) s = firstn (S e) u -> R u o = R s o.

Lemma LocM_opt {A B} (rd : list N -> tok A) (K : option A -> list N -> nat -> tok B) :
  tok_loc rd -> (forall ov, LocM (K ov)) -> LocM (fun s o => bind_opt (rd (skipn o s)) o (fun ov o' => K ov s o')).
Proof.
  intros Hrd HK s o e He. cbv beta in *.
  destruct (rd (skipn o s)) as [v m| | |j|] eqn:E; cbn [bind_opt ext] in He; try discriminate.
  - destruct (HK (Some v) s (o + m) e He) as [Hle Hu]. split; [lia|]. intros u Hsu.
    assert (E' : rd (skipn o u) = rd (skipn o s)).
    { apply (Hrd _ _ m); [rewrite E; reflexivity|]. apply firstn_skipn_agree. apply (firstn_le _ _ _ (S e)); [lia | exact Hsu]. }
    rewrite E', E. cbn [bind_opt]. apply Hu. exact Hsu.
  - destruct (HK None s o e He) as [Hle Hu]. split; [lia|]. intros u Hsu.
    assert (E' : rd (skipn o u) = rd (skipn o s)).
    { apply (Hrd _ _ 0); [rewrite E; reflexivity|]. apply firstn_skipn_agree. apply (firstn_le _ _ _ (S e)); [lia | exact Hsu]. }
    rewrite E', E. cbn [bind_opt]. apply Hu. exact Hsu.
  - inversion He; subst e. split; [lia|]. intros u Hsu.
    assert (E' : rd (skipn o u) = rd (skipn o s)).
    { apply (Hrd _ _ j); [rewrite E; reflexivity|]. apply firstn_skipn_agree. apply (firstn_le _ _ _ (S (o + j))); [lia | exact Hsu]. }
    rewrite E', E. reflexivity.
Qed.
Lemma LocM_req {A B} (rd : list N -> tok A) (K : A -> list N -> nat -> tok B) :
  tok_loc rd -> (forall v, LocM (K v)) -> LocM (fun s o => bind_req (rd (skipn o s)) o (fun v o' => K v s o')).
Proof.
  intros Hrd HK s o e He. cbv beta in *.
  destruct (rd (skipn o s)) as [v m| | |j|] eqn:E; cbn [bind_req ext] in He; try discriminate.
  - destruct (HK v s (o + m) e He) as [Hle Hu]. split; [lia|]. intros u Hsu.
    assert (E' : rd (skipn o u) = rd (skipn o s)).
    { apply (Hrd _ _ m); [rewrite E; reflexivity|]. apply firstn_skipn_agree. apply (firstn_le _ _ _ (S e)); [lia | exact Hsu]. }
    rewrite E', E. cbn [bind_req]. apply Hu. exact Hsu.
  - inversion He; subst e. split; [lia|]. intros u Hsu.
    assert (E' : rd (skipn o u) = rd (skipn o s)).
    { apply (Hrd _ _ j); [rewrite E; reflexivity|]. apply firstn_skipn_agree. apply (firstn_le _ _ _ (S (o + j))); [lia | exact Hsu]. }
    rewrite E', E. reflexivity.
Qed.
Lemma LocM_close {B} (f : nat -> B) :
  LocM (fun s o => match skipn o s with c' :: _ => if N.eqb c' RB then TOk (f o) (S o) else TErrChar o | [] => TErrEol end).
Proof.
  intros s o e He. cbv beta in *.
  assert (Hk : forall u, firstn (S o) s = firstn (S o) u -> firstn 1 (skipn o s) = firstn 1 (skipn o u)).
  { intros u Hu. apply firstn_skipn_agree. replace (o + 1) with (S o) by lia. exact Hu. }
  destruct (skipn o s) as [|c' l] eqn:E; [discriminate|].
  assert (Hle : o <= e) by (destruct (N.eqb c' RB); inversion He; lia).
  split; [exact Hle|]. intros u Hsu. assert (Hso : S o <= S e) by lia. specialize (Hk u (firstn_le s u (S o) (S e) Hso Hsu)).
  destruct (skipn o u) as [|c'' l']; cbn [firstn] in Hk; [discriminate|]. inversion Hk; subst. reflexivity.
Qed.

(* ---------- bracket, atom, bond, rnum ---------- *)
Lemma head_agree (x y : list N) : firstn 1 x = firstn 1 y -> hd_error x = hd_error y.
Proof. destruct x, y; cbn [firstn hd_error]; intros H; inversion H; reflexivity. Qed.

Theorem bracket_loc : tok_loc read_bracket.
Proof.
  intros x y e He Hxy.
  assert (Hhd : hd_error x = hd_error y) by (apply head_agree; apply (firstn_le _ _ _ (S e)); [lia | exact Hxy]).
  assert (HL : LocM (fun s o =>
      bind_opt (run_tok tree_isotope (skipn o s)) o (fun iso o =>
      bind_req (run_tok tree_symbol (skipn o s)) o (fun sym o =>
      bind_opt (run_tok tree_configuration (skipn o s)) o (fun cfg o =>
      bind_opt (run_tok tree_hcount (skipn o s)) o (fun h o =>
      bind_opt (run_tok tree_charge (skipn o s)) o (fun chg o =>
      bind_opt (run_tok tree_map (skipn o s)) o (fun mp o =>
        match skipn o s with
        | c' :: _ => if N.eqb c' RB then TOk (AK_Bracket iso sym cfg h chg mp) (S o) else TErrChar o
        | [] => TErrEol
        end)))))))).
  { apply (LocM_opt _ (fun iso s o => _) (run_tok_loc _ la_isotope)). intros iso.
    apply (LocM_req _ (fun sym s o => _) (run_tok_loc _ la_symbol)). intros sym.
    apply (LocM_opt _ (fun cfg s o => _) (run_tok_loc _ la_configuration)). intros cfg.
    apply (LocM_opt _ (fun h s o => _) (run_tok_loc _ la_hcount)). intros h.
    apply (LocM_opt _ (fun chg s o => _) (run_tok_loc _ la_charge)). intros chg.
    apply (LocM_opt _ (fun mp s o => _) (run_tok_loc _ la_map)). intros mp.
    apply (LocM_close (fun o => AK_Bracket iso sym cfg h chg mp)). }
  unfold read_bracket in *. destruct x as [|c x']; destruct y as [|c2 y']; cbn [hd_error] in Hhd; try discriminate; [reflexivity|].
  inversion Hhd; subst c2. destruct (N.eqb c LB); [|reflexivity].
  destruct (HL (c :: x') 1 e He) as [_ Hu]. apply Hu. exact Hxy.
Qed.
Lemma organic_loc : tok_loc read_organic.
Proof.
  intros x y e He Hxy. unfold read_organic in *.
  assert (E : run_tok tree_organic y = run_tok tree_organic x); [|rewrite E; reflexivity].
  apply (run_tok_loc _ la_organic x y e); [|exact Hxy].
  destruct (run_tok tree_organic x) as [[a|a|] m| | |j|]; cbn [ext] in *; try discriminate; exact He.
Qed.
Lemma star_loc : tok_loc read_star.
Proof.
  intros x y e He Hxy. unfold read_star.
  assert (Hhd : hd_error x = hd_error y) by (apply head_agree; apply (firstn_le _ _ _ (S e)); [lia | exact Hxy]).
  destruct x as [|c x']; destruct y as [|c2 y']; cbn [hd_error] in Hhd; try discriminate; [reflexivity|]. inversion Hhd. reflexivity.
Qed.
Lemma ext_weaken {A} (rd : list N -> tok A) : tok_loc rd -> forall x y e, rd x = TNo -> firstn (S e) x = firstn (S e) y -> rd y = TNo.
Proof. intros H x y e E Hxy. rewrite <- E. apply (H x y 0); [rewrite E; reflexivity | apply (firstn_le _ _ _ (S e)); [lia | exact Hxy]]. Qed.
Theorem atom_loc : tok_loc read_atom.
Proof.
  intros x y e He Hxy. unfold read_atom in *.
  destruct (read_organic x) as [k m| | |j|] eqn:Eo.
  - rewrite (organic_loc x y e); [rewrite Eo; reflexivity | rewrite Eo; exact He | exact Hxy].
  - rewrite (ext_weaken _ organic_loc x y e Eo Hxy).
    destruct (read_bracket x) as [k m| | |j|] eqn:Eb.
    + rewrite (bracket_loc x y e); [rewrite Eb; reflexivity | rewrite Eb; exact He | exact Hxy].
    + rewrite (ext_weaken _ bracket_loc x y e Eb Hxy). apply (star_loc x y e He Hxy).
    + discriminate.
    + rewrite (bracket_loc x y e); [rewrite Eb; reflexivity | rewrite Eb; exact He | exact Hxy].
    + discriminate.
  - discriminate.
  - rewrite (organic_loc x y e); [rewrite Eo; reflexivity | rewrite Eo; exact He | exact Hxy].
  - discriminate.
Qed.
Theorem rnum_loc : tok_loc read_rnum.
Proof.
  intros x y e He Hxy. unfold read_rnum in *.
  assert (E : run_tok tree_rnum y = run_tok tree_rnum x); [|rewrite E; reflexivity].
  apply (run_tok_loc _ la_rnum x y e); [|exact Hxy].
  destruct (run_tok tree_rnum x) as [r m| | |j|]; cbn [ext] in *; try discriminate; exact He.
Qed.
Theorem bond_loc x y : firstn (S (snd (read_bond x))) x = firstn (S (snd (read_bond x))) y -> read_bond y = read_bond x.
Proof.
  unfold read_bond. pose proof (sane_bond x) as Hs. cbv beta in Hs. unfold run_tok at 1 2 4, of_run.
  destruct (r_out (run tree_bond x 0 0)) as [v| | |j|k] eqn:E; try discriminate. cbn [snd]. intros Hxy.
  assert (E' : run_tok tree_bond y = run_tok tree_bond x).
  { apply (run_tok_loc _ la_bond x y (r_pos (run tree_bond x 0 0))); [|exact Hxy]. unfold run_tok, of_run. rewrite E. reflexivity. }
  rewrite E'. unfold run_tok, of_run. rewrite E. reflexivity.
Qed.
