(* The events emitted by the traversal carry values in range: kinds are the graph's kinds up to configuration, ring
   numbers are below 100 (they passed to_rnum). *)
From Coq Require Import List NArith Lia Bool Arith.
Import ListNotations.
Require Import P.Generated.Enums P.Spec.Values P.Generated.Tables P.Model.Base P.Model.Pool P.Model.Walk P.Proofs.TokenFacts P.Proofs.BodyFacts P.Proofs.C09_Final P.Proofs.WalkInv P.Proofs.FollowerSafe.

Definition okg (g : list atom) : Prop := forall a, In a g -> okk (akind a).
Lemma okk_invert k k' : okk k -> invert k = KOk k' -> okk k'.
Proof.
  destruct k as [| | |i s c h g m]; cbn [invert]; intros H E; try (inversion E; subst; exact H).
  destruct (invert_table c h); inversion E; subst; exact H.
Qed.
Lemma okk_invert_noH k : okk k -> okk (invert_noH k).
Proof.
  destruct k as [| | |i s c h g m]; cbn [invert_noH]; intros H; try exact H.
  destruct (has_hydrogens h); [exact H|]. destruct c as [c|]; [|exact H]. destruct c; exact H.
Qed.
Lemma scan_okk : forall l sid k back pushes k' back' pushes', okk k -> scan_bonds l sid k back pushes = SOk k' back' pushes' -> okk k'.
Proof.
  induction l as [|[idx out] l IH]; intros sid k back pushes k' back' pushes' Hk H; cbn [scan_bonds] in H; [inversion H; subst; exact Hk|].
  destruct (Nat.eqb (tid out) sid); [|eapply IH; eassumption].
  destruct (Nat.even idx).
  - destruct (invert k) as [k1|] eqn:E; [|discriminate]. destruct back; [discriminate|]. eapply (IH _ k1); [eapply okk_invert; eassumption | exact H].
  - destruct back; [discriminate|]. eapply (IH _ (invert_noH k)); [apply okk_invert_noH; exact Hk | exact H].
Qed.
Lemma hit_small p a b r p' : hit p a b = POk r p' -> okr r.
Proof.
  unfold hit, okr, to_rnum. destruct (lookup (borrowed p) (a, b)) as [n|].
  - destruct (N.ltb_spec n 100); intros E; inversion E; subst; assumption.
  - destruct (list_min (replaced p)) as [m|].
    + destruct (N.ltb_spec m 100); intros E; inversion E; subst; assumption.
    + destruct (65535 <=? counter p)%N; [discriminate|]. destruct (N.ltb_spec (counter p) 100); intros E; inversion E; subst; assumption.
Qed.

Definition remok (rm : list (option atom)) : Prop := forall x a, nth x rm None = Some a -> okk (akind a).
Definition vinv (s : wstate) : Prop := remok (rem s) /\ Forall okev (evs s).
Lemma remok_set rm i : remok rm -> remok (set_nth rm i None).
Proof.
  intros H x a E. destruct (Nat.eq_dec i x) as [->|Hne].
  - destruct (Nat.lt_ge_cases x (length rm)); [rewrite set_nth_same in E by assumption; discriminate|].
    rewrite nth_overflow in E; [discriminate|]. rewrite set_nth_length. assumption.
  - rewrite set_nth_other in E by exact Hne. eapply H. exact E.
Qed.
Lemma step_vinv size s : vinv s -> match step size s with Cont s' | Done s' | Stop _ s' => vinv s' end.
Proof.
  intros [Hr He]. unfold step. destruct (stk s) as [|[sid b] stk']; [split; assumption|].
  destruct (size <=? tid b); [split; assumption|]. destruct (Nat.eqb (tid b) sid); [split; assumption|].
  destruct (unwind (chain s) sid 0) as [[ch pc]|]; [|split; assumption].
  assert (He1 : Forall okev (if Nat.eqb pc 0 then evs s else EPop pc :: evs s)) by (destruct (Nat.eqb pc 0); [exact He | constructor; [exact I | exact He]]).
  destruct (nth (tid b) (rem s) None) as [child|] eqn:Ec.
  - destruct (scan_bonds _ _ _ _ _) as [k [bk'|] pushes| |] eqn:Es; try (split; [apply remok_set; exact Hr | exact He1]).
    destruct (negb (compatible b bk')); (split; [apply remok_set; exact Hr|]); [exact He1|].
    constructor; [|exact He1]. cbn [okev]. eapply scan_okk; [eapply Hr; exact Ec | exact Es].
  - destruct (hit (wpool s) sid (tid b)) as [r p'| |] eqn:Eh; (split; [exact Hr|]); try exact He1.
    constructor; [|exact He1]. cbn [okev]. eapply hit_small. exact Eh.
Qed.
Lemma run_root_vinv : forall fuel size s, vinv s -> vinv (snd (run_root fuel size s)).
Proof.
  induction fuel as [|f IH]; intros size s H; cbn [run_root]; [exact H|]. pose proof (step_vinv size s H) as Hs.
  destruct (step size s); [apply IH; exact Hs | exact Hs | exact Hs].
Qed.
Lemma outer_vinv : forall ids fuel size s, vinv s -> vinv (snd (outer ids fuel size s)).
Proof.
  induction ids as [|id rest IH]; intros fuel size s H; cbn [outer]; [exact H|].
  destruct (nth id (rem s) None) as [root|] eqn:Er; [|apply IH; exact H].
  assert (Hs : vinv (start_root s id root)).
  { destruct H as [Hr He]. split; cbn [start_root rem evs]; [apply remok_set; exact Hr | constructor; [cbn [okev]; eapply Hr; exact Er | exact He]]. }
  pose proof (run_root_vinv fuel size _ Hs) as H1. destruct (run_root fuel size (start_root s id root)) as [r s1]. cbn [snd] in H1.
  destruct r; try exact H1. apply IH. exact H1.
Qed.
Theorem walk_events_in_range g h r : okg g -> walk g = (r, h) -> Forall okev h.
Proof.
  intros Hg. unfold walk. destruct (validate g); [intros E; inversion E; constructor|]. unfold traverse.
  assert (H0 : vinv (state0 g)).
  { split; [|constructor]. intros x a E. cbn [state0 rem] in E. apply Hg.
    destruct (Nat.lt_ge_cases x (length g)) as [Hx|Hx].
    - rewrite (nth_indep _ None (Some a)) in E by (rewrite map_length; exact Hx). rewrite map_nth in E. inversion E as [E1]. rewrite <- E1 at 1. apply nth_In. exact Hx.
    - rewrite nth_overflow in E by (rewrite map_length; exact Hx). discriminate. }
  pose proof (outer_vinv (seq 0 (length g)) (S (total_bonds g)) (length g) (state0 g) H0) as H.
  destruct (outer _ _ _ _) as [r' s]. intros E. inversion E; subst. apply Forall_rev. apply H.
Qed.
